#!/bin/bash
# serialised lake (same lock as checklib.LakeLock): tools/lake.sh build GlmVerif.Props.C02
cd "$(dirname "$0")/../lean" && mkdir -p ../.cache && exec flock ../.cache/lake.lock lake "$@"
