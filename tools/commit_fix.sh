#!/bin/bash
# commit_fix.sh <patch.diff> <message-file>
# Apply a candidate glm repair in the scratch worktree /tmp/wt_fix, run glm's unedited test suite there,
# and only if it builds and passes 185/185 apply + commit it in /repo (message must start with "fix:").
set -e
P=$(realpath "$1"); M=$(realpath "$2")
head -c 4 "$M" | grep -q "fix:" || { echo "message must start with fix:"; exit 2; }
[ -d /tmp/wt_fix ] || git -C /repo worktree add /tmp/wt_fix HEAD > /dev/null
cd /tmp/wt_fix && git checkout -q -- . && git checkout -q --detach "$(git -C /repo rev-parse HEAD)" && git apply "$P"
OUT=$(/verif/tools/run_suite.sh /tmp/wt_fix /tmp/wt_fix_build 2>&1 | tail -1)
git checkout -q -- .
echo "$OUT"
case "$OUT" in *"rc=0 0 tests failed out of 185"*) ;; *) echo "suite not green: NOT committed"; exit 1;; esac
cd /repo && git apply "$P" && git commit -q -a -F "$M" && git log --oneline | head -1
