import GlmVerif.Spec.All
def main (args : List String) : IO Unit := do
  for f in Glm.Spec.familiesOf (args.headD "") do
    IO.println s!"{f.name} {f.unit}"
