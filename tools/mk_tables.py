#!/usr/bin/env python3
"""mk_tables.py <prop> : write lean/GlmVerif/Props/<prop>/T_<family>.lean — one kernel-checked table
theorem per family of Spec/<prop>.lean, each importing only the generated module of the units it talks
about (so lake re-checks, in parallel, exactly the tables whose traces changed) — and
lean/GlmVerif/Props/<prop>/All.lean with `all_ok`.  Run by hand when a family is added; the output is
committed (the checks do not regenerate it)."""
import re, sys, os, subprocess
prop = sys.argv[1]
DEEP = {'unprojP'}     # families whose kernel evaluation needs a deeper recursion limit
here = os.path.dirname(os.path.abspath(__file__))
root = os.path.join(here, '..', 'lean', 'GlmVerif')
subprocess.run([os.path.join(here, 'lake.sh'), 'build', 'GlmVerif.Spec.All'], check=True, stdout=subprocess.DEVNULL)
out = subprocess.run(['lake', 'env', 'lean', '--run', os.path.join(here, 'ListFams.lean'), prop], cwd=os.path.join(here, '..', 'lean'),
                     check=True, stdout=subprocess.PIPE, text=True).stdout
fams = [l.split() for l in out.strip().split('\n') if l.strip()]
d = os.path.join(root, 'Props', prop)
os.makedirs(d, exist_ok=True)
keep = {'All.lean'}
for name, unit in fams:
    keep.add('T_%s.lean' % name)
    open(os.path.join(d, 'T_%s.lean' % name), 'w').write('''import GlmVerif.Spec.%s
import GlmVerif.Gen.%s.%s
/-! table check of family `%s` against the model of its units generated from /repo (kernel evaluation) -/
namespace Glm.Props.%s
open Glm Glm.Spec.%s Glm.Gen.%s
set_option maxHeartbeats 4000000 in%s
theorem %s_ok : f_%s.ok (fun _ ks => %s_L ks) = true := by decide +kernel
end Glm.Props.%s
''' % (prop, prop, unit, name, prop, prop, prop, ('\nset_option maxRecDepth 1000000 in' if name in DEEP else ''), name, name, unit, prop))
for f in os.listdir(d):
    if f.endswith('.lean') and f.startswith('T_') and f not in keep: os.remove(os.path.join(d, f))
imports = ''.join('import GlmVerif.Props.%s.T_%s\n' % (prop, n) for n, _ in fams)
items = ',\n    '.join('(Family.ok_congr f_%s (fun ks => by rw [show f_%s.unit = "%s" from rfl, lookup_%s])).trans %s_ok' % (n, n, u, u, n) for n, u in fams)
open(os.path.join(d, 'All.lean'), 'w').write('''import GlmVerif.Gen.%s
%s/-! every family table of %s holds for the model generated from the current /repo -/
namespace Glm.Props.%s
open Glm Glm.Spec.%s Glm.Gen.%s
theorem all_ok : ∀ f ∈ families, f.ok lookup = true := by
  simp only [families, List.mem_cons, List.not_mem_nil, or_false, forall_eq_or_imp, forall_eq]
  exact ⟨%s⟩
end Glm.Props.%s
''' % (prop, imports, prop, prop, prop, prop, items, prop))
print('families:', len(fams))
