#!/bin/bash
# run_mutant.sh <patch.diff> <prop> [more props…]
# Apply a candidate change to a PRIVATE worktree of /repo (never to /repo itself while other work is running),
# run the quick checks against it through VERIF_REPO, print their verdict lines, then restore the generated
# Lean data / evidence of /verif and remove the worktree.
P=$(realpath "$1"); shift
W=/tmp/mut_$$
git -C /repo worktree add -q "$W" HEAD || exit 2
git -C "$W" apply "$P" || { echo "patch does not apply"; git -C /repo worktree remove --force "$W"; exit 2; }
cd /verif
for prop in "$@"; do
  echo "== $prop against $(basename "$P")"
  VERIF_REPO="$W" timeout 3000 python3 check.py "$prop" 2>&1 | grep -E "VIOLATION|KNOWN-FINDING|quick:|Traceback|Error" | cut -c1-300
  echo "exit=${PIPESTATUS[0]}"
  for f in replays/$prop-*.json; do [ -f "$f" ] && { echo "-- $f"; head -c 700 "$f"; echo; break; }; done
done
git -C /verif checkout -q -- lean/GlmVerif/Gen evidence 2>/dev/null
git -C /verif clean -fdq lean/GlmVerif/Gen 2>/dev/null
git -C /repo worktree remove --force "$W"
