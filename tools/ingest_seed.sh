#!/bin/bash
# ingest_seed.sh <id> <prop> [more props…] : copy /tmp/seed_<id>_out to seeded/<id>, confirm the patch applies to /repo HEAD, the demo fails
# with it and passes without, then run the checks through run_mutant.sh
ID=$1; shift
S=/verif/seeded/$ID; mkdir -p $S; cp /tmp/seed_${ID}_out/{patch.diff,demo.cpp,meta.json} $S/ || exit 2
W=/tmp/ing_$$; git -C /repo worktree add -q $W HEAD || exit 2
git -C $W apply $S/patch.diff || { echo "PATCH DOES NOT APPLY"; git -C /repo worktree remove --force $W; exit 2; }
FL=$(head -1 $S/demo.cpp | sed -n "s,^// FLAGS:,,p" | grep -o -- "-[DUfm][^ ]*" | tr "\n" " ")
g++ -std=c++17 $FL -I$W $S/demo.cpp -o /tmp/ing_demo_m_$$ 2>/dev/null && { /tmp/ing_demo_m_$$ >/dev/null 2>&1; echo "demo with patch: exit=$?"; }
g++ -std=c++17 $FL -I/repo $S/demo.cpp -o /tmp/ing_demo_c_$$ 2>/dev/null && { /tmp/ing_demo_c_$$ >/dev/null 2>&1; echo "demo clean: exit=$?"; }
rm -f /tmp/ing_demo_*_$$; git -C /repo worktree remove --force $W
/verif/tools/run_mutant.sh $S/patch.diff "$@"
