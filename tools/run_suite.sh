#!/bin/bash
# run_suite.sh <glm-source-dir> [build-dir]
# Configure/build/run glm's own test suite (the 185 pinned tests) for a source tree,
# the same way the baseline was produced (cmake -G Ninja, RelWithDebInfo, tests on).
# Prints "SUITE passed=<n> failed=<m>"; exit 0 iff everything passed.
SRC=${1:?source dir}; B=${2:-$SRC/_vbuild}
J=$(nproc)
if [ ! -f "$B/build.ninja" ]; then
  cmake -S "$SRC" -B "$B" -G Ninja -DCMAKE_BUILD_TYPE=RelWithDebInfo -DBUILD_TESTING=ON -DGLM_BUILD_TESTS=ON -DGLM_TEST_ENABLE=ON \
    -DCMAKE_POLICY_VERSION_MINIMUM=3.5 -DCMAKE_CXX_FLAGS="-Wno-error" -DCMAKE_C_FLAGS="-Wno-error" > "$B.conf.log" 2>&1 || { echo "SUITE configure-failed"; tail -5 "$B.conf.log"; exit 2; }
fi
cmake --build "$B" -j$J -- -k0 > "$B.build.log" 2>&1 || { echo "SUITE build-failed"; grep -E "error|FAILED" "$B.build.log" | head -20; exit 2; }
ctest --test-dir "$B" -j$J --timeout 900 > "$B.test.log" 2>&1; rc=$?
p=$(grep -oE '[0-9]+ tests failed out of [0-9]+' "$B.test.log")
tail -3 "$B.test.log"
grep -E "^\s*[0-9]+ - .*(Failed|Timeout|Exception)" "$B.test.log" | head -20
echo "SUITE rc=$rc $p"
exit $rc
