#!/usr/bin/env python3
"""check.py <property> [--tier quick|thorough]      (cwd anywhere; honours VERIF_SEED, VERIF_TIER)
   check.py --setup                                build the Lean library, the driver and all unit binaries

Exit 0: every obligation of the property was re-proved against the model regenerated from
/repo's working tree, the audit is clean and model/implementation/specification agree on
everything explored.  Exit 1 with `VIOLATION property=<id> replay=<path>` otherwise.
"""
import os, sys, re, json, time, argparse, glob, subprocess
from checklib import *

# ---------------------------------------------------------------------------------------------
# property table.  kind t1: traced units + reflective theorems + correspondence.
PROPS = {
    'C01': dict(kind='t1', units='C01', corr_quick=100, corr_thorough=5000),
    'C13': dict(kind='t1', units='C13', corr_quick=300, corr_thorough=20000),
    'C16': dict(kind='t1', units='C16', corr_quick=100, corr_thorough=2000, layout=True),
    'C17': dict(kind='t1', units='C17', corr_quick=20, corr_thorough=500),
    'C19': dict(kind='t1', units='C19', corr_quick=300, corr_thorough=20000),
    'C02': dict(kind='t1', units='C02', corr_quick=60, corr_thorough=4000),
    'C04': dict(kind='t1', units='C04', corr_quick=200, corr_thorough=10000),
    'C08': dict(kind='t1', units='C08', corr_quick=200, corr_thorough=10000),
    'C09': dict(kind='t1', units='C09', corr_quick=200, corr_thorough=10000),
    'C10': dict(kind='t1', units='C10', corr_quick=300, corr_thorough=20000),
    'C12': dict(kind='t1', units='C12', corr_quick=300, corr_thorough=20000),
}


def prop_modules(prop):
    """Props/<prop>.lean plus the per-family table modules Props/<prop>/*.lean"""
    mods = ['GlmVerif.Props.' + prop]
    d = os.path.join(LEAN, 'GlmVerif', 'Props', prop)
    if os.path.isdir(d):
        mods += sorted('GlmVerif.Props.%s.%s' % (prop, f[:-5]) for f in os.listdir(d) if f.endswith('.lean'))
    return mods



# hand-model properties integrated so far (checks/<cxx>.py, lean/Drv<Cxx>.lean)
H_PROPS = ['C03', 'C05', 'C06', 'C07', 'C11', 'C14', 'C18']


def parse_corr(out):
    m = re.search(r'CORR lines=(\d+) comps=(\d+) mismatches=(\d+) skipped=(\d+) nontrivial=(\d+) units=(\d+) speccmp=(\d+) specmismatch=(\d+)', out)
    if not m: return None
    k = ['lines', 'comps', 'mismatches', 'skipped', 'nontrivial', 'units', 'speccmp', 'specmismatch']
    return dict(zip(k, map(int, m.groups())))


def is_known(known, unit, comp):
    for k in known:
        if k.get('unit') == unit and (k.get('comps') == '*' or comp in k.get('comps', [])):
            return k
    return None


def run_t1(prop, cfg, tier, seed):
    t0 = time.time()
    cfg = dict(cfg, modules=prop_modules(prop))
    for old in glob.glob(os.path.join(REPLAYS, prop + '-*.json')): os.remove(old)
    known = known_findings(prop)
    violations = []       # (replay payload, has_input)
    known_hits = {}
    notes = []
    # 1. regenerate the model from /repo
    bins, err = build_units(cfg['units'])
    units_path = os.path.join(CACHE, prop + '.units')
    broken_tie = None
    if err:
        broken_tie = 'translator: unit TU no longer compiles against /repo: ' + err[-600:]
    else:
        e = run_bins(bins, ['trace'], units_path)
        if e: broken_tie = 'translator: trace run failed: ' + e
        else:
            e = gen_lean(units_path, prop)
            if e: broken_tie = 'translator: gen_lean failed: ' + e[-600:]
    layout_info = None
    if cfg.get('layout') and not broken_tie:
        rows_path, lerr, nrows = layout_rows()
        layout_info = dict(rows=nrows, rows_file=os.path.relpath(rows_path, VERIF))
        if lerr: broken_tie = 'translator: ' + lerr
    traced = open(units_path).read() if os.path.exists(units_path) else ''
    n_units = len(re.findall(r'^U ', traced, flags=re.M))
    n_failed_trace = len(re.findall(r'^X ', traced, flags=re.M))
    if n_failed_trace and not broken_tie:
        broken_tie = 'translator: %d unit(s) exceeded the path/depth cap' % n_failed_trace
    # 2. prove
    failing, build_out, build_s = [], '', 0.0
    all_thms = []
    if not broken_tie:
        rc, build_out, build_s = lake_build(cfg['modules'][:1])
        for mod in cfg['modules']:
            f = os.path.join(LEAN, mod.replace('.', '/') + '.lean')
            ns, names = theorems_in(f)
            all_thms += [ns + '.' + n for n in names]
            if rc != 0:
                failing += [ns + '.' + n for n in failing_decls(build_out, f)]
        if rc != 0 and not failing:
            # an imported module (Gen itself, Spec, Sem) failed or timed out: every theorem is unchecked
            failing = list(all_thms)
            notes.append('lake build failed outside the Props module: ' + build_out[-800:])
        log('lake build %s: rc=%d, %.1fs, %d/%d theorems check' % (cfg['modules'], rc, build_s, len(all_thms) - len(failing), len(all_thms)))
    # 2b. recorded findings: proved negations; not obligations (a repaired glm makes them fail to build)
    fmod = os.path.join(LEAN, 'GlmVerif', 'Findings', prop + '.lean')
    if os.path.exists(fmod) and not broken_tie:
        rcf, outf, _ = lake_build(['GlmVerif.Findings.' + prop])
        notes.append('findings module GlmVerif.Findings.%s: %s' % (prop, 'negations proved' if rcf == 0 else 'finding no longer reproduces (module does not build)'))
        if rcf != 0: log('finding no longer reproduces: GlmVerif.Findings.' + prop)
    # 3. audit (only meaningful when the modules built)
    axioms, audit_problems = {}, []
    if not broken_tie and not failing:
        ok, axioms, audit_problems = audit(prop, cfg['modules'])
        if tier == 'thorough':
            # independent re-check of the compiled property module by Lean's external checker
            with LakeLock():
                rcl, outl = sh(['lake', 'env', 'leanchecker', cfg['modules'][0]], cwd=LEAN, timeout=3600)
            notes.append('leanchecker %s: %s' % (cfg['modules'][0], 'accepted' if rcl == 0 else 'REJECTED'))
            if rcl != 0: audit_problems.append('leanchecker rejects %s: %s' % (cfg['modules'][0], outl[-300:]))
        if audit_problems: log('audit problems:', audit_problems[:5])
    # 4. correspondence: model vs real glm (bit-exact), spec vs real glm (exact on small integers)
    corr = None
    corr_msgs = []
    okd, dout = ensure_driver()
    if not okd:
        broken_tie = (broken_tie or '') + ' driver build failed: ' + dout[-500:]
    if not err and okd and os.path.exists(units_path):
        count = cfg['corr_thorough'] if tier == 'thorough' else cfg['corr_quick']
        run_path = os.path.join(CACHE, prop + '.run')
        e = run_bins(bins, ['run', str(seed), str(count)], run_path)
        if e:
            broken_tie = (broken_tie or '') + ' harness: ' + e
        else:
            rc, out = sh([DRIVER, 'corr', prop, units_path, run_path], timeout=3000)
            corr = parse_corr(out)
            corr_msgs = [l for l in out.split('\n') if l.startswith(('MISMATCH', 'SPECMISMATCH'))]
            if corr is None: broken_tie = (broken_tie or '') + ' driver corr failed: ' + out[-500:]
            else: log('correspondence:', corr)
    # 4b. numeric exploration of the clauses that have no theorem yet (trace/sym.hpp add_prop): supports the search
    #     for failing inputs, never counted as an obligation
    explore = None
    if not err and bins:
        pcount = cfg.get('props_thorough', 20000) if tier == 'thorough' else cfg.get('props_quick', 2000)
        ppath = os.path.join(CACHE, prop + '.props')
        e = run_bins(bins, ['props', str(seed), str(pcount)], ppath)
        if not e:
            ptxt = open(ppath).read()
            ev = sum(int(x) for x in re.findall(r'PROPS props=\d+ evaluated=(\d+)', ptxt))
            np_ = sum(int(x) for x in re.findall(r'PROPS props=(\d+)', ptxt))
            pf = re.findall(r'^PROPFAIL (\S+) (\S+) residual (\S+) tol (\S+) in (.*)$', ptxt, flags=re.M)
            explore = dict(properties=np_, evaluations=ev, failing=len(pf))
            if np_: log('numeric exploration:', explore)
            seenp = set()
            for name, ty, resid, tol, ins in pf:
                if name in seenp: continue
                seenp.add(name)
                k = is_known(known, name, -1) or next((kk for kk in known if kk.get('unit') == name), None)
                if k: known_hits[(name, k['what'])] = k; continue
                violations.append(dict(property=prop, kind='numeric-property-violated-on-real-glm', unit=name, type=ty, component=0,
                                       inputs=[float(x) for x in ins.split()], residual=float(resid), tolerance=float(tol),
                                       replay='trace unit binary: props <seed> <count> (property %s)' % name))
    # 4a. spec-vs-glm mismatches are violations with a concrete input
    for l in corr_msgs:
        m = re.match(r'SPECMISMATCH (\S+) (\S+) comp (\d+) in #\[([^\]]*)\] spec (\d+) glm (\d+)', l)
        if not m: continue
        unit, ty, comp = m.group(1), m.group(2), int(m.group(3))
        k = is_known(known, unit, comp)
        if k: known_hits[(unit, k['what'])] = k; continue
        violations.append(dict(property=prop, kind='glm-output-differs-from-specification', unit=unit, type=ty, component=comp,
                               input_bits=[int(x) for x in m.group(4).split(',')], spec_bits=int(m.group(5)), glm_bits=int(m.group(6)),
                               replay='trace unit binary: eval %s %s <input_bits>' % (unit, ty)))
    model_mismatch = [l for l in corr_msgs if l.startswith('MISMATCH')]
    # 5. a theorem no longer checks / the tie is broken: search model and implementation for a failing input
    unexplained = []
    if (failing or broken_tie or audit_problems or model_mismatch or known) and okd and os.path.exists(units_path) and not err:
        rc, out = sh([DRIVER, 'spec', prop, units_path, str(seed)], timeout=1800)
        fails = re.findall(r'^FAIL (\S+) (\S+)', out, flags=re.M)
        cex = {}
        cex_plain = {}
        for m in re.finditer(r'^CEX (\S+) comp (\d+) in #\[([^\]]*)\] model (\d+) spec (\d+)(?: fam (\S+) plain (\w+))?', out, flags=re.M):
            cex[m.group(1)] = (int(m.group(2)), [int(x) for x in m.group(3).split(',') if x.strip()], int(m.group(4)), int(m.group(5)))
            cex_plain[m.group(1)] = (m.group(7) != 'false', m.group(6))
        int_units = set(m.group(1) for m in re.finditer(r'^CEX (\S+) .* int$', out, flags=re.M))
        failing_fams = set()
        for fam, unit in fails:
            failing_fams.add(fam)
            if unit in cex:
                comp, bits, mval, sval = cex[unit]
                outs = eval_unit(bins, unit, 'i32' if unit in int_units else 'f64', bits)
                k = is_known(known, unit, comp)
                glm_val = outs[comp] if (outs is not None and comp < len(outs)) else None
                if outs is not None and not cex_plain.get(unit, (True, ''))[0]:
                    # the family compares an expression built from the outputs: apply it to what glm returned
                    rc2, o2 = sh([DRIVER, 'postval', prop, unit, str(comp)] + [str(b) for b in bits] + ['--'] + [str(b) for b in outs], timeout=120)
                    glm_val = None
                    for mm in re.finditer(r'POSTVAL (\S+) glm (\d+) spec (\d+)', o2):
                        if mm.group(1) == cex_plain[unit][1]: glm_val, sval = int(mm.group(2)), int(mm.group(3))
                if glm_val is not None and glm_val != sval:
                    if k: known_hits[(unit, k['what'])] = k; continue
                    violations.append(dict(property=prop, kind='glm-output-differs-from-specification', unit=unit, type=('int32/uint32 values' if unit in int_units else 'f64'), component=comp,
                                           input_bits=bits, spec_bits=sval, glm_bits=glm_val, model_bits=mval,
                                           failing_theorem='%s_ok' % fam, replay='trace unit binary: eval %s f64 <input_bits>' % unit))
                    continue
            if is_known(known, unit, -1) or any(kk.get('unit') == unit for kk in known):
                kk = [kk for kk in known if kk.get('unit') == unit][0]
                known_hits[(unit, kk['what'])] = kk; continue
            unexplained.append('unit %s of family %s no longer meets its specification table' % (unit, fam))
        # theorems that fail without any failing table entry behind them
        for t in failing:
            short = t.split('.')[-1]
            fam = re.sub(r'_(ok|correct|spec)$', '', short)
            if fam not in failing_fams and not any(fam.startswith(f) or f.startswith(fam) for f in failing_fams):
                unexplained.append('theorem %s no longer checks' % t)
    # layout table: list the rows that break the contract (each row is a concrete replay)
    if cfg.get('layout') and okd and os.path.exists(os.path.join(CACHE, 'C16.rows')):
        rc3, out3 = sh([DRIVER, 'layout', os.path.join(CACHE, 'C16.rows')], timeout=600)
        badrows = [l for l in out3.split('\n') if l.startswith('BADROW')]
        m3 = re.search(r'LAYOUT rows=(\d+) bad=(\d+)', out3)
        if layout_info is not None and m3: layout_info.update(rows_checked=int(m3.group(1)), rows_bad=int(m3.group(2)))
        for l in badrows[:5]:
            violations.append(dict(property=prop, kind='layout-row-breaks-documented-contract', unit='layout', component=0, row=l[7:],
                                   columns='cfg kind C R tsize talign isfloat aligned qual sizeof alignof value_ptr_offset length length_type_size aux | element byte offsets',
                                   replay='extract/layout_probe.py <glm root> rows.txt cache ; driver layout rows.txt'))
        if 'Glm.Props.C16.rows_ok' in failing and not badrows:
            unexplained.append('theorem Glm.Props.C16.rows_ok no longer checks')
        failing_rows_explained = bool(badrows)
    elif failing or broken_tie or audit_problems:
        unexplained += ['theorem %s no longer checks' % t for t in failing]
    if broken_tie: unexplained.append(broken_tie)
    unexplained += audit_problems
    if model_mismatch and not violations:
        unexplained.append('correspondence model≠glm: ' + model_mismatch[0][:300])

    # 6. verdict
    lines = []
    for (unit, what), k in sorted(known_hits.items()):
        lines.append('KNOWN-FINDING: property=%s %s (%s)' % (prop, what, unit))
    seen = set()
    for v in violations:
        key = (v['unit'], v['component'])
        if key in seen: continue
        seen.add(key)
        if len(seen) > 5: break
        lines.append('VIOLATION property=%s replay=%s' % (prop, write_replay(prop, v)))
    if unexplained and not violations:
        # only failures explained by known findings are tolerated
        payload = dict(property=prop, kind='obligation-or-correspondence-no-longer-checks', items=unexplained[:20],
                       failing_theorems=failing[:40], note='no concrete failing input was found by the search')
        lines.append('VIOLATION property=%s replay=%s no-failing-input-found' % (prop, write_replay(prop, payload)))
    nviol = sum(1 for l in lines if l.startswith('VIOLATION'))
    # known findings make their own theorems fail; count the rest as discharged
    explained_thms = [t for t in failing if nviol == 0]
    discharged = len(all_thms) - len(failing)
    samples = []
    for l in traced.split('\n'):
        if l.startswith('U ') and len(samples) < 3: samples.append(l)
    if os.path.exists(os.path.join(CACHE, prop + '.run')):
        with open(os.path.join(CACHE, prop + '.run')) as f:
            for i, l in enumerate(f):
                if i % 997 == 0 and len(samples) < 8: samples.append(l.strip()[:300])
    coverage = dict(
        obligations=len(all_thms), discharged=discharged,
        checker_cmd='cd lean && lake build ' + cfg['modules'][0] + '  (+ lake env lean .cache/Audit_%s.lean for #print axioms)' % prop,
        trusted_base=TRUSTED_BASE,
        theorems=[dict(name=t, axioms=axioms.get(t)) for t in all_thms],
        failing_theorems=failing, theorems_failing_only_for_known_findings=explained_thms,
        traced_units=n_units, lake_build_s=round(build_s, 1),
        evaluations=(corr or {}).get('lines', 0), distinct_nontrivial=(corr or {}).get('nontrivial', 0),
        rule='correspondence: each evaluation is one (unit, input tuple) run through the real glm (float and double) and through E.eval of the generated model, '
             'outputs compared bit for bit; inputs: small integers / uniform / wide-magnitude / special-value lattice from xoshiro256** seeded by VERIF_SEED; '
             'non-trivial = some output component is neither zero nor a copy of an input; spec comparisons = glm output vs textbook spec, exact on small-integer inputs',
        correspondence=corr, layout=layout_info, numeric_exploration=explore, samples=samples, notes=notes, exhaustive=False)
    write_evidence(prop, tier, seed, coverage,
                   ['see DESIGN.md §5 (trusted base) and the per-property "Outside the theorem" paragraph'],
                   time.time() - t0, nviol)
    for l in lines: print(l)
    log('%s %s: %d theorem(s), %d failing, %d violation line(s), %.1fs' % (prop, tier, len(all_thms), len(failing), nviol, time.time() - t0))
    return 1 if nviol else 0


# ---------------------------------------------------------------------------------------------
# C15: non-semantic configuration macros never change results.
# Every configuration must generate the SAME Lean model as the default configuration (then every theorem
# proved about that model is a theorem about the configuration); optimisation levels are compared bitwise.
C15_CONFIGS = [
    ('CXX98', ['-DGLM_FORCE_CXX98']), ('CXX11', ['-DGLM_FORCE_CXX11']), ('CXX14', ['-DGLM_FORCE_CXX14']), ('CXX17', ['-DGLM_FORCE_CXX17']),
    ('INLINE', ['-DGLM_FORCE_INLINE']), ('EXPLICIT_CTOR', ['-DGLM_FORCE_EXPLICIT_CTOR']), ('CTOR_INIT', ['-DGLM_FORCE_CTOR_INIT']),
    ('QUAT_CTOR_XYZW', ['-DGLM_FORCE_QUAT_DATA_XYZW']),   # only the argument order of qua(a,b,c,d) changes; glm's own code and the units build quaternions with qua::wxyz
    ('SIZE_T_LENGTH', ['-DGLM_FORCE_SIZE_T_LENGTH']), ('XYZW_ONLY', ['-DGLM_FORCE_XYZW_ONLY']), ('SWIZZLE', ['-DGLM_FORCE_SWIZZLE']),
    ('QUAT_DATA_WXYZ', ['-DGLM_FORCE_QUAT_DATA_WXYZ']), ('PURE', ['-DGLM_FORCE_PURE']), ('CXX03', ['-DGLM_FORCE_CXX03']), ('CXX20', ['-DGLM_FORCE_CXX20']),
    ('COMPILER_UNKNOWN', ['-DGLM_FORCE_COMPILER_UNKNOWN']), ('PLATFORM_UNKNOWN', ['-DGLM_FORCE_PLATFORM_UNKNOWN']),
    ('ARCH_UNKNOWN', ['-DGLM_FORCE_ARCH_UNKNOWN']), ('DEFAULT_ALIGNED_PURE', ['-DGLM_FORCE_DEFAULT_ALIGNED_GENTYPES', '-DGLM_FORCE_PURE']),
    ('CXX98_XYZW_CTORINIT', ['-DGLM_FORCE_CXX98', '-DGLM_FORCE_XYZW_ONLY', '-DGLM_FORCE_CTOR_INIT']),
    ('SIZE_T_INLINE_EXPLICIT', ['-DGLM_FORCE_SIZE_T_LENGTH', '-DGLM_FORCE_INLINE', '-DGLM_FORCE_EXPLICIT_CTOR']),
    ('CXX_UNKNOWN', ['-DGLM_FORCE_CXX_UNKNOWN']),
]
C15_UNITS_QUICK = ['C12', 'C13']
C15_UNITS_THOROUGH = ['C12', 'C13', 'C04', 'C01', 'C02', 'C09', 'C10']
C15_QUICK_CONFIGS = 8          # the first n configurations in the quick tier
C15_EXTRA_QUICK = [('C02', ['CXX98'])]
# functions with a std / bundled-fallback pair: under the pre-C++11 language levels the traced MODEL legitimately differs (other code); the RESULTS must not
C15_FALLBACK_UNITS = r'(^|_)(round|trunc|fmin\d?|fmax\d?|fclamp|isnan|isinf)(_|$)'
C15_FALLBACK_FLAGS = ('-DGLM_FORCE_CXX98', '-DGLM_FORCE_CXX03', '-DGLM_FORCE_CXX_UNKNOWN')


def canon_run_line(l):
    """a result line `R unit f32|f64|i32|u32 in… -> out…` with every NaN output mapped to one token: which of the
    operands' NaN payloads/signs an x86 instruction propagates depends on operand order, which inlining and the
    optimiser may legitimately change; the property is about values, and all NaNs are the same value"""
    t = l.split()
    if len(t) < 4 or t[0] != 'R' or '->' not in t or t[2] not in ('f32', 'f64'): return l
    k = t.index('->')
    tie = re.search(r'f(min|max|clamp)', t[1]) is not None     # std::fmin/fmax leave the sign of a zero result open (C99 7.12.12)
    def c(x):
        try: v = int(x)
        except ValueError: return x
        if t[2] == 'f32':
            if tie and v == 0x80000000: return '0'
            return 'nan' if (v & 0x7fffffff) > 0x7f800000 else x
        if tie and v == 0x8000000000000000: return '0'
        return 'nan' if (v & 0x7fffffffffffffff) > 0x7ff0000000000000 else x
    return ' '.join(t[:k + 1] + [c(x) for x in t[k + 1:]])


# the hand-model harnesses (real glm on seeded/exhaustive inputs) under every configuration: same output stream as the default build
C15_HARNESSES = {   # name: (extra flags, argv after the binary, configurations under which the HARNESS itself does not compile)
    'C15': (['-O1'], lambda s: ['run', s, '400'], ['QUAT_CTOR_XYZW']),   # (the probe itself calls quat(w, x, y, z))        # diff/C15.cpp: cross-type conversions the tracer cannot see
    'C05': (['-O1'], lambda s: ['lines', 'quick', s], []),
    'C06': (['-O1'], lambda s: ['lines', 'quick', s], ['CXX98', 'CXX03', 'CXX_UNKNOWN', 'CXX98_XYZW_CTORINIT', 'INLINE', 'SIZE_T_INLINE_EXPLICIT']),
    'C07': (['-O2'], lambda s: ['quick', s, '20000'], []),
    'C11': (['-O1'], lambda s: ['lines', s, 'quick'], []),
    'C14': (['-O1', '-fwrapv'], lambda s: ['lines', s, 'quick'], []),
    'C18': (['-O2', '-fwrapv'], lambda s: ['plan', 'quick', s], ['CXX98', 'CXX03', 'CXX_UNKNOWN', 'CXX98_XYZW_CTORINIT', 'PURE', 'ARCH_UNKNOWN', 'DEFAULT_ALIGNED_PURE']),
}
C15_HARNESS_SKIP_REASON = ('harness source clashes with the configuration (its own typedef names vs <cstdint> in C++98 mode, function pointers to '
                           'always_inline functions, or an #error guarding the x86 code path it models)')


def _is_snan(v, ty):
    if ty == 'f': return (v & 0x7f800000) == 0x7f800000 and (v & 0x7fffff) != 0 and not (v & 0x400000)
    return (v & 0x7ff0000000000000) == 0x7ff0000000000000 and (v & 0xfffffffffffff) != 0 and not (v & 0x8000000000000)


def canon_h_line(l):
    """canonical form of a hand-harness line `op ty in… -> out…` for the comparison between configurations:
    NaN results are one value; lines with a signalling-NaN input are outside every operation's domain (None);
    for fmin/fmax/fclamp, which delegate to std::fmin/std::fmax, the sign of a zero result is unspecified by C
    (and differs between g++ -O0 and -O1 for std::fmax(-0.0f, 0.0f) itself), so ±0 results are one value there."""
    t = l.split()
    if len(t) < 4 or '->' not in t or t[1] not in ('f', 'd'): return l
    k = t.index('->'); ty = t[1]
    try:
        ins = [int(x, 16) for x in t[2:k]]; outs = [int(x, 16) for x in t[k + 1:]]
    except ValueError:
        return l
    if any(_is_snan(v, ty) for v in ins): return None
    tie = re.search(r'f(min|max|clamp)', t[0]) is not None
    def c(v):
        if ty == 'f':
            if (v & 0x7fffffff) > 0x7f800000: return 'nan'
            if tie and v == 0x80000000: return '0'
        else:
            if (v & 0x7fffffffffffffff) > 0x7ff0000000000000: return 'nan'
            if tie and v == 0x8000000000000000: return '0'
        return '%x' % v
    return ' '.join(t[:k + 1] + [c(v) for v in outs])


def harness_cfg_compare(configs, seed, unexplained, violations, prop, known=(), known_hits=None):
    """returns (pairs compared, lines compared, skipped pairs)"""
    import hashlib
    from concurrent.futures import ThreadPoolExecutor
    from checklib import sha_files, glm_tree_hash
    jobs = []
    for h, (hflags, argvf, skip) in C15_HARNESSES.items():
        src = os.path.join(VERIF, 'diff', h + '.cpp')
        # the conversion probe is cheap: every configuration also in the quick tier
        for cname, cflags in [('default', [])] + list(C15_CONFIGS if h == 'C15' else configs):
            if cname in skip: continue
            flags = ['-std=c++17', '-ffp-contract=off', '-w'] + hflags + cflags
            key = sha_files([src], glm_tree_hash() + ' '.join(flags))[:16]
            jobs.append((h, cname, cflags, flags, src, os.path.join(CACHE, 'C15h_%s_%s_%s.bin' % (h, cname, key)), argvf(str(seed))))
    def build(j):
        h, cname, cflags, flags, src, out, argv = j
        if os.path.exists(out): return j, None
        for old in glob.glob(os.path.join(CACHE, 'C15h_%s_%s_*.bin' % (h, cname))):
            try: os.remove(old)
            except OSError: pass
        rc, o = sh(['g++'] + flags + ['-I' + REPO, '-o', out + '.tmp', src], timeout=1800)
        if rc != 0: return j, o[-400:]
        os.replace(out + '.tmp', out); return j, None
    built = []
    with ThreadPoolExecutor(16) as ex:
        for j, err in ex.map(build, jobs):
            if err: unexplained.append('harness %s does not compile under configuration %s: %s' % (j[0], j[1], err))
            else: built.append(j)
    def run(j):
        h, cname, cflags, flags, src, out, argv = j
        dst = os.path.join(CACHE, 'C15h_%s_%s.out' % (h, cname))
        with open(dst, 'wb') as f:
            p = subprocess.run([out] + argv, stdout=f, stderr=subprocess.PIPE, timeout=3000)
        hs = hashlib.sha256()
        with open(dst, 'rb') as f:
            for blk in iter(lambda: f.read(1 << 22), b''): hs.update(blk)
        return j, p.returncode, hs.hexdigest(), dst
    outs = {}
    with ThreadPoolExecutor(16) as ex:
        for j, rc, hs, dst in ex.map(run, built):
            if rc != 0: unexplained.append('harness %s under %s exits %d' % (j[0], j[1], rc))
            outs[(j[0], j[1])] = (hs, dst, j)
    pairs = nlines = 0
    for (h, cname), (hs, dst, j) in sorted(outs.items()):
        if cname == 'default' or (h, 'default') not in outs: continue
        pairs += 1
        hs0, dst0, _ = outs[(h, 'default')]
        if hs == hs0:
            nlines += sum(1 for _ in open(dst0, 'rb'))
        else:
            witness = None
            with open(dst0, errors='replace') as fa, open(dst, errors='replace') as fb:
                for la, lb in zip(fa, fb):
                    nlines += 1
                    if la == lb: continue
                    ca, cb = canon_h_line(la.rstrip('\n')), canon_h_line(lb.rstrip('\n'))
                    if ca is None or cb is None or ca == cb: continue
                    # a listed finding: these operations under these configuration flags (nothing else is excused)
                    op = la.split()[0] if la.split() else ''
                    kf = next((k for k in known if op in k.get('harness_ops', ()) and any(fl in j[2] for fl in k.get('config_flags', ()))), None)
                    if kf is not None:
                        if known_hits is not None: known_hits.setdefault(kf['id'], [kf, 0, la.strip(), lb.strip(), cname])[1] += 1
                        continue
                    witness = (la.strip(), lb.strip()); break
            if witness:
                violations.append(dict(property=prop, kind='result-differs-between-configurations', unit='harness:%s:%s' % (h, witness[0].split()[0]), component=0,
                                       configuration=cname, flags=j[2], default_line=witness[0][:600], configuration_line=witness[1][:600],
                                       replay='g++ %s -I%s diff/%s.cpp && ./a.out %s   # compare with the build without %s' % (' '.join(j[3]), REPO, h, ' '.join(j[6]), ' '.join(j[2]))))
    for (h, cname), (hs, dst, j) in outs.items():
        try: os.remove(dst)
        except OSError: pass
    skipped = sum(1 for h, (_, _, skip) in C15_HARNESSES.items() for c, _ in configs if c in skip)
    return pairs, nlines, skipped


def run_cfg(prop, tier, seed):
    t0 = time.time()
    for old in glob.glob(os.path.join(REPLAYS, prop + '-*.json')): os.remove(old)
    known = known_findings(prop)
    okd, dout = ensure_driver()
    unit_files = C15_UNITS_THOROUGH if tier == 'thorough' else C15_UNITS_QUICK
    configs = C15_CONFIGS if tier == 'thorough' else C15_CONFIGS[:C15_QUICK_CONFIGS]
    violations, unexplained, lines, samples = [], [], [], []
    lines_known = []
    known_hits_units = {}
    pairs = same = differing = 0
    runs_compared = 0
    # quick tier: besides C12/C13 under the first configurations, the matrix unit table under the pre-C++11 language level only — that is where
    # glm compiles the other branch of its ~270 `#if GLM_HAS_INITIALIZER_LISTS` constructor bodies
    extra = [] if tier == 'thorough' else [(uf, [c for c in C15_CONFIGS if c[0] in cs]) for uf, cs in C15_EXTRA_QUICK]
    def nonsimd(uf, bins):   # C10's second unit configuration (aligned types in a SIMD build) is a semantic switch: not part of this comparison
        return [x for x in bins if not (uf == 'C10' and '_c1_' in os.path.basename(x))]
    for uf, ufconfigs in [(uf, configs) for uf in unit_files] + extra:
        oc = [0] if uf == 'C10' else None    # C10's second unit configuration is a SIMD build: not compiled here at all
        bins0, err0 = build_units(uf, only_cfgs=oc)
        if err0: unexplained.append('default build of %s failed: %s' % (uf, err0[-300:])); continue
        bins0 = nonsimd(uf, bins0)
        base = os.path.join(CACHE, 'C15_%s_default.units' % uf)
        e = run_bins(bins0, ['trace'], base)
        if e: unexplained.append(e); continue
        run0 = os.path.join(CACHE, 'C15_%s_default.run' % uf)
        run_bins(bins0, ['run', str(seed), '40'], run0)
        for cname, flags in ufconfigs:
            binsc, errc = build_units(uf, extra_flags=flags, tag='_' + cname, only_cfgs=oc)
            if errc:
                unexplained.append('configuration %s: units of %s do not compile: %s' % (cname, uf, errc[-300:])); continue
            binsc = nonsimd(uf, binsc)
            cu = os.path.join(CACHE, 'C15_%s_%s.units' % (uf, cname))
            e = run_bins(binsc, ['trace'], cu)
            if e: unexplained.append(e); continue
            rc, out = sh([DRIVER, 'cfgeq', base, cu], timeout=600)
            m = re.search(r'CFGEQ units=(\d+) same=(\d+) diff=(\d+) missing=(\d+)', out)
            if not m: unexplained.append('cfgeq failed for %s/%s: %s' % (uf, cname, out[-300:])); continue
            n, sm, df, ms = map(int, m.groups())
            pairs += n; same += sm; differing += df + ms
            if len(samples) < 6: samples.append('%s under %s: %d units, %d identical to the default model' % (uf, cname, n, sm))
            # results on concrete inputs must be bit-identical as well (and this finds the witness when models differ)
            runc = os.path.join(CACHE, 'C15_%s_%s.run' % (uf, cname))
            run_bins(binsc, ['run', str(seed), '40'], runc)
            a = [canon_run_line(l) for l in open(run0).read().split('\n')]; b = [canon_run_line(l) for l in open(runc).read().split('\n')]
            runs_compared += len(a)
            witness = None
            for la, lb in zip(a, b):
                if la != lb: witness = (la, lb); break
            diffunits = re.findall(r'^CFGDIFF (\S+)', out, flags=re.M) + re.findall(r'^CFGMISSING (\S+)', out, flags=re.M)
            # a listed finding: these units under these configuration flags (nothing else is excused)
            kfu = [k for k in known if k.get('unit_regex') and any(fl in flags for fl in k.get('config_flags', ()))]
            def excused(unit): return next((k for k in kfu if re.search(k['unit_regex'], unit)), None)
            if any(fl in flags for fl in C15_FALLBACK_FLAGS):
                diffunits = [du for du in diffunits if not re.search(C15_FALLBACK_UNITS, du)]
            if kfu:
                for du in list(diffunits):
                    k = excused(du)
                    if k: known_hits_units.setdefault(k['id'], [k, 0, du, cname])[1] += 1; diffunits.remove(du)
                if witness and excused(witness[0].split()[1] if len(witness[0].split()) > 1 else ''):
                    witness = next(((la, lb) for la, lb in zip(a, b) if la != lb and not excused(la.split()[1] if len(la.split()) > 1 else '')), None)
            if witness:
                violations.append(dict(property=prop, kind='result-differs-between-configurations', unit=witness[0].split()[1] if len(witness[0].split()) > 1 else '?',
                                       component=0, configuration=cname, flags=flags, default_line=witness[0][:600], configuration_line=witness[1][:600],
                                       replay='trace unit binary of %s built with %s: run %d 40' % (uf, ' '.join(flags), seed)))
            elif diffunits:
                unexplained.append('configuration %s generates a different model for %s (units %s) but no differing result was found' % (cname, uf, ', '.join(diffunits[:6])))
    # optimisation levels: the same harness at -O0 / -O2 / -O3 must print the same bits
    if tier == 'thorough':
        for uf in unit_files[:3]:
            ref = None
            for opt in ('-O0', '-O2', '-O3'):
                binso, erro = build_units(uf, extra_flags=[opt], tag='_opt' + opt[1:])
                if erro: unexplained.append('build %s %s failed' % (uf, opt)); continue
                ro = os.path.join(CACHE, 'C15_%s_%s.run' % (uf, opt[1:]))
                run_bins(binso, ['run', str(seed), '200'], ro)
                txt = '\n'.join(canon_run_line(l) for l in open(ro).read().split('\n'))
                runs_compared += txt.count('\n')
                if ref is None: ref = txt
                elif txt != ref:
                    la, lb = next(((x, y) for x, y in zip(ref.split('\n'), txt.split('\n')) if x != y), ('', ''))
                    violations.append(dict(property=prop, kind='result-differs-between-optimisation-levels', unit=la.split()[1] if len(la.split()) > 1 else '?', component=0,
                                           configuration=opt, default_line=la[:600], configuration_line=lb[:600], replay='unit binary of %s at %s' % (uf, opt)))
    for kid, (kf, n, du, cname) in sorted(known_hits_units.items()):
        lines_known.append('KNOWN-FINDING: property=%s %s (%s; %d traced unit(s) with a different model this run, e.g. %s under %s)' % (prop, kf['what'], kid, n, du, cname))
    known_hits = {}
    hpairs, hlines, hskipped = harness_cfg_compare(configs, seed, unexplained, violations, prop, known, known_hits)
    runs_compared += hlines
    for kid, (kf, n, la, lb, cname) in sorted(known_hits.items()):
        lines_known.append('KNOWN-FINDING: property=%s %s (%s; %d differing result line(s) this run, e.g. under %s: default "%s" / configuration "%s")' % (prop, kf['what'], kid, n, cname, la[:80], lb[:80]))
    for v in violations[:5]:
        lines.append('VIOLATION property=%s replay=%s' % (prop, write_replay(prop, v)))
    if unexplained and not violations:
        lines.append('VIOLATION property=%s replay=%s no-failing-input-found' % (prop, write_replay(prop, dict(property=prop, kind='configuration-model-differs-or-tie-broken', items=unexplained[:20]))))
    nviol = len(lines)
    ev = {'property_id': prop, 'tier': tier, 'seed': seed, 'level': 'translation_validation',
          'coverage': dict(programs=pairs, disagreements_checked=differing, samples=samples or ['none'],
                           identical_models=same, configurations=[c for c, _ in configs], unit_files=unit_files, result_lines_compared=runs_compared,
                           evaluations=runs_compared, distinct_nontrivial=max(2, same),
                           rule='a "program" is one traced unit under one configuration; it is parsed by the Lean driver and compared structurally (BEq on Glm.Unit) with the '
                                'unit traced under the default configuration - identical means the configuration generates the very Lean model the theorems of C01/C02/C04/C09/C10/C12/C13 are about; '
                                'result lines (real glm at float/double on seeded inputs) are compared bit for bit between configurations (and between -O0/-O2/-O3 in the thorough tier)',
                           harness_pairs=hpairs, harness_lines_compared=hlines, harness_pairs_skipped=hskipped, harness_skip_reason=C15_HARNESS_SKIP_REASON,
                           harness_rule='the hand-model harnesses diff/C05…C18.cpp (bit-level functions: integer, packing, half, rounding/NaN logic, ULP, bit-fields) are built under every '
                                        'configuration and must print the same stream as the default build; compared modulo: NaN results are one value, lines with signalling-NaN inputs are skipped, '
                                        'the sign of a zero returned by fmin/fmax/fclamp (std::fmin/fmax leave it unspecified)',
                           explanation='translation validation of configurations against the default model'),
          'assumptions': ['the theorems transferred are those of the properties whose unit files are listed; optimisation-level independence is a compiler property and only explored (thorough tier)'],
          'wall_s': round(time.time() - t0, 2), 'violations': nviol}
    json.dump(ev, open(os.path.join(EVID, prop + '.json'), 'w'), indent=1)
    for l in lines_known: print(l)
    for l in lines: print(l)
    log('%s %s: %d (config,unit) pairs, %d identical, %d differing, %d violation line(s), %.1fs' % (prop, tier, pairs, same, differing, nviol, time.time() - t0))
    return 1 if nviol else 0


# ---------------------------------------------------------------------------------------------
# C20: no undefined behaviour inside the documented domains.
# (a) the arithmetic guards proved in Lean for the hand models (Props/C20.lean collects them);
# (b) sanitizer replay: the unit tables of the T1 properties are rebuilt with ASan/UBSan(+float-cast-overflow) and
#     driven through their correspondence inputs and numeric explorations; the hand-model checks run their own
#     sanitizer builds (C11, C14). An abort is a violation whose replay is the last echoed input.
C20_UNITS_QUICK = ['C12', 'C13', 'C10', 'C19', 'C09', 'C17']   # C17: every swizzle (also the operator form, whose proxies index the vector's storage)
C20_UNITS_THOROUGH = ['C12', 'C13', 'C10', 'C19', 'C09', 'C17', 'C04', 'C08', 'C01', 'C02', 'C16']
SAN_FLAGS = ['-O1', '-g', '-fsanitize=address,undefined,float-cast-overflow', '-fno-sanitize-recover=all']
C20_HARNESS_FLAGS = ['-std=c++17', '-O1', '-g', '-ffp-contract=off', '-w', '-fsanitize=address,undefined,float-cast-overflow',
                     '-fno-sanitize-recover=all', '-fno-sanitize=shift-base']


def run_ub(prop, tier, seed):
    t0 = time.time()
    for old in glob.glob(os.path.join(REPLAYS, prop + '-*.json')): os.remove(old)
    known = known_findings(prop)
    violations, unexplained, lines, samples = [], [], [], []
    # (a) Lean guards
    mods = prop_modules(prop)
    rc, build_out, build_s = lake_build(mods[:1])
    all_thms, failing = [], []
    for mod in mods:
        f = os.path.join(LEAN, mod.replace('.', '/') + '.lean')
        ns, names = theorems_in(f)
        all_thms += [ns + '.' + n for n in names]
        if rc != 0: failing += [ns + '.' + n for n in failing_decls(build_out, f)]
    if rc != 0 and not failing: failing = list(all_thms)
    axioms, audit_problems = {}, []
    if rc == 0:
        import checklib
        for h in ('c05', 'c11', 'c14', 'c18'):
            try:
                __import__('checks.' + h)
            except Exception:
                pass
        checklib.BV_DECIDE_WHITELIST.update(all_thms)
        ok, axioms, audit_problems = audit(prop, mods)
    unexplained += ['theorem %s no longer checks' % t for t in failing] + audit_problems
    # (b) sanitizer replay
    unit_files = C20_UNITS_THOROUGH if tier == 'thorough' else C20_UNITS_QUICK
    count = 400 if tier == 'thorough' else 60
    evals = 0
    env = dict(os.environ, VERIF_ECHO='1', VERIF_INT_SMALL='1', VERIF_FLOAT_MODERATE='1', ASAN_OPTIONS='detect_leaks=0', UBSAN_OPTIONS='print_stacktrace=1')
    for uf in unit_files:
        bins, err = build_units(uf, extra_flags=SAN_FLAGS, tag='_san')
        if err: unexplained.append('sanitizer build of %s failed: %s' % (uf, err[-300:])); continue
        for b in bins:
            for mode in (['run', str(seed), str(count)], ['props', str(seed), str(count * 10)]):
                p = subprocess.run([b] + mode, stdout=subprocess.PIPE, stderr=subprocess.PIPE, text=True, env=env, timeout=1800)
                evals += p.stdout.count('\nR ') + sum(int(x) for x in re.findall(r'PROPS props=\d+ evaluated=(\d+)', p.stdout))
                if p.returncode != 0:
                    last = [l for l in p.stderr.split('\n') if l.startswith('ECHO')]
                    msg = [l for l in p.stderr.split('\n') if 'runtime error' in l or 'ERROR: AddressSanitizer' in l]
                    violations.append(dict(property=prop, kind='sanitizer-abort', unit=(last[-1].split()[1] if last else '?'), component=0,
                                           unit_file=uf, mode=mode[0], last_input=(last[-1] if last else None), report=msg[:3],
                                           replay='unit binary of %s built with %s: %s' % (uf, ' '.join(SAN_FLAGS), ' '.join(mode))))
                elif len(samples) < 5 and p.stdout:
                    samples.append((uf + ' ' + mode[0] + ': ' + p.stdout.split('\n')[0])[:200])
    # (c) in-domain replay of the integer / bit-field / packing / rounding functions (diff/C20.cpp)
    from checklib import sha_files, glm_tree_hash
    hsrc = os.path.join(VERIF, 'diff', 'C20.cpp')
    hkey = sha_files([hsrc], glm_tree_hash() + ' '.join(C20_HARNESS_FLAGS))[:16]
    hbin = os.path.join(CACHE, 'C20_harness_%s.bin' % hkey)
    h_groups, h_evals, known_lines = {}, 0, []
    if not os.path.exists(hbin):
        rc_h, out_h = sh(['g++'] + C20_HARNESS_FLAGS + ['-I' + REPO, '-o', hbin + '.tmp', hsrc], timeout=1800)
        if rc_h == 0: os.replace(hbin + '.tmp', hbin)
        else: unexplained.append('sanitizer build of diff/C20.cpp failed: %s' % out_h[-400:])
    if os.path.exists(hbin):
        henv = dict(os.environ, ASAN_OPTIONS='detect_leaks=0:abort_on_error=1', UBSAN_OPTIONS='abort_on_error=1')
        hcount = 40000 if tier == 'thorough' else 2500
        glist = [l.split('\t')[0] for l in subprocess.run([hbin, 'groups'], stdout=subprocess.PIPE, text=True).stdout.split('\n') if l.strip()]
        def run_group(g):
            return g, subprocess.run([hbin, 'run', str(seed), str(hcount), g], stdout=subprocess.PIPE, stderr=subprocess.PIPE, text=True, env=henv, timeout=3000)
        from concurrent.futures import ThreadPoolExecutor
        with ThreadPoolExecutor(8) as ex:
            for g, p in ex.map(run_group, glist):
                m = re.search(r'GROUP %s evaluations=(\d+)' % g, p.stdout)
                if p.returncode == 0 and m:
                    h_groups[g] = int(m.group(1)); h_evals += int(m.group(1))
                else:
                    echo = [l for l in p.stderr.split('\n') if l.startswith('ECHO')]
                    msg = [l for l in p.stderr.split('\n') if 'runtime error' in l or 'ERROR: AddressSanitizer' in l or 'Assertion' in l]
                    violations.append(dict(property=prop, kind='sanitizer-abort-in-domain', unit='harness:' + g, component=0, group=g,
                                           call=(echo[-1][5:] if echo else None), report=msg[:3],
                                           replay='g++ %s -I%s diff/C20.cpp -o C20.bin && UBSAN_OPTIONS=abort_on_error=1 ./C20.bin run %d %d %s' % (' '.join(C20_HARNESS_FLAGS), REPO, seed, hcount, g)))
        # recorded in-domain classes: still failing -> KNOWN-FINDING line; no longer failing -> nothing to report
        for k in known:
            if 'known_class' not in k: continue
            p = subprocess.run([hbin, 'known', str(k['known_class'])], stdout=subprocess.PIPE, stderr=subprocess.PIPE, text=True, env=henv, timeout=600)
            if p.returncode != 0 and 'runtime error' in p.stderr:
                known_lines.append('KNOWN-FINDING: property=%s %s' % (prop, k['what']))
    evals += h_evals
    for v in violations[:5]:
        lines.append('VIOLATION property=%s replay=%s' % (prop, write_replay(prop, v)))
    for l in known_lines: print(l)
    if unexplained and not violations:
        lines.append('VIOLATION property=%s replay=%s no-failing-input-found' % (prop, write_replay(prop, dict(property=prop, kind='guard-theorem-or-build-broken', items=unexplained[:20]))))
    nviol = len(lines)
    coverage = dict(obligations=len(all_thms), discharged=len(all_thms) - len(failing),
                    checker_cmd='cd lean && lake build GlmVerif.Props.C20 (+ #print axioms audit)', trusted_base=TRUSTED_BASE + ['bv_decide axioms of the guard theorems (hand models, see C05/C11/C14/C18)', 'clang/gcc sanitizers for the replay'],
                    theorems=[dict(name=t, axioms=axioms.get(t)) for t in all_thms], failing_theorems=failing,
                    evaluations=evals, distinct_nontrivial=max(2, evals // 2),
                    rule='sanitizer replay: every (unit, input tuple) of the correspondence streams and numeric explorations of the listed unit files, evaluated by the real glm '
                         'in binaries built with -fsanitize=address,undefined,float-cast-overflow -fno-sanitize-recover=all (float-divide-by-zero stays off: IEEE division by zero is defined); '
                         'integer units restricted to small values (no signed overflow by construction of the domain); counted: evaluations performed without abort',
                    harness_groups=h_groups,
                    harness_rule='diff/C20.cpp: every function group is called on seeded inputs drawn from the documented domain stated per group (`C20.bin groups`), '
                                 'in a build with non-recovering ASan+UBSan+float-cast-overflow (shift-base excluded: the property lists shift counts); an abort names the call',
                    unit_files=unit_files, samples=samples or ['none'], exhaustive=False)
    write_evidence(prop, tier, seed, coverage, ['memory-safety and aliasing UB have no counterpart in a functional Lean model: covered by the sanitizer replay only; '
                   'independence from the optimisation level is explored by C15 (thorough)'], time.time() - t0, nviol)
    for l in lines: print(l)
    log('%s %s: %d guard theorem(s), %d failing, %d sanitized evaluations, %d violation line(s), %.1fs' % (prop, tier, len(all_thms), len(failing), evals, nviol, time.time() - t0))
    return 1 if nviol else 0


def setup():
    t0 = time.time()
    rcs = []
    for prop, cfg in PROPS.items():
        if cfg['kind'] == 't1':
            bins, err = build_units(cfg['units'])
            if err: log('setup: units of %s failed to compile' % prop); rcs.append(1); continue
            up = os.path.join(CACHE, prop + '.units')
            e = run_bins(bins, ['trace'], up) or gen_lean(up, prop)
            if e: log('setup:', e); rcs.append(1)
    # generated data that is not produced by the loop above: the C16 layout rows and the C03 SIMD model
    try:
        rows, lerr, nrows = layout_rows()
        if lerr: log('setup: layout probe:', lerr[-300:]); rcs.append(1)
    except Exception as ex:
        log('setup: layout probe raised', ex); rcs.append(1)
    try:
        import checks.c03 as c03
        merged, gerr = c03.generate()
        if gerr: log('setup: C03 model:', gerr[-300:]); rcs.append(1)
    except Exception as ex:
        log('setup: C03 generation raised', ex); rcs.append(1)
    rc, out, dt = lake_build(['GlmVerif', 'driver'] + ['drv_' + h.lower() for h in H_PROPS], timeout=14400)
    log('setup: lake build rc=%d in %.0fs' % (rc, dt))
    if rc != 0:
        errs = [l for l in out.split('\n') if 'error' in l.lower()]
        print('\n'.join(errs[:40])); print(out[-3000:])
    log('setup done in %.0fs' % (time.time() - t0))
    return 1 if (rc != 0 or any(rcs)) else 0


def main():
    ap = argparse.ArgumentParser()
    ap.add_argument('prop', nargs='?')
    ap.add_argument('--tier', default=os.environ.get('VERIF_TIER', 'quick'))
    ap.add_argument('--setup', action='store_true')
    a = ap.parse_args()
    if a.setup: sys.exit(setup())
    seed = int(os.environ.get('VERIF_SEED', '1'))
    if a.prop == 'C15':
        sys.exit(run_cfg('C15', a.tier, seed))
    if a.prop == 'C20':
        sys.exit(run_ub('C20', a.tier, seed))
    if a.prop in PROPS:
        cfg = PROPS[a.prop]
        if cfg['kind'] == 't1':
            sys.exit(run_t1(a.prop, cfg, a.tier, seed))
    # hand-model properties: checks/<cxx>.py (contract in checks/README.md)
    import importlib
    mod = importlib.import_module('checks.' + a.prop.lower())
    sys.exit(mod.run(a.tier, seed))


if __name__ == '__main__':
    main()
