// C10: inverse / determinant and their gtc variants
// CFG 0: default (packed types)   1: GLM_FORCE_DEFAULT_ALIGNED_GENTYPES + GLM_FORCE_INTRINSICS: every mat/vec is aligned_highp, so glm
//        instantiates its `Aligned = true` generic templates (inv3x3 by cross products, aligned dot/cross, …) — at the symbolic scalar
//        type these are ordinary C++ (the float/double SIMD specialisations are C03's business); units get the suffix A
// CONFIGS 2
// NPARTS 3
#ifndef CFG
#define CFG 0
#endif
#if CFG == 1
#define GLM_FORCE_DEFAULT_ALIGNED_GENTYPES
#define GLM_FORCE_INTRINSICS
#define SUF "A"
#else
#define SUF ""
#endif
#include "common.hpp"
#include <glm/ext/matrix_integer.hpp>
#include <glm/gtc/matrix_inverse.hpp>
#include <glm/gtx/matrix_operation.hpp>
using namespace symt;
// CFG 1: the float instantiation would run glm's SSE kernels (C03's subject, not the code traced here), so these units are validated at
// double only — at the SSE2 level an aligned double type runs exactly the generic `Aligned = true` templates that the tracer sees
template<class F> void add_unit_dbl(std::string const& name, int nin, int nout, F f) {
  UnitRec u; u.name = name; u.nin = nin; u.nout = nout;
  u.fsym = [f](SymR const* x, SymR* o) { f(x, o); };
  u.f64 = [f](double const* x, double* o) { f(x, o); };
  registry().push_back(std::move(u));
}
#if CFG == 1
#define add_unit add_unit_dbl
#endif

template<int N> void reg_sq() {
  add_unit(nm("det" SUF, {N}), N * N, 1, [](auto const* x, auto* o) { using T = TY(o); o[0] = glm::determinant(ldm<N, N, T>(x)); });
  add_unit(nm("inv" SUF, {N}), N * N, N * N, [](auto const* x, auto* o) { using T = TY(o); stm(o, glm::inverse(ldm<N, N, T>(x))); });
  add_unit(nm("invtr" SUF, {N}), N * N, N * N, [](auto const* x, auto* o) { using T = TY(o); stm(o, glm::inverseTranspose(ldm<N, N, T>(x))); });
  add_unit(nm("divmm" SUF, {N}), 2 * N * N, N * N, [](auto const* x, auto* o) { using T = TY(o); stm(o, ldm<N, N, T>(x) / ldm<N, N, T>(x + N * N)); });
  add_unit(nm("asgdiv_m" SUF, {N}), 2 * N * N, N * N, [](auto const* x, auto* o) { using T = TY(o); auto m = ldm<N, N, T>(x); m /= ldm<N, N, T>(x + N * N); stm(o, m); });
  add_unit(nm("divmv" SUF, {N}), N * N + N, N, [](auto const* x, auto* o) { using T = TY(o); stv(o, ldm<N, N, T>(x) / ldv<N, T>(x + N * N)); });
  add_unit(nm("divvm" SUF, {N}), N + N * N, N, [](auto const* x, auto* o) { using T = TY(o); stv(o, ldv<N, T>(x) / ldm<N, N, T>(x + N)); });
  add_unit(nm("adjugate" SUF, {N}), N * N, N * N, [](auto const* x, auto* o) { using T = TY(o); stm(o, glm::adjugate(ldm<N, N, T>(x))); });
}

int main(int argc, char** argv) {
#if IN_PART(0)
  reg_sq<2>(); reg_sq<3>();
#endif
#if IN_PART(1)
  reg_sq<4>();
#endif
#if IN_PART(2) && CFG == 0
  // integer determinant (ext/matrix_integer.inl dispatcher), traced at symbolic int32
  add_unit_i32("idet_2", 4, 1, [](auto const* x, auto* o) { using T = TY(o); o[0] = glm::determinant(ldm<2, 2, T>(x)); });
  add_unit_i32("idet_3", 9, 1, [](auto const* x, auto* o) { using T = TY(o); o[0] = glm::determinant(ldm<3, 3, T>(x)); });
  add_unit_i32("idet_4", 16, 1, [](auto const* x, auto* o) { using T = TY(o); o[0] = glm::determinant(ldm<4, 4, T>(x)); });
#endif
#if IN_PART(2)
  // affineInverse: M is affine, i.e. its last row is (0,…,0,1); inputs are the other rows, column-major
  add_unit("affinv" SUF "_3", 6, 9, [](auto const* x, auto* o) { using T = TY(o);
    glm::mat<3, 3, T, glm::defaultp> m(x[0], x[1], T(0), x[2], x[3], T(0), x[4], x[5], T(1)); stm(o, glm::affineInverse(m)); });
  add_unit("affinv" SUF "_4", 12, 16, [](auto const* x, auto* o) { using T = TY(o);
    glm::mat<4, 4, T, glm::defaultp> m(x[0], x[1], x[2], T(0), x[3], x[4], x[5], T(0), x[6], x[7], x[8], T(0), x[9], x[10], x[11], T(1)); stm(o, glm::affineInverse(m)); });
#endif
  return unit_main(argc, argv);
}
