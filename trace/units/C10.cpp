// C10: inverse / determinant and their gtc variants
// NPARTS 3
#include "common.hpp"
#include <glm/gtc/matrix_inverse.hpp>
#include <glm/gtx/matrix_operation.hpp>
using namespace symt;

template<int N> void reg_sq() {
  add_unit(nm("det", {N}), N * N, 1, [](auto const* x, auto* o) { using T = TY(o); o[0] = glm::determinant(ldm<N, N, T>(x)); });
  add_unit(nm("inv", {N}), N * N, N * N, [](auto const* x, auto* o) { using T = TY(o); stm(o, glm::inverse(ldm<N, N, T>(x))); });
  add_unit(nm("invtr", {N}), N * N, N * N, [](auto const* x, auto* o) { using T = TY(o); stm(o, glm::inverseTranspose(ldm<N, N, T>(x))); });
  add_unit(nm("divmm", {N}), 2 * N * N, N * N, [](auto const* x, auto* o) { using T = TY(o); stm(o, ldm<N, N, T>(x) / ldm<N, N, T>(x + N * N)); });
  add_unit(nm("asgdiv_m", {N}), 2 * N * N, N * N, [](auto const* x, auto* o) { using T = TY(o); auto m = ldm<N, N, T>(x); m /= ldm<N, N, T>(x + N * N); stm(o, m); });
  add_unit(nm("divmv", {N}), N * N + N, N, [](auto const* x, auto* o) { using T = TY(o); stv(o, ldm<N, N, T>(x) / ldv<N, T>(x + N * N)); });
  add_unit(nm("divvm", {N}), N + N * N, N, [](auto const* x, auto* o) { using T = TY(o); stv(o, ldv<N, T>(x) / ldm<N, N, T>(x + N)); });
  add_unit(nm("adjugate", {N}), N * N, N * N, [](auto const* x, auto* o) { using T = TY(o); stm(o, glm::adjugate(ldm<N, N, T>(x))); });
}

int main(int argc, char** argv) {
#if IN_PART(0)
  reg_sq<2>(); reg_sq<3>();
#endif
#if IN_PART(1)
  reg_sq<4>();
#endif
#if IN_PART(2)
  // affineInverse: M is affine, i.e. its last row is (0,…,0,1); inputs are the other rows, column-major
  add_unit("affinv_3", 6, 9, [](auto const* x, auto* o) { using T = TY(o);
    glm::mat<3, 3, T, glm::defaultp> m(x[0], x[1], T(0), x[2], x[3], T(0), x[4], x[5], T(1)); stm(o, glm::affineInverse(m)); });
  add_unit("affinv_4", 12, 16, [](auto const* x, auto* o) { using T = TY(o);
    glm::mat<4, 4, T, glm::defaultp> m(x[0], x[1], x[2], T(0), x[3], x[4], x[5], T(0), x[6], x[7], x[8], T(0), x[9], x[10], x[11], T(1)); stm(o, glm::affineInverse(m)); });
#endif
  return unit_main(argc, argv);
}
