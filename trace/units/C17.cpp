// C17: swizzles and constructors.
// CFG 0: default (gtx/vec_swizzle free functions, constructors)
// CFG 1: GLM_FORCE_SWIZZLE                       -> member-function swizzles  v.xyz()
// CFG 2: GLM_FORCE_SWIZZLE + GLM_FORCE_INTRINSICS -> operator swizzles (member objects; on GCC glm enables them
//        only when a SIMD architecture is selected), incl. assignment through writable swizzles
// CONFIGS 3
// NPARTS 16
#ifndef CFG
#define CFG 0
#endif
#if CFG >= 1
#define GLM_FORCE_SWIZZLE
#endif
#if CFG == 2
#define GLM_FORCE_INTRINSICS
#endif
#include "common.hpp"
#include <glm/gtx/vec_swizzle.hpp>
using namespace symt;

#define SWZF(L, N, CODE, NAME) add_unit_lite(nm("swzf", {L, N, CODE}), L, N, [](auto const* x, auto* o) { using T = TY(o); stv(o, glm::NAME(ldv<L, T>(x))); });
#define SWZM(SET, L, N, CODE, NAME) add_unit_lite(nm(std::string("swzm") + char('0' + CFG) + "s" + char('0' + SET), {L, N, CODE}), L, N, [](auto const* x, auto* o) { using T = TY(o); auto v = ldv<L, T>(x); glm::vec<N, T, glm::defaultp> r = v.NAME(); stv(o, r); });
#define SWZA(L, N, CODE, NAME) add_unit_lite(nm("swza", {L, N, CODE}), L + N, L, [](auto const* x, auto* o) { using T = TY(o); auto v = ldv<L, T>(x); v.NAME = ldv<N, T>(x + L); stv(o, v); });

template<class T> using V1 = glm::vec<1, T, glm::defaultp>;
template<class T> using V2 = glm::vec<2, T, glm::defaultp>;
template<class T> using V3 = glm::vec<3, T, glm::defaultp>;
template<class T> using V4 = glm::vec<4, T, glm::defaultp>;

// matrices: every shape from C*R scalars (column-major fill), from C column vectors, from one scalar (diagonal), and the 81 shape conversions
template<int C, int R, class T, size_t... I> glm::mat<C, R, T, glm::defaultp> mat_from_scalars(T const* x, std::index_sequence<I...>) { return glm::mat<C, R, T, glm::defaultp>(x[I]...); }
template<int C, int R, class T, size_t... I> glm::mat<C, R, T, glm::defaultp> mat_from_cols(T const* x, std::index_sequence<I...>) { return glm::mat<C, R, T, glm::defaultp>(ldv<R, T>(x + I * R)...); }
template<int C, int R, int C2, int R2> void reg_mconv() {
  add_unit_lite(nm("mconv", {C, R, C2, R2}), C2 * R2, C * R, [](auto const* x, auto* o) { using T = TY(o); stm(o, glm::mat<C, R, T, glm::defaultp>(ldm<C2, R2, T>(x))); });
}
template<int C, int R> void reg_mat17() {
  add_unit_lite(nm("mctor", {C, R}), C * R, C * R, [](auto const* x, auto* o) { using T = TY(o); stm(o, mat_from_scalars<C, R, T>(x, std::make_index_sequence<C * R>())); });
  add_unit_lite(nm("mctorc", {C, R}), C * R, C * R, [](auto const* x, auto* o) { using T = TY(o); stm(o, mat_from_cols<C, R, T>(x, std::make_index_sequence<C>())); });
  add_unit_lite(nm("mdiag", {C, R}), 1, C * R, [](auto const* x, auto* o) { using T = TY(o); stm(o, glm::mat<C, R, T, glm::defaultp>(x[0])); });
  reg_mconv<C, R, 2, 2>(); reg_mconv<C, R, 2, 3>(); reg_mconv<C, R, 2, 4>(); reg_mconv<C, R, 3, 2>(); reg_mconv<C, R, 3, 3>(); reg_mconv<C, R, 3, 4>();
  reg_mconv<C, R, 4, 2>(); reg_mconv<C, R, 4, 3>(); reg_mconv<C, R, 4, 4>();
}

int main(int argc, char** argv) {
#if CFG == 0
# if IN_PART(0)
#  include "gen/C17_free_0.inc"
# endif
# if IN_PART(1)
#  include "gen/C17_free_1.inc"
# endif
# if IN_PART(2)
#  include "gen/C17_free_2.inc"
# endif
# if IN_PART(3)
#  include "gen/C17_free_3.inc"
# endif
# if IN_PART(4)
  // constructors: name ctor_<L>_<shape code>; shape = argument lengths (0 = scalar), digits base 5, first argument lowest
#define CT(L, CODE, NIN, ...) add_unit_lite(nm("ctor", {L, CODE}), NIN, L, [](auto const* x, auto* o) { using T = TY(o); stv(o, glm::vec<L, T, glm::defaultp>(__VA_ARGS__)); });
  CT(1, 0, 1, x[0])                                   // vec1(s)
  CT(2, 0, 1, x[0])                                   // vec2(s) broadcast
  CT(3, 0, 1, x[0]) CT(4, 0, 1, x[0])
  CT(2, 5, 2, x[0], x[1])                             // vec2(s, s)          code = 0 + 0*5 + ... with arity marker: see Spec
  CT(3, 25, 3, x[0], x[1], x[2]) CT(4, 125, 4, x[0], x[1], x[2], x[3])
  // vec1 in place of scalars
  CT(2, 6, 2, V1<T>(x[0]), x[1]) CT(2, 10, 2, x[0], V1<T>(x[1])) CT(2, 11, 2, V1<T>(x[0]), V1<T>(x[1]))
  CT(3, 31, 3, V1<T>(x[0]), V1<T>(x[1]), V1<T>(x[2]))
  CT(4, 156, 4, V1<T>(x[0]), V1<T>(x[1]), V1<T>(x[2]), V1<T>(x[3]))
  // vector + scalars
  CT(3, 7, 3, V2<T>(x[0], x[1]), x[2])                // vec3(vec2, s)
  CT(3, 10, 3, x[0], V2<T>(x[1], x[2]))               // vec3(s, vec2)
  CT(4, 27, 4, V2<T>(x[0], x[1]), x[2], x[3])         // vec4(vec2, s, s)
  CT(4, 35, 4, x[0], V2<T>(x[1], x[2]), x[3])         // vec4(s, vec2, s)
  CT(4, 75, 4, x[0], x[1], V2<T>(x[2], x[3]))         // vec4(s, s, vec2)
  CT(4, 12, 4, V2<T>(x[0], x[1]), V2<T>(x[2], x[3]))  // vec4(vec2, vec2)
  CT(4, 8, 4, V3<T>(x[0], x[1], x[2]), x[3])          // vec4(vec3, s)
  CT(4, 15, 4, x[0], V3<T>(x[1], x[2], x[3]))         // vec4(s, vec3)
  // every argument-shape overload of vec2/vec3/vec4 (S = scalar, 1 = vec1, 2 = vec2, 3 = vec3), codes 1001…
  CT(2, 1001, 2, x[0], x[1])   // vec2(S, S)
  CT(2, 1002, 2, x[0], V1<T>(x[1]))   // vec2(S, 1)
  CT(2, 1003, 2, V1<T>(x[0]), x[1])   // vec2(1, S)
  CT(2, 1004, 2, V1<T>(x[0]), V1<T>(x[1]))   // vec2(1, 1)
  CT(3, 1005, 3, x[0], x[1], x[2])   // vec3(S, S, S)
  CT(3, 1006, 3, x[0], x[1], V1<T>(x[2]))   // vec3(S, S, 1)
  CT(3, 1007, 3, x[0], V1<T>(x[1]), x[2])   // vec3(S, 1, S)
  CT(3, 1008, 3, x[0], V1<T>(x[1]), V1<T>(x[2]))   // vec3(S, 1, 1)
  CT(3, 1009, 3, x[0], V2<T>(x[1], x[2]))   // vec3(S, 2)
  CT(3, 1010, 3, V1<T>(x[0]), x[1], x[2])   // vec3(1, S, S)
  CT(3, 1011, 3, V1<T>(x[0]), x[1], V1<T>(x[2]))   // vec3(1, S, 1)
  CT(3, 1012, 3, V1<T>(x[0]), V1<T>(x[1]), x[2])   // vec3(1, 1, S)
  CT(3, 1013, 3, V1<T>(x[0]), V1<T>(x[1]), V1<T>(x[2]))   // vec3(1, 1, 1)
  CT(3, 1014, 3, V1<T>(x[0]), V2<T>(x[1], x[2]))   // vec3(1, 2)
  CT(3, 1015, 3, V2<T>(x[0], x[1]), x[2])   // vec3(2, S)
  CT(3, 1016, 3, V2<T>(x[0], x[1]), V1<T>(x[2]))   // vec3(2, 1)
  CT(4, 1017, 4, x[0], x[1], x[2], x[3])   // vec4(S, S, S, S)
  CT(4, 1018, 4, x[0], x[1], x[2], V1<T>(x[3]))   // vec4(S, S, S, 1)
  CT(4, 1019, 4, x[0], x[1], V1<T>(x[2]), x[3])   // vec4(S, S, 1, S)
  CT(4, 1020, 4, x[0], x[1], V1<T>(x[2]), V1<T>(x[3]))   // vec4(S, S, 1, 1)
  CT(4, 1021, 4, x[0], x[1], V2<T>(x[2], x[3]))   // vec4(S, S, 2)
  CT(4, 1022, 4, x[0], V1<T>(x[1]), x[2], x[3])   // vec4(S, 1, S, S)
  CT(4, 1023, 4, x[0], V1<T>(x[1]), x[2], V1<T>(x[3]))   // vec4(S, 1, S, 1)
  CT(4, 1024, 4, x[0], V1<T>(x[1]), V1<T>(x[2]), x[3])   // vec4(S, 1, 1, S)
  CT(4, 1025, 4, x[0], V1<T>(x[1]), V1<T>(x[2]), V1<T>(x[3]))   // vec4(S, 1, 1, 1)
  CT(4, 1026, 4, x[0], V1<T>(x[1]), V2<T>(x[2], x[3]))   // vec4(S, 1, 2)
  CT(4, 1027, 4, x[0], V2<T>(x[1], x[2]), x[3])   // vec4(S, 2, S)
  CT(4, 1028, 4, x[0], V2<T>(x[1], x[2]), V1<T>(x[3]))   // vec4(S, 2, 1)
  CT(4, 1029, 4, x[0], V3<T>(x[1], x[2], x[3]))   // vec4(S, 3)
  CT(4, 1030, 4, V1<T>(x[0]), x[1], x[2], x[3])   // vec4(1, S, S, S)
  CT(4, 1031, 4, V1<T>(x[0]), x[1], x[2], V1<T>(x[3]))   // vec4(1, S, S, 1)
  CT(4, 1032, 4, V1<T>(x[0]), x[1], V1<T>(x[2]), x[3])   // vec4(1, S, 1, S)
  CT(4, 1033, 4, V1<T>(x[0]), x[1], V1<T>(x[2]), V1<T>(x[3]))   // vec4(1, S, 1, 1)
  CT(4, 1034, 4, V1<T>(x[0]), x[1], V2<T>(x[2], x[3]))   // vec4(1, S, 2)
  CT(4, 1035, 4, V1<T>(x[0]), V1<T>(x[1]), x[2], x[3])   // vec4(1, 1, S, S)
  CT(4, 1036, 4, V1<T>(x[0]), V1<T>(x[1]), x[2], V1<T>(x[3]))   // vec4(1, 1, S, 1)
  CT(4, 1037, 4, V1<T>(x[0]), V1<T>(x[1]), V1<T>(x[2]), x[3])   // vec4(1, 1, 1, S)
  CT(4, 1038, 4, V1<T>(x[0]), V1<T>(x[1]), V1<T>(x[2]), V1<T>(x[3]))   // vec4(1, 1, 1, 1)
  CT(4, 1039, 4, V1<T>(x[0]), V1<T>(x[1]), V2<T>(x[2], x[3]))   // vec4(1, 1, 2)
  CT(4, 1040, 4, V1<T>(x[0]), V2<T>(x[1], x[2]), x[3])   // vec4(1, 2, S)
  CT(4, 1041, 4, V1<T>(x[0]), V2<T>(x[1], x[2]), V1<T>(x[3]))   // vec4(1, 2, 1)
  CT(4, 1042, 4, V1<T>(x[0]), V3<T>(x[1], x[2], x[3]))   // vec4(1, 3)
  CT(4, 1043, 4, V2<T>(x[0], x[1]), x[2], x[3])   // vec4(2, S, S)
  CT(4, 1044, 4, V2<T>(x[0], x[1]), x[2], V1<T>(x[3]))   // vec4(2, S, 1)
  CT(4, 1045, 4, V2<T>(x[0], x[1]), V1<T>(x[2]), x[3])   // vec4(2, 1, S)
  CT(4, 1046, 4, V2<T>(x[0], x[1]), V1<T>(x[2]), V1<T>(x[3]))   // vec4(2, 1, 1)
  CT(4, 1047, 4, V2<T>(x[0], x[1]), V2<T>(x[2], x[3]))   // vec4(2, 2)
  CT(4, 1048, 4, V3<T>(x[0], x[1], x[2]), x[3])   // vec4(3, S)
  CT(4, 1049, 4, V3<T>(x[0], x[1], x[2]), V1<T>(x[3]))   // vec4(3, 1)
  // truncation of longer vectors
  CT(2, 3, 3, V3<T>(x[0], x[1], x[2]))                // vec2(vec3)
  CT(2, 4, 4, V4<T>(x[0], x[1], x[2], x[3]))          // vec2(vec4)
  CT(3, 4, 4, V4<T>(x[0], x[1], x[2], x[3]))          // vec3(vec4)
  // quaternion: qua(w, x, y, z), qua(s, vec3), wxyz(); results read by name (w,x,y,z)
  add_unit_lite("qctor_wxyz", 4, 4, [](auto const* x, auto* o) { using T = TY(o); stq(o, glm::qua<T, glm::defaultp>::wxyz(x[0], x[1], x[2], x[3])); });
  add_unit_lite("qctor_sv", 4, 4, [](auto const* x, auto* o) { using T = TY(o); stq(o, glm::qua<T, glm::defaultp>(x[0], V3<T>(x[1], x[2], x[3]))); });
  // cross-type conversions (the tracer cannot follow a change of element type): vec<L,B>(vec<L,A>), mat<C,R,B>(mat<C,R,A>) and mixed-type
  // argument lists are static_cast per component.  Exploration on the real code; values are small integers plus a fraction, cast through A first.
  add_prop("p_convert", 4, 0.0, 0.0, [](auto const* x) { using T = TY(x); int bad = 0;
    double v[4]; for (int i = 0; i < 4; ++i) v[i] = std::fmod(std::fabs((double)x[i]) * 40.0, 100.0) + 0.25 * i;       // 0 .. 101: inside every target type (also int8), non-negative
    auto each_pair = [&](auto a0, auto b0) { using A = decltype(a0); using B = decltype(b0);
      A s[4]; for (int i = 0; i < 4; ++i) s[i] = static_cast<A>(v[i]);
      glm::vec<4, A> a4(s[0], s[1], s[2], s[3]); glm::vec<3, A> a3(s[0], s[1], s[2]); glm::vec<2, A> a2(s[0], s[1]); glm::vec<1, A> a1(s[0]);
      glm::vec<4, B> b4(a4); glm::vec<3, B> b3(a3); glm::vec<2, B> b2(a2); glm::vec<1, B> b1(a1);
      for (int i = 0; i < 4; ++i) bad += !(b4[i] == static_cast<B>(s[i])); for (int i = 0; i < 3; ++i) bad += !(b3[i] == static_cast<B>(s[i]));
      for (int i = 0; i < 2; ++i) bad += !(b2[i] == static_cast<B>(s[i])); bad += !(b1[0] == static_cast<B>(s[0]));
      glm::vec<3, B> t3(a4); glm::vec<2, B> t2(a3); for (int i = 0; i < 3; ++i) bad += !(t3[i] == static_cast<B>(s[i])); for (int i = 0; i < 2; ++i) bad += !(t2[i] == static_cast<B>(s[i]));   // truncation
      glm::vec<4, B> m1(s[0], a2, s[3]); bad += !(m1[0] == static_cast<B>(s[0]) && m1[1] == static_cast<B>(s[0]) && m1[2] == static_cast<B>(s[1]) && m1[3] == static_cast<B>(s[3]));
      glm::vec<4, B> m2(a3, s[3]); bad += !(m2[2] == static_cast<B>(s[2]) && m2[3] == static_cast<B>(s[3]));
      glm::vec<3, B> m3(a1, s[1], a1); bad += !(m3[0] == static_cast<B>(s[0]) && m3[1] == static_cast<B>(s[1]) && m3[2] == static_cast<B>(s[0]));
      glm::vec<4, B> bc(a1); for (int i = 0; i < 4; ++i) bad += !(bc[i] == static_cast<B>(s[0]));                                                              // vec1 broadcast
    };
    auto each_a = [&](auto a0) { each_pair(a0, float()); each_pair(a0, double()); each_pair(a0, int()); each_pair(a0, (unsigned)0); each_pair(a0, (signed char)0);
      each_pair(a0, (unsigned char)0); each_pair(a0, (short)0); each_pair(a0, (unsigned short)0); each_pair(a0, (long long)0); each_pair(a0, (unsigned long long)0); };
    each_a(float()); each_a(double()); each_a(int()); each_a((unsigned)0); each_a((signed char)0); each_a((unsigned char)0); each_a((short)0); each_a((unsigned short)0); each_a((long long)0); each_a((unsigned long long)0);
    auto each_mat = [&](auto a0, auto b0) { using A = decltype(a0); using B = decltype(b0);
      glm::mat<4, 4, A> m; for (int c = 0; c < 4; ++c) for (int r = 0; r < 4; ++r) m[c][r] = static_cast<A>(v[(c + r) % 4] + c * 4 + r);
      glm::mat<4, 4, B> n(m); for (int c = 0; c < 4; ++c) for (int r = 0; r < 4; ++r) bad += !(n[c][r] == static_cast<B>(m[c][r]));
      glm::mat<2, 3, B> n23((glm::mat<2, 3, A>(m))); for (int c = 0; c < 2; ++c) for (int r = 0; r < 3; ++r) bad += !(n23[c][r] == static_cast<B>(m[c][r]));
      glm::mat<3, 2, B> n32((glm::mat<3, 2, A>(m))); for (int c = 0; c < 3; ++c) for (int r = 0; r < 2; ++r) bad += !(n32[c][r] == static_cast<B>(m[c][r]));
      glm::mat<3, 3, B> n33((glm::mat<3, 3, A>(m))); for (int c = 0; c < 3; ++c) for (int r = 0; r < 3; ++r) bad += !(n33[c][r] == static_cast<B>(m[c][r]));
      glm::mat<4, 3, B> n43((glm::mat<4, 3, A>(m))); for (int c = 0; c < 4; ++c) for (int r = 0; r < 3; ++r) bad += !(n43[c][r] == static_cast<B>(m[c][r]));
    };
    each_mat(float(), double()); each_mat(double(), float()); each_mat(float(), int()); each_mat(int(), float()); each_mat(double(), (unsigned)0); each_mat((unsigned)0, double());
    return (T)bad; });
  // matrices from scalars (column-major fill) and from columns
  reg_mat17<2, 2>(); reg_mat17<2, 3>(); reg_mat17<2, 4>(); reg_mat17<3, 2>(); reg_mat17<3, 3>(); reg_mat17<3, 4>(); reg_mat17<4, 2>(); reg_mat17<4, 3>(); reg_mat17<4, 4>();
# endif
#else
# define INC_MEM(K) IN_PART(K)
# if IN_PART(0)
#  include "gen/C17_mem_0.inc"
# endif
# if IN_PART(1)
#  include "gen/C17_mem_1.inc"
# endif
# if IN_PART(2)
#  include "gen/C17_mem_2.inc"
# endif
# if IN_PART(3)
#  include "gen/C17_mem_3.inc"
# endif
# if IN_PART(4)
#  include "gen/C17_mem_4.inc"
# endif
# if IN_PART(5)
#  include "gen/C17_mem_5.inc"
# endif
# if IN_PART(6)
#  include "gen/C17_mem_6.inc"
# endif
# if IN_PART(7)
#  include "gen/C17_mem_7.inc"
# endif
# if IN_PART(8)
#  include "gen/C17_mem_8.inc"
# endif
# if IN_PART(9)
#  include "gen/C17_mem_9.inc"
# endif
# if IN_PART(10)
#  include "gen/C17_mem_10.inc"
# endif
# if IN_PART(11)
#  include "gen/C17_mem_11.inc"
# endif
# if CFG == 2 && IN_PART(12)
#  include "gen/C17_asg.inc"
# endif
  // operator-form swizzles of ALIGNED vectors have SSE specialisations of their own (type_vec_simd.inl: float, int, uint) which the symbolic
  // element type never reaches: every member swizzle of every letter set is read on aligned float / int / uint / double vectors of the real
  // build and compared with the named components (exploration on the real code; parts 13-15 = the three letter sets)
# if CFG == 2 && (IN_PART(13) || IN_PART(14) || IN_PART(15))
#  undef SWZM
#  if IN_PART(13)
#   define SWZ_SET 0
#  elif IN_PART(14)
#   define SWZ_SET 1
#  else
#   define SWZ_SET 2
#  endif
#  define SWZM(SET, L, N, CODE, NAME) if (SET == SWZ_SET || PART < 0) { \
    { auto r = af##L.NAME(); for (int j = 0; j < N; ++j) bad += !(r[j] == af##L[(CODE >> (2 * j)) & 3]); } \
    { auto r = ai##L.NAME(); for (int j = 0; j < N; ++j) bad += !(r[j] == ai##L[(CODE >> (2 * j)) & 3]); } \
    { auto r = au##L.NAME(); for (int j = 0; j < N; ++j) bad += !(r[j] == au##L[(CODE >> (2 * j)) & 3]); } \
    { auto r = ad##L.NAME(); for (int j = 0; j < N; ++j) bad += !(r[j] == ad##L[(CODE >> (2 * j)) & 3]); } }
  add_prop(nm("p_swz_aligned", {SWZ_SET}), 4, 0.0, 0.0, [](auto const* x) { using T = TY(x); int bad = 0;
    double v[4]; for (int i = 0; i < 4; ++i) v[i] = std::floor(std::fmod(std::fabs((double)x[i]) * 40.0, 100.0)) * 4 + i;      // four distinct small non-negative integers
    glm::vec<2, float, glm::aligned_highp> af2((float)v[0], (float)v[1]); glm::vec<3, float, glm::aligned_highp> af3((float)v[0], (float)v[1], (float)v[2]); glm::vec<4, float, glm::aligned_highp> af4((float)v[0], (float)v[1], (float)v[2], (float)v[3]);
    glm::vec<2, int, glm::aligned_highp> ai2((int)v[0], (int)v[1]); glm::vec<3, int, glm::aligned_highp> ai3((int)v[0], (int)v[1], (int)v[2]); glm::vec<4, int, glm::aligned_highp> ai4((int)v[0], (int)v[1], (int)v[2], (int)v[3]);
    glm::vec<2, glm::uint, glm::aligned_highp> au2((glm::uint)v[0], (glm::uint)v[1]); glm::vec<3, glm::uint, glm::aligned_highp> au3((glm::uint)v[0], (glm::uint)v[1], (glm::uint)v[2]); glm::vec<4, glm::uint, glm::aligned_highp> au4((glm::uint)v[0], (glm::uint)v[1], (glm::uint)v[2], (glm::uint)v[3]);
    glm::vec<2, double, glm::aligned_highp> ad2(v[0], v[1]); glm::vec<3, double, glm::aligned_highp> ad3(v[0], v[1], v[2]); glm::vec<4, double, glm::aligned_highp> ad4(v[0], v[1], v[2], v[3]);
#  include "gen/C17_mem_0.inc"
#  include "gen/C17_mem_1.inc"
#  include "gen/C17_mem_2.inc"
#  include "gen/C17_mem_3.inc"
#  include "gen/C17_mem_4.inc"
#  include "gen/C17_mem_5.inc"
#  include "gen/C17_mem_6.inc"
#  include "gen/C17_mem_7.inc"
#  include "gen/C17_mem_8.inc"
#  include "gen/C17_mem_9.inc"
#  include "gen/C17_mem_10.inc"
#  include "gen/C17_mem_11.inc"
    return (T)bad; });
# endif
#endif
  return unit_main(argc, argv);
}
