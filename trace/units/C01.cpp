// C01: vector functions/operators vs the scalar overload applied per component (float element types).
// unit names: s_<f>            scalar overload, inputs = the arguments
//             v_<f>_<mask>_<L> vector overload; bit k of mask set <=> argument k is a vec<L>, else a scalar
//             (arguments laid out consecutively: a vector takes L variables, a scalar one)
// NPARTS 9
#include "common.hpp"
#include <glm/gtx/component_wise.hpp>
using namespace symt;

template<int L, class T, bool V> struct Arg { using type = T; static T ld(T const* x) { return x[0]; } static constexpr int n = 1; };
template<int L, class T> struct Arg<L, T, true> { using type = glm::vec<L, T, glm::defaultp>; static type ld(T const* x) { return ldv<L, T>(x); } static constexpr int n = L; };

#define S1N(N, F) add_unit("s_" N, 1, 1, [](auto const* x, auto* o) { o[0] = glm::F(x[0]); });
#define V1LN(N, F, L) add_unit(nm("v_" N, {1, L}), L, L, [](auto const* x, auto* o) { using T = TY(o); stv(o, glm::F(ldv<L, T>(x))); });
#define F1N(N, F) S1N(N, F) V1LN(N, F, 1) V1LN(N, F, 2) V1LN(N, F, 3) V1LN(N, F, 4)
#define F1(F) F1N(#F, F)

#define S2N(N, F) add_unit("s_" N, 2, 1, [](auto const* x, auto* o) { o[0] = glm::F(x[0], x[1]); });
#define V2LN(N, F, M, L) add_unit(nm("v_" N, {M, L}), Arg<L, float, (M & 1) != 0>::n + Arg<L, float, (M & 2) != 0>::n, L, [](auto const* x, auto* o) { using T = TY(o); \
    using A = Arg<L, T, (M & 1) != 0>; using B = Arg<L, T, (M & 2) != 0>; stv(o, glm::F(A::ld(x), B::ld(x + A::n))); });
#define V2N(N, F, M) V2LN(N, F, M, 1) V2LN(N, F, M, 2) V2LN(N, F, M, 3) V2LN(N, F, M, 4)
#define S2(F) S2N(#F, F)
#define V2(F, M) V2N(#F, F, M)

#define S3(F) add_unit("s_" #F, 3, 1, [](auto const* x, auto* o) { o[0] = glm::F(x[0], x[1], x[2]); });
#define V3L(F, M, L) add_unit(nm("v_" #F, {M, L}), Arg<L, float, (M & 1) != 0>::n + Arg<L, float, (M & 2) != 0>::n + Arg<L, float, (M & 4) != 0>::n, L, [](auto const* x, auto* o) { using T = TY(o); \
    using A = Arg<L, T, (M & 1) != 0>; using B = Arg<L, T, (M & 2) != 0>; using C = Arg<L, T, (M & 4) != 0>; stv(o, glm::F(A::ld(x), B::ld(x + A::n), C::ld(x + A::n + B::n))); });
#define V3(F, M) V3L(F, M, 1) V3L(F, M, 2) V3L(F, M, 3) V3L(F, M, 4)

#define S3N(N, F) add_unit("s_" N, 3, 1, [](auto const* x, auto* o) { o[0] = glm::F(x[0], x[1], x[2]); });
#define V3LN(N, F, M, L) add_unit(nm("v_" N, {M, L}), Arg<L, float, (M & 1) != 0>::n + Arg<L, float, (M & 2) != 0>::n + Arg<L, float, (M & 4) != 0>::n, L, [](auto const* x, auto* o) { using T = TY(o); \
    using A = Arg<L, T, (M & 1) != 0>; using B = Arg<L, T, (M & 2) != 0>; using C = Arg<L, T, (M & 4) != 0>; stv(o, glm::F(A::ld(x), B::ld(x + A::n), C::ld(x + A::n + B::n))); });
#define V3N(N, F, M) V3LN(N, F, M, 1) V3LN(N, F, M, 2) V3LN(N, F, M, 3) V3LN(N, F, M, 4)
#define S4N(N, F) add_unit("s_" N, 4, 1, [](auto const* x, auto* o) { o[0] = glm::F(x[0], x[1], x[2], x[3]); });
#define V4LN(N, F, L) add_unit(nm("v_" N, {15, L}), 4 * L, L, [](auto const* x, auto* o) { using T = TY(o); stv(o, glm::F(ldv<L, T>(x), ldv<L, T>(x + L), ldv<L, T>(x + 2 * L), ldv<L, T>(x + 3 * L))); });
#define V4N(N, F) V4LN(N, F, 1) V4LN(N, F, 2) V4LN(N, F, 3) V4LN(N, F, 4)

// operators: o = a OP b
#define OPL(NAME, OP, M, L) add_unit(nm("op_" NAME, {M, L}), Arg<L, float, (M & 1) != 0>::n + Arg<L, float, (M & 2) != 0>::n, L, [](auto const* x, auto* o) { using T = TY(o); \
    using A = Arg<L, T, (M & 1) != 0>; using B = Arg<L, T, (M & 2) != 0>; stv(o, A::ld(x) OP B::ld(x + A::n)); });
#define OPS(NAME, OP) OPL(NAME, OP, 3, 1) OPL(NAME, OP, 3, 2) OPL(NAME, OP, 3, 3) OPL(NAME, OP, 3, 4) \
                      OPL(NAME, OP, 1, 1) OPL(NAME, OP, 1, 2) OPL(NAME, OP, 1, 3) OPL(NAME, OP, 1, 4) \
                      OPL(NAME, OP, 2, 1) OPL(NAME, OP, 2, 2) OPL(NAME, OP, 2, 3) OPL(NAME, OP, 2, 4)
// vec<L> OP vec<1> and vec<1> OP vec<L>  (mask 5 / 6 by convention: the vec1 operand is one variable)
#define OPV1L(NAME, OP, L) \
  add_unit(nm("op_" NAME, {5, L}), L + 1, L, [](auto const* x, auto* o) { using T = TY(o); stv(o, ldv<L, T>(x) OP ldv<1, T>(x + L)); }); \
  add_unit(nm("op_" NAME, {6, L}), L + 1, L, [](auto const* x, auto* o) { using T = TY(o); stv(o, ldv<1, T>(x) OP ldv<L, T>(x + 1)); });
#define OPV1(NAME, OP) OPV1L(NAME, OP, 2) OPV1L(NAME, OP, 3) OPV1L(NAME, OP, 4)
// compound assignment a OP= b : mask bit 1 = b is a vector
#define ASGL(NAME, OP, M, L) add_unit(nm("asg_" NAME, {M, L}), L + Arg<L, float, (M & 2) != 0>::n, L, [](auto const* x, auto* o) { using T = TY(o); \
    using B = Arg<L, T, (M & 2) != 0>; auto a = ldv<L, T>(x); a OP B::ld(x + L); stv(o, a); });
#define ASGS(NAME, OP) ASGL(NAME, OP, 3, 1) ASGL(NAME, OP, 3, 2) ASGL(NAME, OP, 3, 3) ASGL(NAME, OP, 3, 4) \
                       ASGL(NAME, OP, 1, 1) ASGL(NAME, OP, 1, 2) ASGL(NAME, OP, 1, 3) ASGL(NAME, OP, 1, 4)
// relational: vec<L,bool> results stored as 1/0
#define RELL(F, L) add_unit(nm("rel_" #F, {L}), 2 * L, L, [](auto const* x, auto* o) { using T = TY(o); auto r = glm::F(ldv<L, T>(x), ldv<L, T>(x + L)); for (int i = 0; i < L; ++i) o[i] = T(r[i]); });
#define REL(F) RELL(F, 1) RELL(F, 2) RELL(F, 3) RELL(F, 4)

// matrix versions (ext/matrix_common, ext/matrix_relational): abs, mix, equal / notEqual (exact and with epsilon) act per element;
// the relational ones return one bool per COLUMN (all / any over the column).  mix has no decisions and is traced whole.  For the
// others all elements are computed before any is used, so the joint number of paths is exponential in C*R: they are traced one column at a
// time ("focus": column i symbolic, every other column the literal 1, whose comparisons fold), and whole for 2x2 (suffix J).
template<int C, int R, class T> glm::mat<C, R, T, glm::defaultp> ldm_focus(T const* x, int i) {
  glm::mat<C, R, T, glm::defaultp> m; for (int c = 0; c < C; ++c) for (int r = 0; r < R; ++r) m[c][r] = (c == i) ? x[r] : T(1); return m; }
template<int C, class T> glm::vec<C, T, glm::defaultp> ldv_focus(T const& e, int i) { glm::vec<C, T, glm::defaultp> v(T(1)); v[i] = e; return v; }
template<int C, int R> void reg_mat01() {
  add_unit(nm("mmixs", {C, R}), 2 * C * R + 1, C * R, [](auto const* x, auto* o) { using T = TY(o); stm(o, glm::mix(ldm<C, R, T>(x), ldm<C, R, T>(x + C * R), x[2 * C * R])); });
  add_unit(nm("mmixm", {C, R}), 3 * C * R, C * R, [](auto const* x, auto* o) { using T = TY(o); stm(o, glm::mix(ldm<C, R, T>(x), ldm<C, R, T>(x + C * R), ldm<C, R, T>(x + 2 * C * R))); });
  for (int i = 0; i < C; ++i) {
    add_unit(nm("mabs", {C, R, i}), R, R, [i](auto const* x, auto* o) { using T = TY(o); auto m = glm::abs(ldm_focus<C, R, T>(x, i)); for (int r = 0; r < R; ++r) o[r] = m[i][r]; });
#define MREL(N, CALL, NIN) add_unit(nm(N, {C, R, i}), NIN, 1, [i](auto const* x, auto* o) { using T = TY(o); symt::MemoScope ms; auto a = ldm_focus<C, R, T>(x, i), b = ldm_focus<C, R, T>(x + R, i); o[0] = T((CALL)[i]); });
    MREL("mequal", glm::equal(a, b), 2 * R)
    MREL("mnotEqual", glm::notEqual(a, b), 2 * R)
    MREL("mequal_e", glm::equal(a, b, x[2 * R]), 2 * R + 1)
    MREL("mnotEqual_e", glm::notEqual(a, b, x[2 * R]), 2 * R + 1)
    MREL("mequal_ev", glm::equal(a, b, ldv_focus<C, T>(x[2 * R], i)), 2 * R + 1)
    MREL("mnotEqual_ev", glm::notEqual(a, b, ldv_focus<C, T>(x[2 * R], i)), 2 * R + 1)
#undef MREL
  }
}
// whole 2x2 matrices: a (4), b (4), then epsilon (1) or a vec2 of epsilons (2)
#define MRELJ(N, CALL, NIN) add_unit(N, NIN, 2, [](auto const* x, auto* o) { using T = TY(o); auto a = ldm<2, 2, T>(x), b = ldm<2, 2, T>(x + 4); auto r = CALL; o[0] = T(r[0]); o[1] = T(r[1]); });

int main(int argc, char** argv) {
#if IN_PART(0)
  F1(abs) F1(sign) F1(floor) F1(trunc) F1(round) F1(ceil) F1(fract)
  F1(exp) F1(log) F1(exp2) F1(log2) F1(sqrt) F1(inversesqrt)
#endif
#if IN_PART(1)
  F1(radians) F1(degrees) F1(sin) F1(cos) F1(tan) F1(asin) F1(acos) F1N("atan1", atan)
  F1(sinh) F1(cosh) F1(tanh) F1(asinh) F1(acosh) F1(atanh)
#endif
#if IN_PART(2)
  S2(min) V2(min, 3) V2(min, 1)
  S2(max) V2(max, 3) V2(max, 1)
  S2(mod) V2(mod, 3) V2(mod, 1)
  S2(step) V2(step, 3) V2(step, 2)
  S2(pow) V2(pow, 3)
  S2N("atan2", atan) V2N("atan2", atan, 3)
#endif
#if IN_PART(3)
  S3(clamp) V3(clamp, 7) V3(clamp, 1)
  S3(mix) V3(mix, 7) V3(mix, 3)
  S3(smoothstep) V3(smoothstep, 7) V3(smoothstep, 4)
  S3(fma) V3(fma, 7)
#endif
#if IN_PART(4)
  OPS("add", +) OPS("sub", -) OPS("mul", *) OPS("div", /)
  OPV1("add", +) OPV1("sub", -) OPV1("mul", *) OPV1("div", /)
#endif
#if IN_PART(5)
  ASGS("add", +=) ASGS("sub", -=) ASGS("mul", *=) ASGS("div", /=)
  REL(lessThan) REL(lessThanEqual) REL(greaterThan) REL(greaterThanEqual) REL(equal) REL(notEqual)
#define UNL(L) add_unit(nm("op_neg", {L}), L, L, [](auto const* x, auto* o) { using T = TY(o); stv(o, -ldv<L, T>(x)); }); \
  add_unit(nm("op_preinc", {L}), L, 2 * L, [](auto const* x, auto* o) { using T = TY(o); auto a = ldv<L, T>(x); auto r = ++a; stv(o, r); stv(o + L, a); }); \
  add_unit(nm("op_postdec", {L}), L, 2 * L, [](auto const* x, auto* o) { using T = TY(o); auto a = ldv<L, T>(x); auto r = a--; stv(o, r); stv(o + L, a); });
  UNL(1) UNL(2) UNL(3) UNL(4)
#endif
#if IN_PART(0)
  // lowp inversesqrt is a deliberate fast approximation (bit trick + one Newton step): the property allows a relative error below 2^-8
  // against the scalar overload.  Not a theorem (float rounding of three products): a dense sweep.  The input picks a power of 4 (the
  // trick is invariant under it) and an offset; every call sweeps 2048 vec4 of consecutive mantissa steps across [1,4) * 4^k.
  add_prop("p_lowp_inversesqrt", 2, 0.00390625, 1e-12, [](auto const* u) { using T = TY(u);
    int k = (int)(u[0] * 15.0); T scale = (T)std::ldexp(1.0, 2 * k); double off = ((double)u[1] + 2.0) / 4.0;   // k in -30..30
    double worst = 0;
    for (int s = 0; s < 2048; ++s) {
      glm::vec<4, T, glm::lowp> x;
      for (int c = 0; c < 4; ++c) x[c] = (T)((1.0 + 3.0 * ((s * 4 + c + off) / 8192.0)) * (double)scale);
      glm::vec<4, T, glm::lowp> r = glm::inversesqrt(x);
      glm::vec<3, T, glm::lowp> r3 = glm::inversesqrt(glm::vec<3, T, glm::lowp>(x)); glm::vec<1, T, glm::lowp> r1 = glm::inversesqrt(glm::vec<1, T, glm::lowp>(x.y));
      for (int c = 0; c < 4; ++c) { double ref = (double)glm::inversesqrt(x[c]); worst = std::max(worst, std::fabs((double)r[c] - ref) / ref); }
      for (int c = 0; c < 3; ++c) { double ref = (double)glm::inversesqrt(x[c]); worst = std::max(worst, std::fabs((double)r3[c] - ref) / ref); }
      { double ref = (double)glm::inversesqrt(x.y); worst = std::max(worst, std::fabs((double)r1.x - ref) / ref); }
    }
    return (T)worst; });
#endif
#if IN_PART(1)
  // mix with an element type that differs from the weight type (integer vectors, float / double weights: a change of element type the tracer
  // cannot follow): the vector overloads (scalar weight, vector weight) equal the scalar overload per component.  Exploration on the real code.
  add_prop("p_mix_mixed", 9, 0.0, 0.0, [](auto const* u) { using T = TY(u); int bad = 0;
    auto go = [&](auto e0, auto w0) { using E = decltype(e0); using W = decltype(w0);
      E x[4], y[4]; for (int i = 0; i < 4; ++i) { x[i] = static_cast<E>(std::fmod(std::fabs((double)u[i]) * 9.0, 40.0)); y[i] = static_cast<E>(std::fmod(std::fabs((double)u[4 + i]) * 11.0, 40.0)); }
      W const ws[5] = { W(0), W(1), W(0.5), W(0.25), static_cast<W>(std::fmod(std::fabs((double)u[8]), 1.0)) };
      for (W a : ws) {
        glm::vec<4, E> x4(x[0], x[1], x[2], x[3]), y4(y[0], y[1], y[2], y[3]); glm::vec<3, E> x3(x4), y3(y4); glm::vec<2, E> x2(x4), y2(y4); glm::vec<1, E> x1(x4), y1(y4);
        auto r4 = glm::mix(x4, y4, a); auto r3 = glm::mix(x3, y3, a); auto r2 = glm::mix(x2, y2, a); auto r1 = glm::mix(x1, y1, a);
        auto v4 = glm::mix(x4, y4, glm::vec<4, W>(a)); auto v3 = glm::mix(x3, y3, glm::vec<3, W>(a));
        for (int i = 0; i < 4; ++i) { E ref = glm::mix(x[i], y[i], a); bad += !(r4[i] == ref) + !(v4[i] == ref); if (i < 3) bad += !(r3[i] == ref) + !(v3[i] == ref); if (i < 2) bad += !(r2[i] == ref); if (i < 1) bad += !(r1[i] == ref); }
      } };
    go(int(), float()); go(int(), double()); go((unsigned)0, float()); go((unsigned)0, double()); go((long long)0, double()); go((short)0, float()); go((signed char)0, float()); go(float(), double()); go(double(), float());
    return (T)bad; });
#endif
#if IN_PART(8)
  add_unit("mabsJ", 4, 4, [](auto const* x, auto* o) { using T = TY(o); stm(o, glm::abs(ldm<2, 2, T>(x))); });
  MRELJ("mequalJ", glm::equal(a, b), 8) MRELJ("mnotEqualJ", glm::notEqual(a, b), 8)
  MRELJ("mequalJ_e", glm::equal(a, b, x[8]), 9) MRELJ("mnotEqualJ_e", glm::notEqual(a, b, x[8]), 9)
  MRELJ("mequalJ_ev", glm::equal(a, b, ldv<2, T>(x + 8)), 10) MRELJ("mnotEqualJ_ev", glm::notEqual(a, b, ldv<2, T>(x + 8)), 10)
  reg_mat01<2, 2>(); reg_mat01<2, 3>(); reg_mat01<2, 4>(); reg_mat01<3, 2>(); reg_mat01<3, 3>(); reg_mat01<3, 4>(); reg_mat01<4, 2>(); reg_mat01<4, 3>(); reg_mat01<4, 4>();
#endif
#if IN_PART(7)
  // ext twins (ext/scalar_common vs ext/vector_common): NaN-aware and n-ary selection, texture-coordinate wraps
  S2(fmin) V2(fmin, 3) V2(fmin, 1)   S2(fmax) V2(fmax, 3) V2(fmax, 1)
  // (all components are traced jointly, so the number of paths is the product over the components: the deeper selections stop at L = 3 / 2)
  S3N("fmin3", fmin) V3LN("fmin3", fmin, 7, 1) V3LN("fmin3", fmin, 7, 2) V3LN("fmin3", fmin, 7, 3)
  S3N("fmax3", fmax) V3LN("fmax3", fmax, 7, 1) V3LN("fmax3", fmax, 7, 2) V3LN("fmax3", fmax, 7, 3)
  S4N("fmin4", fmin) V4LN("fmin4", fmin, 1) V4LN("fmin4", fmin, 2)   S4N("fmax4", fmax) V4LN("fmax4", fmax, 1) V4LN("fmax4", fmax, 2)
  S3(fclamp) V3L(fclamp, 7, 1) V3L(fclamp, 7, 2) V3L(fclamp, 7, 3) V3L(fclamp, 1, 1) V3L(fclamp, 1, 2) V3L(fclamp, 1, 3)
  // scalar min/max of 3 and 4 arguments exist twice (ext/scalar_common by value, gtx/extended_min_max by reference): pick each by its signature
#define S3P(N, F, A) add_unit("s_" N, 3, 1, [](auto const* x, auto* o) { using T = TY(o); o[0] = static_cast<T (*)(A, A, A)>(&glm::F<T>)(x[0], x[1], x[2]); });
#define S4P(N, F, A) add_unit("s_" N, 4, 1, [](auto const* x, auto* o) { using T = TY(o); o[0] = static_cast<T (*)(A, A, A, A)>(&glm::F<T>)(x[0], x[1], x[2], x[3]); });
  S3P("min3", min, T) V3N("min3", min, 7)   S3P("max3", max, T) V3N("max3", max, 7)
  S4P("min4", min, T) V4N("min4", min)   S4P("max4", max, T) V4N("max4", max)
  S3P("gmin3", min, T const&) S3P("gmax3", max, T const&) S4P("gmin4", min, T const&) S4P("gmax4", max, T const&)
  F1N("clampT", clamp) F1(repeat) F1(mirrorClamp) F1(mirrorRepeat)
  // ext/scalar_reciprocal vs ext/vector_reciprocal
  F1(sec) F1(csc) F1(cot) F1(asec) F1(acsc) F1(acot) F1(sech) F1(csch) F1(coth) F1(asech) F1(acsch) F1(acoth)
#endif
#if IN_PART(6)
  // integer element types (int32 / uint32): component-wise functions against the scalar overload, operators against the
  // built-in operator.  REG = add_unit_i32 / add_unit_u32, P = name prefix (i / u)
#define IS1(REG, P, F) REG("s_" P #F, 1, 1, [](auto const* x, auto* o) { o[0] = glm::F(x[0]); });
#define IV1L(REG, P, F, L) REG(nm("v_" P #F, {1, L}), L, L, [](auto const* x, auto* o) { using T = TY(o); stv(o, glm::F(ldv<L, T>(x))); });
#define IF1(REG, P, F) IS1(REG, P, F) IV1L(REG, P, F, 1) IV1L(REG, P, F, 2) IV1L(REG, P, F, 3) IV1L(REG, P, F, 4)
#define IS2(REG, P, F) REG("s_" P #F, 2, 1, [](auto const* x, auto* o) { o[0] = glm::F(x[0], x[1]); });
#define IV2L(REG, P, F, M, L) REG(nm("v_" P #F, {M, L}), Arg<L, int, (M & 1) != 0>::n + Arg<L, int, (M & 2) != 0>::n, L, [](auto const* x, auto* o) { using T = TY(o); \
    using A = Arg<L, T, (M & 1) != 0>; using B = Arg<L, T, (M & 2) != 0>; stv(o, glm::F(A::ld(x), B::ld(x + A::n))); });
#define IV2(REG, P, F, M) IV2L(REG, P, F, M, 1) IV2L(REG, P, F, M, 2) IV2L(REG, P, F, M, 3) IV2L(REG, P, F, M, 4)
#define IS3(REG, P, F) REG("s_" P #F, 3, 1, [](auto const* x, auto* o) { o[0] = glm::F(x[0], x[1], x[2]); });
#define IV3L(REG, P, F, M, L) REG(nm("v_" P #F, {M, L}), Arg<L, int, (M & 1) != 0>::n + Arg<L, int, (M & 2) != 0>::n + Arg<L, int, (M & 4) != 0>::n, L, [](auto const* x, auto* o) { using T = TY(o); \
    using A = Arg<L, T, (M & 1) != 0>; using B = Arg<L, T, (M & 2) != 0>; using C = Arg<L, T, (M & 4) != 0>; stv(o, glm::F(A::ld(x), B::ld(x + A::n), C::ld(x + A::n + B::n))); });
#define IV3(REG, P, F, M) IV3L(REG, P, F, M, 1) IV3L(REG, P, F, M, 2) IV3L(REG, P, F, M, 3) IV3L(REG, P, F, M, 4)
#define IOPL(REG, P, NAME, OP, M, L) REG(nm(P "op_" NAME, {M, L}), Arg<L, int, (M & 1) != 0>::n + Arg<L, int, (M & 2) != 0>::n, L, [](auto const* x, auto* o) { using T = TY(o); \
    using A = Arg<L, T, (M & 1) != 0>; using B = Arg<L, T, (M & 2) != 0>; stv(o, A::ld(x) OP B::ld(x + A::n)); });
#define IOPS(REG, P, NAME, OP) IOPL(REG, P, NAME, OP, 3, 1) IOPL(REG, P, NAME, OP, 3, 2) IOPL(REG, P, NAME, OP, 3, 3) IOPL(REG, P, NAME, OP, 3, 4) \
                      IOPL(REG, P, NAME, OP, 1, 1) IOPL(REG, P, NAME, OP, 1, 2) IOPL(REG, P, NAME, OP, 1, 3) IOPL(REG, P, NAME, OP, 1, 4) \
                      IOPL(REG, P, NAME, OP, 2, 1) IOPL(REG, P, NAME, OP, 2, 2) IOPL(REG, P, NAME, OP, 2, 3) IOPL(REG, P, NAME, OP, 2, 4)
#define IOPV1L(REG, P, NAME, OP, L) \
  REG(nm(P "op_" NAME, {5, L}), L + 1, L, [](auto const* x, auto* o) { using T = TY(o); stv(o, ldv<L, T>(x) OP ldv<1, T>(x + L)); }); \
  REG(nm(P "op_" NAME, {6, L}), L + 1, L, [](auto const* x, auto* o) { using T = TY(o); stv(o, ldv<1, T>(x) OP ldv<L, T>(x + 1)); });
#define IOPV1(REG, P, NAME, OP) IOPV1L(REG, P, NAME, OP, 2) IOPV1L(REG, P, NAME, OP, 3) IOPV1L(REG, P, NAME, OP, 4)
#define IASGL(REG, P, NAME, OP, M, L) REG(nm(P "asg_" NAME, {M, L}), L + Arg<L, int, (M & 2) != 0>::n, L, [](auto const* x, auto* o) { using T = TY(o); \
    using B = Arg<L, T, (M & 2) != 0>; auto a = ldv<L, T>(x); a OP B::ld(x + L); stv(o, a); });
#define IASGS(REG, P, NAME, OP) IASGL(REG, P, NAME, OP, 3, 1) IASGL(REG, P, NAME, OP, 3, 2) IASGL(REG, P, NAME, OP, 3, 3) IASGL(REG, P, NAME, OP, 3, 4) \
                       IASGL(REG, P, NAME, OP, 1, 1) IASGL(REG, P, NAME, OP, 1, 2) IASGL(REG, P, NAME, OP, 1, 3) IASGL(REG, P, NAME, OP, 1, 4)
#define IALLOPS(REG, P, NAME, OP, AOP) IOPS(REG, P, NAME, OP) IOPV1(REG, P, NAME, OP) IASGS(REG, P, NAME, AOP)
#define IUNL(REG, P, L) REG(nm(P "op_neg", {L}), L, L, [](auto const* x, auto* o) { using T = TY(o); stv(o, -ldv<L, T>(x)); }); \
  REG(nm(P "op_not", {L}), L, L, [](auto const* x, auto* o) { using T = TY(o); stv(o, ~ldv<L, T>(x)); });
#define INTS(REG, P) IF1(REG, P, abs) IS2(REG, P, min) IV2(REG, P, min, 3) IV2(REG, P, min, 1) IS2(REG, P, max) IV2(REG, P, max, 3) IV2(REG, P, max, 1) \
  IS3(REG, P, clamp) IV3(REG, P, clamp, 7) IV3(REG, P, clamp, 1) \
  IALLOPS(REG, P, "add", +, +=) IALLOPS(REG, P, "sub", -, -=) IALLOPS(REG, P, "mul", *, *=) IALLOPS(REG, P, "and", &, &=) IALLOPS(REG, P, "or", |, |=) \
  IALLOPS(REG, P, "xor", ^, ^=) IALLOPS(REG, P, "shl", <<, <<=) IALLOPS(REG, P, "shr", >>, >>=) IALLOPS(REG, P, "mod", %, %=) IUNL(REG, P, 1) IUNL(REG, P, 2) IUNL(REG, P, 3) IUNL(REG, P, 4)
  INTS(add_unit_i32, "i")
#define IUINTS(REG, P) IS2(REG, P, min) IV2(REG, P, min, 3) IV2(REG, P, min, 1) IS2(REG, P, max) IV2(REG, P, max, 3) IV2(REG, P, max, 1) \
  IS3(REG, P, clamp) IV3(REG, P, clamp, 7) IV3(REG, P, clamp, 1) \
  IALLOPS(REG, P, "add", +, +=) IALLOPS(REG, P, "sub", -, -=) IALLOPS(REG, P, "mul", *, *=) IALLOPS(REG, P, "and", &, &=) IALLOPS(REG, P, "or", |, |=) \
  IALLOPS(REG, P, "xor", ^, ^=) IALLOPS(REG, P, "shl", <<, <<=) IALLOPS(REG, P, "shr", >>, >>=) IALLOPS(REG, P, "mod", %, %=)
  IUINTS(add_unit_u32, "u")
  // (uaddCarry / usubBorrow / umulExtended are declared for `uint` only, not for a generic element type: hand model C05)
#endif
  return unit_main(argc, argv);
}
