// C02: matrix operators/functions, all nine shapes
// NPARTS 5
#include "common.hpp"
#include <glm/ext/matrix_integer.hpp>
#include <glm/gtc/matrix_access.hpp>
#include <glm/gtx/matrix_operation.hpp>
#include <glm/gtx/matrix_major_storage.hpp>
#include <glm/gtx/matrix_cross_product.hpp>
using namespace symt;

template<int C, int R, int C2> void reg_mul() {   // mat<C,R> * mat<C2,C> -> mat<C2,R>
  add_unit(nm("mul", {C, R, C2}), C * R + C2 * C, C2 * R, [](auto const* x, auto* o) {
    using T = TY(o); stm(o, ldm<C, R, T>(x) * ldm<C2, C, T>(x + C * R)); });
}
template<int C, int R> void reg_shape() {
  add_unit(nm("mulmv", {C, R}), C * R + C, R, [](auto const* x, auto* o) { using T = TY(o); stv(o, ldm<C, R, T>(x) * ldv<C, T>(x + C * R)); });
  add_unit(nm("mulvm", {C, R}), R + C * R, C, [](auto const* x, auto* o) { using T = TY(o); stv(o, ldv<R, T>(x) * ldm<C, R, T>(x + R)); });
  add_unit(nm("transpose", {C, R}), C * R, C * R, [](auto const* x, auto* o) { using T = TY(o); stm(o, glm::transpose(ldm<C, R, T>(x))); });
  add_unit(nm("outer", {C, R}), R + C, C * R, [](auto const* x, auto* o) { using T = TY(o); stm(o, glm::outerProduct(ldv<R, T>(x), ldv<C, T>(x + R))); });
  add_unit(nm("compmult", {C, R}), 2 * C * R, C * R, [](auto const* x, auto* o) { using T = TY(o); stm(o, glm::matrixCompMult(ldm<C, R, T>(x), ldm<C, R, T>(x + C * R))); });
  add_unit(nm("addmm", {C, R}), 2 * C * R, C * R, [](auto const* x, auto* o) { using T = TY(o); stm(o, ldm<C, R, T>(x) + ldm<C, R, T>(x + C * R)); });
  add_unit(nm("submm", {C, R}), 2 * C * R, C * R, [](auto const* x, auto* o) { using T = TY(o); stm(o, ldm<C, R, T>(x) - ldm<C, R, T>(x + C * R)); });
  add_unit(nm("addms", {C, R}), C * R + 1, C * R, [](auto const* x, auto* o) { using T = TY(o); stm(o, ldm<C, R, T>(x) + x[C * R]); });
  if constexpr (C == R) add_unit(nm("addsm", {C, R}), C * R + 1, C * R, [](auto const* x, auto* o) { using T = TY(o); stm(o, x[C * R] + ldm<C, R, T>(x)); });
  add_unit(nm("subms", {C, R}), C * R + 1, C * R, [](auto const* x, auto* o) { using T = TY(o); stm(o, ldm<C, R, T>(x) - x[C * R]); });
  if constexpr (C == R) add_unit(nm("subsm", {C, R}), C * R + 1, C * R, [](auto const* x, auto* o) { using T = TY(o); stm(o, x[C * R] - ldm<C, R, T>(x)); });
  add_unit(nm("mulms", {C, R}), C * R + 1, C * R, [](auto const* x, auto* o) { using T = TY(o); stm(o, ldm<C, R, T>(x) * x[C * R]); });
  add_unit(nm("mulsm", {C, R}), C * R + 1, C * R, [](auto const* x, auto* o) { using T = TY(o); stm(o, x[C * R] * ldm<C, R, T>(x)); });
  add_unit(nm("divms", {C, R}), C * R + 1, C * R, [](auto const* x, auto* o) { using T = TY(o); stm(o, ldm<C, R, T>(x) / x[C * R]); });
  add_unit(nm("divsm", {C, R}), C * R + 1, C * R, [](auto const* x, auto* o) { using T = TY(o); stm(o, x[C * R] / ldm<C, R, T>(x)); });
  add_unit(nm("negm", {C, R}), C * R, C * R, [](auto const* x, auto* o) { using T = TY(o); stm(o, -ldm<C, R, T>(x)); });
  add_unit(nm("posm", {C, R}), C * R, C * R, [](auto const* x, auto* o) { using T = TY(o); stm(o, +ldm<C, R, T>(x)); });
  // ++ / -- : outputs = returned value then the object afterwards
  add_unit(nm("preinc", {C, R}), C * R, 2 * C * R, [](auto const* x, auto* o) { using T = TY(o); auto m = ldm<C, R, T>(x); auto r = ++m; stm(o, r); stm(o + C * R, m); });
  add_unit(nm("predec", {C, R}), C * R, 2 * C * R, [](auto const* x, auto* o) { using T = TY(o); auto m = ldm<C, R, T>(x); auto r = --m; stm(o, r); stm(o + C * R, m); });
  add_unit(nm("postinc", {C, R}), C * R, 2 * C * R, [](auto const* x, auto* o) { using T = TY(o); auto m = ldm<C, R, T>(x); auto r = m++; stm(o, r); stm(o + C * R, m); });
  add_unit(nm("postdec", {C, R}), C * R, 2 * C * R, [](auto const* x, auto* o) { using T = TY(o); auto m = ldm<C, R, T>(x); auto r = m--; stm(o, r); stm(o + C * R, m); });
  // compound assignment
  add_unit(nm("asgadd_m", {C, R}), 2 * C * R, C * R, [](auto const* x, auto* o) { using T = TY(o); auto m = ldm<C, R, T>(x); m += ldm<C, R, T>(x + C * R); stm(o, m); });
  add_unit(nm("asgsub_m", {C, R}), 2 * C * R, C * R, [](auto const* x, auto* o) { using T = TY(o); auto m = ldm<C, R, T>(x); m -= ldm<C, R, T>(x + C * R); stm(o, m); });
  add_unit(nm("asgadd_s", {C, R}), C * R + 1, C * R, [](auto const* x, auto* o) { using T = TY(o); auto m = ldm<C, R, T>(x); m += x[C * R]; stm(o, m); });
  add_unit(nm("asgsub_s", {C, R}), C * R + 1, C * R, [](auto const* x, auto* o) { using T = TY(o); auto m = ldm<C, R, T>(x); m -= x[C * R]; stm(o, m); });
  add_unit(nm("asgmul_s", {C, R}), C * R + 1, C * R, [](auto const* x, auto* o) { using T = TY(o); auto m = ldm<C, R, T>(x); m *= x[C * R]; stm(o, m); });
  add_unit(nm("asgdiv_s", {C, R}), C * R + 1, C * R, [](auto const* x, auto* o) { using T = TY(o); auto m = ldm<C, R, T>(x); m /= x[C * R]; stm(o, m); });
  add_unit(nm("asg_m", {C, R}), C * R, C * R, [](auto const* x, auto* o) { using T = TY(o); glm::mat<C, R, T, glm::defaultp> m(T(7)); m = ldm<C, R, T>(x); stm(o, m); });
  // gtc/matrix_access
  for (int i = 0; i < R; ++i) {
    add_unit(nm("row_get", {C, R, i}), C * R, C, [i](auto const* x, auto* o) { using T = TY(o); stv(o, glm::row(ldm<C, R, T>(x), i)); });
    add_unit(nm("row_set", {C, R, i}), C * R + C, C * R, [i](auto const* x, auto* o) { using T = TY(o); stm(o, glm::row(ldm<C, R, T>(x), i, ldv<C, T>(x + C * R))); });
  }
  for (int i = 0; i < C; ++i) {
    add_unit(nm("col_get", {C, R, i}), C * R, R, [i](auto const* x, auto* o) { using T = TY(o); stv(o, glm::column(ldm<C, R, T>(x), i)); });
    add_unit(nm("col_set", {C, R, i}), C * R + R, C * R, [i](auto const* x, auto* o) { using T = TY(o); stm(o, glm::column(ldm<C, R, T>(x), i, ldv<R, T>(x + C * R))); });
  }
  // scalar-diagonal constructor
  add_unit(nm("ctor_diag", {C, R}), 1, C * R, [](auto const* x, auto* o) { using T = TY(o); stm(o, glm::mat<C, R, T, glm::defaultp>(x[0])); });
}
template<int C, int R, int C2, int R2> void reg_conv() {   // mat<C,R>(mat<C2,R2>)
  add_unit(nm("conv", {C, R, C2, R2}), C2 * R2, C * R, [](auto const* x, auto* o) { using T = TY(o); stm(o, glm::mat<C, R, T, glm::defaultp>(ldm<C2, R2, T>(x))); });
}
template<int C, int R> void reg_conv_all() {
  reg_conv<C, R, 2, 2>(); reg_conv<C, R, 2, 3>(); reg_conv<C, R, 2, 4>();
  reg_conv<C, R, 3, 2>(); reg_conv<C, R, 3, 3>(); reg_conv<C, R, 3, 4>();
  reg_conv<C, R, 4, 2>(); reg_conv<C, R, 4, 3>(); reg_conv<C, R, 4, 4>();
}
template<int N> void reg_square() {
  add_unit(nm("asgmul_m", {N}), 2 * N * N, N * N, [](auto const* x, auto* o) { using T = TY(o); auto m = ldm<N, N, T>(x); m *= ldm<N, N, T>(x + N * N); stm(o, m); });
}
template<int C, int R> void reg_mul_all() { reg_mul<C, R, 2>(); reg_mul<C, R, 3>(); reg_mul<C, R, 4>(); }

// integer matrices (ext/matrix_integer.inl): transpose, outerProduct, matrixCompMult reach the shared kernels through a separate
// dispatcher selected by numeric_limits<T>::is_iec559 == false; traced at symbolic int32, plus the product as a representative operator
template<int C, int R> void reg_int() {
  add_unit_i32(nm("itranspose", {C, R}), C * R, C * R, [](auto const* x, auto* o) { using T = TY(o); stm(o, glm::transpose(ldm<C, R, T>(x))); });
  add_unit_i32(nm("iouter", {C, R}), R + C, C * R, [](auto const* x, auto* o) { using T = TY(o); stm(o, glm::outerProduct(ldv<R, T>(x), ldv<C, T>(x + R))); });
  add_unit_i32(nm("icompmult", {C, R}), 2 * C * R, C * R, [](auto const* x, auto* o) { using T = TY(o); stm(o, glm::matrixCompMult(ldm<C, R, T>(x), ldm<C, R, T>(x + C * R))); });
  add_unit_i32(nm("imulmv", {C, R}), C * R + C, R, [](auto const* x, auto* o) { using T = TY(o); stv(o, ldm<C, R, T>(x) * ldv<C, T>(x + C * R)); });
}

// gtx/matrix_operation diagonalCxR(v): identity-like matrix with v on the diagonal; gtx/matrix_major_storage: rowMajorN / colMajorN from vectors and from a matrix
#define DIAG(C, R, K) add_unit(nm("gdiag", {C, R}), K, C * R, [](auto const* x, auto* o) { using T = TY(o); stm(o, glm::diagonal##C##x##R(ldv<K, T>(x))); });
#define MAJ(N) \
  add_unit(nm("rowmajor_m", {N}), N * N, N * N, [](auto const* x, auto* o) { using T = TY(o); stm(o, glm::rowMajor##N(ldm<N, N, T>(x))); }); \
  add_unit(nm("colmajor_m", {N}), N * N, N * N, [](auto const* x, auto* o) { using T = TY(o); stm(o, glm::colMajor##N(ldm<N, N, T>(x))); });
void reg_gtx_storage() {
  DIAG(2, 2, 2) DIAG(2, 3, 2) DIAG(2, 4, 2) DIAG(3, 2, 2) DIAG(3, 3, 3) DIAG(3, 4, 3) DIAG(4, 2, 2) DIAG(4, 3, 3) DIAG(4, 4, 4)
  MAJ(2) MAJ(3) MAJ(4)
  add_unit(nm("rowmajor_v", {2}), 4, 4, [](auto const* x, auto* o) { using T = TY(o); stm(o, glm::rowMajor2(ldv<2, T>(x), ldv<2, T>(x + 2))); });
  add_unit(nm("rowmajor_v", {3}), 9, 9, [](auto const* x, auto* o) { using T = TY(o); stm(o, glm::rowMajor3(ldv<3, T>(x), ldv<3, T>(x + 3), ldv<3, T>(x + 6))); });
  add_unit(nm("rowmajor_v", {4}), 16, 16, [](auto const* x, auto* o) { using T = TY(o); stm(o, glm::rowMajor4(ldv<4, T>(x), ldv<4, T>(x + 4), ldv<4, T>(x + 8), ldv<4, T>(x + 12))); });
  add_unit(nm("colmajor_v", {2}), 4, 4, [](auto const* x, auto* o) { using T = TY(o); stm(o, glm::colMajor2(ldv<2, T>(x), ldv<2, T>(x + 2))); });
  add_unit(nm("colmajor_v", {3}), 9, 9, [](auto const* x, auto* o) { using T = TY(o); stm(o, glm::colMajor3(ldv<3, T>(x), ldv<3, T>(x + 3), ldv<3, T>(x + 6))); });
  add_unit(nm("colmajor_v", {4}), 16, 16, [](auto const* x, auto* o) { using T = TY(o); stm(o, glm::colMajor4(ldv<4, T>(x), ldv<4, T>(x + 4), ldv<4, T>(x + 8), ldv<4, T>(x + 12))); });
}

int main(int argc, char** argv) {
#define ALLSHAPES(F) F<2,2>(); F<2,3>(); F<2,4>(); F<3,2>(); F<3,3>(); F<3,4>(); F<4,2>(); F<4,3>(); F<4,4>();
#if IN_PART(0)
  ALLSHAPES(reg_mul_all)
  reg_square<2>(); reg_square<3>(); reg_square<4>();
#endif
#if IN_PART(1)
  reg_shape<2,2>(); reg_shape<2,3>(); reg_shape<2,4>();
#endif
#if IN_PART(2)
  reg_shape<3,2>(); reg_shape<3,3>(); reg_shape<3,4>();
#endif
#if IN_PART(3)
  reg_shape<4,2>(); reg_shape<4,3>(); reg_shape<4,4>();
#endif
#if IN_PART(4)
  reg_gtx_storage();
  ALLSHAPES(reg_int)
  ALLSHAPES(reg_conv_all)
#endif
  return unit_main(argc, argv);
}
