// C19: colour-space conversions
// NPARTS 2
#include "common.hpp"
#include <glm/gtc/color_space.hpp>
#include <glm/gtx/color_space.hpp>
#include <glm/gtx/color_space_YCoCg.hpp>
using namespace symt;

int main(int argc, char** argv) {
#if IN_PART(0)
  // integer YCoCg-R: forward, backward, and the round trip (exactly lossless)
  add_unit_i32(nm("ycocgr_rt", {0}), 3, 3, [](auto const* x, auto* o) { using T = TY(o); stv(o, glm::YCoCgR2rgb(glm::rgb2YCoCgR(ldv<3, T>(x)))); });
  add_unit_u32(nm("ycocgr_rt", {1}), 3, 3, [](auto const* x, auto* o) { using T = TY(o); stv(o, glm::YCoCgR2rgb(glm::rgb2YCoCgR(ldv<3, T>(x)))); });
  add_unit_i32(nm("ycocgr_fwd", {0}), 3, 3, [](auto const* x, auto* o) { using T = TY(o); stv(o, glm::rgb2YCoCgR(ldv<3, T>(x))); });
  add_unit_u32(nm("ycocgr_fwd", {1}), 3, 3, [](auto const* x, auto* o) { using T = TY(o); stv(o, glm::rgb2YCoCgR(ldv<3, T>(x))); });
  add_unit_i32(nm("ycocgr_bwd", {0}), 3, 3, [](auto const* x, auto* o) { using T = TY(o); stv(o, glm::YCoCgR2rgb(ldv<3, T>(x))); });
  add_unit_u32(nm("ycocgr_bwd", {1}), 3, 3, [](auto const* x, auto* o) { using T = TY(o); stv(o, glm::YCoCgR2rgb(ldv<3, T>(x))); });
  // floating YCoCg and YCoCg-R
  add_unit("ycocg_fwd", 3, 3, [](auto const* x, auto* o) { using T = TY(o); stv(o, glm::rgb2YCoCg(ldv<3, T>(x))); });
  add_unit("ycocg_bwd", 3, 3, [](auto const* x, auto* o) { using T = TY(o); stv(o, glm::YCoCg2rgb(ldv<3, T>(x))); });
  add_unit("ycocg_rt", 3, 3, [](auto const* x, auto* o) { using T = TY(o); stv(o, glm::YCoCg2rgb(glm::rgb2YCoCg(ldv<3, T>(x)))); });
  add_unit("ycocg_rt2", 3, 3, [](auto const* x, auto* o) { using T = TY(o); stv(o, glm::rgb2YCoCg(glm::YCoCg2rgb(ldv<3, T>(x)))); });
  add_unit("ycocgrf_rt", 3, 3, [](auto const* x, auto* o) { using T = TY(o); stv(o, glm::YCoCgR2rgb(glm::rgb2YCoCgR(ldv<3, T>(x)))); });
  add_unit("ycocgrf_rt2", 3, 3, [](auto const* x, auto* o) { using T = TY(o); stv(o, glm::rgb2YCoCgR(glm::YCoCgR2rgb(ldv<3, T>(x)))); });
#endif
#if IN_PART(1)
  add_unit(nm("lin2srgb", {3}), 3, 3, [](auto const* x, auto* o) { using T = TY(o); stv(o, glm::convertLinearToSRGB(ldv<3, T>(x))); });
  add_unit(nm("lin2srgb", {4}), 4, 4, [](auto const* x, auto* o) { using T = TY(o); stv(o, glm::convertLinearToSRGB(ldv<4, T>(x))); });
  add_unit(nm("lin2srgb_g", {3}), 4, 3, [](auto const* x, auto* o) { using T = TY(o); stv(o, glm::convertLinearToSRGB(ldv<3, T>(x), x[3])); });
  add_unit(nm("lin2srgb_g", {4}), 5, 4, [](auto const* x, auto* o) { using T = TY(o); stv(o, glm::convertLinearToSRGB(ldv<4, T>(x), x[4])); });
  add_unit(nm("srgb2lin", {3}), 3, 3, [](auto const* x, auto* o) { using T = TY(o); stv(o, glm::convertSRGBToLinear(ldv<3, T>(x))); });
  add_unit(nm("srgb2lin", {4}), 4, 4, [](auto const* x, auto* o) { using T = TY(o); stv(o, glm::convertSRGBToLinear(ldv<4, T>(x))); });
  add_unit(nm("srgb2lin_g", {3}), 4, 3, [](auto const* x, auto* o) { using T = TY(o); stv(o, glm::convertSRGBToLinear(ldv<3, T>(x), x[3])); });
  add_unit(nm("srgb2lin_g", {4}), 5, 4, [](auto const* x, auto* o) { using T = TY(o); stv(o, glm::convertSRGBToLinear(ldv<4, T>(x), x[4])); });
  add_unit("saturation", 1, 16, [](auto const* x, auto* o) { stm(o, glm::saturation(x[0])); });
  add_unit("saturation3", 4, 3, [](auto const* x, auto* o) { using T = TY(o); stv(o, glm::saturation(x[0], ldv<3, T>(x + 1))); });
  add_unit("saturation4", 5, 4, [](auto const* x, auto* o) { using T = TY(o); stv(o, glm::saturation(x[0], ldv<4, T>(x + 1))); });
  add_unit("luminosity", 3, 1, [](auto const* x, auto* o) { using T = TY(o); o[0] = glm::luminosity(ldv<3, T>(x)); });
  add_unit("luminosity_grey", 1, 1, [](auto const* x, auto* o) { using T = TY(o); o[0] = glm::luminosity(glm::vec<3, T, glm::defaultp>(x[0], x[0], x[0])); });
  add_unit("hsvColor", 3, 3, [](auto const* x, auto* o) { using T = TY(o); stv(o, glm::hsvColor(ldv<3, T>(x))); });
  // HSV -> RGB: the sector switch `switch(int(floor(h/60)))` is traced through SymR's comparison-decided `operator int`
  add_unit("rgbColor", 3, 3, [](auto const* x, auto* o) { using T = TY(o); stv(o, glm::rgbColor(ldv<3, T>(x))); });
  // numeric exploration: rgbColor and hsvColor invert each other on the RGB cube (raw numbers in [-2,2] are folded into [0,1])
  add_prop("p_hsv_roundtrip", 3, 2e-5, 1e-12, [](auto const* x) { using T = TY(x);
    glm::vec<3, T, glm::defaultp> c(std::abs(x[0]) * T(0.5), std::abs(x[1]) * T(0.5), std::abs(x[2]) * T(0.5));
    auto d = glm::rgbColor(glm::hsvColor(c)) - c;
    return std::max(std::abs(d.x), std::max(std::abs(d.y), std::abs(d.z))); });
#endif
  return unit_main(argc, argv);
}
