// C19: colour-space conversions
// NPARTS 2
#include "common.hpp"
#include <glm/gtc/color_space.hpp>
#include <glm/gtx/color_space.hpp>
#include <glm/gtx/color_space_YCoCg.hpp>
using namespace symt;

int main(int argc, char** argv) {
#if IN_PART(0)
  // integer YCoCg-R: forward, backward, and the round trip (exactly lossless)
  add_unit_i32(nm("ycocgr_rt", {0}), 3, 3, [](auto const* x, auto* o) { using T = TY(o); stv(o, glm::YCoCgR2rgb(glm::rgb2YCoCgR(ldv<3, T>(x)))); });
  add_unit_u32(nm("ycocgr_rt", {1}), 3, 3, [](auto const* x, auto* o) { using T = TY(o); stv(o, glm::YCoCgR2rgb(glm::rgb2YCoCgR(ldv<3, T>(x)))); });
  add_unit_i32(nm("ycocgr_fwd", {0}), 3, 3, [](auto const* x, auto* o) { using T = TY(o); stv(o, glm::rgb2YCoCgR(ldv<3, T>(x))); });
  add_unit_u32(nm("ycocgr_fwd", {1}), 3, 3, [](auto const* x, auto* o) { using T = TY(o); stv(o, glm::rgb2YCoCgR(ldv<3, T>(x))); });
  add_unit_i32(nm("ycocgr_bwd", {0}), 3, 3, [](auto const* x, auto* o) { using T = TY(o); stv(o, glm::YCoCgR2rgb(ldv<3, T>(x))); });
  add_unit_u32(nm("ycocgr_bwd", {1}), 3, 3, [](auto const* x, auto* o) { using T = TY(o); stv(o, glm::YCoCgR2rgb(ldv<3, T>(x))); });
  // floating YCoCg and YCoCg-R
  add_unit("ycocg_fwd", 3, 3, [](auto const* x, auto* o) { using T = TY(o); stv(o, glm::rgb2YCoCg(ldv<3, T>(x))); });
  add_unit("ycocg_bwd", 3, 3, [](auto const* x, auto* o) { using T = TY(o); stv(o, glm::YCoCg2rgb(ldv<3, T>(x))); });
  add_unit("ycocg_rt", 3, 3, [](auto const* x, auto* o) { using T = TY(o); stv(o, glm::YCoCg2rgb(glm::rgb2YCoCg(ldv<3, T>(x)))); });
  add_unit("ycocg_rt2", 3, 3, [](auto const* x, auto* o) { using T = TY(o); stv(o, glm::rgb2YCoCg(glm::YCoCg2rgb(ldv<3, T>(x)))); });
  add_unit("ycocgrf_rt", 3, 3, [](auto const* x, auto* o) { using T = TY(o); stv(o, glm::YCoCgR2rgb(glm::rgb2YCoCgR(ldv<3, T>(x)))); });
  add_unit("ycocgrf_rt2", 3, 3, [](auto const* x, auto* o) { using T = TY(o); stv(o, glm::rgb2YCoCgR(glm::YCoCgR2rgb(ldv<3, T>(x)))); });
#endif
#if IN_PART(1)
  add_unit(nm("lin2srgb", {3}), 3, 3, [](auto const* x, auto* o) { using T = TY(o); stv(o, glm::convertLinearToSRGB(ldv<3, T>(x))); });
  add_unit(nm("lin2srgb", {4}), 4, 4, [](auto const* x, auto* o) { using T = TY(o); stv(o, glm::convertLinearToSRGB(ldv<4, T>(x))); });
  add_unit(nm("lin2srgb_g", {3}), 4, 3, [](auto const* x, auto* o) { using T = TY(o); stv(o, glm::convertLinearToSRGB(ldv<3, T>(x), x[3])); });
  add_unit(nm("lin2srgb_g", {4}), 5, 4, [](auto const* x, auto* o) { using T = TY(o); stv(o, glm::convertLinearToSRGB(ldv<4, T>(x), x[4])); });
  add_unit(nm("srgb2lin", {3}), 3, 3, [](auto const* x, auto* o) { using T = TY(o); stv(o, glm::convertSRGBToLinear(ldv<3, T>(x))); });
  add_unit(nm("srgb2lin", {4}), 4, 4, [](auto const* x, auto* o) { using T = TY(o); stv(o, glm::convertSRGBToLinear(ldv<4, T>(x))); });
  add_unit(nm("srgb2lin_g", {3}), 4, 3, [](auto const* x, auto* o) { using T = TY(o); stv(o, glm::convertSRGBToLinear(ldv<3, T>(x), x[3])); });
  add_unit(nm("srgb2lin_g", {4}), 5, 4, [](auto const* x, auto* o) { using T = TY(o); stv(o, glm::convertSRGBToLinear(ldv<4, T>(x), x[4])); });
  add_unit("saturation", 1, 16, [](auto const* x, auto* o) { stm(o, glm::saturation(x[0])); });
  add_unit("saturation3", 4, 3, [](auto const* x, auto* o) { using T = TY(o); stv(o, glm::saturation(x[0], ldv<3, T>(x + 1))); });
  add_unit("saturation4", 5, 4, [](auto const* x, auto* o) { using T = TY(o); stv(o, glm::saturation(x[0], ldv<4, T>(x + 1))); });
  add_unit("luminosity", 3, 1, [](auto const* x, auto* o) { using T = TY(o); o[0] = glm::luminosity(ldv<3, T>(x)); });
  add_unit("luminosity_grey", 1, 1, [](auto const* x, auto* o) { using T = TY(o); o[0] = glm::luminosity(glm::vec<3, T, glm::defaultp>(x[0], x[0], x[0])); });
  add_unit("hsvColor", 3, 3, [](auto const* x, auto* o) { using T = TY(o); stv(o, glm::hsvColor(ldv<3, T>(x))); });
  // HSV -> RGB: the sector switch `switch(int(floor(h/60)))` is traced through SymR's comparison-decided `operator int`
  add_unit("rgbColor", 3, 3, [](auto const* x, auto* o) { using T = TY(o); stv(o, glm::rgbColor(ldv<3, T>(x))); });
  // numeric exploration: rgbColor and hsvColor invert each other on the RGB cube (raw numbers in [-2,2] are folded into [0,1])
  // lowp float vec3 convertLinearToSRGB is an explicit specialisation (a fast approximation by three square roots), invisible to the tracer.
  // Dense sweeps on the real code (exploration).  u[0] picks the window; every call sweeps 4096 consecutive grid points.
  //   p_srgb_lowp_curve    : on [1/255, 1] it follows the exact curve within 2e-3, increases along a 1/65536 grid, stays in [0,1]; 0 -> 0, 1 -> 1
  //   p_srgb_lowp_envelope : everywhere >= -0.037 and <= 1; >= 0 from 7.7e-4 on             (what the pinned tree does satisfy)
  //   p_srgb_lowp_range    : >= 0 on (0, 7.7e-4)                                              (KNOWN FINDING: it dips to -0.0365)
  //   p_srgb_lowp_monotone : no decrease between adjacent floats                              (KNOWN FINDING: 1-2 ulp wiggles of the 4-term sum)
#define LOWP_SRGB(c) ((double)glm::convertLinearToSRGB(glm::vec<3, float, glm::lowp>((float)(c))).y)
  add_prop("p_srgb_lowp_curve", 1, 2e-3, 2e-3, [](auto const* u) { using T = TY(u); double worst = 0;
    if (LOWP_SRGB(0.0) != 0.0 || std::fabs(LOWP_SRGB(1.0) - 1.0) > 1e-6) return (T)1;
    int w = std::min(15, std::max(0, (int)(((double)u[0] + 2.0) * 3.99))); double prev = -1;                                    // 16 windows of 4096 points
    for (int i = 0; i < 4096; ++i) { double c = (w * 4096 + i) / 65536.0; if (c < 1.0 / 255) continue;
      double r = LOWP_SRGB(c), h = (double)glm::convertLinearToSRGB(glm::vec3((float)c)).y;
      worst = std::max(worst, std::fabs(r - h)); if (r < 0 || r > 1) worst = 1; if (r <= prev) worst = 1; prev = r; }
    return (T)worst; });
  add_prop("p_srgb_lowp_envelope", 1, 0.0, 0.0, [](auto const* u) { using T = TY(u); double bad = 0;
    double lo = std::ldexp(1.0, -std::min(24, std::max(0, (int)(((double)u[0] + 2.0) * 6.0))));                                  // windows [2^-k, 2^-k+1), k = 0..24
    for (int i = 0; i < 4096; ++i) { double c = lo * (1.0 + i / 4096.0); if (c > 1) break; double r = LOWP_SRGB(c);
      if (r < -0.037 || r > 1.0 || (c >= 7.7e-4 && r < 0)) bad = 1; }
    return (T)bad; });
  add_prop("p_srgb_lowp_range", 1, 0.0, 0.0, [](auto const* u) { using T = TY(u); double bad = 0;
    double lo = std::ldexp(1.0, -11 - std::min(12, std::max(0, (int)(((double)u[0] + 2.0) * 3.0))));
    for (int i = 0; i < 4096; ++i) { double c = lo * (1.0 + i / 4096.0); if (c >= 7.7e-4) continue; if (LOWP_SRGB(c) < 0) bad = 1; }
    return (T)bad; });
  add_prop("p_srgb_lowp_monotone", 1, 0.0, 0.0, [](auto const* u) { using T = TY(u); double bad = 0;
    float c = (float)(0.01 + std::min(4.0, std::max(0.0, (double)u[0] + 2.0)) * 0.24); double prev = LOWP_SRGB(c);
    for (int i = 0; i < 4096; ++i) { c = std::nextafter(c, 2.0f); double r = LOWP_SRGB(c); if (r < prev) bad = 1; prev = r; }
    return (T)bad; });
  add_prop("p_hsv_roundtrip", 3, 2e-5, 1e-12, [](auto const* x) { using T = TY(x);
    glm::vec<3, T, glm::defaultp> c(std::abs(x[0]) * T(0.5), std::abs(x[1]) * T(0.5), std::abs(x[2]) * T(0.5));
    auto d = glm::rgbColor(glm::hsvColor(c)) - c;
    return std::max(std::abs(d.x), std::max(std::abs(d.y), std::abs(d.z))); });
#endif
  return unit_main(argc, argv);
}
