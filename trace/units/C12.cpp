// C12: geometric functions (core + gtx helpers), vec1..4 and the scalar overloads
// NPARTS 4
#include "common.hpp"
#include <glm/gtx/norm.hpp>
#include <glm/gtx/projection.hpp>
#include <glm/gtx/perpendicular.hpp>
#include <glm/gtx/orthonormalize.hpp>
#include <glm/gtx/vector_angle.hpp>
#include <glm/gtx/closest_point.hpp>
#include <glm/gtx/normal.hpp>
#include <glm/gtx/exterior_product.hpp>
#include <glm/gtx/mixed_product.hpp>
using namespace symt;

template<int L> void reg_vec() {
  add_unit(nm("dot", {L}), 2 * L, 1, [](auto const* x, auto* o) { using T = TY(o); o[0] = glm::dot(ldv<L, T>(x), ldv<L, T>(x + L)); });
  add_unit(nm("length", {L}), L, 1, [](auto const* x, auto* o) { using T = TY(o); o[0] = glm::length(ldv<L, T>(x)); });
  add_unit(nm("distance", {L}), 2 * L, 1, [](auto const* x, auto* o) { using T = TY(o); o[0] = glm::distance(ldv<L, T>(x), ldv<L, T>(x + L)); });
  add_unit(nm("normalize", {L}), L, L, [](auto const* x, auto* o) { using T = TY(o); stv(o, glm::normalize(ldv<L, T>(x))); });
  add_unit(nm("faceforward", {L}), 3 * L, L, [](auto const* x, auto* o) { using T = TY(o); stv(o, glm::faceforward(ldv<L, T>(x), ldv<L, T>(x + L), ldv<L, T>(x + 2 * L))); });
  add_unit(nm("reflect", {L}), 2 * L, L, [](auto const* x, auto* o) { using T = TY(o); stv(o, glm::reflect(ldv<L, T>(x), ldv<L, T>(x + L))); });
  add_unit(nm("refract", {L}), 2 * L + 1, L, [](auto const* x, auto* o) { using T = TY(o); stv(o, glm::refract(ldv<L, T>(x), ldv<L, T>(x + L), x[2 * L])); });
  add_unit(nm("length2", {L}), L, 1, [](auto const* x, auto* o) { using T = TY(o); o[0] = glm::length2(ldv<L, T>(x)); });
  add_unit(nm("distance2", {L}), 2 * L, 1, [](auto const* x, auto* o) { using T = TY(o); o[0] = glm::distance2(ldv<L, T>(x), ldv<L, T>(x + L)); });
}
template<int L> void reg_gtx() {   // L = 2,3,4
  add_unit(nm("proj", {L}), 2 * L, L, [](auto const* x, auto* o) { using T = TY(o); stv(o, glm::proj(ldv<L, T>(x), ldv<L, T>(x + L))); });
  add_unit(nm("perp", {L}), 2 * L, L, [](auto const* x, auto* o) { using T = TY(o); stv(o, glm::perp(ldv<L, T>(x), ldv<L, T>(x + L))); });
  add_unit(nm("angle", {L}), 2 * L, 1, [](auto const* x, auto* o) { using T = TY(o); o[0] = glm::angle(ldv<L, T>(x), ldv<L, T>(x + L)); });
}

int main(int argc, char** argv) {
#if IN_PART(0)
  reg_vec<1>(); reg_vec<2>();
#endif
#if IN_PART(1)
  reg_vec<3>(); reg_vec<4>();
#endif
#if IN_PART(2)
  // scalar (genType) overloads
  add_unit("sdot", 2, 1, [](auto const* x, auto* o) { o[0] = glm::dot(x[0], x[1]); });
  add_unit("slength", 1, 1, [](auto const* x, auto* o) { o[0] = glm::length(x[0]); });
  add_unit("sdistance", 2, 1, [](auto const* x, auto* o) { o[0] = glm::distance(x[0], x[1]); });
  add_unit("sfaceforward", 3, 1, [](auto const* x, auto* o) { o[0] = glm::faceforward(x[0], x[1], x[2]); });
  add_unit("sreflect", 2, 1, [](auto const* x, auto* o) { o[0] = glm::reflect(x[0], x[1]); });
  add_unit("srefract", 3, 1, [](auto const* x, auto* o) { o[0] = glm::refract(x[0], x[1], x[2]); });
  add_unit("cross_3", 6, 3, [](auto const* x, auto* o) { using T = TY(o); stv(o, glm::cross(ldv<3, T>(x), ldv<3, T>(x + 3))); });
  add_unit("cross_2", 4, 1, [](auto const* x, auto* o) { using T = TY(o); o[0] = glm::cross(ldv<2, T>(x), ldv<2, T>(x + 2)); });
  add_unit("mixed", 9, 1, [](auto const* x, auto* o) { using T = TY(o); o[0] = glm::mixedProduct(ldv<3, T>(x), ldv<3, T>(x + 3), ldv<3, T>(x + 6)); });
  add_unit("trinormal", 9, 3, [](auto const* x, auto* o) { using T = TY(o); stv(o, glm::triangleNormal(ldv<3, T>(x), ldv<3, T>(x + 3), ldv<3, T>(x + 6))); });
  add_unit("orthonormalize_v", 6, 3, [](auto const* x, auto* o) { using T = TY(o); stv(o, glm::orthonormalize(ldv<3, T>(x), ldv<3, T>(x + 3))); });
#endif
#if IN_PART(3)
  reg_gtx<2>(); reg_gtx<3>(); reg_gtx<4>();
  add_unit("closest_3", 9, 3, [](auto const* x, auto* o) { using T = TY(o); stv(o, glm::closestPointOnLine(ldv<3, T>(x), ldv<3, T>(x + 3), ldv<3, T>(x + 6))); });
  add_unit("closest_2", 6, 2, [](auto const* x, auto* o) { using T = TY(o); stv(o, glm::closestPointOnLine(ldv<2, T>(x), ldv<2, T>(x + 2), ldv<2, T>(x + 4))); });
  // scalar (genType) overload of gtx angle
  add_unit("sangle", 2, 1, [](auto const* x, auto* o) { o[0] = glm::angle(x[0], x[1]); });
  add_unit("orientedangle_2", 4, 1, [](auto const* x, auto* o) { using T = TY(o); o[0] = glm::orientedAngle(ldv<2, T>(x), ldv<2, T>(x + 2)); });
  add_unit("orientedangle_3", 9, 1, [](auto const* x, auto* o) { using T = TY(o); o[0] = glm::orientedAngle(ldv<3, T>(x), ldv<3, T>(x + 3), ldv<3, T>(x + 6)); });
  add_unit("l1norm_3", 3, 1, [](auto const* x, auto* o) { using T = TY(o); o[0] = glm::l1Norm(ldv<3, T>(x)); });
  add_unit("l1norm2_3", 6, 1, [](auto const* x, auto* o) { using T = TY(o); o[0] = glm::l1Norm(ldv<3, T>(x), ldv<3, T>(x + 3)); });
  add_unit("l2norm_3", 3, 1, [](auto const* x, auto* o) { using T = TY(o); o[0] = glm::l2Norm(ldv<3, T>(x)); });
  add_unit("lmaxnorm_3", 3, 1, [](auto const* x, auto* o) { using T = TY(o); o[0] = glm::lMaxNorm(ldv<3, T>(x)); });
  add_unit("l2norm2_3", 6, 1, [](auto const* x, auto* o) { using T = TY(o); o[0] = glm::l2Norm(ldv<3, T>(x), ldv<3, T>(x + 3)); });
  add_unit("lmaxnorm2_3", 6, 1, [](auto const* x, auto* o) { using T = TY(o); o[0] = glm::lMaxNorm(ldv<3, T>(x), ldv<3, T>(x + 3)); });
  add_unit("lxnorm_3", 3, 1, [](auto const* x, auto* o) { using T = TY(o); o[0] = glm::lxNorm(ldv<3, T>(x), 3u); });
  add_unit("lxnorm2_3", 6, 1, [](auto const* x, auto* o) { using T = TY(o); o[0] = glm::lxNorm(ldv<3, T>(x), ldv<3, T>(x + 3), 3u); });
#endif
#if IN_PART(0)
  // orthonormalize(mat3): Gram-Schmidt on the columns - the result is orthonormal, keeps the first direction, keeps the plane of the first two
  // columns and the orientation of every column (exploration; the vec3 overload orthonormalize(x, y) has a theorem)
  add_prop("p_orthonormalize_mat3", 9, 2e-3, 1e-9, [](auto const* x) { using T = TY(x); auto m = ldm<3, 3, T>(x);
    T det = glm::determinant(m); if (!(std::abs(det) > T(0.2))) return T(-1);
    for (int c = 0; c < 3; ++c) if (!(glm::length(m[c]) > T(0.3))) return T(-1);
    auto r = glm::orthonormalize(m); T d = 0;
    for (int a = 0; a < 3; ++a) for (int b = 0; b < 3; ++b) d = std::max(d, std::abs(glm::dot(r[a], r[b]) - (a == b ? T(1) : T(0))));
    auto n0 = glm::normalize(m[0]); for (int i = 0; i < 3; ++i) d = std::max(d, std::abs(r[0][i] - n0[i]));
    d = std::max(d, std::abs(glm::dot(glm::cross(m[0], m[1]), r[1])) / (glm::length(m[0]) * glm::length(m[1])));     // r1 in the plane of m0, m1
    if (!(glm::dot(r[1], m[1]) > T(0)) || !(glm::dot(r[2], m[2]) > T(0))) d = std::max(d, T(1));
    return d; });
#endif
  return unit_main(argc, argv);
}
