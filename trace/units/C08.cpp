// C08: projection builders. Compiled once per clip-control configuration:
//   CFG 0: default (RH, NO)   1: GLM_FORCE_LEFT_HANDED   2: GLM_FORCE_DEPTH_ZERO_TO_ONE   3: both
// CONFIGS 4
// FLAGS -DNDEBUG
#ifndef CFG
#define CFG 0
#endif
#if CFG & 1
#define GLM_FORCE_LEFT_HANDED
#endif
#if CFG & 2
#define GLM_FORCE_DEPTH_ZERO_TO_ONE
#endif
#include "common.hpp"
using namespace symt;

// hand: 0 = RH, 1 = LH ; depth: 0 = NO, 1 = ZO   (unit keys: name_hand_depth)
#define VARIANTS(F) F(RH_NO, 0, 0) F(LH_NO, 1, 0) F(RH_ZO, 0, 1) F(LH_ZO, 1, 1)

int main(int argc, char** argv) {
#if CFG == 0
  // unProject(project(p)) = p under both depth conventions
#define PUNP(SUF, PS) add_prop("p_unproject" #SUF, 7, 2e-2, 1e-7, [](auto const* x) { using T = TY(x); auto p = ldv<3, T>(x); auto ax = ldv<3, T>(x + 3); \
    if (!(glm::length(ax) > T(0.3))) return T(-1); \
    auto model = glm::translate(glm::mat<4, 4, T, glm::defaultp>(T(1)), glm::vec<3, T, glm::defaultp>(T(0), T(0), T(-6))) * glm::rotate(glm::mat<4, 4, T, glm::defaultp>(T(1)), x[6], ax); \
    auto proj = glm::perspectiveRH##SUF(T(1), T(1.3), T(0.5), T(30)); glm::vec<4, T, glm::defaultp> vp(T(37), T(11), T(640), T(480)); \
    auto w = glm::project##PS(p, model, proj, vp); auto b = glm::unProject##PS(w, model, proj, vp); \
    return std::max(std::abs(b.x - p.x), std::max(std::abs(b.y - p.y), std::abs(b.z - p.z))); });
  PUNP(_NO, NO) PUNP(_ZO, ZO)
#define REG(S, H, D) \
  add_unit(nm("ortho", {H, D}), 6, 16, [](auto const* x, auto* o) { stm(o, glm::ortho##S(x[0], x[1], x[2], x[3], x[4], x[5])); }); \
  add_unit(nm("frustum", {H, D}), 6, 16, [](auto const* x, auto* o) { stm(o, glm::frustum##S(x[0], x[1], x[2], x[3], x[4], x[5])); }); \
  add_unit(nm("perspective", {H, D}), 4, 16, [](auto const* x, auto* o) { stm(o, glm::perspective##S(x[0], x[1], x[2], x[3])); }); \
  add_unit(nm("perspectiveFov", {H, D}), 5, 16, [](auto const* x, auto* o) { stm(o, glm::perspectiveFov##S(x[0], x[1], x[2], x[3], x[4])); }); \
  add_unit(nm("infinitePerspective", {H, D}), 3, 16, [](auto const* x, auto* o) { stm(o, glm::infinitePerspective##S(x[0], x[1], x[2])); });
  VARIANTS(REG)
#undef REG
  add_unit("ortho2d", 4, 16, [](auto const* x, auto* o) { stm(o, glm::ortho(x[0], x[1], x[2], x[3])); });
  add_unit("tweaked", 4, 16, [](auto const* x, auto* o) { stm(o, glm::tweakedInfinitePerspective(x[0], x[1], x[2], x[3])); });
  add_unit("pickMatrix", 8, 16, [](auto const* x, auto* o) { using T = TY(o);
    stm(o, glm::pickMatrix(glm::vec<2, T, glm::defaultp>(x[0], x[1]), glm::vec<2, T, glm::defaultp>(x[2], x[3]), glm::vec<4, T, glm::defaultp>(x[4], x[5], x[6], x[7]))); });
  // project / unProject with the two depth conventions: obj(3) model(16) proj(16) viewport(4)
  add_unit(nm("project", {0}), 39, 3, [](auto const* x, auto* o) { using T = TY(o); stv(o, glm::projectNO(ldv<3, T>(x), ldm<4, 4, T>(x + 3), ldm<4, 4, T>(x + 19), ldv<4, T>(x + 35))); });
  add_unit(nm("project", {1}), 39, 3, [](auto const* x, auto* o) { using T = TY(o); stv(o, glm::projectZO(ldv<3, T>(x), ldm<4, 4, T>(x + 3), ldm<4, 4, T>(x + 19), ldv<4, T>(x + 35))); });
  add_unit(nm("unProject", {0}), 39, 3, [](auto const* x, auto* o) { using T = TY(o); stv(o, glm::unProjectNO(ldv<3, T>(x), ldm<4, 4, T>(x + 3), ldm<4, 4, T>(x + 19), ldv<4, T>(x + 35))); });
  // unProject(project(p)) for a projection matrix of the perspective shape [[a,0,0,0],[0,b,0,0],[0,0,c,e],[0,0,d,0]] with
  // symbolic entries (covers perspective / infinitePerspective / symmetric frustum of either handedness), model = identity,
  // symbolic viewport: p(3) a b c d e (5) viewport(4) — small enough for the theorem of Spec/C08 f_unprojP
#define UNPROJP(D, PS) add_unit(nm("unprojP", {D}), 12, 3, [](auto const* x, auto* o) { using T = TY(o); typedef glm::mat<4, 4, T, glm::defaultp> M4; \
    M4 P(T(0)); P[0][0] = x[3]; P[1][1] = x[4]; P[2][2] = x[5]; P[3][2] = x[6]; P[2][3] = x[7]; M4 I(T(1)); auto vp = ldv<4, T>(x + 8); \
    stv(o, glm::unProject##PS(glm::project##PS(ldv<3, T>(x), I, P, vp), I, P, vp)); });
  UNPROJP(0, NO) UNPROJP(1, ZO)
  add_unit(nm("unProject", {1}), 39, 3, [](auto const* x, auto* o) { using T = TY(o); stv(o, glm::unProjectZO(ldv<3, T>(x), ldm<4, 4, T>(x + 3), ldm<4, 4, T>(x + 19), ldv<4, T>(x + 35))); });
#endif
  // configuration-dependent (unsuffixed / half-suffixed) builders: key = CFG (and the fixed half)
  add_unit(nm("ortho_cfg", {CFG}), 6, 16, [](auto const* x, auto* o) { stm(o, glm::ortho(x[0], x[1], x[2], x[3], x[4], x[5])); });
  add_unit(nm("frustum_cfg", {CFG}), 6, 16, [](auto const* x, auto* o) { stm(o, glm::frustum(x[0], x[1], x[2], x[3], x[4], x[5])); });
  add_unit(nm("perspective_cfg", {CFG}), 4, 16, [](auto const* x, auto* o) { stm(o, glm::perspective(x[0], x[1], x[2], x[3])); });
  add_unit(nm("perspectiveFov_cfg", {CFG}), 5, 16, [](auto const* x, auto* o) { stm(o, glm::perspectiveFov(x[0], x[1], x[2], x[3], x[4])); });
  add_unit(nm("infinitePerspective_cfg", {CFG}), 3, 16, [](auto const* x, auto* o) { stm(o, glm::infinitePerspective(x[0], x[1], x[2])); });
#define HALF(NAME, NIN, ARGS) \
  add_unit(nm(#NAME "LH_cfg", {CFG}), NIN, 16, [](auto const* x, auto* o) { stm(o, glm::NAME##LH ARGS); }); \
  add_unit(nm(#NAME "RH_cfg", {CFG}), NIN, 16, [](auto const* x, auto* o) { stm(o, glm::NAME##RH ARGS); }); \
  add_unit(nm(#NAME "NO_cfg", {CFG}), NIN, 16, [](auto const* x, auto* o) { stm(o, glm::NAME##NO ARGS); }); \
  add_unit(nm(#NAME "ZO_cfg", {CFG}), NIN, 16, [](auto const* x, auto* o) { stm(o, glm::NAME##ZO ARGS); });
  HALF(ortho, 6, (x[0], x[1], x[2], x[3], x[4], x[5]))
  HALF(frustum, 6, (x[0], x[1], x[2], x[3], x[4], x[5]))
  HALF(perspective, 4, (x[0], x[1], x[2], x[3]))
  HALF(perspectiveFov, 5, (x[0], x[1], x[2], x[3], x[4]))
  add_unit(nm("project_cfg", {CFG}), 39, 3, [](auto const* x, auto* o) { using T = TY(o); stv(o, glm::project(ldv<3, T>(x), ldm<4, 4, T>(x + 3), ldm<4, 4, T>(x + 19), ldv<4, T>(x + 35))); });
  add_unit(nm("unProject_cfg", {CFG}), 39, 3, [](auto const* x, auto* o) { using T = TY(o); stv(o, glm::unProject(ldv<3, T>(x), ldm<4, 4, T>(x + 3), ldm<4, 4, T>(x + 19), ldv<4, T>(x + 35))); });
  return unit_main(argc, argv);
}
