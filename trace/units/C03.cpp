// C03: glm's SIMD specialisations traced through fake intrinsics, next to the generic path, on the same variables.
//   g++ -std=c++17 -O0 -w -I/repo -DISA=<0..7> trace/units/C03.cpp     (no -m flags: nothing here is a real intrinsic)
//   ./a.out trace [unit] | list | evalcheck <pure|simd> < lines printed by diff/C03.cpp
// Units:  pure_<op>            glm's generic C++ code (packed_highp types)
//         simd_<op>_<isa>      the code glm selects for aligned types under GLM_FORCE_INTRINSICS at ISA level <isa>
//         kern_<fn>_<isa>      a kernel of glm/simd/*.h called directly
// Variable layout as in common.hpp: vec = L consecutive, mat column-major, qua = (w,x,y,z) by name.
// CONFIGS 16
//   built by checklib.build_units with -DCFG=k:  k = 0..7 -> ISA level k;  k = 8..15 -> ISA level k-8 with
//   GLM_FORCE_QUAT_DATA_WXYZ (only the quaternion operations are registered then; unit tag `wxyz_<isa>`)
#if defined(CFG) && !defined(ISA)
#  if CFG >= 8
#    define GLM_FORCE_QUAT_DATA_WXYZ
#  endif
#  if CFG == 0 || CFG == 8
#    define ISA 0
#  elif CFG == 1 || CFG == 9
#    define ISA 1
#  elif CFG == 2 || CFG == 10
#    define ISA 2
#  elif CFG == 3 || CFG == 11
#    define ISA 3
#  elif CFG == 4 || CFG == 12
#    define ISA 4
#  elif CFG == 5 || CFG == 13
#    define ISA 5
#  elif CFG == 6 || CFG == 14
#    define ISA 6
#  else
#    define ISA 7
#  endif
#endif
#ifndef NDEBUG
#define NDEBUG          // glm::lerp asserts 0 <= a <= 1 (a comparison of symbolic values)
#endif
#include "../sym.hpp"
#include <cassert>
#include <cfloat>
#include <climits>
#include <cstddef>
#include <array>
#include <iterator>
#include <utility>
#include <numeric>
#include <ostream>
#include <sstream>
#include <iostream>
#include "../fake_intrin/fake_x86.hpp"

#define GLM_FORCE_INTRINSICS
#define GLM_FORCE_UNRESTRICTED_GENTYPE
#define GLM_ENABLE_EXPERIMENTAL
#define float SymR
#define double SymD
#include <glm/vec2.hpp>
#include <glm/vec3.hpp>
#include <glm/vec4.hpp>
#include <glm/mat3x3.hpp>
#include <glm/mat4x4.hpp>
#include <glm/common.hpp>
#include <glm/exponential.hpp>
#include <glm/geometric.hpp>
#include <glm/matrix.hpp>
#include <glm/gtc/quaternion.hpp>
#include <glm/integer.hpp>
#undef float
#undef double



using namespace symt;
using fki::SymPolicy;
#define STR2(x) #x
#define STR(x) STR2(x)
#ifdef GLM_FORCE_QUAT_DATA_WXYZ
static const std::string ISA_TAG = std::string("wxyz_") + STR(ISA);
#else
static const std::string ISA_TAG = STR(ISA);
#endif

// ------------------------------------------------------------------ registry and driver (symbolic instantiation only)
struct Rec {
  std::string name; int nin, nout; SymPolicy::Mode mode;
  std::function<void(SymR const*, SymR*)> fr;
  std::function<void(SymD const*, SymD*)> fd;          // double-typed real unit (same trace format, 64-bit in evalcheck)
  std::function<void(SymI32 const*, SymI32*)> fi;
  std::function<void(SymU32 const*, SymU32*)> fu;
  std::vector<uint32_t> lit_args;                     // unit without inputs = a constructor taking C++ integers, traced at these arguments
};
static std::vector<Rec>& reg() { static std::vector<Rec> r; return r; }
template<class F> void add_r(std::string const& n, int nin, int nout, F f) { Rec r; r.name = n; r.nin = nin; r.nout = nout; r.mode = SymPolicy::M_R; r.fr = f; reg().push_back(std::move(r)); }
template<class F> void add_d(std::string const& n, int nin, int nout, F f) { Rec r; r.name = n; r.nin = nin; r.nout = nout; r.mode = SymPolicy::M_R; r.fd = f; reg().push_back(std::move(r)); }
template<class F> void add_i(std::string const& n, int nin, int nout, F f) { Rec r; r.name = n; r.nin = nin; r.nout = nout; r.mode = SymPolicy::M_I32; r.fi = f; reg().push_back(std::move(r)); }
template<class F> void add_u(std::string const& n, int nin, int nout, F f) { Rec r; r.name = n; r.nin = nin; r.nout = nout; r.mode = SymPolicy::M_U32; r.fu = f; reg().push_back(std::move(r)); }

// type discipline of an emitted DAG: a real-typed unit may only contain real nodes (no integer literal that was a
// mask constant, no condition used as a number), an integer-typed unit only integer nodes
static void check_types(uint32_t id, bool real, std::set<uint32_t>& seen) {
  if (!seen.insert(id).second) return;
  Node const n = arena().nodes[id];
  auto bad = [&](const char* w) { throw fki::TraceFail{std::string("ill-typed expression reached an output or a decision: ") + w}; };
  switch (n.op) {
    case VAR: return;
    case LIT: case KONST: if (!real) bad("float literal in an integer unit"); return;
    case LITI: if (real) bad("integer literal (bit-pattern constant) used as a float"); return;
    case ADD: case SUB: case MUL: case DIV: check_types(n.a, real, seen); check_types(n.b, real, seen); return;
    case NEG: check_types(n.a, real, seen); return;
    case CALL1: if (!real) bad("float function in an integer unit"); check_types(n.a, real, seen); return;
    case CALL2: if (!real) bad("float function in an integer unit"); check_types(n.a, real, seen); check_types(n.b, real, seen); return;
    case CALL3: if (!real) bad("float function in an integer unit"); check_types(n.a, real, seen); check_types(n.b, real, seen); check_types(n.c, real, seen); return;
    case BAND: case BOR: case BXOR: case SHL: case SHR: case IMOD: if (real) bad("integer operation in a float unit"); check_types(n.a, real, seen); check_types(n.b, real, seen); return;
    case BNOT: case CAST: if (real) bad("integer operation in a float unit"); check_types(n.a, real, seen); return;
    case C_LT: case C_LE: case C_EQ: check_types(n.a, real, seen); check_types(n.b, real, seen); return;
    case C_ISNAN: case C_ISINF: check_types(n.a, real, seen); return;
    default: bad("condition used as a number");
  }
}
static void check_cond(uint32_t id, bool real, std::set<uint32_t>& seen) {
  Node const n = arena().nodes[id];
  if (n.op < C_LT) throw fki::TraceFail{"a number was used as a condition"};
  if (n.op == C_NOT) { check_cond(n.a, real, seen); return; }
  if (n.op == C_AND || n.op == C_OR) { check_cond(n.a, real, seen); check_cond(n.b, real, seen); return; }
  check_types(id, real, seen);
}

template<class S, class F> static Traced run_unit(Rec const& u, F const& f) {
  Traced tr;
  try {
    tr = trace_unit<S>(u.name, u.nin, u.nout, [&](S const* x, S* o) {
      SymPolicy::calls() = 0;
      f(x, o);
      if (u.mode != SymPolicy::M_R && u.name.compare(0, 5, "simd_") == 0 && SymPolicy::calls() == 0)
        throw fki::TraceFail{"no intrinsic was executed: glm has no SIMD code for this operation, its generic per-component code ran on the raw lane words"};
      for (int j = 0; j < u.nout; ++j)
        if (o[j].id >= arena().nodes.size())
          throw fki::TraceFail{"an output depends on a poisoned lane: " + (SymPolicy::poison_reason().empty() ? std::string("never written (e.g. the 4th lane of an aligned vec3), or produced by C++ arithmetic on lane handles") : SymPolicy::poison_reason())};
    });
    if (tr.ok) {
      std::set<uint32_t> seen; bool real = u.mode == SymPolicy::M_R;
      for (auto const& p : tr.paths) { for (uint32_t o : p.outs) check_types(o, real, seen); for (auto const& t : p.trail) check_cond(t.first, real, seen); }
    }
  } catch (fki::TraceFail const& e) {
    tr = Traced(); tr.name = u.name; tr.nin = u.nin; tr.nout = u.nout; tr.ty = sym_ty<S>::value; tr.ok = false; tr.err = e.msg;
  }
  return tr;
}

// ------------------------------------------------------------------ evalcheck: translation validation of the trace
// Lines `<op> in-bits… -> out-bits…` printed by diff/C03.cpp (built against the REAL intrinsics, or GLM_FORCE_PURE) are
// replayed on the traced trees, evaluated here in IEEE single / two's-complement 32-bit arithmetic: the tree of
// simd_<op>_<isa> must give what the real SIMD build of glm returned, bit for bit (NaN = NaN; units that used
// rcp/rsqrt: inputs restricted to 0 or 2^-40 <= |x| <= 2^40, relative 2^-9 of the largest output; conditions listed in
// `# signbit-conds` are read as the exact sign bit of their operand).
struct Snap { bool is_double = false; std::vector<uint32_t> lit_args; Traced tr; std::vector<Node> nodes; std::set<std::string> notes; std::set<uint32_t> sign_conds; };
template<class T> struct EvalT;
template<> struct EvalT<float> {
  static float lit(Node const& n) { return (float)n.d; }
  static float konst(Node const& n) { switch (n.sub) { case K_EPS: return FLT_EPSILON; case K_FMIN: return FLT_MIN; case K_FMAX: return FLT_MAX; default: return INFINITY; } }
  static float bin(Op op, float a, float b) { volatile float x = a, y = b; switch (op) { case ADD: return x + y; case SUB: return x - y; case MUL: return x * y; default: return x / y; } }
  static float neg(float a) { return -a; }
  static float call1(uint8_t f, float a) {
    switch (f) { case F_SQRT: return std::sqrt(a); case F_SIN: return std::sin(a); case F_COS: return std::cos(a); case F_TAN: return std::tan(a); case F_ASIN: return std::asin(a); case F_ACOS: return std::acos(a);
      case F_ATAN: return std::atan(a); case F_SINH: return std::sinh(a); case F_COSH: return std::cosh(a); case F_TANH: return std::tanh(a); case F_ASINH: return std::asinh(a); case F_ACOSH: return std::acosh(a);
      case F_ATANH: return std::atanh(a); case F_EXP: return std::exp(a); case F_LOG: return std::log(a); case F_EXP2: return std::exp2(a); case F_LOG2: return std::log2(a); case F_FLOOR: return std::floor(a);
      case F_CEIL: return std::ceil(a); case F_TRUNC: return std::trunc(a); case F_ROUND: return std::round(a); default: return std::fabs(a); } }
  static float call2(uint8_t f, float a, float b) { return f == F_ATAN2 ? std::atan2(a, b) : f == F_POW ? std::pow(a, b) : std::fmod(a, b); }
  static float call3(float a, float b, float c) { return std::fma(a, b, c); }
  static bool lt(float a, float b) { return a < b; } static bool le(float a, float b) { return a <= b; } static bool eq(float a, float b) { return a == b; }
  static bool isnan(float a) { return std::isnan(a); } static bool isinf(float a) { return std::isinf(a); }
  static float ibin(Op, float, float) { throw fki::TraceFail{"integer node in a float unit"}; }
};
template<> struct EvalT<double> {
  static double lit(Node const& n) { return n.d; }
  static double konst(Node const& n) { switch (n.sub) { case K_EPS: return DBL_EPSILON; case K_FMIN: return DBL_MIN; case K_FMAX: return DBL_MAX; default: return INFINITY; } }
  static double bin(Op op, double a, double b) { volatile double x = a, y = b; switch (op) { case ADD: return x + y; case SUB: return x - y; case MUL: return x * y; default: return x / y; } }
  static double neg(double a) { return -a; }
  static double call1(uint8_t f, double a) {
    switch (f) { case F_SQRT: return std::sqrt(a); case F_SIN: return std::sin(a); case F_COS: return std::cos(a); case F_TAN: return std::tan(a); case F_ASIN: return std::asin(a); case F_ACOS: return std::acos(a);
      case F_ATAN: return std::atan(a); case F_SINH: return std::sinh(a); case F_COSH: return std::cosh(a); case F_TANH: return std::tanh(a); case F_ASINH: return std::asinh(a); case F_ACOSH: return std::acosh(a);
      case F_ATANH: return std::atanh(a); case F_EXP: return std::exp(a); case F_LOG: return std::log(a); case F_EXP2: return std::exp2(a); case F_LOG2: return std::log2(a); case F_FLOOR: return std::floor(a);
      case F_CEIL: return std::ceil(a); case F_TRUNC: return std::trunc(a); case F_ROUND: return std::round(a); default: return std::fabs(a); } }
  static double call2(uint8_t f, double a, double b) { return f == F_ATAN2 ? std::atan2(a, b) : f == F_POW ? std::pow(a, b) : std::fmod(a, b); }
  static double call3(double a, double b, double c) { return std::fma(a, b, c); }
  static bool lt(double a, double b) { return a < b; } static bool le(double a, double b) { return a <= b; } static bool eq(double a, double b) { return a == b; }
  static bool isnan(double a) { return std::isnan(a); } static bool isinf(double a) { return std::isinf(a); }
  static double ibin(Op, double, double) { throw fki::TraceFail{"integer node in a double unit"}; }
};
template<class T> struct EvalInt {
  static T lit(Node const& n) { return (T)(uint32_t)n.i; }
  static T konst(Node const&) { throw fki::TraceFail{"konst in an integer unit"}; }
  static T bin(Op op, T a, T b) { uint32_t x = (uint32_t)a, y = (uint32_t)b; switch (op) { case ADD: return (T)(x + y); case SUB: return (T)(x - y); case MUL: return (T)(x * y); default: return b == 0 ? T(0) : (T)(a / b); } }
  static T neg(T a) { return (T)(0u - (uint32_t)a); }
  static T call1(uint8_t, T) { throw fki::TraceFail{"call in an integer unit"}; } static T call2(uint8_t, T, T) { throw fki::TraceFail{"call"}; } static T call3(T, T, T) { throw fki::TraceFail{"call"}; }
  static bool lt(T a, T b) { return a < b; } static bool le(T a, T b) { return a <= b; } static bool eq(T a, T b) { return a == b; }
  static bool isnan(T) { return false; } static bool isinf(T) { return false; }
  static T ibin(Op op, T a, T b) { uint32_t x = (uint32_t)a, y = (uint32_t)b; switch (op) { case BAND: return (T)(x & y); case BOR: return (T)(x | y); case BXOR: return (T)(x ^ y);
    case SHL: return (T)(x << (y & 31)); case SHR: return (T)(a >> (y & 31)); default: return b == 0 ? T(0) : (T)(a % b); } }
};
template<> struct EvalT<int32_t> : EvalInt<int32_t> {};
template<> struct EvalT<uint32_t> : EvalInt<uint32_t> {};

template<class T> struct Evaluator {
  std::vector<Node> const& N; T const* in; std::map<uint32_t, T> memo; std::set<uint32_t> const* sign_conds;
  static bool sbit(float v) { return std::signbit(v); } static bool sbit(double v) { return std::signbit(v); } static bool sbit(int32_t v) { return v < 0; } static bool sbit(uint32_t) { return false; }
  T e(uint32_t id) {
    auto it = memo.find(id); if (it != memo.end()) return it->second;
    Node const& n = N[id]; T r; using E = EvalT<T>;
    switch (n.op) {
      case VAR: r = in[n.a]; break;
      case LIT: case LITI: r = E::lit(n); break;
      case KONST: r = E::konst(n); break;
      case ADD: case SUB: case MUL: case DIV: r = E::bin(n.op, e(n.a), e(n.b)); break;
      case NEG: r = E::neg(e(n.a)); break;
      case CALL1: r = E::call1(n.sub, e(n.a)); break;
      case CALL2: r = E::call2(n.sub, e(n.a), e(n.b)); break;
      case CALL3: r = E::call3(e(n.a), e(n.b), e(n.c)); break;
      case BAND: case BOR: case BXOR: case SHL: case SHR: case IMOD: r = E::ibin(n.op, e(n.a), e(n.b)); break;
      case BNOT: r = E::ibin(BXOR, e(n.a), (T)0xFFFFFFFFu); break;
      case CAST: r = e(n.a); break;
      default: throw fki::TraceFail{"condition used as a number"};
    }
    memo[id] = r; return r;
  }
  bool c(uint32_t id) {
    Node const& n = N[id]; using E = EvalT<T>;
    if (sign_conds && sign_conds->count(id)) return sbit(e(n.a));      // `x < 0` that stands for the sign bit of x: read exactly
    switch (n.op) {
      case C_LT: return E::lt(e(n.a), e(n.b)); case C_LE: return E::le(e(n.a), e(n.b)); case C_EQ: return E::eq(e(n.a), e(n.b));
      case C_ISNAN: return E::isnan(e(n.a)); case C_ISINF: return E::isinf(e(n.a));
      case C_NOT: return !c(n.a); case C_AND: return c(n.a) && c(n.b); case C_OR: return c(n.a) || c(n.b);
      default: throw fki::TraceFail{"number used as a condition"};
    }
  }
};
template<class T> static bool eval_unit(Snap const& sn, std::vector<uint64_t> const& inb, std::vector<uint64_t>& outb) {
  std::vector<T> in(inb.size()); for (size_t i = 0; i < inb.size(); ++i) std::memcpy(&in[i], &inb[i], sizeof(T));
  Evaluator<T> ev{sn.nodes, in.data(), {}, &sn.sign_conds};
  for (auto const& p : sn.tr.paths) {
    bool okp = true;
    for (auto const& t : p.trail) if (ev.c(t.first) != t.second) { okp = false; break; }
    if (!okp) continue;
    outb.resize(p.outs.size());
    for (size_t j = 0; j < p.outs.size(); ++j) { T v = ev.e(p.outs[j]); outb[j] = 0; std::memcpy(&outb[j], &v, sizeof(T)); }
    return true;
  }
  return false;
}
static Snap snap_unit(Rec const& u) {
  arena().clear(); SymPolicy::reset(u.mode);
  Snap s; s.is_double = (bool)u.fd; s.lit_args = u.lit_args; s.tr = u.fd ? run_unit<SymD>(u, u.fd) : u.mode == SymPolicy::M_R ? run_unit<SymR>(u, u.fr) : u.mode == SymPolicy::M_I32 ? run_unit<SymI32>(u, u.fi) : run_unit<SymU32>(u, u.fu);
  s.nodes = arena().nodes; s.notes = SymPolicy::notes(); s.sign_conds = SymPolicy::signbit_conds(); return s;
}
static int evalcheck(const char* build, FILE* fp) {
  bool simd = !strcmp(build, "simd");
  std::map<std::string, Snap> cache; std::map<std::string, long> per_unit_bad;
  long lines = 0, ok = 0, bad = 0, skipped = 0, nounit = 0, nopath = 0, approx_oor = 0, lit_other = 0; int shown = 0; std::set<std::string> units_seen, units_x;
  char* buf = 0; size_t cap = 0;
  while (getline(&buf, &cap, fp) > 0) {
    if (buf[0] == '#' || buf[0] == '\n') continue;
    std::vector<std::string> tok; for (char* t = strtok(buf, " \n"); t; t = strtok(0, " \n")) tok.push_back(t);
    if (tok.size() < 3) continue;
    ++lines;
    std::string op = tok[0], un = !simd ? "pure_" + op : (op.compare(0, 5, "kern_") == 0 ? op + "_" + ISA_TAG : "simd_" + op + "_" + ISA_TAG);
    auto it = cache.find(un);
    if (it == cache.end()) {
      Rec const* rec = 0; for (auto const& u : reg()) if (u.name == un) rec = &u;
      if (!rec) { ++nounit; if (shown++ < 30) printf("EVAL-NOUNIT %s\n", un.c_str()); continue; }
      it = cache.emplace(un, snap_unit(*rec)).first;
    }
    Snap const& sn = it->second; units_seen.insert(un);
    if (!sn.tr.ok) { ++skipped; units_x.insert(un); continue; }
    std::vector<uint64_t> inb, exp, got; size_t k = 1;
    for (; k < tok.size() && tok[k] != "->"; ++k) inb.push_back(strtoull(tok[k].c_str(), 0, 10));
    for (++k; k < tok.size(); ++k) exp.push_back(strtoull(tok[k].c_str(), 0, 10));
    if (!sn.lit_args.empty()) {          // traced at fixed literal arguments: only the harness line at those arguments is comparable
      bool same = inb.size() == sn.lit_args.size(); for (size_t i = 0; same && i < inb.size(); ++i) same = (uint32_t)inb[i] == sn.lit_args[i];
      if (!same) { ++lit_other; continue; }
      inb.clear();
    }
    if ((int)inb.size() != sn.tr.nin || (int)exp.size() != sn.tr.nout) { ++bad; if (shown++ < 30) printf("EVAL-ARITY %s\n", un.c_str()); continue; }
    bool found;
    try { found = sn.is_double ? eval_unit<double>(sn, inb, got) : sn.tr.ty == T_R ? eval_unit<float>(sn, inb, got) : sn.tr.ty == T_I32 ? eval_unit<int32_t>(sn, inb, got) : eval_unit<uint32_t>(sn, inb, got); }
    catch (fki::TraceFail const& e) { ++bad; if (shown++ < 30) printf("EVAL-ERROR %s %s\n", un.c_str(), e.msg.c_str()); continue; }
    if (!found) { ++nopath; ++bad; if (shown++ < 30) printf("EVAL-NOPATH %s\n", un.c_str()); continue; }
    bool approx = false; for (auto const& n : sn.notes) if (n.compare(0, 6, "approx") == 0) approx = true;
    if (approx) {       // rcpps/rsqrtps are only specified (and modelled) on normal numbers well inside the range
      bool in_range = true;
      for (uint64_t b : inb) { float f; std::memcpy(&f, &b, 4); if (!(f == 0 || (std::fabs(f) >= 0x1p-40f && std::fabs(f) <= 0x1p40f))) in_range = false; }
      if (!in_range) { ++approx_oor; continue; }
    }
    bool good = true; double scale = 0;
    if (approx) for (uint64_t b : exp) { float f; std::memcpy(&f, &b, 4); if (std::isfinite(f)) scale = std::max(scale, (double)std::fabs(f)); }
    for (size_t j = 0; j < exp.size() && good; ++j) {
      if (exp[j] == got[j]) continue;
      if (sn.tr.ty != T_R) { good = false; break; }
      if (sn.is_double) { double a, b; std::memcpy(&a, &exp[j], 8); std::memcpy(&b, &got[j], 8); if (std::isnan(a) && std::isnan(b)) continue; good = false; break; }
      float a, b; std::memcpy(&a, &exp[j], 4); std::memcpy(&b, &got[j], 4);
      if (std::isnan(a) && std::isnan(b)) continue;
      if (approx && std::isfinite(a) && std::isfinite(b) && std::fabs((double)a - b) <= scale / 512.0) continue;
      good = false;
    }
    if (good) ++ok; else { ++bad; ++per_unit_bad[un]; if (shown++ < 30) { printf("EVAL-MISMATCH %s in", un.c_str()); for (uint64_t b : inb) printf(" %llu", (unsigned long long)b); printf(" hw"); for (uint64_t b : exp) printf(" %llu", (unsigned long long)b); printf(" tree"); for (uint64_t b : got) printf(" %llu", (unsigned long long)b); printf("\n"); } }
  }
  for (auto const& kv : per_unit_bad) printf("EVAL-UNIT-MISMATCHES %s %ld\n", kv.first.c_str(), kv.second);
  for (auto const& u : units_x) printf("EVAL-SKIPPED-X-UNIT %s\n", u.c_str());
  printf("EVAL build=%s isa=%s units=%d lines=%ld ok=%ld mismatch=%ld skipped_x_units=%ld approx_out_of_range=%ld other_args_of_literal_units=%ld no_unit=%ld\n", build, ISA_TAG.c_str(), (int)units_seen.size(), lines, ok, bad, skipped, approx_oor, lit_other, nounit);
  return bad ? 1 : 0;
}

static int c03_main(int argc, char** argv) {
  if (argc >= 2 && !strcmp(argv[1], "list")) { for (auto const& u : reg()) printf("%s %d %d\n", u.name.c_str(), u.nin, u.nout); return 0; }
  if (argc >= 2 && !strcmp(argv[1], "trace")) {
    const char* only = argc >= 3 ? argv[2] : 0;
    for (auto const& u : reg()) {
      if (only && u.name != only) continue;
      arena().clear(); SymPolicy::reset(u.mode);
      Traced tr = u.fd ? run_unit<SymD>(u, u.fd) : u.mode == SymPolicy::M_R ? run_unit<SymR>(u, u.fr) : u.mode == SymPolicy::M_I32 ? run_unit<SymI32>(u, u.fi) : run_unit<SymU32>(u, u.fu);
      emit(stdout, tr);
      for (auto const& n : SymPolicy::notes()) printf("# %s %s\n", n.c_str(), u.name.c_str());
      if (tr.ok && !SymPolicy::signbit_conds().empty()) { printf("# signbit-conds %s", u.name.c_str()); for (uint32_t c : SymPolicy::signbit_conds()) printf(" %u", c); printf("\n"); }
    }
    return 0;
  }
  if (argc >= 3 && !strcmp(argv[1], "evalcheck")) return evalcheck(argv[2], stdin);
  fprintf(stderr, "usage: %s trace [unit] | list | evalcheck <pure|simd> < lines-of-diff/C03\n", argv[0]); return 2;
}

// ------------------------------------------------------------------ the operation table (shared with diff/C03.cpp)
#define C03_TRACING 1
#define C03_INT_MINMAX 1      // trace what glm does, whether or not a real compiler would accept it at this -m level
#include "../fake_intrin/c03_ops.hpp"

struct TraceReg {
  using F = SymR; using D = SymD; using I = SymI32; using U = SymU32;
  template<glm::qualifier Q> using QT = c03::QT<Q>;
  template<class Fn> static void add_t(SymR*, std::string const& n, int nin, int nout, Fn f) { add_r(n, nin, nout, f); }
  template<class Fn> static void add_t(SymD*, std::string const& n, int nin, int nout, Fn f) { add_d(n, nin, nout, f); }
  // real families (S = SymR: float, S = SymD: double)
  template<class S, class Fn> void fam(std::string const& op, int nin, int nout, Fn f) {
    add_t((S*)0, "pure_" + op, nin, nout, [f](S const* x, S* o) { f(x, o, QT<glm::packed_highp>()); });
    add_t((S*)0, "simd_" + op + "_" + ISA_TAG, nin, nout, [f](S const* x, S* o) { f(x, o, QT<glm::aligned_highp>()); });
  }
  template<class S, class Fn> void fam_q(std::string const& op, int nin, int nout, Fn f) {
    fam<S>(op, nin, nout, f);
    add_t((S*)0, "pure_" + op + "_mediump", nin, nout, [f](S const* x, S* o) { f(x, o, QT<glm::packed_mediump>()); });
    add_t((S*)0, "simd_" + op + "_mediump_" + ISA_TAG, nin, nout, [f](S const* x, S* o) { f(x, o, QT<glm::aligned_mediump>()); });
    add_t((S*)0, "pure_" + op + "_lowp", nin, nout, [f](S const* x, S* o) { f(x, o, QT<glm::packed_lowp>()); });
    add_t((S*)0, "simd_" + op + "_lowp_" + ISA_TAG, nin, nout, [f](S const* x, S* o) { f(x, o, QT<glm::aligned_lowp>()); });
  }
  template<class S, class QQ, class Fn> void simd_only(std::string const& op, int nin, int nout, QQ qq, Fn f) { add_t((S*)0, "simd_" + op + "_" + ISA_TAG, nin, nout, [f, qq](S const* x, S* o) { f(x, o, qq); }); }
  template<class Fn> void kern(std::string const& fn, int nin, int nout, Fn f) { add_r("kern_" + fn + "_" + ISA_TAG, nin, nout, f); }
  // integer families: pure = glm's generic code at T = SymI32 / SymU32 (packed); simd = vec<4, int|unsigned,
  // aligned_highp>, whose members are real C++ ints: inputs go into / results come out of `data` (the __m128i)
  // directly, and only intrinsics may touch them (a lane word that C++ integer code produced decodes as poison)
  template<class Fn> void ifam(std::string const& op, int nin, int nout, Fn f) {
    add_i("pure_" + op, nin, nout, [f](SymI32 const* x, SymI32* o) { f(x, o, QT<glm::packed_highp>()); });
    add_i("simd_" + op + "_" + ISA_TAG, nin, nout, [f](SymI32 const* x, SymI32* o) { f(x, o, QT<glm::aligned_highp>()); });
  }
  template<class Fn> void ufam(std::string const& op, int nin, int nout, Fn f) {
    add_u("pure_" + op, nin, nout, [f](SymU32 const* x, SymU32* o) { f(x, o, QT<glm::packed_highp>()); });
    add_u("simd_" + op + "_" + ISA_TAG, nin, nout, [f](SymU32 const* x, SymU32* o) { f(x, o, QT<glm::aligned_highp>()); });
  }
  template<class Fn> void ikern(std::string const& fn, int nin, int nout, Fn f) { add_i("kern_" + fn + "_" + ISA_TAG, nin, nout, f); }
  template<class Fn> void ukern(std::string const& fn, int nin, int nout, Fn f) { add_u("kern_" + fn + "_" + ISA_TAG, nin, nout, f); }

  template<class S> static __m128i ldki(S const* x) { __m128i r; for (int i = 0; i < 4; ++i) r.f[i] = SymPolicy::enc(x[i].id); return r; }
  template<class S> static void stki(S* o, __m128i v) { for (int i = 0; i < 4; ++i) { uint32_t id; o[i] = S::from(SymPolicy::dec(v.f[i], id) ? id : 0xFFFFFFFFu); } }
  template<glm::qualifier Q, class S, class T> struct LDI { static glm::vec<4, S, Q> get(S const* x) { return glm::vec<4, S, Q>(x[0], x[1], x[2], x[3]); } };
  template<class S, class T> struct LDI<glm::aligned_highp, S, T> { static glm::vec<4, T, glm::aligned_highp> get(S const* x) { glm::vec<4, T, glm::aligned_highp> v; v.data = ldki(x); return v; } };
  template<glm::qualifier Q> static auto ldi(SymI32 const* x) { return LDI<Q, SymI32, int>::get(x); }
  template<glm::qualifier Q> static auto ldu(SymU32 const* x) { return LDI<Q, SymU32, unsigned>::get(x); }
  // store: a vector of SymI32/SymU32 directly; a vector of C++ int/unsigned (aligned, or a packed one filled by glm's
  // conversion code) holds lane words, which are decoded
  template<class S> static S unword_w(uint32_t w) { uint32_t id; return S::from(SymPolicy::dec(SymPolicy::W{w}, id) ? id : 0xFFFFFFFFu); }
  template<int L, class S, glm::qualifier Q> static void sti(S* o, glm::vec<L, S, Q> const& v) { for (int i = 0; i < L; ++i) o[i] = v[i]; }
  template<int L, class S, glm::qualifier Q> static void sti(S* o, glm::vec<L, int, Q> const& v) { for (int i = 0; i < L; ++i) o[i] = unword_w<S>((uint32_t)v[i]); }
  template<int L, class S, glm::qualifier Q> static void sti(S* o, glm::vec<L, unsigned, Q> const& v) { for (int i = 0; i < L; ++i) o[i] = unword_w<S>((uint32_t)v[i]); }
  // the C++ integer a constructor receives for input x
  template<glm::qualifier Q, class S, class T> struct IARG { static S get(S x) { return x; } };
  template<class S, class T> struct IARG<glm::aligned_highp, S, T> { static T get(S x) { return (T)SymPolicy::enc(x.id).raw; } };
  template<glm::qualifier Q> static auto iarg(SymI32 x) { return IARG<Q, SymI32, int>::get(x); }
  template<glm::qualifier Q> static auto iarg(SymU32 x) { return IARG<Q, SymU32, unsigned>::get(x); }
  // constructors taking C++ integers, traced at the fixed literal arguments: units without inputs
  template<class S, class A, class Fn> void lit_fam(std::string const& op, int nargs, int nout, Fn f) {
    std::vector<uint32_t> lits; for (int i = 0; i < nargs; ++i) lits.push_back((uint32_t)(A)c03::C03_LIT[i]);
    if (std::is_unsigned<A>::value) for (auto& v : lits) if ((int32_t)v < 0) v = (uint32_t)(-(int32_t)v);       // unsigned variants use |literal|
    add_t((S*)0, "pure_" + op, 0, nout, [f, lits](S const*, S* o) { A a[4]; for (size_t i = 0; i < lits.size(); ++i) a[i] = (A)lits[i]; f(a, o, QT<glm::packed_highp>()); }); reg().back().lit_args = lits;
    add_t((S*)0, "simd_" + op + "_" + ISA_TAG, 0, nout, [f, lits](S const*, S* o) { A a[4]; for (size_t i = 0; i < lits.size(); ++i) a[i] = (A)lits[i]; f(a, o, QT<glm::aligned_highp>()); }); reg().back().lit_args = lits;
  }
  template<class S, class A, class Fn> void lit_fam_q(std::string const& op, int nargs, int nout, Fn f) {
    lit_fam<S, A>(op, nargs, nout, f);
    std::vector<uint32_t> lits = reg().back().lit_args;
    auto one = [&](std::string const& n, auto qq) { add_t((S*)0, n, 0, nout, [f, lits, qq](S const*, S* o) { A a[4]; for (size_t i = 0; i < lits.size(); ++i) a[i] = (A)lits[i]; f(a, o, qq); }); reg().back().lit_args = lits; };
    one("pure_" + op + "_mediump", QT<glm::packed_mediump>()); one("simd_" + op + "_mediump_" + ISA_TAG, QT<glm::aligned_mediump>());
    one("pure_" + op + "_lowp", QT<glm::packed_lowp>()); one("simd_" + op + "_lowp_" + ISA_TAG, QT<glm::aligned_lowp>());
  }
};

int main(int argc, char** argv) {
  TraceReg r;
  c03::all_ops(r);
  return c03_main(argc, argv);
}
