// C16: value_ptr and the make_vec/make_mat/make_quat builders round-trip every object through a raw array.
// CFG 0: default, CFG 1: GLM_FORCE_QUAT_DATA_WXYZ (only the quaternion units depend on it)
// CONFIGS 2
#ifndef CFG
#define CFG 0
#endif
#if CFG & 1
#define GLM_FORCE_QUAT_DATA_WXYZ
#endif
#include "common.hpp"
#include <glm/gtc/type_ptr.hpp>
#include <glm/gtc/quaternion.hpp>
using namespace symt;

// object -> value_ptr -> raw array -> make_* -> object  (outputs: the rebuilt object's components)
#define RTV(L) add_unit_lite(nm("rt_vec", {L}), L, L, [](auto const* x, auto* o) { using T = TY(o); auto v = ldv<L, T>(x); T raw[L]; \
    T const* p = glm::value_ptr(v); for (int i = 0; i < L; ++i) raw[i] = p[i]; stv(o, glm::make_vec##L(raw)); });
#define RTM(C, R, NAME) add_unit_lite(nm("rt_mat", {C, R}), C * R, C * R, [](auto const* x, auto* o) { using T = TY(o); auto m = ldm<C, R, T>(x); T raw[C * R]; \
    T const* p = glm::value_ptr(m); for (int i = 0; i < C * R; ++i) raw[i] = p[i]; stm(o, glm::NAME(raw)); });
// value_ptr(m)[c*R + r] is m[c][r]
#define VPM(C, R) add_unit_lite(nm("vp_mat", {C, R}), C * R, C * R, [](auto const* x, auto* o) { using T = TY(o); auto m = ldm<C, R, T>(x); \
    T const* p = glm::value_ptr(m); for (int i = 0; i < C * R; ++i) o[i] = p[i]; });

int main(int argc, char** argv) {
#if CFG == 0
  RTV(2) RTV(3) RTV(4)
  RTM(2, 2, make_mat2x2) RTM(2, 3, make_mat2x3) RTM(2, 4, make_mat2x4) RTM(3, 2, make_mat3x2) RTM(3, 3, make_mat3x3)
  RTM(3, 4, make_mat3x4) RTM(4, 2, make_mat4x2) RTM(4, 3, make_mat4x3) RTM(4, 4, make_mat4x4)
  // square aliases and the vector-to-vector builders make_vecN(vecM) (truncate, or pad with 0 and a final 1 for vec4)
#define RTMA(N, NAME) add_unit_lite(nm("rt_mata", {N}), N * N, N * N, [](auto const* x, auto* o) { using T = TY(o); auto m = ldm<N, N, T>(x); T raw[N * N]; \
    T const* p = glm::value_ptr(m); for (int i = 0; i < N * N; ++i) raw[i] = p[i]; stm(o, glm::NAME(raw)); });
  RTMA(2, make_mat2) RTMA(3, make_mat3) RTMA(4, make_mat4)
#define MKV(N, M) add_unit_lite(nm("mkvec", {N, M}), M, N, [](auto const* x, auto* o) { using T = TY(o); stv(o, glm::make_vec##N(ldv<M, T>(x))); });
  MKV(1, 1) MKV(1, 2) MKV(1, 3) MKV(1, 4) MKV(2, 1) MKV(2, 2) MKV(2, 3) MKV(2, 4) MKV(3, 1) MKV(3, 2) MKV(3, 3) MKV(3, 4) MKV(4, 1) MKV(4, 2) MKV(4, 3) MKV(4, 4)
  VPM(2, 2) VPM(2, 3) VPM(2, 4) VPM(3, 2) VPM(3, 3) VPM(3, 4) VPM(4, 2) VPM(4, 3) VPM(4, 4)
#endif
  // quaternion (by component name w,x,y,z in and out), both memory orders
  add_unit_lite(nm("rt_quat", {CFG}), 4, 4, [](auto const* x, auto* o) { using T = TY(o); auto q = ldq(x); T raw[4];
    T const* p = glm::value_ptr(q); for (int i = 0; i < 4; ++i) raw[i] = p[i]; stq(o, glm::make_quat(raw)); });
  // memory order of value_ptr(q): default x,y,z,w ; WXYZ: w,x,y,z   (outputs = the raw array)
  add_unit_lite(nm("vp_quat", {CFG}), 4, 4, [](auto const* x, auto* o) { using T = TY(o); auto q = ldq(x); T const* p = glm::value_ptr(q); for (int i = 0; i < 4; ++i) o[i] = p[i]; });
  return unit_main(argc, argv);
}
