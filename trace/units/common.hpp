// shared by all unit TUs: include order matters (sym.hpp before glm)
#pragma once
#include "../sym.hpp"
#define GLM_FORCE_UNRESTRICTED_GENTYPE
#define GLM_ENABLE_EXPERIMENTAL
#ifndef UNIT_NO_GLM
#include <glm/glm.hpp>
#include <glm/ext.hpp>
#endif
#include <string>
// a unit TU can be compiled in NPARTS pieces (-DPART=k) to use all cores
#ifndef PART
#define PART -1
#endif
#define IN_PART(k) (PART < 0 || PART == (k))

// variable layout conventions (mirrored in lean/GlmVerif/Spec/Layout.lean):
//   vec<L>   : L consecutive inputs/outputs
//   mat<C,R> : column-major, m[c][r] = x[c*R + r]
//   qua      : x[0..3] = (w, x, y, z) BY NAME (independent of memory order)
template<glm::length_t L, class T> glm::vec<L, T, glm::defaultp> ldv(T const* x) { glm::vec<L, T, glm::defaultp> v; for (int i = 0; i < L; ++i) v[i] = x[i]; return v; }
template<glm::length_t L, class T, glm::qualifier Q> void stv(T* o, glm::vec<L, T, Q> const& v) { for (int i = 0; i < L; ++i) o[i] = v[i]; }
template<glm::length_t C, glm::length_t R, class T> glm::mat<C, R, T, glm::defaultp> ldm(T const* x) { glm::mat<C, R, T, glm::defaultp> m; for (int c = 0; c < C; ++c) for (int r = 0; r < R; ++r) m[c][r] = x[c * R + r]; return m; }
template<glm::length_t C, glm::length_t R, class T, glm::qualifier Q> void stm(T* o, glm::mat<C, R, T, Q> const& m) { for (int c = 0; c < C; ++c) for (int r = 0; r < R; ++r) o[c * R + r] = m[c][r]; }
template<class T> glm::qua<T, glm::defaultp> ldq(T const* x) { return glm::qua<T, glm::defaultp>::wxyz(x[0], x[1], x[2], x[3]); }
template<class T, glm::qualifier Q> void stq(T* o, glm::qua<T, Q> const& q) { o[0] = q.w; o[1] = q.x; o[2] = q.y; o[3] = q.z; }
#define TY(p) typename std::decay<decltype(*(p))>::type
inline std::string nm(std::string fam, std::initializer_list<int> ks) { for (int k : ks) fam += "_" + std::to_string(k); return fam; }
