// C09: translate/rotate/scale/shear/lookAt and the gtx transform helpers.
// CFG 0: default (right handed)   1: GLM_FORCE_LEFT_HANDED  (only lookAt depends on it)
// CONFIGS 2
// NPARTS 2
#ifndef CFG
#define CFG 0
#endif
#if CFG & 1
#define GLM_FORCE_LEFT_HANDED
#endif
#include "common.hpp"
#include <glm/gtx/transform.hpp>
#include <glm/gtx/transform2.hpp>
#include <glm/gtx/rotate_vector.hpp>
#include <glm/gtx/rotate_normalized_axis.hpp>
#include <glm/gtx/matrix_transform_2d.hpp>
#include <glm/gtx/matrix_interpolation.hpp>
#include <glm/gtx/matrix_decompose.hpp>
using namespace symt;
template<class T> using V2 = glm::vec<2, T, glm::defaultp>;
template<class T> using V3 = glm::vec<3, T, glm::defaultp>;

int main(int argc, char** argv) {
#if CFG == 0 && IN_PART(0)
  // M (16) then parameters
  add_unit("translate", 19, 16, [](auto const* x, auto* o) { using T = TY(o); stm(o, glm::translate(ldm<4, 4, T>(x), ldv<3, T>(x + 16))); });
  add_unit("scale", 19, 16, [](auto const* x, auto* o) { using T = TY(o); stm(o, glm::scale(ldm<4, 4, T>(x), ldv<3, T>(x + 16))); });
  add_unit("scale_slow", 19, 16, [](auto const* x, auto* o) { using T = TY(o); stm(o, glm::scale_slow(ldm<4, 4, T>(x), ldv<3, T>(x + 16))); });
  add_unit("rotate", 20, 16, [](auto const* x, auto* o) { using T = TY(o); stm(o, glm::rotate(ldm<4, 4, T>(x), x[16], ldv<3, T>(x + 17))); });
  add_unit("rotate_slow", 20, 16, [](auto const* x, auto* o) { using T = TY(o); stm(o, glm::rotate_slow(ldm<4, 4, T>(x), x[16], ldv<3, T>(x + 17))); });
  add_unit("rotateNormalizedAxis", 20, 16, [](auto const* x, auto* o) { using T = TY(o); stm(o, glm::rotateNormalizedAxis(ldm<4, 4, T>(x), x[16], ldv<3, T>(x + 17))); });
  add_unit("shear", 25, 16, [](auto const* x, auto* o) { using T = TY(o); stm(o, glm::shear(ldm<4, 4, T>(x), ldv<3, T>(x + 16), ldv<2, T>(x + 19), ldv<2, T>(x + 21), ldv<2, T>(x + 23))); });
  add_unit("shear_slow", 25, 16, [](auto const* x, auto* o) { using T = TY(o); stm(o, glm::shear_slow(ldm<4, 4, T>(x), ldv<3, T>(x + 16), ldv<2, T>(x + 19), ldv<2, T>(x + 21), ldv<2, T>(x + 23))); });
  add_unit("gtranslate", 3, 16, [](auto const* x, auto* o) { using T = TY(o); stm(o, glm::translate(ldv<3, T>(x))); });
  add_unit("gscale", 3, 16, [](auto const* x, auto* o) { using T = TY(o); stm(o, glm::scale(ldv<3, T>(x))); });
  add_unit("grotate", 4, 16, [](auto const* x, auto* o) { using T = TY(o); stm(o, glm::rotate(x[0], ldv<3, T>(x + 1))); });
  add_unit("lookAt_0", 9, 16, [](auto const* x, auto* o) { using T = TY(o); stm(o, glm::lookAtRH(ldv<3, T>(x), ldv<3, T>(x + 3), ldv<3, T>(x + 6))); });
  add_unit("lookAt_1", 9, 16, [](auto const* x, auto* o) { using T = TY(o); stm(o, glm::lookAtLH(ldv<3, T>(x), ldv<3, T>(x + 3), ldv<3, T>(x + 6))); });
#endif
#if CFG == 0 && IN_PART(1)
  // gtx/rotate_vector: v then angle (then normal)
  add_unit("rotate2", 3, 2, [](auto const* x, auto* o) { using T = TY(o); stv(o, glm::rotate(ldv<2, T>(x), x[2])); });
  add_unit(nm("rotateAxis", {3, 0}), 4, 3, [](auto const* x, auto* o) { using T = TY(o); stv(o, glm::rotateX(ldv<3, T>(x), x[3])); });
  add_unit(nm("rotateAxis", {3, 1}), 4, 3, [](auto const* x, auto* o) { using T = TY(o); stv(o, glm::rotateY(ldv<3, T>(x), x[3])); });
  add_unit(nm("rotateAxis", {3, 2}), 4, 3, [](auto const* x, auto* o) { using T = TY(o); stv(o, glm::rotateZ(ldv<3, T>(x), x[3])); });
  add_unit(nm("rotateAxis", {4, 0}), 5, 4, [](auto const* x, auto* o) { using T = TY(o); stv(o, glm::rotateX(ldv<4, T>(x), x[4])); });
  add_unit(nm("rotateAxis", {4, 1}), 5, 4, [](auto const* x, auto* o) { using T = TY(o); stv(o, glm::rotateY(ldv<4, T>(x), x[4])); });
  add_unit(nm("rotateAxis", {4, 2}), 5, 4, [](auto const* x, auto* o) { using T = TY(o); stv(o, glm::rotateZ(ldv<4, T>(x), x[4])); });
  add_unit("rotate3n", 7, 3, [](auto const* x, auto* o) { using T = TY(o); stv(o, glm::rotate(ldv<3, T>(x), x[3], ldv<3, T>(x + 4))); });
  add_unit("rotate4n", 8, 4, [](auto const* x, auto* o) { using T = TY(o); stv(o, glm::rotate(ldv<4, T>(x), x[4], ldv<3, T>(x + 5))); });
  // gtx/matrix_transform_2d: M (9) then parameters
  add_unit("translate2d", 11, 9, [](auto const* x, auto* o) { using T = TY(o); stm(o, glm::translate(ldm<3, 3, T>(x), ldv<2, T>(x + 9))); });
  add_unit("rotate2d", 10, 9, [](auto const* x, auto* o) { using T = TY(o); stm(o, glm::rotate(ldm<3, 3, T>(x), x[9])); });
  add_unit("scale2d", 11, 9, [](auto const* x, auto* o) { using T = TY(o); stm(o, glm::scale(ldm<3, 3, T>(x), ldv<2, T>(x + 9))); });
  add_unit("shearX2d", 10, 9, [](auto const* x, auto* o) { using T = TY(o); stm(o, glm::shearX(ldm<3, 3, T>(x), x[9])); });
  add_unit("shearY2d", 10, 9, [](auto const* x, auto* o) { using T = TY(o); stm(o, glm::shearY(ldm<3, 3, T>(x), x[9])); });
  // gtx/transform2
  add_unit("shearX2D", 10, 9, [](auto const* x, auto* o) { using T = TY(o); stm(o, glm::shearX2D(ldm<3, 3, T>(x), x[9])); });
  add_unit("shearY2D", 10, 9, [](auto const* x, auto* o) { using T = TY(o); stm(o, glm::shearY2D(ldm<3, 3, T>(x), x[9])); });
  // spherical interpolation of two (unit) vectors: x (3), y (3), a
  add_unit("vslerp", 7, 3, [](auto const* x, auto* o) { using T = TY(o); stv(o, glm::slerp(ldv<3, T>(x), ldv<3, T>(x + 3), x[6])); });
  // orientation(Normal, Up): identity when the two coincide within epsilon, else the rotation by acos(N.Up) about Up x N
  add_unit("orientation", 6, 16, [](auto const* x, auto* o) { using T = TY(o); stm(o, glm::orientation(ldv<3, T>(x), ldv<3, T>(x + 3))); });
  // projection onto / reflection in the plane (line) with unit normal n:  M · (I − k n nᵀ), k = 1 / 2; key {dimension, k}
  add_unit(nm("projrefl", {2, 1}), 12, 9, [](auto const* x, auto* o) { using T = TY(o); stm(o, glm::proj2D(ldm<3, 3, T>(x), ldv<3, T>(x + 9))); });
  add_unit(nm("projrefl", {3, 1}), 19, 16, [](auto const* x, auto* o) { using T = TY(o); stm(o, glm::proj3D(ldm<4, 4, T>(x), ldv<3, T>(x + 16))); });
  add_unit(nm("projrefl", {2, 2}), 12, 9, [](auto const* x, auto* o) { using T = TY(o); stm(o, glm::reflect2D(ldm<3, 3, T>(x), ldv<3, T>(x + 9))); });
  add_unit(nm("projrefl", {3, 2}), 19, 16, [](auto const* x, auto* o) { using T = TY(o); stm(o, glm::reflect3D(ldm<4, 4, T>(x), ldv<3, T>(x + 16))); });
  add_unit(nm("shear3D", {0}), 18, 16, [](auto const* x, auto* o) { using T = TY(o); stm(o, glm::shearX3D(ldm<4, 4, T>(x), x[16], x[17])); });
  add_unit(nm("shear3D", {1}), 18, 16, [](auto const* x, auto* o) { using T = TY(o); stm(o, glm::shearY3D(ldm<4, 4, T>(x), x[16], x[17])); });
  add_unit(nm("shear3D", {2}), 18, 16, [](auto const* x, auto* o) { using T = TY(o); stm(o, glm::shearZ3D(ldm<4, 4, T>(x), x[16], x[17])); });
  add_unit("scaleBias", 2, 16, [](auto const* x, auto* o) { using T = TY(o); stm(o, glm::scaleBias<T, glm::defaultp>(x[0], x[1])); });
  add_unit("scaleBiasM", 18, 16, [](auto const* x, auto* o) { using T = TY(o); stm(o, glm::scaleBias(ldm<4, 4, T>(x), x[16], x[17])); });
  add_unit("axisAngleMatrix", 4, 16, [](auto const* x, auto* o) { using T = TY(o); stm(o, glm::axisAngleMatrix(ldv<3, T>(x), x[3])); });
  add_unit("extractMatrixRotation", 16, 16, [](auto const* x, auto* o) { using T = TY(o); stm(o, glm::extractMatrixRotation(ldm<4, 4, T>(x))); });
#endif
#if CFG == 0 && IN_PART(0)
  // decompose() of T*R*S returns components from which recompose() rebuilds the same matrix
  add_prop("p_decompose", 10, 5e-3, 1e-7, [](auto const* x) { using T = TY(x);
    T n = std::sqrt(x[3] * x[3] + x[4] * x[4] + x[5] * x[5] + x[6] * x[6]); if (!(n > T(0.3))) return T(-1);
    auto q = glm::qua<T, glm::defaultp>::wxyz(x[3] / n, x[4] / n, x[5] / n, x[6] / n);
    glm::vec<3, T, glm::defaultp> S(std::abs(x[7]) + T(0.3), std::abs(x[8]) + T(0.3), std::abs(x[9]) + T(0.3));
    auto M = glm::translate(glm::mat<4, 4, T, glm::defaultp>(T(1)), ldv<3, T>(x)) * glm::mat4_cast(q) * glm::scale(glm::mat<4, 4, T, glm::defaultp>(T(1)), S);
    glm::vec<3, T, glm::defaultp> sc, tr, sk; glm::vec<4, T, glm::defaultp> pe; glm::qua<T, glm::defaultp> o;
    if (!glm::decompose(M, sc, o, tr, sk, pe)) return T(1e9);
    auto M2 = glm::recompose(sc, o, tr, sk, pe);
    T d = 0; for (int c = 0; c < 4; ++c) for (int r = 0; r < 4; ++r) d = std::max(d, std::abs(M[c][r] - M2[c][r])); return d; });
  // ... and with skew and perspective: M = recompose(scale, rotation, translation, skew, perspective) with every pattern of zero / non-zero
  // perspective entries (x[16] selects which of the three are present), decomposed and recomposed again
  add_prop("p_decompose_full", 17, 2e-2, 1e-6, [](auto const* x) { using T = TY(x);
    T n = std::sqrt(x[3] * x[3] + x[4] * x[4] + x[5] * x[5] + x[6] * x[6]); if (!(n > T(0.3))) return T(-1);
    auto q = glm::qua<T, glm::defaultp>::wxyz(x[3] / n, x[4] / n, x[5] / n, x[6] / n);
    glm::vec<3, T, glm::defaultp> S(std::abs(x[7]) + T(0.5), std::abs(x[8]) + T(0.5), std::abs(x[9]) + T(0.5)), K(x[10] * T(0.2), x[11] * T(0.2), x[12] * T(0.2));
    int mask = (int)((std::abs((double)x[16]) * 3.99)) & 7;
    glm::vec<4, T, glm::defaultp> P((mask & 1) ? x[13] * T(0.1) : T(0), (mask & 2) ? x[14] * T(0.1) : T(0), (mask & 4) ? x[15] * T(0.1) + T(0.05) : T(0), T(1));
    // even masks: composed by recompose (the perspective row gets mixed by the other factors); odd masks: the perspective entries written
    // straight into the last row of the TRS+skew matrix (so that 'only z' etc. really occur)
    auto M = glm::recompose(S, q, ldv<3, T>(x), K, ((int)(std::abs((double)x[15]) * 100) & 1) ? glm::vec<4, T, glm::defaultp>(0, 0, 0, 1) : P);
    if ((int)(std::abs((double)x[15]) * 100) & 1) { M[0][3] = P.x; M[1][3] = P.y; M[2][3] = P.z; }
    glm::vec<3, T, glm::defaultp> sc, tr, sk; glm::vec<4, T, glm::defaultp> pe; glm::qua<T, glm::defaultp> o;
    if (!glm::decompose(M, sc, o, tr, sk, pe)) return T(-1);
    auto M2 = glm::recompose(sc, o, tr, sk, pe);
    // decompose first normalises the homogeneous matrix by M[3][3] (1 + perspective . translation here): the rebuilt matrix is M / M[3][3]
    if (!(std::abs(M[3][3]) > T(0.2))) return T(-1);
    T d = 0, big = 0; for (int c = 0; c < 4; ++c) for (int r = 0; r < 4; ++r) { d = std::max(d, std::abs(M[c][r] / M[3][3] - M2[c][r])); big = std::max(big, std::abs(M[c][r] / M[3][3])); }
    return d / std::max(big, T(1)); });
  // lookAt: the rotation block is orthonormal
  // gtx/matrix_interpolation: axisAngle(axisAngleMatrix(axis, a)) recovers the rotation; interpolate(m1, m2, t) is m1 at 0 and m2 at 1
  add_prop("p_axisangle_rt", 4, 5e-3, 1e-6, [](auto const* x) { using T = TY(x); auto ax = ldv<3, T>(x); T ang = std::abs(x[3]) * T(0.7) + T(0.1);   // angle in (0.1, 1.5)
    if (!(glm::length(ax) > T(0.3))) return T(-1);
    auto m = glm::axisAngleMatrix(ax, ang); V3<T> ax2; T ang2; glm::axisAngle(m, ax2, ang2); auto m2 = glm::axisAngleMatrix(ax2, ang2);
    T d = 0; for (int c = 0; c < 4; ++c) for (int r = 0; r < 4; ++r) d = std::max(d, std::abs(m[c][r] - m2[c][r])); return d; });
  add_prop("p_interpolate_ends", 14, 5e-3, 1e-6, [](auto const* x) { using T = TY(x); auto a1 = ldv<3, T>(x), a2 = ldv<3, T>(x + 3);
    if (!(glm::length(a1) > T(0.3)) || !(glm::length(a2) > T(0.3))) return T(-1);
    auto m1 = glm::axisAngleMatrix(a1, std::abs(x[6]) * T(0.5) + T(0.1)), m2 = glm::axisAngleMatrix(a2, std::abs(x[7]) * T(0.5) + T(0.1));
    for (int i = 0; i < 3; ++i) { m1[3][i] = x[8 + i]; m2[3][i] = x[11 + i]; }
    auto r0 = glm::interpolate(m1, m2, T(0)), r1 = glm::interpolate(m1, m2, T(1));
    T d = 0; for (int c = 0; c < 4; ++c) for (int r = 0; r < 3; ++r) { d = std::max(d, std::abs(r0[c][r] - m1[c][r])); d = std::max(d, std::abs(r1[c][r] - m2[c][r])); } return d; });
  add_prop("p_lookat_orth", 9, 2e-3, 1e-9, [](auto const* x) { using T = TY(x); auto e = ldv<3, T>(x), c = ldv<3, T>(x + 3), u = ldv<3, T>(x + 6);
    auto f = c - e; if (!(glm::length(f) > T(0.3)) || !(glm::length(u) > T(0.3))) return T(-1);
    if (!(glm::length(glm::cross(glm::normalize(f), glm::normalize(u))) > T(0.2))) return T(-1);
    auto M = glm::mat<3, 3, T, glm::defaultp>(glm::lookAtRH(e, c, u)); auto P = M * glm::transpose(M);
    T d = 0; for (int a = 0; a < 3; ++a) for (int b = 0; b < 3; ++b) d = std::max(d, std::abs(P[a][b] - (a == b ? T(1) : T(0)))); return d; });
#endif
#if IN_PART(0)
  add_unit(nm("lookAt_cfg", {CFG}), 9, 16, [](auto const* x, auto* o) { using T = TY(o); stm(o, glm::lookAt(ldv<3, T>(x), ldv<3, T>(x + 3), ldv<3, T>(x + 6))); });
#endif
  return unit_main(argc, argv);
}
