// C13: quaternion interpolation (slerp / mix / lerp, gtx shortMix / fastMix, dual-quaternion lerp)
// FLAGS -DNDEBUG
#include "common.hpp"
#include <glm/gtc/quaternion.hpp>
#include <glm/gtx/quaternion.hpp>
#include <glm/gtx/dual_quaternion.hpp>
#include <glm/gtx/compatibility.hpp>
using namespace symt;

template<int K> void reg_spin() {   // slerp with K extra spins (unit key K+3)
  add_unit(nm("slerpk", {K + 3}), 9, 4, [](auto const* x, auto* o) { stq(o, glm::slerp(ldq(x), ldq(x + 4), x[8], K)); });
}
int main(int argc, char** argv) {
  add_unit("slerp", 9, 4, [](auto const* x, auto* o) { stq(o, glm::slerp(ldq(x), ldq(x + 4), x[8])); });
  add_unit("qmix", 9, 4, [](auto const* x, auto* o) { stq(o, glm::mix(ldq(x), ldq(x + 4), x[8])); });
  add_unit("qlerp", 9, 4, [](auto const* x, auto* o) { stq(o, glm::lerp(ldq(x), ldq(x + 4), x[8])); });
  reg_spin<-3>(); reg_spin<-2>(); reg_spin<-1>(); reg_spin<0>(); reg_spin<1>(); reg_spin<2>(); reg_spin<3>();
  add_unit("shortMix", 9, 4, [](auto const* x, auto* o) { stq(o, glm::shortMix(ldq(x), ldq(x + 4), x[8])); });
  add_unit("fastMix", 9, 4, [](auto const* x, auto* o) { stq(o, glm::fastMix(ldq(x), ldq(x + 4), x[8])); });
  return unit_main(argc, argv);
}
