// C13: quaternion interpolation (slerp / mix / lerp, gtx shortMix / fastMix, dual-quaternion lerp)
// FLAGS -DNDEBUG
#include "common.hpp"
#include <glm/gtc/quaternion.hpp>
#include <glm/gtx/quaternion.hpp>
#include <glm/gtx/dual_quaternion.hpp>
#include <glm/gtx/compatibility.hpp>
using namespace symt;

template<int K> void reg_spin() {   // slerp with K extra spins (unit key K+3)
  add_unit(nm("slerpk", {K + 3}), 9, 4, [](auto const* x, auto* o) { stq(o, glm::slerp(ldq(x), ldq(x + 4), x[8], K)); });
}
template<class T> static bool unitq(T const* x, glm::qua<T, glm::defaultp>& q) {
  T n = std::sqrt(x[0] * x[0] + x[1] * x[1] + x[2] * x[2] + x[3] * x[3]); if (!(n > T(0.3))) return false;
  q = glm::qua<T, glm::defaultp>::wxyz(x[0] / n, x[1] / n, x[2] / n, x[3] / n); return true; }
int main(int argc, char** argv) {
  // slerp: unit length, angle from x equal to t times the angle between x and +-y, for t in [-2, 3]
  add_prop("p_slerp", 9, 5e-3, 1e-6, [](auto const* x) { using T = TY(x); glm::qua<T, glm::defaultp> a, b; if (!unitq(x, a) || !unitq(x + 4, b)) return T(-1);
    T t = x[8] * T(1.25) + T(0.5); auto s = glm::slerp(a, b, t);
    T c = std::abs(glm::dot(a, b)); if (c > T(1)) c = T(1); T th = std::acos(c);
    T r1 = std::abs(glm::length(s) - T(1)); T r2 = std::abs(glm::dot(a, s) - std::cos(t * th));
    return std::max(r1, r2); });
  // slerp(x, y, t) = +-slerp(y, x, 1 - t)
  add_prop("p_slerp_sym", 9, 5e-3, 1e-6, [](auto const* x) { using T = TY(x); glm::qua<T, glm::defaultp> a, b; if (!unitq(x, a) || !unitq(x + 4, b)) return T(-1);
    T t = x[8] * T(0.25) + T(0.5); auto s1 = glm::slerp(a, b, t), s2 = glm::slerp(b, a, T(1) - t);
    T d1 = std::max(std::max(std::abs(s1.w - s2.w), std::abs(s1.x - s2.x)), std::max(std::abs(s1.y - s2.y), std::abs(s1.z - s2.z)));
    T d2 = std::max(std::max(std::abs(s1.w + s2.w), std::abs(s1.x + s2.x)), std::max(std::abs(s1.y + s2.y), std::abs(s1.z + s2.z)));
    return std::min(d1, d2); });
  // gtx shortMix / fastMix end points and dual-quaternion lerp end points
  add_prop("p_shortmix_ends", 8, 5e-3, 1e-6, [](auto const* x) { using T = TY(x); glm::qua<T, glm::defaultp> a, b; if (!unitq(x, a) || !unitq(x + 4, b)) return T(-1);
    auto s0 = glm::shortMix(a, b, T(0)), s1 = glm::shortMix(a, b, T(1));
    auto d = [](glm::qua<T, glm::defaultp> const& p, glm::qua<T, glm::defaultp> const& q) { T d1 = std::max(std::max(std::abs(p.w - q.w), std::abs(p.x - q.x)), std::max(std::abs(p.y - q.y), std::abs(p.z - q.z)));
      T d2 = std::max(std::max(std::abs(p.w + q.w), std::abs(p.x + q.x)), std::max(std::abs(p.y + q.y), std::abs(p.z + q.z))); return std::min(d1, d2); };
    return std::max(d(s0, a), d(s1, b)); });
  add_unit("slerp", 9, 4, [](auto const* x, auto* o) { stq(o, glm::slerp(ldq(x), ldq(x + 4), x[8])); });
  add_unit("qmix", 9, 4, [](auto const* x, auto* o) { stq(o, glm::mix(ldq(x), ldq(x + 4), x[8])); });
  add_unit("qlerp", 9, 4, [](auto const* x, auto* o) { stq(o, glm::lerp(ldq(x), ldq(x + 4), x[8])); });
  reg_spin<-3>(); reg_spin<-2>(); reg_spin<-1>(); reg_spin<0>(); reg_spin<1>(); reg_spin<2>(); reg_spin<3>();
  add_unit("shortMix", 9, 4, [](auto const* x, auto* o) { stq(o, glm::shortMix(ldq(x), ldq(x + 4), x[8])); });
  // dual-quaternion linear blend: x = (real 0..3, dual 4..7), y = (real 8..11, dual 12..15), a = 16
  add_unit("dqlerp", 17, 8, [](auto const* x, auto* o) { using T = TY(o); glm::tdualquat<T, glm::defaultp> X(ldq(x), ldq(x + 4)), Y(ldq(x + 8), ldq(x + 12));
    auto r = glm::lerp(X, Y, x[16]); stq(o, r.real); stq(o + 4, r.dual); });
  add_unit("fastMix", 9, 4, [](auto const* x, auto* o) { stq(o, glm::fastMix(ldq(x), ldq(x + 4), x[8])); });
  return unit_main(argc, argv);
}
