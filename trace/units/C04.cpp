// C04: quaternion / matrix / axis-angle / Euler forms of a rotation.
// CFG 0: default quaternion memory order (x,y,z,w)   1: GLM_FORCE_QUAT_DATA_WXYZ
// Every unit is traced under both configurations (last key = CFG); quaternions are passed and
// returned BY COMPONENT NAME (w,x,y,z), so the specifications are the same for both.
// CONFIGS 2
// NPARTS 3
#ifndef CFG
#define CFG 0
#endif
#if CFG & 1
#define GLM_FORCE_QUAT_DATA_WXYZ
#endif
#include "common.hpp"
#include <glm/gtc/quaternion.hpp>
#include <glm/gtx/quaternion.hpp>
#include <glm/gtx/euler_angles.hpp>
#include <glm/gtx/dual_quaternion.hpp>
using namespace symt;

// helpers for the numeric exploration (domains of the clauses that have no theorem yet)
template<class T> static bool unitq(T const* x, glm::qua<T, glm::defaultp>& q) {
  T n = std::sqrt(x[0] * x[0] + x[1] * x[1] + x[2] * x[2] + x[3] * x[3]); if (!(n > T(0.3))) return false;
  q = glm::qua<T, glm::defaultp>::wxyz(x[0] / n, x[1] / n, x[2] / n, x[3] / n); return true; }
template<class T> static T qdist(glm::qua<T, glm::defaultp> const& a, glm::qua<T, glm::defaultp> const& b) {   // distance up to sign
  T d1 = std::max(std::max(std::abs(a.w - b.w), std::abs(a.x - b.x)), std::max(std::abs(a.y - b.y), std::abs(a.z - b.z)));
  T d2 = std::max(std::max(std::abs(a.w + b.w), std::abs(a.x + b.x)), std::max(std::abs(a.y + b.y), std::abs(a.z + b.z)));
  return std::min(d1, d2); }
template<glm::length_t C, glm::length_t R, class T> static T mdist(glm::mat<C, R, T, glm::defaultp> const& a, glm::mat<C, R, T, glm::defaultp> const& b) {
  T d = 0; for (int c = 0; c < C; ++c) for (int r = 0; r < R; ++r) d = std::max(d, std::abs(a[c][r] - b[c][r])); return d; }

int main(int argc, char** argv) {
#if IN_PART(0)
  // quat_cast(mat3_cast(q)) = +-q ; angleAxis(angle(q), axis(q)) = +-q ; quat(eulerAngles(q)) has the same matrix ;
  // quat(u, v) rotates u onto the direction of v (also for opposite vectors)
  add_prop(nm("p_castcast", {CFG}), 4, 2e-3, 1e-9, [](auto const* x) { using T = TY(x); glm::qua<T, glm::defaultp> q; if (!unitq(x, q)) return T(-1);
    return qdist(glm::quat_cast(glm::mat3_cast(q)), q); });
  add_prop(nm("p_angleaxis", {CFG}), 4, 2e-3, 1e-7, [](auto const* x) { using T = TY(x); glm::qua<T, glm::defaultp> q; if (!unitq(x, q)) return T(-1);
    if (std::abs(q.w) > T(0.999)) return T(-1);
    return qdist(glm::angleAxis(glm::angle(q), glm::axis(q)), q); });
  add_prop(nm("p_eulerq", {CFG}), 4, 5e-3, 1e-6, [](auto const* x) { using T = TY(x); glm::qua<T, glm::defaultp> q; if (!unitq(x, q)) return T(-1);
    if (std::abs(T(2) * (q.x * q.z - q.w * q.y)) > T(0.98)) return T(-1);                 // gimbal-lock neighbourhood excluded
    return mdist(glm::mat3_cast(glm::qua<T, glm::defaultp>(glm::eulerAngles(q))), glm::mat3_cast(q)); });
  // gtx/quaternion: rotation(orig, dest) turns orig onto dest; squad passes through q1 at 0 and q2 at 1; extractRealComponent restores w >= 0
  add_prop(nm("p_rotation", {CFG}), 6, 5e-3, 1e-6, [](auto const* x) { using T = TY(x); auto u = ldv<3, T>(x), v = ldv<3, T>(x + 3);
    if (!(glm::length(u) > T(0.3)) || !(glm::length(v) > T(0.3))) return T(-1);
    auto un = glm::normalize(u), vn = glm::normalize(v); if (glm::dot(un, vn) < T(-0.999)) return T(-1);
    auto r = glm::rotation(un, vn) * un; return std::max(std::max(std::abs(r.x - vn.x), std::abs(r.y - vn.y)), std::abs(r.z - vn.z)); });
  add_prop(nm("p_squad_ends", {CFG}), 16, 2e-3, 1e-9, [](auto const* x) { using T = TY(x); glm::qua<T, glm::defaultp> q1, q2, s1, s2;
    if (!unitq(x, q1) || !unitq(x + 4, q2) || !unitq(x + 8, s1) || !unitq(x + 12, s2)) return T(-1);
    if (std::abs(glm::dot(q1, q2)) > T(0.999) || std::abs(glm::dot(s1, s2)) > T(0.999) || std::abs(glm::dot(q1, s1)) > T(0.999) || std::abs(glm::dot(q2, s2)) > T(0.999)) return T(-1);   // no (anti)parallel pair: mix's own domain
    auto a = glm::squad(q1, q2, s1, s2, T(0)), b = glm::squad(q1, q2, s1, s2, T(1));
    T d1 = std::max(std::max(std::abs(a.w - q1.w), std::abs(a.x - q1.x)), std::max(std::abs(a.y - q1.y), std::abs(a.z - q1.z)));
    T d2 = std::max(std::max(std::abs(b.w - q2.w), std::abs(b.x - q2.x)), std::max(std::abs(b.y - q2.y), std::abs(b.z - q2.z)));
    return std::max(d1, d2); });
  add_prop(nm("p_extractreal", {CFG}), 4, 2e-3, 1e-7, [](auto const* x) { using T = TY(x); glm::qua<T, glm::defaultp> q; if (!unitq(x, q)) return T(-1);
    if (std::abs(q.w) < T(0.05)) return T(-1);
    return std::abs(std::abs(glm::extractRealComponent(q)) - std::abs(q.w)); });   // (glm returns the negative root, the convention of the MD5 model format; the sign is not part of C04)
  // cross-type / cross-qualifier quaternion conversions (invisible to the tracer: they change the element type): every NAMED component is the
  // static_cast of the same named component, in both memory orders; also qua(s, vec3) and wxyz() by name
  add_prop(nm("p_qconvert", {CFG}), 4, 0.0, 0.0, [](auto const* x) { using T = TY(x); int bad = 0;
    double w = (double)x[0] * 1.0000001, a = (double)x[1] * 1.0000001, b = (double)x[2] * 1.0000001, c = (double)x[3] * 1.0000001;
    glm::qua<double, glm::highp> qd = glm::qua<double, glm::highp>::wxyz(w, a, b, c);
    glm::qua<float, glm::highp> qf(qd); bad += !(qf.w == (float)w && qf.x == (float)a && qf.y == (float)b && qf.z == (float)c);
    glm::qua<double, glm::highp> qb(qf); bad += !(qb.w == (double)(float)w && qb.x == (double)(float)a && qb.y == (double)(float)b && qb.z == (double)(float)c);
    glm::qua<float, glm::lowp> ql(qd); bad += !(ql.w == (float)w && ql.x == (float)a && ql.y == (float)b && ql.z == (float)c);
    glm::qua<double, glm::mediump> qm(ql); bad += !(qm.w == (double)(float)w && qm.x == (double)(float)a && qm.y == (double)(float)b && qm.z == (double)(float)c);
    glm::qua<float, glm::mediump> qq((glm::qua<float, glm::highp>(qd))); bad += !(qq.w == (float)w && qq.x == (float)a && qq.y == (float)b && qq.z == (float)c);
    glm::qua<double, glm::highp> qs(w, glm::dvec3(a, b, c)); bad += !(qs.w == w && qs.x == a && qs.y == b && qs.z == c);
    glm::qua<float, glm::highp> qs2((float)w, glm::vec3((float)a, (float)b, (float)c)); bad += !(qs2.w == (float)w && qs2.x == (float)a && qs2.y == (float)b && qs2.z == (float)c);
    return (T)bad; });
  add_prop(nm("p_fromto", {CFG}), 6, 5e-3, 1e-6, [](auto const* x) { using T = TY(x); auto u = ldv<3, T>(x), v = ldv<3, T>(x + 3);
    if (!(glm::length(u) > T(0.3)) || !(glm::length(v) > T(0.3))) return T(-1);
    glm::qua<T, glm::defaultp> q(u, v); auto r = q * glm::normalize(u); auto w = glm::normalize(v);
    return std::max(std::abs(r.x - w.x), std::max(std::abs(r.y - w.y), std::abs(r.z - w.z))); });
  add_unit(nm("qmul", {CFG}), 8, 4, [](auto const* x, auto* o) { stq(o, ldq(x) * ldq(x + 4)); });
  add_unit(nm("qcross", {CFG}), 8, 4, [](auto const* x, auto* o) { stq(o, glm::cross(ldq(x), ldq(x + 4))); });
  add_unit(nm("qmulv3", {CFG}), 7, 3, [](auto const* x, auto* o) { using T = TY(o); stv(o, ldq(x) * ldv<3, T>(x + 4)); });
  add_unit(nm("qmulv4", {CFG}), 8, 4, [](auto const* x, auto* o) { using T = TY(o); stv(o, ldq(x) * ldv<4, T>(x + 4)); });
  add_unit(nm("vmulq3", {CFG}), 7, 3, [](auto const* x, auto* o) { using T = TY(o); stv(o, ldv<3, T>(x + 4) * ldq(x)); });
  add_unit(nm("mat3cast", {CFG}), 4, 9, [](auto const* x, auto* o) { stm(o, glm::mat3_cast(ldq(x))); });
  add_unit(nm("mat4cast", {CFG}), 4, 16, [](auto const* x, auto* o) { stm(o, glm::mat4_cast(ldq(x))); });
  add_unit(nm("mat3ofprod", {CFG}), 8, 9, [](auto const* x, auto* o) { stm(o, glm::mat3_cast(ldq(x) * ldq(x + 4))); });
  add_unit(nm("conjugate", {CFG}), 4, 4, [](auto const* x, auto* o) { stq(o, glm::conjugate(ldq(x))); });
  add_unit(nm("qinverse", {CFG}), 4, 4, [](auto const* x, auto* o) { stq(o, glm::inverse(ldq(x))); });
  add_unit(nm("qdot", {CFG}), 8, 1, [](auto const* x, auto* o) { o[0] = glm::dot(ldq(x), ldq(x + 4)); });
  add_unit(nm("qlength", {CFG}), 4, 1, [](auto const* x, auto* o) { o[0] = glm::length(ldq(x)); });
  add_unit(nm("qnormalize", {CFG}), 4, 4, [](auto const* x, auto* o) { stq(o, glm::normalize(ldq(x))); });
  add_unit(nm("qadd", {CFG}), 8, 4, [](auto const* x, auto* o) { stq(o, ldq(x) + ldq(x + 4)); });
  add_unit(nm("qsub", {CFG}), 8, 4, [](auto const* x, auto* o) { stq(o, ldq(x) - ldq(x + 4)); });
  add_unit(nm("qneg", {CFG}), 4, 4, [](auto const* x, auto* o) { stq(o, -ldq(x)); });
  add_unit(nm("qmuls", {CFG}), 5, 4, [](auto const* x, auto* o) { stq(o, ldq(x) * x[4]); });
  add_unit(nm("qdivs", {CFG}), 5, 4, [](auto const* x, auto* o) { stq(o, ldq(x) / x[4]); });
  add_unit(nm("angleAxis", {CFG}), 4, 4, [](auto const* x, auto* o) { using T = TY(o); stq(o, glm::angleAxis(x[0], ldv<3, T>(x + 1))); });
  add_unit(nm("qrotate", {CFG}), 8, 4, [](auto const* x, auto* o) { using T = TY(o); stq(o, glm::rotate(ldq(x), x[4], ldv<3, T>(x + 5))); });
  add_unit(nm("quatEuler", {CFG}), 3, 4, [](auto const* x, auto* o) { using T = TY(o); stq(o, glm::qua<T, glm::defaultp>(ldv<3, T>(x))); });
  add_unit(nm("quatcast", {CFG}), 9, 4, [](auto const* x, auto* o) { using T = TY(o); stq(o, glm::quat_cast(ldm<3, 3, T>(x))); });
  add_unit(nm("castcast", {CFG}), 4, 4, [](auto const* x, auto* o) { stq(o, glm::quat_cast(glm::mat3_cast(ldq(x)))); });
  // the ten products r_i r_j (i <= j, order w x y z) of r = quat_cast(mat3_cast(q)): r = +-q  <=>  r_i r_j = q_i q_j for all i, j
  add_unit(nm("castprod", {CFG}), 4, 10, [](auto const* x, auto* o) { using T = TY(o); auto r = glm::quat_cast(glm::mat3_cast(ldq(x)));
    T c[4] = {r.w, r.x, r.y, r.z}; int k = 0; for (int i = 0; i < 4; ++i) for (int j = i; j < 4; ++j) o[k++] = c[i] * c[j]; });
  add_unit(nm("qaxis", {CFG}), 4, 3, [](auto const* x, auto* o) { stv(o, glm::axis(ldq(x))); });
  add_unit(nm("qangle", {CFG}), 4, 1, [](auto const* x, auto* o) { o[0] = glm::angle(ldq(x)); });
  add_unit(nm("quatFromTo", {CFG}), 6, 4, [](auto const* x, auto* o) { using T = TY(o); stq(o, glm::qua<T, glm::defaultp>(ldv<3, T>(x), ldv<3, T>(x + 3))); });
  add_unit(nm("eulerAngles", {CFG}), 4, 3, [](auto const* x, auto* o) { stv(o, glm::eulerAngles(ldq(x))); });
#endif
#if CFG == 0 && IN_PART(1)
  // gtx/euler_angles: single axis (key = axis), two axes (keys a b), three axes (keys a b c); X=0 Y=1 Z=2
#define E1(NAME, A) add_unit(nm("euler1", {A}), 1, 16, [](auto const* x, auto* o) { stm(o, glm::NAME(x[0])); });
  E1(eulerAngleX, 0) E1(eulerAngleY, 1) E1(eulerAngleZ, 2)
#define E2(NAME, A, B) add_unit(nm("euler2", {A, B}), 2, 16, [](auto const* x, auto* o) { stm(o, glm::NAME(x[0], x[1])); });
  E2(eulerAngleXY, 0, 1) E2(eulerAngleYX, 1, 0) E2(eulerAngleXZ, 0, 2) E2(eulerAngleZX, 2, 0) E2(eulerAngleYZ, 1, 2) E2(eulerAngleZY, 2, 1)
#define E3(NAME, A, B, C) add_unit(nm("euler3", {A, B, C}), 3, 16, [](auto const* x, auto* o) { stm(o, glm::NAME(x[0], x[1], x[2])); });
  E3(eulerAngleXYZ, 0, 1, 2) E3(eulerAngleYXZ, 1, 0, 2) E3(eulerAngleXZX, 0, 2, 0) E3(eulerAngleXYX, 0, 1, 0)
  E3(eulerAngleYXY, 1, 0, 1) E3(eulerAngleYZY, 1, 2, 1) E3(eulerAngleZYZ, 2, 1, 2) E3(eulerAngleZXZ, 2, 0, 2)
  E3(eulerAngleXZY, 0, 2, 1) E3(eulerAngleYZX, 1, 2, 0) E3(eulerAngleZYX, 2, 1, 0) E3(eulerAngleZXY, 2, 0, 1)
  add_unit("yawPitchRoll", 3, 16, [](auto const* x, auto* o) { stm(o, glm::yawPitchRoll(x[0], x[1], x[2])); });
  add_unit("orientate3", 3, 9, [](auto const* x, auto* o) { using T = TY(o); stm(o, glm::orientate3(ldv<3, T>(x))); });
  add_unit("orientate4", 3, 16, [](auto const* x, auto* o) { using T = TY(o); stm(o, glm::orientate4(ldv<3, T>(x))); });
  add_unit("orientate2", 1, 4, [](auto const* x, auto* o) { stm(o, glm::orientate2(x[0])); });
#endif
#if CFG == 0 && IN_PART(2)
  // extractEulerAngleABC(eulerAngleABC(t1,t2,t3)) rebuilds the same matrix; t2 kept away from the gimbal lock of the variant
#define PX3(NAME, PROPER) add_prop("p_extract_" #NAME, 3, 5e-3, 1e-7, [](auto const* x) { using T = TY(x); \
    T t1 = x[0] * T(0.75), t3 = x[2] * T(0.75), t2 = PROPER ? (std::abs(x[1]) * T(0.7) + T(0.15)) : x[1] * T(0.7); \
    auto M = glm::eulerAngle##NAME(t1, t2, t3); T a, b, c; glm::extractEulerAngle##NAME(M, a, b, c); \
    return mdist(glm::eulerAngle##NAME(a, b, c), M); });
  PX3(XYZ, false) PX3(YXZ, false) PX3(XZY, false) PX3(YZX, false) PX3(ZYX, false) PX3(ZXY, false)
  PX3(XZX, true) PX3(XYX, true) PX3(YXY, true) PX3(YZY, true) PX3(ZYZ, true) PX3(ZXZ, true)
  // extractEulerAngleABC of the matrix built by eulerAngleABC (round trip traced as one unit)
#define X3(NAME, A, B, C) add_unit(nm("extract3", {A, B, C}), 16, 3, [](auto const* x, auto* o) { using T = TY(o); T a, b, c; glm::extractEulerAngle##NAME(ldm<4, 4, T>(x), a, b, c); o[0] = a; o[1] = b; o[2] = c; });
  X3(XYZ, 0, 1, 2) X3(YXZ, 1, 0, 2) X3(XZX, 0, 2, 0) X3(XYX, 0, 1, 0) X3(YXY, 1, 0, 1) X3(YZY, 1, 2, 1)
  X3(ZYZ, 2, 1, 2) X3(ZXZ, 2, 0, 2) X3(XZY, 0, 2, 1) X3(YZX, 1, 2, 0) X3(ZYX, 2, 1, 0) X3(ZXY, 2, 0, 1)
#endif
  return unit_main(argc, argv);
}
