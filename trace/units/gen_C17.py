#!/usr/bin/env python3
"""Generate trace/units/gen/C17_*.inc: one unit per swizzle pattern, enumerated independently of glm's own
tables (all index patterns of length 2..4 over the first L letters).  Run by hand; output committed.
unit names:  swzf_<L>_<n>_<code>        gtx/vec_swizzle free function      (code = sum idx_k * 4^k)
             swzm_<set>_<L>_<n>_<code>  member swizzle v.xyz()  (set 0 = xyzw, 1 = rgba, 2 = stpq)
             swza_<L>_<n>_<code>        assignment through a writable swizzle  v.zx = rhs  (operator mode)"""
import itertools, os
SETS = ['xyzw', 'rgba', 'stpq']
d = os.path.join(os.path.dirname(os.path.abspath(__file__)), 'gen')
free, mem, asg = [], [], []
for L in (1, 2, 3, 4):
    for n in (2, 3, 4):
        for pat in itertools.product(range(L), repeat=n):
            code = sum(i * 4 ** k for k, i in enumerate(pat))
            name = ''.join('xyzw'[i] for i in pat)
            free.append('SWZF(%d, %d, %d, %s)' % (L, n, code, name))
            if L >= 2:
                for s, letters in enumerate(SETS):
                    mem.append('SWZM(%d, %d, %d, %d, %s)' % (s, L, n, code, ''.join(letters[i] for i in pat)))
                if len(set(pat)) == n and n <= L:
                    asg.append('SWZA(%d, %d, %d, %s)' % (L, n, code, name))
def chunks(l, k): return [l[i::k] for i in range(k)]
for i, c in enumerate(chunks(free, 4)): open(os.path.join(d, 'C17_free_%d.inc' % i), 'w').write('\n'.join(c) + '\n')
for i, c in enumerate(chunks(mem, 12)): open(os.path.join(d, 'C17_mem_%d.inc' % i), 'w').write('\n'.join(c) + '\n')
open(os.path.join(d, 'C17_asg.inc'), 'w').write('\n'.join(asg) + '\n')
print(len(free), len(mem), len(asg))
