// T1 tracer: symbolic scalar types for instantiating glm's templates.
//
// glm is compiled UNMODIFIED with T = SymR (a 4-byte trivially-copyable handle
// into an expression arena).  Running a glm function on symbolic components
// records, per output component, the exact expression DAG glm evaluates;
// every value-dependent C++ branch (comparison -> bool) asks the decision
// oracle, and the explorer re-runs the call for every decision vector, giving
// a decision tree.  The result is printed in the text format read by
// trace/gen_lean.py (-> Lean data under lean/GlmVerif/Gen) and by the native
// driver (lean/Main.lean).
//
// This header must be included BEFORE any glm header.
#pragma once
#include <cstdint>
#include <cstdio>
#include <cstdlib>
#include <cstring>
#include <cmath>
#include <limits>
#include <vector>
#include <string>
#include <map>
#include <set>
#include <tuple>
#include <functional>
#include <type_traits>
#include <algorithm>

namespace symt {

inline bool echo_inputs() { static int e = getenv("VERIF_ECHO") ? 1 : 0; return e != 0; }

enum Op : uint8_t {
  VAR, LIT, LITI, KONST,
  ADD, SUB, MUL, DIV, NEG,
  CALL1, CALL2, CALL3,
  BAND, BOR, BXOR, BNOT, SHL, SHR, IMOD, CAST,
  // conditions
  C_LT, C_LE, C_EQ, C_ISNAN, C_ISINF, C_NOT, C_AND, C_OR
};
enum Fn : uint8_t {
  F_SQRT, F_SIN, F_COS, F_TAN, F_ASIN, F_ACOS, F_ATAN, F_SINH, F_COSH, F_TANH, F_ASINH, F_ACOSH, F_ATANH,
  F_EXP, F_LOG, F_EXP2, F_LOG2, F_FLOOR, F_CEIL, F_TRUNC, F_ROUND, F_ABS,
  F_ATAN2, F_POW, F_FMOD,
  F_FMA
};
static const char* fn_name[] = {
  "sqrt","sin","cos","tan","asin","acos","atan","sinh","cosh","tanh","asinh","acosh","atanh",
  "exp","log","exp2","log2","floor","ceil","trunc","round","abs",
  "atan2","pow","fmod","fma"};
enum KonstK : uint8_t { K_EPS, K_FMIN, K_FMAX, K_INF };
static const char* konst_name[] = {"eps","fmin","fmax","inf"};

// scalar type tags, same order as Glm.Ty
enum Ty : uint8_t { T_R, T_I8, T_I16, T_I32, T_I64, T_U8, T_U16, T_U32, T_U64 };
static const char* ty_name[] = {"r","i8","i16","i32","i64","u8","u16","u32","u64"};

struct Node {
  Op op; uint8_t sub; uint32_t a, b, c; double d; int64_t i;
  bool operator<(Node const& o) const {
    uint64_t x, y; std::memcpy(&x, &d, 8); std::memcpy(&y, &o.d, 8);
    return std::tie(op, sub, a, b, c, x, i) < std::tie(o.op, o.sub, o.a, o.b, o.c, y, o.i);
  }
};

struct Arena {
  std::vector<Node> nodes;
  std::map<Node, uint32_t> index;
  uint32_t mk(Node n) {
    auto it = index.find(n);
    if (it != index.end()) return it->second;
    uint32_t id = (uint32_t)nodes.size();
    nodes.push_back(n); index.emplace(n, id);
    return id;
  }
  void clear() { nodes.clear(); index.clear(); }
};
inline Arena& arena() { static Arena a; return a; }

// a handle that was never written (glm read an uninitialised object) is caught here instead of crashing
inline bool& bad_handle() { static bool b = false; return b; }
inline uint32_t chk(uint32_t id) { if (id >= arena().nodes.size()) { bad_handle() = true; return 0; } return id; }
inline uint32_t mk(Op op, uint32_t a = 0, uint32_t b = 0, uint32_t c = 0, uint8_t sub = 0) {
  switch (op) {
    case VAR: case LIT: case LITI: case KONST: break;
    case NEG: case CALL1: case BNOT: case CAST: case C_ISNAN: case C_ISINF: case C_NOT: a = chk(a); break;
    case CALL3: a = chk(a); b = chk(b); c = chk(c); break;
    default: a = chk(a); b = chk(b);
  }
  Node n{op, sub, a, b, c, 0.0, 0}; return arena().mk(n);
}
inline uint32_t mk_lit(double d) { Node n{LIT, 0, 0, 0, 0, d, 0}; return arena().mk(n); }
inline uint32_t mk_liti(int64_t v, bool uns) { Node n{LITI, (uint8_t)uns, 0, 0, 0, 0.0, v}; return arena().mk(n); }
inline uint32_t mk_var(uint32_t i) { Node n{VAR, 0, i, 0, 0, 0.0, 0}; return arena().mk(n); }
inline uint32_t mk_konst(uint8_t k) { Node n{KONST, k, 0, 0, 0, 0.0, 0}; return arena().mk(n); }

// ---------------------------------------------------------------- decisions
struct Oracle {
  std::vector<uint8_t> decisions;             // current decision vector
  std::vector<std::pair<uint32_t, bool>> trail; // (cond node, decision) of this run
  size_t pos = 0;
  size_t max_depth = 64;
  bool overflow = false;
  bool memo = false;                          // opt-in (MemoScope): a condition asked again on the same path keeps its answer
  bool ask(uint32_t cond) {
    bool d;
    if (memo) for (auto const& t : trail) if (t.first == cond) return t.second;
    if (pos < decisions.size()) d = decisions[pos];
    else {
      if (decisions.size() >= max_depth) { overflow = true; d = false; }
      else { d = true; }
      decisions.push_back(d);
    }
    ++pos;
    trail.emplace_back(cond, d);
    return d;
  }
};
inline Oracle& oracle() { static Oracle o; return o; }

inline bool is_lit(uint32_t id) { return arena().nodes[id].op == LIT; }
inline double lit_val(uint32_t id) { return arena().nodes[id].d; }

struct MemoScope { bool old; MemoScope() : old(oracle().memo) { oracle().memo = true; } ~MemoScope() { oracle().memo = old; } };
inline bool decide_cmp(Op op, uint32_t a, uint32_t b) {
  if (is_lit(a) && is_lit(b)) {           // constants are folded (e.g. `Bits >= 32 ? … : …`)
    double x = lit_val(a), y = lit_val(b);
    switch (op) { case C_LT: return x < y; case C_LE: return x <= y; case C_EQ: return x == y; default: break; }
  }
  if (arena().nodes[a].op == LITI && arena().nodes[b].op == LITI) {
    Node const& x = arena().nodes[a]; Node const& y = arena().nodes[b];
    if (x.sub || y.sub) { uint64_t p = (uint64_t)x.i, q = (uint64_t)y.i;
      switch (op) { case C_LT: return p < q; case C_LE: return p <= q; case C_EQ: return p == q; default: break; } }
    else switch (op) { case C_LT: return x.i < y.i; case C_LE: return x.i <= y.i; case C_EQ: return x.i == y.i; default: break; }
  }
  // IEEE 754 §5.11: every ordered comparison with a NaN operand is false.  Once `isnan(x)` has been decided true on this path, a later
  // `x < y`, `x <= y`, `x == y` is not a free decision any more (otherwise e.g. `min(a, fmin(c, d))` grows infeasible paths).
  if (arena().nodes[a].op != LITI && arena().nodes[b].op != LITI) {
    uint32_t na = mk(C_ISNAN, a), nb = mk(C_ISNAN, b);
    // (a condition can be asked more than once on a path - every component of a vector function asks again about a broadcast scalar -
    //  and the tracer explores both answers each time; the most recent answer is the one the code that follows was selected by)
    bool sa = false, sb = false, fa = false, fb = false;
    for (auto it = oracle().trail.rbegin(); it != oracle().trail.rend() && !(sa && sb); ++it) {
      if (!sa && it->first == na) { sa = true; fa = it->second; }
      if (!sb && it->first == nb) { sb = true; fb = it->second; }
    }
    if (fa || fb) return false;
  }
  return oracle().ask(mk(op, a, b));
}

// ---------------------------------------------------------------- SymR
struct SymR {
  uint32_t id;
  SymR() = default;                                  // trivial: SymR lives in glm's unions
  SymR(double v) : id(mk_lit(v)) {}
  SymR(float v) : id(mk_lit((double)v)) {}
  SymR(long double v) : id(mk_lit((double)v)) {}
  SymR(int v) : id(mk_lit((double)v)) {}
  SymR(unsigned v) : id(mk_lit((double)v)) {}
  SymR(long v) : id(mk_lit((double)v)) {}
  SymR(unsigned long v) : id(mk_lit((double)v)) {}
  SymR(long long v) : id(mk_lit((double)v)) {}
  SymR(unsigned long long v) : id(mk_lit((double)v)) {}
  SymR(bool v) : id(mk_lit(v ? 1.0 : 0.0)) {}
  SymR(signed char v) : id(mk_lit((double)v)) {}
  SymR(unsigned char v) : id(mk_lit((double)v)) {}
  SymR(short v) : id(mk_lit((double)v)) {}
  SymR(unsigned short v) : id(mk_lit((double)v)) {}
  static SymR from(uint32_t id) { SymR s; s.id = id; return s; }
  static SymR var(uint32_t i) { return from(mk_var(i)); }
  SymR& operator+=(SymR o) { id = mk(ADD, id, o.id); return *this; }
  SymR& operator-=(SymR o) { id = mk(SUB, id, o.id); return *this; }
  SymR& operator*=(SymR o) { id = mk(MUL, id, o.id); return *this; }
  SymR& operator/=(SymR o) { id = mk(DIV, id, o.id); return *this; }
  SymR& operator++() { id = mk(ADD, id, mk_lit(1.0)); return *this; }
  SymR& operator--() { id = mk(SUB, id, mk_lit(1.0)); return *this; }
  SymR operator++(int) { SymR r = *this; ++*this; return r; }
  SymR operator--(int) { SymR r = *this; --*this; return r; }
  explicit operator int() const;                     // see below: decided by comparisons
};
static_assert(sizeof(SymR) == 4, "SymR must be a 4-byte handle");
static_assert(std::is_trivially_copyable<SymR>::value, "");
static_assert(std::is_trivially_default_constructible<SymR>::value, "");

inline SymR operator+(SymR a, SymR b) { return SymR::from(mk(ADD, a.id, b.id)); }
inline SymR operator-(SymR a, SymR b) { return SymR::from(mk(SUB, a.id, b.id)); }
inline SymR operator*(SymR a, SymR b) { return SymR::from(mk(MUL, a.id, b.id)); }
inline SymR operator/(SymR a, SymR b) { return SymR::from(mk(DIV, a.id, b.id)); }
inline SymR operator-(SymR a) { return SymR::from(mk(NEG, a.id)); }
inline SymR operator+(SymR a) { return a; }
inline bool operator<(SymR a, SymR b) { return decide_cmp(C_LT, a.id, b.id); }
inline bool operator>(SymR a, SymR b) { return decide_cmp(C_LT, b.id, a.id); }
inline bool operator<=(SymR a, SymR b) { return decide_cmp(C_LE, a.id, b.id); }
inline bool operator>=(SymR a, SymR b) { return decide_cmp(C_LE, b.id, a.id); }
inline bool operator==(SymR a, SymR b) { return decide_cmp(C_EQ, a.id, b.id); }
inline bool operator!=(SymR a, SymR b) { return !decide_cmp(C_EQ, a.id, b.id); }

// `int(x)` / `static_cast<int>(x)` (truncation toward zero) of a symbolic value is decided by comparisons with integer
// literals, so that e.g. `switch (int(floor(h / 60)))` becomes a decision tree over `floor(h / 60) < k`.  Exact for |x| < 16;
// beyond that the conversion saturates at +-16: code that only distinguishes small values (a `default:` label) behaves
// alike, and the bit-exact correspondence on wide-magnitude inputs reports any code for which that is not true.
inline SymR::operator int() const {
  SymR x = *this;
  if (x < SymR(0)) { for (int k = 0; k < 16; ++k) if (SymR(-(k + 1)) < x) return -k; return -16; }
  for (int k = 0; k < 16; ++k) if (x < SymR(k + 1)) return k;
  return 16;
}
// mixed forms with arithmetic types (templates in glm sometimes pass int/double literals)
#define SYMR_MIXED(OP, RET) \
  template<class A, class = typename std::enable_if<std::is_arithmetic<A>::value>::type> inline RET operator OP(SymR a, A b) { return a OP SymR(b); } \
  template<class A, class = typename std::enable_if<std::is_arithmetic<A>::value>::type> inline RET operator OP(A a, SymR b) { return SymR(a) OP b; }
SYMR_MIXED(+, SymR) SYMR_MIXED(-, SymR) SYMR_MIXED(*, SymR) SYMR_MIXED(/, SymR)
SYMR_MIXED(<, bool) SYMR_MIXED(>, bool) SYMR_MIXED(<=, bool) SYMR_MIXED(>=, bool) SYMR_MIXED(==, bool) SYMR_MIXED(!=, bool)
#undef SYMR_MIXED


// ---------------------------------------------------------------- SymInt: 32-bit symbolic integers
// (sizeof == 4 because glm selects ladder steps with sizeof(T)*8; 8/16-bit types are covered by exhaustive
// correspondence in the hand-model checks instead, integer promotion makes them untraceable this way)
template<bool S> struct SymInt {
  uint32_t id;
  SymInt() = default;
  SymInt(int v) : id(mk_liti(S ? (int64_t)(int32_t)v : (int64_t)(uint32_t)v, !S)) {}
  SymInt(unsigned v) : id(mk_liti(S ? (int64_t)(int32_t)v : (int64_t)(uint32_t)v, !S)) {}
  SymInt(long v) : SymInt((int)v) {}
  SymInt(unsigned long v) : SymInt((unsigned)v) {}
  SymInt(long long v) : SymInt((int)v) {}
  SymInt(unsigned long long v) : SymInt((unsigned)v) {}
  SymInt(bool v) : SymInt((int)v) {}
  SymInt(signed char v) : SymInt((int)v) {}
  SymInt(unsigned char v) : SymInt((int)v) {}
  SymInt(short v) : SymInt((int)v) {}
  SymInt(unsigned short v) : SymInt((int)v) {}
  explicit SymInt(SymInt<!S> o) : id(mk(CAST, o.id, 0, 0, S ? T_I32 : T_U32)) {}
  static SymInt from(uint32_t id) { SymInt s; s.id = id; return s; }
  static SymInt var(uint32_t i) { return from(mk_var(i)); }
#define SI_ASG(OP, NODE) SymInt& operator OP(SymInt o) { id = mk(NODE, id, o.id); return *this; }
  SI_ASG(+=, ADD) SI_ASG(-=, SUB) SI_ASG(*=, MUL) SI_ASG(/=, DIV) SI_ASG(%=, IMOD)
  SI_ASG(&=, BAND) SI_ASG(|=, BOR) SI_ASG(^=, BXOR) SI_ASG(<<=, SHL) SI_ASG(>>=, SHR)
#undef SI_ASG
  SymInt& operator++() { id = mk(ADD, id, SymInt(1).id); return *this; }
  SymInt& operator--() { id = mk(SUB, id, SymInt(1).id); return *this; }
  SymInt operator++(int) { SymInt r = *this; ++*this; return r; }
  SymInt operator--(int) { SymInt r = *this; --*this; return r; }
};
using SymI32 = SymInt<true>; using SymU32 = SymInt<false>;
static_assert(sizeof(SymI32) == 4 && std::is_trivially_default_constructible<SymI32>::value, "");
#define SI_BIN(OP, NODE) template<bool S> inline SymInt<S> operator OP(SymInt<S> a, SymInt<S> b) { return SymInt<S>::from(mk(NODE, a.id, b.id)); } \
  template<bool S, class A, class = typename std::enable_if<std::is_integral<A>::value>::type> inline SymInt<S> operator OP(SymInt<S> a, A b) { return a OP SymInt<S>(b); } \
  template<bool S, class A, class = typename std::enable_if<std::is_integral<A>::value>::type> inline SymInt<S> operator OP(A a, SymInt<S> b) { return SymInt<S>(a) OP b; }
SI_BIN(+, ADD) SI_BIN(-, SUB) SI_BIN(*, MUL) SI_BIN(/, DIV) SI_BIN(%, IMOD) SI_BIN(&, BAND) SI_BIN(|, BOR) SI_BIN(^, BXOR) SI_BIN(<<, SHL) SI_BIN(>>, SHR)
#undef SI_BIN
template<bool S> inline SymInt<S> operator-(SymInt<S> a) { return SymInt<S>::from(mk(NEG, a.id)); }
template<bool S> inline SymInt<S> operator+(SymInt<S> a) { return a; }
template<bool S> inline SymInt<S> operator~(SymInt<S> a) { return SymInt<S>::from(mk(BNOT, a.id)); }
#define SI_CMP(OP, EXPR) template<bool S> inline bool operator OP(SymInt<S> a, SymInt<S> b) { return EXPR; } \
  template<bool S, class A, class = typename std::enable_if<std::is_integral<A>::value>::type> inline bool operator OP(SymInt<S> a, A b) { return a OP SymInt<S>(b); } \
  template<bool S, class A, class = typename std::enable_if<std::is_integral<A>::value>::type> inline bool operator OP(A a, SymInt<S> b) { return SymInt<S>(a) OP b; }
SI_CMP(<, decide_cmp(C_LT, a.id, b.id)) SI_CMP(>, decide_cmp(C_LT, b.id, a.id)) SI_CMP(<=, decide_cmp(C_LE, a.id, b.id))
SI_CMP(>=, decide_cmp(C_LE, b.id, a.id)) SI_CMP(==, decide_cmp(C_EQ, a.id, b.id)) SI_CMP(!=, !decide_cmp(C_EQ, a.id, b.id))
#undef SI_CMP

inline SymR call1(Fn f, SymR a) { return SymR::from(mk(CALL1, a.id, 0, 0, f)); }
inline SymR call2(Fn f, SymR a, SymR b) { return SymR::from(mk(CALL2, a.id, b.id, 0, f)); }
inline SymR call3(Fn f, SymR a, SymR b, SymR c) { return SymR::from(mk(CALL3, a.id, b.id, c.id, f)); }

} // namespace symt

using symt::SymR;

namespace std {
template<> struct numeric_limits<SymR> {
  static constexpr bool is_specialized = true, is_signed = true, is_integer = false, is_exact = false,
    has_infinity = true, has_quiet_NaN = true, has_signaling_NaN = true, is_iec559 = true, is_bounded = true,
    is_modulo = false, traps = false, tinyness_before = false;
  static constexpr int digits = 24, digits10 = 6, max_digits10 = 9, radix = 2;
  static SymR epsilon() { return SymR::from(symt::mk_konst(symt::K_EPS)); }
  static SymR min() { return SymR::from(symt::mk_konst(symt::K_FMIN)); }
  static SymR max() { return SymR::from(symt::mk_konst(symt::K_FMAX)); }
  static SymR lowest() { return -max(); }
  static SymR infinity() { return SymR::from(symt::mk_konst(symt::K_INF)); }
};
template<bool S> struct numeric_limits<symt::SymInt<S>> {
  static constexpr bool is_specialized = true, is_signed = S, is_integer = true, is_exact = true, is_iec559 = false, is_bounded = true, is_modulo = !S;
  static constexpr int digits = S ? 31 : 32, radix = 2;
  static symt::SymInt<S> min() { return symt::SymInt<S>(S ? (int)0x80000000 : 0); }
  static symt::SymInt<S> max() { return S ? symt::SymInt<S>(0x7fffffff) : symt::SymInt<S>(0xffffffffu); }
  static symt::SymInt<S> lowest() { return min(); }
};
template<> struct make_unsigned<symt::SymI32> { using type = symt::SymU32; };
template<> struct make_unsigned<symt::SymU32> { using type = symt::SymU32; };
template<> struct make_signed<symt::SymI32> { using type = symt::SymI32; };
template<> struct make_signed<symt::SymU32> { using type = symt::SymI32; };
#define SYM_F1(name, F) inline SymR name(SymR a) { return symt::call1(symt::F, a); }
SYM_F1(sqrt, F_SQRT) SYM_F1(sin, F_SIN) SYM_F1(cos, F_COS) SYM_F1(tan, F_TAN)
SYM_F1(asin, F_ASIN) SYM_F1(acos, F_ACOS) SYM_F1(atan, F_ATAN)
SYM_F1(sinh, F_SINH) SYM_F1(cosh, F_COSH) SYM_F1(tanh, F_TANH)
SYM_F1(asinh, F_ASINH) SYM_F1(acosh, F_ACOSH) SYM_F1(atanh, F_ATANH)
SYM_F1(exp, F_EXP) SYM_F1(log, F_LOG) SYM_F1(exp2, F_EXP2) SYM_F1(log2, F_LOG2)
SYM_F1(floor, F_FLOOR) SYM_F1(ceil, F_CEIL) SYM_F1(trunc, F_TRUNC) SYM_F1(round, F_ROUND)
SYM_F1(abs, F_ABS) SYM_F1(fabs, F_ABS)
#undef SYM_F1
inline SymR atan2(SymR a, SymR b) { return symt::call2(symt::F_ATAN2, a, b); }
inline SymR pow(SymR a, SymR b) { return symt::call2(symt::F_POW, a, b); }
inline SymR fmod(SymR a, SymR b) { return symt::call2(symt::F_FMOD, a, b); }
inline SymR fma(SymR a, SymR b, SymR c) { return symt::call3(symt::F_FMA, a, b, c); }
inline bool isnan(SymR a) { return symt::oracle().ask(symt::mk(symt::C_ISNAN, a.id)); }
inline bool isinf(SymR a) { return symt::oracle().ask(symt::mk(symt::C_ISINF, a.id)); }
// std::fmin / std::fmax (C99: a NaN operand is treated as missing data).  glm imports them with `using std::fmin` and passes
// them by address to its vector functors, so the symbolic overload has to be a real function in namespace std.
inline SymR fmin(SymR a, SymR b) { if (isnan(a)) return b; if (isnan(b)) return a; return (b < a) ? b : a; }
inline SymR fmax(SymR a, SymR b) { if (isnan(a)) return b; if (isnan(b)) return a; return (a < b) ? b : a; }
}

namespace symt {

// ---------------------------------------------------------------- units
struct Path { std::vector<std::pair<uint32_t, bool>> trail; std::vector<uint32_t> outs; };

struct TreeNode { bool leaf; uint32_t id; int t, f; };   // id = expr node (leaf) or cond node (branch)

struct Traced {
  std::string name; int nin, nout; Ty ty;
  std::vector<Path> paths;
  bool ok = true; std::string err;
};

// fill the stack below the call with 0xFF so that an object glm leaves uninitialised holds an invalid
// handle (0xFFFFFFFF) rather than a stale valid one; best effort, the unit TUs are compiled at -O0
__attribute__((noinline)) inline void poison_stack() { volatile unsigned char buf[1 << 17]; for (size_t i = 0; i < sizeof buf; ++i) buf[i] = 0xFF; }

template<class S> struct sym_ty { static constexpr Ty value = T_R; };
template<> struct sym_ty<SymI32> { static constexpr Ty value = T_I32; };
template<> struct sym_ty<SymU32> { static constexpr Ty value = T_U32; };
template<class S> S sym_zero() { return S(0); }

template<class S = SymR, class F>
Traced trace_unit(std::string const& name, int nin, int nout, F&& f, size_t max_paths = 4096) {
  Traced tr; tr.name = name; tr.nin = nin; tr.nout = nout; tr.ty = sym_ty<S>::value;
  std::vector<S> in(nin), out(nout);
  for (int i = 0; i < nin; ++i) in[i] = S::var(i);
  mk_lit(0.0);                                     // node ids start above the inputs
  Oracle& o = oracle();
  o.decisions.clear(); o.overflow = false;
  for (;;) {
    o.pos = 0; o.trail.clear();
    for (int j = 0; j < nout; ++j) out[j] = sym_zero<S>();
    bad_handle() = false;
    poison_stack();
    f((S const*)in.data(), out.data());
    Path p; p.trail = o.trail;
    for (int j = 0; j < nout; ++j) p.outs.push_back(chk(out[j].id));
    if (bad_handle()) { tr.ok = false; tr.err = "uninitialised value read (a result depends on an object glm never wrote)"; tr.paths.push_back(std::move(p)); break; }
    tr.paths.push_back(std::move(p));
    if (o.overflow) { tr.ok = false; tr.err = "decision depth cap"; break; }
    if (tr.paths.size() > max_paths) { tr.ok = false; tr.err = "path cap"; break; }
    o.decisions.resize(o.pos);
    while (!o.decisions.empty() && !o.decisions.back()) o.decisions.pop_back();
    if (o.decisions.empty()) break;
    o.decisions.back() = 0;
  }
  return tr;
}

// build the per-component decision tree from the DFS-ordered path list
struct TreeBuilder {
  std::vector<TreeNode> nodes;
  std::map<std::tuple<bool, uint32_t, int, int>, int> cons;
  int mkleaf(uint32_t e) { return intern({true, e, -1, -1}); }
  int mkbranch(uint32_t c, int t, int f) { if (t == f) return t; return intern({false, c, t, f}); }
  int intern(TreeNode n) {
    auto key = std::make_tuple(n.leaf, n.id, n.t, n.f);
    auto it = cons.find(key); if (it != cons.end()) return it->second;
    nodes.push_back(n); cons[key] = (int)nodes.size() - 1; return (int)nodes.size() - 1;
  }
  // paths[lo,hi) share the first `depth` decisions
  int build(std::vector<Path> const& ps, size_t lo, size_t hi, size_t depth, int comp) {
    if (hi - lo == 1 && ps[lo].trail.size() == depth) return mkleaf(ps[lo].outs[comp]);
    uint32_t c = ps[lo].trail[depth].first;
    size_t mid = lo;
    while (mid < hi && ps[mid].trail[depth].second) ++mid;   // DFS visits `true` first
    int t = build(ps, lo, mid, depth + 1, comp);
    int f = build(ps, mid, hi, depth + 1, comp);
    return mkbranch(c, t, f);
  }
};

inline void collect(uint32_t id, std::set<uint32_t>& seen) {
  if (!seen.insert(id).second) return;
  Node const& n = arena().nodes[id];
  switch (n.op) {
    case VAR: case LIT: case LITI: case KONST: break;
    case NEG: case CALL1: case BNOT: case CAST: case C_ISNAN: case C_ISINF: case C_NOT: collect(n.a, seen); break;
    case CALL3: collect(n.a, seen); collect(n.b, seen); collect(n.c, seen); break;
    default: collect(n.a, seen); collect(n.b, seen);
  }
}

// exact rational of a double: m * 2^e  -> "n d" with d a power of two (or n*2^e, d=1)
inline void print_lit(FILE* fp, double d) {
  if (d == 0.0) { fprintf(fp, "0 1"); return; }
  if (std::isnan(d) || std::isinf(d)) { fprintf(stderr, "non-finite literal\n"); exit(3); }
  int e; double m = std::frexp(d, &e);          // d = m * 2^e, 0.5 <= |m| < 1
  long long mi = (long long)std::ldexp(m, 53); e -= 53;
  while (mi % 2 == 0 && mi != 0) { mi /= 2; ++e; }
  // print n and d as decimal strings via python-free big arithmetic: e in [-1100, 1100]
  // n = mi * 2^max(e,0), d = 2^max(-e,0); emitted as "mi<<e" tokens and resolved by the readers
  fprintf(fp, "%lld %d", mi, e);
}

inline void emit(FILE* fp, Traced const& tr) {
  fprintf(fp, "U %s %s %d %d %d\n", tr.name.c_str(), ty_name[tr.ty], tr.nin, tr.nout, (int)tr.paths.size());
  if (!tr.ok) { fprintf(fp, "X %s\nE\n", tr.err.c_str()); return; }
  std::vector<TreeBuilder> tbs(tr.nout); std::vector<int> roots(tr.nout);
  std::set<uint32_t> seen;
  for (int j = 0; j < tr.nout; ++j) {
    roots[j] = tbs[j].build(tr.paths, 0, tr.paths.size(), 0, j);
    // only nodes reachable from the projected tree
    std::function<void(int)> walk = [&](int t) {
      TreeNode const& n = tbs[j].nodes[t];
      collect(n.id, seen);
      if (!n.leaf) { walk(n.t); walk(n.f); }
    };
    walk(roots[j]);
  }
  for (uint32_t id : seen) {                      // std::set: ascending = topological
    Node const& n = arena().nodes[id];
    switch (n.op) {
      case VAR: fprintf(fp, "N %u var %u\n", id, n.a); break;
      case LIT: fprintf(fp, "N %u lit ", id); print_lit(fp, n.d); fprintf(fp, "\n"); break;
      case LITI: if (n.sub) fprintf(fp, "N %u liti %llu\n", id, (unsigned long long)n.i); else fprintf(fp, "N %u liti %lld\n", id, (long long)n.i); break;
      case KONST: fprintf(fp, "N %u konst %s\n", id, konst_name[n.sub]); break;
      case ADD: fprintf(fp, "N %u add %u %u\n", id, n.a, n.b); break;
      case SUB: fprintf(fp, "N %u sub %u %u\n", id, n.a, n.b); break;
      case MUL: fprintf(fp, "N %u mul %u %u\n", id, n.a, n.b); break;
      case DIV: fprintf(fp, "N %u div %u %u\n", id, n.a, n.b); break;
      case NEG: fprintf(fp, "N %u neg %u\n", id, n.a); break;
      case CALL1: fprintf(fp, "N %u call1 %s %u\n", id, fn_name[n.sub], n.a); break;
      case CALL2: fprintf(fp, "N %u call2 %s %u %u\n", id, fn_name[n.sub], n.a, n.b); break;
      case CALL3: fprintf(fp, "N %u call3 %s %u %u %u\n", id, fn_name[n.sub], n.a, n.b, n.c); break;
      case BAND: fprintf(fp, "N %u band %u %u\n", id, n.a, n.b); break;
      case BOR: fprintf(fp, "N %u bor %u %u\n", id, n.a, n.b); break;
      case BXOR: fprintf(fp, "N %u bxor %u %u\n", id, n.a, n.b); break;
      case BNOT: fprintf(fp, "N %u bnot %u\n", id, n.a); break;
      case SHL: fprintf(fp, "N %u shl %u %u\n", id, n.a, n.b); break;
      case SHR: fprintf(fp, "N %u shr %u %u\n", id, n.a, n.b); break;
      case IMOD: fprintf(fp, "N %u imod %u %u\n", id, n.a, n.b); break;
      case CAST: fprintf(fp, "N %u cast %s %u\n", id, ty_name[n.sub], n.a); break;
      case C_LT: fprintf(fp, "C %u lt %u %u\n", id, n.a, n.b); break;
      case C_LE: fprintf(fp, "C %u le %u %u\n", id, n.a, n.b); break;
      case C_EQ: fprintf(fp, "C %u eq %u %u\n", id, n.a, n.b); break;
      case C_ISNAN: fprintf(fp, "C %u isnan %u\n", id, n.a); break;
      case C_ISINF: fprintf(fp, "C %u isinf %u\n", id, n.a); break;
      case C_NOT: fprintf(fp, "C %u not %u\n", id, n.a); break;
      case C_AND: fprintf(fp, "C %u and %u %u\n", id, n.a, n.b); break;
      case C_OR: fprintf(fp, "C %u or %u %u\n", id, n.a, n.b); break;
    }
  }
  for (int j = 0; j < tr.nout; ++j) {
    fprintf(fp, "T %d", j);
    std::function<void(int)> pr = [&](int t) {
      TreeNode const& n = tbs[j].nodes[t];
      if (n.leaf) fprintf(fp, " L %u", n.id);
      else { fprintf(fp, " B %u", n.id); pr(n.t); pr(n.f); }
    };
    pr(roots[j]); fprintf(fp, "\n");
  }
  fprintf(fp, "E\n");
}

// ---------------------------------------------------------------- registry: the same generic
// callable is instantiated at SymR (trace) and at float/double (correspondence)
struct UnitRec {
  std::string name; int nin, nout;
  Ty ty = T_R;                                        // T_R: real unit (float+double); T_I32 / T_U32: integer unit
  std::function<void(SymR const*, SymR*)> fsym;
  std::function<void(float const*, float*)> f32;
  std::function<void(double const*, double*)> f64;
  std::function<void(SymI32 const*, SymI32*)> fsymi;  std::function<void(int32_t const*, int32_t*)> fi32;
  std::function<void(SymU32 const*, SymU32*)> fsymu;  std::function<void(uint32_t const*, uint32_t*)> fu32;
};
inline std::vector<UnitRec>& registry() { static std::vector<UnitRec> r; return r; }

template<class F>
void add_unit(std::string const& name, int nin, int nout, F f) {
  UnitRec u; u.name = name; u.nin = nin; u.nout = nout;
  u.fsym = [f](SymR const* x, SymR* o) { f(x, o); };
  u.f32 = [f](float const* x, float* o) { f(x, o); };
  u.f64 = [f](double const* x, double* o) { f(x, o); };
  registry().push_back(std::move(u));
}

// light variant (many tiny units, e.g. swizzles): symbolic + float only
template<class F>
void add_unit_lite(std::string const& name, int nin, int nout, F f) {
  UnitRec u; u.name = name; u.nin = nin; u.nout = nout;
  u.fsym = [f](SymR const* x, SymR* o) { f(x, o); };
  u.f32 = [f](float const* x, float* o) { f(x, o); };
  registry().push_back(std::move(u));
}

// integer units: the same generic callable at SymI32 / int32_t (signed) or SymU32 / uint32_t
template<class F> void add_unit_i32(std::string const& name, int nin, int nout, F f) {
  UnitRec u; u.name = name; u.nin = nin; u.nout = nout; u.ty = T_I32;
  u.fsymi = [f](SymI32 const* x, SymI32* o) { f(x, o); }; u.fi32 = [f](int32_t const* x, int32_t* o) { f(x, o); };
  registry().push_back(std::move(u));
}
template<class F> void add_unit_u32(std::string const& name, int nin, int nout, F f) {
  UnitRec u; u.name = name; u.nin = nin; u.nout = nout; u.ty = T_U32;
  u.fsymu = [f](SymU32 const* x, SymU32* o) { f(x, o); }; u.fu32 = [f](uint32_t const* x, uint32_t* o) { f(x, o); };
  registry().push_back(std::move(u));
}

// xoshiro256** — all random choices derive from VERIF_SEED
struct Rng {
  uint64_t s[4];
  explicit Rng(uint64_t seed) { uint64_t z = seed + 0x9E3779B97F4A7C15ull; for (int i = 0; i < 4; ++i) { z += 0x9E3779B97F4A7C15ull; uint64_t x = z; x = (x ^ (x >> 30)) * 0xBF58476D1CE4E5B9ull; x = (x ^ (x >> 27)) * 0x94D049BB133111EBull; s[i] = x ^ (x >> 31); } }
  static uint64_t rotl(uint64_t x, int k) { return (x << k) | (x >> (64 - k)); }
  uint64_t next() { uint64_t r = rotl(s[1] * 5, 7) * 9, t = s[1] << 17; s[2] ^= s[0]; s[3] ^= s[1]; s[1] ^= s[2]; s[0] ^= s[3]; s[2] ^= t; s[3] = rotl(s[3], 45); return r; }
  double unit() { return (next() >> 11) * (1.0 / 9007199254740992.0); }
};

// input classes for the T1 correspondence (translation validation of the tracer):
//  0: small integers  1: uniform [-4,4]  2: wide magnitudes  3: special-value lattice
template<class T> T gen_value(Rng& r, int cls) {
  switch (cls) {
    case 0: return (T)((int)(r.next() % 17) - 8);
    case 1: return (T)(r.unit() * 8.0 - 4.0);
    case 2: { double m = r.unit() * 2 - 1; int e = (int)(r.next() % 41) - 20; return (T)std::ldexp(m, e); }
    default: {
      static const double sp[] = {0.0, -0.0, 1.0, -1.0, 0.5, -0.5, 2.0, 1.5, -2.5, 1e-30, -1e-30, 1e30, -1e30,
        8388608.0, 16777216.0, 2147483648.0, 3.4028234e38, -3.4028234e38, 1.17549435e-38, 1e-45,
        (double)INFINITY, -(double)INFINITY, (double)NAN};
      // C20 replay (VERIF_FLOAT_MODERATE): finite values of moderate magnitude only — the documented domains of functions that
      // convert to an integer (hue sectors, rounding helpers) do not contain 1e30, infinities or NaN
      static const bool moderate = getenv("VERIF_FLOAT_MODERATE") != nullptr;
      if (moderate) { static const double ms[] = {0.0, -0.0, 1.0, -1.0, 0.5, -0.5, 2.0, 1.5, -2.5, 1e-30, -1e-30, 8388608.0, 16777216.0, 360.0, 255.0};
                      return (T)ms[r.next() % (sizeof(ms) / sizeof(ms[0]))]; }
      return (T)sp[r.next() % (sizeof(sp) / sizeof(sp[0]))];
    }
  }
}

// integer inputs: 0: small  1: boundary patterns  2: random 32-bit
template<class T> T gen_int(Rng& r, int cls) {
  switch (cls) {
    case 0: return (T)((int)(r.next() % 33) - 16);
    case 1: { static const uint32_t sp[] = {0u, 1u, 2u, 0x7fu, 0x80u, 0xffu, 0x100u, 0x7fffu, 0x8000u, 0xffffu, 0x10000u, 0x7fffffffu, 0x80000000u, 0x80000001u, 0xfffffffeu, 0xffffffffu, 0x55555555u, 0xaaaaaaaau};
              return (T)sp[r.next() % (sizeof(sp) / sizeof(sp[0]))]; }
    default: return (T)(uint32_t)r.next();
  }
}
template<class T> void put_bits(FILE* fp, T v);
template<> inline void put_bits<int32_t>(FILE* fp, int32_t v) { fprintf(fp, " %u", (uint32_t)v); }
template<> inline void put_bits<uint32_t>(FILE* fp, uint32_t v) { fprintf(fp, " %u", v); }
template<class T, class FN>
void run_concrete_int(FILE* fp, UnitRec const& u, FN const& fn, const char* tyname, uint64_t seed, int count) {
  Rng r(seed ^ std::hash<std::string>()(u.name));
  std::vector<T> in(u.nin), out(u.nout);
  for (int k = 0; k < count; ++k) {
    int cls = k % 4 < 2 ? 0 : (k % 4 == 2 ? 1 : 2);
    if (getenv("VERIF_INT_SMALL")) cls = 0;          // C20 replay: stay inside the colour-depth / no-overflow domain
    for (int i = 0; i < u.nin; ++i) in[i] = gen_int<T>(r, cls);
    // integer division: a zero divisor (and INT_MIN % -1) is outside the operator's domain and traps on x86
    if (u.name.find("_mod_") != std::string::npos) for (int i = 0; i < u.nin; ++i) if (in[i] == T(0) || in[i] == T(-1)) in[i] = T(7);
    // shifts: under the sanitizers (C20 replay) stay inside the operator's domain - a non-negative count below the width, a non-negative left operand
    if (getenv("VERIF_INT_SMALL") && (u.name.find("_shl_") != std::string::npos || u.name.find("_shr_") != std::string::npos)) for (int i = 0; i < u.nin; ++i) in[i] = (T)((uint32_t)in[i] & 15u);
    for (int j = 0; j < u.nout; ++j) out[j] = T(0);
    if (echo_inputs()) { fprintf(stderr, "ECHO %s %s", u.name.c_str(), tyname); for (int i = 0; i < u.nin; ++i) put_bits<T>(stderr, in[i]); fprintf(stderr, "\n"); fflush(stderr); }
    fn(in.data(), out.data());
    fprintf(fp, "R %s %s", u.name.c_str(), tyname);
    for (int i = 0; i < u.nin; ++i) put_bits<T>(fp, in[i]);
    fprintf(fp, " ->");
    for (int j = 0; j < u.nout; ++j) put_bits<T>(fp, out[j]);
    fprintf(fp, "\n");
  }
}
template<> inline void put_bits<float>(FILE* fp, float v) { uint32_t b; std::memcpy(&b, &v, 4); fprintf(fp, " %u", b); }
template<> inline void put_bits<double>(FILE* fp, double v) { uint64_t b; std::memcpy(&b, &v, 8); fprintf(fp, " %llu", (unsigned long long)b); }

template<class T, class FN>
void run_concrete(FILE* fp, UnitRec const& u, FN const& fn, const char* tyname, uint64_t seed, int count) {
  Rng r(seed ^ std::hash<std::string>()(u.name));
  std::vector<T> in(u.nin), out(u.nout);
  for (int k = 0; k < count; ++k) {
    int cls = k % 8 < 3 ? 0 : (k % 8 < 6 ? 1 : (k % 8 == 6 ? 2 : 3));
    for (int i = 0; i < u.nin; ++i) in[i] = gen_value<T>(r, cls);
    for (int j = 0; j < u.nout; ++j) out[j] = T(0);
    if (echo_inputs()) { fprintf(stderr, "ECHO %s %s", u.name.c_str(), tyname); for (int i = 0; i < u.nin; ++i) put_bits<T>(stderr, in[i]); fprintf(stderr, "\n"); fflush(stderr); }
    fn(in.data(), out.data());
    fprintf(fp, "R %s %s", u.name.c_str(), tyname);
    for (int i = 0; i < u.nin; ++i) put_bits<T>(fp, in[i]);
    fprintf(fp, " ->");
    for (int j = 0; j < u.nout; ++j) put_bits<T>(fp, out[j]);
    fprintf(fp, "\n");
  }
}

// ---------------------------------------------------------------- numeric property exploration
// Clauses of a property that have no theorem yet are at least *searched*: a generic callable computes, at
// float and double, a residual that the property says is (numerically) zero; inputs are seeded random numbers
// which the callable maps into its documented domain (it returns a negative value to skip an input).
// This is exploration in support of the proof machinery (it finds failing inputs), never a substitute for it.
struct PropRec {
  std::string name; int nin; double tol32, tol64;
  std::function<float(float const*)> f32; std::function<double(double const*)> f64;
};
inline std::vector<PropRec>& prop_registry() { static std::vector<PropRec> r; return r; }
template<class F> void add_prop(std::string const& name, int nin, double tol32, double tol64, F f) {
  PropRec p; p.name = name; p.nin = nin; p.tol32 = tol32; p.tol64 = tol64;
  p.f32 = [f](float const* x) { return f(x); }; p.f64 = [f](double const* x) { return f(x); };
  prop_registry().push_back(std::move(p));
}
template<class T, class FN> void run_prop(FILE* fp, PropRec const& p, FN const& fn, const char* ty, double tol, uint64_t seed, int count, long& evals, long& fails) {
  Rng r(seed ^ std::hash<std::string>()(p.name));
  std::vector<T> in(p.nin);
  long shown = 0;                                  // failing inputs printed per property and type (not per run: every failing property must be named)
  for (int k = 0; k < count; ++k) {
    // raw numbers: mostly uniform in [-2,2]; every 4th input vector mirrors its first half into the second
    // (parallel / antiparallel / repeated arguments), every 7th uses small integers
    for (int i = 0; i < p.nin; ++i) in[i] = (k % 7 == 6) ? (T)((int)(r.next() % 7) - 3) : (T)(r.unit() * 4.0 - 2.0);
    if (k % 4 == 3 && p.nin >= 2) { int h = p.nin / 2; T sc = (k % 8 == 3) ? (T)-1 : ((k % 16 == 7) ? (T)1 : (T)(-(r.unit() * 2.0 + 0.25)));
      for (int i = 0; i < h; ++i) in[h + i] = sc * in[i]; }
    if (echo_inputs()) { fprintf(stderr, "ECHO %s %s", p.name.c_str(), ty); for (int i = 0; i < p.nin; ++i) fprintf(stderr, " %.17g", (double)in[i]); fprintf(stderr, "\n"); fflush(stderr); }
    T res = fn(in.data());
    if (res < T(0)) continue;                     // outside the documented domain
    ++evals;
    if (!(res <= (T)tol)) {                       // also catches NaN
      ++fails;
      if (++shown <= 3) { fprintf(fp, "PROPFAIL %s %s residual %g tol %g in", p.name.c_str(), ty, (double)res, tol);
        for (int i = 0; i < p.nin; ++i) fprintf(fp, " %.17g", (double)in[i]); fprintf(fp, "\n"); }
    }
  }
}

// main of every unit TU:  prog trace | prog run <seed> <count>
inline int unit_main(int argc, char** argv) {
  if (argc >= 2 && !strcmp(argv[1], "trace")) {
    for (auto const& u : registry()) {
      arena().clear();
      Traced tr = u.ty == T_I32 ? trace_unit<SymI32>(u.name, u.nin, u.nout, u.fsymi)
                : u.ty == T_U32 ? trace_unit<SymU32>(u.name, u.nin, u.nout, u.fsymu)
                : trace_unit<SymR>(u.name, u.nin, u.nout, u.fsym);
      emit(stdout, tr);
    }
    return 0;
  }
  if (argc >= 4 && !strcmp(argv[1], "run")) {
    uint64_t seed = strtoull(argv[2], 0, 10); int count = atoi(argv[3]);
    for (auto const& u : registry()) {
      if (u.ty == T_I32) { run_concrete_int<int32_t>(stdout, u, u.fi32, "i32", seed, count); continue; }
      if (u.ty == T_U32) { run_concrete_int<uint32_t>(stdout, u, u.fu32, "u32", seed, count); continue; }
      if (u.f32) run_concrete<float>(stdout, u, u.f32, "f32", seed, count);   // (double-only units: C10 aligned configuration)
      if (u.f64) run_concrete<double>(stdout, u, u.f64, "f64", seed, count);
    }
    return 0;
  }
  if (argc >= 4 && !strcmp(argv[1], "eval")) {   // eval <unit> <f32|f64> <input bit patterns…>  (replay on the real glm)
    for (auto const& u : registry()) if (u.name == argv[2]) {
      if (argc - 4 != u.nin) { fprintf(stderr, "eval: %s needs %d inputs\n", argv[2], u.nin); return 2; }
      if (u.ty == T_I32 || u.ty == T_U32) {
        std::vector<uint32_t> in(u.nin), out(u.nout);
        for (int i = 0; i < u.nin; ++i) in[i] = (uint32_t)strtoull(argv[4 + i], 0, 10);
        if (u.ty == T_I32) u.fi32((int32_t const*)in.data(), (int32_t*)out.data()); else u.fu32(in.data(), out.data());
        for (int j = 0; j < u.nout; ++j) printf(" %u", out[j]);
      } else if (!strcmp(argv[3], "f32") && u.f32) {
        std::vector<float> in(u.nin), out(u.nout);
        for (int i = 0; i < u.nin; ++i) { uint32_t b = (uint32_t)strtoull(argv[4 + i], 0, 10); std::memcpy(&in[i], &b, 4); }
        u.f32(in.data(), out.data());
        for (int j = 0; j < u.nout; ++j) put_bits<float>(stdout, out[j]);
      } else if (!u.f64) {       // light unit (float instance only): evaluate at float, report the results as doubles
        std::vector<float> in(u.nin), out(u.nout);
        for (int i = 0; i < u.nin; ++i) { uint64_t b = strtoull(argv[4 + i], 0, 10); double d; std::memcpy(&d, &b, 8); in[i] = (float)d; }
        u.f32(in.data(), out.data());
        for (int j = 0; j < u.nout; ++j) put_bits<double>(stdout, (double)out[j]);
      } else {
        std::vector<double> in(u.nin), out(u.nout);
        for (int i = 0; i < u.nin; ++i) { uint64_t b = strtoull(argv[4 + i], 0, 10); std::memcpy(&in[i], &b, 8); }
        u.f64(in.data(), out.data());
        for (int j = 0; j < u.nout; ++j) put_bits<double>(stdout, out[j]);
      }
      printf("\n"); return 0;
    }
    fprintf(stderr, "eval: no unit %s\n", argv[2]); return 2;
  }
  if (argc >= 4 && !strcmp(argv[1], "props")) {
    uint64_t seed = strtoull(argv[2], 0, 10); int count = atoi(argv[3]); long evals = 0, fails = 0;
    for (auto const& p : prop_registry()) {
      run_prop<float>(stdout, p, p.f32, "f32", p.tol32, seed, count, evals, fails);
      run_prop<double>(stdout, p, p.f64, "f64", p.tol64, seed, count, evals, fails);
    }
    printf("PROPS props=%d evaluated=%ld failed=%ld\n", (int)prop_registry().size(), evals, fails);
    return 0;
  }
  if (argc >= 2 && !strcmp(argv[1], "list")) { for (auto const& u : registry()) printf("%s %d %d\n", u.name.c_str(), u.nin, u.nout); return 0; }
  fprintf(stderr, "usage: %s trace | run <seed> <count> | list\n", argv[0]); return 2;
}

} // namespace symt
