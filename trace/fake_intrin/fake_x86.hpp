// Shadow of <mmintrin.h> … <immintrin.h> for the C03 tracing TU.
//
// Include AFTER every standard header the TU needs and after sym.hpp, BEFORE any glm header.  It
//   * blocks GCC's real intrinsic headers through their include guards,
//   * sets the architecture macros glm's simd/platform.h (and type_vec_simd.inl: __SSE4_1__) look at according to
//     -DISA=<n>:  0 SSE2, 1 SSE3, 2 SSSE3, 3 SSE4.1, 4 SSE4.2, 5 AVX, 6 AVX2, 7 AVX2 + GLM_FORCE_FMA,
//   * declares __m128 / __m128i / __m128d / __m256d / __m256i and every _mm_* / _mm256_* function glm uses as
//     forwarding one-liners to fki::isa<SymPolicy> (fake_core.hpp); the name is pasted by the macro, so a wrapper
//     cannot forward to a different function than the one the check program validated.
#pragma once
#include "policy_sym.hpp"

#ifndef ISA
#define ISA 0
#endif

#define _MMINTRIN_H_INCLUDED
#define _XMMINTRIN_H_INCLUDED
#define _EMMINTRIN_H_INCLUDED
#define _PMMINTRIN_H_INCLUDED
#define _TMMINTRIN_H_INCLUDED
#define _SMMINTRIN_H_INCLUDED
#define _NMMINTRIN_H_INCLUDED
#define _IMMINTRIN_H_INCLUDED
#define _POPCNTINTRIN_H_INCLUDED
#define _X86INTRIN_H_INCLUDED
#define _X86GPRINTRIN_H_INCLUDED
#define _WMMINTRIN_H_INCLUDED
#define _AMMINTRIN_H_INCLUDED
#define _MM_MALLOC_H_INCLUDED

#undef __SSE3__
#undef __SSSE3__
#undef __SSE4_1__
#undef __SSE4_2__
#undef __POPCNT__
#undef __AVX__
#undef __AVX2__
#undef __FMA__
#undef __AVX512F__
#ifndef __SSE__
#define __SSE__ 1
#endif
#ifndef __SSE2__
#define __SSE2__ 1
#endif
#if ISA >= 1
#define __SSE3__ 1
#endif
#if ISA >= 2
#define __SSSE3__ 1
#endif
#if ISA >= 3
#define __SSE4_1__ 1
#endif
#if ISA >= 4
#define __SSE4_2__ 1
#define __POPCNT__ 1
#endif
#if ISA >= 5
#define __AVX__ 1
#endif
#if ISA >= 6
#define __AVX2__ 1
#endif
#if ISA >= 7
#define __FMA__ 1
#define GLM_FORCE_FMA
#endif

#define _MM_SHUFFLE(z, y, x, w) (((z) << 6) | ((y) << 4) | ((x) << 2) | (w))
#define _MM_FROUND_TO_NEAREST_INT 0x00
#define _MM_FROUND_TO_NEG_INF 0x01
#define _MM_FROUND_TO_POS_INF 0x02
#define _MM_FROUND_TO_ZERO 0x03
#define _MM_FROUND_CUR_DIRECTION 0x04
#define _MM_FROUND_RAISE_EXC 0x00
#define _MM_FROUND_NO_EXC 0x08

typedef fki::isa<fki::SymPolicy> FK;
typedef FK::m128 __m128;
typedef FK::m128i __m128i;
typedef FK::m128d __m128d;
typedef FK::m256d __m256d;
typedef FK::m256i __m256i;
static_assert(sizeof(__m128) == 16 && alignof(__m128) == 16 && sizeof(__m128i) == 16 && sizeof(__m128d) == 16 && sizeof(__m256d) == 32, "register sizes");
static_assert(std::is_trivially_default_constructible<__m128>::value && std::is_trivially_copyable<__m128>::value, "__m128 lives in glm's unions");

typedef FK::R fk_float;    // == SymR; spelled this way because the TU later does `#define float SymR`
typedef FK::D fk_double;

#define FKI_COUNT ++fki::SymPolicy::calls();
#include "fake_wrappers.inc"
