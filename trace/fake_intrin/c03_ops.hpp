// C03 operation table: ONE definition of every operation, used by
//   trace/units/C03.cpp   (scalar = SymR / SymI32 / SymU32, intrinsics = fake)   -> units pure_<op>, simd_<op>_<isa>, kern_<fn>_<isa>
//   diff/C03.cpp          (scalar = float / int / unsigned, intrinsics = real)   -> lines  <op> …, kern_<fn> …
// so that a unit and a harness line of the same name are the same glm call on the same variable layout:
//   vec<L> = L consecutive values; mat = column-major; qua = (w, x, y, z) by name; a register = 4 consecutive values.
//
// `R` (the registrar) supplies:
//   types   R::F (float scalar), R::D (double scalar), R::I / R::U (scalars of the integer I/O arrays)
//   r.fam<S>(op, nin, nout, f)    f(S const* x, S* o, QT<Q>), S = F or D;  registered at packed_highp (pure) and aligned_highp (simd)
//   r.fam_q(op, …)                additionally `<op>_mediump`, `<op>_lowp`
//   r.simd_only(op, nin, nout, Q, f)   only the aligned variant (the packed one is not expressible / not traceable)
//   r.kern(fn, nin, nout, f)      f(F const* x, F* o)          direct call of a glm/simd/*.h kernel   (SIMD builds only)
//   r.lit_fam<S, A>(op, nargs, nout, f)   f(A const* a, S* o, QT<Q>), A = int or unsigned: a constructor taking C++ integers.
//                                 tracer: a unit with NO inputs, evaluated at c03::C03_LIT; harness: one line at C03_LIT, then seeded
//   r.ifam / r.ufam(op, …)        f(I const* x, I* o, QT<Q>)   integer vec4 (int / unsigned)
//   R::iarg<Q>(x)                 the C++ int / unsigned a constructor of an integer vector receives for input x;  R::sti<L>(o, v)
//   r.ikern / r.ukern(fn, …)
//   R::ldi<Q>(x) / R::ldu<Q>(x)   load an integer vec4 of qualifier Q;  R::template sti<4>(o, v) store it;  R::ldki / R::stki registers
#pragma once
#include <string>

// compute_fma<4,double,Q,true> uses _mm256_fmadd_pd whenever the AVX2 bit is set, i.e. also under -mavx2 without -mfma,
// where it does not compile (nor do aligned dmat3*dmat3 / dmat4*dmat4, which call glm::fma); the tracer (C03_TRACING)
// records what glm would execute
#if !(GLM_ARCH & GLM_ARCH_AVX2_BIT) || defined(__FMA__) || defined(C03_TRACING)
#  define C03_DFMA_OK 1
#else
#  define C03_DFMA_OK 0
#endif

namespace c03 {
using glm::qualifier;
template<qualifier Q> struct QT { static constexpr qualifier value = Q; };
#define C03_Q constexpr glm::qualifier Q = std::decay<decltype(q)>::type::value

template<class F, int L, qualifier Q> struct LD;
template<class F, qualifier Q> struct LD<F, 4, Q> { static glm::vec<4, F, Q> get(F const* x) { return glm::vec<4, F, Q>(x[0], x[1], x[2], x[3]); } };
template<class F, qualifier Q> struct LD<F, 3, Q> { static glm::vec<3, F, Q> get(F const* x) { return glm::vec<3, F, Q>(x[0], x[1], x[2]); } };
template<int L, qualifier Q, class F> glm::vec<L, F, Q> ld(F const* x) { return LD<F, L, Q>::get(x); }
template<int L, qualifier Q, class F> void st(F* o, glm::vec<L, F, Q> const& v) { for (int i = 0; i < L; ++i) o[i] = v[i]; }
template<qualifier Q, class F> glm::mat<4, 4, F, Q> ldm4(F const* x) { return glm::mat<4, 4, F, Q>(ld<4, Q>(x), ld<4, Q>(x + 4), ld<4, Q>(x + 8), ld<4, Q>(x + 12)); }
template<qualifier Q, class F> void stm4(F* o, glm::mat<4, 4, F, Q> const& m) { for (int c = 0; c < 4; ++c) for (int r = 0; r < 4; ++r) o[c * 4 + r] = m[c][r]; }
template<qualifier Q, class F> glm::mat<3, 3, F, Q> ldm3(F const* x) { return glm::mat<3, 3, F, Q>(ld<3, Q>(x), ld<3, Q>(x + 3), ld<3, Q>(x + 6)); }
template<qualifier Q, class F> void stm3(F* o, glm::mat<3, 3, F, Q> const& m) { for (int c = 0; c < 3; ++c) for (int r = 0; r < 3; ++r) o[c * 3 + r] = m[c][r]; }
template<qualifier Q, class F> glm::qua<F, Q> ldq(F const* x) { return glm::qua<F, Q>::wxyz(x[0], x[1], x[2], x[3]); }
template<qualifier Q, class F> void stq(F* o, glm::qua<F, Q> const& q) { o[0] = q.w; o[1] = q.x; o[2] = q.y; o[3] = q.z; }

#if GLM_ARCH & GLM_ARCH_SSE2_BIT
template<class F> __m128 ldk(F const* x) { return _mm_set_ps(x[3], x[2], x[1], x[0]); }
template<class F> void stk(F* o, __m128 v) { _mm_storeu_ps(o, v); }
template<class F> void ldk4(F const* x, __m128* m) { for (int c = 0; c < 4; ++c) m[c] = ldk(x + 4 * c); }
template<class F> void stk4(F* o, __m128 const* m) { for (int c = 0; c < 4; ++c) stk(o + 4 * c, m[c]); }
#endif

template<int L, class F, class R> void vec_arith(R& r, std::string const& pre = "") {
  std::string s = L == 4 ? "" : "3";
  r.template fam_q<F>(pre + "add" + s, 2 * L, L, [](F const* x, F* o, auto q) { C03_Q; st<L, Q>(o, ld<L, Q>(x) + ld<L, Q>(x + L)); });
  r.template fam_q<F>(pre + "sub" + s, 2 * L, L, [](F const* x, F* o, auto q) { C03_Q; st<L, Q>(o, ld<L, Q>(x) - ld<L, Q>(x + L)); });
  r.template fam_q<F>(pre + "mul" + s, 2 * L, L, [](F const* x, F* o, auto q) { C03_Q; st<L, Q>(o, ld<L, Q>(x) * ld<L, Q>(x + L)); });
  r.template fam_q<F>(pre + "div" + s, 2 * L, L, [](F const* x, F* o, auto q) { C03_Q; st<L, Q>(o, ld<L, Q>(x) / ld<L, Q>(x + L)); });
  r.template fam_q<F>(pre + "adds" + s, L + 1, L, [](F const* x, F* o, auto q) { C03_Q; st<L, Q>(o, ld<L, Q>(x) + x[L]); });
  r.template fam_q<F>(pre + "subs" + s, L + 1, L, [](F const* x, F* o, auto q) { C03_Q; st<L, Q>(o, ld<L, Q>(x) - x[L]); });
  r.template fam_q<F>(pre + "muls" + s, L + 1, L, [](F const* x, F* o, auto q) { C03_Q; st<L, Q>(o, ld<L, Q>(x) * x[L]); });
  r.template fam_q<F>(pre + "divs" + s, L + 1, L, [](F const* x, F* o, auto q) { C03_Q; st<L, Q>(o, ld<L, Q>(x) / x[L]); });
  r.template fam<F>(pre + "sadd" + s, L + 1, L, [](F const* x, F* o, auto q) { C03_Q; st<L, Q>(o, x[L] + ld<L, Q>(x)); });
  r.template fam<F>(pre + "ssub" + s, L + 1, L, [](F const* x, F* o, auto q) { C03_Q; st<L, Q>(o, x[L] - ld<L, Q>(x)); });
  r.template fam<F>(pre + "smul" + s, L + 1, L, [](F const* x, F* o, auto q) { C03_Q; st<L, Q>(o, x[L] * ld<L, Q>(x)); });
  r.template fam_q<F>(pre + "sdiv" + s, L + 1, L, [](F const* x, F* o, auto q) { C03_Q; st<L, Q>(o, x[L] / ld<L, Q>(x)); });
  r.template fam<F>(pre + "neg" + s, L, L, [](F const* x, F* o, auto q) { C03_Q; st<L, Q>(o, -ld<L, Q>(x)); });
  r.template fam<F>(pre + "eq" + s, 2 * L, 1, [](F const* x, F* o, auto q) { C03_Q; o[0] = (ld<L, Q>(x) == ld<L, Q>(x + L)) ? F(1) : F(0); });
  r.template fam<F>(pre + "neq" + s, 2 * L, 1, [](F const* x, F* o, auto q) { C03_Q; o[0] = (ld<L, Q>(x) != ld<L, Q>(x + L)) ? F(1) : F(0); });
}

template<int L, class F, class R> void vec_common(R& r, std::string const& pre = "") {      // component-wise functions of common.hpp / exponential.hpp
  std::string s = L == 4 ? "" : "3";
#define C03_F1(name, call) r.template fam<F>(pre + name + s, L, L, [](F const* x, F* o, auto q) { C03_Q; st<L, Q>(o, call(ld<L, Q>(x))); });
  C03_F1("abs", glm::abs) C03_F1("floor", glm::floor) C03_F1("ceil", glm::ceil) C03_F1("round", glm::round) C03_F1("roundEven", glm::roundEven)
  C03_F1("trunc", glm::trunc) C03_F1("fract", glm::fract) C03_F1("sign", glm::sign)
#undef C03_F1
  r.template fam_q<F>(pre + "sqrt" + s, L, L, [](F const* x, F* o, auto q) { C03_Q; st<L, Q>(o, glm::sqrt(ld<L, Q>(x))); });
  r.template fam<F>(pre + "inversesqrt" + s, L, L, [](F const* x, F* o, auto q) { C03_Q; st<L, Q>(o, glm::inversesqrt(ld<L, Q>(x))); });
  // packed lowp inversesqrt is glm's integer bit trick on the float's bytes: not expressible symbolically (NOTES.md)
#if GLM_CONFIG_ALIGNED_GENTYPES == GLM_ENABLE
  r.template simd_only<F>(pre + "inversesqrt" + s + "_lowp", L, L, QT<glm::aligned_lowp>(), [](F const* x, F* o, auto q) { C03_Q; st<L, Q>(o, glm::inversesqrt(ld<L, Q>(x))); });
#endif
  r.template fam<F>(pre + "mod" + s, 2 * L, L, [](F const* x, F* o, auto q) { C03_Q; st<L, Q>(o, glm::mod(ld<L, Q>(x), ld<L, Q>(x + L))); });
  r.template fam<F>(pre + "min" + s, 2 * L, L, [](F const* x, F* o, auto q) { C03_Q; st<L, Q>(o, glm::min(ld<L, Q>(x), ld<L, Q>(x + L))); });
  r.template fam<F>(pre + "max" + s, 2 * L, L, [](F const* x, F* o, auto q) { C03_Q; st<L, Q>(o, glm::max(ld<L, Q>(x), ld<L, Q>(x + L))); });
  r.template fam<F>(pre + "mins" + s, L + 1, L, [](F const* x, F* o, auto q) { C03_Q; st<L, Q>(o, glm::min(ld<L, Q>(x), x[L])); });
  r.template fam<F>(pre + "maxs" + s, L + 1, L, [](F const* x, F* o, auto q) { C03_Q; st<L, Q>(o, glm::max(ld<L, Q>(x), x[L])); });
  r.template fam<F>(pre + "clamp" + s, 3 * L, L, [](F const* x, F* o, auto q) { C03_Q; st<L, Q>(o, glm::clamp(ld<L, Q>(x), ld<L, Q>(x + L), ld<L, Q>(x + 2 * L))); });
  r.template fam<F>(pre + "clamps" + s, L + 2, L, [](F const* x, F* o, auto q) { C03_Q; st<L, Q>(o, glm::clamp(ld<L, Q>(x), x[L], x[L + 1])); });
  r.template fam<F>(pre + "mix" + s, 3 * L, L, [](F const* x, F* o, auto q) { C03_Q; st<L, Q>(o, glm::mix(ld<L, Q>(x), ld<L, Q>(x + L), ld<L, Q>(x + 2 * L))); });
  r.template fam<F>(pre + "mixs" + s, 2 * L + 1, L, [](F const* x, F* o, auto q) { C03_Q; st<L, Q>(o, glm::mix(ld<L, Q>(x), ld<L, Q>(x + L), x[2 * L])); });
  // mix with a bool vector: the selector is the component-wise a < b of two more vectors
  r.template fam<F>(pre + "mixb" + s, 4 * L, L, [](F const* x, F* o, auto q) { C03_Q; st<L, Q>(o, glm::mix(ld<L, Q>(x), ld<L, Q>(x + L), glm::lessThan(ld<L, Q>(x + 2 * L), ld<L, Q>(x + 3 * L)))); });
  r.template fam<F>(pre + "step" + s, 2 * L, L, [](F const* x, F* o, auto q) { C03_Q; st<L, Q>(o, glm::step(ld<L, Q>(x), ld<L, Q>(x + L))); });
  r.template fam<F>(pre + "steps" + s, L + 1, L, [](F const* x, F* o, auto q) { C03_Q; st<L, Q>(o, glm::step(x[L], ld<L, Q>(x))); });
  r.template fam<F>(pre + "smoothstep" + s, 3 * L, L, [](F const* x, F* o, auto q) { C03_Q; st<L, Q>(o, glm::smoothstep(ld<L, Q>(x), ld<L, Q>(x + L), ld<L, Q>(x + 2 * L))); });
  r.template fam<F>(pre + "smoothsteps" + s, L + 2, L, [](F const* x, F* o, auto q) { C03_Q; st<L, Q>(o, glm::smoothstep(x[L], x[L + 1], ld<L, Q>(x))); });
  r.template fam<F>(pre + "fma" + s, 3 * L, L, [](F const* x, F* o, auto q) { C03_Q; st<L, Q>(o, glm::fma(ld<L, Q>(x), ld<L, Q>(x + L), ld<L, Q>(x + 2 * L))); });
}

template<int L, class F, class R> void vec_geom(R& r, std::string const& pre = "") {
  std::string s = L == 4 ? "" : "3";
  r.template fam<F>(pre + "dot" + s, 2 * L, 1, [](F const* x, F* o, auto q) { C03_Q; o[0] = glm::dot(ld<L, Q>(x), ld<L, Q>(x + L)); });
  r.template fam<F>(pre + "length" + s, L, 1, [](F const* x, F* o, auto q) { C03_Q; o[0] = glm::length(ld<L, Q>(x)); });
  r.template fam<F>(pre + "distance" + s, 2 * L, 1, [](F const* x, F* o, auto q) { C03_Q; o[0] = glm::distance(ld<L, Q>(x), ld<L, Q>(x + L)); });
  r.template fam_q<F>(pre + "normalize" + s, L, L, [](F const* x, F* o, auto q) { C03_Q; st<L, Q>(o, glm::normalize(ld<L, Q>(x))); });
  r.template fam<F>(pre + "faceforward" + s, 3 * L, L, [](F const* x, F* o, auto q) { C03_Q; st<L, Q>(o, glm::faceforward(ld<L, Q>(x), ld<L, Q>(x + L), ld<L, Q>(x + 2 * L))); });
  r.template fam<F>(pre + "reflect" + s, 2 * L, L, [](F const* x, F* o, auto q) { C03_Q; st<L, Q>(o, glm::reflect(ld<L, Q>(x), ld<L, Q>(x + L))); });
  r.template fam<F>(pre + "refract" + s, 2 * L + 1, L, [](F const* x, F* o, auto q) { C03_Q; st<L, Q>(o, glm::refract(ld<L, Q>(x), ld<L, Q>(x + L), x[2 * L])); });
}

template<class F, class R> void matrix_ops(R& r, std::string const& pre = "") {
  if constexpr (sizeof(F) == 4 || C03_DFMA_OK) {
  r.template fam<F>(pre + "mat4_mul", 32, 16, [](F const* x, F* o, auto q) { C03_Q; stm4<Q>(o, ldm4<Q>(x) * ldm4<Q>(x + 16)); });
  r.template fam<F>(pre + "mat3_mul", 18, 9, [](F const* x, F* o, auto q) { C03_Q; stm3<Q>(o, ldm3<Q>(x) * ldm3<Q>(x + 9)); });
  }
  r.template fam<F>(pre + "mat4_mulv", 20, 4, [](F const* x, F* o, auto q) { C03_Q; st<4, Q>(o, ldm4<Q>(x) * ld<4, Q>(x + 16)); });
  r.template fam<F>(pre + "mat4_vmul", 20, 4, [](F const* x, F* o, auto q) { C03_Q; st<4, Q>(o, ld<4, Q>(x) * ldm4<Q>(x + 4)); });
  r.template fam<F>(pre + "mat4_add", 32, 16, [](F const* x, F* o, auto q) { C03_Q; stm4<Q>(o, ldm4<Q>(x) + ldm4<Q>(x + 16)); });
  r.template fam<F>(pre + "mat4_sub", 32, 16, [](F const* x, F* o, auto q) { C03_Q; stm4<Q>(o, ldm4<Q>(x) - ldm4<Q>(x + 16)); });
  r.template fam<F>(pre + "mat4_muls", 17, 16, [](F const* x, F* o, auto q) { C03_Q; stm4<Q>(o, ldm4<Q>(x) * x[16]); });
  r.template fam<F>(pre + "mat4_divs", 17, 16, [](F const* x, F* o, auto q) { C03_Q; stm4<Q>(o, ldm4<Q>(x) / x[16]); });
  r.template fam<F>(pre + "mat4_transpose", 16, 16, [](F const* x, F* o, auto q) { C03_Q; stm4<Q>(o, glm::transpose(ldm4<Q>(x))); });
  r.template fam<F>(pre + "mat4_determinant", 16, 1, [](F const* x, F* o, auto q) { C03_Q; o[0] = glm::determinant(ldm4<Q>(x)); });
  r.template fam_q<F>(pre + "mat4_inverse", 16, 16, [](F const* x, F* o, auto q) { C03_Q; stm4<Q>(o, glm::inverse(ldm4<Q>(x))); });
  r.template fam_q<F>(pre + "mat4_outerProduct", 8, 16, [](F const* x, F* o, auto q) { C03_Q; stm4<Q>(o, glm::outerProduct(ld<4, Q>(x), ld<4, Q>(x + 4))); });
  r.template fam<F>(pre + "mat4_matrixCompMult", 32, 16, [](F const* x, F* o, auto q) { C03_Q; stm4<Q>(o, glm::matrixCompMult(ldm4<Q>(x), ldm4<Q>(x + 16))); });
  r.template fam<F>(pre + "mat3_transpose", 9, 9, [](F const* x, F* o, auto q) { C03_Q; stm3<Q>(o, glm::transpose(ldm3<Q>(x))); });
  r.template fam<F>(pre + "mat3_mulv", 12, 3, [](F const* x, F* o, auto q) { C03_Q; st<3, Q>(o, ldm3<Q>(x) * ld<3, Q>(x + 9)); });
  r.template fam<F>(pre + "mat3_determinant", 9, 1, [](F const* x, F* o, auto q) { C03_Q; o[0] = glm::determinant(ldm3<Q>(x)); });
  r.template fam<F>(pre + "mat3_inverse", 9, 9, [](F const* x, F* o, auto q) { C03_Q; stm3<Q>(o, glm::inverse(ldm3<Q>(x))); });
}

template<class F, class R> void quat_ops(R& r, std::string const& pre = "") {
  r.template fam<F>(pre + "quat_ctor_sv3", 4, 4, [](F const* x, F* o, auto q) { C03_Q; stq<Q>(o, glm::qua<F, Q>(x[0], ld<3, Q>(x + 1))); });
  r.template fam<F>(pre + "quat_ctor_copy", 4, 4, [](F const* x, F* o, auto q) { C03_Q; glm::qua<F, Q> a = ldq<Q>(x); glm::qua<F, Q> b(a); stq<Q>(o, b); });
  r.template fam<F>(pre + "quat_mul", 8, 4, [](F const* x, F* o, auto q) { C03_Q; stq<Q>(o, ldq<Q>(x) * ldq<Q>(x + 4)); });
  r.template fam<F>(pre + "quat_add", 8, 4, [](F const* x, F* o, auto q) { C03_Q; stq<Q>(o, ldq<Q>(x) + ldq<Q>(x + 4)); });
  r.template fam<F>(pre + "quat_sub", 8, 4, [](F const* x, F* o, auto q) { C03_Q; stq<Q>(o, ldq<Q>(x) - ldq<Q>(x + 4)); });
  r.template fam<F>(pre + "quat_muls", 5, 4, [](F const* x, F* o, auto q) { C03_Q; stq<Q>(o, ldq<Q>(x) * x[4]); });
  r.template fam<F>(pre + "quat_divs", 5, 4, [](F const* x, F* o, auto q) { C03_Q; stq<Q>(o, ldq<Q>(x) / x[4]); });
  r.template fam<F>(pre + "quat_mulv4", 8, 4, [](F const* x, F* o, auto q) { C03_Q; st<4, Q>(o, ldq<Q>(x) * ld<4, Q>(x + 4)); });
  r.template fam<F>(pre + "quat_mulv3", 7, 3, [](F const* x, F* o, auto q) { C03_Q; st<3, Q>(o, ldq<Q>(x) * ld<3, Q>(x + 4)); });
  r.template fam<F>(pre + "quat_dot", 8, 1, [](F const* x, F* o, auto q) { C03_Q; o[0] = glm::dot(ldq<Q>(x), ldq<Q>(x + 4)); });
  r.template fam<F>(pre + "quat_length", 4, 1, [](F const* x, F* o, auto q) { C03_Q; o[0] = glm::length(ldq<Q>(x)); });
  r.template fam<F>(pre + "quat_normalize", 4, 4, [](F const* x, F* o, auto q) { C03_Q; stq<Q>(o, glm::normalize(ldq<Q>(x))); });
  r.template fam<F>(pre + "quat_conjugate", 4, 4, [](F const* x, F* o, auto q) { C03_Q; stq<Q>(o, glm::conjugate(ldq<Q>(x))); });
  r.template fam<F>(pre + "quat_inverse", 4, 4, [](F const* x, F* o, auto q) { C03_Q; stq<Q>(o, glm::inverse(ldq<Q>(x))); });
  r.template fam<F>(pre + "quat_mix", 9, 4, [](F const* x, F* o, auto q) { C03_Q; stq<Q>(o, glm::mix(ldq<Q>(x), ldq<Q>(x + 4), x[8])); });
  r.template fam<F>(pre + "quat_lerp", 9, 4, [](F const* x, F* o, auto q) { C03_Q; stq<Q>(o, glm::lerp(ldq<Q>(x), ldq<Q>(x + 4), x[8])); });
  r.template fam<F>(pre + "quat_slerp", 9, 4, [](F const* x, F* o, auto q) { C03_Q; stq<Q>(o, glm::slerp(ldq<Q>(x), ldq<Q>(x + 4), x[8])); });
}

// ------------------------------------------------------------------ constructors / conversions
// Counterparts of a highp qualifier within the same storage class (only highp qualifiers are registered by fam)
template<qualifier Q> struct QMap;
template<> struct QMap<glm::packed_highp> { static constexpr qualifier lowp = glm::packed_lowp, mediump = glm::packed_mediump; };
#if GLM_CONFIG_ALIGNED_GENTYPES == GLM_ENABLE
template<> struct QMap<glm::aligned_highp> { static constexpr qualifier lowp = glm::aligned_lowp, mediump = glm::aligned_mediump; };
#endif
// fixed, pairwise distinct, float-exact arguments at which the constructors taking C++ int / unsigned are traced
static const int C03_LIT[4] = {3, 5, 7, -11};

// constructors of a real vector (F = float or double) from symbolic scalars / other vectors
template<class F, class R> void ctor_ops(R& r, std::string const& pre = "") {
  using glm::packed_highp;
  r.template fam_q<F>(pre + "ctor4_s", 1, 4, [](F const* x, F* o, auto q) { C03_Q; st<4, Q>(o, glm::vec<4, F, Q>(x[0])); });
  r.template fam_q<F>(pre + "ctor4_f4", 4, 4, [](F const* x, F* o, auto q) { C03_Q; st<4, Q>(o, glm::vec<4, F, Q>(x[0], x[1], x[2], x[3])); });
  r.template fam_q<F>(pre + "ctor3_s", 1, 3, [](F const* x, F* o, auto q) { C03_Q; st<3, Q>(o, glm::vec<3, F, Q>(x[0])); });
  r.template fam_q<F>(pre + "ctor3_f3", 3, 3, [](F const* x, F* o, auto q) { C03_Q; st<3, Q>(o, glm::vec<3, F, Q>(x[0], x[1], x[2])); });
  r.template fam<F>(pre + "ctor4_v3s", 4, 4, [](F const* x, F* o, auto q) { C03_Q; st<4, Q>(o, glm::vec<4, F, Q>(ld<3, Q>(x), x[3])); });
  r.template fam<F>(pre + "ctor4_sv3", 4, 4, [](F const* x, F* o, auto q) { C03_Q; st<4, Q>(o, glm::vec<4, F, Q>(x[0], ld<3, Q>(x + 1))); });
  r.template fam<F>(pre + "ctor4_v2v2", 4, 4, [](F const* x, F* o, auto q) { C03_Q; st<4, Q>(o, glm::vec<4, F, Q>(glm::vec<2, F, Q>(x[0], x[1]), glm::vec<2, F, Q>(x[2], x[3]))); });
  r.template fam<F>(pre + "ctor3_v4", 4, 3, [](F const* x, F* o, auto q) { C03_Q; st<3, Q>(o, glm::vec<3, F, Q>(ld<4, Q>(x))); });
  r.template fam<F>(pre + "ctor3_v2s", 3, 3, [](F const* x, F* o, auto q) { C03_Q; st<3, Q>(o, glm::vec<3, F, Q>(glm::vec<2, F, Q>(x[0], x[1]), x[2])); });
#define C03_CONV(L) \
  r.template fam<F>(pre + "conv" #L "_copy", L, L, [](F const* x, F* o, auto q) { C03_Q; glm::vec<L, F, Q> a = ld<L, Q>(x); glm::vec<L, F, Q> b(a); st<L, Q>(o, b); }); \
  r.template fam<F>(pre + "conv" #L "_from_packed", L, L, [](F const* x, F* o, auto q) { C03_Q; st<L, Q>(o, glm::vec<L, F, Q>(ld<L, packed_highp>(x))); }); \
  r.template fam<F>(pre + "conv" #L "_to_packed", L, L, [](F const* x, F* o, auto q) { C03_Q; st<L, packed_highp>(o, glm::vec<L, F, packed_highp>(ld<L, Q>(x))); }); \
  r.template fam<F>(pre + "conv" #L "_lowp", L, L, [](F const* x, F* o, auto q) { C03_Q; constexpr qualifier QL = QMap<Q>::lowp; st<L, QL>(o, glm::vec<L, F, QL>(ld<L, Q>(x))); }); \
  r.template fam<F>(pre + "conv" #L "_mediump", L, L, [](F const* x, F* o, auto q) { C03_Q; constexpr qualifier QM = QMap<Q>::mediump; st<L, QM>(o, glm::vec<L, F, QM>(ld<L, Q>(x))); }); \
  r.template fam<F>(pre + "conv" #L "_from_lowp", L, L, [](F const* x, F* o, auto q) { C03_Q; constexpr qualifier QL = QMap<Q>::lowp; st<L, Q>(o, glm::vec<L, F, Q>(ld<L, QL>(x))); }); \
  r.template fam<F>(pre + "conv" #L "_lowp_from_packed", L, L, [](F const* x, F* o, auto q) { C03_Q; constexpr qualifier QL = QMap<Q>::lowp; st<L, QL>(o, glm::vec<L, F, QL>(ld<L, packed_highp>(x))); }); \
  r.template fam<F>(pre + "conv" #L "_lowp_to_packed", L, L, [](F const* x, F* o, auto q) { C03_Q; constexpr qualifier QL = QMap<Q>::lowp; st<L, packed_highp>(o, glm::vec<L, F, packed_highp>(ld<L, QL>(x))); });
  C03_CONV(4) C03_CONV(3)
#undef C03_CONV
  // real vector from C++ int / unsigned arguments: not symbolic; the tracer evaluates them at C03_LIT (NOTES.md),
  // the harness additionally at seeded arguments
  r.template lit_fam_q<F, int>(pre + "ctor4_i4", 4, 4, [](int const* a, F* o, auto q) { C03_Q; st<4, Q>(o, glm::vec<4, F, Q>(a[0], a[1], a[2], a[3])); });
  r.template lit_fam_q<F, int>(pre + "ctor3_i3", 3, 3, [](int const* a, F* o, auto q) { C03_Q; st<3, Q>(o, glm::vec<3, F, Q>(a[0], a[1], a[2])); });
  r.template lit_fam_q<F, unsigned>(pre + "ctor4_u4", 4, 4, [](unsigned const* a, F* o, auto q) { C03_Q; st<4, Q>(o, glm::vec<4, F, Q>(a[0], a[1], a[2], a[3])); });
  r.template lit_fam_q<F, unsigned>(pre + "ctor3_u3", 3, 3, [](unsigned const* a, F* o, auto q) { C03_Q; st<3, Q>(o, glm::vec<3, F, Q>(a[0], a[1], a[2])); });
  r.template lit_fam<F, int>(pre + "ctor4_i1", 1, 4, [](int const* a, F* o, auto q) { C03_Q; st<4, Q>(o, glm::vec<4, F, Q>(a[0])); });
  r.template lit_fam<F, int>(pre + "ctor3_i1", 1, 3, [](int const* a, F* o, auto q) { C03_Q; st<3, Q>(o, glm::vec<3, F, Q>(a[0])); });
}

// constructors / conversions of integer vectors.  The scalar arguments are symbolic: R::iarg<Q>(x) is the C++ int glm
// receives (harness: the value; tracer, aligned: the lane word of the input, which the fake _mm_set*_epi32 recognises
// and keeps as that lane; tracer, packed: the SymI32 itself).  `T` below is the element type that results.
template<class S, class R, class ARG, class ADD> void int_ctor_ops_t(std::string const& p, ARG arg, ADD add) {
  using glm::packed_highp;
  add(p + "ctor4_s", 1, 4, [arg](S const* x, S* o, auto q) { C03_Q; auto a = arg(x[0], q); using T = decltype(a); R::template sti<4>(o, glm::vec<4, T, Q>(a)); });
  add(p + "ctor4_i4", 4, 4, [arg](S const* x, S* o, auto q) { C03_Q; auto a = arg(x[0], q); using T = decltype(a); R::template sti<4>(o, glm::vec<4, T, Q>(a, arg(x[1], q), arg(x[2], q), arg(x[3], q))); });
  add(p + "ctor3_s", 1, 3, [arg](S const* x, S* o, auto q) { C03_Q; auto a = arg(x[0], q); using T = decltype(a); R::template sti<3>(o, glm::vec<3, T, Q>(a)); });
  add(p + "ctor3_i3", 3, 3, [arg](S const* x, S* o, auto q) { C03_Q; auto a = arg(x[0], q); using T = decltype(a); R::template sti<3>(o, glm::vec<3, T, Q>(a, arg(x[1], q), arg(x[2], q))); });
#define C03_ICONV(L, ARGS) \
  add(p + "conv" #L "_copy", L, L, [arg](S const* x, S* o, auto q) { C03_Q; auto a = arg(x[0], q); using T = decltype(a); glm::vec<L, T, Q> v ARGS; glm::vec<L, T, Q> w(v); R::template sti<L>(o, w); }); \
  add(p + "conv" #L "_from_packed", L, L, [arg](S const* x, S* o, auto q) { C03_Q; auto a = arg(x[0], q); using T = decltype(a); glm::vec<L, T, packed_highp> v ARGS; R::template sti<L>(o, glm::vec<L, T, Q>(v)); }); \
  add(p + "conv" #L "_to_packed", L, L, [arg](S const* x, S* o, auto q) { C03_Q; auto a = arg(x[0], q); using T = decltype(a); glm::vec<L, T, Q> v ARGS; R::template sti<L>(o, glm::vec<L, T, packed_highp>(v)); });
  C03_ICONV(4, (a, arg(x[1], q), arg(x[2], q), arg(x[3], q))) C03_ICONV(3, (a, arg(x[1], q), arg(x[2], q)))
#undef C03_ICONV
}
template<class R> void int_ctor_ops(R& r) {
  using I = typename R::I; using U = typename R::U;
  int_ctor_ops_t<I, R>("i", [](I x, auto q) { C03_Q; return R::template iarg<Q>(x); }, [&r](std::string const& n, int nin, int nout, auto f) { r.ifam(n, nin, nout, f); });
  int_ctor_ops_t<U, R>("u", [](U x, auto q) { C03_Q; return R::template iarg<Q>(x); }, [&r](std::string const& n, int nin, int nout, auto f) { r.ufam(n, nin, nout, f); });
}

// double quaternions: + and - have AVX code; `q * s` and `q / s` (compute_quat_mul_scalar<double,Q,true>) do not compile
// at AVX and above (they pass a __m128 to _mm256_mul_pd), so they are left out
template<class D, class R> void quat_ops_d(R& r) {
  r.template fam<D>("d_quat_add", 8, 4, [](D const* x, D* o, auto q) { C03_Q; stq<Q>(o, ldq<Q>(x) + ldq<Q>(x + 4)); });
  r.template fam<D>("d_quat_sub", 8, 4, [](D const* x, D* o, auto q) { C03_Q; stq<Q>(o, ldq<Q>(x) - ldq<Q>(x + 4)); });
  r.template fam<D>("d_quat_mul", 8, 4, [](D const* x, D* o, auto q) { C03_Q; stq<Q>(o, ldq<Q>(x) * ldq<Q>(x + 4)); });
  r.template fam<D>("d_quat_dot", 8, 1, [](D const* x, D* o, auto q) { C03_Q; o[0] = glm::dot(ldq<Q>(x), ldq<Q>(x + 4)); });
  r.template fam<D>("d_quat_mulv4", 8, 4, [](D const* x, D* o, auto q) { C03_Q; st<4, Q>(o, ldq<Q>(x) * ld<4, Q>(x + 4)); });
}

#if GLM_ARCH & GLM_ARCH_SSE2_BIT
// the kernels of glm/simd/*.h called directly
template<class R> void kernel_ops(R& r) {
  using F = typename R::F;
#define C03_K1(fn) r.kern(#fn, 4, 4, [](F const* x, F* o) { stk(o, glm_##fn(ldk(x))); });
#define C03_K2(fn) r.kern(#fn, 8, 4, [](F const* x, F* o) { stk(o, glm_##fn(ldk(x), ldk(x + 4))); });
#define C03_K3(fn) r.kern(#fn, 12, 4, [](F const* x, F* o) { stk(o, glm_##fn(ldk(x), ldk(x + 4), ldk(x + 8))); });
  C03_K2(vec4_add) C03_K2(vec4_sub) C03_K2(vec4_mul) C03_K2(vec4_div) C03_K2(vec4_div_lowp) C03_K2(vec1_add) C03_K2(vec1_sub) C03_K2(vec1_mul) C03_K2(vec1_div)
  C03_K1(vec4_swizzle_xyzw) C03_K3(vec1_fma) C03_K3(vec4_fma) C03_K3(vec4d_fma)
  C03_K1(vec4_abs) C03_K1(vec4_sign) C03_K1(vec4_round) C03_K1(vec4_floor) C03_K1(vec4_roundEven) C03_K1(vec4_ceil) C03_K1(vec4_fract) C03_K2(vec4_mod)
  C03_K3(vec4_clamp) C03_K3(vec4_mix) C03_K2(vec4_step) C03_K3(vec4_smoothstep)
  C03_K1(vec1_sqrt_lowp) C03_K1(vec4_sqrt_lowp)
  C03_K1(vec4_length) C03_K2(vec4_distance) C03_K2(vec4_dot) C03_K2(vec1_dot) C03_K2(vec4_cross) C03_K1(vec4_normalize) C03_K3(vec4_faceforward) C03_K2(vec4_reflect)
  r.kern("vec4_refract", 9, 4, [](F const* x, F* o) { stk(o, glm_vec4_refract(ldk(x), ldk(x + 4), _mm_set1_ps(x[8]))); });
  // the isnan / isinf kernels return a mask register: reported as 1/0 per lane
  r.kern("vec4_nan", 4, 4, [](F const* x, F* o) { int k = _mm_movemask_ps(glm_vec4_nan(ldk(x))); for (int i = 0; i < 4; ++i) o[i] = F((k >> i) & 1); });
  r.kern("vec4_inf", 4, 4, [](F const* x, F* o) { int k = _mm_movemask_ps(glm_vec4_inf(ldk(x))); for (int i = 0; i < 4; ++i) o[i] = F((k >> i) & 1); });
#undef C03_K1
#undef C03_K2
#undef C03_K3
  r.kern("mat4_matrixCompMult", 32, 16, [](F const* x, F* o) { __m128 a[4], b[4], m[4]; ldk4(x, a); ldk4(x + 16, b); glm_mat4_matrixCompMult(a, b, m); stk4(o, m); });
  r.kern("mat4_add", 32, 16, [](F const* x, F* o) { __m128 a[4], b[4], m[4]; ldk4(x, a); ldk4(x + 16, b); glm_mat4_add(a, b, m); stk4(o, m); });
  r.kern("mat4_sub", 32, 16, [](F const* x, F* o) { __m128 a[4], b[4], m[4]; ldk4(x, a); ldk4(x + 16, b); glm_mat4_sub(a, b, m); stk4(o, m); });
  r.kern("mat4_mul", 32, 16, [](F const* x, F* o) { __m128 a[4], b[4], m[4]; ldk4(x, a); ldk4(x + 16, b); glm_mat4_mul(a, b, m); stk4(o, m); });
  r.kern("mat4_mul_vec4", 20, 4, [](F const* x, F* o) { __m128 a[4]; ldk4(x, a); stk(o, glm_mat4_mul_vec4(a, ldk(x + 16))); });
  r.kern("vec4_mul_mat4", 20, 4, [](F const* x, F* o) { __m128 a[4]; ldk4(x + 4, a); stk(o, glm_vec4_mul_mat4(ldk(x), a)); });
  r.kern("mat4_transpose", 16, 16, [](F const* x, F* o) { __m128 a[4], m[4]; ldk4(x, a); glm_mat4_transpose(a, m); stk4(o, m); });
  r.kern("mat3_transpose", 12, 12, [](F const* x, F* o) { __m128 a[3], m[3]; for (int c = 0; c < 3; ++c) a[c] = ldk(x + 4 * c); glm_mat3_transpose(a, m); for (int c = 0; c < 3; ++c) stk(o + 4 * c, m[c]); });
  r.kern("mat4_determinant", 16, 4, [](F const* x, F* o) { __m128 a[4]; ldk4(x, a); stk(o, glm_mat4_determinant(a)); });
  r.kern("mat4_determinant_highp", 16, 4, [](F const* x, F* o) { __m128 a[4]; ldk4(x, a); stk(o, glm_mat4_determinant_highp(a)); });
  r.kern("mat4_determinant_lowp", 16, 4, [](F const* x, F* o) { __m128 a[4]; ldk4(x, a); stk(o, glm_mat4_determinant_lowp(a)); });
  r.kern("mat4_inverse", 16, 16, [](F const* x, F* o) { __m128 a[4], m[4]; ldk4(x, a); glm_mat4_inverse(a, m); stk4(o, m); });
  r.kern("mat4_inverse_lowp", 16, 16, [](F const* x, F* o) { __m128 a[4], m[4]; ldk4(x, a); glm_mat4_inverse_lowp(a, m); stk4(o, m); });
  r.kern("mat4_outerProduct", 8, 16, [](F const* x, F* o) { __m128 m[4]; glm_mat4_outerProduct(ldk(x), ldk(x + 4), m); stk4(o, m); });
  using I = typename R::I; using U = typename R::U;
  r.ikern("ivec4_abs", 4, 4, [](I const* x, I* o) { R::stki(o, glm_ivec4_abs(R::ldki(x))); });
  r.ukern("i128_interleave", 4, 4, [](U const* x, U* o) { R::stki(o, glm_i128_interleave(R::ldki(x))); });
}
#endif

// integer vec4.  Only operations for which glm HAS code on `data` are listed for both variants; see NOTES.md for the
// operators that fall back to the generic per-component code on aligned integer vectors (nothing to trace there: it
// is the pure code itself).  C03_INT_MINMAX: _mm_min_epi32 & co are SSE4.1 instructions glm uses without a guard.
template<class S, class R, class LOAD, class ADD> void int_ops_t(R& r, std::string const& p, bool is_signed, LOAD ldv, ADD add) {
#define C03_I2(name, expr) add(p + name, 8, 4, [ldv](S const* x, S* o, auto q) { auto a = ldv(x, q), b = ldv(x + 4, q); R::template sti<4>(o, expr); });
  if (is_signed) { C03_I2("add", a + b) C03_I2("sub", a - b) C03_I2("mul", a * b) }
  C03_I2("and", a & b) C03_I2("or", a | b)
#ifdef C03_INT_MINMAX
  C03_I2("min", glm::min(a, b)) C03_I2("max", glm::max(a, b))
  add(p + "clamp", 12, 4, [ldv](S const* x, S* o, auto q) { R::template sti<4>(o, glm::clamp(ldv(x, q), ldv(x + 4, q), ldv(x + 8, q))); });
#endif
  // the remaining operators: no SIMD code in effect (kept so that the trace shows it: they come out as X units)
  C03_I2("xor", a ^ b) C03_I2("shl", a << b) C03_I2("shr", a >> b)
  if (!is_signed) { C03_I2("add", a + b) C03_I2("sub", a - b) C03_I2("mul", a * b) }
#undef C03_I2
  add(p + "not", 4, 4, [ldv](S const* x, S* o, auto q) { R::template sti<4>(o, ~ldv(x, q)); });
  if (is_signed) add(p + "adds", 4, 4, [ldv](S const* x, S* o, auto q) { auto a = ldv(x, q); R::template sti<4>(o, a + typename decltype(a)::value_type(5)); });
  add(p + "neg", 4, 4, [ldv](S const* x, S* o, auto q) { R::template sti<4>(o, -ldv(x, q)); });
  add(p + "eq", 8, 1, [ldv](S const* x, S* o, auto q) { o[0] = (ldv(x, q) == ldv(x + 4, q)) ? S(1) : S(0); });
  add(p + "neq", 8, 1, [ldv](S const* x, S* o, auto q) { o[0] = (ldv(x, q) != ldv(x + 4, q)) ? S(1) : S(0); });
}
template<class R> void int_ops(R& r) {
  using I = typename R::I; using U = typename R::U;
  int_ops_t<I>(r, "i", true, [](I const* x, auto q) { C03_Q; return R::template ldi<Q>(x); }, [&r](std::string const& n, int nin, int nout, auto f) { r.ifam(n, nin, nout, f); });
  int_ops_t<U>(r, "u", false, [](U const* x, auto q) { C03_Q; return R::template ldu<Q>(x); }, [&r](std::string const& n, int nin, int nout, auto f) { r.ufam(n, nin, nout, f); });
  r.ifam("iabs", 4, 4, [](I const* x, I* o, auto q) { C03_Q; R::template sti<4>(o, glm::abs(R::template ldi<Q>(x))); });
}

template<class R> void all_ops(R& r) {
#ifdef GLM_FORCE_QUAT_DATA_WXYZ          // the memory order of quaternions only matters to the quaternion operations
  quat_ops<typename R::F>(r); quat_ops_d<typename R::D>(r); return;
#endif
  using F = typename R::F; using D = typename R::D;
  vec_arith<4, F>(r); vec_common<4, F>(r); vec_geom<4, F>(r);
  vec_arith<3, F>(r); vec_common<3, F>(r); vec_geom<3, F>(r);
  r.template fam<F>("cross3", 6, 3, [](F const* x, F* o, auto q) { C03_Q; st<3, Q>(o, glm::cross(ld<3, Q>(x), ld<3, Q>(x + 3))); });
  matrix_ops<F>(r); quat_ops<F>(r); ctor_ops<F>(r);
  // double: the operations glm has SSE2 (2 x __m128d) / AVX (__m256d) code for, plus what is built on them (prefix d_)
  vec_arith<4, D>(r, "d_"); vec_arith<3, D>(r, "d_"); vec_geom<4, D>(r, "d_"); vec_geom<3, D>(r, "d_");
#if C03_DFMA_OK
  r.template fam<D>("d_fma", 12, 4, [](D const* x, D* o, auto q) { C03_Q; st<4, Q>(o, glm::fma(ld<4, Q>(x), ld<4, Q>(x + 4), ld<4, Q>(x + 8))); });
#endif
  r.template fam<D>("d_cross3", 6, 3, [](D const* x, D* o, auto q) { C03_Q; st<3, Q>(o, glm::cross(ld<3, Q>(x), ld<3, Q>(x + 3))); });
  matrix_ops<D>(r, "d_"); quat_ops_d<D>(r); ctor_ops<D>(r, "d_");
#if GLM_ARCH & GLM_ARCH_SSE2_BIT
  kernel_ops(r);
#endif
  int_ops(r); int_ctor_ops(r);
}
} // namespace c03
