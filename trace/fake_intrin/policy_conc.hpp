// Concrete lane policy for fake_core.hpp: every lane has actual bits, plus the same classification the symbolic
// policy derives from its nodes (real / integer / mask, literal or not).  Used by diff/C03_fake_check.cpp: the
// generic code of fake_core.hpp takes the same paths as in the tracing TU (it only ever looks at kind/bits/ask),
// and its result is compared with the hardware instruction.
//
// Mirrors of the symbolic policy's behaviour that matter for taking the same paths:
//   * only literals have known bits (`bits`), the result of any operation is a non-literal;
//   * real_from_bits rejects NaN patterns (a mask constant used as a number) by raising ConcFail;
//   * c_signbit is the exact sign bit here (the symbolic policy approximates it by x < 0 and says so).
#pragma once
#include "fake_core.hpp"
#include <cmath>

namespace fki {

struct ConcFail { const char* msg; };

struct ConcPolicy {
  struct W { uint32_t b; uint8_t k; uint8_t lit; };
  struct R { uint32_t b; uint8_t lit; };                    // the TU's `float`: bits + literal flag
  using D = double;
  enum Mode { M_R, M_I32, M_U32 };
  static Mode& mode() { static Mode m = M_R; return m; }
  static int& approx_used() { static int n = 0; return n; }

  static bool real_mode() { return mode() == M_R; }
  static bool int_signed() { return mode() != M_U32; }
  [[noreturn]] static void fail(const char* why) { throw ConcFail{why}; }
  static void note(const char* what) { if (what[0] == 'a') ++approx_used(); }
  static W poison(const char*) { return W{0xDEADBEEFu, K_UNDEF, 0}; }

  static bool suspicious_int(uint32_t) { return false; }
  static bool int_is_lane(uint32_t, W&) { return false; }
  static Kind kind(W w) { return (Kind)w.k; }
  static bool bits(W w, uint32_t& b) { if ((w.k == K_REAL || w.k == K_INT) && w.lit) { b = w.b; return true; } return false; }
  static W int_from_bits(uint32_t b) { return W{b, K_INT, 1}; }
  static W real_from_bits(uint32_t b) { if (nan_bits(b)) fail("NaN bit pattern used as a float value"); return W{b, K_REAL, 1}; }
  static W w_of_r(R r) { return W{r.b, K_REAL, r.lit}; }
  static R r_of_w(W w) { return R{w.b, w.lit}; }

  static D d_add(D a, D b) { volatile double x = a, y = b; return x + y; }
  static D d_sub(D a, D b) { volatile double x = a, y = b; return x - y; }
  static D d_mul(D a, D b) { volatile double x = a, y = b; return x * y; }
  static D d_div(D a, D b) { volatile double x = a, y = b; return x / y; }
  static D d_fma(D a, D b, D c) { return std::fma(a, b, c); }
  static float f(W w) { float x; std::memcpy(&x, &w.b, 4); return x; }
  static W rw(float x) { W w; std::memcpy(&w.b, &x, 4); w.k = K_REAL; w.lit = 0; return w; }
  static W iw(uint32_t x) { return W{x, K_INT, 0}; }
  static W mw(bool c) { return W{c ? 0xFFFFFFFFu : 0u, K_MASK, 0}; }
  static void need_real() { if (mode() != M_R) fail("float arithmetic in an integer-typed trace"); }
  static W r_add(W a, W b) { need_real(); volatile float x = f(a), y = f(b); return rw(x + y); }
  static W r_sub(W a, W b) { need_real(); volatile float x = f(a), y = f(b); return rw(x - y); }
  static W r_mul(W a, W b) { need_real(); volatile float x = f(a), y = f(b); return rw(x * y); }
  static W r_div(W a, W b) { need_real(); volatile float x = f(a), y = f(b); return rw(x / y); }
  static W r_neg(W a) { need_real(); return W{a.b ^ 0x80000000u, K_REAL, 0}; }
  static W r_fmod(W a, W b) { need_real(); return rw(std::fmod(f(a), f(b))); }
  static W r_fma(W a, W b, W c) { need_real(); return rw(std::fma(f(a), f(b), f(c))); }
  static W r_call1(Fn1 fn, W a) {
    need_real(); float x = f(a);
    switch (fn) {
      case FN_SQRT: return rw(std::sqrt(x)); case FN_FLOOR: return rw(std::floor(x)); case FN_CEIL: return rw(std::ceil(x));
      case FN_TRUNC: return rw(std::trunc(x)); case FN_ROUND: return rw(std::round(x)); default: return W{a.b & 0x7FFFFFFFu, K_REAL, 0};
    }
  }
  static W c_lt(W a, W b) { return mw(f(a) < f(b)); }
  static W c_le(W a, W b) { return mw(f(a) <= f(b)); }
  static W c_eq(W a, W b) { return mw(f(a) == f(b)); }
  static W c_not(W c) { return mw(c.b == 0); }
  static W c_and(W a, W b) { return mw(a.b != 0 && b.b != 0); }
  static W c_or(W a, W b) { return mw(a.b != 0 || b.b != 0); }
  static W c_signbit(W a) { return mw((a.b >> 31) != 0); }
  static W ci_lt(W a, W b) { return mw(int_signed() ? (int32_t)a.b < (int32_t)b.b : a.b < b.b); }
  static W ci_eq(W a, W b) { return mw(a.b == b.b); }
  static W i_add(W a, W b) { return iw(a.b + b.b); }
  static W i_sub(W a, W b) { return iw(a.b - b.b); }
  static W i_mul(W a, W b) { return iw(a.b * b.b); }
  static W i_neg(W a) { return iw(0u - a.b); }
  static W i_and(W a, W b) { return iw(a.b & b.b); }
  static W i_or(W a, W b) { return iw(a.b | b.b); }
  static W i_xor(W a, W b) { return iw(a.b ^ b.b); }
  static W i_not(W a) { return iw(~a.b); }
  static W i_shl(W a, W n) { if (n.b > 31) fail("shift count"); return iw(a.b << n.b); }
  static W i_shr(W a, W n) { if (n.b > 31) fail("shift count"); return iw(int_signed() ? (uint32_t)((int32_t)a.b >> n.b) : a.b >> n.b); }
  static bool ask(W c) { if (c.k != K_MASK) fail("ask on a non-mask lane"); return c.b != 0; }
};

} // namespace fki
