// SymD: the symbolic scalar that stands in for `double` in the C03 tracing TU (`#define double SymD`).
// Same arena, same node kinds as sym.hpp's SymR (the trace format has one real type); it is a separate C++ type
// only so that glm's `double` specialisations (storage<4,double,true> = __m256d / 2 x __m128d, compute_*<…,double,…>)
// are selected, and it is 8 bytes wide so that it aliases the lanes of the fake __m128d / __m256d in glm's unions.
// (Extension of sym.hpp kept here because sym.hpp must not be edited.)
#pragma once
#include "../sym.hpp"

namespace symt {
struct SymD {
  uint32_t id; uint32_t pad;
  SymD() = default;
#define SYMD_CT(T) SymD(T v) : id(mk_lit((double)v)), pad(0) {}
  SYMD_CT(double) SYMD_CT(float) SYMD_CT(long double) SYMD_CT(int) SYMD_CT(unsigned) SYMD_CT(long) SYMD_CT(unsigned long) SYMD_CT(long long) SYMD_CT(unsigned long long)
  SYMD_CT(signed char) SYMD_CT(unsigned char) SYMD_CT(short) SYMD_CT(unsigned short)
#undef SYMD_CT
  SymD(bool v) : id(mk_lit(v ? 1.0 : 0.0)), pad(0) {}
  explicit SymD(SymR r) : id(r.id), pad(0) {}                      // float -> double conversion is exact: same node
  // double -> float narrowing rounds; the format cannot express it.  The implicit conversion exists only so that
  // glm code relying on it compiles (type_quat_simd.inl: `_mm_set_ps1(double s)`); executing it fails the unit
  // (defined in policy_sym.hpp).
  operator SymR() const;
  static SymD from(uint32_t id) { SymD s; s.id = id; s.pad = 0; return s; }
  static SymD var(uint32_t i) { return from(mk_var(i)); }
  SymD& operator+=(SymD o) { id = mk(ADD, id, o.id); return *this; }
  SymD& operator-=(SymD o) { id = mk(SUB, id, o.id); return *this; }
  SymD& operator*=(SymD o) { id = mk(MUL, id, o.id); return *this; }
  SymD& operator/=(SymD o) { id = mk(DIV, id, o.id); return *this; }
  SymD& operator++() { id = mk(ADD, id, mk_lit(1.0)); return *this; }
  SymD& operator--() { id = mk(SUB, id, mk_lit(1.0)); return *this; }
  SymD operator++(int) { SymD r = *this; ++*this; return r; }
  SymD operator--(int) { SymD r = *this; --*this; return r; }
};
static_assert(sizeof(SymD) == 8 && std::is_trivially_copyable<SymD>::value && std::is_trivially_default_constructible<SymD>::value, "SymD must be an 8-byte POD handle");
inline SymD operator+(SymD a, SymD b) { return SymD::from(mk(ADD, a.id, b.id)); }
inline SymD operator-(SymD a, SymD b) { return SymD::from(mk(SUB, a.id, b.id)); }
inline SymD operator*(SymD a, SymD b) { return SymD::from(mk(MUL, a.id, b.id)); }
inline SymD operator/(SymD a, SymD b) { return SymD::from(mk(DIV, a.id, b.id)); }
inline SymD operator-(SymD a) { return SymD::from(mk(NEG, a.id)); }
inline SymD operator+(SymD a) { return a; }
inline bool operator<(SymD a, SymD b) { return decide_cmp(C_LT, a.id, b.id); }
inline bool operator>(SymD a, SymD b) { return decide_cmp(C_LT, b.id, a.id); }
inline bool operator<=(SymD a, SymD b) { return decide_cmp(C_LE, a.id, b.id); }
inline bool operator>=(SymD a, SymD b) { return decide_cmp(C_LE, b.id, a.id); }
inline bool operator==(SymD a, SymD b) { return decide_cmp(C_EQ, a.id, b.id); }
inline bool operator!=(SymD a, SymD b) { return !decide_cmp(C_EQ, a.id, b.id); }
#define SYMD_MIXED(OP, RET) \
  template<class A, class = typename std::enable_if<std::is_arithmetic<A>::value>::type> inline RET operator OP(SymD a, A b) { return a OP SymD(b); } \
  template<class A, class = typename std::enable_if<std::is_arithmetic<A>::value>::type> inline RET operator OP(A a, SymD b) { return SymD(a) OP b; }
SYMD_MIXED(+, SymD) SYMD_MIXED(-, SymD) SYMD_MIXED(*, SymD) SYMD_MIXED(/, SymD)
SYMD_MIXED(<, bool) SYMD_MIXED(>, bool) SYMD_MIXED(<=, bool) SYMD_MIXED(>=, bool) SYMD_MIXED(==, bool) SYMD_MIXED(!=, bool)
#undef SYMD_MIXED
template<> struct sym_ty<SymD> { static constexpr Ty value = T_R; };
} // namespace symt
using symt::SymD;

namespace std {
template<> struct numeric_limits<SymD> {
  static constexpr bool is_specialized = true, is_signed = true, is_integer = false, is_exact = false,
    has_infinity = true, has_quiet_NaN = true, has_signaling_NaN = true, is_iec559 = true, is_bounded = true,
    is_modulo = false, traps = false, tinyness_before = false;
  static constexpr int digits = 53, digits10 = 15, max_digits10 = 17, radix = 2;
  static SymD epsilon() { return SymD::from(symt::mk_konst(symt::K_EPS)); }
  static SymD min() { return SymD::from(symt::mk_konst(symt::K_FMIN)); }
  static SymD max() { return SymD::from(symt::mk_konst(symt::K_FMAX)); }
  static SymD lowest() { return -max(); }
  static SymD infinity() { return SymD::from(symt::mk_konst(symt::K_INF)); }
};
#define SYMD_F1(name, F) inline SymD name(SymD a) { return SymD::from(symt::mk(symt::CALL1, a.id, 0, 0, symt::F)); }
SYMD_F1(sqrt, F_SQRT) SYMD_F1(sin, F_SIN) SYMD_F1(cos, F_COS) SYMD_F1(tan, F_TAN) SYMD_F1(asin, F_ASIN) SYMD_F1(acos, F_ACOS) SYMD_F1(atan, F_ATAN)
SYMD_F1(sinh, F_SINH) SYMD_F1(cosh, F_COSH) SYMD_F1(tanh, F_TANH) SYMD_F1(asinh, F_ASINH) SYMD_F1(acosh, F_ACOSH) SYMD_F1(atanh, F_ATANH)
SYMD_F1(exp, F_EXP) SYMD_F1(log, F_LOG) SYMD_F1(exp2, F_EXP2) SYMD_F1(log2, F_LOG2) SYMD_F1(floor, F_FLOOR) SYMD_F1(ceil, F_CEIL) SYMD_F1(trunc, F_TRUNC) SYMD_F1(round, F_ROUND)
SYMD_F1(abs, F_ABS) SYMD_F1(fabs, F_ABS)
#undef SYMD_F1
inline SymD atan2(SymD a, SymD b) { return SymD::from(symt::mk(symt::CALL2, a.id, b.id, 0, symt::F_ATAN2)); }
inline SymD pow(SymD a, SymD b) { return SymD::from(symt::mk(symt::CALL2, a.id, b.id, 0, symt::F_POW)); }
inline SymD fmod(SymD a, SymD b) { return SymD::from(symt::mk(symt::CALL2, a.id, b.id, 0, symt::F_FMOD)); }
inline SymD fma(SymD a, SymD b, SymD c) { return SymD::from(symt::mk(symt::CALL3, a.id, b.id, c.id, symt::F_FMA)); }
inline bool isnan(SymD a) { return symt::oracle().ask(symt::mk(symt::C_ISNAN, a.id)); }
inline bool isinf(SymD a) { return symt::oracle().ask(symt::mk(symt::C_ISINF, a.id)); }
}
