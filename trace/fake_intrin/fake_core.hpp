// Fake x86 SIMD intrinsics, generic in a lane *policy* P  (property C03).
//
// A 128-bit register is four 32-bit lanes `P::W`.  A lane is an opaque handle whose *denotation* is a 32-bit
// pattern; the policy classifies it (P::kind) as
//     K_REAL  a float value            (symbolic policy: an expression node of real type)
//     K_INT   a 32-bit integer value   (symbolic policy: an expression node of integer type / integer literal)
//     K_MASK  all-ones / all-zeros     (symbolic policy: a *condition* node; all-ones iff the condition holds)
//     K_UNDEF poison: never written, or a value the expression format cannot express.  Poison propagates
//             lane-wise and is an error only if it reaches an output or a decision.
// and may know its bit pattern exactly (P::bits: literals).
//
// Everything that has structure (which lane goes where, evaluation order of horizontal adds, what `min`
// returns on a tie, how a compare/and/andnot/or "select" idiom is resolved, how the constant sign/abs masks are
// recognised, round-to-nearest-even ...) is written HERE, once, in terms of the policy's atomic constructors
// (add, mul, sqrt, lt, ask ...).  The symbolic policy (policy_sym.hpp) makes those constructors build expression
// nodes and decisions; the concrete policy (policy_conc.hpp) makes them compute on real floats/ints, so that
// diff/C03_fake_check.cpp can compare every function below with the hardware instruction, lane by lane.
//
// INVARIANT checked by C03_fake_check: for every function f below and all inputs, either the policy's `fail`
// was raised / a poison lane is produced, or   denote(f_fake(x…)) == f_hardware(denote(x…))   bit for bit
// (NaN payloads aside).
//
// Mask resolution: a K_MASK lane is *lazy*.  and/andnot/or/xor/blendv/movemask "ask" the policy for the truth of
// the condition (the symbolic policy forks the trace through sym.hpp's decision oracle, memoised per run), so a
// select idiom becomes a traced branch:  and(mask c, v) = c ? v : 0.
#pragma once
#include <cstdint>
#include <cstring>
#include <cmath>
#include <utility>

namespace fki {

enum Kind : uint8_t { K_UNDEF, K_REAL, K_INT, K_MASK };
enum Fn1 : uint8_t { FN_SQRT, FN_FLOOR, FN_CEIL, FN_TRUNC, FN_ROUND /* half away from zero (std::round) */, FN_ABS };

inline bool nan_bits(uint32_t b) { return (b & 0x7F800000u) == 0x7F800000u && (b & 0x007FFFFFu) != 0; }

// ---------------------------------------------------------------- double-precision registers
// Lanes are of type D (plain `double` unless the TU renames it); only data movement and IEEE arithmetic.
template<class D> struct alignas(16) m128d_t { D d[2]; };
template<class D> struct alignas(32) m256d_t { D d[4]; };
struct alignas(32) m256i_t { uint64_t q[4]; };

template<class P> struct isa {
  using W = typename P::W;
  using R = typename P::R;      // the scalar `float` of the TU (SymR, or the check's tagged float)
  using D = typename P::D;      // the scalar `double` of the TU
  struct alignas(16) m128  { W f[4]; };
  struct alignas(16) m128i { W f[4]; };
  using m128d = m128d_t<D>;
  using m256d = m256d_t<D>;
  using m256i = m256i_t;

  // ------------------------------------------------------------ lane helpers
  static bool undef(W w) { return P::kind(w) == K_UNDEF; }
  static W poison(const char* why) { return P::poison(why); }
  // literal lane with exactly these bits.  In a real-typed trace a non-NaN pattern is kept as a *float* literal
  // (glm reads lanes back through `vec::x`, where only real nodes may appear); NaN patterns (the abs mask,
  // all-ones) stay integer literals.
  static W kbits(uint32_t b) { return (P::real_mode() && !nan_bits(b)) ? P::real_from_bits(b) : P::int_from_bits(b); }
  static W zero() { return kbits(0); }

  static W to_real(W w) {
    switch (P::kind(w)) {
      case K_REAL: return w;
      case K_INT: { uint32_t b; if (P::bits(w, b)) return P::real_from_bits(b); return poison("non-constant integer lane reinterpreted as float"); }
      case K_MASK: return P::real_from_bits(P::ask(w) ? 0xFFFFFFFFu : 0u);
      default: return w;
    }
  }
  static W to_int(W w) {
    switch (P::kind(w)) {
      case K_INT: return w;
      case K_REAL: { uint32_t b; if (P::bits(w, b)) return P::int_from_bits(b); return poison("non-constant float lane reinterpreted as integer"); }
      case K_MASK: return P::int_from_bits(P::ask(w) ? 0xFFFFFFFFu : 0u);
      default: return w;
    }
  }
  // real unary / binary / ternary with poison propagation
  template<class F> static W r1(F f, W a) { if (undef(a)) return a; a = to_real(a); if (undef(a)) return a; return f(a); }
  template<class F> static W r2(F f, W a, W b) {
    if (undef(a)) return a; if (undef(b)) return b;
    a = to_real(a); if (undef(a)) return a; b = to_real(b); if (undef(b)) return b; return f(a, b);
  }
  template<class F> static W r3(F f, W a, W b, W c) {
    if (undef(a)) return a; if (undef(b)) return b; if (undef(c)) return c;
    a = to_real(a); if (undef(a)) return a; b = to_real(b); if (undef(b)) return b; c = to_real(c); if (undef(c)) return c; return f(a, b, c);
  }
  template<class F> static W i2(F f, W a, W b) {
    if (undef(a)) return a; if (undef(b)) return b;
    a = to_int(a); if (undef(a)) return a; b = to_int(b); if (undef(b)) return b; return f(a, b);
  }
  static W radd(W a, W b) { return r2(P::r_add, a, b); }
  static W rsub(W a, W b) { return r2(P::r_sub, a, b); }
  static W rmul(W a, W b) { return r2(P::r_mul, a, b); }
  static W rdiv(W a, W b) { return r2(P::r_div, a, b); }
  static W rfma(W a, W b, W c) { return r3(P::r_fma, a, b, c); }
  static W rsqrt_exact(W a) { return r1([](W x) { return P::r_call1(FN_SQRT, x); }, a); }
  static W rcall(Fn1 f, W a) { return r1([f](W x) { return P::r_call1(f, x); }, a); }
  static W one() { return P::real_from_bits(0x3F800000u); }
  // hardware approximations, modelled by the exact function (the policy records that the unit used one)
  static W rrcp(W a) { P::note("approx rcp"); return rdiv(one(), a); }
  static W rrsqrt(W a) { P::note("approx rsqrt"); return rdiv(one(), rsqrt_exact(a)); }

  // comparisons -> mask lanes (IEEE: every ordered predicate is false on NaN, neq is true on NaN)
  static W clt(W a, W b) { return r2(P::c_lt, a, b); }
  static W cle(W a, W b) { return r2(P::c_le, a, b); }
  static W ceq(W a, W b) { return r2(P::c_eq, a, b); }
  static W cnot(W c) { if (undef(c)) return c; return P::c_not(c); }
  static bool decide(W c, bool& bad) { if (P::kind(c) != K_MASK) { bad = true; P::fail("decision on a poisoned / non-mask lane"); return false; } return P::ask(c); }

  // MINPS/MAXPS: return the SECOND operand unless the strict comparison holds (NaN or tie -> b)
  static W rmin(W a, W b) { if (undef(a)) return a; if (undef(b)) return b; a = to_real(a); b = to_real(b); if (undef(a)) return a; if (undef(b)) return b; return P::ask(P::c_lt(a, b)) ? a : b; }
  static W rmax(W a, W b) { if (undef(a)) return a; if (undef(b)) return b; a = to_real(a); b = to_real(b); if (undef(a)) return a; if (undef(b)) return b; return P::ask(P::c_lt(b, a)) ? a : b; }

  // round to nearest, ties to even (ROUNDPS imm 0) out of the format's functions: it differs from std::round
  // (ties away from zero) exactly when the fraction is 1/2 and trunc(x) is even
  static W rroundeven(W a) {
    return r1([](W x) {
      W t = P::r_call1(FN_TRUNC, x);
      W half = P::real_from_bits(0x3F000000u), two = P::real_from_bits(0x40000000u), z = P::real_from_bits(0u);
      bool tie = P::ask(P::c_eq(P::r_call1(FN_ABS, P::r_sub(x, t)), half));
      if (tie && P::ask(P::c_eq(P::r_fmod(t, two), z))) return t;
      return P::r_call1(FN_ROUND, x);
    }, a);
  }

  // sign bit of a lane as a decision (movemask, blendv, and-with-0x80000000)
  static bool signbit_of(W w) {
    uint32_t b;
    if (P::bits(w, b)) return (b >> 31) != 0;
    switch (P::kind(w)) {
      case K_MASK: return P::ask(w);
      case K_REAL: return P::ask(P::c_signbit(w));
      case K_INT: return P::ask(ilt_s(w, P::int_from_bits(0)));
      default: P::fail("sign bit of a poisoned lane decides"); return false;
    }
  }

  // ------------------------------------------------------------ bitwise lane ops (any register type)
  static W bw_not(W a) {
    uint32_t k;
    if (P::bits(a, k)) return kbits(~k);
    switch (P::kind(a)) {
      case K_MASK: return P::c_not(a);
      case K_INT: return P::i_not(a);
      case K_REAL: return poison("bitwise NOT of a non-constant float lane");
      default: return a;
    }
  }
  static W bw_and(W a, W b) {
    uint32_t ka = 0, kb = 0; bool ha = P::bits(a, ka), hb = P::bits(b, kb);
    if ((ha && ka == 0) || (hb && kb == 0)) return zero();           // x & 0 = 0 even for a poisoned x
    if (undef(a)) return a; if (undef(b)) return b;
    if (ha && hb) return kbits(ka & kb);
    Kind A = P::kind(a), B = P::kind(b);
    if (A == K_MASK && B == K_MASK) return P::c_and(a, b);
    if (A == K_MASK) return P::ask(a) ? b : zero();
    if (B == K_MASK) return P::ask(b) ? a : zero();
    if (ha) { std::swap(a, b); std::swap(ka, kb); std::swap(ha, hb); std::swap(A, B); }
    if (hb) {
      if (kb == 0xFFFFFFFFu) return a;
      if (A == K_REAL) {
        if (kb == 0x7FFFFFFFu) return P::r_call1(FN_ABS, a);
        if (kb == 0x80000000u) return P::ask(P::c_signbit(a)) ? kbits(0x80000000u) : zero();
        return poison("AND of a non-constant float lane with a constant other than the abs/sign masks");
      }
      return P::i_and(a, P::int_from_bits(kb));
    }
    if (A == K_INT && B == K_INT) return P::i_and(a, b);
    return poison("AND of two non-constant float lanes");
  }
  static W bw_or(W a, W b) {
    uint32_t ka = 0, kb = 0; bool ha = P::bits(a, ka), hb = P::bits(b, kb);
    if (ha && ka == 0) return b;
    if (hb && kb == 0) return a;
    if ((ha && ka == 0xFFFFFFFFu) || (hb && kb == 0xFFFFFFFFu)) return kbits(0xFFFFFFFFu);
    if (undef(a)) return a; if (undef(b)) return b;
    if (ha && hb) return kbits(ka | kb);
    Kind A = P::kind(a), B = P::kind(b);
    if (A == K_MASK && B == K_MASK) return P::c_or(a, b);
    if (A == K_MASK) return P::ask(a) ? kbits(0xFFFFFFFFu) : b;
    if (B == K_MASK) return P::ask(b) ? kbits(0xFFFFFFFFu) : a;
    if (ha) { std::swap(a, b); std::swap(ka, kb); std::swap(ha, hb); std::swap(A, B); }
    if (hb) {
      if (A == K_REAL) {
        if (kb == 0x80000000u) return P::r_neg(P::r_call1(FN_ABS, a));
        return poison("OR of a non-constant float lane with a constant other than the sign mask");
      }
      return P::i_or(a, P::int_from_bits(kb));
    }
    if (A == K_INT && B == K_INT) return P::i_or(a, b);
    return poison("OR of two non-constant float lanes");
  }
  static W bw_xor(W a, W b) {
    uint32_t ka = 0, kb = 0; bool ha = P::bits(a, ka), hb = P::bits(b, kb);
    if (ha && ka == 0) return b;
    if (hb && kb == 0) return a;
    if (undef(a)) return a; if (undef(b)) return b;
    if (ha && hb) return kbits(ka ^ kb);
    Kind A = P::kind(a), B = P::kind(b);
    if (A == K_MASK && B == K_MASK) return P::c_or(P::c_and(a, P::c_not(b)), P::c_and(P::c_not(a), b));
    if (A == K_MASK) return P::ask(a) ? bw_not(b) : b;
    if (B == K_MASK) return P::ask(b) ? bw_not(a) : a;
    if (ha) { std::swap(a, b); std::swap(ka, kb); std::swap(ha, hb); std::swap(A, B); }
    if (hb) {
      if (A == K_REAL) {
        if (kb == 0x80000000u) return P::r_neg(a);
        return poison("XOR of a non-constant float lane with a constant other than the sign mask");
      }
      return P::i_xor(a, P::int_from_bits(kb));
    }
    if (A == K_INT && B == K_INT) return P::i_xor(a, b);
    return poison("XOR of two non-constant float lanes");
  }
  static W bw_andnot(W a, W b) {            // (~a) & b
    uint32_t kb = 0; if (P::bits(b, kb) && kb == 0) return zero();
    uint32_t ka = 0; if (P::bits(a, ka) && ka == 0xFFFFFFFFu) return zero();
    if (undef(a)) return a;
    return bw_and(bw_not(a), b);
  }

  // ------------------------------------------------------------ integer lane ops
  static W iadd(W a, W b) { return i2(P::i_add, a, b); }
  static W isub(W a, W b) { return i2(P::i_sub, a, b); }
  static W imul(W a, W b) { return i2(P::i_mul, a, b); }
  static W ineg(W a) { if (undef(a)) return a; a = to_int(a); if (undef(a)) return a; return P::i_neg(a); }
  // signed / unsigned order on the policy's native integer order (flip the sign bit to change signedness)
  static W flip(W a) { return P::i_xor(a, P::int_from_bits(0x80000000u)); }
  static W ilt_s(W a, W b) { return P::int_signed() ? P::ci_lt(a, b) : P::ci_lt(flip(a), flip(b)); }
  static W ilt_u(W a, W b) { return P::int_signed() ? P::ci_lt(flip(a), flip(b)) : P::ci_lt(a, b); }
  static W icmp(W (*f)(W, W), W a, W b) { return i2(f, a, b); }
  // shifts by a known count n
  static W ishl(W a, unsigned long long n) {
    if (undef(a)) return a; a = to_int(a); if (undef(a)) return a;
    if (n == 0) return a; if (n > 31) return P::int_from_bits(0);
    uint32_t k; if (P::bits(a, k)) return P::int_from_bits(k << n);
    return P::i_shl(a, P::int_from_bits((uint32_t)n));
  }
  static W ishr_logical(W a, unsigned long long n) {
    if (undef(a)) return a; a = to_int(a); if (undef(a)) return a;
    if (n == 0) return a; if (n > 31) return P::int_from_bits(0);
    uint32_t k; if (P::bits(a, k)) return P::int_from_bits(k >> n);
    W s = P::i_shr(a, P::int_from_bits((uint32_t)n));            // native shift
    if (!P::int_signed()) return s;
    return P::i_and(s, P::int_from_bits(0xFFFFFFFFu >> n));       // arithmetic shift, then clear the copies of the sign
  }
  static W ishr_arith(W a, unsigned long long n) {
    if (undef(a)) return a; a = to_int(a); if (undef(a)) return a;
    if (n == 0) return a; if (n > 31) n = 31;
    uint32_t k; if (P::bits(a, k)) return P::int_from_bits((uint32_t)((int32_t)k >> n));
    W cnt = P::int_from_bits((uint32_t)n);
    if (P::int_signed()) return P::i_shr(a, cnt);
    // logical shift, then OR in the sign copies:  (0 - (a >> 31)) << (32 - n)
    W sgn = P::i_sub(P::int_from_bits(0), P::i_shr(a, P::int_from_bits(31)));
    return P::i_or(P::i_shr(a, cnt), P::i_shl(sgn, P::int_from_bits((uint32_t)(32 - n))));
  }
  // count operand of PSLLD/PSRLD/PSRAD: the low 64 bits of the register; must be constant
  static bool count_of(m128i c, unsigned long long& n) {
    uint32_t lo, hi; if (!P::bits(c.f[0], lo) || !P::bits(c.f[1], hi)) return false;
    n = ((unsigned long long)hi << 32) | lo; return true;
  }

  // ------------------------------------------------------------ __m128: construction, memory
  static m128 set_ps(R e3, R e2, R e1, R e0) { m128 r; r.f[0] = P::w_of_r(e0); r.f[1] = P::w_of_r(e1); r.f[2] = P::w_of_r(e2); r.f[3] = P::w_of_r(e3); return r; }
  static m128 setr_ps(R e0, R e1, R e2, R e3) { return set_ps(e3, e2, e1, e0); }
  static m128 set1_ps(R a) { W w = P::w_of_r(a); m128 r; for (int i = 0; i < 4; ++i) r.f[i] = w; return r; }
  static m128 set_ps1(R a) { return set1_ps(a); }
  static m128 set_ss(R a) { m128 r; r.f[0] = P::w_of_r(a); r.f[1] = r.f[2] = r.f[3] = zero(); return r; }
  static m128 setzero_ps() { m128 r; for (int i = 0; i < 4; ++i) r.f[i] = zero(); return r; }
  static m128 load_ss(R const* p) { return set_ss(*p); }
  static m128 load_ps(R const* p) { m128 r; for (int i = 0; i < 4; ++i) r.f[i] = P::w_of_r(p[i]); return r; }
  static m128 loadu_ps(R const* p) { return load_ps(p); }
  static m128 load1_ps(R const* p) { return set1_ps(*p); }
  static void store_ss(R* p, m128 a) { *p = P::r_of_w(a.f[0]); }
  static void store_ps(R* p, m128 a) { for (int i = 0; i < 4; ++i) p[i] = P::r_of_w(a.f[i]); }
  static void storeu_ps(R* p, m128 a) { store_ps(p, a); }
  static R cvtss_f32(m128 a) { return P::r_of_w(a.f[0]); }

  // ------------------------------------------------------------ __m128: arithmetic
#define FKI_PS(name, op) static m128 name##_ps(m128 a, m128 b) { m128 r; for (int i = 0; i < 4; ++i) r.f[i] = op(a.f[i], b.f[i]); return r; } \
                         static m128 name##_ss(m128 a, m128 b) { m128 r = a; r.f[0] = op(a.f[0], b.f[0]); return r; }
  FKI_PS(add, radd) FKI_PS(sub, rsub) FKI_PS(mul, rmul) FKI_PS(div, rdiv) FKI_PS(min, rmin) FKI_PS(max, rmax)
  static W cgt(W a, W b) { return clt(b, a); }
  static W cge(W a, W b) { return cle(b, a); }
  static W cneq(W a, W b) { return cnot(ceq(a, b)); }
  static W cnlt(W a, W b) { return cnot(clt(a, b)); }
  static W cnle(W a, W b) { return cnot(cle(a, b)); }
  static W cngt(W a, W b) { return cnot(clt(b, a)); }
  static W cnge(W a, W b) { return cnot(cle(b, a)); }
  FKI_PS(cmplt, clt) FKI_PS(cmple, cle) FKI_PS(cmpeq, ceq) FKI_PS(cmpgt, cgt) FKI_PS(cmpge, cge) FKI_PS(cmpneq, cneq)
  FKI_PS(cmpnlt, cnlt) FKI_PS(cmpnle, cnle) FKI_PS(cmpngt, cngt) FKI_PS(cmpnge, cnge)
#undef FKI_PS
#define FKI_PS1(name, op) static m128 name##_ps(m128 a) { m128 r; for (int i = 0; i < 4; ++i) r.f[i] = op(a.f[i]); return r; } \
                          static m128 name##_ss(m128 a) { m128 r = a; r.f[0] = op(a.f[0]); return r; }
  FKI_PS1(sqrt, rsqrt_exact) FKI_PS1(rcp, rrcp) FKI_PS1(rsqrt, rrsqrt)
#undef FKI_PS1
  static m128 fmadd_ps(m128 a, m128 b, m128 c) { m128 r; for (int i = 0; i < 4; ++i) r.f[i] = rfma(a.f[i], b.f[i], c.f[i]); return r; }
  static m128 fmadd_ss(m128 a, m128 b, m128 c) { m128 r = a; r.f[0] = rfma(a.f[0], b.f[0], c.f[0]); return r; }
  static m128 hadd_ps(m128 a, m128 b) { m128 r; r.f[0] = radd(a.f[0], a.f[1]); r.f[1] = radd(a.f[2], a.f[3]); r.f[2] = radd(b.f[0], b.f[1]); r.f[3] = radd(b.f[2], b.f[3]); return r; }
  // DPPS: products selected by imm[7:4] (others +0), summed as (t0+t1)+(t2+t3), broadcast to the lanes in imm[3:0]
  static m128 dp_ps(m128 a, m128 b, int imm) {
    W t[4]; for (int i = 0; i < 4; ++i) t[i] = (imm & (16 << i)) ? rmul(a.f[i], b.f[i]) : zero();
    W s = radd(radd(t[0], t[1]), radd(t[2], t[3]));
    m128 r; for (int i = 0; i < 4; ++i) r.f[i] = (imm & (1 << i)) ? s : zero(); return r;
  }
  // ROUNDPS: imm[1:0] 0 nearest-even, 1 floor, 2 ceil, 3 trunc (imm[2] = use MXCSR: not modelled)
  static W rround(W a, int imm) {
    if (imm & 4) return poison("ROUNDPS with the MXCSR rounding mode");
    switch (imm & 3) { case 0: return rroundeven(a); case 1: return rcall(FN_FLOOR, a); case 2: return rcall(FN_CEIL, a); default: return rcall(FN_TRUNC, a); }
  }
  static m128 round_ps(m128 a, int imm) { m128 r; for (int i = 0; i < 4; ++i) r.f[i] = rround(a.f[i], imm); return r; }
  static m128 floor_ps(m128 a) { return round_ps(a, 1); }
  static m128 ceil_ps(m128 a) { return round_ps(a, 2); }

  // ------------------------------------------------------------ __m128: bitwise, selection
#define FKI_BW(T, name, op) static T name(T a, T b) { T r; for (int i = 0; i < 4; ++i) r.f[i] = op(a.f[i], b.f[i]); return r; }
  FKI_BW(m128, and_ps, bw_and) FKI_BW(m128, or_ps, bw_or) FKI_BW(m128, xor_ps, bw_xor) FKI_BW(m128, andnot_ps, bw_andnot)
  FKI_BW(m128i, and_si128, bw_and) FKI_BW(m128i, or_si128, bw_or) FKI_BW(m128i, xor_si128, bw_xor) FKI_BW(m128i, andnot_si128, bw_andnot)
#undef FKI_BW
  static int movemask_ps(m128 a) { int m = 0; for (int i = 0; i < 4; ++i) if (signbit_of(a.f[i])) m |= 1 << i; return m; }
  static m128 blend_ps(m128 a, m128 b, int imm) { m128 r; for (int i = 0; i < 4; ++i) r.f[i] = (imm & (1 << i)) ? b.f[i] : a.f[i]; return r; }
  static m128 blendv_ps(m128 a, m128 b, m128 m) { m128 r; for (int i = 0; i < 4; ++i) r.f[i] = signbit_of(m.f[i]) ? b.f[i] : a.f[i]; return r; }

  // ------------------------------------------------------------ __m128: data movement
  static m128 shuffle_ps(m128 a, m128 b, int imm) { m128 r; r.f[0] = a.f[imm & 3]; r.f[1] = a.f[(imm >> 2) & 3]; r.f[2] = b.f[(imm >> 4) & 3]; r.f[3] = b.f[(imm >> 6) & 3]; return r; }
  static m128 permute_ps(m128 a, int imm) { m128 r; for (int i = 0; i < 4; ++i) r.f[i] = a.f[(imm >> (2 * i)) & 3]; return r; }
  static m128 unpacklo_ps(m128 a, m128 b) { m128 r; r.f[0] = a.f[0]; r.f[1] = b.f[0]; r.f[2] = a.f[1]; r.f[3] = b.f[1]; return r; }
  static m128 unpackhi_ps(m128 a, m128 b) { m128 r; r.f[0] = a.f[2]; r.f[1] = b.f[2]; r.f[2] = a.f[3]; r.f[3] = b.f[3]; return r; }
  static m128 movehl_ps(m128 a, m128 b) { m128 r; r.f[0] = b.f[2]; r.f[1] = b.f[3]; r.f[2] = a.f[2]; r.f[3] = a.f[3]; return r; }
  static m128 movelh_ps(m128 a, m128 b) { m128 r; r.f[0] = a.f[0]; r.f[1] = a.f[1]; r.f[2] = b.f[0]; r.f[3] = b.f[1]; return r; }
  static m128 move_ss(m128 a, m128 b) { m128 r = a; r.f[0] = b.f[0]; return r; }
  static m128 movehdup_ps(m128 a) { m128 r; r.f[0] = r.f[1] = a.f[1]; r.f[2] = r.f[3] = a.f[3]; return r; }
  static m128 moveldup_ps(m128 a) { m128 r; r.f[0] = r.f[1] = a.f[0]; r.f[2] = r.f[3] = a.f[2]; return r; }

  // ------------------------------------------------------------ casts (no-ops on the lanes)
  static m128i castps_si128(m128 a) { m128i r; for (int i = 0; i < 4; ++i) r.f[i] = a.f[i]; return r; }
  static m128 castsi128_ps(m128i a) { m128 r; for (int i = 0; i < 4; ++i) r.f[i] = a.f[i]; return r; }
  // to/from the double registers: raw bytes (two lanes per double); only meaningful for moving data
  static m128d castps_pd(m128 a) { static_assert(sizeof(m128d) == sizeof(m128) || sizeof(W) != 4, ""); m128d r; std::memcpy((void*)&r, &a, sizeof(m128d) < sizeof(m128) ? sizeof(m128d) : sizeof(m128)); return r; }
  static m128d castsi128_pd(m128i a) { m128d r; std::memcpy((void*)&r, &a, sizeof(m128d) < sizeof(m128i) ? sizeof(m128d) : sizeof(m128i)); return r; }
  static m128 castpd_ps(m128d a) { m128 r; std::memcpy((void*)&r, &a, sizeof(m128d) < sizeof(m128) ? sizeof(m128d) : sizeof(m128)); return r; }
  static m128i castpd_si128(m128d a) { m128i r; std::memcpy((void*)&r, &a, sizeof(m128d) < sizeof(m128i) ? sizeof(m128d) : sizeof(m128i)); return r; }

  // ------------------------------------------------------------ __m128i
  // a C++ int handed to an intrinsic becomes a literal lane -- unless the policy recognises it as a lane word that was
  // moved unchanged (it stays that lane) or as something glm's generic code computed from lane handles (poison);
  // both only in integer-typed traces, see policy_sym.hpp
  static W from_cxx_int(uint32_t b) { W lane; if (P::int_is_lane(b, lane)) return lane; if (P::suspicious_int(b)) return poison("a C++ int computed from lane handles (generic per-component code on an aligned integer vector) was passed to an intrinsic"); return kbits(b); }
  static m128i set_epi32(int e3, int e2, int e1, int e0) { m128i r; r.f[0] = from_cxx_int((uint32_t)e0); r.f[1] = from_cxx_int((uint32_t)e1); r.f[2] = from_cxx_int((uint32_t)e2); r.f[3] = from_cxx_int((uint32_t)e3); return r; }
  static m128i setr_epi32(int e0, int e1, int e2, int e3) { return set_epi32(e3, e2, e1, e0); }
  static m128i set1_epi32(int a) { return set_epi32(a, a, a, a); }
  static m128i set1_epi64x(long long a) { return set_epi32((int)((unsigned long long)a >> 32), (int)a, (int)((unsigned long long)a >> 32), (int)a); }
  static m128i setzero_si128() { return set1_epi32(0); }
  static m128i cvtsi32_si128(int a) { return set_epi32(0, 0, 0, a); }
  static m128i loadu_si128(m128i const* p) { return *p; }
  static m128i load_si128(m128i const* p) { return *p; }
  static void storeu_si128(m128i* p, m128i a) { *p = a; }
  static void store_si128(m128i* p, m128i a) { *p = a; }
#define FKI_I(name, op) static m128i name(m128i a, m128i b) { m128i r; for (int i = 0; i < 4; ++i) r.f[i] = op(a.f[i], b.f[i]); return r; }
  FKI_I(add_epi32, iadd) FKI_I(sub_epi32, isub) FKI_I(mullo_epi32, imul)
  static W ceq_i(W a, W b) { return icmp(P::ci_eq, a, b); }
  static W clt_i(W a, W b) { return icmp(ilt_s, a, b); }
  static W cgt_i(W a, W b) { return icmp(ilt_s, b, a); }
  static W imin_s(W a, W b) { W c = icmp(ilt_s, a, b); if (undef(c)) return c; return P::ask(c) ? a : b; }
  static W imax_s(W a, W b) { W c = icmp(ilt_s, b, a); if (undef(c)) return c; return P::ask(c) ? a : b; }
  static W imin_u(W a, W b) { W c = icmp(ilt_u, a, b); if (undef(c)) return c; return P::ask(c) ? a : b; }
  static W imax_u(W a, W b) { W c = icmp(ilt_u, b, a); if (undef(c)) return c; return P::ask(c) ? a : b; }
  FKI_I(cmpeq_epi32, ceq_i) FKI_I(cmplt_epi32, clt_i) FKI_I(cmpgt_epi32, cgt_i)
  FKI_I(min_epi32, imin_s) FKI_I(max_epi32, imax_s) FKI_I(min_epu32, imin_u) FKI_I(max_epu32, imax_u)
  // PSIGND: b < 0 -> -a, b == 0 -> 0, b > 0 -> a
  static W isign(W a, W b) {
    if (undef(a)) return a; if (undef(b)) return b;
    a = to_int(a); b = to_int(b); if (undef(a)) return a; if (undef(b)) return b;
    W z = P::int_from_bits(0);
    if (P::ask(ilt_s(b, z))) return P::i_neg(a);
    if (P::ask(P::ci_eq(b, z))) return z;
    return a;
  }
  FKI_I(sign_epi32, isign)
#undef FKI_I
  // PMULUDQ: 64-bit products of the even lanes; the low halves are the wrapped 32-bit products, the high halves
  // are not expressible on non-constant lanes (poison: glm's integer multiply discards them)
  static m128i mul_epu32(m128i a, m128i b) {
    m128i r;
    for (int i = 0; i < 4; i += 2) {
      uint32_t x, y;
      if (P::bits(a.f[i], x) && P::bits(b.f[i], y)) { unsigned long long p = (unsigned long long)x * y; r.f[i] = kbits((uint32_t)p); r.f[i + 1] = kbits((uint32_t)(p >> 32)); }
      else { r.f[i] = imul(a.f[i], b.f[i]); r.f[i + 1] = (undef(a.f[i]) || undef(b.f[i])) ? P::poison(0) : poison("high half of a 32x32->64 multiply"); }
    }
    return r;
  }
  static m128i slli_epi32(m128i a, int n) { m128i r; for (int i = 0; i < 4; ++i) r.f[i] = ishl(a.f[i], (unsigned)n); return r; }
  static m128i srli_epi32(m128i a, int n) { m128i r; for (int i = 0; i < 4; ++i) r.f[i] = ishr_logical(a.f[i], (unsigned)n); return r; }
  static m128i srai_epi32(m128i a, int n) { m128i r; for (int i = 0; i < 4; ++i) r.f[i] = ishr_arith(a.f[i], (unsigned)n); return r; }
  static m128i bad_count(m128i a) { m128i r; for (int i = 0; i < 4; ++i) r.f[i] = undef(a.f[i]) ? a.f[i] : poison("vector shift by a non-constant count"); return r; }
  static m128i sll_epi32(m128i a, m128i c) { unsigned long long n; if (!count_of(c, n)) return bad_count(a); m128i r; for (int i = 0; i < 4; ++i) r.f[i] = ishl(a.f[i], n); return r; }
  static m128i srl_epi32(m128i a, m128i c) { unsigned long long n; if (!count_of(c, n)) return bad_count(a); m128i r; for (int i = 0; i < 4; ++i) r.f[i] = ishr_logical(a.f[i], n); return r; }
  static m128i sra_epi32(m128i a, m128i c) { unsigned long long n; if (!count_of(c, n)) return bad_count(a); m128i r; for (int i = 0; i < 4; ++i) r.f[i] = ishr_arith(a.f[i], n); return r; }
  // 64-bit lane shifts and whole-register byte shifts: constants, or moves of whole 32-bit lanes, only
  static m128i shift64(m128i a, unsigned long long n, bool left) {
    m128i r;
    for (int i = 0; i < 4; i += 2) {
      uint32_t lo, hi;
      if (n == 0) { r.f[i] = a.f[i]; r.f[i + 1] = a.f[i + 1]; }
      else if (n > 63) { r.f[i] = r.f[i + 1] = zero(); }
      else if (n == 32) { if (left) { r.f[i] = zero(); r.f[i + 1] = a.f[i]; } else { r.f[i] = a.f[i + 1]; r.f[i + 1] = zero(); } }
      else if (P::bits(a.f[i], lo) && P::bits(a.f[i + 1], hi)) { unsigned long long v = ((unsigned long long)hi << 32) | lo; v = left ? v << n : v >> n; r.f[i] = kbits((uint32_t)v); r.f[i + 1] = kbits((uint32_t)(v >> 32)); }
      else { r.f[i] = r.f[i + 1] = (undef(a.f[i]) && undef(a.f[i + 1])) ? a.f[i] : poison("64-bit shift across 32-bit lanes"); }
    }
    return r;
  }
  static m128i sll_epi64(m128i a, m128i c) { unsigned long long n; if (!count_of(c, n)) return bad_count(a); return shift64(a, n, true); }
  static m128i srl_epi64(m128i a, m128i c) { unsigned long long n; if (!count_of(c, n)) return bad_count(a); return shift64(a, n, false); }
  static m128i slli_epi64(m128i a, int n) { return shift64(a, (unsigned)n, true); }
  static m128i srli_epi64(m128i a, int n) { return shift64(a, (unsigned)n, false); }
  static m128i byteshift(m128i a, int n, bool left) {
    n &= 0xFF; m128i r;
    if (n > 15) { for (int i = 0; i < 4; ++i) r.f[i] = zero(); return r; }
    if (n % 4 == 0) { int k = n / 4; for (int i = 0; i < 4; ++i) { int s = left ? i - k : i + k; r.f[i] = (s >= 0 && s < 4) ? a.f[s] : zero(); } return r; }
    uint32_t b[4]; bool all = true; for (int i = 0; i < 4; ++i) all = all && P::bits(a.f[i], b[i]);
    if (!all) { for (int i = 0; i < 4; ++i) r.f[i] = poison("byte shift across 32-bit lanes"); return r; }
    unsigned char src[16], dst[16]; std::memcpy(src, b, 16);
    for (int i = 0; i < 16; ++i) { int s = left ? i - n : i + n; dst[i] = (s >= 0 && s < 16) ? src[s] : 0; }
    std::memcpy(b, dst, 16); for (int i = 0; i < 4; ++i) r.f[i] = kbits(b[i]); return r;
  }
  static m128i slli_si128(m128i a, int n) { return byteshift(a, n, true); }
  static m128i srli_si128(m128i a, int n) { return byteshift(a, n, false); }
  static m128i shuffle_epi32(m128i a, int imm) { m128i r; for (int i = 0; i < 4; ++i) r.f[i] = a.f[(imm >> (2 * i)) & 3]; return r; }
  static m128i unpacklo_epi32(m128i a, m128i b) { m128i r; r.f[0] = a.f[0]; r.f[1] = b.f[0]; r.f[2] = a.f[1]; r.f[3] = b.f[1]; return r; }
  static m128i unpackhi_epi32(m128i a, m128i b) { m128i r; r.f[0] = a.f[2]; r.f[1] = b.f[2]; r.f[2] = a.f[3]; r.f[3] = b.f[3]; return r; }
  static m128i unpacklo_epi64(m128i a, m128i b) { m128i r; r.f[0] = a.f[0]; r.f[1] = a.f[1]; r.f[2] = b.f[0]; r.f[3] = b.f[1]; return r; }
  static m128i unpackhi_epi64(m128i a, m128i b) { m128i r; r.f[0] = a.f[2]; r.f[1] = a.f[3]; r.f[2] = b.f[2]; r.f[3] = b.f[3]; return r; }
  // lane == 0 as a decision
  static bool lane_is_zero(W w) {
    uint32_t k; if (P::bits(w, k)) return k == 0;
    switch (P::kind(w)) {
      case K_MASK: return !P::ask(w);
      case K_INT: return P::ask(P::ci_eq(w, P::int_from_bits(0)));
      case K_REAL: P::fail("zero test of the bit pattern of a non-constant float lane"); return false;
      default: P::fail("zero test of a poisoned lane decides"); return false;
    }
  }
  // PTEST: ZF = ((a & b) == 0)
  static int test_all_zeros(m128i a, m128i b) { bool z = true; for (int i = 0; i < 4; ++i) { W x = bw_and(a.f[i], b.f[i]); if (!lane_is_zero(x)) z = false; } return z ? 1 : 0; }
  static int testz_si128(m128i a, m128i b) { return test_all_zeros(a, b); }
  static int movemask_epi8(m128i a) {
    int m = 0;
    for (int i = 0; i < 4; ++i) {
      uint32_t k;
      if (P::bits(a.f[i], k)) { for (int j = 0; j < 4; ++j) if ((k >> (8 * j + 7)) & 1) m |= 1 << (4 * i + j); }
      else if (P::kind(a.f[i]) == K_MASK) { if (P::ask(a.f[i])) m |= 0xF << (4 * i); }
      else P::fail("byte mask of a non-mask, non-constant lane");
    }
    return m;
  }
  // conversions int32 <-> float: constants only
  static m128 cvtepi32_ps(m128i a) {
    m128 r;
    for (int i = 0; i < 4; ++i) {
      uint32_t k; if (P::bits(a.f[i], k)) { float f = (float)(int32_t)k; uint32_t b; std::memcpy(&b, &f, 4); r.f[i] = P::real_from_bits(b); }
      else r.f[i] = undef(a.f[i]) ? a.f[i] : poison("int->float conversion of a non-constant lane");
    }
    return r;
  }
  static int cvtsi128_si32(m128i a) { uint32_t k; if (P::bits(a.f[0], k)) return (int)k; P::fail("non-constant lane read as a C++ int"); return 0; }

  // ------------------------------------------------------------ double registers (plain lanes of type D)
  static m128d set_pd(D e1, D e0) { m128d r; r.d[0] = e0; r.d[1] = e1; return r; }
  static m128d setr_pd(D e0, D e1) { return set_pd(e1, e0); }
  static m128d set1_pd(D a) { return set_pd(a, a); }
  static m128d setzero_pd() { return set_pd(D(0.0), D(0.0)); }
  static m128d loadu_pd(D const* p) { m128d r; std::memcpy((void*)&r, p, sizeof r); return r; }
  static void storeu_pd(D* p, m128d a) { std::memcpy((void*)p, &a, sizeof a); }
  static void store_sd(D* p, m128d a) { std::memcpy((void*)p, &a, sizeof(D)); }
  // arithmetic goes through the policy (P::d_add …) so that a poisoned lane (e.g. the never-written 4th lane of an
  // aligned dvec3) propagates instead of failing the unit
  static m128d add_pd(m128d a, m128d b) { return set_pd(P::d_add(a.d[1], b.d[1]), P::d_add(a.d[0], b.d[0])); }
  static m128d sub_pd(m128d a, m128d b) { return set_pd(P::d_sub(a.d[1], b.d[1]), P::d_sub(a.d[0], b.d[0])); }
  static m128d mul_pd(m128d a, m128d b) { return set_pd(P::d_mul(a.d[1], b.d[1]), P::d_mul(a.d[0], b.d[0])); }
  static m128d div_pd(m128d a, m128d b) { return set_pd(P::d_div(a.d[1], b.d[1]), P::d_div(a.d[0], b.d[0])); }
  static m128d shuffle_pd(m128d a, m128d b, int imm) { m128d r; r.d[0] = a.d[imm & 1]; r.d[1] = b.d[(imm >> 1) & 1]; return r; }
  static m256d set_pd256(D e3, D e2, D e1, D e0) { m256d r; r.d[0] = e0; r.d[1] = e1; r.d[2] = e2; r.d[3] = e3; return r; }
  static m256d setr_pd256(D e0, D e1, D e2, D e3) { return set_pd256(e3, e2, e1, e0); }
  static m256d set1_pd256(D a) { return set_pd256(a, a, a, a); }
  static m256d setzero_pd256() { return set1_pd256(D(0.0)); }
  static m256d loadu_pd256(D const* p) { m256d r; std::memcpy((void*)&r, p, sizeof r); return r; }
  static void storeu_pd256(D* p, m256d a) { std::memcpy((void*)p, &a, sizeof a); }
#define FKI_PD(name) static m256d name##_pd256(m256d a, m256d b) { m256d r; for (int i = 0; i < 4; ++i) r.d[i] = P::d_##name(a.d[i], b.d[i]); return r; }
  FKI_PD(add) FKI_PD(sub) FKI_PD(mul) FKI_PD(div)
#undef FKI_PD
  static m256d fmadd_pd256(m256d a, m256d b, m256d c) { m256d r; for (int i = 0; i < 4; ++i) r.d[i] = P::d_fma(a.d[i], b.d[i], c.d[i]); return r; }
  static m256d blend_pd256(m256d a, m256d b, int imm) { m256d r; for (int i = 0; i < 4; ++i) r.d[i] = (imm & (1 << i)) ? b.d[i] : a.d[i]; return r; }
  static m256d permute_pd256(m256d a, int imm) { m256d r; r.d[0] = a.d[imm & 1]; r.d[1] = a.d[(imm >> 1) & 1]; r.d[2] = a.d[2 + ((imm >> 2) & 1)]; r.d[3] = a.d[2 + ((imm >> 3) & 1)]; return r; }
  static m256d permute4x64_pd(m256d a, int imm) { m256d r; for (int i = 0; i < 4; ++i) r.d[i] = a.d[(imm >> (2 * i)) & 3]; return r; }
  static m256d permute2f128_pd(m256d a, m256d b, int imm) {
    m256d r;
    for (int h = 0; h < 2; ++h) {
      int c = (imm >> (4 * h)) & 0xF; m256d const& s = (c & 2) ? b : a; int o = (c & 1) ? 2 : 0;
      if (c & 8) { r.d[2 * h] = D(0.0); r.d[2 * h + 1] = D(0.0); } else { r.d[2 * h] = s.d[o]; r.d[2 * h + 1] = s.d[o + 1]; }
    }
    return r;
  }
  static m128d extractf128_pd(m256d a, int imm) { m128d r; r.d[0] = a.d[(imm & 1) * 2]; r.d[1] = a.d[(imm & 1) * 2 + 1]; return r; }
  static m128d castpd256_pd128(m256d a) { m128d r; r.d[0] = a.d[0]; r.d[1] = a.d[1]; return r; }
  static m256i set1_epi64x256(long long a) { m256i r; for (int i = 0; i < 4; ++i) r.q[i] = (uint64_t)a; return r; }
  static m256i set1_epi32_256(int a) { uint64_t v = (uint32_t)a; v |= v << 32; m256i r; for (int i = 0; i < 4; ++i) r.q[i] = v; return r; }
  static m256i and_si256(m256i a, m256i b) { m256i r; for (int i = 0; i < 4; ++i) r.q[i] = a.q[i] & b.q[i]; return r; }
  static m256i or_si256(m256i a, m256i b) { m256i r; for (int i = 0; i < 4; ++i) r.q[i] = a.q[i] | b.q[i]; return r; }
  static m256i xor_si256(m256i a, m256i b) { m256i r; for (int i = 0; i < 4; ++i) r.q[i] = a.q[i] ^ b.q[i]; return r; }
};

} // namespace fki
