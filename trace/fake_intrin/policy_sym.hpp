// Symbolic lane policy for fake_core.hpp: a lane is a handle of a node in sym.hpp's arena.
//   real-typed trace (mode M_R): the lane word IS the node id, so that `__m128` aliases glm's `SymR x,y,z,w`
//                                in the vec/qua unions exactly as the float lanes alias the members in the real build;
//   integer-typed trace (M_I32 / M_U32): glm's members are real C++ ints, which must never be mixed up with
//                                handles: the lane word carries a 12-bit checksum of the id, so a word produced by
//                                C++ integer arithmetic on handles (glm's generic per-component path running on an
//                                aligned integer vector) decodes as poison and fails the unit instead of giving a
//                                wrong tree.
// A condition node is a mask lane; integer literals are `liti` nodes; float literals `lit` nodes.
#pragma once
#include "../sym.hpp"
#include "symd.hpp"
#include "fake_core.hpp"
#include <set>
#include <string>
#include <stdexcept>

namespace fki {

struct TraceFail { std::string msg; };
}
inline symt::SymD::operator symt::SymR() const { throw fki::TraceFail{"a double was narrowed to float (rounding not expressible in the trace format)"}; }
namespace fki {

struct SymPolicy {
  struct W { uint32_t raw; };
  using R = symt::SymR;
  using D = symt::SymD;          // the TU's `double` (#define double SymD)
  enum Mode { M_R, M_I32, M_U32 };
  static Mode& mode() { static Mode m = M_R; return m; }
  static std::set<std::string>& notes() { static std::set<std::string> s; return s; }
  static std::string& poison_reason() { static std::string s; return s; }
  static std::set<uint32_t>& signbit_conds() { static std::set<uint32_t> s; return s; }   // condition nodes that stand for a sign bit
  static long& calls() { static long n = 0; return n; }          // fake intrinsic calls (fake_x86.hpp counts them)
  static void reset(Mode m) { mode() = m; notes().clear(); poison_reason().clear(); signbit_conds().clear(); }

  static bool real_mode() { return mode() == M_R; }
  static bool int_signed() { return mode() != M_U32; }
  [[noreturn]] static void fail(const char* why) { throw TraceFail{poison_reason().empty() ? std::string(why) : std::string(why) + " [first poisoned lane: " + poison_reason() + "]"}; }
  static void note(const char* what) { notes().insert(what); }
  static W poison(const char* why) { if (why && poison_reason().empty()) poison_reason() = why; return W{0xFFFFFFFFu}; }

  static uint32_t csum(uint32_t id) { return (((id * 2654435761u) >> 17) & 0x7FFu) | 0x800u; }
  static W enc(uint32_t id) {
    if (mode() == M_R) return W{id};
    if (id >= (1u << 20)) fail("arena too large for the integer lane encoding");
    return W{id | (csum(id) << 20)};
  }
  static bool dec(W w, uint32_t& id) {
    if (mode() == M_R) id = w.raw;
    else { id = w.raw & 0xFFFFFu; if ((w.raw >> 20) != csum(id)) return false; }
    return id < symt::arena().nodes.size();
  }
  // integer-typed traces: v, -v or ~v decodes as a lane handle => glm read an aligned vector's int members
  // integer-typed traces: a C++ int that IS a lane word was copied unchanged out of an aligned vector (or is a unit
  // input handed to a constructor): moving it is faithful, it stays the lane it was
  static bool int_is_lane(uint32_t v, W& w) { if (mode() == M_R) return false; uint32_t id; if (!dec(W{v}, id)) return false; w = W{v}; return true; }
  static bool suspicious_int(uint32_t v) { if (mode() == M_R) return false; uint32_t id; return dec(W{v}, id) || dec(W{0u - v}, id) || dec(W{~v}, id); }
  static uint32_t idof(W w) { uint32_t id; if (!dec(w, id)) fail("internal: operation on a poisoned lane"); return id; }
  static symt::Node node(W w) { return symt::arena().nodes[idof(w)]; }

  static Kind kind(W w) {
    uint32_t id; if (!dec(w, id)) return K_UNDEF;
    symt::Node const& n = symt::arena().nodes[id];
    if (n.op >= symt::C_LT) return K_MASK;
    if (n.op == symt::LITI) return K_INT;
    if (n.op == symt::LIT || n.op == symt::KONST) return K_REAL;
    return mode() == M_R ? K_REAL : K_INT;
  }
  static bool bits(W w, uint32_t& b) {
    uint32_t id; if (!dec(w, id)) return false;
    symt::Node const& n = symt::arena().nodes[id];
    if (n.op == symt::LITI) { b = (uint32_t)n.i; return true; }
    if (n.op == symt::LIT) { float f = (float)n.d; if (!((double)f == n.d)) return false; std::memcpy(&b, &f, 4); return true; }
    if (n.op == symt::KONST && n.sub == symt::K_INF) { b = 0x7F800000u; return true; }
    return false;
  }
  static W int_from_bits(uint32_t b) { return enc(mode() == M_U32 ? symt::mk_liti((int64_t)b, true) : symt::mk_liti((int64_t)(int32_t)b, false)); }
  static W real_from_bits(uint32_t b) {
    if (nan_bits(b)) fail("a NaN bit pattern (mask / all-ones constant) is used as a float value");
    if ((b & 0x7FFFFFFFu) == 0x7F800000u) { uint32_t k = symt::mk_konst(symt::K_INF); return enc((b >> 31) ? symt::mk(symt::NEG, k) : k); }
    float f; std::memcpy(&f, &b, 4); return enc(symt::mk_lit((double)f));
  }
  // memory holds lane words in every mode (in an integer-typed trace a `float*` access is glm moving integer lanes
  // through _mm_load_ss / _mm_store_ss: the 4 bytes are an encoded lane word, not a SymR)
  static W w_of_r(R r) { return W{r.id}; }
  static R r_of_w(W w) { return R::from(w.raw); }

  // double lanes (SymD): same nodes as the float lanes; an invalid handle is poison and propagates
  static bool dok(D a) { return a.id < symt::arena().nodes.size(); }
  static D dpoison() { return D::from(0xFFFFFFFFu); }
  static D d_add(D a, D b) { return dok(a) && dok(b) ? a + b : dpoison(); }
  static D d_sub(D a, D b) { return dok(a) && dok(b) ? a - b : dpoison(); }
  static D d_mul(D a, D b) { return dok(a) && dok(b) ? a * b : dpoison(); }
  static D d_div(D a, D b) { return dok(a) && dok(b) ? a / b : dpoison(); }
  static D d_fma(D a, D b, D c) { return dok(a) && dok(b) && dok(c) ? std::fma(a, b, c) : dpoison(); }
  static void need_real() { if (mode() != M_R) fail("float arithmetic in an integer-typed trace"); }
  static W bin(symt::Op op, W a, W b) { return enc(symt::mk(op, idof(a), idof(b))); }
  static W r_add(W a, W b) { need_real(); return bin(symt::ADD, a, b); }
  static W r_sub(W a, W b) { need_real(); return bin(symt::SUB, a, b); }
  static W r_mul(W a, W b) { need_real(); return bin(symt::MUL, a, b); }
  static W r_div(W a, W b) { need_real(); return bin(symt::DIV, a, b); }
  static W r_neg(W a) { need_real(); return enc(symt::mk(symt::NEG, idof(a))); }
  static W r_fmod(W a, W b) { need_real(); return enc(symt::mk(symt::CALL2, idof(a), idof(b), 0, symt::F_FMOD)); }
  static W r_fma(W a, W b, W c) { need_real(); return enc(symt::mk(symt::CALL3, idof(a), idof(b), idof(c), symt::F_FMA)); }
  static W r_call1(Fn1 f, W a) {
    need_real();
    static const symt::Fn map[] = {symt::F_SQRT, symt::F_FLOOR, symt::F_CEIL, symt::F_TRUNC, symt::F_ROUND, symt::F_ABS};
    return enc(symt::mk(symt::CALL1, idof(a), 0, 0, map[f]));
  }
  static W c_lt(W a, W b) { return bin(symt::C_LT, a, b); }
  static W c_le(W a, W b) { return bin(symt::C_LE, a, b); }
  static W c_eq(W a, W b) { return bin(symt::C_EQ, a, b); }
  static W c_not(W c) { symt::Node n = node(c); if (n.op == symt::C_NOT) return enc(n.a); return enc(symt::mk(symt::C_NOT, idof(c))); }
  static W c_and(W a, W b) { return bin(symt::C_AND, a, b); }
  static W c_or(W a, W b) { return bin(symt::C_OR, a, b); }
  // The format has no sign-bit predicate: `x < 0` is used.  It differs from the sign bit only for x = -0 and
  // for NaNs with the sign bit set; units that needed it are listed in a `# signbit-as-lt0` comment line.
  // The ids of these condition nodes are printed in a `# signbit-conds` line, so that a reader can give them the
  // exact meaning (trace/units/C03.cpp's evalcheck does).
  static W c_signbit(W a) { note("signbit-as-lt0"); uint32_t c = symt::mk(symt::C_LT, idof(a), symt::mk_lit(0.0)); signbit_conds().insert(c); return enc(c); }
  static W ci_lt(W a, W b) { return bin(symt::C_LT, a, b); }
  static W ci_eq(W a, W b) { return bin(symt::C_EQ, a, b); }
  static W i_add(W a, W b) { return bin(symt::ADD, a, b); }
  static W i_sub(W a, W b) { return bin(symt::SUB, a, b); }
  static W i_mul(W a, W b) { return bin(symt::MUL, a, b); }
  static W i_neg(W a) { return enc(symt::mk(symt::NEG, idof(a))); }
  static W i_and(W a, W b) { return bin(symt::BAND, a, b); }
  static W i_or(W a, W b) { return bin(symt::BOR, a, b); }
  static W i_xor(W a, W b) { return bin(symt::BXOR, a, b); }
  static W i_not(W a) { return enc(symt::mk(symt::BNOT, idof(a))); }
  static W i_shl(W a, W n) { return bin(symt::SHL, a, n); }
  static W i_shr(W a, W n) { return bin(symt::SHR, a, n); }

  // decide a condition: compound conditions are decomposed (short-circuit), comparisons of two literals are
  // folded, and an atom already decided in this run keeps its value (the same compare feeds and + andnot)
  static bool ask_id(uint32_t id) {
    symt::Node n = symt::arena().nodes[id];
    switch (n.op) {
      case symt::C_NOT: return !ask_id(n.a);
      case symt::C_AND: return ask_id(n.a) && ask_id(n.b);
      case symt::C_OR: return ask_id(n.a) || ask_id(n.b);
      case symt::C_LT: case symt::C_LE: case symt::C_EQ: {
        symt::Node const& x = symt::arena().nodes[n.a]; symt::Node const& y = symt::arena().nodes[n.b];
        if (x.op == symt::LIT && y.op == symt::LIT) return n.op == symt::C_LT ? x.d < y.d : n.op == symt::C_LE ? x.d <= y.d : x.d == y.d;
        if (x.op == symt::LITI && y.op == symt::LITI) {
          if (x.sub || y.sub) { uint64_t p = (uint64_t)x.i, q = (uint64_t)y.i; return n.op == symt::C_LT ? p < q : n.op == symt::C_LE ? p <= q : p == q; }
          return n.op == symt::C_LT ? x.i < y.i : n.op == symt::C_LE ? x.i <= y.i : x.i == y.i;
        }
        break;
      }
      default: break;
    }
    for (auto const& t : symt::oracle().trail) if (t.first == id) return t.second;
    return symt::oracle().ask(id);
  }
  static bool ask(W c) { uint32_t id = idof(c); if (symt::arena().nodes[id].op < symt::C_LT) fail("internal: ask on a non-condition lane"); return ask_id(id); }
};

} // namespace fki
