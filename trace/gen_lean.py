#!/usr/bin/env python3
"""Translate the tracer's text output (.units) into Lean data (GlmVerif/Gen/<Mod>.lean).

The .units file is what the real C++ compiler produced by running /repo's glm
templates on symbolic scalars; this script only changes syntax:
  N/C node lines  ->  terms of Glm.E / Glm.C      (DAG expanded to a tree; large shared
                                                    sub-terms become named defs)
  T lines         ->  Glm.Tree per output component
  U .. E          ->  one `def <name> : Glm.Unit`
plus, per family `fam_k1_k2…`, a lookup function `fam : Nat → … → Unit`.
"""
import sys, re, collections

SHARE_MIN = 24      # tree size from which a multiply-referenced node gets its own def

def parse(path):
    units = []
    cur = None
    for line in open(path):
        p = line.split()
        if not p: continue
        if p[0] == 'U':
            cur = dict(name=p[1], ty=p[2], nin=int(p[3]), nout=int(p[4]), npaths=int(p[5]), nodes={}, conds={}, trees={}, err=None)
        elif p[0] == 'N':
            cur['nodes'][int(p[1])] = p[2:]
        elif p[0] == 'C':
            cur['conds'][int(p[1])] = p[2:]
        elif p[0] == 'T':
            cur['trees'][int(p[1])] = p[2:]
        elif p[0] == 'X':
            cur['err'] = ' '.join(p[1:])
        elif p[0] == 'E':
            units.append(cur); cur = None
    return units

def lit_nd(m, e):
    m = int(m); e = int(e)
    if e >= 0: return m * (1 << e), 1
    return m, 1 << (-e)

def lean_int(n):
    return str(n) if n >= 0 else '(%d)' % n

class UnitEmitter:
    def __init__(self, u):
        self.u = u
        self.size = {}
        self.refs = collections.Counter()
        self.shared = {}     # node id -> def name
        self.defs = []       # (name, term)
        self.cache = {}

    def tsize(self, i):
        if i in self.size: return self.size[i]
        n = self.u['nodes'][i]
        op = n[0]
        if op in ('var', 'lit', 'liti', 'konst'): s = 1
        elif op in ('neg', 'bnot'): s = 1 + self.tsize(int(n[1]))
        elif op in ('call1', 'cast'): s = 1 + self.tsize(int(n[2]))
        elif op == 'call2': s = 1 + self.tsize(int(n[2])) + self.tsize(int(n[3]))
        elif op == 'call3': s = 1 + sum(self.tsize(int(x)) for x in n[2:5])
        else: s = 1 + self.tsize(int(n[1])) + self.tsize(int(n[2]))
        self.size[i] = min(s, 10**9)
        return self.size[i]

    def count_refs(self):
        for i, n in self.u['nodes'].items():
            op = n[0]
            if op in ('var', 'lit', 'liti', 'konst'): continue
            args = n[2:] if op in ('call1', 'call2', 'call3', 'cast') else n[1:]
            for a in args: self.refs[int(a)] += 1
        for i, c in self.u['conds'].items():
            if c[0] in ('lt', 'le', 'eq', 'isnan', 'isinf'):
                for a in c[1:]: self.refs[int(a)] += 1
        for j, t in self.u['trees'].items():
            k = 0
            while k < len(t):
                if t[k] == 'L': self.refs[int(t[k + 1])] += 1
                k += 2

    def expr(self, i):
        if i in self.shared: return self.shared[i]
        if i in self.cache: return self.cache[i]
        n = self.u['nodes'][i]; op = n[0]
        if op == 'var': s = '(E.var %s)' % n[1]
        elif op == 'lit':
            a, b = lit_nd(n[1], n[2]); s = '(E.lit %s %d)' % (lean_int(a), b)
        elif op == 'liti': s = '(E.lit %s 1)' % lean_int(int(n[1]))
        elif op == 'konst': s = '(E.konst .%s)' % n[1]
        elif op in ('neg', 'bnot'): s = '(E.%s %s)' % (op, self.expr(int(n[1])))
        elif op == 'call1': s = '(E.call1 .%s %s)' % (n[1], self.expr(int(n[2])))
        elif op == 'call2': s = '(E.call2 .%s %s %s)' % (n[1], self.expr(int(n[2])), self.expr(int(n[3])))
        elif op == 'call3': s = '(E.call3 .%s %s %s %s)' % (n[1], self.expr(int(n[2])), self.expr(int(n[3])), self.expr(int(n[4])))
        elif op == 'cast': s = '(E.cast .%s %s)' % (n[1], self.expr(int(n[2])))
        else: s = '(E.%s %s %s)' % (op, self.expr(int(n[1])), self.expr(int(n[2])))
        if self.refs[i] >= 2 and self.tsize(i) >= SHARE_MIN:
            name = '%s.n%d' % (self.u['name'], i)
            self.defs.append((name, s))
            self.shared[i] = name
            return name
        self.cache[i] = s
        return s

    def cond(self, i):
        c = self.u['conds'][i]; op = c[0]
        if op in ('lt', 'le', 'eq'): return '(C.%s %s %s)' % (op, self.expr(int(c[1])), self.expr(int(c[2])))
        if op in ('isnan', 'isinf'): return '(C.%s %s)' % (op, self.expr(int(c[1])))
        if op == 'not': return '(C.not %s)' % self.cond(int(c[1]))
        return '(C.%s %s %s)' % (op, self.cond(int(c[1])), self.cond(int(c[2])))

    def tree(self, toks):
        pos = [0]
        def rec():
            t = toks[pos[0]]; i = int(toks[pos[0] + 1]); pos[0] += 2
            if t == 'L': return '(Tree.leaf %s)' % self.expr(i)
            c = self.cond(i); a = rec(); b = rec()
            return '(Tree.branch %s %s %s)' % (c, a, b)
        return rec()

    def emit(self, out):
        u = self.u
        # nodes in ascending id order = topological, so shared defs are emitted before use
        self.count_refs()
        for i in sorted(u['nodes']): self.expr(i)
        trees = [self.tree(u['trees'][j]) for j in range(u['nout'])]
        for name, term in self.defs:
            out.append('@[gen_unfold] def %s : E := %s' % (name, term))
        out.append('def %s : Unit := { name := "%s", ty := .%s, nIn := %d, outs := [' % (u['name'], u['name'], u['ty'], u['nin']))
        out.append(',\n'.join('  ' + t for t in trees))
        out.append(']}')

def main():
    """gen_lean.py <file.units> <Mod> <lean/GlmVerif/Gen dir>
    writes Gen/<Mod>/<family>.lean (units of one family + its key lookup) and Gen/<Mod>.lean (imports,
    `lookup`, `all`).  One module per family so that a change of /repo only re-checks the tables of the
    families whose traces changed."""
    src, mod, gendir = sys.argv[1], sys.argv[2], sys.argv[3]
    import os
    units = parse(src)
    fams = collections.OrderedDict()
    failed = []
    for u in units:
        if u['err']:
            failed.append((u['name'], u['err'])); continue
        m = re.match(r'^(.*?)((?:_\d+)*)$', u['name'])
        fam, keys = m.group(1), [int(k) for k in m.group(2).split('_')[1:]]
        fams.setdefault(fam, []).append((keys, u))
    d = os.path.join(gendir, mod)
    os.makedirs(d, exist_ok=True)
    written = set()

    def put(path, text):
        written.add(os.path.abspath(path))
        try:
            if open(path).read() == text: return
        except FileNotFoundError: pass
        open(path, 'w').write(text)

    for fam, members in fams.items():
        out = ['-- GENERATED by trace/gen_lean.py from the tracer output of /repo — do not edit',
               'import GlmVerif.Core.Expr', 'import GlmVerif.Core.Attr', 'set_option maxRecDepth 100000',
               'namespace Glm.Gen.%s' % mod, 'open Glm', '']
        for keys, u in members: UnitEmitter(u).emit(out)
        out.append('def %s_L (ks : List Nat) : Unit :=' % fam)
        out.append('  match ks with')
        for keys, u in members:
            out.append('  | [%s] => %s' % (', '.join(str(k) for k in keys), u['name']))
        out.append('  | _ => default')
        out.append('end Glm.Gen.%s' % mod)
        put(os.path.join(d, fam + '.lean'), '\n'.join(out) + '\n')
    out = ['-- GENERATED by trace/gen_lean.py from the tracer output of /repo — do not edit']
    for fam in fams: out.append('import GlmVerif.Gen.%s.%s' % (mod, fam))
    out += ['set_option maxRecDepth 100000', 'namespace Glm.Gen.%s' % mod, 'open Glm', '']
    out.append('def table : List (String × (List Nat → Unit)) := [%s]' % ', '.join('("%s", %s_L)' % (fam, fam) for fam in fams))
    out.append('def lookup (fam : String) (ks : List Nat) : Unit :=')
    for fam in fams:
        out.append('  if fam = "%s" then %s_L ks else' % (fam, fam))
    out.append('  default')
    if '--no-lookup-thms' not in sys.argv:
      for fam in fams:
        out.append('theorem lookup_%s : lookup "%s" = %s_L := by funext ks; simp [lookup]' % (fam, fam, fam))
    out.append('def all : List Unit := [%s]' % ', '.join(u['name'] for u in units if not u['err']))
    out.append('def failed : List (String × String) := [%s]' % ', '.join('("%s", "%s")' % f for f in failed))
    out.append('end Glm.Gen.%s' % mod)
    put(os.path.join(gendir, mod + '.lean'), '\n'.join(out) + '\n')
    for f in os.listdir(d):
        if f.endswith('.lean') and os.path.abspath(os.path.join(d, f)) not in written:
            os.remove(os.path.join(d, f))

if __name__ == '__main__':
    main()
