"""C05 — GLSL integer and bit-field functions return the specified exact result  (hand model, contract: checks/README.md)

run(tier, seed):
  1. prove      lake build GlmVerif.Props.C05 (+ Props/C05/*.lean) and drv_c05; audit (#print axioms, bv_decide whitelist)
  2. correspond diff/C05.cpp compiled against checklib.REPO's working tree; line protocol (glm vs model vs spec on every
                line) + exhaustive hash sweeps (quick: bitfieldExtract on all 16-bit values x all (offset,bits),
                bitfieldInsert on all 8-bit (base,insert) x all (offset,bits); thorough: + all 2^32 values of the unary
                32-bit functions, model and spec) ; a differing block is re-run through the line protocol
  3. decide     every line with glm != spec is a violation with a concrete replay unless it falls into a recorded known
                finding (function AND input-class predicate AND the recorded wrong value); glm != model without any
                glm != spec, a failing theorem, a dirty audit or a harness that no longer compiles are reported as
                `VIOLATION … no-failing-input-found`.
"""
import os, re, json, time, glob, hashlib, subprocess
from concurrent.futures import ThreadPoolExecutor
import checklib
from checklib import (lake_build, audit, theorems_in, failing_decls, glm_tree_hash, sha_files, write_replay, write_evidence,
                      known_findings, TRUSTED_BASE, CACHE, LEAN, REPO, VERIF, REPLAYS, sh, log)

PROP = 'C05'
MODULES = ['GlmVerif.Props.C05', 'GlmVerif.Props.C05.Carry', 'GlmVerif.Props.C05.Count', 'GlmVerif.Props.C05.Dec8I',
           'GlmVerif.Props.C05.Dec8U', 'GlmVerif.Props.C05.Field']
BV_MODULES = ['GlmVerif.Props.C05.Count', 'GlmVerif.Props.C05.Field', 'GlmVerif.Props.C05.Carry']   # theorems proved with bv_decide (or resting on one)
SRC = os.path.join(VERIF, 'diff', 'C05.cpp')
DRV = os.path.join(LEAN, '.lake', 'build', 'bin', 'drv_c05')
HDIR = os.path.join(VERIF, 'h', 'C05')
CXX = ['g++', '-std=c++17', '-O1', '-ffp-contract=off', '-w']
ALT = ['g++', '-std=c++17', '-O2', '-mavx2', '-DGLM_FORCE_INTRINSICS', '-DC05_ALT_CONFIG', '-w']   # popcnt specialisations of bitCount
# sha256 of glm/detail/func_integer.inl the model was written against (tree with the four h/C05 fix patches applied)
MODEL_FINGERPRINT = 'cf7e265b1329e14c2a95a72ef58b647abd54d1a9011cfe5bf64dbfc84c262a3a'
M32 = (1 << 32) - 1


def mod_file(mod):
    return os.path.join(LEAN, mod.replace('.', '/') + '.lean')


# ---------------------------------------------------------------- known findings: (function, input_class) -> predicate
def cls_usub_wrong(rec):
    """usubBorrow: x - y not in {0, 2^31} (mod 2^32)  [exactly where y-x != x-y, theorem usubBorrow_res_partial],
    and the observed outputs are the recorded ones: result = y - x (mod 2^32), borrow as specified"""
    x, y = rec['args'][0], rec['args'][1]
    d = (x - y) & M32
    if (2 * d) & M32 == 0:
        return False
    return rec['glm'] == [(y - x) & M32, 1 if x < y else 0]


CLASSES = {
    ('usubBorrow', 'x-y not in {0,2^31} mod 2^32'): cls_usub_wrong,
}


def load_known():
    ents = list(known_findings(PROP))
    try:
        ents += [e for e in json.load(open(os.path.join(HDIR, 'known_findings_entries.json'))) if e.get('property') == PROP]
    except (OSError, ValueError):
        pass
    out, seen = [], set()
    for e in ents:
        key = (e.get('function'), e.get('input_class'))
        if key in seen or key not in CLASSES:
            continue
        seen.add(key)
        out.append(dict(e, pred=CLASSES[key]))
    return out


def match_known(known, rec):
    for k in known:
        if k['function'] == rec['fn'] and k['pred'](rec):
            return k
    return None


# ---------------------------------------------------------------- harness
def build_harness(flags, tag):
    key = sha_files([SRC], glm_tree_hash() + ' '.join(flags) + REPO)[:16]
    out = os.path.join(CACHE, 'C05_%s_%s.bin' % (tag, key))
    for old in glob.glob(os.path.join(CACHE, 'C05_%s_*.bin' % tag)):
        if old != out:
            try: os.remove(old)
            except OSError: pass
    if os.path.exists(out):
        return out, None
    log('compiling diff/C05.cpp (%s) against %s' % (tag, REPO))
    rc, txt = sh(flags + ['-I' + REPO, '-o', out + '.tmp', SRC], timeout=900)
    if rc != 0:
        return None, txt[-1500:]
    os.replace(out + '.tmp', out)
    return out, None


def parse_diff(line):
    # DIFF <m|s|ms> fn form ty a0 a1 a2 a3 r0 r1 model=x,y spec=x,y
    t = line.split()
    if len(t) != 13 or t[0] != 'DIFF':
        return None
    return dict(kind=t[1], fn=t[2], form=t[3], ty=t[4], args=[int(x) for x in t[5:9]], glm=[int(t[9]), int(t[10])],
                model=[int(x) for x in t[11].split('=')[1].split(',')], spec=[int(x) for x in t[12].split('=')[1].split(',')])


def run_driver_lines(path):
    rc, out = sh([DRV, 'lines', path], timeout=3000)
    diffs, groups, summ, bad = [], {}, None, []
    for l in out.split('\n'):
        if l.startswith('DIFF '):
            d = parse_diff(l)
            if d: diffs.append(d)
            else: bad.append(l)
        elif l.startswith('GROUP '):
            m = re.match(r'GROUP (\S+) (\S+) n=(\d+) modeldiff=(\d+) specdiff=(\d+) printed=(\d+)', l)
            if m: groups[m.group(1) + ' ' + m.group(2)] = dict(n=int(m.group(3)), modeldiff=int(m.group(4)), specdiff=int(m.group(5)), printed=int(m.group(6)))
        elif l.startswith('SUMMARY '):
            summ = {k: int(v) for k, v in re.findall(r'(\w+)=(\d+)', l)}
        elif l.startswith('BAD '):
            bad.append(l)
    if rc != 0 or summ is None:
        return None, out[-800:]
    return dict(diffs=diffs, groups=groups, summary=summ, bad=bad), None


def blocks_of(text):
    return {int(m.group(1)): m.group(2) for m in re.finditer(r'^BLOCK (\d+) (\d+)', text, flags=re.M)}


def sweep_jobs(tier):
    jobs = [(['ext16', 'u'], None), (['ext16', 'i'], None), (['ins8', 'u'], None), (['ins8', 'i'], None)]
    if tier == 'thorough':
        parts = 16
        for fn in ('bitCount', 'findLSB', 'findMSB', 'bitfieldReverse'):
            for s in ('u', 'i'):
                for k in range(parts):
                    jobs.append((['un32', fn, s], (k * 4096 // parts, (k + 1) * 4096 // parts)))
    return jobs


def run_sweeps(harness, tier, skip=()):
    """returns (stats, list of (sweep args, block idx) that differ, errors)"""
    jobs = [j for j in sweep_jobs(tier) if j[0][0] not in skip]
    hcache = {}

    def harness_blocks(args):
        k = ' '.join(args)
        if k not in hcache:
            rc, out = sh([harness, 'sweep'] + args, timeout=3000)
            hcache[k] = (rc, blocks_of(out))
        return hcache[k]

    # harness sweeps (one process per sweep) in parallel with the driver parts
    names = sorted({' '.join(a) for a, _ in jobs})
    with ThreadPoolExecutor(max_workers=checklib.NCPU) as ex:
        list(ex.map(lambda n: harness_blocks(n.split(' ')), names))

    def drv(job):
        args, rng = job
        cmd = [DRV, 'sweep'] + args + ([str(rng[0]), str(rng[1]), 'spec'] if rng else [])
        rc, out = sh(cmd, timeout=3000)
        m = re.search(r'SWEEP \S+ evals=(\d+) modelspecdiff=(\d+) nontrivial=(\d+)', out)
        return job, rc, blocks_of(out), (tuple(int(x) for x in m.groups()) if m else None)
    with ThreadPoolExecutor(max_workers=checklib.NCPU) as ex:
        res = list(ex.map(drv, jobs))
    stats = dict(evaluations=0, nontrivial=0, model_spec_diff=0, blocks=0, sweeps=names)
    differing, errors = [], []
    for (args, rng), rc, dblocks, st in res:
        hrc, hblocks = harness_blocks(args)
        if rc != 0 or st is None or hrc != 0 or not dblocks:
            errors.append('sweep %s %s failed (driver rc=%s, harness rc=%s)' % (args, rng, rc, hrc))
            continue
        stats['evaluations'] += st[0]; stats['model_spec_diff'] += st[1]; stats['nontrivial'] += st[2]; stats['blocks'] += len(dblocks)
        for idx, hv in sorted(dblocks.items()):
            if hblocks.get(idx) != hv:
                differing.append((args, idx))
    return stats, differing, errors


# ---------------------------------------------------------------- the check
def run(tier, seed):
    t0 = time.time()
    for old in glob.glob(os.path.join(REPLAYS, PROP + '-*.json')):
        os.remove(old)
    known = load_known()
    notes, unexplained = [], []
    # whitelist: theorems that may rest on bv_decide certificates
    all_thms, per_mod = [], {}
    for mod in MODULES:
        ns, names = theorems_in(mod_file(mod))
        per_mod[mod] = [ns + '.' + n for n in names]
        all_thms += per_mod[mod]
    for mod in BV_MODULES:
        checklib.BV_DECIDE_WHITELIST.update(per_mod[mod])

    # 1. prove
    rc, build_out, build_s = lake_build(['GlmVerif.Props.C05', 'drv_c05'], timeout=3000)
    failing = []
    drv_ok = rc == 0
    if rc != 0:
        for mod in MODULES:
            ns, _ = theorems_in(mod_file(mod))
            for n in failing_decls(build_out, mod_file(mod)):
                failing.append(mod + ':example' if n == 'example' else ns + '.' + n)
        if not failing:
            failing = list(all_thms)
            notes.append('lake build failed outside the Props modules: ' + build_out[-600:])
        rc_d, _, _ = lake_build(['drv_c05'], timeout=1800)
        drv_ok = rc_d == 0
    log('lake build Props.C05 + drv_c05: rc=%d, %.1fs, %d/%d theorems check' % (rc, build_s, len(all_thms) - len([f for f in failing if f in all_thms]), len(all_thms)))
    axioms, audit_problems = {}, []
    if rc == 0:
        ok, axioms, audit_problems = audit(PROP, MODULES)
        if audit_problems: log('audit problems:', audit_problems[:5])
    if tier == 'thorough' and rc == 0:
        for mod in MODULES:
            with checklib.LakeLock():
                r2, o2 = sh(['lake', 'env', 'leanchecker', mod], cwd=LEAN, timeout=1800)
            if r2 != 0:
                audit_problems.append('leanchecker %s: %s' % (mod, o2[-300:]))

    t_prove = time.time() - t0
    # 2. correspond
    fp = hashlib.sha256(open(os.path.join(REPO, 'glm', 'detail', 'func_integer.inl'), 'rb').read()).hexdigest()
    fp_changed = fp != MODEL_FINGERPRINT
    if fp_changed:
        notes.append('func_integer.inl differs from the text the model was written against (sha256 %s…): random budget raised' % fp[:12])
    budget = 'thorough' if tier == 'thorough' else ('medium' if fp_changed else 'quick')
    harness, herr = build_harness(CXX, 'main')
    narrow_missing = False
    if herr:
        # without fix_bitfieldReverse / fix_bitfieldInsert the 8/16-bit instances of these two functions are ill-formed:
        # leave them out (reported below) so that everything else is still compared
        h2, herr2 = build_harness(CXX + ['-DC05_NO_NARROW'], 'nonarrow')
        if h2:
            unexplained.append('glm::bitfieldReverse / glm::bitfieldInsert do not compile for 8- and 16-bit element types on this tree '
                               '(static_assert admits every integer type; fix_bitfieldReverse.diff / fix_bitfieldInsert.diff): ' + herr[-400:])
            harness, herr, narrow_missing = h2, None, True
    corr, sweep_stats, samples = None, None, []
    diffs = []
    if herr:
        unexplained.append('harness diff/C05.cpp no longer compiles against %s (the model cannot be tied to the code): %s' % (REPO, herr[-700:]))
    elif not drv_ok:
        unexplained.append('driver drv_c05 did not build')
    else:
        lines_path = os.path.join(CACHE, 'C05.lines')
        with open(lines_path, 'w') as f:
            p = subprocess.run([harness, 'lines', budget, str(seed)], stdout=f, stderr=subprocess.PIPE, text=True, timeout=3000)
        if p.returncode != 0:
            unexplained.append('harness run failed: rc=%d %s' % (p.returncode, p.stderr[-300:]))
        else:
            corr, err = run_driver_lines(lines_path)
            if err:
                unexplained.append('driver lines run failed: ' + err)
            else:
                diffs += corr['diffs']
                for gk, g in corr['groups'].items():
                    if g['printed'] >= 1000000:
                        unexplained.append('more than 10^6 disagreeing lines for %s: the listing was truncated, not every disagreement was classified' % gk)
                if corr['bad']: unexplained.append('driver could not interpret %d harness line(s): %s' % (len(corr['bad']), corr['bad'][0][:200]))
                log('correspondence (lines):', corr['summary'])
            with open(lines_path) as f:
                for i, l in enumerate(f):
                    if i % 250007 == 1 and len(samples) < 12: samples.append(l.strip())
            # alternative build configuration (both tiers): -O2, GLM_FORCE_INTRINSICS + AVX2 (popcnt specialisations of bitCount, func_integer_simd.inl): identical output required
            if True:
                alt, aerr = build_harness(ALT, 'alt')
                if aerr:
                    notes.append('alternative configuration (GLM_FORCE_INTRINSICS, -mavx2) did not compile: ' + aerr[-300:])
                else:
                    alt_path = os.path.join(CACHE, 'C05.altlines')
                    with open(alt_path, 'w') as f:
                        subprocess.run([alt, 'lines', budget, str(seed)], stdout=f, stderr=subprocess.PIPE, text=True, timeout=3000)
                    r3, o3 = sh(['cmp', lines_path, alt_path])
                    if r3 != 0:
                        c2, e2 = run_driver_lines(alt_path)
                        if c2:
                            for d in c2['diffs']: d['config'] = 'GLM_FORCE_INTRINSICS -mavx2 -O2'
                            diffs += c2['diffs']
                        notes.append('alternative configuration output differs from the default build: ' + o3.strip()[:200])
                    else:
                        notes.append('alternative configuration (GLM_FORCE_INTRINSICS, -mavx2, -O2): byte-identical output on all lines')
                    try: os.remove(alt_path)
                    except OSError: pass
        # sweeps
        sweep_stats, differing, serr = run_sweeps(harness, tier, skip=('ins8',) if narrow_missing else ())
        unexplained += serr
        log('correspondence (sweeps):', {k: v for k, v in sweep_stats.items() if k != 'sweeps'}, 'differing blocks:', len(differing))
        if sweep_stats['model_spec_diff']:
            unexplained.append('model != specification on %d sweep point(s) (a theorem of Props/C05 must be failing)' % sweep_stats['model_spec_diff'])
        for args, idx in differing[:6]:
            bpath = os.path.join(CACHE, 'C05.block')
            with open(bpath, 'w') as f:
                subprocess.run([harness, 'block'] + args + [str(idx)], stdout=f, stderr=subprocess.PIPE, text=True, timeout=3000)
            c3, e3 = run_driver_lines(bpath)
            if c3 and c3['diffs']:
                diffs += c3['diffs']
            else:
                unexplained.append('sweep %s block %d: hashes differ but the line protocol shows no difference (%s)' % (args, idx, e3))
        if len(differing) > 6:
            notes.append('%d further differing sweep blocks not expanded' % (len(differing) - 6))

    t_corr = time.time() - t0 - t_prove
    log('phases: prove+audit %.1fs (includes waiting for the lake lock), correspondence %.1fs' % (t_prove, t_corr))
    for tmp in ('C05.lines', 'C05.block'):
        try: os.remove(os.path.join(CACHE, tmp))
        except OSError: pass
    # 3. decide
    violations, known_hits, stale = [], {}, []
    for d in diffs:
        if 's' in d['kind']:
            k = match_known(known, d)
            if k:
                h = known_hits.setdefault((k['function'], k['input_class']), dict(entry=k, n=0, example=d))
                h['n'] += 1
            else:
                violations.append(d)
        else:
            stale.append(d)       # glm = spec but != model: the model no longer mirrors the code
    lines_out = []
    for (fn, cls), h in sorted(known_hits.items()):
        e = h['example']
        lines_out.append('KNOWN-FINDING: property=%s %s [%s; class "%s"; %d evaluation(s) this run, e.g. %s(%s) = %s, specification %s]'
                         % (PROP, h['entry']['what'], fn, cls, h['n'], fn, ', '.join(str(a) for a in e['args'][:2]), e['glm'], e['spec']))
    seen = set()
    for v in violations:
        key = (v['fn'], v['ty'], v.get('config'))
        if key in seen: continue
        seen.add(key)
        if len(seen) > 8: break
        n_same = sum(1 for x in violations if (x['fn'], x['ty'], x.get('config')) == key)
        payload = dict(property=PROP, kind='glm-output-differs-from-specification', function=v['fn'], form=v['form'], type=v['ty'],
                       args_raw_bits=v['args'], glm=v['glm'], specification=v['spec'], model=v['model'],
                       model_agrees_with_glm=('m' not in v['kind']), same_function_type_violations=n_same,
                       argument_meaning='unary: a0 = value; bitfieldExtract: value, offset, bits; bitfieldInsert: base, insert, offset, bits; carry functions: x, y; results r0,r1 = value / (result,carry|borrow) / (msb,lsb); raw two\'s-complement bits',
                       replay='g++ -std=c++17 -O1 -w -I%s %s -o /tmp/c05h && /tmp/c05h one %s s %s %s' % (REPO, SRC, v['fn'], v['ty'], ' '.join(str(a) for a in v['args'])))
        if v.get('config'): payload['configuration'] = v['config']
        if unexplained: payload['other_items'] = unexplained[:10]
        lines_out.append('VIOLATION property=%s replay=%s' % (PROP, write_replay(PROP, payload)))
    if stale and not violations:
        e = stale[0]
        unexplained.append('model != glm on %d line(s) where glm agrees with the specification (the model no longer mirrors the code), e.g. %s %s %s args=%s glm=%s model=%s'
                           % (len(stale), e['fn'], e['form'], e['ty'], e['args'], e['glm'], e['model']))
    for k in known:
        if (k['function'], k['input_class']) not in known_hits and corr is not None:
            notes.append('recorded known finding did not reproduce this run: %s / %s' % (k['function'], k['input_class']))
    real_failing = [f for f in failing]
    if real_failing:
        unexplained += ['theorem %s no longer checks' % t for t in real_failing[:20]]
    unexplained += audit_problems
    if unexplained and not violations:
        payload = dict(property=PROP, kind='obligation-or-correspondence-no-longer-checks', items=unexplained[:20],
                       failing_theorems=real_failing[:40], note='no input on which glm violates the executable specification was found by the correspondence run')
        lines_out.append('VIOLATION property=%s replay=%s no-failing-input-found' % (PROP, write_replay(PROP, payload)))
    nviol = sum(1 for l in lines_out if l.startswith('VIOLATION'))

    # evidence
    summ = (corr or {}).get('summary', {})
    evals = summ.get('lines', 0) + (sweep_stats or {}).get('evaluations', 0)
    nontriv = summ.get('nontrivial', 0) + (sweep_stats or {}).get('nontrivial', 0)
    n_fail = len([f for f in failing if f in all_thms])
    coverage = dict(
        obligations=len(all_thms), discharged=len(all_thms) - n_fail,
        checker_cmd='cd lean && lake build GlmVerif.Props.C05   (+ lake env lean .cache/Audit_C05.lean for #print axioms' + ('; lake env leanchecker per module' if tier == 'thorough' else '') + ')',
        trusted_base=[
            'Lean 4.33 kernel; axioms propext, Classical.choice, Quot.sound only, plus the bv_decide certificates (LRAT proof checked by the compiled checker, one axiom `<theorem>._native.bv_decide.ax_*` each) of the whitelisted theorems in Props/C05/{Count,Field,Carry}.lean; the 8-bit instances are re-proved by `decide +kernel` without them',
            'the hand translation glm/detail/func_integer.inl -> lean/GlmVerif/Hand/C05.lean (statement by statement; integral promotion written out for the variable shifts), validated on every run by the differential correspondence against the real code',
            'the executable specification Spec.* as a faithful reading of the GLSL text quoted in glm/integer.hpp (hand-checked values in Props/C05.lean)',
            'g++ / x86-64 semantics of the harness build (-O1; thorough also -O2 with GLM_FORCE_INTRINSICS and AVX2)',
        ],
        theorems=[dict(name=t, axioms=axioms.get(t)) for t in all_thms],
        failing_theorems=failing, lake_build_s=round(build_s, 1),
        evaluations=evals, distinct_nontrivial=nontriv,
        rule='one evaluation = one call of a real glm function on an in-domain argument tuple, compared with the Lean model AND the executable specification (raw bits). '
             'Exhaustive: every value of the 8- and 16-bit types for bitCount/findLSB/findMSB/bitfieldReverse (scalar, and once more through vec1..vec4); bitfieldExtract on all 8- and 16-bit values x all (offset,bits) pairs of the domain '
             '(16-bit through block hashes); bitfieldInsert on all 8-bit (base,insert) x all pairs (block hashes)' + ('; all 2^32 values of the unary 32-bit functions, signed and unsigned (block hashes, model = spec checked on each)' if tier == 'thorough' else '') + '. '
             '32/64-bit and the remaining 16-bit cases: one-hot words, every run of ones and their complements, boundaries, every (offset,bits) pair with field-aligned patterns, carry lattice, and xoshiro256** random tuples seeded by VERIF_SEED. '
             'distinct_nontrivial counts distinct (function,type,arguments) whose result is neither the first argument unchanged nor zero (sweeps: same rule, domains are enumerated without repetition).',
        samples=samples, exhaustive=False,
        exhaustive_subdomains=['all unary functions on int8/uint8/int16/uint16', 'bitfieldExtract int8/uint8/int16/uint16 x all (offset,bits)', 'bitfieldInsert int8/uint8 x all (offset,bits)'] + (['bitCount/findLSB/findMSB/bitfieldReverse on all 2^32 int32/uint32 values'] if tier == 'thorough' else []),
        correspondence=dict(lines=summ, groups=(corr or {}).get('groups'), sweeps=sweep_stats),
        known_findings=[dict(function=fn, input_class=cls, evaluations=h['n']) for (fn, cls), h in sorted(known_hits.items())],
        repo=REPO, func_integer_sha256=fp, fingerprint_changed=fp_changed, random_budget=budget, notes=notes)
    write_evidence(PROP, tier, seed, coverage,
                   ['build modelled: GCC x86-64 without GLM_FORCE_INTRINSICS (GLM_HAS_BITSCAN_WINDOWS = 0, GLM_CONFIG_SIMD disabled; static_assert in diff/C05.cpp)',
                    'arguments restricted to the documented domain 0 <= offset, 0 <= bits, offset + bits <= width (hypothesis of the bitfieldExtract/Insert theorems)',
                    'signed overflow in findLSB(INT_MIN) (`Value - 1`) is undefined behaviour in C++; the model uses the wrapping result GCC produces (see h/C05/NOTES.md, property C20)',
                    'see DESIGN.md §5 (trusted base)'],
                   time.time() - t0, nviol)
    for l in lines_out: print(l)
    log('%s %s: %d theorem(s), %d failing, %d evaluation(s), %d violation line(s), %.1fs' % (PROP, tier, len(all_thms), n_fail, evals, nviol, time.time() - t0))
    return 1 if nviol else 0
