"""C07 — float <-> half conversion (hand model H; contract in checks/README.md).

  proof          lean/GlmVerif/Props/C07.lean: model (Hand/C07.lean, a transcription of
                 glm/detail/type_half.inl + the pack/unpack wrappers) = IEEE fixed-point specification,
                 for all 2^16 halves / all 2^32 floats (bv_decide), audited with #print axioms
  correspondence diff/C07.cpp (real glm from checklib.REPO) vs the native driver drv_c07 (the same
                 model compiled): lines for all 2^16 halves both ways, wrappers, boundary and seeded
                 random floats; block hashes for the 2^19x5 rounding lattice (quick) and for all 2^32
                 floats (thorough, or whenever something is off / the anchored source changed)
  oracles        on the C++ side every evaluated input is also checked against a soft IEEE decoder and
                 the F16C hardware conversion; on the Lean side glm's result on every line is checked
                 with the executable specification specF16/specF32 that the theorems are about
  verdict        a model/glm mismatch or a theorem that no longer checks is not itself a violation: the
                 run then sweeps ALL 2^32 floats (and has swept all halves) through glm against the
                 oracles; a hit is the replay, none -> `no-failing-input-found` (exhaustively so).
"""
import os, sys, re, json, time, glob, hashlib, subprocess
from concurrent.futures import ThreadPoolExecutor
import checklib
from checklib import (LEAN, CACHE, VERIF, sh, log, lake_build, audit, theorems_in, failing_decls, glm_tree_hash,
                      sha_files, write_replay, write_evidence, known_findings)

PROP = 'C07'
SRC = os.path.join(VERIF, 'diff', 'C07.cpp')
DRV = os.path.join(LEAN, '.lake', 'build', 'bin', 'drv_c07')
MODS = ['GlmVerif.Props.C07']
HDIR = os.path.join(VERIF, 'h', PROP)
NRANDOM = {'quick': 200000, 'thorough': 2000000}
NCHUNK = 16            # parallel sweep processes per side
NBLOCKS = 4096         # 2^32 / 2^20

TRUSTED = [
    'Lean 4.33 kernel; `decide +kernel` for the closed witnesses',
    'bv_decide: each theorem depends on one axiom <thm>._native.bv_decide.ax_* (the LRAT certificate of the SAT solver '
    'cadical is checked by a verified checker compiled to native code; Lean.ofReduceBool-style trust), plus propext, '
    'Classical.choice, Quot.sound (audited with #print axioms on every run, whitelist = the theorems of Props/C07.lean)',
    'the hand transcription Hand/C07.lean of type_half.inl / the wrappers (validated on every run by the correspondence: '
    'all 2^16 halves and, in thorough, all 2^32 floats bit for bit)',
    'the specification f32Mag/f16Mag/specF16/specF32 in Hand/C07.lean reads IEEE-754 binary16/32 correctly '
    '(cross-checked on every run against a C++ soft decoder and the F16C hardware on every evaluated input)',
    'g++ / x86-64 little endian: int16<->uint16 memcpy and the unions are bit casts, >> on negative int is arithmetic',
    'Lean compiler + C toolchain for the native driver drv_c07 (same definitions as the theorems)',
]

# ---------------------------------------------------------------------------------------------------
# input classes of known findings (function, input_class) -> predicate on the input bit pattern(s)
def _f32_is_nan(f): return (f >> 23) & 0xff == 0xff and (f & 0x7fffff) != 0
def _f16_is_nan(h): return (h >> 10) & 0x1f == 0x1f and (h & 0x3ff) != 0
def _is_tie(f):
    e = (f >> 23) & 0xff
    if e == 0xff or e < 102 or e > 142: return False
    sh_ = 13 if e >= 113 else 13 + (113 - e)
    m = (f & 0x7fffff) | 0x800000
    return sh_ <= 24 and (m & ((1 << sh_) - 1)) == (1 << (sh_ - 1))
INPUT_CLASSES = {
    'f32 is NaN': lambda fn, bits: fn.startswith('pack') and any(_f32_is_nan(b) for b in bits),
    'f16 is NaN': lambda fn, bits: fn.startswith('unpack') and any(_f16_is_nan(b & 0xffff) for b in bits),
    'exact tie between two halves': lambda fn, bits: fn.startswith('pack') and any(_is_tie(b) for b in bits),
    '|f| == 2^-25': lambda fn, bits: fn.startswith('pack') and any((b & 0x7fffffff) == 0x33000000 for b in bits),
    'f32 subnormal': lambda fn, bits: fn.startswith('pack') and any((b >> 23) & 0xff == 0 and b & 0x7fffff for b in bits),
}
FUNCS = {'p1': 'packHalf1x16', 'u1': 'unpackHalf1x16', 'rt': 'packHalf1x16(unpackHalf1x16)', 'p2': 'packHalf2x16',
         'u2': 'unpackHalf2x16', 'p4': 'packHalf4x16', 'u4': 'unpackHalf4x16', 'pv': 'packHalf<L>', 'uv': 'unpackHalf<L>'}


def all_known():
    kf = list(known_findings(PROP))
    p = os.path.join(HDIR, 'known_findings_entries.json')
    if os.path.exists(p):
        try: kf += [k for k in json.load(open(p)) if k.get('property') == PROP]
        except Exception as e: log('cannot read', p, e)
    return kf


def match_known(kf, func, bits):
    for k in kf:
        pred = INPUT_CLASSES.get(k.get('input_class'))
        if k.get('function') in (func, '*') and pred and pred(func, bits):
            return k
    return None


# ---------------------------------------------------------------------------------------------------
def anchored_text():
    """source text of the anchored functions (whole type_half.*, the *Half* functions of the packing files)"""
    out = []
    for rel in ('glm/detail/type_half.inl', 'glm/detail/type_half.hpp'):
        try: out.append(open(os.path.join(checklib.REPO, rel)).read())
        except OSError: out.append('<missing %s>' % rel)
    for rel in ('glm/detail/func_packing.inl', 'glm/gtc/packing.inl'):
        try: txt = open(os.path.join(checklib.REPO, rel)).read()
        except OSError: out.append('<missing %s>' % rel); continue
        for m in re.finditer(r'^[^\n;{}]*\b(?:un)?packHalf\w*\s*\([^;{}]*\)\s*\{|^\s*struct compute_half<\d[^{;]*\{', txt, flags=re.M):
            i, depth = m.end(), 1
            while i < len(txt) and depth:
                depth += {'{': 1, '}': -1}.get(txt[i], 0); i += 1
            out.append(txt[m.start():i])
    return '\n'.join(out)


def fingerprint():
    return hashlib.sha256(anchored_text().encode()).hexdigest()


def pinned_fingerprint():
    try: return json.load(open(os.path.join(HDIR, 'fingerprints.json')))['anchored_sha256']
    except Exception: return None


def build_harness():
    flags = ['-std=c++17', '-O2', '-ffp-contract=off', '-w', '-I' + checklib.REPO]
    try: f16c = ' f16c ' in open('/proc/cpuinfo').read().replace('\n', ' ')
    except OSError: f16c = False
    if f16c: flags += ['-mf16c', '-DHAVE_F16C']
    key = sha_files([SRC], glm_tree_hash() + ' '.join(flags))[:16]
    out = os.path.join(CACHE, 'C07_%s.bin' % key)
    if not os.path.exists(out):
        for old in glob.glob(os.path.join(CACHE, 'C07_*.bin')):
            try: os.remove(old)
            except OSError: pass
        rc, o = sh(['g++'] + flags + ['-o', out + '.tmp', SRC], timeout=900)
        if rc != 0: return None, o[-3000:], f16c
        os.replace(out + '.tmp', out)
    return out, None, f16c


def par_sweep(binary, nblocks=NBLOCKS):
    """run `<binary> sweep first n` in NCHUNK processes; returns ({k: hash}, {k: nt}, other lines, error)"""
    per = nblocks // NCHUNK
    def one(c):
        return sh([binary, 'sweep', str(c * per), str(per)], timeout=3000)
    hashes, nts, other, err = {}, {}, [], None
    with ThreadPoolExecutor(max_workers=NCHUNK) as ex:
        for rc, out in ex.map(one, range(NCHUNK)):
            if rc != 0: err = 'sweep exit %d: %s' % (rc, out[-300:])
            for l in out.split('\n'):
                w = l.split()
                if len(w) >= 3 and w[0] == 'SB':
                    hashes[int(w[1])] = int(w[2])
                    if len(w) > 3: nts[int(w[1])] = int(w[3])
                elif l.strip(): other.append(l)
    return hashes, nts, other, err


def parse_specfail(lines):
    """SPECFAIL <op> args -> results [oracle=..] -> list of dicts"""
    res = []
    for l in lines:
        m = re.match(r'SPECFAIL (\w+) ([\d ]+) -> ([\d ]+?)(?: oracle=(\w+) hw=(\d+))?\s*$', l)
        if m:
            res.append(dict(op=m.group(1), args=[int(x) for x in m.group(2).split()], glm=[int(x) for x in m.group(3).split()],
                            oracle=m.group(4) or 'lean-specF', f16c=int(m.group(5)) if m.group(5) else None))
    return res


def run(tier, seed):
    t0 = time.time()
    for old in glob.glob(os.path.join(checklib.REPLAYS, PROP + '-*.json')): os.remove(old)
    kf = all_known()
    notes, problems = [], []          # problems: broken ties (strings) -> need the search
    specfails = []                    # concrete inputs on which glm violates the specification
    mismatches = []                   # model != glm lines
    # ---- fingerprint of the anchored source
    fp, pin = fingerprint(), pinned_fingerprint()
    fp_changed = pin is not None and fp != pin
    if fp_changed: notes.append('anchored source text changed (sha256 %s…, pinned %s…): full 2^32 sweep forced' % (fp[:12], pin[:12]))
    # ---- 1. harness from the current tree
    hbin, err, f16c = build_harness()
    if err: problems.append('harness diff/C07.cpp no longer compiles against %s: %s' % (checklib.REPO, err[-500:]))
    # ---- 2. proofs
    rc, bout, build_s = lake_build(MODS + ['drv_c07'])
    pf = os.path.join(LEAN, 'GlmVerif', 'Props', 'C07.lean')
    ns, names = theorems_in(pf)
    all_thms = [ns + '.' + n for n in names]
    checklib.BV_DECIDE_WHITELIST |= set(all_thms)
    failing = []
    if rc != 0:
        failing = [ns + '.' + n for n in failing_decls(bout, pf) if n in names]
        if not failing:
            failing = list(all_thms)
            notes.append('lake build failed outside Props/C07.lean: ' + bout[-600:])
    log('lake build %s: rc=%d %.1fs, %d/%d theorems check' % (MODS, rc, build_s, len(all_thms) - len(failing), len(all_thms)))
    axioms, audit_problems = {}, []
    if rc == 0:
        ok, axioms, audit_problems = audit(PROP, MODS)
        if audit_problems: log('audit problems:', audit_problems[:5])
    problems += ['theorem %s no longer checks' % t for t in failing] + audit_problems
    if not os.path.exists(DRV): problems.append('driver drv_c07 not built')
    # ---- 3. correspondence, quick part (always)
    corr, classes, harness_stat = {}, {}, {}
    samples = []
    lat_diff, sweep_diff = [], []
    evaluations = 0
    nontrivial = 0
    exhaustive = False
    lat_nt = 0
    if hbin:
        qpath = os.path.join(CACHE, 'C07.quick.%d' % os.getpid())
        lpath = qpath + '.lines'
        with open(qpath, 'w') as f:
            p = subprocess.run([hbin, 'quick', str(seed), str(NRANDOM.get(tier, 200000))], stdout=f, stderr=subprocess.PIPE, text=True, timeout=1800)
        if p.returncode != 0: problems.append('harness quick run failed: rc=%d %s' % (p.returncode, p.stderr[-300:]))
        lb_h, sf_lines, sample_ops = {}, [], {}
        with open(qpath) as f, open(lpath, 'w') as g:
            for i, l in enumerate(f):
                if l.startswith('LB '): w = l.split(); lb_h[int(w[1])] = int(w[2])
                elif l.startswith('SPECFAIL'): sf_lines.append(l.strip())
                elif l.startswith('HARNESS'):
                    harness_stat = {k: int(v) for k, v in re.findall(r'(\w+)=(\d+)', l)}
                else:
                    g.write(l)
                    op = l[:2]
                    if sample_ops.get(op, 0) < (2 if op != 'p1' else 6) and (i % 7919 == 0 or op not in ('u1', 'p1', 'rt')):
                        sample_ops[op] = sample_ops.get(op, 0) + 1; samples.append(l.strip())
        specfails += parse_specfail(sf_lines)
        evaluations += harness_stat.get('evals', 0)
        if os.path.exists(DRV):
            rc2, out = sh([DRV, 'lines', lpath], timeout=1800)
            m = re.search(r'CORR lines=(\d+) mismatches=(\d+) specfail=(\d+) nontrivial=(\d+) nontrivial_p1_off_lattice=(\d+) nontrivial_not_p1=(\d+) bad=(\d+)', out)
            if not m: problems.append('driver lines run failed: ' + out[-300:])
            else:
                corr = dict(zip(['lines', 'mismatches', 'specfail', 'nontrivial', 'nontrivial_p1_off_lattice', 'nontrivial_not_p1', 'bad'], map(int, m.groups())))
                if corr['bad']: problems.append('%d harness lines not understood by the driver' % corr['bad'])
                if corr['lines'] < 3 * 65536: problems.append('harness produced only %d lines' % corr['lines'])
            classes = {k: int(v) for l in out.split('\n') if l.startswith('CLASS') for k, v in re.findall(r'(\w+)=(\d+)', l)}
            mismatches += [l for l in out.split('\n') if l.startswith('MISMATCH')]
            specfails += parse_specfail([l for l in out.split('\n') if l.startswith('SPECFAIL')])
            rc3, lout = sh([DRV, 'lattice'], timeout=600)
            lb_m = {}
            for l in lout.split('\n'):
                w = l.split()
                if len(w) >= 3 and w[0] == 'LB': lb_m[int(w[1])] = int(w[2]); lat_nt += int(w[3]) if len(w) > 3 else 0
            if len(lb_m) != 256 or len(lb_h) != 256: problems.append('lattice hashes missing (%d harness, %d model)' % (len(lb_h), len(lb_m)))
            lat_diff = [k for k in range(256) if lb_h.get(k) != lb_m.get(k)]
            for k in lat_diff[:2]:     # localise: re-run the block through the line protocol
                bl = os.path.join(CACHE, 'C07.lat%d.%d' % (k, os.getpid()))
                with open(bl, 'w') as f: subprocess.run([hbin, 'latlines', str(k)], stdout=f, timeout=600)
                _, o = sh([DRV, 'lines', bl], timeout=600)
                mismatches += [l for l in o.split('\n') if l.startswith('MISMATCH')][:5]
                specfails += parse_specfail([l for l in o.split('\n') if l.startswith('SPECFAIL')])
                os.remove(bl)
            log('correspondence quick: %s, lattice blocks differing: %d/256, harness %s' % (corr, len(lat_diff), harness_stat))
        for pth in (qpath, lpath):
            try: os.remove(pth)
            except OSError: pass
    mismatches.sort(key=lambda l: 0 if l.startswith(('MISMATCH p1', 'MISMATCH u1')) else 1)
    if mismatches: problems.append('correspondence model≠glm: ' + mismatches[0][:200])
    if lat_diff and not mismatches: problems.append('lattice block(s) %s differ' % lat_diff[:5])
    nontrivial = corr.get('nontrivial_p1_off_lattice', 0) + corr.get('nontrivial_not_p1', 0) + lat_nt
    # ---- 4. full sweep: thorough tier, changed source, or anything off so far (search for a failing input)
    full = tier == 'thorough' or fp_changed or bool(problems) or bool(specfails)
    sweep_stat = {}
    if full and hbin:
        ts = time.time()
        hh, _, hother, herr = par_sweep(hbin)
        sf = parse_specfail([l for l in hother if l.startswith('SPECFAIL')])
        specfails += sf
        hs = [{k: int(v) for k, v in re.findall(r'(\w+)=(\d+)', l)} for l in hother if l.startswith('HARNESS')]
        sweep_stat = dict(evals=sum(h.get('evals', 0) for h in hs), specfail=sum(h.get('specfail', 0) for h in hs),
                          differs_from_f16c=sum(h.get('differs_from_f16c', 0) for h in hs), harness_s=round(time.time() - ts, 1))
        evaluations += sweep_stat['evals']
        if herr: problems.append('harness ' + herr)
        if len(hh) != NBLOCKS: problems.append('harness sweep returned %d of %d blocks' % (len(hh), NBLOCKS))
        else: exhaustive = True
        if os.path.exists(DRV):
            ts = time.time()
            mh, mnt, _, merr = par_sweep(DRV)
            sweep_stat['model_s'] = round(time.time() - ts, 1)
            if merr or len(mh) != NBLOCKS: problems.append('model sweep incomplete: %s' % merr); exhaustive = False
            sweep_diff = [k for k in range(NBLOCKS) if hh.get(k) != mh.get(k)]
            sweep_stat['blocks_differing'] = len(sweep_diff)
            # all p1 inputs are inside the sweep: count its non-trivial ones instead of lattice/off-lattice lines
            nontrivial = sum(mnt.values()) + corr.get('nontrivial_not_p1', 0)
            if sweep_diff and not mismatches:
                k = sweep_diff[0]
                bl = os.path.join(CACHE, 'C07.blk%d.%d' % (k, os.getpid()))
                with open(bl, 'w') as f: subprocess.run([hbin, 'blocklines', str(k)], stdout=f, timeout=600)
                _, o = sh([DRV, 'lines', bl], timeout=900)
                mismatches += [l for l in o.split('\n') if l.startswith('MISMATCH')][:5]
                specfails += parse_specfail([l for l in o.split('\n') if l.startswith('SPECFAIL')])
                os.remove(bl)
                problems.append('correspondence model≠glm in sweep block %d: %s' % (k, (mismatches or ['?'])[0][:200]))
        log('full sweep: %s' % sweep_stat)
    # ---- 5. verdict
    lines, seen, known_hits = [], set(), {}
    nviol = 0
    for v in specfails:
        func = FUNCS.get(v['op'], v['op'])
        k = match_known(kf, func, v['args'])
        if k:
            known_hits[(func, k['input_class'])] = k; continue
        key = (v['op'], tuple(v['args']))
        if key in seen or len(seen) >= 3: continue
        seen.add(key)
        model = None
        if os.path.exists(DRV) and v['op'] in ('p1', 'u1'):
            _, o = sh([DRV, 'eval', v['op'], str(v['args'][0])], timeout=60)
            model = o.strip()
        payload = dict(property=PROP, kind='glm-output-violates-specification', function='glm::' + func,
                       input_bits=v['args'], input_hex=['0x%x' % a for a in v['args']], glm_result_bits=v['glm'],
                       glm_result_hex=['0x%x' % a for a in v['glm']], oracle=v['oracle'], f16c_result=v['f16c'],
                       model_result=model, repo=checklib.REPO,
                       specification='unpack: exactly the binary16 value, sign/inf/NaN kept; pack: a nearest finite half (either on a tie), '
                                     '|f|>=65520 -> inf, |f|<2^-25 -> 0, inf->inf, NaN->NaN, sign kept (Hand/C07.lean specF32/specF16)',
                       failing_theorems=failing[:20], first_correspondence_mismatch=(mismatches or [None])[0],
                       replay='g++ -std=c++17 -O2 -I%s %s -o /tmp/C07.bin && /tmp/C07.bin eval %s %s   # prints glm result and oracle verdicts'
                              % (checklib.REPO, ('-mf16c -DHAVE_F16C ' if f16c else '') + SRC, v['op'], ' '.join(str(a) for a in v['args'])))
        lines.append('VIOLATION property=%s replay=%s' % (PROP, write_replay(PROP, payload)))
        nviol += 1
    for (func, cls), k in sorted(known_hits.items()):
        lines.append('KNOWN-FINDING: property=%s %s (%s, %s)' % (PROP, k['what'], func, cls))
    if problems and nviol == 0:
        payload = dict(property=PROP, kind='obligation-or-correspondence-no-longer-checks', items=problems[:20],
                       failing_theorems=failing[:40], first_model_vs_glm_mismatches=mismatches[:5], repo=checklib.REPO,
                       note='no input on which glm violates the specification was found; search = all 2^16 halves, lattice, random'
                            + (' and the complete sweep of all 2^32 floats against the soft and F16C oracles' if exhaustive else ''))
        lines.append('VIOLATION property=%s replay=%s no-failing-input-found' % (PROP, write_replay(PROP, payload)))
        nviol += 1
    discharged = len(all_thms) - len(failing)
    coverage = dict(
        obligations=len(all_thms), discharged=discharged,
        checker_cmd='cd lean && lake build GlmVerif.Props.C07 drv_c07  (+ lake env lean .cache/Audit_C07.lean for #print axioms)',
        trusted_base=TRUSTED,
        theorems=[dict(name=t, axioms=axioms.get(t)) for t in all_thms], failing_theorems=failing,
        lake_build_s=round(build_s, 1),
        evaluations=evaluations, distinct_nontrivial=nontrivial,
        rule='each evaluation is one call of the real glm function (packHalf1x16/unpackHalf1x16/2x16/4x16/packHalf<L>/unpackHalf<L>) '
             'on a bit pattern, compared bit for bit with the Lean model (per line, or per block hash of 10240 lattice / 2^20 consecutive inputs) '
             'and checked against the soft IEEE oracle and the F16C hardware in the harness and against specF16/specF32 in the driver. '
             'inputs: all 2^16 halves (unpack, re-pack, round trip); every upper-19-bit float prefix x low 13 bits in {0,0xfff,0x1000,0x1001,0x1fff}; '
             '15 boundary significands x 256 exponents x 2 signs; xoshiro256** (VERIF_SEED) floats from 7 distributions (uniform, half range, ties, '
             'half-subnormal range, overflow and underflow boundaries, inf/NaN payloads); 4000 random vectors per wrapper; thorough (or when anything is off): all 2^32 floats. '
             'distinct_nontrivial = distinct inputs whose result bits are neither zero nor numerically the input bits: lattice (or, when swept, all 2^32) '
             'inputs counted by the driver while hashing + distinct off-lattice p1 lines + distinct lines of the other operations (dedup by a hash set in the driver)',
        correspondence=corr, classes=classes, harness=harness_stat, lattice_blocks_differing=len(lat_diff), sweep=sweep_stat,
        f16c_oracle=bool(f16c), anchored_source_sha256=fp, anchored_source_changed=fp_changed,
        samples=samples, notes=notes, exhaustive=exhaustive,
        exhaustive_parts=dict(halves_2_16=True, lattice_2_19_x_5=True, floats_2_32=exhaustive))
    write_evidence(PROP, tier, seed, coverage,
                   ['see DESIGN.md §5 and "Outside" of C07: the FP overflow flag raised by detail::overflow() is not observed',
                    'x86-64 little-endian, g++ (two\'s complement conversions, arithmetic >> on int)'],
                   time.time() - t0, nviol)
    for l in lines: print(l)
    log('%s %s: %d theorem(s), %d failing, %d violation line(s), %.1fs' % (PROP, tier, len(all_thms), len(failing), nviol, time.time() - t0))
    return 1 if nviol else 0


def pin():
    os.makedirs(HDIR, exist_ok=True)
    json.dump({'anchored_sha256': fingerprint(), 'repo': checklib.REPO,
               'what': 'sha256 of type_half.inl + type_half.hpp + the *Half* functions of func_packing.inl and gtc/packing.inl'},
              open(os.path.join(HDIR, 'fingerprints.json'), 'w'), indent=1)


if __name__ == '__main__':
    if sys.argv[1:] == ['--pin']: pin()
    else: sys.exit(run(os.environ.get('VERIF_TIER', 'quick'), int(os.environ.get('VERIF_SEED', '1'))))
