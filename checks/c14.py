"""C14 — ULP stepping and epsilon/ULP comparisons (hand model, see checks/README.md, h/C14/NOTES.md).

run(tier, seed):
  1. lake build GlmVerif.Props.C14 (+ the native driver drv_c14), audit of the axioms;
  2. build diff/C14.cpp against the CURRENT tree (checklib.REPO), once plain and once with the sanitizers;
  3. line protocol: the harness evaluates the real glm on lattice / ULP-distance pairs / seeded random inputs,
     the driver evaluates the model and the executable specification on the same lines;
  4. thorough: all 2^32 floats through the unary functions, block hashes compared, differing blocks re-run
     through the line protocol;
  5. verdict: a glm result that violates the specification is a VIOLATION with that input as replay unless
     (function, input class) is a recorded known finding; a model/glm disagreement or a theorem that no
     longer checks without any such input is a VIOLATION ... no-failing-input-found.
"""
import os, re, json, time, glob, struct
from fractions import Fraction
from concurrent.futures import ThreadPoolExecutor
import checklib
from checklib import (LEAN, CACHE, REPO, VERIF, sh, log, lake_build, audit, theorems_in, failing_decls,
                      glm_tree_hash, sha_files, write_replay, write_evidence, known_findings)

PROP = 'C14'
MODULES = ['GlmVerif.Props.C14', 'GlmVerif.Props.C14.Bridge', 'GlmVerif.Props.C14.Spec', 'GlmVerif.Props.C14.Step',
           'GlmVerif.Props.C14.Dist', 'GlmVerif.Props.C14.Equal', 'GlmVerif.Props.C14.Eps']
SRC = os.path.join(VERIF, 'diff', 'C14.cpp')
DRV = os.path.join(LEAN, '.lake', 'build', 'bin', 'drv_c14')
HDIR = os.path.join(VERIF, 'h', PROP)
ANCHORS = ['glm/ext/scalar_ulp.inl', 'glm/ext/vector_ulp.inl', 'glm/gtc/ulp.inl', 'glm/ext/scalar_relational.inl',
           'glm/ext/vector_relational.inl', 'glm/ext/matrix_relational.inl', 'glm/ext/quaternion_relational.inl',
           'glm/gtc/epsilon.inl', 'glm/detail/type_float.hpp', 'glm/detail/compute_common.hpp']
FLAGS = ['-std=c++17', '-O1', '-fwrapv', '-ffp-contract=off', '-w']
SAN_FLAGS = ['-std=c++17', '-O1', '-g', '-ffp-contract=off', '-w', '-fsanitize=address,undefined,float-cast-overflow',
             '-fno-sanitize-recover=all']

# which glm function an operation of the harness exercises (for replays and known findings)
FUNCTION = {
    'next': 'nextFloat', 'gnext': 'next_float', 'vnext': 'nextFloat(vec)', 'gvnext': 'next_float(vec)',
    'prev': 'prevFloat', 'gprev': 'prev_float', 'vprev': 'prevFloat(vec)', 'gvprev': 'prev_float(vec)',
    'nextN': 'nextFloat(x, ULPs)', 'gnextN': 'next_float(x, ULPs)', 'vnextN': 'nextFloat(vec, int)', 'gvnextN': 'next_float(vec, int)',
    'vnextNv': 'nextFloat(vec, ivec)', 'gvnextNv': 'next_float(vec, ivec)',
    'prevN': 'prevFloat(x, ULPs)', 'gprevN': 'prev_float(x, ULPs)', 'vprevN': 'prevFloat(vec, int)', 'gvprevN': 'prev_float(vec, int)',
    'vprevNv': 'prevFloat(vec, ivec)', 'gvprevNv': 'prev_float(vec, ivec)',
    'dist': 'floatDistance', 'gdist': 'float_distance', 'vdist': 'floatDistance(vec)', 'gvdist': 'float_distance(vec)',
    'distN': 'floatDistance(x, nextFloat(x, n))', 'distP': 'floatDistance(x, prevFloat(x, n))',
    'ft': 'detail::float_t accessors',
    'eqU_s': 'equal_ulps_scalar', 'eqU_v': 'equal_ulps_vector', 'eqU_vk': 'equal_ulps_vector', 'eqU_m': 'equal_ulps_matrix', 'eqU_mS': 'equal_ulps_matrix',
    'eqE_s': 'equal_epsilon_scalar', 'eqE_v': 'equal_epsilon_vector', 'eqE_vv': 'equal_epsilon_vector', 'eqE_m': 'equal_epsilon_matrix',
    'eqE_q': 'equal_epsilon_quaternion',
    'eps_s': 'epsilonEqual', 'eps_v': 'epsilonEqual', 'eps_vv': 'epsilonEqual', 'eps_q': 'epsilonEqual',
    'nextafter': 'std::nextafter (libm model)', 'bundled': 'detail::nextafter (bundled, dead code here)',
}


# ------------------------------------------------------------------------------------------------ bit-level helpers
class Fmt:
    def __init__(self, w):
        self.w = w
        self.mb = 23 if w == 32 else 52
        self.eb = 8 if w == 32 else 11
        self.sign = 1 << (w - 1)
        self.mag = self.sign - 1
        self.inf = ((1 << self.eb) - 1) << self.mb
        self.bias = (1 << (self.eb - 1)) - 1

    def is_nan(self, x): return (x & self.mag) > self.inf
    def is_inf(self, x): return (x & self.mag) == self.inf
    def neg(self, x): return bool(x & self.sign)

    def value(self, x):
        """exact value of a finite pattern"""
        m = x & ((1 << self.mb) - 1)
        e = (x >> self.mb) & ((1 << self.eb) - 1)
        if e == 0: v = Fraction(m, 1) * Fraction(2) ** (1 - self.bias - self.mb)
        else: v = Fraction(m + (1 << self.mb), 1) * Fraction(2) ** (e - self.bias - self.mb)
        return -v if self.neg(x) else v

    def round(self, v):
        """round-to-nearest-even of an exact rational to this format; returns |result| as ('inf'|Fraction)"""
        if v == 0: return Fraction(0)
        a = abs(v)
        # exponent of the leading bit
        e = a.numerator.bit_length() - a.denominator.bit_length()
        if Fraction(2) ** e > a: e -= 1
        if Fraction(2) ** (e + 1) <= a: e += 1
        emin = 1 - self.bias
        q = max(e, emin) - self.mb              # exponent of the unit in the last place
        n = a / Fraction(2) ** q
        f = n.numerator // n.denominator
        r = n - f
        if r > Fraction(1, 2) or (r == Fraction(1, 2) and (f & 1)): f += 1
        res = Fraction(f) * Fraction(2) ** q
        if res >= Fraction(2) ** (self.bias + 1): return 'inf'
        return res

    def abs_sub(self, x, y):
        """|fl(x - y)| as 'nan' | 'inf' | Fraction"""
        if self.is_nan(x) or self.is_nan(y): return 'nan'
        if self.is_inf(x) or self.is_inf(y):
            if self.is_inf(x) and self.is_inf(y) and self.neg(x) == self.neg(y): return 'nan'
            return 'inf'
        return self.round(self.value(x) - self.value(y))

    def abs_value(self, e):
        if self.is_nan(e): return 'nan'
        if self.is_inf(e): return 'inf'
        return abs(self.value(e))


F32, F64 = Fmt(32), Fmt(64)


def fmt_of(w): return F32 if w == 32 else F64


# ------------------------------------------------------------------------------------------------ known-finding classes
def _eps_components(op, a):
    """(x, y, e) triples of an epsilon operation"""
    if op in ('eps_s',): return [(a[0], a[1], a[2])]
    if op == 'eps_v': return [(a[0], a[1], a[4]), (a[2], a[3], a[4])]
    if op == 'eps_vv': return [(a[0], a[1], a[4]), (a[2], a[3], a[5])]
    if op == 'eps_q': return [(a[2 * i], a[2 * i + 1], a[8]) for i in range(4)]
    return []


def class_scalar_sign(op, w, a, glm, spec):
    """equal_ulps_scalar: the sign bits of x and y differ"""
    f = fmt_of(w)
    return op == 'eqU_s' and f.neg(a[0]) != f.neg(a[1])


def class_eps_equal(op, w, a, glm, spec):
    """epsilonEqual/epsilonNotEqual: every component on which glm differs from the statement has |fl(x-y)| == epsilon,
    and on those components glm answers equal=false, notEqual=true (the strict comparison)"""
    f = fmt_of(w)
    comps = _eps_components(op, a)
    if not comps or len(glm) != 2 or len(spec) != 2: return False
    bad = False
    for i, (x, y, e) in enumerate(comps):
        ge, gn = (glm[0] >> i) & 1, (glm[1] >> i) & 1
        se, sn = (spec[0] >> i) & 1, (spec[1] >> i) & 1
        if (ge, gn) == (se, sn): continue
        d, ev = f.abs_sub(x, y), f.abs_value(e)
        if d == 'nan' or ev == 'nan' or d != ev: return False
        if (ge, gn) != (0, 1) or (se, sn) != (1, 0): return False
        bad = True
    return bad


CLASSES = {
    ('equal_ulps_scalar', 'sign(x) != sign(y)'): class_scalar_sign,
    ('epsilonEqual', '|fl(x-y)| == epsilon'): class_eps_equal,
}


def load_known():
    known = list(known_findings(PROP))
    p = os.path.join(HDIR, 'known_findings_entries.json')
    if os.path.exists(p):
        for k in json.load(open(p)):
            if k.get('property') == PROP and not any(k.get('function') == q.get('function') and k.get('input_class') == q.get('input_class') for q in known):
                known.append(k)
    return known


def match_known(known, op, w, a, glm, spec):
    fn = FUNCTION.get(op)
    for k in known:
        if k.get('function') != fn: continue
        pred = CLASSES.get((k.get('function'), k.get('input_class')))
        if pred and pred(op, w, a, glm, spec): return k
    return None


# ------------------------------------------------------------------------------------------------ building / running
def build_harness(flags, tag):
    key = sha_files([SRC], glm_tree_hash() + ' '.join(flags) + REPO)[:16]
    out = os.path.join(CACHE, 'C14_%s_%s.bin' % (tag, key))
    for old in glob.glob(os.path.join(CACHE, 'C14_%s_*.bin' % tag)):
        if old != out:
            try: os.remove(old)
            except OSError: pass
    if os.path.exists(out): return out, None
    rc, o = sh(['g++'] + flags + ['-I' + REPO, '-o', out + '.tmp', SRC], timeout=900)
    if rc != 0: return None, o[-3000:]
    os.replace(out + '.tmp', out)
    return out, None


def run_to_file(cmd, path, timeout, env=None):
    import subprocess
    with open(path, 'w') as f:
        try:
            p = subprocess.run(cmd, stdout=f, stderr=subprocess.PIPE, timeout=timeout, text=True, env=env)
        except subprocess.TimeoutExpired:
            return 124, 'timeout'
    return p.returncode, p.stderr[-3000:]


LINE_RE = re.compile(r'^(\S+) (\d+) (.*?) ?-> ?(.*)$')


def parse_line(s):
    m = LINE_RE.match(s.strip())
    if not m: return None
    return m.group(1), int(m.group(2)), [int(x, 16) for x in m.group(3).split()], [int(x, 16) for x in m.group(4).split()]


def parse_spec(s):
    out = []
    for t in s.split():
        if t == '-': out.append(None)
        else: out.append(int(t.split('/')[0], 16))
    return out


def drive_lines(lines_path, out_path, timeout):
    rc, err = run_to_file([DRV, 'lines', lines_path], out_path, timeout)
    res = dict(rc=rc, err=err, mm=[], sv=[], ops={}, summary=None, bad=[], explored=[])
    if rc != 0: return res
    with open(out_path) as f:
        for l in f:
            if l.startswith('SV '):
                body, _, sp = l[3:].rstrip('\n').partition(' | spec=')
                res['sv'].append((body, sp))
            elif l.startswith('MM '):
                res['mm'].append(l[3:].rstrip('\n'))
            elif l.startswith('OP '):
                m = re.match(r'OP (\S+) (\d+) n=(\d+) mm=(\d+) sv=(\d+) silent=(\d+) nontrivial=(\d+)', l)
                if m: res['ops']['%s/%s' % (m.group(1), m.group(2))] = dict(n=int(m.group(3)), mm=int(m.group(4)), sv=int(m.group(5)), silent=int(m.group(6)), nontrivial=int(m.group(7)))
            elif l.startswith('SUMMARY '):
                res['summary'] = {k: int(v) for k, v in re.findall(r'(\w+)=(\d+)', l)}
            elif l.startswith('BAD '):
                res['bad'].append(l.rstrip('\n'))
            elif l.startswith(('EXACT-', 'BUNDLED ')):
                res['explored'].append(l.rstrip('\n'))
    return res


def classify(res, known, violations, known_hits, harness):
    """every spec violation of glm: known finding or violation (with replay payload)"""
    for body, sp in res['sv']:
        p = parse_line(body)
        if not p: continue
        op, w, a, glm = p
        spec = parse_spec(sp)
        k = match_known(known, op, w, a, glm, [s if s is not None else 0 for s in spec])
        if k:
            key = (k['function'], k['input_class'])
            h = known_hits.setdefault(key, dict(entry=k, n=0, example=body))
            h['n'] += 1
            continue
        violations.append(dict(
            property=PROP, kind='glm-output-differs-from-specification', function=FUNCTION.get(op, op), op=op, width=w,
            input_bits=['0x%x' % x for x in a], glm_bits=['0x%x' % x for x in glm],
            spec_bits=['-' if s is None else '0x%x' % s for s in spec],
            replay='%s eval %s %d %s   (harness: g++ %s -I%s %s)' % (os.path.basename(harness or 'C14'), op, w, ' '.join('%x' % x for x in a), ' '.join(FLAGS), REPO, SRC)))


def sweep(harness, nchunks=16):
    """all 2^32 floats: (mismatching blocks, spec-violation count of the model, error text)"""
    per = 4096 // nchunks

    def one(i):
        lo, hi = i * per, (i + 1) * per
        rc1, o1 = sh([harness, 'sweep', str(lo), str(hi)], timeout=3000)
        rc2, o2 = sh([DRV, 'sweep', str(lo), str(hi)], timeout=3000)
        return rc1, o1, rc2, o2
    with ThreadPoolExecutor(max_workers=nchunks) as ex:
        outs = list(ex.map(one, range(nchunks)))
    bad_blocks, specviol, finite, err = [], 0, 0, None
    for rc1, o1, rc2, o2 in outs:
        if rc1 != 0 or rc2 != 0:
            err = 'sweep failed: harness rc=%d driver rc=%d %s %s' % (rc1, rc2, o1[-300:], o2[-300:])
            continue
        g = {l.split()[1]: l.split()[2:] for l in o1.split('\n') if l.startswith('B ')}
        m = {l.split()[1]: l.split()[2:] for l in o2.split('\n') if l.startswith('B ')}
        for b in g:
            if g[b] != m.get(b): bad_blocks.append(int(b))
        mm = re.search(r'SPEC blocks=(\d+) finite=(\d+) specviol=(\d+)', o2)
        if mm: finite += int(mm.group(2)); specviol += int(mm.group(3))
        else: err = 'sweep: no SPEC line'
    return sorted(bad_blocks), specviol, finite, err


def fingerprints():
    """sha256 of the content of each anchored source file (path-independent)"""
    import hashlib
    out = {}
    for a in ANCHORS:
        try: out[a] = hashlib.sha256(open(os.path.join(REPO, a), 'rb').read()).hexdigest()[:16]
        except OSError: out[a] = '<missing>'
    return out


# ------------------------------------------------------------------------------------------------ the check
def run(tier, seed):
    t0 = time.time()
    for old in glob.glob(os.path.join(checklib.REPLAYS, PROP + '-*.json')): os.remove(old)
    known = load_known()
    notes, unexplained, violations, known_hits = [], [], [], {}

    # anchored source fingerprints: a change is not an alarm, it raises this run's correspondence budget
    fp = fingerprints()
    fp_file = os.path.join(HDIR, 'fingerprints.json')
    fp_changed = []
    if os.path.exists(fp_file):
        ref = json.load(open(fp_file))
        fp_changed = [a for a in ANCHORS if ref.get(a) != fp[a]]
        if fp_changed: notes.append('anchored source changed since the model was written: ' + ', '.join(fp_changed))
    budget = 'thorough' if (tier == 'thorough' or fp_changed) else 'quick'

    # 1. prove
    all_thms, failing = [], []
    files = {m: os.path.join(LEAN, m.replace('.', '/') + '.lean') for m in MODULES}
    for m in MODULES:
        ns, names = theorems_in(files[m])
        full = [ns + '.' + n for n in names]
        all_thms += full
        if not m.endswith('.Bridge'):
            checklib.BV_DECIDE_WHITELIST.update(full)      # bit-level theorems (and their corollaries) of C14
    rc, build_out, build_s = lake_build(['GlmVerif.Props.C14', 'drv_c14'], timeout=2400)
    if rc != 0:
        for m in MODULES:
            ns, _ = theorems_in(files[m])
            failing += [ns + '.' + n for n in failing_decls(build_out, files[m])]
        if not failing:
            failing = list(all_thms)
            notes.append('lake build failed outside the Props modules: ' + build_out[-800:])
    log('lake build Props.C14 + drv_c14: rc=%d %.1fs, %d/%d theorems check' % (rc, build_s, len(all_thms) - len(failing), len(all_thms)))
    axioms, audit_problems = {}, []
    if rc == 0:
        ok, axioms, audit_problems = audit(PROP, MODULES)
        if audit_problems: log('audit problems:', audit_problems[:5])
        if tier == 'thorough':
            for m in MODULES:
                with checklib.LakeLock():
                    r, o = sh(['lake', 'env', 'leanchecker', m], cwd=LEAN, timeout=1800)
                if r != 0: audit_problems.append('leanchecker %s: %s' % (m, o[-300:]))
            log('leanchecker on %d modules done' % len(MODULES))
    driver_ok = os.path.exists(DRV) and (rc == 0 or not re.search(r'DrvC14|drv_c14', build_out))

    # 2. harness against the current tree
    harness, err = build_harness(FLAGS, 'h')
    san, san_err = (None, None)
    if err:
        unexplained.append('harness no longer compiles against %s: %s' % (REPO, err[-800:]))
    else:
        san, san_err = build_harness(SAN_FLAGS, 'san')
        if san_err: notes.append('sanitizer build failed: ' + san_err[-300:])

    # 3. line protocol
    res, evaluations, nontrivial, samples, exhaustive = None, 0, 0, [], False
    tmp = lambda name: os.path.join(CACHE, 'C14.%d.%s' % (os.getpid(), name))     # private to this run
    lines_path = tmp('lines')
    if harness and driver_ok:
        rcg, e = run_to_file([harness, 'lines', str(seed), budget], lines_path, 900)
        if rcg != 0:
            unexplained.append('harness run failed (rc=%d): %s' % (rcg, e[-500:]))
        else:
            res = drive_lines(lines_path, tmp('drv'), 1800)
            if res['rc'] != 0 or res['summary'] is None:
                unexplained.append('driver failed on the harness lines: rc=%s %s' % (res['rc'], (res['err'] or '')[-300:]))
                res = None
            else:
                s = res['summary']
                evaluations += s['lines']; nontrivial += s['nontrivial']
                log('correspondence (lines, %s budget): %s' % (budget, s))
                if res['bad']: unexplained.append('driver could not read %d harness line(s): %s' % (len(res['bad']), res['bad'][0][:200]))
                classify(res, known, violations, known_hits, harness)
                if res['mm']:
                    notes.append('model != glm on %d line(s), first: %s' % (s['mm'], res['mm'][0][:300]))
                if s.get('exact_impl_viol', 0):
                    unexplained.append('explored: exact |x-y| <= eps but equal(x,y,eps) false on %d input(s): %s' % (s['exact_impl_viol'], [x for x in res['explored'] if x.startswith('EXACT-IMPL')][:1]))
                with open(lines_path) as f:
                    for i, l in enumerate(f):
                        if i % 9973 == 0 and len(samples) < 12: samples.append(l.strip())
        # the same inputs under ASan/UBSan: identical output, no abort
        if san and rcg == 0:
            sp = tmp('san.lines')
            env = dict(os.environ, ASAN_OPTIONS='detect_leaks=0', UBSAN_OPTIONS='print_stacktrace=1')
            rcs, e = run_to_file([san, 'lines', str(seed), budget], sp, 1800, env=env)
            if rcs != 0:
                violations.append(dict(property=PROP, kind='sanitizer-abort-inside-glm', function='(see report)', op='lines', width=0,
                                       input_bits=[], glm_bits=[], spec_bits=[], report=e[-1500:],
                                       replay='%s lines %d %s' % (san, seed, budget)))
            elif open(sp).read() != open(lines_path).read():
                unexplained.append('sanitizer build and -O1 -fwrapv build of the harness print different results (undefined behaviour suspected)')

    # 4. exhaustive sweep of the unary float functions
    sweep_info = None
    if tier == 'thorough' and harness and driver_ok:
        tS = time.time()
        bad_blocks, specviol, finite, e = sweep(harness)
        sweep_info = dict(blocks=4096, mismatching_blocks=len(bad_blocks), finite_patterns=finite, model_vs_spec_violations=specviol, seconds=round(time.time() - tS, 1))
        log('sweep of all 2^32 floats:', sweep_info)
        if e: unexplained.append(e)
        else:
            evaluations += 9 * (1 << 32); exhaustive = True
            nontrivial += finite
        if specviol: unexplained.append('the model differs from the specification on %d float pattern(s) of the sweep' % specviol)
        for b in bad_blocks[:3]:
            bp = tmp('block')
            rcb, _ = run_to_file([harness, 'block', str(b)], bp, 900)
            rb = drive_lines(bp, tmp('block.drv'), 1800) if rcb == 0 else None
            if rb and rb['summary']:
                n0 = len(violations)
                classify(rb, known, violations, known_hits, harness)
                if len(violations) == n0:
                    unexplained.append('sweep block %d: glm differs from the model (%s) but meets the specification' % (b, (rb['mm'] or ['?'])[0][:200]))
            else:
                unexplained.append('sweep block %d differs and could not be re-run' % b)

    # 5. verdict
    if res and res['mm'] and not violations:
        unexplained.append('correspondence model≠glm on %d line(s), e.g. %s' % (res['summary']['mm'], res['mm'][0][:300]))
    unexplained += ['theorem %s no longer checks' % t for t in failing]
    unexplained += audit_problems
    if not driver_ok: unexplained.append('driver drv_c14 did not build: ' + build_out[-500:])
    lines = []
    for (fn, cls), h in sorted(known_hits.items()):
        lines.append('KNOWN-FINDING: property=%s %s [%s: %s] (%d input(s) this run, e.g. %s)' % (PROP, h['entry'].get('what', ''), fn, cls, h['n'], h['example'][:120]))
    seen = set()
    for v in violations:
        key = (v['function'], v['width'])
        if key in seen: continue
        seen.add(key)
        if len(seen) > 6: break
        lines.append('VIOLATION property=%s replay=%s' % (PROP, write_replay(PROP, v)))
    if unexplained and not violations:
        payload = dict(property=PROP, kind='obligation-or-correspondence-no-longer-checks', items=unexplained[:20],
                       failing_theorems=failing[:40], note='no input was found on which glm violates the specification')
        lines.append('VIOLATION property=%s replay=%s no-failing-input-found' % (PROP, write_replay(PROP, payload)))
    nviol = sum(1 for l in lines if l.startswith('VIOLATION'))

    summ = (res or {}).get('summary') or {}
    bv = sorted(t for t, ax in axioms.items() if any('._native.bv_decide.ax_' in a for a in (ax or [])))
    coverage = dict(
        obligations=len(all_thms), discharged=len(all_thms) - len(failing),
        checker_cmd='cd lean && lake build GlmVerif.Props.C14   (+ lake env lean .cache/Audit_C14.lean for #print axioms%s)' % ('; lake env leanchecker per module' if tier == 'thorough' else ''),
        trusted_base=[
            checklib.TRUSTED_BASE[0], checklib.TRUSTED_BASE[1],
            'bv_decide: each bit-level theorem carries a <thm>._native.bv_decide.ax_* axiom (LRAT certificate checked by compiled Lean code); whitelisted theorem by theorem, listed under bv_decide_theorems',
            'std::nextafter (glibc) and hardware float subtraction are modelled, not verified: nextafter32/64 is proved equal to the C11 specification and compared with the platform on every run; fl(x-y) is the native Float32/Float subtraction on the Lean side',
            'diff/C14.cpp, lean/DrvC14.lean, checks/c14.py (input generation, line protocol, classification of known findings)',
            checklib.TRUSTED_BASE[-1]],
        theorems=[dict(name=t, axioms=axioms.get(t)) for t in all_thms], failing_theorems=failing, bv_decide_theorems=bv,
        lake_build_s=round(build_s, 1),
        evaluations=evaluations, distinct_nontrivial=nontrivial,
        rule='one evaluation = one call of a real glm function (harness diff/C14.cpp built from %s) whose result is compared bit for bit with the hand model '
             'and checked against the executable specification by drv_c14; inputs: every binade boundary ±1 ulp of float and double, ±0, ±subnormals, ±max, ±inf, NaNs, '
             'pairs at ULP distance 0,1,2,3,4,7,16,31..33,63,64 on both sides of every pool value (straddling zero), epsilons equal to / one ulp around |fl(x-y)|, '
             'xoshiro256** random patterns seeded by VERIF_SEED; distinct = distinct (operation, argument bits); non-trivial = the result tuple is neither all zero nor a copy of the arguments; '
             'thorough adds all 2^32 floats through nextFloat, prevFloat, next_float, prev_float, float_t accessors, floatDistance(x,nextFloat x), equal(x,nextFloat x,{0,1}), 3-step next/prev '
             '(9 values per pattern, block hashes; non-trivial there = finite patterns)' % REPO,
        samples=samples, exhaustive=exhaustive, budget=budget, sweep=sweep_info,
        per_operation=(res or {}).get('ops'), explored=dict(
            exact_rational_epsilon=dict(checked=summ.get('exact_checked'), exact_le_but_glm_false=summ.get('exact_impl_viol'),
                                        glm_true_by_rounding_only=summ.get('exact_slack')),
            bundled_nextafter=dict(evaluated=summ.get('bundled'), differs_from_c11=summ.get('bundled_diff')),
            samples=(res or {}).get('explored', [])[:10]),
        known_findings_hit=[dict(function=fn, input_class=cls, inputs=h['n'], example=h['example']) for (fn, cls), h in sorted(known_hits.items())],
        anchored_source_fingerprints=fp, notes=notes)
    write_evidence(PROP, tier, seed, coverage,
                   ['IEEE-754 binary32/64 hardware arithmetic with round-to-nearest-even, no x87, -ffp-contract=off',
                    'glibc nextafter/nextafterf meet C11 7.12.11.3 (modelled as nextafterSpec, validated on every run)',
                    'NaN payloads are not modelled (results canonicalised); the property is silent on NaN arguments of the stepping and ULP functions',
                    'see DESIGN.md §5 and h/C14/NOTES.md'],
                   time.time() - t0, nviol)
    for p in glob.glob(os.path.join(CACHE, 'C14.%d.*' % os.getpid())):
        try: os.remove(p)
        except OSError: pass
    for l in lines: print(l)
    log('%s %s: %d theorem(s), %d failing, %d evaluation(s), %d violation line(s), %.1fs' % (PROP, tier, len(all_thms), len(failing), evaluations, nviol, time.time() - t0))
    return 1 if nviol else 0
