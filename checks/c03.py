"""C03 — SIMD-intrinsic builds return the same results as the pure C++ path.

  model          trace/units/C03.cpp: for every operation of trace/fake_intrin/c03_ops.hpp the generic code and the code
                 glm selects for aligned types under GLM_FORCE_INTRINSICS at each ISA level (SSE2 … AVX2+FMA, and the
                 quaternion operations again under GLM_FORCE_QUAT_DATA_WXYZ), the latter traced through lane-wise FAKE
                 intrinsics on symbolic lanes; regenerated from /repo on every run (16 configurations), merged and
                 de-duplicated by trace/merge_c03.py, translated by trace/gen_lean.py  ->  lean/GlmVerif/Gen/C03*
  proof          lean/GlmVerif/Props/C03*.lean: 16 kernel-checked table slices (`chunk_k_ok`) + the lifted statements
                 simd_eq_pure_real / simd_eq_pure_int (Sem/C03.lean) + approx_only_lowp
  correspondence (a) diff/C03_fake_check.cpp: every fake intrinsic against the real instruction, lane by lane, bit for bit
                 (b) `evalcheck`: the traced trees evaluated in IEEE arithmetic against the lines printed by the REAL builds
                     (diff/C03.cpp compiled with -DGLM_FORCE_PURE and with -DGLM_FORCE_INTRINSICS -msse2 … -mavx2 -mfma)
                 (c) the two real builds against each other, line by line, per class of operation
  search         a failing table entry names (operation, level); the two-build differential supplies the witness: an input
                 on which the real pure build and the real SIMD build disagree beyond what the operation's class allows.
"""
import os, sys, re, json, time, glob, struct, subprocess, collections
from concurrent.futures import ThreadPoolExecutor
import checklib
from checklib import (LEAN, CACHE, VERIF, sh, log, lake_build, audit, theorems_in, failing_decls, glm_tree_hash,
                      sha_files, write_replay, write_evidence, known_findings, build_units)

PROP = 'C03'
DRV = os.path.join(LEAN, '.lake', 'build', 'bin', 'drv_c03')
MODS = ['GlmVerif.Props.C03'] + ['GlmVerif.Props.C03.T_%d' % k for k in range(16)]
ISA_FLAGS = [['-msse2'], ['-msse3'], ['-mssse3'], ['-msse4.1'], ['-msse4.2'], ['-mavx'], ['-mavx2'], ['-mavx2', '-mfma', '-DGLM_FORCE_FMA']]
ISA_CPU = [['sse2'], ['pni'], ['ssse3'], ['sse4_1'], ['sse4_2'], ['avx'], ['avx2'], ['avx2', 'fma']]
ISA_NAME = ['SSE2', 'SSE3', 'SSSE3', 'SSE4.1', 'SSE4.2', 'AVX', 'AVX2', 'AVX2+FMA']
HFLAGS = ['-std=c++17', '-O1', '-ffp-contract=off', '-w']

TRUSTED = [
    'Lean 4.33 kernel (`decide +kernel` evaluates the table slices); axioms propext, Classical.choice, Quot.sound only (audited on every run)',
    'the fake intrinsics trace/fake_intrin/fake_core.hpp (lane-wise definitions of the 165 intrinsics glm uses): compared with the real '
    'instructions on every run (diff/C03_fake_check.cpp), and the traced trees with the real builds (evalcheck)',
    'g++ instantiates glm\'s aligned specialisations on the symbolic lane types exactly as on __m128/float (measured by evalcheck at every ISA level the CPU has)',
    'trace/merge_c03.py (renaming / de-duplication), trace/gen_lean.py (syntax), Core/Exec parser of the native driver',
    'Spec/C03Ops.lean: the class (ident / field / sqrtsq) assigned to each operation; Spec/C03.lean pre-passes (abs as a decision, fma as a*b+c, integer bit tests)',
    'rcp/rsqrt are exact 1/x, 1/sqrt x in the model: the hardware contract |rel. error| <= 1.5*2^-12 is assumed (and only lowp operations may use them: theorem approx_only_lowp)',
    'sign-bit tests are modelled as x < 0 (differs for -0 and negative NaN only; units listed in Gen.C03map.signbitUnits)',
]

IDENT_TOL_NOTE = 'ident class: bit-identical, except that +0/-0 and all NaNs count as one value; lines with a non-finite input are outside the domain'


def cpu_levels():
    try:
        flags = set(re.search(r'^flags\s*:\s*(.*)$', open('/proc/cpuinfo').read(), re.M).group(1).split())
    except Exception:
        flags = set()
    return [k for k in range(8) if all(f in flags for f in ISA_CPU[k])]


def f32(bits): return struct.unpack('<f', struct.pack('<I', bits & 0xffffffff))[0]
def f64(bits): return struct.unpack('<d', struct.pack('<Q', bits & 0xffffffffffffffff))[0]


def generate():
    """trace all 16 configurations against checklib.REPO, merge, write Gen/C03*.  returns (merged path, error or None)"""
    bins, err = build_units('C03')
    if err: return None, 'trace/units/C03.cpp no longer compiles against %s: %s' % (checklib.REPO, err[-600:])
    outs = []
    def tr(kb):
        k, b = kb
        o = os.path.join(CACHE, 'C03_cfg%d.units' % k)
        with open(o, 'w') as f:
            p = subprocess.run([b, 'trace'], stdout=f, stderr=subprocess.PIPE, text=True, timeout=1800)
        return o, p.returncode, p.stderr[-300:]
    with ThreadPoolExecutor(16) as ex:
        for o, rc, e in ex.map(tr, list(enumerate(bins))):
            if rc != 0: return None, 'tracer failed: ' + e
            outs.append(o)
    merged = os.path.join(CACHE, 'C03.units')
    rc, out = sh([sys.executable, os.path.join(VERIF, 'trace', 'merge_c03.py'), merged, os.path.join(LEAN, 'GlmVerif', 'Gen', 'C03map.lean')] + outs)
    if rc != 0: return None, 'merge failed: ' + out[-400:]
    rc, out = sh([sys.executable, os.path.join(VERIF, 'trace', 'gen_lean.py'), merged, 'C03', os.path.join(LEAN, 'GlmVerif', 'Gen'), '--no-lookup-thms'])
    if rc != 0: return None, 'gen_lean failed: ' + out[-400:]
    return merged, None


def build_harness(tag, flags):
    src = os.path.join(VERIF, 'diff', 'C03.cpp')
    deps = [src] + glob.glob(os.path.join(VERIF, 'trace', 'fake_intrin', '*'))
    key = sha_files(deps, glm_tree_hash() + ' '.join(flags))[:16]
    out = os.path.join(CACHE, 'C03h_%s_%s.bin' % (tag, key))
    if os.path.exists(out): return out, None
    for old in glob.glob(os.path.join(CACHE, 'C03h_%s_*.bin' % tag)):
        try: os.remove(old)
        except OSError: pass
    rc, o = sh(['g++'] + HFLAGS + flags + ['-I' + checklib.REPO, '-I' + VERIF, '-o', out + '.tmp', src], timeout=1800)
    if rc != 0: return None, o[-800:]
    os.replace(out + '.tmp', out)
    return out, None


def load_lines(path):
    d = collections.OrderedDict()
    for l in open(path):
        p = l.split()
        if not p or p[0] == '#' or '->' not in p: continue
        k = p.index('->')
        d.setdefault(p[0], []).append(([int(x) for x in p[1:k]], [int(x) for x in p[k + 1:]]))
    return d


def op_class(op, ops_mode, generic_only, no_pure):
    """class of a harness operation name (same names as the units without the pure_/simd_ prefix)"""
    if op in ops_mode: return ops_mode[op]
    if op in generic_only: return 'ident'
    if op in no_pure: return 'approx'
    return None


def spec_tables():
    """the operation table of Spec/C03Ops.lean (read, not re-stated)"""
    txt = open(os.path.join(LEAN, 'GlmVerif', 'Spec', 'C03Ops.lean')).read()
    ops = collections.OrderedDict((m.group(1), m.group(2)) for m in re.finditer(r'\("([^"]+)", \.(ident|field|sqrtsq)\)', txt))
    def strs(name):
        m = re.search(r'def %s : List String := \[(.*?)\]' % name, txt, re.S)
        return re.findall(r'"([^"]+)"', m.group(1)) if m else []
    skipped = [(m.group(1), int(m.group(2))) for m in re.finditer(r'\("([^"]+)", (\d+)\)', txt)]
    return ops, strs('genericOnly'), strs('noPure'), skipped


def is_double_op(op): return op.startswith('d_')
def is_int_op(op): return re.match(r'^[iu](add|adds|sub|mul|and|or|xor|not|neg|shl|shr|min|max|clamp|abs|eq|neq)$', op) is not None


def differs(op, cls, ins, a, b):
    """None if the two result rows agree within what the class allows, else a description.
    Outside every operation's domain (skipped): a non-finite input; an input so large that squares overflow
    (multi-term classes); a denormal input of an operation that uses rcp/rsqrt (the hardware flushes them);
    a line on which the GENERIC build itself returns NaN or infinity (0/0, inf - inf, edge0 == edge1 …)."""
    if is_int_op(op):
        return None if a == b else 'integer results differ'
    dbl = is_double_op(op)
    conv = f64 if dbl else f32
    fin = [conv(x) for x in ins]
    if any(v != v or abs(v) == float('inf') for v in fin): return None
    fa, fb = [conv(x) for x in a], [conv(x) for x in b]
    if any(v != v or abs(v) == float('inf') for v in fa): return None
    approx = cls in ('approx', 'sqrtsq') or '_lowp' in op
    if approx and any(0 < abs(v) < 1.1754943508222875e-38 for v in fin): return None
    if cls != 'ident' or approx:
        if any(abs(v) > 1e18 for v in fin + fa): return None
    if cls == 'ident' and not approx:
        for x, y, bx, by in zip(fa, fb, a, b):
            if bx == by: continue
            if x == 0 and y == 0: continue
            return 'identical-class results differ: %r vs %r' % (x, y)
        return None
    # multi-term classes: a few units of rounding of the largest term (bounded through the largest magnitude involved)
    scale = max([1e-30] + [abs(v) for v in fin + fa])
    rel = 2.0 ** -10 if approx else (2.0 ** -44 if dbl else 2.0 ** -17)
    for x, y in zip(fa, fb):
        if y != y or abs(y) == float('inf'): return 'the SIMD build returns %r where the generic build returns %r' % (y, x)
        if abs(x - y) > rel * max(scale, scale ** 4):          # degree <= 4 in the inputs for every operation of the table
            return 'results differ by %.3g (scale %.3g): %r vs %r' % (abs(x - y), scale, x, y)
    return None


KNOWN_CLASS = {
    # (function, predicate over (inputs as floats, pure outs, simd outs)) of recorded findings
    'round-ties': lambda op, fin, fa, fb: re.match(r'^round(3)?(_mediump|_lowp)?$', op) is not None and
                  any(abs(x - int(x)) == 0.5 for x in fin if abs(x) < 2 ** 23),
}


def run(tier, seed):
    t0 = time.time()
    for old in glob.glob(os.path.join(checklib.REPLAYS, PROP + '-*.json')): os.remove(old)
    kf = known_findings(PROP)
    problems, notes, violations, known_hits = [], [], [], collections.OrderedDict()
    # ---- 1. regenerate the model
    merged, gerr = generate()
    if gerr: problems.append(gerr)
    # ---- 2. proofs
    rc, bout, build_s = lake_build(MODS + ['drv_c03'], timeout=7200)
    all_thms, failing = [], []
    for mod in MODS:
        f = os.path.join(LEAN, mod.replace('.', '/') + '.lean')
        ns, names = theorems_in(f)
        all_thms += [ns + '.' + n for n in names]
        if rc != 0: failing += [ns + '.' + n for n in failing_decls(bout, f) if n in names]
    if rc != 0 and not failing:
        failing = list(all_thms); notes.append('lake build failed outside the theorem modules: ' + bout[-500:])
    log('lake build Props.C03 (+16 slices): rc=%d %.1fs, %d/%d theorems check' % (rc, build_s, len(all_thms) - len(failing), len(all_thms)))
    axioms, audit_problems = {}, []
    if rc == 0:
        ok, axioms, audit_problems = audit(PROP, MODS)
    problems += audit_problems
    # ---- 3. which (operation, variant) pairs fail: the same check evaluated natively
    failing_pairs, scan = [], {}
    if merged and os.path.exists(DRV):
        rcs, sout = sh([DRV, 'scan', merged], timeout=1800)
        for m in re.finditer(r'^PAIR (\S+) (\S+) (\S+) (OK|SKIP|MISSING|FAIL)(?: (\d+))?', sout, re.M):
            scan[(m.group(1), m.group(2))] = m.group(4)
            if m.group(4) in ('FAIL', 'MISSING'): failing_pairs.append((m.group(1), m.group(2), m.group(3), m.group(4)))
        ms = re.search(r'SUMMARY ops=(\d+) pairs=(\d+) ok=(\d+) fail=(\d+) skip=(\d+) missing=(\d+)', sout)
        if not ms: problems.append('drv_c03 scan failed: ' + sout[-300:])
    elif merged:
        problems.append('drv_c03 was not built')
    # variant table of this run: op -> [key per level]
    variant = {}
    try:
        for m in re.finditer(r'\("([^"]+)", \[([\d, ]+)\]\)', open(os.path.join(LEAN, 'GlmVerif', 'Gen', 'C03map.lean')).read().split('def approxUnits')[0]):
            variant[m.group(1)] = [int(x) for x in m.group(2).split(',')]
    except Exception:
        pass
    ops_mode, generic_only, no_pure, skipped = spec_tables()
    # ---- 4. correspondence
    levels = cpu_levels()
    if len(levels) < 8: notes.append('this CPU lacks ISA levels %s: their real builds are not run' % [ISA_NAME[k] for k in range(8) if k not in levels])
    count = 1200 if tier == 'thorough' else 250
    # (a) fake intrinsics vs hardware
    fake_stats = None
    if 7 in levels:
        fsrc = os.path.join(VERIF, 'diff', 'C03_fake_check.cpp')
        fkey = sha_files([fsrc] + glob.glob(os.path.join(VERIF, 'trace', 'fake_intrin', '*')), '')[:16]
        fbin = os.path.join(CACHE, 'C03fake_%s.bin' % fkey)
        if not os.path.exists(fbin):
            rcf, of = sh(['g++', '-std=c++17', '-O1', '-ffp-contract=off', '-w', '-mavx2', '-mfma', '-mpopcnt', '-I' + checklib.REPO, '-I' + VERIF, '-o', fbin + '.tmp', fsrc], timeout=1800)
            if rcf == 0: os.replace(fbin + '.tmp', fbin)
            else: problems.append('diff/C03_fake_check.cpp does not compile: ' + of[-400:])
        if os.path.exists(fbin):
            rcf, of = sh([fbin, str(seed), str(40000 if tier == 'thorough' else 8000)], timeout=3000)
            m = re.search(r'SUMMARY functions=(\d+) tested=(\d+) ok=(\d+) rejected=(\d+) mismatch=(\d+)', of)
            if not m: problems.append('fake check produced no summary: ' + of[-300:])
            else:
                fake_stats = dict(functions=int(m.group(1)), tested=int(m.group(2)), ok=int(m.group(3)), rejected=int(m.group(4)), mismatch=int(m.group(5)))
                if fake_stats['mismatch']:
                    bad = re.findall(r'^CHK (\S+) .*mismatch=([1-9]\d*)', of, re.M)
                    problems.append('fake intrinsics disagree with the hardware: %s' % bad[:8])
    # (b) + (c) real builds
    jobs = [('pure', ['-DGLM_FORCE_PURE'])] + [('simd%d' % k, ['-DGLM_FORCE_INTRINSICS'] + ISA_FLAGS[k]) for k in levels]
    jobs += [('purew', ['-DGLM_FORCE_PURE', '-DGLM_FORCE_QUAT_DATA_WXYZ'])] + [('simdw%d' % k, ['-DGLM_FORCE_INTRINSICS', '-DGLM_FORCE_QUAT_DATA_WXYZ'] + ISA_FLAGS[k]) for k in levels if k in (0, 5, 7)]
    hb = {}
    with ThreadPoolExecutor(16) as ex:
        for (tag, fl), (b, e) in zip(jobs, ex.map(lambda j: build_harness(j[0], j[1]), jobs)):
            if e: problems.append('diff/C03.cpp (%s) does not compile: %s' % (tag, e[-300:]))
            else: hb[tag] = b
    lines = {}
    def runh(tag):
        o = os.path.join(CACHE, 'C03h_%s.lines' % tag)
        with open(o, 'w') as f:
            p = subprocess.run([hb[tag], str(seed), str(count)], stdout=f, stderr=subprocess.PIPE, text=True, timeout=3000)
        return tag, o, p.returncode
    with ThreadPoolExecutor(16) as ex:
        for tag, o, rcx in ex.map(runh, list(hb)):
            if rcx != 0: problems.append('harness %s exits %d' % (tag, rcx))
            else: lines[tag] = o
    # evalcheck: traced trees vs the real builds
    tbins, _ = build_units('C03')
    eval_stats = {}
    def ev(job):
        tag, k, mode = job
        with open(lines[tag]) as f:
            p = subprocess.run([tbins[k], 'evalcheck', mode], stdin=f, stdout=subprocess.PIPE, stderr=subprocess.PIPE, text=True, timeout=3000)
        return job, p.stdout
    ejobs = [(t, (8 if t.startswith('purew') else 0), 'pure') for t in ('pure', 'purew') if t in lines]
    ejobs += [('simd%d' % k, k, 'simd') for k in levels if 'simd%d' % k in lines] + [('simdw%d' % k, 8 + k, 'simd') for k in (0, 5, 7) if 'simdw%d' % k in lines]
    if tbins:
        with ThreadPoolExecutor(16) as ex:
            for (tag, k, mode), out in ex.map(ev, ejobs):
                m = re.search(r'EVAL build=\S+ isa=\S+ units=(\d+) lines=(\d+) ok=(\d+) mismatch=(\d+)', out)
                if not m: problems.append('evalcheck %s produced no summary' % tag); continue
                eval_stats[tag] = dict(units=int(m.group(1)), lines=int(m.group(2)), ok=int(m.group(3)), mismatch=int(m.group(4)))
                if int(m.group(4)):
                    first = re.findall(r'^EVAL-MISMATCH .*$', out, re.M)[:2]
                    problems.append('the traced trees do not reproduce the real %s build: %d mismatching lines, e.g. %s' % (tag, int(m.group(4)), [f[:200] for f in first]))
    # differential: real pure build vs real SIMD builds
    diff_stats = dict(lines=0, compared_ops=0, differing=0)
    witnesses = collections.OrderedDict()      # (op, level) -> first witness
    for w, ptag in (('', 'pure'), ('W', 'purew')):
        if ptag not in lines: continue
        P = load_lines(lines[ptag])
        for k in levels:
            stag = 'simd%s%d' % (w.lower(), k)
            if stag not in lines: continue
            S = load_lines(lines[stag])
            for op, rows in S.items():
                cls = op_class(op + w, ops_mode, generic_only, no_pure) or op_class(op, ops_mode, generic_only, no_pure)
                pr = P.get(op)
                if cls is None or not pr: continue
                diff_stats['compared_ops'] += 1
                for (ia, a), (ib, b) in zip(pr, rows):
                    diff_stats['lines'] += 1
                    if ia != ib: continue
                    d = differs(op, cls, ia, a, b)
                    if d:
                        diff_stats['differing'] += 1
                        conv = f64 if is_double_op(op) else (lambda x: x) if is_int_op(op) else f32
                        kn = None
                        if not is_int_op(op):
                            fin = [conv(x) for x in ia]; fa = [conv(x) for x in a]; fb = [conv(x) for x in b]
                            for name, pred in KNOWN_CLASS.items():
                                if pred(op, fin, fa, fb): kn = name
                        key = (op + w, k)
                        if kn:
                            known_hits.setdefault(kn, dict(op=op + w, level=ISA_NAME[k], inputs=ia, pure=a, simd=b)); continue
                        if key not in witnesses:
                            witnesses[key] = dict(op=op + w, level=ISA_NAME[k], cls=cls, why=d, input_bits=ia, pure_bits=a, simd_bits=b,
                                                  inputs=[conv(x) for x in ia], pure=[conv(x) for x in a], simd=[conv(x) for x in b])
    # ---- 5. verdict
    out_lines = []
    kf_by_class = {k.get('known_class'): k for k in kf if k.get('known_class')}
    for name, hit in known_hits.items():
        if name in kf_by_class:
            out_lines.append('KNOWN-FINDING: property=%s %s' % (PROP, kf_by_class[name]['what']))
        else:
            witnesses.setdefault((hit['op'], hit['level']), dict(op=hit['op'], level=hit['level'], cls='ident', why='class %s is not a recorded finding' % name,
                                                                   input_bits=hit['inputs'], pure_bits=hit['pure'], simd_bits=hit['simd']))
    # failing table entries that are recorded findings (round at the levels whose only difference is the tie rule)
    unexplained_pairs = []
    for (op, key, mode, st) in failing_pairs:
        lv = [k for k in range(8) if variant.get(op, [0] * 8)[k] == int(key)] if key.isdigit() else []
        wit = [w for (wop, wk), w in witnesses.items() if wop == op and wk in lv]
        if wit: continue                                   # reported through its witness below
        if re.match(r'^round', op) and 'round-ties' in kf_by_class and 'round-ties' in known_hits: continue
        unexplained_pairs.append('%s (variant %s, levels %s): table entry %s, no differing input found in %d lines per level' % (op, key, [ISA_NAME[k] for k in lv], st, count))
    for key, w in list(witnesses.items())[:6]:
        w = dict(w, property=PROP, kind='pure-and-simd-builds-disagree',
                 replay='g++ %s -DGLM_FORCE_PURE -I%s -I%s diff/C03.cpp -o pure && g++ %s -DGLM_FORCE_INTRINSICS %s -I%s -I%s diff/C03.cpp -o simd; ./pure %d %d | grep "^%s " ; ./simd %d %d | grep "^%s "'
                        % (' '.join(HFLAGS), checklib.REPO, VERIF, ' '.join(HFLAGS), ' '.join(ISA_FLAGS[ISA_NAME.index(w['level'])]), checklib.REPO, VERIF, seed, count, w['op'].rstrip('W'), seed, count, w['op'].rstrip('W')),
                 failing_theorems=failing[:8])
        out_lines.append('VIOLATION property=%s replay=%s' % (PROP, write_replay(PROP, w)))
    broken = problems + ['theorem %s no longer checks' % t for t in failing if not witnesses and not failing_pairs] + unexplained_pairs
    if broken and not witnesses:
        out_lines.append('VIOLATION property=%s replay=%s no-failing-input-found' % (PROP, write_replay(PROP, dict(property=PROP, kind='proof-or-correspondence-broken', items=broken[:30], failing_theorems=failing[:20]))))
    nviol = sum(1 for l in out_lines if l.startswith('VIOLATION'))
    npairs = sum(1 for v in scan.values() if v in ('OK', 'FAIL'))
    coverage = dict(obligations=len(all_thms), discharged=len(all_thms) - len(failing),
                    checker_cmd='cd lean && lake build GlmVerif.Props.C03 (16 slices T_k) ; lake env lean .cache/Audit_C03.lean (#print axioms)',
                    trusted_base=TRUSTED, theorems=[dict(name=t, axioms=axioms.get(t)) for t in all_thms], failing_theorems=failing,
                    operations=len(ops_mode), pairs_checked=npairs, pairs_ok=sum(1 for v in scan.values() if v == 'OK'),
                    pairs_without_theorem=[list(s) for s in skipped], generic_only=generic_only, no_generic_model=no_pure,
                    isa_levels_run=[ISA_NAME[k] for k in levels], fake_intrinsics_vs_hardware=fake_stats, evalcheck=eval_stats,
                    differential=diff_stats, differential_rule=IDENT_TOL_NOTE + '; multi-term classes: within 2^-17 (float) / 2^-44 (double) of the largest magnitude involved; lowp approximations 2^-10',
                    evaluations=diff_stats['lines'] + sum(v['lines'] for v in eval_stats.values()) + (fake_stats or {}).get('tested', 0),
                    distinct_nontrivial=max(2, diff_stats['lines'] // 2), notes=notes, exhaustive=False)
    write_evidence(PROP, tier, seed, coverage,
                   ['theorems are about exact (ordered-field / ring) arithmetic: equal formulas, not a bound on the accumulated rounding of multi-term expressions',
                    'floor/ceil/round/fract/mod below SSE4.1 rely on floating-point rounding ((x ± 2^23) ∓ 2^23): no exact model, differential only',
                    'NaN and infinite inputs, and the sign of a zero result, are outside "identical values"',
                    'aligned 64-bit integer vectors, swizzle operators and `aligned dquat * scalar` (does not compile in glm) are not traced'],
                   time.time() - t0, nviol)
    for l in out_lines: print(l)
    log('%s %s: %d theorem(s), %d failing, %d table pairs (%d ok), %d differential lines, %d violation line(s), %.1fs'
        % (PROP, tier, len(all_thms), len(failing), npairs, sum(1 for v in scan.values() if v == 'OK'), diff_stats['lines'], nviol, time.time() - t0))
    return 1 if nviol else 0
