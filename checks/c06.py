"""C06 — pack/unpack functions are mutually consistent, correctly quantised and laid out.

run(tier, seed): prove (lake build of Props/C06 + Props/C06/*), audit, then tie the hand model to the
real glm of checklib.REPO: the C++ harness diff/C06.cpp calls the real functions, the native driver
drv_c06 evaluates the model (hardware floats AND the soft-float the theorems are about) and the
executable specification on every line.  Verdict protocol: DESIGN.md §4.1 / checks/README.md.
"""
import os, re, json, time, glob, subprocess
from concurrent.futures import ThreadPoolExecutor
import checklib
from checklib import (VERIF, LEAN, CACHE, REPLAYS, NCPU, log, sh, sha_files, glm_tree_hash, lake_build, audit,
                      theorems_in, failing_decls, write_replay, write_evidence, known_findings, TRUSTED_BASE)

PROP = 'C06'
SRC = os.path.join(VERIF, 'diff', 'C06.cpp')
DRV = os.path.join(LEAN, '.lake', 'build', 'bin', 'drv_c06')
FLAGS = ['-std=c++17', '-O1', '-ffp-contract=off', '-w']
SWEEP_OPS = ['packUnorm1x8', 'packSnorm1x8', 'packUnorm1x16', 'packSnorm1x16', 'packHalf1x16']
SWEEP_FMT = {'packUnorm1x8': 'Unorm1x8', 'packSnorm1x8': 'Snorm1x8', 'packUnorm1x16': 'Unorm1x16', 'packSnorm1x16': 'Snorm1x16'}
BV_MODULES = ['Layout', 'SmallFloat']       # theorems proved by bv_decide (+ the word-level theorems that use them)


def modules():
    mods = ['GlmVerif.Props.C06']
    d = os.path.join(LEAN, 'GlmVerif', 'Props', 'C06')
    mods += sorted('GlmVerif.Props.C06.' + f[:-5] for f in os.listdir(d) if f.endswith('.lean'))
    return mods


def mod_file(m):
    return os.path.join(LEAN, m.replace('.', '/') + '.lean')


# ------------------------------------------------------------------ known findings: (function, input_class) predicates
def _is_num(x):           # non-NaN binary32 pattern
    return (x & 0x7fffffff) <= 0x7f800000


INPUT_CLASSES = {
    # packUnorm<uint32>(vec<L,float>) / packSnorm<int32>(vec<L,float>): float(max) = 2^32 / 2^31, v >= 1 converts out of range
    ('packUnorm<uint32,float>', 'v>=1.0f'): lambda v: v['fmt'] == 'tUnorm32f' and v['kind'] == 'p' and _is_num(v['args'][0]) and 0x3f800000 <= v['args'][0] <= 0x7f800000,
    ('packSnorm<int32,float>', 'v>=1.0f'): lambda v: v['fmt'] == 'tSnorm32f' and v['kind'] == 'p' and _is_num(v['args'][0]) and 0x3f800000 <= v['args'][0] <= 0x7f800000,
}


def load_known():
    ks = list(known_findings(PROP))
    try:
        ks += [k for k in json.load(open(os.path.join(VERIF, 'h', PROP, 'known_findings_entries.json'))) if k.get('property') == PROP]
    except (OSError, ValueError):
        pass
    out, seen = [], set()
    for k in ks:
        key = (k.get('function'), k.get('input_class'))
        if key in INPUT_CLASSES and key not in seen:
            seen.add(key); out.append(k)
    return out


def classify(viol, known):
    for k in known:
        if INPUT_CLASSES[(k['function'], k['input_class'])](viol):
            return k
    return None


def parse_line(text):
    """'<kind> <fmt> a b … -> r s …' -> dict"""
    m = re.match(r'(\S+) (\S+)((?: \d+)*) -> ([\d ]+)$', text.strip())
    if not m: return None
    return dict(kind=m.group(1), fmt=m.group(2), args=[int(x) for x in m.group(3).split()], glm_result=[int(x) for x in m.group(4).split()])


# ------------------------------------------------------------------ harness
def build_harness():
    key = sha_files([SRC], glm_tree_hash() + ' '.join(FLAGS) + checklib.REPO)[:16]
    out = os.path.join(CACHE, 'C06_harness_%s.bin' % key)
    for old in glob.glob(os.path.join(CACHE, 'C06_harness_*.bin')):
        if old != out:
            try: os.remove(old)
            except OSError: pass
    if not os.path.exists(out):
        log('compiling diff/C06.cpp against', checklib.REPO)
        rc, o = sh(['g++'] + FLAGS + ['-I' + checklib.REPO, '-o', out + '.tmp', SRC], timeout=900)
        if rc != 0: return None, o[-3000:]
        os.replace(out + '.tmp', out)
    return out, None


def run_to_file(cmd, path, timeout):
    with open(path, 'w') as f:
        try:
            p = subprocess.run(cmd, stdout=f, stderr=subprocess.PIPE, timeout=timeout, text=True)
        except subprocess.TimeoutExpired:
            return 'timeout: ' + ' '.join(cmd[:3])
    return None if p.returncode == 0 else 'exit %d: %s' % (p.returncode, p.stderr[-1500:])


def drive_lines(path, nshards):
    """split the line file into shards, run drv_c06 on each in parallel; returns (summary dict, message lines, error)"""
    shards = []
    outs = [open('%s.s%d' % (path, i), 'w') for i in range(nshards)]
    with open(path) as f:
        for i, l in enumerate(f):
            outs[(i >> 12) % nshards].write(l)
    for o in outs: o.close(); shards.append(o.name)

    def one(s):
        return sh([DRV, 'lines', s], timeout=3000)
    with ThreadPoolExecutor(max_workers=nshards) as ex:
        res = list(ex.map(one, shards))
    tot = dict(lines=0, mismatches=0, softdiff=0, specviol=0, nontrivial=0, unknown=0)
    msgs, err = [], None
    for rc, out in res:
        m = re.search(r'SUMMARY lines=(\d+) mismatches=(\d+) softdiff=(\d+) specviol=(\d+) nontrivial=(\d+) unknown=(\d+)', out)
        if rc != 0 or not m:
            err = 'driver failed: ' + out[-800:]; continue
        for k, v in zip(['lines', 'mismatches', 'softdiff', 'specviol', 'nontrivial', 'unknown'], m.groups()): tot[k] += int(v)
        msgs += [l for l in out.split('\n') if l.startswith(('MISMATCH', 'SOFTDIFF', 'SPECVIOL'))]
    for s in shards:
        try: os.remove(s)
        except OSError: pass
    return tot, msgs, err


def sweeps(harness, notes):
    """thorough: all 2^32 float patterns through the scalar packs, block hashes harness vs driver.
    returns (evaluations, spec violations [dict], mismatch descriptions [str])"""
    nblk, nproc = 4096, max(2, min(NCPU, 16))
    viols, mism, evals = [], [], 0
    for op in SWEEP_OPS:
        ranges = [(i * nblk // nproc, (i + 1) * nblk // nproc) for i in range(nproc)]
        t0 = time.time()
        with ThreadPoolExecutor(max_workers=2 * nproc) as ex:
            hj = [ex.submit(sh, [harness, 'sweep', op, str(a), str(b)], 7200) for a, b in ranges]
            dj = [ex.submit(sh, [DRV, 'sweep', op, str(a), str(b)], 7200) for a, b in ranges] if op in SWEEP_FMT else []
            hout = [j.result() for j in hj]; dout = [j.result() for j in dj]
        if any(rc != 0 for rc, _ in hout + dout):
            mism.append('sweep %s: a process failed: %s' % (op, [o[-200:] for rc, o in hout + dout if rc != 0][:1])); continue
        evals += 1 << 32
        if op == 'packHalf1x16':
            bad = [l for _, o in hout for l in o.split('\n') if l.startswith('H ') and l.split()[3] != '0']
            nb = sum(1 for _, o in hout for l in o.split('\n') if l.startswith('H '))
            if nb != nblk: mism.append('sweep %s: %d of %d blocks reported' % (op, nb, nblk))
            for l in bad[:3]:
                blk = int(l.split()[2])
                viols.append(dict(kind='p', fmt='Half1x16', args=[blk << 20], glm_result=[], reason='packHalf1x16(x) differs from detail::toFloat16(x) for %s inputs of block %d (first pattern of the block given)' % (l.split()[3], blk)))
            notes.append('sweep %s: 2^32 inputs, %.0fs' % (op, time.time() - t0)); continue
        hb = dict((l.split()[2], l.split()[3]) for _, o in hout for l in o.split('\n') if l.startswith('B '))
        db = dict((l.split()[2], l.split()[3]) for _, o in dout for l in o.split('\n') if l.startswith('B '))
        for _, o in dout:
            for l in o.split('\n'):
                if l.startswith('V '):
                    _, _, x, c, why = l.split()
                    viols.append(dict(kind='p', fmt=SWEEP_FMT[op], args=[int(x)], glm_result=[int(c)], reason='sweep: ' + why, model_side=True))
        diff = sorted(int(b) for b in hb if db.get(b) != hb[b]) + sorted(int(b) for b in db if b not in hb)
        if len(hb) != nblk: mism.append('sweep %s: %d of %d blocks reported' % (op, len(hb), nblk))
        for blk in diff[:2]:
            # re-run the block through the line protocol to find the inputs
            bp = os.path.join(CACHE, 'C06.block')
            e = run_to_file([harness, 'blocklines', op, str(blk)], bp, 600)
            if e: mism.append('sweep %s block %d differs; blocklines failed: %s' % (op, blk, e)); continue
            tot, msgs, err = drive_lines(bp, 4)
            mism.append('sweep %s block %d: model≠glm on %d inputs, %d spec violations' % (op, blk, tot['mismatches'], tot['specviol']))
            for l in msgs:
                if l.startswith('SPECVIOL'):
                    v = parse_line(l[len('SPECVIOL '):].split(' | ')[0])
                    if v: v['reason'] = l.split(' | ', 1)[1]; viols.append(v)
        notes.append('sweep %s: 2^32 inputs, %d differing blocks, %.0fs' % (op, len(diff), time.time() - t0))
    # spec violations found on the model side only count if glm agrees there (hashes equal) — they were all
    # produced by blocks whose hash matched or were re-derived from glm's own lines above
    return evals, viols, mism


# ------------------------------------------------------------------ main entry
def run(tier, seed):
    t0 = time.time()
    for old in glob.glob(os.path.join(REPLAYS, PROP + '-*.json')): os.remove(old)
    known = load_known()
    notes, unexplained = [], []
    mods = modules()

    # 1. harness against the current tree
    harness, herr = build_harness()
    if herr: unexplained.append('harness: diff/C06.cpp no longer compiles against %s: %s' % (checklib.REPO, herr[-600:]))

    # 2. prove
    rc, build_out, build_s = lake_build(mods + ['drv_c06'], timeout=3400)
    all_thms, failing, bv_names = [], [], set()
    for m in mods:
        ns, names = theorems_in(mod_file(m))
        full = [ns + '.' + n for n in names]
        all_thms += full
        if m.split('.')[-1] in BV_MODULES or m == 'GlmVerif.Props.C06': bv_names.update(full)
        if rc != 0: failing += [ns + '.' + n for n in failing_decls(build_out, mod_file(m))]
    if rc != 0 and not failing:
        failing = list(all_thms)
        notes.append('lake build failed outside the Props modules: ' + build_out[-800:])
    log('lake build: rc=%d, %.1fs, %d/%d theorems check' % (rc, build_s, len(all_thms) - len(failing), len(all_thms)))

    # 3. audit
    axioms, audit_problems = {}, []
    if rc == 0:
        checklib.BV_DECIDE_WHITELIST.update(bv_names)
        ok, axioms, audit_problems = audit(PROP, mods)
        if audit_problems: log('audit problems:', audit_problems[:5])
    bv_used = sorted(t for t, ax in axioms.items() if any('bv_decide' in a for a in ax))

    # 4. correspondence + specification on the real code
    tot = dict(lines=0, mismatches=0, softdiff=0, specviol=0, nontrivial=0, unknown=0)
    msgs, samples = [], []
    have_driver = os.path.exists(DRV) and (rc == 0 or 'drv_c06' not in build_out.split('error')[-1])
    if harness and have_driver:
        lp = os.path.join(CACHE, 'C06.lines')
        e = run_to_file([harness, 'lines', tier, str(seed)], lp, 3000)
        if e: unexplained.append('harness run failed: ' + e)
        else:
            with open(lp) as f:
                for i, l in enumerate(f):
                    if i % 150001 == 7 and len(samples) < 12: samples.append(l.strip())
            tot, msgs, err = drive_lines(lp, max(2, min(NCPU, 8)))
            if err: unexplained.append(err)
            if tot['unknown']: unexplained.append('driver did not understand %d harness lines' % tot['unknown'])
            log('correspondence:', tot)
            try: os.remove(lp)
            except OSError: pass
    elif harness:
        unexplained.append('driver drv_c06 not built')

    viols = []
    for l in msgs:
        if l.startswith('SPECVIOL'):
            body, _, why = l[len('SPECVIOL '):].partition(' | ')
            v = parse_line(body)
            if v: v['reason'] = why; viols.append(v)
    model_mismatch = [l for l in msgs if l.startswith('MISMATCH')]
    softdiff = [l for l in msgs if l.startswith('SOFTDIFF')]

    sweep_evals = 0
    if tier == 'thorough' and harness and have_driver:
        sweep_evals, sv, sm = sweeps(harness, notes)
        viols += sv
        unexplained += sm

    # 5. verdict
    lines_out, known_hit = [], {}
    new_viols = []
    for v in viols:
        k = classify(v, known)
        if k: known_hit[(k['function'], k['input_class'])] = (k, known_hit.get((k['function'], k['input_class']), (k, 0))[1] + 1)
        else: new_viols.append(v)
    for (fn, ic), (k, n) in sorted(known_hit.items()):
        lines_out.append('KNOWN-FINDING: property=%s %s [%s, input class %s; %d occurrence(s) this run (capped per shard)]' % (PROP, k['what'], fn, ic, n))
    seen = set()
    for v in new_viols:
        key = (v['fmt'], v['kind'], v.get('reason', '')[:40])
        if key in seen: continue
        seen.add(key)
        if len(seen) > 6: break
        payload = dict(property=PROP, kind='glm-output-violates-specification', function=('pack' if v['kind'].startswith('p') else 'unpack' if v['kind'].startswith('u') else 'pack∘unpack') + ' ' + v['fmt'],
                       input_bits=v['args'], glm_result=v['glm_result'], reason=v.get('reason'),
                       replay='%s lines quick %d | grep "^%s %s %s "   (harness diff/C06.cpp compiled with -I%s)' % ('C06_harness', seed, v['kind'], v['fmt'], ' '.join(map(str, v['args'])), checklib.REPO))
        lines_out.append('VIOLATION property=%s replay=%s' % (PROP, write_replay(PROP, payload)))
    if model_mismatch: unexplained.append('correspondence model≠glm on %d line(s), e.g. %s' % (tot['mismatches'], model_mismatch[0][:300]))
    if softdiff: unexplained.append('soft-float model ≠ hardware-float model on %d line(s), e.g. %s' % (tot['softdiff'], softdiff[0][:300]))
    unexplained += ['theorem %s no longer checks' % t for t in failing] + audit_problems
    if unexplained and not new_viols:
        payload = dict(property=PROP, kind='obligation-or-correspondence-no-longer-checks', items=unexplained[:20], failing_theorems=failing[:40],
                       note='the specification was evaluated on every harness line of this run and glm met it everywhere (apart from known findings): no concrete failing input was found')
        lines_out.append('VIOLATION property=%s replay=%s no-failing-input-found' % (PROP, write_replay(PROP, payload)))
    nviol = sum(1 for l in lines_out if l.startswith('VIOLATION'))

    coverage = dict(
        obligations=len(all_thms), discharged=len(all_thms) - len(failing),
        checker_cmd='cd lean && lake build ' + ' '.join(mods) + '  (+ lake env lean .cache/Audit_C06.lean for #print axioms)',
        trusted_base=TRUSTED_BASE + [
            'bv_decide (LRAT certificate checked by the compiled checker: axioms <thm>._native.bv_decide.ax_*) for the bit-level theorems: ' + ', '.join(t.split('.')[-1] for t in bv_used[:400]),
            'GCC/x86-64 facts the model assumes and only the correspondence checks: LSB-first bit-field allocation, little-endian lane order of memcpy/unions, cvttss2si results for NaN/out-of-range float→int conversions (UB in C++)',
            'the soft-float SF (Hand/C06.lean, namespace Soft) is what the round-trip theorems are about; it is compared with the hardware float model on every harness line (softdiff count)',
            'packF3x9_E1x5 encoder, packRGBM: modelled with libm pow/log2/floor/ceil at Float32, validated by correspondence only; half packs: layout only, the conversion is property C07',
        ],
        theorems=[dict(name=t, axioms=axioms.get(t)) for t in all_thms],
        failing_theorems=failing, lake_build_s=round(build_s, 1),
        evaluations=tot['lines'] + sweep_evals, distinct_nontrivial=tot['nontrivial'],
        rule='each evaluation is one call of a real glm pack/unpack function (or pack∘unpack) by diff/C06.cpp, compared bit for bit with the Lean model at Float32 and at the soft-float, '
             'and checked against the executable specification (field layout, code/N decoding within 1 ulp, nearest code within 1/2+N·2^-23, canonical re-pack, idempotence, small-float tables). '
             'Inputs: every word of every format of ≤16 bits; for 32/64-bit words every code of every field over fixed and seeded-random backgrounds plus seeded-random words; pack inputs: special floats '
             '(±0, subnormals, ±inf, NaN, just outside the range), all rounding ties (k+½)/N ±2 ulp, every small-float code value ±1 ulp, seeded random; thorough adds all 2^32 floats through the five scalar packs (block hashes). '
             'non-trivial = result word/first component is neither zero nor equal to the first input; distinct = distinct harness lines (hash set in the driver, per shard).',
        correspondence=tot, samples=samples, notes=notes, known_findings=[dict(function=f, input_class=i, occurrences=n) for (f, i), (k, n) in known_hit.items()],
        exhaustive=False,
        exhaustive_units=['Unorm1x8', 'Unorm2x8', 'Snorm1x8', 'Snorm2x8', 'Unorm1x16', 'Snorm1x16', 'Unorm2x4', 'Unorm4x4', 'Unorm1x5_1x6_1x5', 'Unorm3x5_1x1', 'Unorm2x3_1x2', 'Half1x16', 'tUnorm8', 'tUnorm16', 'tSnorm8', 'tSnorm16', 'Uint2x8', 'Int2x8']
                         + (['packUnorm1x8/packSnorm1x8/packUnorm1x16/packSnorm1x16/packHalf1x16 over all 2^32 floats'] if sweep_evals else []))
    write_evidence(PROP, tier, seed, coverage,
                   ['DESIGN.md §5 (trusted base)', 'h/C06/NOTES.md: domain hypotheses (inputs are not NaN; float→int conversion of NaN is UB), what is proved vs only explored'],
                   time.time() - t0, nviol)
    for l in lines_out: print(l)
    log('%s %s: %d theorem(s), %d failing, %d harness lines, %d spec violation(s) (%d known), %d violation line(s), %.1fs'
        % (PROP, tier, len(all_thms), len(failing), tot['lines'], len(viols), len(viols) - len(new_viols), nviol, time.time() - t0))
    return 1 if nviol else 0
