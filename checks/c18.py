"""C18 — power-of-two, multiple and bit-field utilities (hand model H; contract in checks/README.md).

  proof          lean/GlmVerif/Props/C18.lean + Props/C18/*.lean: model (Hand/C18.lean, one Lean definition per glm
                 template, parametrised by the width; a transcription of ext/scalar_integer.inl, ext/vector_integer.inl,
                 gtc/round.inl, gtc/bitfield.inl, gtc/integer.inl, gtx/integer.inl, gtx/bit.inl WITH the fix patches of
                 h/C18) = independent specification (bit-by-bit recursions; relations on Z for the multiples), for all
                 inputs: `decide` (8 bit), `bv_decide` (16/32/64 bit), arithmetic for every width at once (multiples);
                 audited with #print axioms
  correspondence diff/C18.cpp (real glm from checklib.REPO) generates the inputs: sweep blocks (all values of the 8- and
                 16-bit types x every multiple / shift count / bit range, packed interleave operands) as 64-bit hashes and
                 single evaluations (boundary lattice + xoshiro256** for the 32/64-bit types, the float versions, the vector
                 and signed overloads); the native driver drv_c18 (the same Lean definitions compiled) re-evaluates the model,
                 compares, and checks every result against the executable specification
  verdict        model != glm or a theorem that no longer checks is not itself a violation: differing blocks are re-run
                 through the line protocol so that glm's own results meet the specification; an input on which GLM violates
                 the specification is the replay; none -> `no-failing-input-found`.
  known findings matched by (function, input_class): the driver classifies every specification failure, the class
                 predicates are re-evaluated here on the examples; anything unclassified is a VIOLATION.
"""
import os, sys, re, json, time, glob, hashlib, subprocess
import checklib
from checklib import (LEAN, CACHE, VERIF, sh, log, lake_build, audit, theorems_in, failing_decls, glm_tree_hash,
                      sha_files, write_replay, write_evidence, known_findings)

PROP = 'C18'
SRC = os.path.join(VERIF, 'diff', 'C18.cpp')
DRV = os.path.join(LEAN, '.lake', 'build', 'bin', 'drv_c18')
MODS = ['GlmVerif.Props.C18', 'GlmVerif.Props.C18.Pow2U', 'GlmVerif.Props.C18.Pow2U64', 'GlmVerif.Props.C18.Pow2S', 'GlmVerif.Props.C18.Pow2S64',
        'GlmVerif.Props.C18.Multiple', 'GlmVerif.Props.C18.Bits', 'GlmVerif.Props.C18.Bits64', 'GlmVerif.Props.C18.Rotate', 'GlmVerif.Props.C18.Interleave', 'GlmVerif.Props.C18.Gtx',
        'GlmVerif.Props.C18.Sqrt']
HDIR = os.path.join(VERIF, 'h', PROP)
ANCHORED = ['glm/ext/scalar_integer.inl', 'glm/ext/vector_integer.inl', 'glm/gtc/round.inl', 'glm/gtc/bitfield.inl',
            'glm/gtc/integer.inl', 'glm/gtx/integer.inl', 'glm/gtx/bit.inl']
CXXFLAGS = ['-std=c++17', '-O2', '-fwrapv', '-ffp-contract=off', '-w']

TRUSTED = [
    'Lean 4.33 kernel (`decide` / `decide +kernel` for the 8-bit and closed statements; no native_decide)',
    'bv_decide: each such theorem depends on one axiom <thm>._native.bv_decide.ax_* (LRAT certificate of cadical checked by a '
    'verified checker compiled to native code), plus propext, Classical.choice, Quot.sound (audited with #print axioms on every '
    'run; whitelist = the theorems of Props/C18*.lean)',
    'the hand transcription Hand/C18.lean of the anchored glm sources incl. the C++ integral promotion of 8/16-bit operands to '
    'int (validated on every run by the correspondence: exhaustive for the 8/16-bit types, boundary+random for 32/64 bit)',
    'the specification GlmVerif.C18.Spec says what the documentation says (bit i of argument k at n*i+k; least multiple >= x; ...)',
    'g++ / x86-64: two\'s complement conversions, arithmetic >> on negative values, -fwrapv (signed overflow wraps as in the '
    'model; theorems exclude those inputs); shift counts are kept below the promoted width, divisors non-zero',
    'glibc fmodf/fmod are exact (the driver computes the remainder on the decoded integers)',
    'Lean compiler + C toolchain for the native driver drv_c18 (same definitions as the theorems)',
]

FUNCS = {'rotr': 'bitfieldRotateRight', 'rotl': 'bitfieldRotateLeft', 'pows': 'pow(int,uint)', 'powu': 'pow(uint,uint)',
         'ispow2': 'isPowerOfTwo', 'vispow2': 'isPowerOfTwo(vec)', 'ceilpow2': 'ceilPowerOfTwo', 'nextpow2': 'nextPowerOfTwo',
         'floorpow2': 'floorPowerOfTwo', 'prevpow2': 'prevPowerOfTwo', 'roundpow2': 'roundPowerOfTwo', 'hbv': 'highestBitValue',
         'lbv': 'lowestBitValue', 'above': 'powerOfTwoAbove', 'below': 'powerOfTwoBelow', 'nearest': 'powerOfTwoNearest',
         'mask': 'mask', 'log2': 'log2', 'fact': 'factorial', 'ceilmul': 'ceilMultiple', 'nextmul': 'nextMultiple',
         'floormul': 'floorMultiple', 'prevmul': 'prevMultiple', 'roundmul': 'roundMultiple', 'ismul': 'isMultiple',
         'findnsb': 'findNSB', 'fillone': 'bitfieldFillOne', 'fillzero': 'bitfieldFillZero', 'nlz': 'nlz', 'sqrtu': 'sqrt(uint)',
         'sqrts': 'sqrt(int)', 'modu': 'mod(uint,uint)', 'mods': 'mod(int,int)', 'ceilmulf': 'ceilMultiple(float)',
         'floormulf': 'floorMultiple(float)', 'roundmulf': 'roundMultiple(float)', 'deil16': 'bitfieldDeinterleave(uint16)',
         'deil32': 'bitfieldDeinterleave(uint32)', 'deil64': 'bitfieldDeinterleave(uint64)'}
WIDTH = {'i8': 8, 'u8': 8, 'i16': 16, 'u16': 16, 'i32': 32, 'u32': 32, 'i64': 64, 'u64': 64}


def func_of(op):
    base = op.split('@')[0]
    return FUNCS.get(base, 'bitfieldInterleave' if base.startswith('il') else base)


# ---------------------------------------------------------------------------------------------------
# input classes of known findings: predicates on one evaluation (op, type, args, glm result)
def _rot(x, s, w, left):
    s %= w; m = (1 << w) - 1
    return ((x << s) | (x >> (w - s))) & m if left else ((x >> s) | (x << (w - s))) & m


def _cls_opposite(op, ty, a, r):
    base = op.split('@')[0]
    if base not in ('rotr', 'rotl') or ty not in WIDTH: return False
    w = WIDTH[ty]
    return r[0] == _rot(a[0], a[1], w, left=(base == 'rotr'))      # glm's RotateRight result is the LEFT rotation


def _cls_signed_negative(op, ty, a, r):
    base = op.split('@')[0]
    return base in ('rotr', 'rotl') and ty in WIDTH and ty[0] == 'i' and (a[0] >> (WIDTH[ty] - 1)) & 1 == 1


def _cls_pow_y0(op, ty, a, r):
    return op.split('@')[0] == 'pows' and a[1] == 0 and a[0] >= 1 << 31


INPUT_CLASSES = {'opposite-direction': _cls_opposite, 'signed-negative': _cls_signed_negative, 'y=0,x<0': _cls_pow_y0}


def all_known():
    kf = list(known_findings(PROP))
    p = os.path.join(HDIR, 'known_findings_entries.json')
    if os.path.exists(p):
        try: kf += [k for k in json.load(open(p)) if k.get('property') == PROP]
        except Exception as e: log('cannot read', p, e)
    return kf


def match_known(kf, func, cls):
    for k in kf:
        if k.get('function') == func and k.get('input_class') == cls and cls in INPUT_CLASSES:
            return k
    return None


# ---------------------------------------------------------------------------------------------------
def fingerprint():
    h = hashlib.sha256()
    for rel in ANCHORED:
        try: h.update(open(os.path.join(checklib.REPO, rel), 'rb').read())
        except OSError: h.update(b'<missing>')
    return h.hexdigest()


def pinned_fingerprint():
    try: return json.load(open(os.path.join(HDIR, 'fingerprints.json')))['anchored_sha256']
    except Exception: return None


def build_harness():
    flags = CXXFLAGS + ['-I' + checklib.REPO]
    key = sha_files([SRC], glm_tree_hash() + ' '.join(flags))[:16]
    out = os.path.join(CACHE, 'C18_%s.bin' % key)
    if not os.path.exists(out):
        for old in glob.glob(os.path.join(CACHE, 'C18_*.bin')):
            try: os.remove(old)
            except OSError: pass
        rc, o = sh(['g++'] + flags + ['-o', out + '.tmp', SRC], timeout=900)
        if rc != 0: return None, o[-3000:]
        os.replace(out + '.tmp', out)
    return out, None


def parse_driver(out):
    res = dict(mismatch=[], specfail=[], classes=[], opstat={}, summary=None)
    for l in out.split('\n'):
        if l.startswith('MISMATCH'): res['mismatch'].append(l)
        elif l.startswith('SPECFAIL'):
            m = re.match(r'SPECFAIL (?:L )?(\S+) (\S+) (\d+) (\d+) (\d+) (\d+) -> ([\d ]+?) class=(.*)$', l)
            if m:
                res['specfail'].append(dict(op=m.group(1), ty=m.group(2), args=[int(m.group(i)) for i in range(3, 7)],
                                            glm=[int(x) for x in m.group(7).split()], cls=m.group(8).strip()))
        elif l.startswith('CLASS'):
            w = l.split(' ', 2)
            cls, n = w[2].rsplit(' ', 1)
            res['classes'].append((w[1], cls, int(n)))
        elif l.startswith('OPSTAT'):
            w = l.split()
            res['opstat'][w[1]] = {k: int(v) for k, v in re.findall(r'(\w+)=(\d+)', l)}
        elif l.startswith('SUMMARY'):
            res['summary'] = {k: int(v) for k, v in re.findall(r'(\w+)=(\d+)', l)}
    return res


def run(tier, seed):
    t0 = time.time()
    for old in glob.glob(os.path.join(checklib.REPLAYS, PROP + '-*.json')): os.remove(old)
    kf = all_known()
    notes, problems = [], []
    fp, pin_ = fingerprint(), pinned_fingerprint()
    fp_changed = pin_ is not None and fp != pin_
    if fp_changed: notes.append('anchored source text changed (sha256 %s…, pinned %s…)' % (fp[:12], pin_[:12]))
    # ---- 1. harness from the current tree
    hbin, err = build_harness()
    log('harness ready %.1fs' % (time.time() - t0))
    if err: problems.append('harness diff/C18.cpp no longer compiles against %s: %s' % (checklib.REPO, err[-600:]))
    # ---- 2. proofs
    rc, bout, build_s = lake_build(MODS[:1] + ['drv_c18'])
    all_thms, failing = [], []
    for mod in MODS:
        f = os.path.join(LEAN, mod.replace('.', '/') + '.lean')
        ns, names = theorems_in(f)
        all_thms += [ns + '.' + n for n in names]
        if rc != 0: failing += [ns + '.' + n for n in failing_decls(bout, f) if n in names]
    checklib.BV_DECIDE_WHITELIST |= set(all_thms)
    if rc != 0 and not failing:
        failing = list(all_thms)
        notes.append('lake build failed outside the theorem declarations: ' + bout[-600:])
    log('lake build %s: rc=%d %.1fs, %d/%d theorems check' % (MODS[0], rc, build_s, len(all_thms) - len(failing), len(all_thms)))
    axioms, audit_problems = {}, []
    if rc == 0:
        ok, axioms, audit_problems = audit(PROP, MODS)
        if audit_problems: log('audit problems:', audit_problems[:5])
    problems += ['theorem %s no longer checks' % t for t in failing] + audit_problems
    if not os.path.exists(DRV): problems.append('driver drv_c18 not built')
    # ---- 3. correspondence
    drv = None
    samples, harness_stat = [], {}
    distinct_nt_lines = nt_lines = 0
    specfails, mismatches = [], []
    if hbin and os.path.exists(DRV):
        ppath = os.path.join(CACHE, 'C18.plan.%d' % os.getpid())
        with open(ppath, 'w') as f:
            p = subprocess.run([hbin, 'plan', tier, str(seed)], stdout=f, stderr=subprocess.PIPE, text=True, timeout=3000)
        if p.returncode != 0: problems.append('harness plan run failed: rc=%d %s' % (p.returncode, p.stderr[-300:]))
        # samples, distinct non-trivial single evaluations
        seen_nt = set(); nb = nl = nt_lines = 0; per_op = {}
        with open(ppath) as f:
            for l in f:
                if l.startswith('L '):
                    nl += 1
                    head, _, tail = l.partition(' -> ')
                    w = head.split(); r = tail.split()
                    if r and r[0] != '0' and r[0] != w[3]: nt_lines += 1; seen_nt.add(hash(head))
                    if per_op.get(w[1], 0) < 1 and nl % 3 == 0 and len(samples) < 40: per_op[w[1]] = 1; samples.append(l.strip())
                elif l.startswith('B '):
                    nb += 1
                    w = l.split()
                    if per_op.get('B' + w[1], 0) < 1 and len(samples) < 60: per_op['B' + w[1]] = 1; samples.append(l.strip())
                elif l.startswith('HARNESS'):
                    harness_stat = dict(re.findall(r'(\w+)=(\w+)', l))
        distinct_nt_lines = len(seen_nt); del seen_nt
        log('plan: %d blocks, %d lines (%.1fs)' % (nb, nl, time.time() - t0))
        rc2, out = sh([DRV, 'check', ppath], timeout=3000)
        drv = parse_driver(out)
        if rc2 != 0 or drv['summary'] is None: problems.append('driver check failed (rc=%d): %s' % (rc2, out[-400:]))
        else:
            sm = drv['summary']
            if sm['lines'] != nl or sm['blocks'] != nb: problems.append('driver processed %d/%d lines, %d/%d blocks' % (sm['lines'], nl, sm['blocks'], nb))
            if int(harness_stat.get('evaluations', 0)) != sm['evals']: problems.append('harness evaluated %s inputs, driver %d' % (harness_stat.get('evaluations'), sm['evals']))
        specfails += drv['specfail']; mismatches += drv['mismatch']
        # localise differing blocks: re-run them through the line protocol (glm's own results meet the specification)
        bm = [l for l in drv['mismatch'] if l.startswith('MISMATCH B ')]
        for l in bm[:6]:
            w = l.split()
            bl = os.path.join(CACHE, 'C18.blk.%d' % os.getpid())
            with open(bl, 'w') as f: subprocess.run([hbin, 'dump'] + w[2:8], stdout=f, timeout=900)
            _, o = sh([DRV, 'check', bl], timeout=900)
            d2 = parse_driver(o)
            mismatches += d2['mismatch'][:3]
            specfails += d2['specfail']
            for c in d2['classes']: drv['classes'].append(c)
            os.remove(bl)
        try: os.remove(ppath)
        except OSError: pass
        log('correspondence: %s' % (drv['summary'],))
    if mismatches:
        lm = [m for m in mismatches if m.startswith('MISMATCH L')] or mismatches
        problems.append('correspondence model≠glm (%d block/line mismatches), e.g. %s' % (len(mismatches), lm[0][:240]))
    # ---- 4. verdict
    lines, nviol, known_hits, seen = [], 0, {}, set()
    class_counts = {}
    for (op, cls, n) in (drv['classes'] if drv else []):
        class_counts[(op, cls)] = class_counts.get((op, cls), 0) + n
    examples = {}
    for v in specfails: examples.setdefault((v['op'].split('@')[0], v['cls']), []).append(v)
    for (op, cls), n in sorted(class_counts.items()):
        func = func_of(op)
        k = match_known(kf, func, cls)
        exs = examples.get((op, cls), [])
        pred = INPUT_CLASSES.get(cls)
        if k and pred and exs and all(pred(e['op'], e['ty'], e['args'], e['glm']) for e in exs):
            known_hits[(func, cls)] = (k, known_hits.get((func, cls), (k, 0))[1] + n)
            continue
        for e in exs[:2]:
            key = (e['op'], e['ty'], tuple(e['args']))
            if key in seen or len(seen) >= 6: continue
            seen.add(key)
            payload = dict(property=PROP, kind='glm-output-violates-specification', function='glm::' + func_of(e['op']), op=e['op'], type=e['ty'],
                           input_bits=e['args'], input_hex=['0x%x' % a for a in e['args']], glm_result_bits=e['glm'],
                           glm_result_hex=['0x%x' % a for a in e['glm']], input_class=cls, inputs_in_this_class=n, repo=checklib.REPO,
                           specification='GlmVerif.C18.Spec (Hand/C18.lean), evaluated by drv_c18 on glm\'s result',
                           failing_theorems=failing[:20], first_correspondence_mismatch=(mismatches or [None])[0],
                           replay='g++ %s -I%s %s -o /tmp/C18.bin && /tmp/C18.bin eval %s %s %s   # prints the L-line with glm\'s result'
                                  % (' '.join(CXXFLAGS), checklib.REPO, SRC, e['op'], e['ty'], ' '.join(str(a) for a in e['args'])))
            lines.append('VIOLATION property=%s replay=%s' % (PROP, write_replay(PROP, payload)))
            nviol += 1
        if not exs:
            problems.append('specification failures of class %s/%s (%d) without an example line' % (op, cls, n))
    for (func, cls), (k, n) in sorted(known_hits.items()):
        lines.append('KNOWN-FINDING: property=%s %s (%s, input class %s: %d evaluations of this run)' % (PROP, k['what'], func, cls, n))
    if problems and nviol == 0:
        payload = dict(property=PROP, kind='obligation-or-correspondence-no-longer-checks', items=problems[:20],
                       failing_theorems=failing[:40], first_model_vs_glm_mismatches=mismatches[:6], repo=checklib.REPO,
                       note='no input on which glm violates the specification was found; every evaluation of this run '
                            '(all single evaluations and every block whose hash differed) had glm\'s own result checked against the specification')
        lines.append('VIOLATION property=%s replay=%s no-failing-input-found' % (PROP, write_replay(PROP, payload)))
        nviol += 1
    # ---- 5. evidence
    sm = (drv or {}).get('summary') or {}
    discharged = len(all_thms) - len(failing)
    # distinct non-trivial: block inputs are distinct by construction (counted by the driver); single evaluations deduplicated here
    coverage = dict(
        obligations=len(all_thms), discharged=discharged,
        checker_cmd='cd lean && lake build GlmVerif.Props.C18 drv_c18  (+ lake env lean .cache/Audit_C18.lean for #print axioms)',
        trusted_base=TRUSTED,
        theorems=[dict(name=t, axioms=axioms.get(t)) for t in all_thms], failing_theorems=failing,
        lake_build_s=round(build_s, 1),
        evaluations=sm.get('evals', 0),
        distinct_nontrivial=max(0, sm.get('nontrivial', 0) - nt_lines) + distinct_nt_lines,
        rule='each evaluation is one call of a real glm function on raw bit patterns, compared bit for bit with the Lean model (per line, or per '
             '64-bit hash of a sweep block) and checked against the executable specification.  Sweep blocks: every value of int8/uint8/int16/uint16 '
             'for the unary functions (signed floor/prev/roundPowerOfTwo, powerOfTwoBelow/Above/Nearest and mask: the non-negative half, negative '
             'arguments are outside the documented domain); x every multiple 1..127/255 for the 8-bit types; for the 16-bit types the 2^16 x 2^16 '
             'product is SUBSAMPLED on the multiple axis, deterministically (1..16 [thorough: 1..128], all 2^k, 2^k±1 for k in {5,8,11,14,15} [all k], 100,255,256,257,1000,10000, max, '
             'max-1, max/2, max/2+1, max/3) plus 6 [96] seeded ones, all 2^16 sources each; every findNSB count 1..w+1; every rotate count 0..w; every '
             'bit range (first,count) for 8 bit and a deterministic subset [thorough: all] for 16 bit; all 2^16 uint8 pairs and all 2^24 uint8 triples '
             'of bitfieldInterleave, all 2^16 bitfieldDeinterleave(uint16); 96 [thorough: all 65536, i.e. all 2^32 pairs] high halves x 2^16 for interleave(uint16 x2); 96 [8192] high halves x 2^16 for '
             'interleave(uint8 x4) and deinterleave(uint32); nlz and sqrt on 2^16-blocks.  Single evaluations: '
             'boundary lattice (0..20, ±2^k, 2^k±1, 1.5*2^k, patterns) and xoshiro256** (VERIF_SEED) values of random bit length for the 32/64-bit '
             'types, the vector / (vec,scalar) / signed overloads of every function, pow/mod/factorial, float ceil/floor/roundMultiple on an exact '
             'dyadic lattice and random magnitudes.  distinct_nontrivial = inputs whose (first) result is neither zero nor the first argument: block '
             'inputs are distinct by construction and counted by the driver, single evaluations are deduplicated by a hash set here',
        correspondence=sm, per_op=(drv or {}).get('opstat', {}), spec_failure_classes=[list(c) for c in (drv['classes'] if drv else [])],
        harness=harness_stat, anchored_source_sha256=fp, anchored_source_changed=fp_changed, repo=checklib.REPO,
        known_findings_hit=[dict(function=f, input_class=c, evaluations=n) for (f, c), (k, n) in sorted(known_hits.items())],
        samples=samples, notes=notes, exhaustive=False,
        exhaustive_parts=dict(types_8_16_bit_unary=True, types_8_bit_x_all_multiples=True, types_8_16_bit_x_all_shift_counts=True,
                              interleave_2x8_3x8=True, deinterleave_16=True, interleave_uint16_pairs_all_2_32=(tier == 'thorough'),
                              types_16_bit_x_all_multiples=False))
    write_evidence(PROP, tier, seed, coverage,
                   ['the documented domain: Multiple > 0, non-zero (signed: positive) argument of the power-of-two family, exact result representable, '
                    'shift counts / bit ranges inside the type; undefined behaviour (signed overflow at 32/64 bit, over-wide shifts) is C20\'s business',
                    'x86-64 little-endian, g++ with -fwrapv; GLM_ARCH == GLM_ARCH_X86 build (no SIMD)',
                    'the model mirrors the tree WITH h/C18/fix_*.diff applied'],
                   time.time() - t0, nviol)
    for l in lines: print(l)
    log('%s %s: %d theorem(s), %d failing, %d violation line(s), %.1fs' % (PROP, tier, len(all_thms), len(failing), nviol, time.time() - t0))
    return 1 if nviol else 0


def pin():
    os.makedirs(HDIR, exist_ok=True)
    json.dump({'anchored_sha256': fingerprint(), 'repo': checklib.REPO, 'what': 'sha256 of ' + ' + '.join(ANCHORED)},
              open(os.path.join(HDIR, 'fingerprints.json'), 'w'), indent=1)


if __name__ == '__main__':
    if sys.argv[1:] == ['--pin']: pin()
