"""C11 — common functions obey their documented per-value definitions on all floats; constants are
correctly rounded (hand model H + table extractor T2; contract in checks/README.md).

  extract        the decimal literal of every constant of ext/scalar_constants.inl and gtc/constants.inl is
                 parsed from checklib.REPO on every run and written to lean/GlmVerif/Gen/C11Consts.lean
                 (a constant the parser cannot read = translator failure)
  proof          lean/GlmVerif/Props/C11.lean (+ Props/C11/*.lean): model (Hand/C11.lean, a transcription of
                 func_common.inl / compute_common.hpp / ext/scalar_common.inl / ext/vector_common.inl on IEEE
                 bit patterns, float and double) = IEEE/GLSL specification for ALL bit patterns (bv_decide);
                 constants by exact rational rounding in the kernel + Mathlib enclosures; #print axioms audit
  correspondence diff/C11.cpp (real glm from checklib.REPO) against the native driver drv_c11 (the same model
                 compiled): unary binary32 functions as block hashes over the 13-bit lattice of all floats
                 (quick) / all 2^32 floats (thorough); every function (float and double, scalar and vector
                 forms) on the special-value lattice^n and on seeded random tuples through the line protocol
  oracles        the driver evaluates the executable specification (written from the GLSL/IEEE text) on glm's
                 own result of every line; constants are compared with (a) the bits the Lean rational rounding
                 of the literal gives and (b) 50-digit mpmath/sympy values rounded to binary64 / binary32;
                 a UBSan (float-cast-overflow) build of the harness runs the same lines
  verdict        model != glm or a theorem that no longer checks is not itself a violation: glm's result must
                 violate the executable specification on a concrete input (the replay); otherwise
                 `no-failing-input-found`.  Known findings are matched by (function, input_class).
"""
import os, sys, re, json, time, glob, struct, subprocess
from fractions import Fraction
from concurrent.futures import ThreadPoolExecutor
import checklib
from checklib import (LEAN, CACHE, VERIF, sh, log, lake_build, audit, theorems_in, failing_decls, glm_tree_hash,
                      sha_files, write_replay, write_evidence, known_findings)

PROP = 'C11'
SRC = os.path.join(VERIF, 'diff', 'C11.cpp')
DRV = os.path.join(LEAN, '.lake', 'build', 'bin', 'drv_c11')
GEN = os.path.join(LEAN, 'GlmVerif', 'Gen', 'C11Consts.lean')
HDIR = os.path.join(VERIF, 'h', PROP)
NCPU = os.cpu_count() or 8


def modules():
    d = os.path.join(LEAN, 'GlmVerif', 'Props', PROP)
    subs = sorted('GlmVerif.Props.%s.%s' % (PROP, f[:-5]) for f in os.listdir(d) if f.endswith('.lean') and f != 'Tac.lean')
    return ['GlmVerif.Props.' + PROP] + subs


TRUSTED = [
    'Lean 4.33 kernel; `decide`/`decide +kernel` for closed witnesses and for the exact rational rounding of the constants',
    'bv_decide: each bit-level theorem depends on one axiom <thm>._native.bv_decide.ax_* (LRAT certificate of cadical checked by '
    'the verified checker compiled to native code), plus propext, Classical.choice, Quot.sound (audited with #print axioms on '
    'every run; whitelist = the theorems of Props/C11/{Select,SelectD,Round,RoundD,Glm,GlmD,Mirror}.lean)',
    'Mathlib v4.33 for the real-number enclosures of the constants (Real.pi_gt_d20/pi_lt_d20, Real.exp_one_near_20, '
    'Real.log_two_near_10, Real.log_five_near_10, Real.sqrt lemmas)',
    'the hand transcription Hand/C11.lean of glm\'s code (validated bit for bit on every run by the correspondence: the 13-bit '
    'lattice of all floats in quick, all 2^32 floats per unary function in thorough, lattice^n + random for n-ary, float and double)',
    'libm (glibc floor/ceil/trunc/round/fmod/fmin/fmax/modf/frexp/ldexp) is MODELLED by the bit-level specification of '
    'Hand/C11.lean §5 and compared with it through glm on the same sweeps - modelled, not verified',
    'the soft-float adder `fadd` (binary32/64, RNE) is tied to the hardware addss/addsd by the correspondence (op `fadd`)',
    'checks/c11.py parser of the constant literals; g++\'s decimal->binary64 conversion of a literal is compared with the Lean '
    'rational rounding on every run (harness `consts` vs driver `consts`)',
    'x86-64 SSE2 IEEE-754 arithmetic, round-to-nearest-even, -ffp-contract=off; Lean compiler + C toolchain for drv_c11',
]

LEVEL_NOTE = ('proof, partial: proved for all bit patterns (float and double): selection/NaN logic (min max clamp step sign abs mix(bool) '
              'min/max 3,4 fmin/fmax 2,3,4 fclamp isnan isinf), bit casts, the floor/ceil/trunc/round/rint specification, roundEven = rint, '
              'fract/repeat/mirrorClamp/mirrorRepeat/clamp in [0,1], modf, iround/uround nearest (integer-level statement for float only), '
              '21 constants at double+float and 3 more at float.  NOT yet proved (correspondence + executable predicates only): '
              'smoothstep in [0,1], mix with a float interpolator, mod with a general divisor, frexp/ldexp, fma (not even explored), '
              'iround/uround nearest at double, the libm forwards themselves (modelled), constants euler, ln_ln_two, cos_one_over_two '
              '(both precisions) and ln_two, ln_ten, root_ln_four at double precision (40-digit numeric comparison only).')

# ------------------------------------------------------------------------------------------------ constants (T2)
CONST_FILES = ['glm/ext/scalar_constants.inl', 'glm/gtc/constants.inl']
FUNC = re.compile(r'template\s*<\s*typename\s+genType\s*>\s*GLM_FUNC_QUALIFIER\s+GLM_CONSTEXPR\s+genType\s+(\w+)\s*\(\s*\)\s*\{(.*?)\n\t\}', re.S)
DEC = r'[-+]?(?:\d+\.\d*|\.\d+|\d+)(?:[eE][-+]?\d+)?'


def parse_consts(repo):
    """-> (entries, problems); entries: dict(name, kind in lit|int|alias|epsilon, text, file)"""
    entries, problems = [], []
    for rel in CONST_FILES:
        try:
            src = open(os.path.join(repo, rel)).read()
        except OSError as e:
            problems.append('cannot read %s: %s' % (rel, e)); continue
        src = re.sub(r'/\*.*?\*/', '', src, flags=re.S)
        src = re.sub(r'//[^\n]*', '', src)
        found = FUNC.findall(src)
        n_templates = len(re.findall(r'\bgenType\s+\w+\s*\(\s*\)', src))
        if n_templates != len(found):
            problems.append('%s: %d constant function(s) declared but %d parsed' % (rel, n_templates, len(found)))
        for name, body in found:
            body = re.sub(r'GLM_STATIC_ASSERT\s*\(.*?\)\s*;', '', body, flags=re.S).strip()
            m = re.fullmatch(r'return\s+(.*?)\s*;', body, flags=re.S)
            if not m:
                problems.append('%s: %s(): body is not a single return statement: %r' % (rel, name, body[:80])); continue
            e = m.group(1).strip()
            mm = re.fullmatch(r'(?:genType|static_cast\s*<\s*genType\s*>)\s*\(\s*(' + DEC + r')\s*\)', e)
            if mm:
                lit = mm.group(1)
                entries.append(dict(name=name, kind='int' if re.fullmatch(r'[-+]?\d+', lit) else 'lit', text=lit, file=rel)); continue
            mm = re.fullmatch(r'(\w+)\s*<\s*genType\s*>\s*\(\s*\)', e)
            if mm:
                entries.append(dict(name=name, kind='alias', text=mm.group(1), file=rel)); continue
            if re.fullmatch(r'std::numeric_limits\s*<\s*genType\s*>\s*::\s*epsilon\s*\(\s*\)', e):
                entries.append(dict(name=name, kind='epsilon', text='epsilon', file=rel)); continue
            problems.append('%s: %s(): cannot parse return expression %r (literal suffix / expression not understood)' % (rel, name, e[:80]))
    names = [e['name'] for e in entries]
    for e in entries:
        if e['kind'] == 'alias' and e['text'] not in names:
            problems.append('%s(): alias of unknown constant %s' % (e['name'], e['text']))
    return entries, problems


def lit_fraction(text):
    m = re.fullmatch(r'([-+]?)(\d*)\.?(\d*)(?:[eE]([-+]?\d+))?', text)
    sign, ip, fp, ex = m.group(1), m.group(2), m.group(3), int(m.group(4) or 0)
    q = Fraction(int((ip + fp) or '0'), 10 ** len(fp)) * (Fraction(10) ** ex)
    return -q if sign == '-' else q


def gen_consts_lean(entries):
    out = ['-- GENERATED by checks/c11.py from ' + ', '.join(CONST_FILES) + ' of the glm working tree — do not edit.',
           '-- One exact rational per decimal literal (`lit_<name>`), the alias table and the list of names.',
           'namespace GlmVerif.Gen.C11', '']
    for e in entries:
        if e['kind'] in ('lit', 'int'):
            q = lit_fraction(e['text'])
            out.append('/-- `%s<T>()` returns `genType(%s)` (%s) -/' % (e['name'], e['text'], e['file']))
            out.append('def lit_%s : Rat := (%d : Rat) / (%d : Rat)' % (e['name'], q.numerator, q.denominator))
        elif e['kind'] == 'alias':
            out.append('/-- `%s<T>()` returns `%s<T>()` (%s) -/' % (e['name'], e['text'], e['file']))
            out.append('def alias_%s : String := "%s"' % (e['name'], e['text']))
        elif e['kind'] == 'epsilon':
            out.append('/-- `%s<T>()` returns `std::numeric_limits<T>::epsilon()` (%s) -/' % (e['name'], e['file']))
            out.append('def numeric_limits_%s : Bool := true' % e['name'])
    out.append('')
    out.append('def names : List String := [' + ', '.join('"%s"' % e['name'] for e in entries) + ']')
    out.append('def lits : List (String × Rat) := [' + ', '.join('("%s", lit_%s)' % (e['name'], e['name']) for e in entries if e['kind'] in ('lit', 'int')) + ']')
    out += ['', 'end GlmVerif.Gen.C11']
    return '\n'.join(out) + '\n'


# the real number each name stands for (reading of the names/doc comments of gtc/constants.hpp) — mpmath expressions
QUANTITY = {
    'pi': 'pi', 'two_pi': '2*pi', 'tau': '2*pi', 'half_pi': 'pi/2', 'three_over_two_pi': '3*pi/2', 'quarter_pi': 'pi/4',
    'one_over_pi': '1/pi', 'one_over_two_pi': '1/(2*pi)', 'two_over_pi': '2/pi', 'four_over_pi': '4/pi',
    'root_pi': 'sqrt(pi)', 'two_over_root_pi': '2/sqrt(pi)', 'one_over_root_two': '1/sqrt(2)', 'root_half_pi': 'sqrt(pi/2)',
    'root_two_pi': 'sqrt(2*pi)', 'root_ln_four': 'sqrt(log(4))', 'e': 'e', 'euler': 'euler', 'root_two': 'sqrt(2)',
    'root_three': 'sqrt(3)', 'root_five': 'sqrt(5)', 'ln_two': 'log(2)', 'ln_ten': 'log(10)', 'ln_ln_two': 'log(log(2))',
    'third': 'mpf(1)/3', 'two_thirds': 'mpf(2)/3', 'golden_ratio': '(1+sqrt(5))/2', 'cos_one_over_two': 'cos(mpf(1)/2)',
    'zero': 'mpf(0)', 'one': 'mpf(1)', 'epsilon': None,
}
# constants whose correct rounding is a Lean theorem (name -> precisions proved); the others are numeric-only
PROVED = {n: ('f64', 'f32') for n in ['pi', 'two_pi', 'half_pi', 'three_over_two_pi', 'quarter_pi', 'one_over_pi', 'one_over_two_pi',
                                      'two_over_pi', 'four_over_pi', 'root_pi', 'root_half_pi', 'root_two_pi', 'two_over_root_pi',
                                      'root_two', 'root_three', 'root_five', 'one_over_root_two', 'golden_ratio', 'third', 'two_thirds', 'e']}
PROVED.update({n: ('f32',) for n in ['ln_two', 'ln_ten', 'root_ln_four']})

_MP_HELPER = r'''
import sys, json
from mpmath import mp, mpf, pi, e, euler, sqrt, log, cos
mp.dps = 60
def rn(x, prec):
    old = mp.prec; mp.prec = prec; y = +x; mp.prec = old; return y
out = {}
for name, expr in json.loads(sys.argv[1]).items():
    x = eval(expr)
    mp.dps = 60
    d = float(rn(x, 53))
    f = float(rn(x, 24))
    out[name] = [f.hex(), d.hex(), mp.nstr(x, 40)]
print(json.dumps(out))
'''


def numeric_reference(names):
    """bits of RN32(q), RN64(q) from 60-digit mpmath values (python3-vt has mpmath/sympy)"""
    exprs = {n: QUANTITY[n] for n in names if QUANTITY.get(n)}
    rc, out = sh(['python3-vt', '-c', _MP_HELPER, json.dumps(exprs)], timeout=120)
    if rc != 0:
        rc, out = sh([sys.executable, '-c', _MP_HELPER, json.dumps(exprs)], timeout=120)
    if rc != 0:
        return None, out[-400:]
    try:
        js = json.loads(out.strip().split('\n')[-1])
    except Exception as e:
        return None, 'cannot parse mpmath helper output: %r' % out[-300:]
    ref = {}
    for n, (fh, dh, dec) in js.items():
        f, d = float.fromhex(fh), float.fromhex(dh)
        ref[n] = (struct.unpack('<I', struct.pack('<f', f))[0], struct.unpack('<Q', struct.pack('<d', d))[0], dec)
    return ref, None


# ------------------------------------------------------------------------------------------------ known findings
def _nan32(b): return (b & 0x7fffffff) > 0x7f800000
def _nan64(b): return (b & 0x7fffffffffffffff) > 0x7ff0000000000000
INPUT_CLASSES = {
    # name -> predicate(function, ty, args)
    'any operand is NaN': lambda fn, ty, a: any((_nan32(x) if ty == 'f' else _nan64(x)) for x in a),
    'x is -0': lambda fn, ty, a: a[0] == (0x80000000 if ty == 'f' else 0x8000000000000000),
    '|x| >= 2^31, inf or NaN': lambda fn, ty, a: ((a[0] & 0x7fffffff) >= 0x4f000000) if ty == 'f' else ((a[0] & 0x7fffffffffffffff) >= 0x41e0000000000000),
    'x = 0.5 - ulp/2 or an odd integer in [2^23, 2^24) (double: [2^52, 2^53))':
        lambda fn, ty, a: (a[0] == 0x3effffff or ((a[0] >> 23) == 150 and a[0] & 1)) if ty == 'f'
        else (a[0] == 0x3fdfffffffffffff or ((a[0] >> 52) == 1075 and a[0] & 1)),
}


def all_known():
    kf = list(known_findings(PROP))
    p = os.path.join(HDIR, 'known_findings_entries.json')
    if os.path.exists(p):
        try: kf += [k for k in json.load(open(p)) if k.get('property') == PROP]
        except Exception as e: log('cannot read', p, e)
    return kf


def base_fn(op):
    op = op[2:] if op.startswith('S:') else op
    return op


def match_known(kf, op, ty, args):
    fn = base_fn(op)
    for k in kf:
        pred = INPUT_CLASSES.get(k.get('input_class'))
        fns = [k.get('function')] + [('v' + k.get('function', ''))]
        if (fn in fns or k.get('function') == '*') and pred and pred(fn, ty, args):
            return k
    return None


# ------------------------------------------------------------------------------------------------ harness
def build_harness(tag, flags):
    key = sha_files([SRC], glm_tree_hash() + ' '.join(flags))[:16]
    out = os.path.join(CACHE, 'C11_%s_%s.bin' % (tag, key))
    for old in glob.glob(os.path.join(CACHE, 'C11_%s_*.bin' % tag)):
        if old != out:
            try: os.remove(old)
            except OSError: pass
    if not os.path.exists(out):
        log('compiling diff/C11.cpp (%s) against %s' % (tag, checklib.REPO))
        rc, o = sh(['g++', '-std=c++17', '-ffp-contract=off', '-w', '-I' + checklib.REPO] + flags + ['-o', out + '.tmp', SRC], timeout=900)
        if rc != 0:
            return None, o[-3000:]
        os.replace(out + '.tmp', out)
    return out, None


def parse_line(l):
    """'op ty a.. -> r..' -> (op, ty, [args], [res])"""
    m = re.match(r'(\S+) (\S) (.*?) ?-> ?(.*?)(?: model (.*))?$', l)
    if not m: return None
    return (m.group(1), m.group(2), [int(x, 16) for x in m.group(3).split()], [int(x, 16) for x in m.group(4).split()],
            [int(x, 16) for x in (m.group(5) or '').split()])


def run_driver_lines(path, timeout=3000):
    rc, out = sh([DRV, 'lines', path], timeout=timeout)
    m = re.search(r'CORR lines=(\d+) results=(\d+) mismatches=(\d+) unknown=(\d+) skipped=(\d+) nontrivial=(\d+) speccmp=(\d+) specfail=(\d+)', out)
    corr = dict(zip(['lines', 'results', 'mismatches', 'unknown', 'skipped', 'nontrivial', 'speccmp', 'specfail'], map(int, m.groups()))) if m else None
    spec = [parse_line(l[9:]) for l in out.split('\n') if l.startswith('SPECFAIL ')]
    mism = [parse_line(l[9:]) for l in out.split('\n') if l.startswith('MISMATCH ')]
    return corr, [s for s in spec if s], [s for s in mism if s], out


SCALAR_SWEEP = ['floor', 'ceil', 'trunc', 'round', 'roundEven', 'fract', 'abs', 'sign', 'isnan', 'isinf', 'iround', 'uround',
                'wrapClamp', 'repeat', 'mirrorClamp', 'mirrorRepeat', 'fbti', 'fbtu', 'ibtf', 'ubtf', 'modf_i', 'modf_f']


def run_sweeps(hbin, ops_mode):
    """ops_mode: list of (op, 'quick'|'thorough').  returns (stats, bad) ; bad = [(op, mode, block)]"""
    jobs = []
    for op, mode in ops_mode:
        nb = 4096 if mode == 'thorough' else 3
        step = 64 if mode == 'thorough' else 3
        for b0 in range(0, nb, step):
            jobs.append((op, mode, b0, min(nb, b0 + step)))

    def one(job):
        op, mode, b0, b1 = job
        a = [op, mode, str(b0), str(b1)]
        rc1, o1 = sh([hbin, 'sweep'] + a, timeout=3000)
        rc2, o2 = sh([DRV, 'sweep'] + a, timeout=3000)
        h1 = {int(m.group(1)): m.group(2) for m in re.finditer(r'^H \S+ (\d+) ([0-9a-f]+) \d+', o1, flags=re.M)}
        h2 = {int(m.group(1)): m.group(2) for m in re.finditer(r'^H \S+ (\d+) ([0-9a-f]+) \d+', o2, flags=re.M)}
        cnt = sum(int(m.group(1)) for m in re.finditer(r'^H \S+ \d+ [0-9a-f]+ (\d+)', o1, flags=re.M))
        m = re.search(r'SWEEP \S+ nontrivial=(\d+) specfail=(\d+)', o2)
        nt, sf = (int(m.group(1)), int(m.group(2))) if m else (0, 0)
        bad = [b for b in range(b0, b1) if h1.get(b) != h2.get(b) or b not in h1]
        err = None
        if rc1 != 0 or rc2 != 0 or not h1:
            err = 'sweep %s %s [%d,%d): harness rc=%d driver rc=%d %s' % (op, mode, b0, b1, rc1, rc2, (o1 + o2)[-200:])
        samples = [l for l in o2.split('\n') if l.startswith('SWEEPSPECFAIL')]
        return op, mode, cnt, nt, sf, bad, err, samples
    stats = dict(evaluations=0, nontrivial=0, specfail_model=0, errors=[], spec_samples=[])
    bad = []
    with ThreadPoolExecutor(max_workers=NCPU) as ex:
        for op, mode, cnt, nt, sf, b, err, samples in ex.map(one, jobs):
            stats['evaluations'] += cnt; stats['nontrivial'] += nt; stats['specfail_model'] += sf
            if err: stats['errors'].append(err)
            stats['spec_samples'] += samples[:2]
            bad += [(op, mode, x) for x in b]
    return stats, bad


# ------------------------------------------------------------------------------------------------ main
def run(tier, seed):
    t0 = time.time()
    for old in glob.glob(os.path.join(checklib.REPLAYS, PROP + '-*.json')): os.remove(old)
    kf = all_known()
    notes, broken = [], []           # broken: ties/translators that failed (strings)
    violations = []                  # replay payloads with a concrete input
    known_hits = {}
    unexplained = []                 # things that no longer check without a concrete failing input (yet)
    mods = modules()
    for mod in mods:
        f = os.path.join(LEAN, mod.replace('.', '/') + '.lean')
        ns, names = theorems_in(f)
        if mod.split('.')[-1] in ('Select', 'SelectD', 'Round', 'RoundD', 'Glm', 'GlmD', 'Mirror'):
            checklib.BV_DECIDE_WHITELIST.update(ns + '.' + n for n in names)

    # 1. T2: constants -> Gen
    entries, cproblems = parse_consts(checklib.REPO)
    for p in cproblems: broken.append('translator (constants): ' + p)
    text = gen_consts_lean(entries)
    if not os.path.exists(GEN) or open(GEN).read() != text:
        open(GEN, 'w').write(text)
        log('regenerated Gen/C11Consts.lean (%d constants)' % len(entries))
    unknown_consts = [e['name'] for e in entries if e['name'] not in QUANTITY]
    for n in unknown_consts: broken.append('translator (constants): constant %s() has no named quantity / theorem' % n)

    # 2. prove
    rc, build_out, build_s = lake_build(['GlmVerif.Props.' + PROP])
    rcd, dbuild_out, dbuild_s = lake_build(['drv_c11'])
    driver_ok = rcd == 0 and os.path.exists(DRV)
    if not driver_ok:
        broken.append('driver drv_c11 does not build (model/driver out of sync?): ' + dbuild_out[-600:])
    all_thms, failing = [], []
    for mod in mods:
        f = os.path.join(LEAN, mod.replace('.', '/') + '.lean')
        ns, names = theorems_in(f)
        all_thms += [ns + '.' + n for n in names]
        if rc != 0:
            failing += [ns + '.' + n for n in failing_decls(build_out, f) if n in names]
    if rc != 0 and not failing:
        if os.path.exists(DRV) and re.search(r'error: .*DrvC11|Gen/C11Consts', build_out) is None and 'Props' not in build_out:
            notes.append('lake build failed outside the Props modules: ' + build_out[-600:])
        failing = list(all_thms)
        notes.append('lake build failed without a located theorem: ' + build_out[-800:])
    log('lake build %s: rc=%d %.1fs, %d/%d theorems check' % (mods[0], rc, build_s, len(all_thms) - len(failing), len(all_thms)))

    # 3. audit
    axioms, audit_problems = {}, []
    if rc == 0:
        ok, axioms, audit_problems = audit(PROP, mods)
        if audit_problems: log('audit problems:', audit_problems[:5])

    # 4. correspondence
    hbin, err = build_harness('O1', ['-O1'])
    corr_total = dict(lines=0, results=0, mismatches=0, unknown=0, skipped=0, nontrivial=0, speccmp=0, specfail=0)
    samples, sweep_stats, exhaustive = [], None, False
    spec_hits, mism_hits = [], []
    const_report = {}
    if err:
        broken.append('harness no longer compiles against %s: %s' % (checklib.REPO, err[-800:]))
    elif not driver_ok:
        pass
    else:
        # 4a. line protocol (float + double, scalar + vector forms)
        lines_path = os.path.join(CACHE, 'C11.lines')
        with open(lines_path, 'w') as f:
            p = subprocess.run([hbin, 'lines', str(seed), tier], stdout=f, stderr=subprocess.PIPE, text=True, timeout=3000)
        if p.returncode != 0:
            broken.append('harness lines run failed rc=%d: %s' % (p.returncode, p.stderr[-400:]))
        else:
            corr, spec_hits, mism_hits, dout = run_driver_lines(lines_path)
            if corr is None: broken.append('driver lines failed: ' + dout[-400:])
            else:
                for k in corr_total: corr_total[k] += corr[k]
                if corr['unknown']: broken.append('driver does not know %d op(s) the harness emitted' % corr['unknown'])
            with open(lines_path) as f:
                for i, l in enumerate(f):
                    if i % 100003 == 7 and len(samples) < 12: samples.append(l.strip())
        if tier == 'thorough':
            hb0, err0 = build_harness('O0', ['-O0'])
            if err0: broken.append('O0 harness: ' + err0[-300:])
            else:
                lp0 = os.path.join(CACHE, 'C11.lines0')
                with open(lp0, 'w') as f:
                    subprocess.run([hb0, 'lines', str(seed + 1000), 'quick'], stdout=f, stderr=subprocess.PIPE, text=True, timeout=3000)
                corr0, s0, m0, _ = run_driver_lines(lp0)
                if corr0:
                    for k in corr_total: corr_total[k] += corr0[k]
                    spec_hits += s0; mism_hits += m0
                    notes.append('second harness build (-O0, libm calls not inlined): %d lines, %d mismatches' % (corr0['lines'], corr0['mismatches']))
        # 4b. sweeps
        rcops, ops_out = sh([hbin, 'ops'])
        all_ops = ops_out.split()
        # a theorem about the functions no longer checks: sweep all 2^32 floats to find a failing input (constants have no inputs)
        deep = tier == 'thorough' or any(not t.startswith('GlmVerif.C11.Const.') for t in failing)
        ops_mode = [(op, 'thorough' if (deep and op in SCALAR_SWEEP) else 'quick') for op in all_ops]
        sweep_stats, bad_blocks = run_sweeps(hbin, ops_mode)
        exhaustive = deep and not sweep_stats['errors']
        for e in sweep_stats['errors']: broken.append(e)
        log('sweeps: %d evaluations over %d ops (%s), %d differing block(s)' % (sweep_stats['evaluations'], len(all_ops),
            'all 2^32 floats for the scalar functions' if deep else '13-bit lattice of all floats', len(bad_blocks)))
        seen_ops = set()
        for op, mode, b in bad_blocks:
            if op in seen_ops: continue
            seen_ops.add(op)
            bp = os.path.join(CACHE, 'C11.block')
            with open(bp, 'w') as f:
                subprocess.run([hbin, 'block', op, mode, str(b)], stdout=f, timeout=600)
            c2, s2, m2, _ = run_driver_lines(bp)
            if c2:
                corr_total['mismatches'] += c2['mismatches']; corr_total['specfail'] += c2['specfail']
            spec_hits += s2; mism_hits += m2
            if not s2 and not m2: unexplained.append('sweep block %s/%s/%d differs but the line replay does not' % (op, mode, b))
        # 4c. constants: harness bits vs Lean rounding of the literal vs 60-digit reference
        rcc, cout = sh([hbin, 'consts'])
        got = {m.group(1): (int(m.group(2), 16), int(m.group(3), 16)) for m in re.finditer(r'^C (\w+) ([0-9a-f]+) ([0-9a-f]+)', cout, flags=re.M)}
        rcl, lout = sh([DRV, 'consts'])
        lean_bits = {m.group(1): (int(m.group(2), 16), int(m.group(3), 16)) for m in re.finditer(r'^L (\w+) ([0-9a-f]+) ([0-9a-f]+)', lout, flags=re.M)}
        ref, rerr = numeric_reference([e['name'] for e in entries])
        if ref is None: broken.append('numeric reference (mpmath) unavailable: %s' % rerr)
        alias = {e['name']: e['text'] for e in entries if e['kind'] == 'alias'}
        for e in entries:
            n = e['name']
            if n not in got:
                broken.append('harness does not report constant %s' % n); continue
            gf, gd = got[n]
            rep = dict(glm_f32='%08x' % gf, glm_f64='%016x' % gd, proved=list(PROVED.get(n, ())))
            if e['kind'] == 'epsilon':
                if (gf, gd) != (0x34000000, 0x3cb0000000000000):
                    violations.append(dict(property=PROP, kind='constant-not-correctly-rounded', function='epsilon', input_bits=[], glm_bits=[gf, gd],
                                           spec_bits=[0x34000000, 0x3cb0000000000000], replay='diff/C11.cpp consts'))
                const_report[n] = rep; continue
            src = alias.get(n, n)
            if src in lean_bits and lean_bits[src] != (gf, gd):
                broken.append('constant %s: g++ converts the literal to %08x/%016x but the Lean rational rounding gives %08x/%016x'
                              % (n, gf, gd, lean_bits[src][0], lean_bits[src][1]))
            if ref and n in ref:
                rf, rd, dec = ref[n]
                rep.update(ref_f32='%08x' % rf, ref_f64='%016x' % rd, value=dec)
                if (gf, gd) != (rf, rd):
                    violations.append(dict(property=PROP, kind='constant-not-correctly-rounded', function=n, type='f32+f64', input_bits=[],
                                           literal=e['text'], glm_bits=['%08x' % gf, '%016x' % gd], spec_bits=['%08x' % rf, '%016x' % rd],
                                           quantity=QUANTITY[n], value_40_digits=dec, replay='diff/C11.cpp consts'))
            const_report[n] = rep
        # 4d. UBSan replay of the same lines (in-domain inputs only): any runtime error inside glm is a violation
        hbu, erru = build_harness('UB', ['-O1', '-fsanitize=float-cast-overflow,signed-integer-overflow,shift'])
        if erru: notes.append('UBSan harness did not build (skipped): ' + erru[-200:])
        else:
            pu = subprocess.run([hbu, 'lines', str(seed), 'quick'], stdout=subprocess.DEVNULL, stderr=subprocess.PIPE, text=True, timeout=3000)
            ub = sorted(set(re.findall(r'(\S*glm/\S+?:\d+):\d+: runtime error: ([^\n]*)', pu.stderr)))
            for where, what in ub[:5]:
                k = None
                for kk in kf:
                    if kk.get('input_class') == 'ubsan' and kk.get('function') in where + what: k = kk
                if k: known_hits[('ubsan', k['what'])] = k
                else:
                    violations.append(dict(property=PROP, kind='undefined-behaviour-inside-documented-domain', function=where, what=what,
                                           replay='g++ -fsanitize=float-cast-overflow -I<repo> diff/C11.cpp; ./a.out lines %d quick' % seed))
            notes.append('UBSan replay: %d distinct runtime error site(s) inside glm' % len(ub))

    # 5. classify the hits: glm's result violates the executable specification on a concrete input
    spec_keys = set()
    for op, ty, args, res, _ in spec_hits:
        spec_keys.add((op, ty, tuple(args)))
        k = match_known(kf, op, ty, args)
        if k: known_hits[(base_fn(op), k['what'])] = k; continue
        violations.append(dict(property=PROP, kind='glm-output-violates-specification', function=base_fn(op), type=ty,
                               input_bits=['%x' % a for a in args], glm_bits=['%x' % r for r in res],
                               replay='diff/C11.cpp: eval %s %s %s' % (base_fn(op), ty, ' '.join('%x' % a for a in args))))
    # model != glm where the specification is silent or satisfied
    for op, ty, args, res, model in mism_hits:
        if (op, ty, tuple(args)) in spec_keys: continue
        k = match_known(kf, op, ty, args)
        if k: known_hits[(base_fn(op), k['what'])] = k; continue
        unexplained.append('correspondence: model != glm for %s %s %s: glm %s model %s (specification satisfied or silent)'
                           % (op, ty, ' '.join('%x' % a for a in args), ' '.join('%x' % r for r in res), ' '.join('%x' % r for r in model)))
    if sweep_stats and sweep_stats['specfail_model']:
        unexplained.append('the model itself violates its executable specification on %d swept input(s): %s'
                           % (sweep_stats['specfail_model'], sweep_stats['spec_samples'][:2]))
    for t in failing: unexplained.append('theorem %s no longer checks' % t)
    unexplained += broken + audit_problems

    # 6. verdict
    out_lines = []
    for (fn, what), k in sorted(known_hits.items()):
        out_lines.append('KNOWN-FINDING: property=%s %s (%s; input class: %s)' % (PROP, what, fn, k.get('input_class')))
    seen = set()
    for v in violations:
        key = (v.get('function'), v.get('type'), v.get('kind'))
        if key in seen: continue
        seen.add(key)
        if len(seen) > 6: break
        v['failing_theorems'] = failing[:20]
        out_lines.append('VIOLATION property=%s replay=%s' % (PROP, write_replay(PROP, v)))
    if unexplained and not violations:
        payload = dict(property=PROP, kind='obligation-or-correspondence-no-longer-checks', items=unexplained[:20], failing_theorems=failing[:40],
                       note='no input was found on which glm violates the executable specification (lines: lattice^n + random; sweeps: %s)'
                            % ('all 2^32 floats' if exhaustive else '13-bit lattice of all floats'))
        out_lines.append('VIOLATION property=%s replay=%s no-failing-input-found' % (PROP, write_replay(PROP, payload)))
    nviol = sum(1 for l in out_lines if l.startswith('VIOLATION'))

    evaluations = corr_total['lines'] + (sweep_stats['evaluations'] if sweep_stats else 0)
    nontrivial = corr_total['nontrivial'] + (sweep_stats['nontrivial'] if sweep_stats else 0)
    coverage = dict(
        obligations=len(all_thms), discharged=len(all_thms) - len(failing),
        checker_cmd='cd lean && lake build GlmVerif.Props.C11 drv_c11  (+ lake env lean .cache/Audit_C11.lean for #print axioms)',
        trusted_base=TRUSTED, level_note=LEVEL_NOTE,
        theorems=[dict(name=t, axioms=axioms.get(t)) for t in all_thms], failing_theorems=failing,
        bv_decide_theorems=sorted(t for t in all_thms if any('bv_decide' in a for a in (axioms.get(t) or []))),
        lake_build_s=round(build_s, 1),
        evaluations=evaluations, distinct_nontrivial=nontrivial,
        rule='each evaluation is one call of a real glm function: (a) sweeps - every unary binary32 function (scalar and vec4 form) on '
             + ('ALL 2^32 float bit patterns for the scalar form, ' if exhaustive else '') +
             'the lattice of all floats whose low 13 bits are in {0,1,0xFFF,0x1000,0x1001,0x1FFF} (2^19*6 inputs), results folded into FNV-1a '
             'hashes per block of 2^20 inputs and compared with the compiled Lean model; (b) lines - every function at float and double, scalar and '
             'vector forms, on the special-value lattice^n {+-0, +-min subnormal, +-min normal, +-(0.5-ulp), +-0.5, ties k+0.5, +-2^23, +-2^24, +-2^31, '
             '+-max, +-inf, quiet/signalling NaN} (full lattice for n<=2, reduced for n=3 in quick and for n=4) plus xoshiro256** random tuples '
             '(seed VERIF_SEED), compared bit for bit with the model and checked against the executable specification.  non-trivial = result is neither '
             'zero nor a copy of an argument (lines: distinct input tuples counted with a hash set; sweeps: all inputs are distinct by construction)',
        correspondence=corr_total, sweeps=({k: v for k, v in sweep_stats.items() if k != 'spec_samples'} if sweep_stats else None),
        constants=const_report, constants_parsed=len(entries), constants_proved={k: list(v) for k, v in PROVED.items()},
        constants_numeric_only=sorted(e['name'] for e in entries if e['kind'] == 'lit' and len(PROVED.get(e['name'], ())) < 2),
        samples=samples, notes=notes, exhaustive=bool(exhaustive),
        known_findings=[k.get('what') for k in known_hits.values()])
    write_evidence(PROP, tier, seed, coverage,
                   ['DESIGN.md §5; libm functions are modelled by the Hand/C11.lean §5 specification and compared, not verified',
                    'signalling-NaN operands of fmin/fmax/fclamp are outside the documented domain (glibc returns a quiet NaN: IEEE 754-2008 minNum) and skipped',
                    'iround/uround are evaluated only on their documented domain x >= 0 with a representable result; smoothstep is checked for '
                    'edge0 < edge1 with non-overflowing differences',
                    'the model mirrors glm with h/C11/fix_roundEven.diff and h/C11/fix_iround.diff applied'],
                   time.time() - t0, nviol)
    for l in out_lines: print(l)
    log('%s %s: %d theorem(s), %d failing, %d evaluations, %d violation line(s), %.1fs' % (PROP, tier, len(all_thms), len(failing), evaluations, nviol, time.time() - t0))
    return 1 if nviol else 0
