#!/usr/bin/env python3
"""T2 extractor for C16: generate, compile (against the glm tree given as argv[1]) and run a probe that prints
one row per vec/mat/qua instantiation and configuration:
  ROW cfg kind C R tsize talign isfloat aligned qual sizeof alignof vptr cvptr len lentype wxyz | off0 off1 ...
kind: 0 vec (C = L, R = 1), 1 mat, 2 qua.  Offsets are byte offsets of the elements in index order
(vec: v[i]; mat: m[c][r], column-major enumeration; qua: components x,y,z,w BY NAME).
usage: layout_probe.py <glm-root> <out-rows-file> <cache-dir>"""
import sys, os, subprocess, hashlib
from concurrent.futures import ThreadPoolExecutor

CONFIGS = [  # id, name, defines, extra compiler flags
    (0, 'default', [], []),
    (1, 'SWIZZLE', ['GLM_FORCE_SWIZZLE'], []),
    (2, 'XYZW_ONLY', ['GLM_FORCE_XYZW_ONLY'], []),
    (3, 'ALIGNED_GENTYPES', ['GLM_FORCE_ALIGNED_GENTYPES'], []),
    (4, 'DEFAULT_ALIGNED', ['GLM_FORCE_DEFAULT_ALIGNED_GENTYPES'], []),
    (5, 'INTRINSICS_SSE2', ['GLM_FORCE_INTRINSICS'], ['-msse2']),
    (6, 'INTRINSICS_AVX2', ['GLM_FORCE_INTRINSICS'], ['-mavx2']),
    (7, 'SIZE_T_LENGTH', ['GLM_FORCE_SIZE_T_LENGTH'], []),
    (8, 'QUAT_DATA_WXYZ', ['GLM_FORCE_QUAT_DATA_WXYZ'], []),
    (9, 'CTOR_INIT', ['GLM_FORCE_CTOR_INIT'], []),
    (10, 'INTRINSICS_SWIZZLE', ['GLM_FORCE_INTRINSICS', 'GLM_FORCE_SWIZZLE'], ['-msse2']),
    (11, 'INTRINSICS_DEFAULT_ALIGNED', ['GLM_FORCE_INTRINSICS', 'GLM_FORCE_DEFAULT_ALIGNED_GENTYPES'], ['-msse2']),
    (12, 'INTRINSICS_ALIGNED_AVX', ['GLM_FORCE_INTRINSICS', 'GLM_FORCE_ALIGNED_GENTYPES'], ['-mavx']),
    (13, 'WXYZ_INTRINSICS', ['GLM_FORCE_QUAT_DATA_WXYZ', 'GLM_FORCE_INTRINSICS'], ['-msse2']),
    (14, 'WXYZ_INTRINSICS_DEFAULT_ALIGNED_AVX2', ['GLM_FORCE_QUAT_DATA_WXYZ', 'GLM_FORCE_INTRINSICS', 'GLM_FORCE_DEFAULT_ALIGNED_GENTYPES'], ['-mavx2']),
]
TYPES = [('bool', 0), ('glm::int8', 0), ('glm::uint8', 0), ('glm::int16', 0), ('glm::uint16', 0), ('glm::int32', 0),
         ('glm::uint32', 0), ('glm::int64', 0), ('glm::uint64', 0), ('float', 1), ('double', 1)]
MAT_TYPES = [('float', 1), ('double', 1), ('glm::int32', 0), ('glm::uint32', 0)]

ROOT = ['/repo']
NAMED_CONFIGS = (5, 6)      # configurations in which the typedef names of gtc/type_aligned.hpp are measured as well

def named_types():
    """(name, kind, c, r, element size the NAME promises, is-float, aligned, precision) for every typedef of gtc/type_aligned.hpp:
    (aligned|packed)_[(highp|mediump|lowp)_](b|i|u|d|)(vecN | matN | matCxR) - what the name says, not what the typedef is"""
    import re
    out = []
    try: txt = open(os.path.join(ROOT[0], 'glm', 'gtc', 'type_aligned.hpp')).read()
    except OSError: return out
    for m in re.finditer(r'^\s*typedef\s+[^;]*?\b((aligned|packed)_(?:(highp|mediump|lowp)_)?([biud]?)(vec|mat)(\d)(?:x(\d))?)\s*;', txt, flags=re.M):
        name, al, prec, el, km, n1, n2 = m.groups()
        tsize, isf = {'': (4, 1), 'd': (8, 1), 'i': (4, 0), 'u': (4, 0), 'b': (1, 0)}[el]
        q = {'highp': 0, None: 0, 'mediump': 1, 'lowp': 2}[prec]
        if km == 'vec': out.append((name, 0, int(n1), 1, tsize, isf, 1 if al == 'aligned' else 0, q))
        else: out.append((name, 1, int(n1), int(n2 or n1), tsize, isf, 1 if al == 'aligned' else 0, q))
    return out

FWD_CONFIG = 0              # configuration in which the vector / matrix typedef names of glm/fwd.hpp are measured as well

def fwd_named_types():
    """typedef names of glm/fwd.hpp of the form [(highp|mediump|lowp)_](f32|f64|i8…u64|b|i|u|d|f|)(vecN|matN|matCxR): what the name promises"""
    import re
    out, seen = [], set()
    try: txt = open(os.path.join(ROOT[0], 'glm', 'fwd.hpp')).read()
    except OSError: return out
    sizes = {'': (4, 1), 'f': (4, 1), 'd': (8, 1), 'f32': (4, 1), 'f64': (8, 1), 'i': (4, 0), 'u': (4, 0), 'b': (1, 0),
             'i8': (1, 0), 'u8': (1, 0), 'i16': (2, 0), 'u16': (2, 0), 'i32': (4, 0), 'u32': (4, 0), 'i64': (8, 0), 'u64': (8, 0)}
    for m in re.finditer(r'typedef\s+[^;]*?\b((?:(highp|mediump|lowp)_)?(f32|f64|i8|i16|i32|i64|u8|u16|u32|u64|b|i|u|d|f|)(vec|mat)(\d)(?:x(\d))?)\s*;', txt):
        name, prec, el, km, n1, n2 = m.groups()
        if name in seen: continue
        seen.add(name)
        tsize, isf = sizes[el]; q = {'highp': 0, None: 0, 'mediump': 1, 'lowp': 2}[prec]
        if km == 'vec': out.append((name, 0, int(n1), 1, tsize, isf, 0, q))
        else: out.append((name, 1, int(n1), int(n2 or n1), tsize, isf, 0, q))
    return out

def gen(cfg):
    cid, name, defs, flags = cfg
    o = []
    for d in defs: o.append('#define %s' % d)
    o.append('#include <glm/glm.hpp>\n#include <glm/gtc/quaternion.hpp>\n#include <glm/gtc/type_ptr.hpp>\n#include <cstdio>\n#include <cstddef>')
    if cid in NAMED_CONFIGS: o.append('#include <glm/gtc/type_aligned.hpp>')
    o.append('''
// rows for typedef NAMES: the expectations (shape, element size, aligned or packed) come from the name, the measurements from the type behind it
template<class V> static void row_vec_named(int cfg, int L, int ts, int isf, int al, int q) { static V v;
  printf("ROW %d 0 %d 1 %d %d %d %d %d %d %d %d %d %d %d %d |", cfg, L, ts, (int)alignof(typename V::value_type), isf, al, q, (int)sizeof(V), (int)alignof(V),
    (int)((char*)glm::value_ptr(v) - (char*)&v), (int)((char const*)glm::value_ptr(static_cast<V const&>(v)) - (char const*)&v), (int)v.length(), (int)sizeof(typename V::length_type), 0);
  for (int i = 0; i < (int)v.length(); ++i) printf(" %d", (int)((char*)&v[i] - (char*)&v)); printf("\\n"); }
template<class M> static void row_mat_named(int cfg, int C, int R, int ts, int isf, int al, int q) { static M m;
  printf("ROW %d 1 %d %d %d %d %d %d %d %d %d %d %d %d %d %d |", cfg, C, R, ts, (int)alignof(typename M::value_type), isf, al, q, (int)sizeof(M), (int)alignof(M),
    (int)((char*)glm::value_ptr(m) - (char*)&m), (int)((char const*)glm::value_ptr(static_cast<M const&>(m)) - (char const*)&m), (int)m.length(), (int)sizeof(typename M::length_type), (int)sizeof(typename M::col_type));
  for (int c = 0; c < (int)m.length(); ++c) for (int r = 0; r < (int)m[0].length(); ++r) printf(" %d", (int)((char*)&m[c][r] - (char*)&m)); printf("\\n"); }''')
    o.append('''
template<class V> static void offs_vec(V& v) { for (int i = 0; i < (int)v.length(); ++i) printf(" %d", (int)((char*)&v[i] - (char*)&v)); }
template<class M> static void offs_mat(M& m) { for (int c = 0; c < (int)m.length(); ++c) for (int r = 0; r < (int)m[0].length(); ++r) printf(" %d", (int)((char*)&m[c][r] - (char*)&m)); }
template<class T, glm::qualifier Q, int L> static void row_vec(int cfg, int isf, int al, int q) {
  typedef glm::vec<L, T, Q> V; static V v;
  printf("ROW %d 0 %d 1 %d %d %d %d %d %d %d %d %d %d %d %d |", cfg, L, (int)sizeof(T), (int)alignof(T), isf, al, q, (int)sizeof(V), (int)alignof(V),
    (int)((char*)glm::value_ptr(v) - (char*)&v), (int)((char const*)glm::value_ptr(static_cast<V const&>(v)) - (char const*)&v), (int)v.length(), (int)sizeof(typename V::length_type), 0);
  offs_vec(v); printf("\\n"); }
template<class T, glm::qualifier Q, int C, int R> static void row_mat(int cfg, int isf, int al, int q) {
  typedef glm::mat<C, R, T, Q> M; static M m;
  printf("ROW %d 1 %d %d %d %d %d %d %d %d %d %d %d %d %d %d |", cfg, C, R, (int)sizeof(T), (int)alignof(T), isf, al, q, (int)sizeof(M), (int)alignof(M),
    (int)((char*)glm::value_ptr(m) - (char*)&m), (int)((char const*)glm::value_ptr(static_cast<M const&>(m)) - (char const*)&m), (int)m.length(), (int)sizeof(typename M::length_type), (int)sizeof(typename M::col_type));
  offs_mat(m); printf("\\n"); }
template<class T, glm::qualifier Q> static void row_qua(int cfg, int al, int q, int wxyz) {
  typedef glm::qua<T, Q> Qt; static Qt v;
  printf("ROW %d 2 4 1 %d %d 1 %d %d %d %d %d %d %d %d %d | %d %d %d %d\\n", cfg, (int)sizeof(T), (int)alignof(T), al, q, (int)sizeof(Qt), (int)alignof(Qt),
    (int)((char*)glm::value_ptr(v) - (char*)&v), (int)((char const*)glm::value_ptr(static_cast<Qt const&>(v)) - (char const*)&v), (int)v.length(), (int)sizeof(typename Qt::length_type), wxyz,
    (int)((char*)&v.x - (char*)&v), (int)((char*)&v.y - (char*)&v), (int)((char*)&v.z - (char*)&v), (int)((char*)&v.w - (char*)&v)); }
int main() {''')
    quals = [('glm::packed_highp', 0, 0), ('glm::packed_mediump', 0, 1), ('glm::packed_lowp', 0, 2)]
    o.append('#if GLM_CONFIG_ALIGNED_GENTYPES == GLM_ENABLE\n#define HAVE_ALIGNED 1\n#else\n#define HAVE_ALIGNED 0\n#endif')
    aquals = [('glm::aligned_highp', 1, 0), ('glm::aligned_mediump', 1, 1), ('glm::aligned_lowp', 1, 2)]
    wxyz = 1 if 'GLM_FORCE_QUAT_DATA_WXYZ' in defs else 0
    def body(qs):
        for (t, isf) in TYPES:
            for (q, al, qi) in qs:
                for L in (1, 2, 3, 4):
                    o.append('  row_vec<%s, %s, %d>(%d, %d, %d, %d);' % (t, q, L, cid, isf, al, qi))
        for (t, isf) in MAT_TYPES:
            for (q, al, qi) in qs:
                for C in (2, 3, 4):
                    for R in (2, 3, 4):
                        o.append('  row_mat<%s, %s, %d, %d>(%d, %d, %d, %d);' % (t, q, C, R, cid, isf, al, qi))
        for t in ('float', 'double'):
            for (q, al, qi) in qs:
                o.append('  row_qua<%s, %s>(%d, %d, %d, %d);' % (t, q, cid, al, qi, wxyz))
    body(quals)
    o.append('#if HAVE_ALIGNED')
    body(aquals)
    o.append('#endif')
    if cid in NAMED_CONFIGS or cid == FWD_CONFIG:
        for (nm_, kind, c, r, ts, isf, al, q) in (named_types() if cid in NAMED_CONFIGS else fwd_named_types()):
            if kind == 0: o.append('  row_vec_named<glm::%s>(%d, %d, %d, %d, %d, %d);' % (nm_, cid, c, ts, isf, al, q))
            else: o.append('  row_mat_named<glm::%s>(%d, %d, %d, %d, %d, %d, %d);' % (nm_, cid, c, r, ts, isf, al, q))
    # the default-qualifier typedefs users actually write
    o.append('  { static glm::vec4 v; printf("DEF %d vec4 %%d %%d\\n", (int)sizeof(v), (int)alignof(glm::vec4)); }' % cid)
    o.append('  { static glm::vec3 v; printf("DEF %d vec3 %%d %%d\\n", (int)sizeof(v), (int)alignof(glm::vec3)); }' % cid)
    o.append('  { static glm::mat4 v; printf("DEF %d mat4 %%d %%d\\n", (int)sizeof(v), (int)alignof(glm::mat4)); }' % cid)
    o.append('  return 0; }')
    return '\n'.join(o), flags

def main():
    root, out, cache = sys.argv[1], sys.argv[2], sys.argv[3]
    ROOT[0] = root
    glmhash = sys.argv[4] if len(sys.argv) > 4 else ''
    os.makedirs(cache, exist_ok=True)
    results = {}
    def one(cfg):
        src, flags = gen(cfg)
        key = hashlib.sha256((src + glmhash + ' '.join(flags)).encode()).hexdigest()[:16]
        cpp = os.path.join(cache, 'layout_%d_%s.cpp' % (cfg[0], key)); exe = cpp[:-4] + '.bin'
        if not os.path.exists(exe):
            open(cpp, 'w').write(src)
            p = subprocess.run(['g++', '-std=c++17', '-O0', '-w', '-I' + root] + flags + ['-o', exe, cpp], capture_output=True, text=True)
            if p.returncode != 0:
                results[cfg[0]] = 'ERR ' + p.stderr[-1500:]; return
        p = subprocess.run([exe], capture_output=True, text=True)
        results[cfg[0]] = p.stdout if p.returncode == 0 else 'ERR run ' + p.stderr[-500:]
    with ThreadPoolExecutor(max_workers=15) as ex: list(ex.map(one, CONFIGS))
    with open(out, 'w') as f:
        for cid, name, defs, flags in CONFIGS:
            f.write('CFG %d %s\n' % (cid, name))
            r = results.get(cid, 'ERR missing')
            if r.startswith('ERR'): f.write('FAIL %d %s\n' % (cid, r.replace('\n', ' ')[:800]))
            else: f.write(r)
    bad = [c for c in results if str(results[c]).startswith('ERR')]
    print('configs', len(CONFIGS), 'failed', bad)
    return 1 if bad else 0
if __name__ == '__main__': sys.exit(main())
