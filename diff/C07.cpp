// C07 correspondence harness: the real glm half conversion (from -I<repo>) against the Lean model
// (through lines / block hashes compared by checks/c07.py) and against two independent oracles on
// this side: a soft decoder of binary16 written from the IEEE definition (always) and the F16C
// hardware conversion _cvtss_sh/_cvtsh_ss (when compiled with -mf16c -DHAVE_F16C).
//
//   C07.bin quick <seed> <nrandom>   lines `op arg-bits… -> result-bits…` (all 2^16 halves through
//                                    unpackHalf1x16 and back, wrappers, boundary floats, seeded random
//                                    floats), then `LB k hash` for the 256 lattice blocks, then HARNESS summary
//   C07.bin sweep <first> <n>        `SB k hash` for blocks of 2^20 consecutive float patterns + HARNESS summary
//   C07.bin latlines <k>             the p1 lines of lattice block k
//   C07.bin blocklines <k>           the p1 lines of sweep block k
//   C07.bin eval <op> <arg-bits…>    one evaluation of the real code (replay), op = p1 u1 rt p2 u2 p4 u4 pv uv
// SPECFAIL lines: glm's result violates the specification according to an oracle.
#include <glm/glm.hpp>
#include <glm/gtc/packing.hpp>
#include <cstdio>
#include <cstdlib>
#include <cstring>
#include <cstdint>
#include <cmath>
#include <string>
#ifdef HAVE_F16C
#include <immintrin.h>
#endif

typedef uint32_t u32; typedef uint16_t u16; typedef uint64_t u64;

static inline float f_of(u32 b) { float f; memcpy(&f, &b, 4); return f; }
static inline u32 b_of(float f) { u32 b; memcpy(&b, &f, 4); return b; }

// ---- real glm
static inline u16 glm_p1(u32 f) { return glm::packHalf1x16(f_of(f)); }
static inline u32 glm_u1(u16 h) { return b_of(glm::unpackHalf1x16(h)); }

// ---- xoshiro256**
static u64 S[4];
static inline u64 rotl(u64 x, int k) { return (x << k) | (x >> (64 - k)); }
static u64 rnd() { u64 r = rotl(S[1] * 5, 7) * 9, t = S[1] << 17; S[2] ^= S[0]; S[3] ^= S[1]; S[1] ^= S[2]; S[0] ^= S[3]; S[2] ^= t; S[3] = rotl(S[3], 45); return r; }
static void seed(u64 s) { for (int i = 0; i < 4; ++i) { s += 0x9e3779b97f4a7c15ull; u64 z = s; z = (z ^ (z >> 30)) * 0xbf58476d1ce4e5b9ull; z = (z ^ (z >> 27)) * 0x94d049bb133111ebull; S[i] = z ^ (z >> 31); } }

// ---- oracle 1: soft, from the IEEE-754 binary16 definition (finite h only); doubles are exact here
static inline double halfMag(u16 h) { int e = (h >> 10) & 31, m = h & 1023; return e == 0 ? std::ldexp((double)m, -24) : std::ldexp((double)(1024 + m), e - 25); }
static bool soft_ok_p1(u32 f, u16 r)
{
	float x = f_of(f); bool fs = f >> 31, rs = r >> 15;
	bool rnan = (r & 0x7c00) == 0x7c00 && (r & 0x3ff) != 0;
	if (x != x) return rnan && rs == fs;
	if (rs != fs) return false;
	double a = std::fabs((double)x);
	u16 rm = r & 0x7fff;
	if (std::isinf(x) || a >= 65520.0) return rm == 0x7c00;
	if (a < std::ldexp(1.0, -25)) return rm == 0;
	if ((r & 0x7c00) == 0x7c00) return false;
	double d = std::fabs(a - halfMag(rm));
	if (rm > 0 && std::fabs(a - halfMag(rm - 1)) < d) return false;
	if (rm < 0x7bff && std::fabs(a - halfMag(rm + 1)) < d) return false;
	return true;
}
static bool soft_ok_u1(u16 h, u32 g)
{
	bool hs = h >> 15, gs = g >> 31; float x = f_of(g);
	if (hs != gs) return false;
	if ((h & 0x7c00) == 0x7c00) { if (h & 0x3ff) return x != x; return std::isinf(x); }
	return std::isfinite(x) && std::fabs((double)x) == halfMag(h & 0x7fff);
}
// ---- oracle 2: F16C hardware
#ifdef HAVE_F16C
static inline u16 hw_p1(u32 f) { return (u16)_cvtss_sh(f_of(f), _MM_FROUND_TO_NEAREST_INT | _MM_FROUND_NO_EXC); }
static inline u32 hw_u1(u16 h) { return b_of(_cvtsh_ss(h)); }
static bool hw_ok_p1(u32 f, u16 r)
{
	u16 hw = hw_p1(f); float x = f_of(f);
	if (x != x) return (r & 0x7c00) == 0x7c00 && (r & 0x3ff) != 0 && (r >> 15) == (hw >> 15);
	if ((hw & 0x7fff) == 0x7c00) return r == hw;                 // overflow / infinity: no choice
	if ((r >> 15) != (hw >> 15) || (r & 0x7c00) == 0x7c00) return false;
	double a = (double)x;                                         // as near as the hardware's (a nearest) result
	return std::fabs(a - (double)f_of(hw_u1(r))) == std::fabs(a - (double)f_of(hw_u1(hw)));
}
static bool hw_ok_u1(u16 h, u32 g)
{
	u32 hw = hw_u1(h);
	if ((h & 0x7c00) == 0x7c00 && (h & 0x3ff)) return (g | 0x00400000u) == hw;   // hardware quiets a signalling NaN, payload otherwise kept
	return g == hw;
}
static const int have_f16c = 1;
#else
static bool hw_ok_p1(u32, u16) { return true; }
static bool hw_ok_u1(u16, u32) { return true; }
static u16 hw_p1(u32) { return 0; }
static u32 hw_u1(u16) { return 0; }
static const int have_f16c = 0;
#endif

static u64 n_eval = 0, n_specfail = 0, n_hwdiff = 0;
static void check_p1(u32 f, u16 r)
{
	++n_eval;
	bool s = soft_ok_p1(f, r), h = hw_ok_p1(f, r);
	if (have_f16c && r != hw_p1(f)) ++n_hwdiff;
	if (!(s && h)) { if (++n_specfail <= 20) printf("SPECFAIL p1 %u -> %u oracle=%s hw=%u\n", f, (unsigned)r, !s ? "soft" : "f16c", (unsigned)hw_p1(f)); }
}
static void check_u1(u16 h, u32 g)
{
	++n_eval;
	bool s = soft_ok_u1(h, g), w = hw_ok_u1(h, g);
	if (!(s && w)) { if (++n_specfail <= 20) printf("SPECFAIL u1 %u -> %u oracle=%s hw=%u\n", (unsigned)h, g, !s ? "soft" : "f16c", hw_u1(h)); }
}


// ---- wrappers: print the line, check every component against the oracles (a failure is reported for the wrapper with all its arguments)
static void wrap_check(const char* line, bool pack, int n, const u32* fl, const u16* hf)
{
	bool s = true, h = true;
	for (int c = 0; c < n; ++c) { ++n_eval; if (pack) { s = s && soft_ok_p1(fl[c], hf[c]); h = h && hw_ok_p1(fl[c], hf[c]); } else { s = s && soft_ok_u1(hf[c], fl[c]); h = h && hw_ok_u1(hf[c], fl[c]); } }
	fputs(line, stdout); fputc('\n', stdout);
	if (!(s && h)) { if (++n_specfail <= 20) printf("SPECFAIL %s oracle=%s hw=0\n", line, !s ? "soft" : "f16c"); }
}
static void do_p2(const u32* a)
{
	glm::uint p = glm::packHalf2x16(glm::vec2(f_of(a[0]), f_of(a[1]))); u16 h[2] = { (u16)p, (u16)(p >> 16) };
	char b[256]; snprintf(b, sizeof b, "p2 %u %u -> %u", a[0], a[1], p); wrap_check(b, true, 2, a, h);
}
static void do_u2(u32 v)
{
	glm::vec2 r = glm::unpackHalf2x16(v); u16 h[2] = { (u16)v, (u16)(v >> 16) }; u32 f[2] = { b_of(r.x), b_of(r.y) };
	char b[256]; snprintf(b, sizeof b, "u2 %u -> %u %u", v, f[0], f[1]); wrap_check(b, false, 2, f, h);
}
static void do_p4(const u32* a)
{
	glm::uint64 p = glm::packHalf4x16(glm::vec4(f_of(a[0]), f_of(a[1]), f_of(a[2]), f_of(a[3]))); u16 h[4] = { (u16)p, (u16)(p >> 16), (u16)(p >> 32), (u16)(p >> 48) };
	char b[256]; snprintf(b, sizeof b, "p4 %u %u %u %u -> %llu", a[0], a[1], a[2], a[3], (unsigned long long)p); wrap_check(b, true, 4, a, h);
}
static void do_u4(u64 v)
{
	glm::vec4 r = glm::unpackHalf4x16(v); u16 h[4] = { (u16)v, (u16)(v >> 16), (u16)(v >> 32), (u16)(v >> 48) }; u32 f[4] = { b_of(r.x), b_of(r.y), b_of(r.z), b_of(r.w) };
	char b[256]; snprintf(b, sizeof b, "u4 %llu -> %u %u %u %u", (unsigned long long)v, f[0], f[1], f[2], f[3]); wrap_check(b, false, 4, f, h);
}
template<int L> static void pvL(const u32* a, u16* h) { glm::vec<L, float, glm::defaultp> v; for (int c = 0; c < L; ++c) v[c] = f_of(a[c]); glm::vec<L, glm::uint16, glm::defaultp> p = glm::packHalf(v); for (int c = 0; c < L; ++c) h[c] = p[c]; }
template<int L> static void uvL(const u16* q, u32* f) { glm::vec<L, glm::uint16, glm::defaultp> v; for (int c = 0; c < L; ++c) v[c] = q[c]; glm::vec<L, float, glm::defaultp> r = glm::unpackHalf(v); for (int c = 0; c < L; ++c) f[c] = b_of(r[c]); }
static void do_pv(int n, const u32* a)
{
	u16 h[4]; if (n == 1) pvL<1>(a, h); else if (n == 2) pvL<2>(a, h); else if (n == 3) pvL<3>(a, h); else pvL<4>(a, h);
	std::string l = "pv"; for (int c = 0; c < n; ++c) l += " " + std::to_string(a[c]); l += " ->"; for (int c = 0; c < n; ++c) l += " " + std::to_string((unsigned)h[c]);
	wrap_check(l.c_str(), true, n, a, h);
}
static void do_uv(int n, const u16* q)
{
	u32 f[4]; if (n == 1) uvL<1>(q, f); else if (n == 2) uvL<2>(q, f); else if (n == 3) uvL<3>(q, f); else uvL<4>(q, f);
	std::string l = "uv"; for (int c = 0; c < n; ++c) l += " " + std::to_string((unsigned)q[c]); l += " ->"; for (int c = 0; c < n; ++c) l += " " + std::to_string(f[c]);
	wrap_check(l.c_str(), false, n, f, q);
}

static const u64 FNV0 = 0xcbf29ce484222325ull, FNVP = 0x100000001b3ull;
static const u32 LATLOW[5] = { 0, 0x0FFF, 0x1000, 0x1001, 0x1FFF };

static u64 sweep_block(u32 k, bool lines)
{
	u64 h = FNV0; u32 base = k << 20;
	for (u32 i = 0; i < (1u << 20); ++i) { u32 f = base + i; u16 r = glm_p1(f); check_p1(f, r); h = (h ^ (u64)r) * FNVP; if (lines) printf("p1 %u -> %u\n", f, (unsigned)r); }
	return h;
}
static u64 lat_block(u32 k, bool lines)
{
	u64 h = FNV0;
	for (u32 p = 0; p < 2048; ++p) for (int l = 0; l < 5; ++l) {
		u32 f = (((k << 11) + p) << 13) | LATLOW[l]; u16 r = glm_p1(f); check_p1(f, r); h = (h ^ (u64)r) * FNVP;
		if (lines) printf("p1 %u -> %u\n", f, (unsigned)r);
	}
	return h;
}

static void line_p1(u32 f) { u16 r = glm_p1(f); check_p1(f, r); printf("p1 %u -> %u\n", f, (unsigned)r); }

// a float drawn from one of several distributions aimed at the branches of toFloat16
static u32 rand_float()
{
	u64 r = rnd(); u32 x = (u32)(r >> 32);
	switch (r & 7) {
	case 0: case 1: return x;                                                     // uniform bits
	case 2: return (x & 0x80000000u) | ((100u + (x >> 8) % 46u) << 23) | (x & 0x7fffffu);           // half range exponents 100..145
	case 3: return (x & 0xffffe000u) | 0x1000u | ((x & 3) == 0 ? (x >> 2 & 1) : 0);               // at / next to a tie
	case 4: return (x & 0x80000000u) | ((102u + (x >> 8) % 12u) << 23) | (x & 0x7fffffu);        // half-subnormal range
	case 5: return (x & 0x80000000u) | (0x477fe000u + (x & 0x3fffu));                            // overflow boundary
	case 6: return (x & 0x80000000u) | (0x32ffe000u + (x & 0x3fffu));                            // underflow boundary
	default: return (x & 0x80000000u) | 0x7f800000u | ((x >> 3 & 1) ? (x & 0x7fffffu) : (x & 0x1fffu)); // inf / NaN incl. payloads below bit 13
	}
}

int main(int argc, char** argv)
{
	std::string mode = argc > 1 ? argv[1] : "";
	static char buf[1 << 16]; setvbuf(stdout, buf, _IOFBF, sizeof buf);
	if (mode == "quick" && argc >= 4) {
		seed(strtoull(argv[2], 0, 10)); u64 nrand = strtoull(argv[3], 0, 10);
		// all 2^16 halves: unpack, the result packed again, and the round trip
		for (u32 h = 0; h < 65536; ++h) {
			u32 g = glm_u1((u16)h); check_u1((u16)h, g); printf("u1 %u -> %u\n", h, g);
			line_p1(g);
			printf("rt %u -> %u\n", h, (unsigned)glm::packHalf1x16(glm::unpackHalf1x16((u16)h)));
		}
		// wrappers
		for (int i = 0; i < 4000; ++i) {
			u32 a[4] = { rand_float(), rand_float(), rand_float(), rand_float() };
			u16 q[4] = { (u16)rnd(), (u16)rnd(), (u16)rnd(), (u16)rnd() };
			do_p2(a); do_u2((u32)q[0] | ((u32)q[1] << 16)); do_p4(a);
			do_u4((u64)q[0] | ((u64)q[1] << 16) | ((u64)q[2] << 32) | ((u64)q[3] << 48));
			for (int n = 1; n <= 4; ++n) { do_pv(n, a); do_uv(n, q); }
		}
		// boundary floats: every exponent with the extreme significands, both signs
		for (u32 e = 0; e < 256; ++e) for (u32 s = 0; s < 2; ++s) {
			static const u32 M[] = { 0, 1, 0x0fff, 0x1000, 0x1001, 0x1fff, 0x2000, 0x3000, 0x3fffff, 0x400000, 0x7fe000, 0x7fefff, 0x7ff000, 0x7ff001, 0x7fffff };
			for (u32 m : M) line_p1((s << 31) | (e << 23) | m);
		}
		for (u64 i = 0; i < nrand; ++i) line_p1(rand_float());
		for (u32 k = 0; k < 256; ++k) printf("LB %u %llu\n", k, (unsigned long long)lat_block(k, false));
	}
	else if (mode == "sweep" && argc >= 4) {
		u32 first = (u32)strtoul(argv[2], 0, 10), n = (u32)strtoul(argv[3], 0, 10);
		for (u32 k = first; k < first + n; ++k) printf("SB %u %llu\n", k, (unsigned long long)sweep_block(k, false));
	}
	else if (mode == "latlines" && argc >= 3) lat_block((u32)strtoul(argv[2], 0, 10), true);
	else if (mode == "blocklines" && argc >= 3) sweep_block((u32)strtoul(argv[2], 0, 10), true);
	else if (mode == "eval" && argc >= 4) {
		std::string op = argv[2]; u32 x = (u32)strtoul(argv[3], 0, 10);
		u32 a[4] = { 0, 0, 0, 0 }; u16 q[4] = { 0, 0, 0, 0 }; int n = argc - 3; if (n > 4) n = 4;
		for (int c = 0; c < n; ++c) { a[c] = (u32)strtoul(argv[3 + c], 0, 10); q[c] = (u16)a[c]; }
		if (op == "p1") { u16 r = glm_p1(x); printf("%u soft_ok=%d f16c_ok=%d f16c=%u\n", (unsigned)r, (int)soft_ok_p1(x, r), (int)hw_ok_p1(x, r), (unsigned)hw_p1(x)); return 0; }
		else if (op == "u1") { u32 g = glm_u1((u16)x); printf("%u soft_ok=%d f16c_ok=%d f16c=%u\n", g, (int)soft_ok_u1((u16)x, g), (int)hw_ok_u1((u16)x, g), hw_u1((u16)x)); return 0; }
		else if (op == "rt") { printf("%u\n", (unsigned)glm::packHalf1x16(glm::unpackHalf1x16((u16)x))); return 0; }
		else if (op == "p2") do_p2(a);
		else if (op == "u2") do_u2(x);
		else if (op == "p4") do_p4(a);
		else if (op == "u4") do_u4(strtoull(argv[3], 0, 10));
		else if (op == "pv") do_pv(n, a);
		else if (op == "uv") do_uv(n, q);
		else return 2;
	}
	else { fprintf(stderr, "usage: quick <seed> <nrandom> | sweep <first> <n> | latlines <k> | blocklines <k> | eval p1|u1 <bits>\n"); return 2; }
	printf("HARNESS evals=%llu specfail=%llu f16c=%d differs_from_f16c=%llu\n", (unsigned long long)n_eval, (unsigned long long)n_specfail, have_f16c, (unsigned long long)n_hwdiff);
	return 0;
}
