// C03: validation of the fake intrinsics (trace/fake_intrin/fake_core.hpp) against the hardware.
//
//   g++ -std=c++17 -O1 -ffp-contract=off -mavx2 -mfma -mpopcnt -I/repo diff/C03_fake_check.cpp -o fake_check ;  ./fake_check <seed> <count>
//
// Every function of fki::isa<ConcPolicy> is run on seeded random + special lanes of every lane class (non-literal float,
// literal float, integer/bit-pattern literal, mask; integer lanes in the two integer modes) and compared with the real
// intrinsic on the materialised bits, lane by lane, bit for bit (two NaNs compare equal; rcp/rsqrt: relative error
// <= 2^-11 on normal numbers).  A fake call may *reject* (ConcFail raised, or a poison lane): that is the "fails
// loudly" side of the contract; rejected calls are counted, their non-poison lanes are still compared.
// Whole intrinsic *sequences* (glm's kernels: mask idioms, sign tricks) are validated separately, on the symbolic
// policy itself: `C03 evalcheck` (trace/units/C03.cpp) replays the real SIMD build's results on the traced trees.
//
// Output: one line per function `CHK <name> tested=.. ok=.. rejected=.. mismatch=..`, then `SUMMARY …`; exit 1 on any mismatch.
#include <immintrin.h>
#include <cstdio>
#include <cstdlib>
#include <cstring>
#include <cstdint>
#include <cmath>
#include <string>
#include <vector>
#include <map>
#include <functional>
#include "../trace/fake_intrin/policy_conc.hpp"

using CP = fki::ConcPolicy;
using FC = fki::isa<CP>;
using W = CP::W;

struct Rng {
  uint64_t s[4];
  explicit Rng(uint64_t seed) { uint64_t z = seed + 0x9E3779B97F4A7C15ull; for (int i = 0; i < 4; ++i) { z += 0x9E3779B97F4A7C15ull; uint64_t x = z; x = (x ^ (x >> 30)) * 0xBF58476D1CE4E5B9ull; x = (x ^ (x >> 27)) * 0x94D049BB133111EBull; s[i] = x ^ (x >> 31); } }
  static uint64_t rotl(uint64_t x, int k) { return (x << k) | (x >> (64 - k)); }
  uint64_t next() { uint64_t r = rotl(s[1] * 5, 7) * 9, t = s[1] << 17; s[2] ^= s[0]; s[3] ^= s[1]; s[1] ^= s[2]; s[0] ^= s[3]; s[2] ^= t; s[3] = rotl(s[3], 45); return r; }
  double unit() { return (next() >> 11) * (1.0 / 9007199254740992.0); }
  uint32_t u32() { return (uint32_t)next(); }
};

static uint32_t fbits(float f) { uint32_t b; std::memcpy(&b, &f, 4); return b; }
static float bfloat(uint32_t b) { float f; std::memcpy(&f, &b, 4); return f; }

static uint32_t gen_float_bits(Rng& r) {
  static const float sp[] = {0.0f, -0.0f, 1.0f, -1.0f, 0.5f, -0.5f, 1.5f, -1.5f, 2.5f, -2.5f, 3.5f, 0.25f, 0.75f, 2.0f, 3.0f, 1e-30f, -1e-30f, 1e30f, -1e30f,
    8388607.5f, 8388608.0f, -8388608.0f, 8388609.0f, 4194304.5f, -4194303.5f, 16777216.0f, 2147483648.0f, 3.4028234e38f, -3.4028234e38f, 1.17549435e-38f, 1e-45f, -1e-45f,
    INFINITY, -INFINITY, NAN, -NAN};
  switch (r.next() % 8) {
    case 0: return fbits((float)((int)(r.next() % 17) - 8));
    case 1: return fbits((float)((int)(r.next() % 33) - 16) * 0.5f);
    case 2: case 3: return fbits((float)(r.unit() * 8.0 - 4.0));
    case 4: { double m = r.unit() * 2 - 1; int e = (int)(r.next() % 61) - 30; return fbits((float)std::ldexp(m, e)); }
    case 5: return fbits(sp[r.next() % (sizeof sp / sizeof sp[0])]);
    case 6: return r.u32();
    default: return fbits((float)(r.unit() * 2000.0 - 1000.0));
  }
}
static uint32_t gen_const_bits(Rng& r) {
  static const uint32_t k[] = {0u, 0xFFFFFFFFu, 0x7FFFFFFFu, 0x80000000u, 0x3F800000u, 0xBF800000u, 0x4B000000u, 0xCB000000u, 0x40000000u, 0x3F000000u, 0x7F800000u,
    0xFF800000u, 0xFF000000u, 0x0000FFFFu, 0x00FF00FFu, 0x0F0F0F0Fu, 0x33333333u, 0x55555555u, 1u, 31u, 32u, 5u, 0x7FFFFFFEu, 0x80000001u};
  unsigned p = r.next() % 10; if (p < 4) return k[r.next() % 4]; return (p == 9) ? r.u32() : k[r.next() % (sizeof k / sizeof k[0])];
}
static uint32_t gen_int_bits(Rng& r) {
  static const uint32_t sp[] = {0u, 1u, 2u, 0x7fu, 0x80u, 0xffu, 0x100u, 0x7fffu, 0x8000u, 0xffffu, 0x10000u, 0x7fffffffu, 0x80000000u, 0x80000001u, 0xfffffffeu, 0xffffffffu, 0x55555555u, 0xaaaaaaaau};
  switch (r.next() % 4) { case 0: return (uint32_t)((int)(r.next() % 33) - 16); case 1: return sp[r.next() % (sizeof sp / sizeof sp[0])]; default: return r.u32(); }
}
// one lane of class `cls` (0..3), for the current mode
//   real mode:     0 non-literal float   1 literal float   2 bit-pattern constant (as _mm_set1_epi32 makes it)   3 mask
//   integer modes: 0 non-literal int     1 literal int / bit-pattern constant       2 mask                       3 literal float
static W gen_lane(Rng& r, int cls) {
  if (CP::mode() == CP::M_R) {
    switch (cls) {
      case 0: return W{gen_float_bits(r), fki::K_REAL, 0};
      case 1: { uint32_t b = gen_float_bits(r); if (fki::nan_bits(b)) b = 0x3F800000u; return W{b, fki::K_REAL, 1}; }
      case 2: return FC::kbits(gen_const_bits(r));
      default: return W{(r.next() & 1) ? 0xFFFFFFFFu : 0u, fki::K_MASK, 0};
    }
  }
  switch (cls) {
    case 0: return W{gen_int_bits(r), fki::K_INT, 0};
    case 1: return FC::kbits((r.next() & 1) ? gen_const_bits(r) : gen_int_bits(r));
    case 2: return W{(r.next() & 1) ? 0xFFFFFFFFu : 0u, fki::K_MASK, 0};
    default: return W{fbits((float)((int)(r.next() % 9) - 4)), fki::K_REAL, 1};
  }
}
static int pick_cls(Rng& r) { static const int w[] = {0, 0, 0, 0, 1, 1, 2, 2, 2, 3, 3}; return w[r.next() % 11]; }
// a register: 3 times out of 4 all lanes of one class (so that a supported class combination is tested on whole
// registers), otherwise classes mixed per lane
static void gen_reg(Rng& r, W* f) { bool uni = r.next() % 4 != 0; int c = pick_cls(r); for (int i = 0; i < 4; ++i) f[i] = gen_lane(r, uni ? c : pick_cls(r)); }
static FC::m128 gen_ps(Rng& r) { FC::m128 a; gen_reg(r, a.f); return a; }
static FC::m128i gen_si(Rng& r) { FC::m128i a; gen_reg(r, a.f); return a; }
// plain non-literal float lanes in a sane range (approximation tests)
static FC::m128 gen_ps_normal(Rng& r) { FC::m128 a; for (int i = 0; i < 4; ++i) { double m = 0.5 + r.unit() * 0.5; int e = (int)(r.next() % 81) - 40; a.f[i] = W{fbits((float)std::ldexp(m, e)), fki::K_REAL, 0}; } return a; }

static __m128 mat(FC::m128 a) { uint32_t b[4]; for (int i = 0; i < 4; ++i) b[i] = a.f[i].b; return _mm_castsi128_ps(_mm_loadu_si128((__m128i const*)b)); }
static __m128i mat(FC::m128i a) { uint32_t b[4]; for (int i = 0; i < 4; ++i) b[i] = a.f[i].b; return _mm_loadu_si128((__m128i const*)b); }
static void unmat(__m128 v, uint32_t* b) { _mm_storeu_si128((__m128i*)b, _mm_castps_si128(v)); }
static void unmat(__m128i v, uint32_t* b) { _mm_storeu_si128((__m128i*)b, v); }

struct Stat { long tested = 0, ok = 0, rejected = 0, mismatch = 0; };
static std::map<std::string, Stat>& stats() { static std::map<std::string, Stat> s; return s; }
static std::vector<std::string>& order() { static std::vector<std::string> o; return o; }
static Stat& stat(std::string const& n) { auto it = stats().find(n); if (it == stats().end()) { order().push_back(n); return stats()[n]; } return it->second; }
static int g_reports = 0;

enum Cmp { EXACT, FLOATS, APPROX };
static bool lane_eq(uint32_t fake, uint32_t real, Cmp c) {
  if (fake == real) return true;
  if (c != EXACT && fki::nan_bits(fake) && fki::nan_bits(real)) return true;
  if (c == APPROX) { double f = bfloat(fake), h = bfloat(real); if (std::isfinite(f) && std::isfinite(h) && f != 0) return std::fabs(h - f) <= std::fabs(f) * (1.0 / 2048.0); }
  return false;
}
template<class FR> static void cmp_lanes(std::string const& name, FR const& fake, uint32_t const* real, Cmp c, std::string const& ctx) {
  Stat& s = stat(name); ++s.tested; bool any_rej = false, bad = false;
  for (int i = 0; i < 4; ++i) {
    if (fake.f[i].k == fki::K_UNDEF) { any_rej = true; continue; }
    if (!lane_eq(fake.f[i].b, real[i], c)) { bad = true; if (g_reports++ < 40) printf("MISMATCH %s lane %d fake=%08x real=%08x %s\n", name.c_str(), i, fake.f[i].b, real[i], ctx.c_str()); }
  }
  if (bad) ++s.mismatch; else if (any_rej) ++s.rejected; else ++s.ok;
}
static void cmp_int(std::string const& name, long long fake, long long real, std::string const& ctx) {
  Stat& s = stat(name); ++s.tested;
  if (fake == real) ++s.ok; else { ++s.mismatch; if (g_reports++ < 40) printf("MISMATCH %s fake=%lld real=%lld %s\n", name.c_str(), fake, real, ctx.c_str()); }
}
static void rejected(std::string const& name) { Stat& s = stat(name); ++s.tested; ++s.rejected; }
static std::string show(FC::m128 a) { char buf[128]; snprintf(buf, sizeof buf, "[%08x/%d%d %08x/%d%d %08x/%d%d %08x/%d%d]", a.f[0].b, a.f[0].k, a.f[0].lit, a.f[1].b, a.f[1].k, a.f[1].lit, a.f[2].b, a.f[2].k, a.f[2].lit, a.f[3].b, a.f[3].k, a.f[3].lit); return buf; }
static std::string show(FC::m128i a) { return show(FC::castsi128_ps(a)); }

// generic runners: FAKE and REAL are callables on (fake regs…) / (real regs…)
template<class A, class FAKE, class REAL> static void run1(std::string const& name, A a, FAKE fk, REAL rl, Cmp c) {
  uint32_t rb[4]; unmat(rl(mat(a)), rb);
  try { auto fr = fk(a); cmp_lanes(name, fr, rb, c, show(a)); } catch (fki::ConcFail const&) { rejected(name); }
}
template<class A, class B, class FAKE, class REAL> static void run2(std::string const& name, A a, B b, FAKE fk, REAL rl, Cmp c) {
  uint32_t rb[4]; unmat(rl(mat(a), mat(b)), rb);
  try { auto fr = fk(a, b); cmp_lanes(name, fr, rb, c, show(a) + show(b)); } catch (fki::ConcFail const&) { rejected(name); }
}
template<class A, class FAKE, class REAL> static void run3(std::string const& name, A a, A b, A d, FAKE fk, REAL rl, Cmp c) {
  uint32_t rb[4]; unmat(rl(mat(a), mat(b), mat(d)), rb);
  try { auto fr = fk(a, b, d); cmp_lanes(name, fr, rb, c, show(a) + show(b) + show(d)); } catch (fki::ConcFail const&) { rejected(name); }
}
template<class A, class FAKE, class REAL> static void runi1(std::string const& name, A a, FAKE fk, REAL rl) {
  long long r = rl(mat(a));
  try { long long f = fk(a); cmp_int(name, f, r, show(a)); } catch (fki::ConcFail const&) { rejected(name); }
}
template<class A, class FAKE, class REAL> static void runi2(std::string const& name, A a, A b, FAKE fk, REAL rl) {
  long long r = rl(mat(a), mat(b));
  try { long long f = fk(a, b); cmp_int(name, f, r, show(a) + show(b)); } catch (fki::ConcFail const&) { rejected(name); }
}

#define C1(n) case (n): return OP(n);
#define C4(n) C1(n) C1(n + 1) C1(n + 2) C1(n + 3)
#define C16(n) C4(n) C4(n + 4) C4(n + 8) C4(n + 12)
#define C64(n) C16(n) C16(n + 16) C16(n + 32) C16(n + 48)
#define C256 C64(0) C64(64) C64(128) C64(192)
#define OP(n) _mm_shuffle_ps(a, b, n)
static __m128 real_shuffle_ps(__m128 a, __m128 b, int imm) { switch (imm) { C256 } return a; }
#undef OP
#define OP(n) _mm_permute_ps(a, n)
static __m128 real_permute_ps(__m128 a, int imm) { switch (imm) { C256 } return a; }
#undef OP
#define OP(n) _mm_dp_ps(a, b, n)
static __m128 real_dp_ps(__m128 a, __m128 b, int imm) { switch (imm) { C256 } return a; }
#undef OP
#define OP(n) _mm_blend_ps(a, b, n)
static __m128 real_blend_ps(__m128 a, __m128 b, int imm) { switch (imm) { C16(0) } return a; }
#undef OP
#define OP(n) _mm_round_ps(a, n)
static __m128 real_round_ps(__m128 a, int imm) { switch (imm) { C16(0) } return a; }
#undef OP
#define OP(n) _mm_shuffle_epi32(a, n)
static __m128i real_shuffle_epi32(__m128i a, int imm) { switch (imm) { C256 } return a; }
#undef OP
#define OP(n) _mm_slli_si128(a, n)
static __m128i real_slli_si128(__m128i a, int imm) { switch (imm) { C64(0) } return a; }
#undef OP
#define OP(n) _mm_srli_si128(a, n)
static __m128i real_srli_si128(__m128i a, int imm) { switch (imm) { C64(0) } return a; }
#undef OP
#define OP(n) _mm_shuffle_pd(a, b, n)
static __m128d real_shuffle_pd(__m128d a, __m128d b, int imm) { switch (imm) { C4(0) } return a; }
#undef OP
#define OP(n) _mm256_blend_pd(a, b, n)
static __m256d real_blend_pd(__m256d a, __m256d b, int imm) { switch (imm) { C16(0) } return a; }
#undef OP
#define OP(n) _mm256_permute_pd(a, n)
static __m256d real_permute_pd(__m256d a, int imm) { switch (imm) { C16(0) } return a; }
#undef OP
#define OP(n) _mm256_permute4x64_pd(a, n)
static __m256d real_permute4x64_pd(__m256d a, int imm) { switch (imm) { C256 } return a; }
#undef OP
#define OP(n) _mm256_permute2f128_pd(a, b, n)
static __m256d real_permute2f128_pd(__m256d a, __m256d b, int imm) { switch (imm) { C256 } return a; }
#undef OP

static void test_float_regs(Rng& r, int count) {
  CP::mode() = CP::M_R;
  for (int k = 0; k < count; ++k) {
    FC::m128 a = gen_ps(r), b = gen_ps(r), c = gen_ps(r);
#define T2(name, cmp) run2(#name, a, b, [](FC::m128 x, FC::m128 y) { return FC::name(x, y); }, [](__m128 x, __m128 y) { return _mm_##name(x, y); }, cmp);
#define T2S(name, cmp) T2(name##_ps, cmp) T2(name##_ss, cmp)
    T2S(add, FLOATS) T2S(sub, FLOATS) T2S(mul, FLOATS) T2S(div, FLOATS) T2S(min, FLOATS) T2S(max, FLOATS)
    T2S(cmplt, EXACT) T2S(cmple, EXACT) T2S(cmpeq, EXACT) T2S(cmpgt, EXACT) T2S(cmpge, EXACT) T2S(cmpneq, EXACT)
    T2S(cmpnlt, EXACT) T2S(cmpnle, EXACT) T2S(cmpngt, EXACT) T2S(cmpnge, EXACT)
    T2(hadd_ps, FLOATS)
    T2(and_ps, FLOATS) T2(or_ps, FLOATS) T2(xor_ps, FLOATS) T2(andnot_ps, FLOATS)
    T2(unpacklo_ps, EXACT) T2(unpackhi_ps, EXACT) T2(movehl_ps, EXACT) T2(movelh_ps, EXACT) T2(move_ss, EXACT)
#undef T2S
#undef T2
#define T1(name, cmp) run1(#name, a, [](FC::m128 x) { return FC::name(x); }, [](__m128 x) { return _mm_##name(x); }, cmp);
    T1(sqrt_ps, FLOATS) T1(sqrt_ss, FLOATS) T1(floor_ps, FLOATS) T1(ceil_ps, FLOATS) T1(movehdup_ps, EXACT) T1(moveldup_ps, EXACT)
    { FC::m128 n = gen_ps_normal(r); if (k & 1) for (int i = 0; i < 4; ++i) n.f[i].b ^= (r.next() & 1) ? 0x80000000u : 0u;
      run1("rcp_ps", n, [](FC::m128 x) { return FC::rcp_ps(x); }, [](__m128 x) { return _mm_rcp_ps(x); }, APPROX);
      run1("rcp_ss", n, [](FC::m128 x) { return FC::rcp_ss(x); }, [](__m128 x) { return _mm_rcp_ss(x); }, APPROX);
      FC::m128 p = gen_ps_normal(r);
      run1("rsqrt_ps", p, [](FC::m128 x) { return FC::rsqrt_ps(x); }, [](__m128 x) { return _mm_rsqrt_ps(x); }, APPROX);
      run1("rsqrt_ss", p, [](FC::m128 x) { return FC::rsqrt_ss(x); }, [](__m128 x) { return _mm_rsqrt_ss(x); }, APPROX); }
#undef T1
    run3("fmadd_ps", a, b, c, [](FC::m128 x, FC::m128 y, FC::m128 z) { return FC::fmadd_ps(x, y, z); }, [](__m128 x, __m128 y, __m128 z) { return _mm_fmadd_ps(x, y, z); }, FLOATS);
    run3("fmadd_ss", a, b, c, [](FC::m128 x, FC::m128 y, FC::m128 z) { return FC::fmadd_ss(x, y, z); }, [](__m128 x, __m128 y, __m128 z) { return _mm_fmadd_ss(x, y, z); }, FLOATS);
    run3("blendv_ps", a, b, c, [](FC::m128 x, FC::m128 y, FC::m128 z) { return FC::blendv_ps(x, y, z); }, [](__m128 x, __m128 y, __m128 z) { return _mm_blendv_ps(x, y, z); }, EXACT);
    runi1("movemask_ps", a, [](FC::m128 x) { return FC::movemask_ps(x); }, [](__m128 x) { return _mm_movemask_ps(x); });
    { int imm = (int)(r.next() % 256);
      run2("shuffle_ps", a, b, [imm](FC::m128 x, FC::m128 y) { return FC::shuffle_ps(x, y, imm); }, [imm](__m128 x, __m128 y) { return real_shuffle_ps(x, y, imm); }, EXACT);
      run1("permute_ps", a, [imm](FC::m128 x) { return FC::permute_ps(x, imm); }, [imm](__m128 x) { return real_permute_ps(x, imm); }, EXACT);
      run2("dp_ps", a, b, [imm](FC::m128 x, FC::m128 y) { return FC::dp_ps(x, y, imm); }, [imm](__m128 x, __m128 y) { return real_dp_ps(x, y, imm); }, FLOATS);
      run2("dp_ps", a, b, [](FC::m128 x, FC::m128 y) { return FC::dp_ps(x, y, 0xff); }, [](__m128 x, __m128 y) { return real_dp_ps(x, y, 0xff); }, FLOATS);
      int i4 = imm & 15;
      run2("blend_ps", a, b, [i4](FC::m128 x, FC::m128 y) { return FC::blend_ps(x, y, i4); }, [i4](__m128 x, __m128 y) { return real_blend_ps(x, y, i4); }, EXACT);
      int ir = (imm & 3) | ((imm & 16) ? 8 : 0);
      run1("round_ps", a, [ir](FC::m128 x) { return FC::round_ps(x, ir); }, [ir](__m128 x) { return real_round_ps(x, ir); }, FLOATS); }
    // construction / memory
    { CP::R e[4]; for (int i = 0; i < 4; ++i) e[i] = CP::r_of_w(a.f[i]); float ef[4]; for (int i = 0; i < 4; ++i) ef[i] = bfloat(e[i].b);
      uint32_t rb[4];
      unmat(_mm_set_ps(ef[3], ef[2], ef[1], ef[0]), rb); cmp_lanes("set_ps", FC::set_ps(e[3], e[2], e[1], e[0]), rb, EXACT, "");
      unmat(_mm_setr_ps(ef[0], ef[1], ef[2], ef[3]), rb); cmp_lanes("setr_ps", FC::setr_ps(e[0], e[1], e[2], e[3]), rb, EXACT, "");
      unmat(_mm_set1_ps(ef[0]), rb); cmp_lanes("set1_ps", FC::set1_ps(e[0]), rb, EXACT, ""); cmp_lanes("set_ps1", FC::set_ps1(e[0]), rb, EXACT, "");
      unmat(_mm_set_ss(ef[1]), rb); cmp_lanes("set_ss", FC::set_ss(e[1]), rb, EXACT, "");
      unmat(_mm_setzero_ps(), rb); cmp_lanes("setzero_ps", FC::setzero_ps(), rb, EXACT, "");
      unmat(_mm_load_ss(ef + 2), rb); cmp_lanes("load_ss", FC::load_ss(e + 2), rb, EXACT, "");
      unmat(_mm_loadu_ps(ef), rb); cmp_lanes("loadu_ps", FC::loadu_ps(e), rb, EXACT, ""); cmp_lanes("load_ps", FC::load_ps(e), rb, EXACT, "");
      unmat(_mm_load1_ps(ef + 3), rb); cmp_lanes("load1_ps", FC::load1_ps(e + 3), rb, EXACT, "");
      CP::R o[4]; float of[4]; FC::storeu_ps(o, a); _mm_storeu_ps(of, mat(a)); for (int i = 0; i < 4; ++i) cmp_int("storeu_ps", o[i].b, fbits(of[i]), "");
      FC::store_ss(o, b); _mm_store_ss(of, mat(b)); cmp_int("store_ss", o[0].b, fbits(of[0]), ""); cmp_int("store_ss", o[1].b, fbits(of[1]), "");
      cmp_int("cvtss_f32", FC::cvtss_f32(c).b, fbits(_mm_cvtss_f32(mat(c))), "");
      // float register viewed as two doubles, low one stored (glm: aligned vec3 -> packed vec3)
      double dm; FC::store_sd(&dm, FC::castps_pd(a)); double dr; _mm_store_sd(&dr, _mm_castps_pd(mat(a)));
      uint32_t lo[2]; uint32_t lr[2]; std::memcpy(lo, &dm, 8); std::memcpy(lr, &dr, 8);
      // the fake double register holds raw bytes of the lanes' handles: for the concrete policy a lane is 8 bytes wide,
      // so this only checks what can be checked generically: casts round-trip
      FC::m128 back = FC::castpd_ps(FC::castps_pd(a)); unmat(mat(a), rb); if (sizeof(FC::m128d) >= sizeof(FC::m128)) cmp_lanes("castps_pd/castpd_ps", back, rb, EXACT, "");
      (void)lo; (void)lr; }
  }
}

static void test_int_regs(Rng& r, int count, CP::Mode mode) {
  CP::mode() = mode;
  std::string sfx = mode == CP::M_I32 ? "" : (mode == CP::M_U32 ? "[u]" : "[r]");
  for (int k = 0; k < count; ++k) {
    FC::m128i a = gen_si(r), b = gen_si(r);
#define T2(name) run2(#name + sfx, a, b, [](FC::m128i x, FC::m128i y) { return FC::name(x, y); }, [](__m128i x, __m128i y) { return _mm_##name(x, y); }, EXACT);
    T2(add_epi32) T2(sub_epi32) T2(mullo_epi32) T2(mul_epu32) T2(cmpeq_epi32) T2(cmplt_epi32) T2(cmpgt_epi32)
    T2(min_epi32) T2(max_epi32) T2(min_epu32) T2(max_epu32) T2(sign_epi32)
    T2(and_si128) T2(or_si128) T2(xor_si128) T2(andnot_si128)
    T2(unpacklo_epi32) T2(unpackhi_epi32) T2(unpacklo_epi64) T2(unpackhi_epi64)
#undef T2
    // shifts by a count register: the count must be a constant; use small counts most of the time
    { int n = (int)(r.next() % 40); if (r.next() % 8 == 0) n = (int)r.u32();
      FC::m128i cnt = FC::cvtsi32_si128(n); if (r.next() % 8 == 0) cnt = FC::set_epi32(0, 0, 1, n);
#define TS(name) run2(#name + sfx, a, cnt, [](FC::m128i x, FC::m128i y) { return FC::name(x, y); }, [](__m128i x, __m128i y) { return _mm_##name(x, y); }, EXACT);
      TS(sll_epi32) TS(srl_epi32) TS(sra_epi32) TS(sll_epi64) TS(srl_epi64)
#undef TS
      int m = (int)(r.next() % 36) - 1; if (m < 0) m = 255;
#define TI(name) run1(#name + sfx, a, [m](FC::m128i x) { return FC::name(x, m); }, [m](__m128i x) { return _mm_##name(x, m); }, EXACT);
      TI(slli_epi32) TI(srli_epi32) TI(srai_epi32)
#undef TI
      int m6 = (int)(r.next() % 66);
      run1("slli_epi64" + sfx, a, [m6](FC::m128i x) { return FC::slli_epi64(x, m6); }, [m6](__m128i x) { return _mm_slli_epi64(x, m6); }, EXACT);
      run1("srli_epi64" + sfx, a, [m6](FC::m128i x) { return FC::srli_epi64(x, m6); }, [m6](__m128i x) { return _mm_srli_epi64(x, m6); }, EXACT);
      int by = (int)(r.next() % 18);
      run1("slli_si128" + sfx, a, [by](FC::m128i x) { return FC::slli_si128(x, by); }, [by](__m128i x) { return real_slli_si128(x, by); }, EXACT);
      run1("srli_si128" + sfx, a, [by](FC::m128i x) { return FC::srli_si128(x, by); }, [by](__m128i x) { return real_srli_si128(x, by); }, EXACT);
      int imm = (int)(r.next() % 256);
      run1("shuffle_epi32" + sfx, a, [imm](FC::m128i x) { return FC::shuffle_epi32(x, imm); }, [imm](__m128i x) { return real_shuffle_epi32(x, imm); }, EXACT); }
    runi2("test_all_zeros" + sfx, a, b, [](FC::m128i x, FC::m128i y) { return FC::test_all_zeros(x, y); }, [](__m128i x, __m128i y) { return _mm_test_all_zeros(x, y); });
    runi2("testz_si128" + sfx, a, b, [](FC::m128i x, FC::m128i y) { return FC::testz_si128(x, y); }, [](__m128i x, __m128i y) { return _mm_testz_si128(x, y); });
    runi1("movemask_epi8" + sfx, a, [](FC::m128i x) { return FC::movemask_epi8(x); }, [](__m128i x) { return _mm_movemask_epi8(x); });
    runi1("cvtsi128_si32" + sfx, a, [](FC::m128i x) { return FC::cvtsi128_si32(x); }, [](__m128i x) { return _mm_cvtsi128_si32(x); });
    run1("cvtepi32_ps" + sfx, a, [](FC::m128i x) { return FC::cvtepi32_ps(x); }, [](__m128i x) { return _mm_cvtepi32_ps(x); }, EXACT);
    { int e0 = (int)gen_int_bits(r), e1 = (int)gen_const_bits(r), e2 = (int)gen_int_bits(r), e3 = (int)gen_const_bits(r); uint32_t rb[4];
      unmat(_mm_set_epi32(e3, e2, e1, e0), rb); cmp_lanes("set_epi32" + sfx, FC::set_epi32(e3, e2, e1, e0), rb, EXACT, "");
      unmat(_mm_setr_epi32(e0, e1, e2, e3), rb); cmp_lanes("setr_epi32" + sfx, FC::setr_epi32(e0, e1, e2, e3), rb, EXACT, "");
      unmat(_mm_set1_epi32(e1), rb); cmp_lanes("set1_epi32" + sfx, FC::set1_epi32(e1), rb, EXACT, "");
      long long q = ((long long)e3 << 32) ^ (long long)(uint32_t)e0;
      unmat(_mm_set1_epi64x(q), rb); cmp_lanes("set1_epi64x" + sfx, FC::set1_epi64x(q), rb, EXACT, "");
      unmat(_mm_cvtsi32_si128(e0), rb); cmp_lanes("cvtsi32_si128" + sfx, FC::cvtsi32_si128(e0), rb, EXACT, "");
      unmat(_mm_setzero_si128(), rb); cmp_lanes("setzero_si128" + sfx, FC::setzero_si128(), rb, EXACT, ""); }
  }
}

static uint64_t dbits(double d) { uint64_t b; std::memcpy(&b, &d, 8); return b; }
static void cmp_pd(std::string const& name, double const* f, double const* h, int n) {
  Stat& s = stat(name); ++s.tested; bool bad = false;
  for (int i = 0; i < n; ++i) if (dbits(f[i]) != dbits(h[i]) && !(std::isnan(f[i]) && std::isnan(h[i]))) bad = true;
  if (bad) { ++s.mismatch; if (g_reports++ < 40) printf("MISMATCH %s\n", name.c_str()); } else ++s.ok;
}
static void test_double_regs(Rng& r, int count) {
  auto gd = [&]() { switch (r.next() % 4) { case 0: return (double)((int)(r.next() % 17) - 8); case 1: return r.unit() * 8 - 4; case 2: return std::ldexp(r.unit() * 2 - 1, (int)(r.next() % 200) - 100); default: { static const double sp[] = {0.0, -0.0, 1.0, INFINITY, -INFINITY, NAN, 1e-310, 1e308}; return sp[r.next() % 8]; } } };
  for (int k = 0; k < count; ++k) {
    double x[4] = {gd(), gd(), gd(), gd()}, y[4] = {gd(), gd(), gd(), gd()}, f[4], h[4];
    FC::m128d a = FC::setr_pd(x[0], x[1]), b = FC::setr_pd(y[0], y[1]); __m128d ra = _mm_setr_pd(x[0], x[1]), rb = _mm_setr_pd(y[0], y[1]);
    FC::m256d A = FC::setr_pd256(x[0], x[1], x[2], x[3]), B = FC::setr_pd256(y[0], y[1], y[2], y[3]); __m256d RA = _mm256_setr_pd(x[0], x[1], x[2], x[3]), RB = _mm256_setr_pd(y[0], y[1], y[2], y[3]);
#define P2(name, fake, real) { FC::storeu_pd(f, fake); _mm_storeu_pd(h, real); cmp_pd(name, f, h, 2); }
#define P4(name, fake, real) { FC::storeu_pd256(f, fake); _mm256_storeu_pd(h, real); cmp_pd(name, f, h, 4); }
    P2("setr_pd", a, ra) P2("set_pd", FC::set_pd(x[1], x[0]), _mm_set_pd(x[1], x[0])) P2("set1_pd", FC::set1_pd(x[2]), _mm_set1_pd(x[2])) P2("setzero_pd", FC::setzero_pd(), _mm_setzero_pd())
    P2("loadu_pd", FC::loadu_pd(y + 1), _mm_loadu_pd(y + 1))
    P2("add_pd", FC::add_pd(a, b), _mm_add_pd(ra, rb)) P2("sub_pd", FC::sub_pd(a, b), _mm_sub_pd(ra, rb)) P2("mul_pd", FC::mul_pd(a, b), _mm_mul_pd(ra, rb)) P2("div_pd", FC::div_pd(a, b), _mm_div_pd(ra, rb))
    { int imm = (int)(r.next() % 4); P2("shuffle_pd", FC::shuffle_pd(a, b, imm), real_shuffle_pd(ra, rb, imm)) }
    { double sf = 7, sh = 7; FC::store_sd(&sf, b); _mm_store_sd(&sh, rb); cmp_pd("store_sd", &sf, &sh, 1); }
    P4("setr_pd256", A, RA) P4("set_pd256", FC::set_pd256(x[3], x[2], x[1], x[0]), _mm256_set_pd(x[3], x[2], x[1], x[0])) P4("set1_pd256", FC::set1_pd256(x[1]), _mm256_set1_pd(x[1])) P4("setzero_pd256", FC::setzero_pd256(), _mm256_setzero_pd())
    P4("loadu_pd256", FC::loadu_pd256(y), _mm256_loadu_pd(y))
    { double z[4] = {gd(), gd(), gd(), gd()}; P4("fmadd_pd256", FC::fmadd_pd256(A, B, FC::setr_pd256(z[0], z[1], z[2], z[3])), _mm256_fmadd_pd(RA, RB, _mm256_setr_pd(z[0], z[1], z[2], z[3]))) }
    P4("add_pd256", FC::add_pd256(A, B), _mm256_add_pd(RA, RB)) P4("sub_pd256", FC::sub_pd256(A, B), _mm256_sub_pd(RA, RB)) P4("mul_pd256", FC::mul_pd256(A, B), _mm256_mul_pd(RA, RB)) P4("div_pd256", FC::div_pd256(A, B), _mm256_div_pd(RA, RB))
    { int imm = (int)(r.next() % 256);
      P4("blend_pd256", FC::blend_pd256(A, B, imm & 15), real_blend_pd(RA, RB, imm & 15)) P4("permute_pd256", FC::permute_pd256(A, imm & 15), real_permute_pd(RA, imm & 15))
      P4("permute4x64_pd", FC::permute4x64_pd(A, imm), real_permute4x64_pd(RA, imm)) P4("permute2f128_pd", FC::permute2f128_pd(A, B, imm), real_permute2f128_pd(RA, RB, imm))
      P2("extractf128_pd", FC::extractf128_pd(A, imm & 1), (imm & 1) ? _mm256_extractf128_pd(RA, 1) : _mm256_extractf128_pd(RA, 0)) }
    P2("castpd256_pd128", FC::castpd256_pd128(B), _mm256_castpd256_pd128(RB))
    { long long q = (long long)r.next(); int w = (int)r.u32(); FC::m256i u = FC::set1_epi64x256(q), v = FC::set1_epi32_256(w); __m256i ru = _mm256_set1_epi64x(q), rv = _mm256_set1_epi32(w);
      uint64_t ff[4], hh[4];
#define Q4(name, fake, real) { FC::m256i t = fake; std::memcpy(ff, &t, 32); _mm256_storeu_si256((__m256i*)hh, real); Stat& s = stat(name); ++s.tested; if (std::memcmp(ff, hh, 32)) ++s.mismatch; else ++s.ok; }
      Q4("set1_epi64x256", u, ru) Q4("set1_epi32_256", v, rv) Q4("and_si256", FC::and_si256(u, v), _mm256_and_si256(ru, rv)) Q4("or_si256", FC::or_si256(u, v), _mm256_or_si256(ru, rv)) Q4("xor_si256", FC::xor_si256(u, v), _mm256_xor_si256(ru, rv)) }
  }
}

int main(int argc, char** argv) {
  uint64_t seed = argc > 1 ? strtoull(argv[1], 0, 10) : 1; int count = argc > 2 ? atoi(argv[2]) : 20000;
  Rng r(seed);
  test_float_regs(r, count);
  test_int_regs(r, count, CP::M_I32);
  test_int_regs(r, count, CP::M_U32);
  test_int_regs(r, count / 4, CP::M_R);
  test_double_regs(r, count / 4);
  long tested = 0, ok = 0, rej = 0, mis = 0;
  for (auto const& n : order()) { Stat const& s = stats()[n]; printf("CHK %s tested=%ld ok=%ld rejected=%ld mismatch=%ld\n", n.c_str(), s.tested, s.ok, s.rejected, s.mismatch); tested += s.tested; ok += s.ok; rej += s.rejected; mis += s.mismatch; }
  printf("SUMMARY functions=%d tested=%ld ok=%ld rejected=%ld mismatch=%ld seed=%llu\n", (int)order().size(), tested, ok, rej, mis, (unsigned long long)seed);
  return mis ? 1 : 0;
}
