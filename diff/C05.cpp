// C05 differential harness: calls the REAL glm integer functions (include path given by checks/c05.py: -I<repo>)
// and prints one line per evaluation
//     <fn> <form> <ty> <a0> <a1> <a2> <a3> <r0> <r1>
// fn   bitCount findLSB findMSB bitfieldReverse bitfieldExtract bitfieldInsert uaddCarry usubBorrow umulExtended imulExtended
// form s (scalar overload) | v1..v4 (one line per component of the vec<L,T> overload)
// ty   u8 i8 u16 i16 u32 i32 u64 i64
// a*   raw bits of the arguments, zero-extended, decimal (offset / bits as plain non-negative ints); unused = 0
// r*   raw bits of the results (int results as 32-bit two's complement); r1 = carry / borrow / lsb (r0 = msb)
// Modes:
//   lines <quick|medium|thorough> <seed>     the line protocol on the generated inputs (this file owns input generation)
//   sweep <name> [args]                exhaustive sweeps, one `BLOCK <idx> <hash>` per block (hash folded over the results)
//   block <name> [args] <idx>          the lines of one block of a sweep (used to bisect a differing block)
// Only arguments inside the documented domain are generated (0 <= offset, 0 <= bits, offset + bits <= width).
#include <glm/glm.hpp>
#include <glm/integer.hpp>
#include <cstdio>
#include <cstdint>
#include <cstring>
#include <cstdlib>
#include <string>
#include <vector>
#include <type_traits>

#ifndef C05_ALT_CONFIG
// the build the Lean model describes: generic findLSB/findMSB branches, no SIMD specialisations
static_assert(GLM_HAS_BITSCAN_WINDOWS == 0, "C05 model assumes the generic compute_findLSB / compute_findMSB_vec branches");
static_assert(GLM_CONFIG_SIMD == GLM_DISABLE, "C05 model assumes func_integer_simd.inl is not included");
#endif

typedef uint64_t u64;

// -DC05_NO_NARROW: fallback used by checks/c05.py when this file does not compile otherwise — on a tree without
// fix_bitfieldReverse / fix_bitfieldInsert the 8- and 16-bit instances of these two functions are ill-formed; they are then
// left out (and reported) so that the rest can still be compared.
#ifdef C05_NO_NARROW
template<typename T> struct Narrow { static const bool value = sizeof(T) < 4; };
#else
template<typename T> struct Narrow { static const bool value = false; };
#endif

// ------------------------------------------------------------------ rng (xoshiro256**)
static u64 S[4];
static inline u64 rotl(u64 x, int k) { return (x << k) | (x >> (64 - k)); }
static u64 rnd() {
	u64 r = rotl(S[1] * 5, 7) * 9, t = S[1] << 17;
	S[2] ^= S[0]; S[3] ^= S[1]; S[1] ^= S[2]; S[0] ^= S[3]; S[2] ^= t; S[3] = rotl(S[3], 45);
	return r;
}
static void seed(u64 s) {
	for (int i = 0; i < 4; ++i) { s += 0x9E3779B97F4A7C15ull; u64 z = s; z = (z ^ (z >> 30)) * 0xBF58476D1CE4E5B9ull; z = (z ^ (z >> 27)) * 0x94D049BB133111EBull; S[i] = z ^ (z >> 31); }
}
// random word with a random "shape": uniform, sparse, dense, low bits only
static u64 rndval() {
	u64 r = rnd();
	switch (rnd() & 7) {
	case 0: return r & rnd();
	case 1: return r | rnd();
	case 2: return r >> (rnd() & 63);
	case 3: return r & rnd() & rnd();
	default: return r;
	}
}

// ------------------------------------------------------------------ type tags
template<typename T> struct Tag;
template<> struct Tag<uint8_t>  { static const char* n() { return "u8"; } };
template<> struct Tag<int8_t>   { static const char* n() { return "i8"; } };
template<> struct Tag<uint16_t> { static const char* n() { return "u16"; } };
template<> struct Tag<int16_t>  { static const char* n() { return "i16"; } };
template<> struct Tag<uint32_t> { static const char* n() { return "u32"; } };
template<> struct Tag<int32_t>  { static const char* n() { return "i32"; } };
template<> struct Tag<uint64_t> { static const char* n() { return "u64"; } };
template<> struct Tag<int64_t>  { static const char* n() { return "i64"; } };

template<typename T> static inline u64 raw(T v) { return static_cast<u64>(static_cast<typename std::make_unsigned<T>::type>(v)); }
template<typename T> static inline T val(u64 b) { return static_cast<T>(static_cast<typename std::make_unsigned<T>::type>(b)); }
static inline u64 rawi(int v) { return static_cast<u64>(static_cast<uint32_t>(v)); }

static bool g_hash = false;      // sweep mode: fold instead of print
static u64 g_h = 0;
static inline void fold(u64 r) { g_h = (g_h ^ r) * 0x100000001B3ull + 0x9E3779B97F4A7C15ull; }
static unsigned long long g_lines = 0;

static inline void emit(const char* fn, const char* form, const char* ty, u64 a0, u64 a1, u64 a2, u64 a3, u64 r0, u64 r1) {
	if (g_hash) { fold(r0); fold(r1); return; }
	++g_lines;
	printf("%s %s %s %llu %llu %llu %llu %llu %llu\n", fn, form, ty, (unsigned long long)a0, (unsigned long long)a1, (unsigned long long)a2,
		(unsigned long long)a3, (unsigned long long)r0, (unsigned long long)r1);
}
static const char* FORM[5] = { "s", "v1", "v2", "v3", "v4" };

// ------------------------------------------------------------------ calls into glm (volatile-free: arguments are run-time data)
enum Fn { BITCOUNT, FINDLSB, FINDMSB, REVERSE };
static const char* FN[4] = { "bitCount", "findLSB", "findMSB", "bitfieldReverse" };

template<typename T> static u64 unary_s(int fn, T v) {
	switch (fn) {
	case BITCOUNT: return rawi(glm::bitCount(v));
	case FINDLSB: return rawi(glm::findLSB(v));
	case FINDMSB: return rawi(glm::findMSB(v));
	default: if constexpr (Narrow<T>::value) return 0; else return raw<T>(glm::bitfieldReverse(v));
	}
}
template<int L, typename T> static void unary_v(int fn, const u64* in) {
	glm::vec<L, T> v;
	for (int i = 0; i < L; ++i) v[i] = val<T>(in[i]);
	u64 out[4];
	switch (fn) {
	case BITCOUNT: { glm::vec<L, int> r = glm::bitCount(v); for (int i = 0; i < L; ++i) out[i] = rawi(r[i]); break; }
	case FINDLSB: { glm::vec<L, int> r = glm::findLSB(v); for (int i = 0; i < L; ++i) out[i] = rawi(r[i]); break; }
	case FINDMSB: { glm::vec<L, int> r = glm::findMSB(v); for (int i = 0; i < L; ++i) out[i] = rawi(r[i]); break; }
	default: if constexpr (!Narrow<T>::value) { glm::vec<L, T> r = glm::bitfieldReverse(v); for (int i = 0; i < L; ++i) out[i] = raw<T>(r[i]); } break;
	}
	for (int i = 0; i < L; ++i) emit(FN[fn], FORM[L], Tag<T>::n(), raw<T>(val<T>(in[i])), 0, 0, 0, out[i], 0);
}
template<typename T> static void unary(int fn, int form, const u64* in) {
	if (Narrow<T>::value && fn == REVERSE) return;
	switch (form) {
	case 0: emit(FN[fn], "s", Tag<T>::n(), raw<T>(val<T>(in[0])), 0, 0, 0, unary_s<T>(fn, val<T>(in[0])), 0); break;
	case 1: unary_v<1, T>(fn, in); break;
	case 2: unary_v<2, T>(fn, in); break;
	case 3: unary_v<3, T>(fn, in); break;
	default: unary_v<4, T>(fn, in); break;
	}
}

template<int L, typename T> static void extract_v(const u64* in, int off, int bits) {
	glm::vec<L, T> v;
	for (int i = 0; i < L; ++i) v[i] = val<T>(in[i]);
	glm::vec<L, T> r = glm::bitfieldExtract(v, off, bits);
	for (int i = 0; i < L; ++i) emit("bitfieldExtract", FORM[L], Tag<T>::n(), raw<T>(v[i]), (u64)off, (u64)bits, 0, raw<T>(r[i]), 0);
}
template<typename T> static void extract(int form, const u64* in, int off, int bits) {
	switch (form) {
	case 0: { T v = val<T>(in[0]); emit("bitfieldExtract", "s", Tag<T>::n(), raw<T>(v), (u64)off, (u64)bits, 0, raw<T>(glm::bitfieldExtract(v, off, bits)), 0); break; }
	case 1: extract_v<1, T>(in, off, bits); break;
	case 2: extract_v<2, T>(in, off, bits); break;
	case 3: extract_v<3, T>(in, off, bits); break;
	default: extract_v<4, T>(in, off, bits); break;
	}
}
template<int L, typename T> static void insert_v(const u64* b, const u64* n, int off, int bits) {
	glm::vec<L, T> vb, vn;
	for (int i = 0; i < L; ++i) { vb[i] = val<T>(b[i]); vn[i] = val<T>(n[i]); }
	glm::vec<L, T> r(0);
	if constexpr (!Narrow<T>::value) r = glm::bitfieldInsert(vb, vn, off, bits);
	for (int i = 0; i < L; ++i) emit("bitfieldInsert", FORM[L], Tag<T>::n(), raw<T>(vb[i]), raw<T>(vn[i]), (u64)off, (u64)bits, raw<T>(r[i]), 0);
}
template<typename T> static void insert(int form, const u64* b, const u64* n, int off, int bits) {
	if (Narrow<T>::value) return;
	switch (form) {
	case 0: { T vb = val<T>(b[0]), vn = val<T>(n[0]); T r = 0; if constexpr (!Narrow<T>::value) r = glm::bitfieldInsert(vb, vn, off, bits); emit("bitfieldInsert", "s", Tag<T>::n(), raw<T>(vb), raw<T>(vn), (u64)off, (u64)bits, raw<T>(r), 0); break; }
	case 1: insert_v<1, T>(b, n, off, bits); break;
	case 2: insert_v<2, T>(b, n, off, bits); break;
	case 3: insert_v<3, T>(b, n, off, bits); break;
	default: insert_v<4, T>(b, n, off, bits); break;
	}
}

enum CFn { UADD, USUB, UMUL, IMUL };
static const char* CFN[4] = { "uaddCarry", "usubBorrow", "umulExtended", "imulExtended" };
template<int L> static void carry_v(int fn, const u64* x, const u64* y) {
	if (fn == IMUL) {
		glm::vec<L, int> a, b, m, l;
		for (int i = 0; i < L; ++i) { a[i] = val<int32_t>(x[i]); b[i] = val<int32_t>(y[i]); }
		glm::imulExtended(a, b, m, l);
		for (int i = 0; i < L; ++i) emit(CFN[fn], FORM[L], "i32", rawi(a[i]), rawi(b[i]), 0, 0, rawi(m[i]), rawi(l[i]));
		return;
	}
	glm::vec<L, glm::uint> a, b, r0(0u), r1(0u);
	for (int i = 0; i < L; ++i) { a[i] = (glm::uint)x[i]; b[i] = (glm::uint)y[i]; }
	if (fn == UADD) r0 = glm::uaddCarry(a, b, r1);
	else if (fn == USUB) r0 = glm::usubBorrow(a, b, r1);
	else glm::umulExtended(a, b, r0, r1);
	for (int i = 0; i < L; ++i) emit(CFN[fn], FORM[L], "u32", a[i], b[i], 0, 0, r0[i], r1[i]);
}
static void carry(int fn, int form, const u64* x, const u64* y) {
	if (form == 0) {
		if (fn == IMUL) { int a = val<int32_t>(x[0]), b = val<int32_t>(y[0]), m = 0, l = 0; glm::imulExtended(a, b, m, l); emit(CFN[fn], "s", "i32", rawi(a), rawi(b), 0, 0, rawi(m), rawi(l)); return; }
		glm::uint a = (glm::uint)x[0], b = (glm::uint)y[0], r0 = 0, r1 = 0;
		if (fn == UADD) r0 = glm::uaddCarry(a, b, r1);
		else if (fn == USUB) r0 = glm::usubBorrow(a, b, r1);
		else glm::umulExtended(a, b, r0, r1);
		emit(CFN[fn], "s", "u32", a, b, 0, 0, r0, r1);
		return;
	}
	switch (form) { case 1: carry_v<1>(fn, x, y); break; case 2: carry_v<2>(fn, x, y); break; case 3: carry_v<3>(fn, x, y); break; default: carry_v<4>(fn, x, y); }
}

// ------------------------------------------------------------------ input sets
// structured words of width w: 0, ~0, one-hot, runs of ones, their complements, alternating masks, boundaries
static std::vector<u64> patterns(int w) {
	std::vector<u64> p;
	u64 all = (w == 64) ? ~0ull : ((1ull << w) - 1);
	p.push_back(0); p.push_back(all); p.push_back(1); p.push_back(2); p.push_back(3);
	p.push_back(all >> 1); p.push_back((all >> 1) + 1); p.push_back((all >> 1) + 2); p.push_back(all - 1); p.push_back((all >> 1) - 1);
	p.push_back(all / 3); p.push_back(all / 3 * 2); p.push_back(all / 5); p.push_back(all / 15 * 10); p.push_back(all / 255 * 0x0F); p.push_back(all / 17);
	for (int i = 0; i < w; ++i) { p.push_back(1ull << i); p.push_back(all ^ (1ull << i)); }
	for (int s = 0; s < w; ++s) for (int l = 2; s + l <= w; ++l) {
		u64 run = ((l == 64) ? ~0ull : ((1ull << l) - 1)) << s;
		p.push_back(run); p.push_back(all ^ run);
	}
	return p;
}

static int g_n = 20000;          // random tuples per (function, type): quick 20000, medium 60000, thorough 200000

template<typename T> static void gen_unary() {
	const int w = sizeof(T) * 8;
	u64 in[4];
	for (int fn = 0; fn < 4; ++fn) {
		if (w <= 16) {                                    // exhaustive: every value of the type, scalar overload
			for (u64 v = 0; v < (1ull << w); ++v) { in[0] = v; unary<T>(fn, 0, in); }
			// vector overloads: every value once more, packed into vec1, vec2, vec3, vec4 in turn
			int L = 1;
			for (u64 v = 0; v < (1ull << w); v += L, L = L % 4 + 1) { for (int i = 0; i < L; ++i) in[i] = (v + i) & ((1ull << w) - 1); unary<T>(fn, L, in); }
		} else {
			std::vector<u64> p = patterns(w);
			for (size_t k = 0; k < p.size(); ++k) { in[0] = p[k]; unary<T>(fn, 0, in); }
			for (int L = 1; L <= 4; ++L)
				for (size_t k = 0; k + L <= p.size(); k += L) { for (int i = 0; i < L; ++i) in[i] = p[k + i]; unary<T>(fn, L, in); }
			int n = g_n;
			for (int k = 0; k < n; ++k) { in[0] = rndval(); unary<T>(fn, 0, in); }
			for (int k = 0; k < n / 8; ++k) { int L = 1 + (int)(rnd() & 3); for (int i = 0; i < L; ++i) in[i] = rndval(); unary<T>(fn, L, in); }
		}
	}
}

// structured values for a field (off, bits) of a w-bit word
static void field_values(int w, int off, int bits, std::vector<u64>& out) {
	u64 all = (w == 64) ? ~0ull : ((1ull << w) - 1);
	u64 fld = (bits == 0) ? 0 : (((bits == 64) ? ~0ull : ((1ull << bits) - 1)) << off);
	out.clear();
	out.push_back(0); out.push_back(all); out.push_back(fld); out.push_back(all ^ fld);
	out.push_back(all / 3); out.push_back(all / 3 * 2);
	if (off < w) out.push_back(1ull << off);
	if (off > 0) out.push_back(1ull << (off - 1));
	if (bits > 0) { out.push_back(1ull << (off + bits - 1)); out.push_back(fld ^ (1ull << (off + bits - 1))); }
	if (off + bits < w) out.push_back(1ull << (off + bits));
	out.push_back(rndval() & all); out.push_back(rndval() & all); out.push_back(rndval() & all);
}

template<typename T> static void gen_extract() {
	const int w = sizeof(T) * 8;
	u64 in[4];
	std::vector<u64> vs;
	if (w == 8) {                                          // exhaustive: every value, every (offset, bits)
		for (int off = 0; off <= w; ++off) for (int bits = 0; off + bits <= w; ++bits)
			for (u64 v = 0; v < 256; ++v) { in[0] = v; extract<T>(0, in, off, bits); }
	}
	// (16-bit exhaustive: sweep ext16)
	for (int off = 0; off <= w; ++off) for (int bits = 0; off + bits <= w; ++bits) {
		field_values(w, off, bits, vs);
		for (size_t k = 0; k < vs.size(); ++k) { in[0] = vs[k]; extract<T>(0, in, off, bits); }
		for (int L = 1; L <= 4; ++L) { for (int i = 0; i < L; ++i) in[i] = vs[(i * 3 + L) % vs.size()]; extract<T>(L, in, off, bits); }
	}
	int n = g_n;
	for (int k = 0; k < n; ++k) {
		int off = (int)(rnd() % (w + 1)), bits = (int)(rnd() % (w - off + 1));
		int form = (k & 7) ? 0 : 1 + (int)(rnd() & 3);
		for (int i = 0; i < 4; ++i) in[i] = rndval();
		extract<T>(form, in, off, bits);
	}
}

template<typename T> static void gen_insert() {
	const int w = sizeof(T) * 8;
	u64 b[4], n[4];
	std::vector<u64> vs, ws;
	// (8-bit exhaustive: sweep ins8)
	for (int off = 0; off <= w; ++off) for (int bits = 0; off + bits <= w; ++bits) {
		field_values(w, off, bits, vs);
		field_values(w, 0, bits, ws);
		for (size_t i = 0; i < vs.size(); ++i) for (size_t j = 0; j < ws.size(); j += (w > 16 ? 3 : 1)) { b[0] = vs[i]; n[0] = ws[(j + i) % ws.size()]; insert<T>(0, b, n, off, bits); }
		for (int L = 1; L <= 4; ++L) { for (int i = 0; i < L; ++i) { b[i] = vs[(i * 5 + L) % vs.size()]; n[i] = ws[(i * 3 + 2 * L) % ws.size()]; } insert<T>(L, b, n, off, bits); }
	}
	int cnt = g_n;
	for (int k = 0; k < cnt; ++k) {
		int off = (int)(rnd() % (w + 1)), bits = (int)(rnd() % (w - off + 1));
		int form = (k & 7) ? 0 : 1 + (int)(rnd() & 3);
		for (int i = 0; i < 4; ++i) { b[i] = rndval(); n[i] = rndval(); }
		insert<T>(form, b, n, off, bits);
	}
}

static void gen_carry() {
	std::vector<u64> lat;
	const u64 base[] = { 0, 1, 2, 3, 15, 16, 17, 0xFFFF, 0x10000, 0x10001, 0x7FFFFFFE, 0x7FFFFFFF, 0x80000000, 0x80000001, 0xFFFFFFFE, 0xFFFFFFFF, 0x55555555, 0xAAAAAAAA, 0xB504F333, 0xB504F334 };
	for (size_t i = 0; i < sizeof(base) / sizeof(base[0]); ++i) lat.push_back(base[i]);
	for (int i = 2; i < 32; i += 3) { lat.push_back(1ull << i); lat.push_back((1ull << i) - 1); lat.push_back(0xFFFFFFFFull ^ ((1ull << i) - 1)); }
	u64 x[4], y[4];
	for (int fn = 0; fn < 4; ++fn) {
		for (size_t i = 0; i < lat.size(); ++i) for (size_t j = 0; j < lat.size(); ++j) { x[0] = lat[i]; y[0] = lat[j]; carry(fn, 0, x, y); }
		for (int L = 1; L <= 4; ++L)
			for (size_t i = 0; i + L <= lat.size(); i += L) for (size_t j = 0; j < lat.size(); j += 2) {
				for (int k = 0; k < L; ++k) { x[k] = lat[i + k]; y[k] = lat[(j + 7 * k) % lat.size()]; }
				carry(fn, L, x, y);
			}
		int n = g_n;
		for (int k = 0; k < n; ++k) {
			int form = (k & 3) ? 0 : 1 + (int)(rnd() & 3);
			for (int i = 0; i < 4; ++i) {
				x[i] = rndval() & 0xFFFFFFFFull; y[i] = rndval() & 0xFFFFFFFFull;
				if ((rnd() & 15) == 0) y[i] = (0x100000000ull - x[i] + (rnd() % 3) - 1) & 0xFFFFFFFFull;   // sums next to 2^32
				if ((rnd() & 15) == 0) y[i] = (x[i] + (rnd() % 3) - 1) & 0xFFFFFFFFull;                     // differences next to 0
			}
			carry(fn, form, x, y);
		}
	}
}

// ------------------------------------------------------------------ sweeps
template<typename T> static void sweep_ext16(long only) {        // block = one (offset, bits) pair, all 65536 values
	u64 in[4]; long idx = 0;
	for (int off = 0; off <= 16; ++off) for (int bits = 0; off + bits <= 16; ++bits, ++idx) {
		if (only >= 0 && idx != only) continue;
		g_h = 0;
		for (u64 v = 0; v < 65536; ++v) { in[0] = v; extract<T>(0, in, off, bits); }
		if (g_hash) printf("BLOCK %ld %llu\n", idx, (unsigned long long)g_h);
	}
}
template<typename T> static void sweep_ins8(long only) {         // block = one (offset, bits) pair, all 256 x 256 (base, insert)
	u64 b[4], n[4]; long idx = 0;
	for (int off = 0; off <= 8; ++off) for (int bits = 0; off + bits <= 8; ++bits, ++idx) {
		if (only >= 0 && idx != only) continue;
		if (Narrow<T>::value) continue;
		g_h = 0;
		for (u64 x = 0; x < 256; ++x) for (u64 y = 0; y < 256; ++y) { b[0] = x; n[0] = y; insert<T>(0, b, n, off, bits); }
		if (g_hash) printf("BLOCK %ld %llu\n", idx, (unsigned long long)g_h);
	}
}
template<typename T> static void sweep_un32(int fn, long only) { // block = 2^20 consecutive values
	u64 in[4];
	for (long blk = 0; blk < 4096; ++blk) {
		if (only >= 0 && blk != only) continue;
		g_h = 0;
		u64 lo = (u64)blk << 20;
		if (g_hash) { for (u64 v = lo; v < lo + (1u << 20); ++v) { fold(unary_s<T>(fn, val<T>(v))); fold(0); } printf("BLOCK %ld %llu\n", blk, (unsigned long long)g_h); }
		else for (u64 v = lo; v < lo + (1u << 20); ++v) { in[0] = v; unary<T>(fn, 0, in); }
	}
}
static int fn_index(const char* s) { for (int i = 0; i < 4; ++i) if (!strcmp(s, FN[i])) return i; return -1; }

static int run_sweep(int argc, char** argv, bool hash) {
	// sweep ext16 <u|i> | ins8 <u|i> | un32 <fn> <u|i>      (+ block index when !hash)
	g_hash = hash;
	std::string name = argv[2];
	int k = 3;
	int fn = -1;
	if (name == "un32") { fn = fn_index(argv[k++]); if (fn < 0) return 2; }
	bool sgn = argv[k++][0] == 'i';
	long only = hash ? -1 : atol(argv[k]);
	if (name == "ext16") { if (sgn) sweep_ext16<int16_t>(only); else sweep_ext16<uint16_t>(only); }
	else if (name == "ins8") { if (sgn) sweep_ins8<int8_t>(only); else sweep_ins8<uint8_t>(only); }
	else if (name == "un32") { if (sgn) sweep_un32<int32_t>(fn, only); else sweep_un32<uint32_t>(fn, only); }
	else return 2;
	return 0;
}

int main(int argc, char** argv) {
	if (argc < 2) return 2;
	std::string mode = argv[1];
	static char buf[1 << 20];
	setvbuf(stdout, buf, _IOFBF, sizeof buf);
	if (mode == "lines" && argc >= 4) {
		g_n = !strcmp(argv[2], "thorough") ? 200000 : !strcmp(argv[2], "medium") ? 60000 : 20000;
		seed(strtoull(argv[3], 0, 10) * 0x2545F4914F6CDD1Dull + 5);
		gen_unary<uint8_t>(); gen_unary<int8_t>(); gen_unary<uint16_t>(); gen_unary<int16_t>();
		gen_unary<uint32_t>(); gen_unary<int32_t>(); gen_unary<uint64_t>(); gen_unary<int64_t>();
		gen_extract<uint8_t>(); gen_extract<int8_t>(); gen_extract<uint16_t>(); gen_extract<int16_t>();
		gen_extract<uint32_t>(); gen_extract<int32_t>(); gen_extract<uint64_t>(); gen_extract<int64_t>();
		gen_insert<uint8_t>(); gen_insert<int8_t>(); gen_insert<uint16_t>(); gen_insert<int16_t>();
		gen_insert<uint32_t>(); gen_insert<int32_t>(); gen_insert<uint64_t>(); gen_insert<int64_t>();
		gen_carry();
		fflush(stdout);
		fprintf(stderr, "LINES %llu\n", g_lines);
		return 0;
	}
	if (mode == "sweep" && argc >= 4) return run_sweep(argc, argv, true);
	if (mode == "block" && argc >= 5) return run_sweep(argc, argv, false);
	if (mode == "one" && argc >= 9) {      // replay: one <fn> <form> <ty> a0 a1 a2 a3  (form s only)
		std::string fn = argv[2], ty = argv[4];
		u64 a[4]; for (int i = 0; i < 4; ++i) a[i] = strtoull(argv[5 + i], 0, 10);
		u64 b[4] = { a[1], 0, 0, 0 };
		int f = fn_index(fn.c_str());
#define DISPATCH(CALL) \
		if (ty == "u8") { typedef uint8_t T; CALL; } else if (ty == "i8") { typedef int8_t T; CALL; } else if (ty == "u16") { typedef uint16_t T; CALL; } \
		else if (ty == "i16") { typedef int16_t T; CALL; } else if (ty == "u32") { typedef uint32_t T; CALL; } else if (ty == "i32") { typedef int32_t T; CALL; } \
		else if (ty == "u64") { typedef uint64_t T; CALL; } else if (ty == "i64") { typedef int64_t T; CALL; }
		if (f >= 0) { DISPATCH(unary<T>(f, 0, a)) }
		else if (fn == "bitfieldExtract") { DISPATCH(extract<T>(0, a, (int)a[1], (int)a[2])) }
		else if (fn == "bitfieldInsert") { DISPATCH(insert<T>(0, a, b, (int)a[2], (int)a[3])) }
		else { for (int c = 0; c < 4; ++c) if (fn == CFN[c]) carry(c, 0, a, b); }
		return 0;
	}
	return 2;
}
