// diff/C06.cpp — differential harness of property C06 (pack/unpack).
// Calls the REAL glm functions (include path given by the build: -I<checklib.REPO>) and prints one
// line per evaluation:   <kind> <format> <args…> -> <results…>      (all numbers decimal; floats as
// their bit patterns).  kinds:  u = unpack(word)   p = pack(components)
//                               r = pack(unpack(word)) followed by 1/0 "unpack of it == unpack(word) bitwise"
// usage:  C06 lines <quick|thorough> <seed>           line protocol on stdout
//         C06 sweep <op> <blockLo> <blockHi>          2^20-input block hashes of a scalar pack over float bit patterns
#include <glm/glm.hpp>
#include <glm/packing.hpp>
#include <glm/gtc/packing.hpp>
#include <cstdio>
#include <cstdint>
#include <cstring>
#include <cstdlib>
#include <cmath>
#include <string>
#include <vector>
#include <functional>

using namespace glm;
typedef uint64_t u64;
static inline uint32_t fb(float f) { uint32_t u; memcpy(&u, &f, 4); return u; }
static inline float bf(uint32_t u) { float f; memcpy(&f, &u, 4); return f; }

struct Rng {                                   // xoshiro256**
	u64 s[4];
	static u64 rotl(u64 x, int k) { return (x << k) | (x >> (64 - k)); }
	explicit Rng(u64 seed) { u64 z = seed * 0x9E3779B97F4A7C15ull + 0x1234567; for (int i = 0; i < 4; ++i) { z += 0x9E3779B97F4A7C15ull; u64 t = z; t = (t ^ (t >> 30)) * 0xBF58476D1CE4E5B9ull; t = (t ^ (t >> 27)) * 0x94D049BB133111EBull; s[i] = t ^ (t >> 31); } }
	u64 next() { u64 r = rotl(s[1] * 5, 7) * 9, t = s[1] << 17; s[2] ^= s[0]; s[3] ^= s[1]; s[1] ^= s[2]; s[0] ^= s[3]; s[2] ^= t; s[3] = rotl(s[3], 45); return r; }
	double unit() { return (next() >> 11) * (1.0 / 9007199254740992.0); }
};

struct Field { int off, width; };
struct Fmt {
	const char* name; int wbits; int ncomp;
	std::function<u64(const float*)> pack;
	std::function<void(u64, float*)> unpack;
	std::vector<Field> fld; std::vector<int> N;   // N: levels per field (for tie inputs)
};

#define V2 vec2(v[0], v[1])
#define V3 vec3(v[0], v[1], v[2])
#define V4 vec4(v[0], v[1], v[2], v[3])
#define O2 o[0] = r.x; o[1] = r.y;
#define O3 o[0] = r.x; o[1] = r.y; o[2] = r.z;
#define O4 o[0] = r.x; o[1] = r.y; o[2] = r.z; o[3] = r.w;
typedef vec<1, float, defaultp> fvec1;

static std::vector<Fmt> formats()
{
	std::vector<Fmt> F;
	F.push_back({"Unorm2x16", 32, 2, [](const float* v) { return (u64)packUnorm2x16(V2); }, [](u64 w, float* o) { vec2 r = unpackUnorm2x16((uint)w); O2 }, {{0, 16}, {16, 16}}, {65535, 65535}});
	F.push_back({"Snorm2x16", 32, 2, [](const float* v) { return (u64)packSnorm2x16(V2); }, [](u64 w, float* o) { vec2 r = unpackSnorm2x16((uint)w); O2 }, {{0, 16}, {16, 16}}, {32767, 32767}});
	F.push_back({"Unorm4x8", 32, 4, [](const float* v) { return (u64)packUnorm4x8(V4); }, [](u64 w, float* o) { vec4 r = unpackUnorm4x8((uint)w); O4 }, {{0, 8}, {8, 8}, {16, 8}, {24, 8}}, {255, 255, 255, 255}});
	F.push_back({"Snorm4x8", 32, 4, [](const float* v) { return (u64)packSnorm4x8(V4); }, [](u64 w, float* o) { vec4 r = unpackSnorm4x8((uint)w); O4 }, {{0, 8}, {8, 8}, {16, 8}, {24, 8}}, {127, 127, 127, 127}});
	F.push_back({"Unorm1x8", 8, 1, [](const float* v) { return (u64)packUnorm1x8(v[0]); }, [](u64 w, float* o) { o[0] = unpackUnorm1x8((uint8)w); }, {{0, 8}}, {255}});
	F.push_back({"Unorm2x8", 16, 2, [](const float* v) { return (u64)packUnorm2x8(V2); }, [](u64 w, float* o) { vec2 r = unpackUnorm2x8((uint16)w); O2 }, {{0, 8}, {8, 8}}, {255, 255}});
	F.push_back({"Snorm1x8", 8, 1, [](const float* v) { return (u64)packSnorm1x8(v[0]); }, [](u64 w, float* o) { o[0] = unpackSnorm1x8((uint8)w); }, {{0, 8}}, {127}});
	F.push_back({"Snorm2x8", 16, 2, [](const float* v) { return (u64)packSnorm2x8(V2); }, [](u64 w, float* o) { vec2 r = unpackSnorm2x8((uint16)w); O2 }, {{0, 8}, {8, 8}}, {127, 127}});
	F.push_back({"Unorm1x16", 16, 1, [](const float* v) { return (u64)packUnorm1x16(v[0]); }, [](u64 w, float* o) { o[0] = unpackUnorm1x16((uint16)w); }, {{0, 16}}, {65535}});
	F.push_back({"Unorm4x16", 64, 4, [](const float* v) { return (u64)packUnorm4x16(V4); }, [](u64 w, float* o) { vec4 r = unpackUnorm4x16(w); O4 }, {{0, 16}, {16, 16}, {32, 16}, {48, 16}}, {65535, 65535, 65535, 65535}});
	F.push_back({"Snorm1x16", 16, 1, [](const float* v) { return (u64)packSnorm1x16(v[0]); }, [](u64 w, float* o) { o[0] = unpackSnorm1x16((uint16)w); }, {{0, 16}}, {32767}});
	F.push_back({"Snorm4x16", 64, 4, [](const float* v) { return (u64)packSnorm4x16(V4); }, [](u64 w, float* o) { vec4 r = unpackSnorm4x16(w); O4 }, {{0, 16}, {16, 16}, {32, 16}, {48, 16}}, {32767, 32767, 32767, 32767}});
	F.push_back({"Snorm3x10_1x2", 32, 4, [](const float* v) { return (u64)packSnorm3x10_1x2(V4); }, [](u64 w, float* o) { vec4 r = unpackSnorm3x10_1x2((uint32)w); O4 }, {{0, 10}, {10, 10}, {20, 10}, {30, 2}}, {511, 511, 511, 1}});
	F.push_back({"Unorm3x10_1x2", 32, 4, [](const float* v) { return (u64)packUnorm3x10_1x2(V4); }, [](u64 w, float* o) { vec4 r = unpackUnorm3x10_1x2((uint32)w); O4 }, {{0, 10}, {10, 10}, {20, 10}, {30, 2}}, {1023, 1023, 1023, 3}});
	F.push_back({"Unorm2x4", 8, 2, [](const float* v) { return (u64)packUnorm2x4(V2); }, [](u64 w, float* o) { vec2 r = unpackUnorm2x4((uint8)w); O2 }, {{0, 4}, {4, 4}}, {15, 15}});
	F.push_back({"Unorm4x4", 16, 4, [](const float* v) { return (u64)packUnorm4x4(V4); }, [](u64 w, float* o) { vec4 r = unpackUnorm4x4((uint16)w); O4 }, {{0, 4}, {4, 4}, {8, 4}, {12, 4}}, {15, 15, 15, 15}});
	F.push_back({"Unorm1x5_1x6_1x5", 16, 3, [](const float* v) { return (u64)packUnorm1x5_1x6_1x5(V3); }, [](u64 w, float* o) { vec3 r = unpackUnorm1x5_1x6_1x5((uint16)w); O3 }, {{0, 5}, {5, 6}, {11, 5}}, {31, 63, 31}});
	F.push_back({"Unorm3x5_1x1", 16, 4, [](const float* v) { return (u64)packUnorm3x5_1x1(V4); }, [](u64 w, float* o) { vec4 r = unpackUnorm3x5_1x1((uint16)w); O4 }, {{0, 5}, {5, 5}, {10, 5}, {15, 1}}, {31, 31, 31, 1}});
	F.push_back({"Unorm2x3_1x2", 8, 3, [](const float* v) { return (u64)packUnorm2x3_1x2(V3); }, [](u64 w, float* o) { vec3 r = unpackUnorm2x3_1x2((uint8)w); O3 }, {{0, 3}, {3, 3}, {6, 2}}, {7, 7, 3}});
	// templates packUnorm<uintType>/packSnorm<intType> at 8/16 bits x float
	F.push_back({"tUnorm8", 8, 1, [](const float* v) { return (u64)packUnorm<uint8>(fvec1(v[0])).x; }, [](u64 w, float* o) { o[0] = unpackUnorm<float>(vec<1, uint8, defaultp>((uint8)w)).x; }, {{0, 8}}, {255}});
	F.push_back({"tUnorm16", 16, 1, [](const float* v) { return (u64)packUnorm<uint16>(fvec1(v[0])).x; }, [](u64 w, float* o) { o[0] = unpackUnorm<float>(vec<1, uint16, defaultp>((uint16)w)).x; }, {{0, 16}}, {65535}});
	F.push_back({"tSnorm8", 8, 1, [](const float* v) { return (u64)(uint8)packSnorm<int8>(fvec1(v[0])).x; }, [](u64 w, float* o) { o[0] = unpackSnorm<float>(vec<1, int8, defaultp>((int8)(uint8)w)).x; }, {{0, 8}}, {127}});
	F.push_back({"tSnorm16", 16, 1, [](const float* v) { return (u64)(uint16)packSnorm<int16>(fvec1(v[0])).x; }, [](u64 w, float* o) { o[0] = unpackSnorm<float>(vec<1, int16, defaultp>((int16)(uint16)w)).x; }, {{0, 16}}, {32767}});
	return F;
}

static std::vector<uint32_t> special_floats()
{
	std::vector<uint32_t> s;
	const uint32_t pos[] = {0x00000000u, 0x00000001u, 0x007fffffu, 0x00800000u, 0x2edbe6ffu /*1e-10*/, 0x38000000u /*2^-15*/, 0x37ffffffu, 0x38000001u, 0x3e800000u, 0x3efffffeu, 0x3effffffu, 0x3f000000u, 0x3f000001u, 0x3f400000u,
		0x3f7ffffeu, 0x3f7fffffu, 0x3f800000u, 0x3f800001u, 0x3f800002u, 0x40000000u, 0x477e0000u, 0x477effffu, 0x477f8000u, 0x477fffffu, 0x47800000u, 0x47800001u, 0x48000000u, 0x501502f9u /*1e10*/, 0x7f7fffffu, 0x7f800000u};
	for (uint32_t p : pos) { s.push_back(p); s.push_back(p | 0x80000000u); }
	s.push_back(0x7fc00000u); s.push_back(0xffc00000u); s.push_back(0x7f800001u);
	return s;
}

// floats around the rounding ties (k + 0.5)/N and around the codes k/N
static void ties(std::vector<uint32_t>& out, int N, bool sgn, int stride)
{
	for (int k = 0; k <= N; k += stride)
		for (int h = 0; h < 2; ++h) {
			double t = (k + 0.5 * h) / (double)N;
			float f = (float)t;
			uint32_t b = fb(f);
			for (int d = -2; d <= 2; ++d) { uint32_t x = b + (uint32_t)d; if ((x & 0x7fffffffu) <= 0x3f800002u) { out.push_back(x); if (sgn) out.push_back(x | 0x80000000u); } }
		}
}

static void line_u(const Fmt& f, u64 w) { float o[4]; f.unpack(w, o); printf("u %s %llu ->", f.name, (unsigned long long)w); for (int k = 0; k < f.ncomp; ++k) printf(" %u", fb(o[k])); printf("\n"); }
static void line_r(const Fmt& f, u64 w) { float o[4], o2[4]; f.unpack(w, o); u64 q = f.pack(o); f.unpack(q, o2); bool same = true; for (int k = 0; k < f.ncomp; ++k) same = same && fb(o[k]) == fb(o2[k]); printf("r %s %llu -> %llu %d\n", f.name, (unsigned long long)w, (unsigned long long)q, same ? 1 : 0); }
static void line_p(const Fmt& f, const uint32_t* xb) { float v[4]; for (int k = 0; k < f.ncomp; ++k) v[k] = bf(xb[k]); u64 q = f.pack(v); printf("p %s", f.name); for (int k = 0; k < f.ncomp; ++k) printf(" %u", xb[k]); printf(" -> %llu\n", (unsigned long long)q); }

static u64 wmask(int wbits) { return wbits == 64 ? ~0ull : ((1ull << wbits) - 1); }

static void words_of(const Fmt& f, Rng& rng, bool thorough, std::vector<u64>& W)
{
	if (f.wbits <= 16) { for (u64 w = 0; w < (1ull << f.wbits); ++w) W.push_back(w); return; }
	// per-field exhaustive over several backgrounds, then random words
	int nbg = thorough ? (f.fld[0].width >= 16 ? 3 : 8) : (f.fld[0].width >= 16 ? 1 : 3);
	for (size_t k = 0; k < f.fld.size(); ++k) {
		u64 fm = ((1ull << f.fld[k].width) - 1) << f.fld[k].off;
		for (int b = 0; b < nbg; ++b) {
			u64 bg = nbg == 1 ? rng.next() : b == 0 ? 0 : b == 1 ? ~0ull : rng.next();
			for (u64 c = 0; c < (1ull << f.fld[k].width); ++c) W.push_back(((bg & ~fm) | (c << f.fld[k].off)) & wmask(f.wbits));
		}
	}
	int nr = thorough ? 300000 : 30000;
	for (int i = 0; i < nr; ++i) W.push_back(rng.next() & wmask(f.wbits));
}

static uint32_t rnd_float(Rng& rng, int mode)
{
	switch (mode % 4) {
	case 0: return fb((float)(rng.unit() * 2.5 - 1.25));
	case 1: return fb((float)rng.unit());
	case 2: return (uint32_t)rng.next();                  // any bit pattern
	default: { uint32_t e = 100 + (uint32_t)(rng.next() % 45); return ((uint32_t)rng.next() & 0x807fffffu) | (e << 23); }   // wide magnitude
	}
}

// ------------------------------------------------------------------------------------------------ integer packs
template <typename W, typename L, int n> static void int_lines(const char* name, W (*pk)(vec<n, L, defaultp> const&), vec<n, L, defaultp> (*up)(W), Rng& rng, int count)
{
	typedef typename std::make_unsigned<L>::type UL; typedef typename std::make_unsigned<W>::type UW;
	for (int i = 0; i < count; ++i) {
		vec<n, L, defaultp> v; UW w;
		for (int k = 0; k < n; ++k) v[k] = (L)(i < 40 ? (i % 5 == 0 ? 0 : i % 5 == 1 ? -1 : i % 5 == 2 ? (L)((UL)1 << (sizeof(L) * 8 - 1)) : (L)(k + 1 + i)) : (L)rng.next());
		w = i < 8 ? (UW)(i % 2 ? ~(UW)0 : (UW)0x0102030405060708ull) : (UW)rng.next();
		W q = pk(v);
		printf("pi %s", name); for (int k = 0; k < n; ++k) printf(" %llu", (unsigned long long)(UL)v[k]); printf(" -> %llu\n", (unsigned long long)(UW)q);
		vec<n, L, defaultp> r = up((W)w);
		printf("ui %s %llu ->", name, (unsigned long long)w); for (int k = 0; k < n; ++k) printf(" %llu", (unsigned long long)(UL)r[k]); printf("\n");
		printf("ri %s %llu -> %llu\n", name, (unsigned long long)w, (unsigned long long)(UW)pk(up((W)w)));
	}
}

static void lines(bool thorough, u64 seed)
{
	Rng rng(seed);
	std::vector<Fmt> F = formats();
	std::vector<uint32_t> sp = special_floats();
	for (const Fmt& f : F) {
		std::vector<u64> W; words_of(f, rng, thorough, W);
		for (u64 w : W) { line_u(f, w); line_r(f, w); }
		// pack inputs: specials and ties rotated through the components, then random vectors
		std::vector<uint32_t> pool = sp;
		bool sgn = f.name[0] == 'S' || f.name[1] == 'S';
		for (size_t k = 0; k < f.N.size(); ++k) { bool seen = false; for (size_t j = 0; j < k; ++j) seen = seen || f.N[j] == f.N[k]; if (!seen) ties(pool, f.N[k], sgn, f.N[k] > 2000 ? (f.ncomp == 1 ? (thorough ? 1 : 7) : 61) : 1); }
		size_t np = pool.size();
		for (size_t i = 0; i < np; ++i) { uint32_t x[4]; for (int k = 0; k < f.ncomp; ++k) x[k] = pool[(i + (size_t)k * 7919u) % np]; line_p(f, x); }
		int nr = thorough ? 150000 : 6000;
		for (int i = 0; i < nr; ++i) { uint32_t x[4]; for (int k = 0; k < f.ncomp; ++k) x[k] = rnd_float(rng, i + k); line_p(f, x); }
	}
	// templates at a 32-bit integer type x float (pack only)
	{
		std::vector<uint32_t> pool = sp;
		int nr = thorough ? 200000 : 4000;
		for (int i = 0; i < nr; ++i) pool.push_back(rnd_float(rng, i));
		for (uint32_t x : pool) {
			printf("p tUnorm32f %u -> %llu\n", x, (unsigned long long)packUnorm<uint32>(fvec1(bf(x))).x);
			printf("p tSnorm32f %u -> %llu\n", x, (unsigned long long)(uint32)packSnorm<int32>(fvec1(bf(x))).x);
		}
	}
	// half packs: layout relative to glm's own per-component conversion
	{
		std::vector<u64> W;
		for (u64 w = 0; w < 65536; ++w) {
			uint16 q = packHalf1x16(unpackHalf1x16((uint16)w));
			printf("u Half1x16 %llu -> %u %u\n", (unsigned long long)w, fb(unpackHalf1x16((uint16)w)), fb(detail::toFloat32((detail::hdata)(uint16)w)));
			printf("r Half1x16 %llu -> %u %d\n", (unsigned long long)w, (unsigned)q, fb(unpackHalf1x16(q)) == fb(unpackHalf1x16((uint16)w)) ? 1 : 0);
		}
		int nw = thorough ? 300000 : 40000;
		for (int i = 0; i < nw; ++i) {
			u64 w = i < 65536 ? (((u64)i) << (16 * (i % 4))) | (i % 3 ? 0x3c00bc007bff0001ull & ~(0xffffull << (16 * (i % 4))) : 0) : rng.next();
			uint w32 = (uint)w;
			vec2 a = unpackHalf2x16(w32);
			printf("u Half2x16 %u -> %u %u %u %u\n", w32, fb(a.x), fb(a.y), fb(detail::toFloat32((detail::hdata)(uint16)(w32 & 0xffff))), fb(detail::toFloat32((detail::hdata)(uint16)(w32 >> 16))));
			uint q2 = packHalf2x16(a); vec2 a2 = unpackHalf2x16(q2);
			printf("r Half2x16 %u -> %u %d\n", w32, q2, (fb(a.x) == fb(a2.x) && fb(a.y) == fb(a2.y)) ? 1 : 0);
			vec4 b = unpackHalf4x16(w);
			printf("u Half4x16 %llu -> %u %u %u %u", (unsigned long long)w, fb(b.x), fb(b.y), fb(b.z), fb(b.w));
			for (int k = 0; k < 4; ++k) printf(" %u", fb(detail::toFloat32((detail::hdata)(uint16)(w >> (16 * k)))));
			printf("\n");
			u64 q4 = packHalf4x16(b); vec4 b2 = unpackHalf4x16(q4);
			printf("r Half4x16 %llu -> %llu %d\n", (unsigned long long)w, (unsigned long long)q4, (fb(b.x) == fb(b2.x) && fb(b.y) == fb(b2.y) && fb(b.z) == fb(b2.z) && fb(b.w) == fb(b2.w)) ? 1 : 0);
		}
		std::vector<uint32_t> pool = sp;
		const uint32_t hs[] = {0x33000000u, 0x33000001u, 0x33800000u, 0x387fc000u, 0x387fe000u, 0x38800000u, 0x477fe000u, 0x477fefffu, 0x477ff000u, 0x3c000000u, 0x3f801000u, 0x3f803000u, 0x7f800001u, 0x7fc01234u};
		for (uint32_t h : hs) { pool.push_back(h); pool.push_back(h | 0x80000000u); }
		int nr = thorough ? 400000 : 20000;
		for (int i = 0; i < nr; ++i) pool.push_back(rnd_float(rng, i));
		size_t np = pool.size();
		for (size_t i = 0; i < np; ++i) {
			uint32_t x[4]; for (int k = 0; k < 4; ++k) x[k] = pool[(i + (size_t)k * 7919u) % np];
			uint16 h[4]; for (int k = 0; k < 4; ++k) h[k] = (uint16)detail::toFloat16(bf(x[k]));
			printf("p Half1x16 %u -> %u %u\n", x[0], (unsigned)packHalf1x16(bf(x[0])), (unsigned)h[0]);
			printf("p Half2x16 %u %u -> %u %u %u\n", x[0], x[1], packHalf2x16(vec2(bf(x[0]), bf(x[1]))), (unsigned)h[0], (unsigned)h[1]);
			printf("p Half4x16 %u %u %u %u -> %llu %u %u %u %u\n", x[0], x[1], x[2], x[3], (unsigned long long)packHalf4x16(vec4(bf(x[0]), bf(x[1]), bf(x[2]), bf(x[3]))), (unsigned)h[0], (unsigned)h[1], (unsigned)h[2], (unsigned)h[3]);
			u16vec3 t = packHalf(vec3(bf(x[0]), bf(x[1]), bf(x[2])));
			printf("p Halfv3 %u %u %u -> %u %u %u %u %u %u\n", x[0], x[1], x[2], (unsigned)t.x, (unsigned)t.y, (unsigned)t.z, (unsigned)h[0], (unsigned)h[1], (unsigned)h[2]);
		}
	}
	// small floats and shared exponent
	{
		std::vector<u64> W;
		Fmt f11 = {"F2x11_1x10", 32, 3, nullptr, nullptr, {{0, 11}, {11, 11}, {22, 10}}, {}};
		Fmt f39 = {"F3x9_E1x5", 32, 3, nullptr, nullptr, {{0, 9}, {9, 9}, {18, 9}, {27, 5}}, {}};
		for (int which = 0; which < 2; ++which) {
			const Fmt& f = which ? f39 : f11;
			W.clear(); words_of(f, rng, thorough, W);
			if (which == 1) for (u64 e = 0; e < 32; ++e) for (u64 c = 0; c < 512; ++c) W.push_back((e << 27) | c | (c / 2 << 9) | (c / 3 << 18));
			for (u64 w64 : W) {
				uint32 w = (uint32)w64;
				vec3 a = which ? unpackF3x9_E1x5(w) : unpackF2x11_1x10(w);
				uint32 q = which ? packF3x9_E1x5(a) : packF2x11_1x10(a);
				vec3 a2 = which ? unpackF3x9_E1x5(q) : unpackF2x11_1x10(q);
				printf("u %s %u -> %u %u %u\n", f.name, w, fb(a.x), fb(a.y), fb(a.z));
				printf("r %s %u -> %u %d\n", f.name, w, q, (fb(a.x) == fb(a2.x) && fb(a.y) == fb(a2.y) && fb(a.z) == fb(a2.z)) ? 1 : 0);
			}
			std::vector<uint32_t> pool = sp;
			// every code value of the 11/10-bit formats, its neighbours, and the binade/field boundaries
			for (uint32_t c = 0; c < 2048; ++c) { uint32_t b = ((c >> 6) + 112) << 23 | (c & 63) << 17; pool.push_back(b); pool.push_back(b - 1); pool.push_back(b + 1); pool.push_back(b + 0x10000); pool.push_back(b | 0x80000000u); }
			for (uint32_t c = 0; c < 1024; ++c) { uint32_t b = ((c >> 5) + 112) << 23 | (c & 31) << 18; pool.push_back(b); pool.push_back(b - 1); pool.push_back(b + 1); }
			for (uint32_t e = 90; e < 150; ++e) for (uint32_t m = 0; m < 4; ++m) pool.push_back((e << 23) | (m == 0 ? 0 : m == 1 ? 0x7fffff : m == 2 ? 0x400000 : 0x7f8000));
			int nr = thorough ? 400000 : 20000;
			for (int i = 0; i < nr; ++i) pool.push_back(i % 2 ? rnd_float(rng, i) : (rnd_float(rng, 3) & 0x7fffffffu));
			size_t np = pool.size();
			for (size_t i = 0; i < np; ++i) {
				uint32_t x[3]; for (int k = 0; k < 3; ++k) x[k] = pool[(i + (size_t)k * 7919u) % np];
				vec3 v(bf(x[0]), bf(x[1]), bf(x[2]));
				printf("p %s %u %u %u -> %u\n", f.name, x[0], x[1], x[2], which ? packF3x9_E1x5(v) : packF2x11_1x10(v));
			}
		}
	}
	// RGBM
	{
		int nr = thorough ? 200000 : 10000;
		for (int i = 0; i < nr; ++i) {
			float c[3]; for (int k = 0; k < 3; ++k) c[k] = i < 8 ? (float)((i >> k) & 1) * 6.0f : i < 64 ? (float)(i + k) * 0.125f : (float)(rng.unit() * (i % 3 ? 6.0 : 0.01));
			vec4 m = packRGBM(vec3(c[0], c[1], c[2])); vec3 r = unpackRGBM(m);
			printf("p RGBM %u %u %u -> %u %u %u %u\n", fb(c[0]), fb(c[1]), fb(c[2]), fb(m.x), fb(m.y), fb(m.z), fb(m.w));
			printf("u RGBM %u %u %u %u -> %u %u %u\n", fb(m.x), fb(m.y), fb(m.z), fb(m.w), fb(r.x), fb(r.y), fb(r.z));
		}
	}
	// integer packs
	{
		int n = thorough ? 200000 : 5000;
		int_lines<int16, int8, 2>("Int2x8", packInt2x8, unpackInt2x8, rng, n);
		int_lines<uint16, uint8, 2>("Uint2x8", packUint2x8, unpackUint2x8, rng, n);
		int_lines<int32, int8, 4>("Int4x8", packInt4x8, unpackInt4x8, rng, n);
		int_lines<uint32, uint8, 4>("Uint4x8", packUint4x8, unpackUint4x8, rng, n);
		int_lines<int, int16, 2>("Int2x16", packInt2x16, unpackInt2x16, rng, n);
		int_lines<uint, uint16, 2>("Uint2x16", packUint2x16, unpackUint2x16, rng, n);
		int_lines<int64, int16, 4>("Int4x16", packInt4x16, unpackInt4x16, rng, n);
		int_lines<uint64, uint16, 4>("Uint4x16", packUint4x16, unpackUint4x16, rng, n);
		int_lines<int64, int32, 2>("Int2x32", packInt2x32, unpackInt2x32, rng, n);
		int_lines<uint64, uint32, 2>("Uint2x32", packUint2x32, unpackUint2x32, rng, n);
		int_lines<uint32, int, 4>("I3x10_1x2", packI3x10_1x2, unpackI3x10_1x2, rng, n);
		int_lines<uint32, uint, 4>("U3x10_1x2", packU3x10_1x2, unpackU3x10_1x2, rng, n);
		// exhaustive 16-bit words of the 2x8 packs
		for (u64 w = 0; w < 65536; ++w) { u8vec2 r = unpackUint2x8((uint16)w); printf("ui Uint2x8 %llu -> %u %u\n", (unsigned long long)w, (unsigned)r.x, (unsigned)r.y); i8vec2 s = unpackInt2x8((int16)(uint16)w); printf("ui Int2x8 %llu -> %u %u\n", (unsigned long long)w, (unsigned)(uint8)s.x, (unsigned)(uint8)s.y); }
		for (int i = 0; i < n; ++i) {
			u64 w = i < 4 ? (i % 2 ? ~0ull : 0x400921fb54442d18ull) : rng.next();
			double d; memcpy(&d, &w, 8); uvec2 r = unpackDouble2x32(d);
			printf("ui Double2x32 %llu -> %u %u\n", (unsigned long long)w, r.x, r.y);
			uint32_t a = (uint32_t)rng.next(), b = (uint32_t)rng.next(); double pd = packDouble2x32(uvec2(a, b)); u64 pw; memcpy(&pw, &pd, 8);
			printf("pi Double2x32 %u %u -> %llu\n", a, b, (unsigned long long)pw);
		}
	}
}

// ------------------------------------------------------------------------------------------------ 2^32 sweeps
static inline u64 fold(u64 h, u64 r) { return (h ^ r) * 0x100000001b3ull; }
static void sweep(const std::string& op, u64 lo, u64 hi)
{
	for (u64 blk = lo; blk < hi; ++blk) {
		u64 h = 0xcbf29ce484222325ull; u64 bad = 0;
		for (u64 i = 0; i < (1ull << 20); ++i) {
			uint32_t x = (uint32_t)((blk << 20) | i); float f = bf(x); u64 r;
			if (op == "packUnorm1x8") r = packUnorm1x8(f);
			else if (op == "packSnorm1x8") r = packSnorm1x8(f);
			else if (op == "packUnorm1x16") r = packUnorm1x16(f);
			else if (op == "packSnorm1x16") r = packSnorm1x16(f);
			else if (op == "packHalf1x16") { r = packHalf1x16(f); if ((uint16)r != (uint16)detail::toFloat16(f)) ++bad; }
			else { fprintf(stderr, "unknown sweep op\n"); exit(2); }
			h = fold(h, r);
		}
		if (op == "packHalf1x16") printf("H %s %llu %llu\n", op.c_str(), (unsigned long long)blk, (unsigned long long)bad);
		else printf("B %s %llu %llu\n", op.c_str(), (unsigned long long)blk, (unsigned long long)h);
	}
}

// one block of a sweep through the line protocol (to locate the inputs of a differing block)
static void blocklines(const std::string& op, u64 blk)
{
	std::vector<Fmt> F = formats();
	std::string name = op.substr(4);   // packUnorm1x8 -> Unorm1x8
	for (const Fmt& f : F) if (name == f.name) for (u64 i = 0; i < (1ull << 20); ++i) { uint32_t x = (uint32_t)((blk << 20) | i); line_p(f, &x); }
}

int main(int argc, char** argv)
{
	if (argc >= 4 && std::string(argv[1]) == "blocklines") { blocklines(argv[2], strtoull(argv[3], 0, 10)); return 0; }
	if (argc >= 4 && std::string(argv[1]) == "lines") { lines(std::string(argv[2]) == "thorough", strtoull(argv[3], 0, 10)); return 0; }
	if (argc >= 5 && std::string(argv[1]) == "sweep") { sweep(argv[2], strtoull(argv[3], 0, 10), strtoull(argv[4], 0, 10)); return 0; }
	fprintf(stderr, "usage: C06 lines <quick|thorough> <seed> | C06 sweep <op> <blockLo> <blockHi>\n");
	return 2;
}
