// C15 configuration probe: operations the symbolic tracer cannot see because they convert between element types
// (vector / matrix / quaternion converting constructors and compound assignments across types), plus a few
// layout-independent observations.  The program is built under every non-semantic configuration and must print the same
// stream as the default build.  Only explicit constructor syntax and x/y/z/w member names are used, so that it compiles
// under GLM_FORCE_EXPLICIT_CTOR and GLM_FORCE_XYZW_ONLY.
//   C15 run <seed> <count>
#include <glm/glm.hpp>
#include <glm/gtc/quaternion.hpp>
#include <glm/gtc/type_ptr.hpp>
#include <glm/gtc/type_precision.hpp>
#include <glm/ext/quaternion_double.hpp>
#include <glm/ext/scalar_common.hpp>
#include <glm/ext/vector_common.hpp>
#include <cmath>
#include <cstdio>
#include <cstring>
#include <cstdint>
#include <cstdlib>

struct Rng {
	uint64_t s[2];
	explicit Rng(uint64_t seed) { s[0] = seed * 0x9E3779B97F4A7C15ull + 1; s[1] = (seed ^ 0xD1B54A32D192ED03ull) * 0xBF58476D1CE4E5B9ull + 7; for (int i = 0; i < 8; i++) next(); }
	uint64_t next() { uint64_t a = s[0], b = s[1]; s[0] = b; a ^= a << 23; s[1] = a ^ b ^ (a >> 17) ^ (b >> 26); return s[1] + b; }
	double val() { int k = (int)(next() % 4); double u = (double)(next() >> 11) / 9007199254740992.0;
		if (k == 0) return (double)((int)(next() % 41) - 20); if (k == 1) return u * 8 - 4; if (k == 2) return (u - 0.5) * 2000; return (double)((int)(next() % 7) - 3) * 0.25; }
};
static void pf(float v) { uint32_t b; memcpy(&b, &v, 4); printf(" %08x", b); }
static void pd(double v) { uint64_t b; memcpy(&b, &v, 8); printf(" %016llx", (unsigned long long)b); }
static void pi(long long v) { printf(" %lld", v); }
template<glm::length_t L> static void pv(glm::vec<L, float> const& v) { for (glm::length_t i = 0; i < L; ++i) pf(v[i]); }
template<glm::length_t L> static void pv(glm::vec<L, double> const& v) { for (glm::length_t i = 0; i < L; ++i) pd(v[i]); }
template<glm::length_t L> static void pv(glm::vec<L, int> const& v) { for (glm::length_t i = 0; i < L; ++i) pi(v[i]); }
template<glm::length_t L> static void pv(glm::vec<L, glm::uint> const& v) { for (glm::length_t i = 0; i < L; ++i) pi(v[i]); }
template<glm::length_t L> static void pv(glm::vec<L, bool> const& v) { for (glm::length_t i = 0; i < L; ++i) pi(v[i] ? 1 : 0); }
template<glm::length_t C, glm::length_t R> static void pm(glm::mat<C, R, float> const& m) { for (glm::length_t c = 0; c < C; ++c) for (glm::length_t r = 0; r < R; ++r) pf(m[c][r]); }
template<glm::length_t C, glm::length_t R> static void pm(glm::mat<C, R, double> const& m) { for (glm::length_t c = 0; c < C; ++c) for (glm::length_t r = 0; r < R; ++r) pd(m[c][r]); }
static void pq(glm::quat const& q) { pf(q.w); pf(q.x); pf(q.y); pf(q.z); }
static void pq(glm::dquat const& q) { pd(q.w); pd(q.x); pd(q.y); pd(q.z); }

int main(int argc, char** argv) {
	if (argc < 4 || strcmp(argv[1], "run")) { fprintf(stderr, "usage: C15 run <seed> <count>\n"); return 2; }
	Rng r(strtoull(argv[2], 0, 10)); long n = atol(argv[3]);
	for (long it = 0; it < n; ++it) {
		double a[16]; for (int i = 0; i < 16; ++i) a[i] = r.val();
		// ---- quaternions: constructors, conversions between element types, compound assignment across types
		glm::dquat qd = glm::dquat::wxyz(a[0], a[1], a[2], a[3]); glm::quat qf = glm::quat::wxyz((float)a[4], (float)a[5], (float)a[6], (float)a[7]);
		printf("quat_from_dquat"); pq(glm::quat(qd)); printf("\n");
		printf("dquat_from_quat"); pq(glm::dquat(qf)); printf("\n");
		{ glm::quat t(qf); t += qd; printf("quat_addasg_dquat"); pq(t); printf("\n"); }
		{ glm::dquat t(qd); t -= qf; printf("dquat_subasg_quat"); pq(t); printf("\n"); }
		{ glm::quat t(qf); t *= qd; printf("quat_mulasg_dquat"); pq(t); printf("\n"); }
		printf("quat_ctor_wxyz"); pq(glm::quat((float)a[0], (float)a[1], (float)a[2], (float)a[3])); printf("\n");
		printf("quat_ctor_sv"); pq(glm::quat((float)a[0], glm::vec3((float)a[1], (float)a[2], (float)a[3]))); printf("\n");
		printf("quat_from_mat3"); pq(glm::quat_cast(glm::mat3_cast(glm::normalize(qf)))); printf("\n");
		printf("quat_lowp_from_highp"); { glm::qua<float, glm::lowp> l = glm::qua<float, glm::lowp>(qf); pf(l.w); pf(l.x); pf(l.y); pf(l.z); } printf("\n");
		printf("quat_length"); pi((long long)qf.length()); printf("\n");      // (operator[] follows the memory order: documented effect of GLM_FORCE_QUAT_DATA_WXYZ)
		printf("quat_value_ptr"); { float const* p = glm::value_ptr(qf); glm::quat back = glm::make_quat(p); pq(back); } printf("\n");
		// ---- vectors: conversions between element types and lengths
		glm::dvec4 dv(a[8], a[9], a[10], a[11]); glm::vec4 fv((float)a[12], (float)a[13], (float)a[14], (float)a[15]); glm::ivec4 iv((int)a[0], (int)a[1], (int)a[2], (int)a[3]);
		printf("vec4_from_dvec4"); pv(glm::vec4(dv)); printf("\n");
		printf("dvec4_from_vec4"); pv(glm::dvec4(fv)); printf("\n");
		printf("ivec4_from_vec4"); pv(glm::ivec4(glm::vec4((float)(int)a[12], (float)(int)a[13], (float)(int)a[14], (float)(int)a[15]))); printf("\n");
		printf("vec4_from_ivec4"); pv(glm::vec4(iv)); printf("\n");
		printf("uvec3_from_ivec4"); pv(glm::uvec3(glm::ivec4(glm::abs(iv)))); printf("\n");
		printf("vec3_from_dvec4"); pv(glm::vec3(dv)); printf("\n");
		printf("vec2_from_dvec3"); pv(glm::vec2(glm::dvec3(dv))); printf("\n");
		printf("dvec3_from_vec2_s"); pv(glm::dvec3(glm::vec2(fv), a[0])); printf("\n");
		printf("vec4_from_mixed"); pv(glm::vec4((float)a[0], glm::dvec2(a[1], a[2]), (int)a[3])); printf("\n");
		printf("vec4_from_s_ivec3"); pv(glm::vec4(a[4], glm::ivec3(iv))); printf("\n");
		printf("bvec_from_vec"); pv(glm::bvec4(iv)); printf("\n");
		printf("vec_from_bvec"); pv(glm::vec3(glm::bvec3(glm::ivec3(iv)))); printf("\n");
		{ glm::vec4 t(fv); t += dv; printf("vec4_addasg_dvec4"); pv(t); printf("\n"); }
		{ glm::dvec3 t(dv); t *= glm::vec3(fv); printf("dvec3_mulasg_vec3"); pv(t); printf("\n"); }
		{ glm::ivec2 t(iv); t -= glm::ivec2(glm::dvec2(a[4], a[5])); printf("ivec2_subasg"); pv(t); printf("\n"); }
		printf("vec_lowp_from_highp"); { glm::vec3 h3 = glm::vec3(fv); glm::vec<3, float, glm::lowp> l = glm::vec<3, float, glm::lowp>(h3); pf(l.x); pf(l.y); pf(l.z); } printf("\n");
		printf("vec_length"); pi((long long)fv.length()); pi((long long)glm::vec3(fv).length()); pi((long long)glm::vec2(fv).length()); printf("\n");
		printf("vec_value_ptr"); { pv(glm::make_vec3(glm::value_ptr(fv))); pv(glm::make_vec2(glm::value_ptr(dv))); } printf("\n");
		// ---- matrices: conversions between element types and shapes
		glm::dmat4 dm(a[0], a[1], a[2], a[3], a[4], a[5], a[6], a[7], a[8], a[9], a[10], a[11], a[12], a[13], a[14], a[15]);
		glm::mat4 fm = glm::mat4(dm);
		printf("mat4_from_dmat4"); pm(fm); printf("\n");
		printf("dmat3_from_mat4"); pm(glm::dmat3(glm::mat3(fm))); printf("\n");
		printf("mat4x3_from_dmat4"); pm(glm::mat4x3(glm::dmat4x3(dm))); printf("\n");
		printf("mat2x4_from_dmat3"); pm(glm::mat2x4(glm::mat3(glm::dmat3(dm)))); printf("\n");
		printf("dmat3x2_from_mat4"); pm(glm::dmat3x2(glm::mat3x2(fm))); printf("\n");
		printf("mat3_from_cols"); pm(glm::mat3(glm::vec3(fv), glm::vec3(dv), glm::vec3(iv))); printf("\n");
		printf("mat2_from_mixed_scalars"); pm(glm::mat2((float)a[0], a[1], (int)a[2], (float)a[3])); printf("\n");
		{ glm::mat3 t = glm::mat3(fm); t += glm::mat3(glm::dmat3(dm)); t *= 2.0f; printf("mat3_asg"); pm(t); printf("\n"); }
		{ glm::mat4 t(fm); t *= glm::mat4(dm); printf("mat4_mulasg"); pm(t); printf("\n"); }
		printf("mat_length"); pi((long long)fm.length()); pi((long long)fm[0].length()); pi((long long)glm::mat2x3(fm).length()); printf("\n");
		printf("mat_value_ptr"); pm(glm::make_mat3x2(glm::value_ptr(fm))); pm(glm::make_mat4(glm::value_ptr(dm))); printf("\n");
		printf("mat_col_row"); pv(fm[2]); pf(fm[1][3]); pd(dm[3][0]); printf("\n");
		// ---- functions with a std / bundled-fallback pair (language level) or an architecture-specific variant (GLM_ARCH)
		{ float xf = (float)a[1], yf = (float)a[2]; double xd = a[3], yd = a[5]; float pf_ = std::fabs((float)a[9]) + 1e-3f; double pd_ = std::fabs(a[10]) + 1e-3;
		  printf("round_f"); pf(glm::round(xf)); pf(glm::round(yf * 0.5f)); pf(glm::round(8388609.0f)); pf(glm::round(-0.49999997f)); pf(glm::round(3e9f)); printf("\n");
		  printf("round_d"); pd(glm::round(xd)); pd(glm::round(yd * 0.5)); pd(glm::round(4503599627370497.0)); pd(glm::round(-0.49999999999999994)); printf("\n");
		  printf("trunc_f"); pf(glm::trunc(xf)); pf(glm::trunc(yf * 0.5f)); pf(glm::trunc(-0.75f)); pf(glm::trunc(3e9f)); printf("\n");
		  printf("trunc_d"); pd(glm::trunc(xd)); pd(glm::trunc(yd * 0.5)); pd(glm::trunc(-0.75)); pd(glm::trunc(1e300)); printf("\n");
		  printf("isnan_isinf"); pi(glm::isnan(xf)); pi(glm::isinf(xf)); pi(glm::isnan(xd / (a[0] - a[0]))); pi(glm::isinf(xd / 0.0)); pi(glm::isnan(std::sqrt(-pf_))); pv(glm::isnan(glm::vec3(xf, std::sqrt(-pf_), yf))); pv(glm::isinf(glm::dvec2(xd, pd_ / 0.0))); printf("\n");
		  printf("fmin_fmax_f"); pf(glm::fmin(xf, yf)); pf(glm::fmax(xf, yf)); pf(glm::fmin(xf, std::sqrt(-pf_))); pf(glm::fmax(std::sqrt(-pf_), yf)); pv(glm::fmin(glm::vec3(xf, yf, pf_), glm::vec3(yf, xf, 1.0f))); printf("\n");
		  printf("fmin_fmax_d"); pd(glm::fmin(xd, yd)); pd(glm::fmax(xd, yd)); pd(glm::fmin(xd, std::sqrt(-pd_))); pd(glm::fmax(std::sqrt(-pd_), yd)); printf("\n");
		  printf("log2_f"); pf(glm::log2(pf_)); pv(glm::log2(glm::vec2(pf_, pf_ * 37.0f))); printf("\n");
		  printf("log2_d"); pd(glm::log2(pd_)); pv(glm::log2(glm::dvec2(pd_, pd_ * 37.0))); printf("\n");
		  printf("fma_f"); pf(glm::fma(xf, yf, pf_)); pv(glm::fma(glm::vec2(xf, yf), glm::vec2(pf_, xf), glm::vec2(yf, pf_))); printf("\n");
		  printf("fma_d"); pd(glm::fma(xd, yd, pd_)); printf("\n");
		  printf("exp2_f"); pf(glm::exp2(xf)); pv(glm::exp2(glm::vec2(yf, pf_))); printf("\n");
		  printf("exp2_d"); pd(glm::exp2(xd)); printf("\n");
		  printf("asinh_f"); pf(glm::asinh(xf)); pv(glm::asinh(glm::vec2(yf, pf_))); printf("\n");
		  printf("asinh_d"); pd(glm::asinh(xd)); printf("\n");
		  printf("acosh_f"); pf(glm::acosh(1.0f + pf_)); printf("\n");
		  printf("acosh_d"); pd(glm::acosh(1.0 + pd_)); printf("\n");
		  printf("atanh_f"); pf(glm::atanh(pf_ / (1.0f + pf_))); printf("\n");
		  printf("atanh_d"); pd(glm::atanh(pd_ / (1.0 + pd_))); printf("\n");
		  // integer sign / abs: an x86 bit-trick variant and a generic variant exist
		  signed char c8[4] = { (signed char)-128, (signed char)127, (signed char)(int)a[0], 0 }; short c16[4] = { (short)-32768, (short)32767, (short)(int)(a[1] * 100), 0 };
		  int c32[4] = { (int)0x80000000, 0x7fffffff, (int)(a[2] * 1000), 0 }; long long c64[4] = { (long long)0x8000000000000000ull, 0x7fffffffffffffffll, (long long)(a[3] * 1e6), 0 };
		  printf("isign"); for (int k = 0; k < 4; ++k) { pi(glm::sign(c8[k])); pi(glm::sign(c16[k])); pi(glm::sign(c32[k])); pi(glm::sign(c64[k])); } printf("\n");
		  printf("isign_v"); pv(glm::sign(glm::ivec4(c32[0], c32[1], c32[2], c32[3]))); { glm::vec<2, glm::int8> s8 = glm::sign(glm::vec<2, glm::int8>(c8[0], c8[2])); pi(s8.x); pi(s8.y); }
		    { glm::vec<3, glm::int16> s16 = glm::sign(glm::vec<3, glm::int16>(c16[0], c16[1], c16[2])); pi(s16.x); pi(s16.y); pi(s16.z); } { glm::vec<2, glm::int64> s64 = glm::sign(glm::vec<2, glm::int64>(c64[0], c64[2])); pi(s64.x); pi(s64.y); } printf("\n");
		  printf("iabs"); for (int k = 1; k < 4; ++k) { pi(glm::abs(c8[k])); pi(glm::abs(c16[k])); pi(glm::abs(c32[k])); pi(glm::abs(c64[k])); } pv(glm::abs(glm::ivec3(c32[1], c32[2], c32[3]))); printf("\n");
		  printf("fsign"); pf(glm::sign(xf)); pf(glm::sign(-0.0f)); pd(glm::sign(xd)); pv(glm::sign(glm::vec3(xf, yf, 0.0f))); printf("\n");
		}
	}
	return 0;
}
