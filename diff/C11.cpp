// C11 differential harness: runs the REAL glm (include path given by the check: -I$VERIF_REPO)
// and prints bit patterns; owns input generation (xoshiro256** seeded by argv).
//
//   C11 lines <seed> <quick|thorough>     one line per evaluation:  op ty arg.. -> res..   (hex bit patterns)
//   C11 sweep <op> <quick|thorough> <b0> <b1>
//                                         unary binary32 sweep, blocks [b0,b1) of 2^20 inputs each:
//                                         H <op> <block> <fnv64 of the results> <count>
//   C11 block <op> <quick|thorough> <b>   the lines of one sweep block (for bisection)
//   C11 eval <op> <ty> <hex args..>       one evaluation (replay)
//   C11 consts                            C <name> <float bits> <double bits>
//
// ty: f = float, d = double.  Sweep enumeration (shared with DrvC11.lean):
//   thorough: x = index (all 2^32 patterns, 4096 blocks)
//   quick   : x = (index/6 << 13) | {0,1,0xFFF,0x1000,0x1001,0x1FFF}[index%6]   (3 blocks)
#include <glm/glm.hpp>
#include <glm/ext/scalar_common.hpp>
#include <glm/ext/vector_common.hpp>
#include <glm/gtc/constants.hpp>
#include <glm/ext/scalar_constants.hpp>
#include <cstdio>
#include <cstdint>
#include <cstring>
#include <cstdlib>
#include <cmath>
#include <string>
#include <vector>

typedef uint32_t u32; typedef uint64_t u64;
static inline float F(u32 u) { float x; memcpy(&x, &u, 4); return x; }
static inline u32 B(float x) { u32 u; memcpy(&u, &x, 4); return u; }
static inline double D(u64 u) { double x; memcpy(&x, &u, 8); return x; }
static inline u64 B(double x) { u64 u; memcpy(&u, &x, 8); return u; }

// ---------------------------------------------------------------- PRNG
static u64 S[4];
static inline u64 rotl(u64 x, int k) { return (x << k) | (x >> (64 - k)); }
static u64 next() { u64 r = rotl(S[1] * 5, 7) * 9, t = S[1] << 17; S[2] ^= S[0]; S[3] ^= S[1]; S[1] ^= S[2]; S[0] ^= S[3]; S[2] ^= t; S[3] = rotl(S[3], 45); return r; }
static void seed(u64 s) { for (int i = 0; i < 4; i++) { s += 0x9E3779B97F4A7C15ull; u64 z = s; z = (z ^ (z >> 30)) * 0xBF58476D1CE4E5B9ull; z = (z ^ (z >> 27)) * 0x94D049BB133111EBull; S[i] = z ^ (z >> 31); } }

// ---------------------------------------------------------------- domains of the int-returning functions
static inline bool irDom(u32 x) { return x == 0x80000000u || x < 0x4F000000u; }                       // 0 <= x < 2^31
static inline bool urDom(u32 x) { return x == 0x80000000u || x < 0x4F800000u; }                       // 0 <= x < 2^32
static inline bool irDomD(u64 x) { return x == 0x8000000000000000ull || x < 0x41DFFFFFFFE00000ull; }  // 0 <= x < 2^31 - 0.5
static inline bool urDomD(u64 x) { return x == 0x8000000000000000ull || x < 0x41EFFFFFFFF00000ull; }  // 0 <= x < 2^32 - 0.5
static const u32 OUTDOM = 0xDEADBEEFu;

// ---------------------------------------------------------------- unary binary32 ops (sweepable)
enum { NANC = 1 };   // compare NaN as a class
struct UOp { const char* name; u32 (*f)(u32); bool exact; };   // exact: results hashed bit for bit (NaN payloads included)
#define UF(n, expr) static u32 u_##n(u32 u) { float x = F(u); (void)x; return expr; }
UF(floor, B(glm::floor(x)))
UF(ceil, B(glm::ceil(x)))
UF(trunc, B(glm::trunc(x)))
UF(round, B(glm::round(x)))
UF(roundEven, B(glm::roundEven(x)))
UF(fract, B(glm::fract(x)))
UF(abs, B(glm::abs(x)))
UF(sign, B(glm::sign(x)))
UF(isnan, (u32)glm::isnan(x))
UF(isinf, (u32)glm::isinf(x))
UF(iround, irDom(u) ? (u32)glm::iround(x) : OUTDOM)
UF(uround, urDom(u) ? (u32)glm::uround(x) : OUTDOM)
UF(wrapClamp, B(glm::clamp(x)))
UF(repeat, B(glm::repeat(x)))
UF(mirrorClamp, B(glm::mirrorClamp(x)))
UF(mirrorRepeat, B(glm::mirrorRepeat(x)))
UF(fbti, (u32)glm::floatBitsToInt(x))
UF(fbtu, (u32)glm::floatBitsToUint(x))
static u32 u_ibtf(u32 u) { return B(glm::intBitsToFloat((int)u)); }
static u32 u_ubtf(u32 u) { return B(glm::uintBitsToFloat((glm::uint)u)); }
static u32 u_modf_i(u32 u) { float i; glm::modf(F(u), i); return B(i); }
static u32 u_modf_f(u32 u) { float i; return B(glm::modf(F(u), i)); }
// vector forms, component 2 of a vec4 whose other lanes hold different values
#define VF(n, call) static u32 u_v##n(u32 u) { float x = F(u); glm::vec4 v(1.5f, -x, x, 0.25f); return B(call(v).z); }
VF(floor, glm::floor) VF(ceil, glm::ceil) VF(trunc, glm::trunc) VF(round, glm::round) VF(roundEven, glm::roundEven)
VF(fract, glm::fract) VF(abs, glm::abs) VF(sign, glm::sign)
static u32 u_visnan(u32 u) { glm::vec4 v(1.5f, 0.f, F(u), 0.25f); return (u32)glm::isnan(v).z; }
static u32 u_visinf(u32 u) { glm::vec4 v(1.5f, 0.f, F(u), 0.25f); return (u32)glm::isinf(v).z; }
static u32 u_viround(u32 u) { if (!irDom(u)) return OUTDOM; glm::vec4 v(1.5f, 0.f, F(u), 0.25f); return (u32)glm::iround(v).z; }
static u32 u_vuround(u32 u) { if (!urDom(u)) return OUTDOM; glm::vec4 v(1.5f, 0.f, F(u), 0.25f); return (u32)glm::uround(v).z; }
static u32 u_vwrapClamp(u32 u) { glm::vec4 v(1.5f, 0.f, F(u), 0.25f); return B(glm::clamp(v).z); }
static u32 u_vrepeat(u32 u) { glm::vec4 v(1.5f, 0.f, F(u), 0.25f); return B(glm::repeat(v).z); }
static u32 u_vmirrorClamp(u32 u) { glm::vec4 v(1.5f, 0.f, F(u), 0.25f); return B(glm::mirrorClamp(v).z); }
static u32 u_vmirrorRepeat(u32 u) { glm::vec4 v(1.5f, 0.f, F(u), 0.25f); return B(glm::mirrorRepeat(v).z); }
static u32 u_vfbti(u32 u) { glm::vec4 v(1.5f, 0.f, F(u), 0.25f); return (u32)glm::floatBitsToInt(v).z; }
static u32 u_vfbtu(u32 u) { glm::vec4 v(1.5f, 0.f, F(u), 0.25f); return (u32)glm::floatBitsToUint(v).z; }
static u32 u_vibtf(u32 u) { glm::ivec4 v(7, 0, (int)u, -1); return B(glm::intBitsToFloat(v).z); }
static u32 u_vubtf(u32 u) { glm::uvec4 v(7u, 0u, u, 1u); return B(glm::uintBitsToFloat(v).z); }

#define U(n) { #n, u_##n, false }
#define X(n) { #n, u_##n, true }
static const UOp UOPS[] = {
	U(floor), U(ceil), U(trunc), U(round), U(roundEven), U(fract), X(abs), X(sign), X(isnan), X(isinf),
	X(iround), X(uround), X(wrapClamp), U(repeat), U(mirrorClamp), U(mirrorRepeat),
	X(fbti), X(fbtu), X(ibtf), X(ubtf), U(modf_i), U(modf_f),
	U(vfloor), U(vceil), U(vtrunc), U(vround), U(vroundEven), U(vfract), X(vabs), X(vsign), X(visnan), X(visinf),
	X(viround), X(vuround), X(vwrapClamp), U(vrepeat), U(vmirrorClamp), U(vmirrorRepeat),
	X(vfbti), X(vfbtu), X(vibtf), X(vubtf),
};
static const int NU = sizeof(UOPS) / sizeof(UOPS[0]);
static const UOp* findU(const char* n) { for (int i = 0; i < NU; i++) if (!strcmp(UOPS[i].name, n)) return &UOPS[i]; return 0; }

static const u32 LOW6[6] = { 0, 1, 0xFFF, 0x1000, 0x1001, 0x1FFF };
static inline u32 sweepInput(bool thorough, u64 idx) { return thorough ? (u32)idx : (u32)(((idx / 6) << 13) | LOW6[idx % 6]); }
static inline u64 sweepCount(bool thorough) { return thorough ? (1ull << 32) : (6ull << 19); }
static inline u32 canon(u32 r) { return ((r & 0x7FFFFFFFu) > 0x7F800000u) ? 0x7FC00000u : r; }

// ---------------------------------------------------------------- n-ary ops (line protocol), generic in T
template <typename T> struct Bits;
template <> struct Bits<float> { typedef u32 U; static float f(u64 u) { return F((u32)u); } static u64 b(float x) { return B(x); } static const char* ty() { return "f"; } };
template <> struct Bits<double> { typedef u64 U; static double f(u64 u) { return D(u); } static u64 b(double x) { return B(x); } static const char* ty() { return "d"; } };

template <typename T> static bool evalN(const std::string& op, const u64* a, int n, std::vector<u64>& r)
{
	typedef Bits<T> BT; typedef glm::vec<2, T, glm::defaultp> V2; typedef glm::vec<4, T, glm::defaultp> V4;
	T x = BT::f(a[0]), y = n > 1 ? BT::f(a[1]) : T(0), z = n > 2 ? BT::f(a[2]) : T(0), w = n > 3 ? BT::f(a[3]) : T(0);
	r.clear();
#define R1(e) { r.push_back(BT::b(e)); return true; }
	if (n == 1) {
		if (op == "floor") R1(glm::floor(x)) if (op == "ceil") R1(glm::ceil(x)) if (op == "trunc") R1(glm::trunc(x))
		if (op == "round") R1(glm::round(x)) if (op == "roundEven") R1(glm::roundEven(x)) if (op == "fract") R1(glm::fract(x))
		if (op == "abs") R1(glm::abs(x)) if (op == "sign") R1(glm::sign(x))
		if (op == "isnan") { r.push_back(glm::isnan(x)); return true; }
		if (op == "isinf") { r.push_back(glm::isinf(x)); return true; }
		if (op == "iround") { r.push_back((u32)glm::iround(x)); return true; }
		if (op == "uround") { r.push_back((u32)glm::uround(x)); return true; }
		if (op == "wrapClamp") R1(glm::clamp(x)) if (op == "repeat") R1(glm::repeat(x))
		if (op == "mirrorClamp") R1(glm::mirrorClamp(x)) if (op == "mirrorRepeat") R1(glm::mirrorRepeat(x))
		if (op == "modf") { T i; T f = glm::modf(x, i); r.push_back(BT::b(f)); r.push_back(BT::b(i)); return true; }
		if (op == "frexp") { int e = 0; T m = glm::frexp(x, e); r.push_back(BT::b(m)); r.push_back((u64)(u32)e); return true; }
		if (op == "v4") {   // per-component forms on a vec4 (a[0] in lane 1): floor ceil trunc round roundEven fract abs sign
			V4 v(T(1.5), x, -x, T(-2.5));
			V4 q;
			q = glm::floor(v); r.push_back(BT::b(q.y)); r.push_back(BT::b(q.z));
			q = glm::roundEven(v); r.push_back(BT::b(q.y)); r.push_back(BT::b(q.z));
			q = glm::fract(v); r.push_back(BT::b(q.y)); r.push_back(BT::b(q.z));
			q = glm::sign(v); r.push_back(BT::b(q.y)); r.push_back(BT::b(q.z));
			q = glm::abs(v); r.push_back(BT::b(q.y)); r.push_back(BT::b(q.z));
			q = glm::mirrorRepeat(v); r.push_back(BT::b(q.y)); r.push_back(BT::b(q.z));
			return true;
		}
	}
	if (n == 2) {
		if (op == "min") R1(glm::min(x, y)) if (op == "max") R1(glm::max(x, y))
		if (op == "fmin2") R1(glm::fmin(x, y)) if (op == "fmax2") R1(glm::fmax(x, y))
		if (op == "step") R1(glm::step(x, y))
		if (op == "mod") R1(glm::mod(x, y))
		if (op == "fadd") { volatile T s = x + y; R1((T)s) }
		if (op == "cmp") { r.push_back((u64)((x < y) | ((x <= y) << 1) | ((x == y) << 2) | ((x >= y) << 3) | ((x > y) << 4))); return true; }
		if (op == "ldexp") { int e = (int)(int32_t)(u32)a[1]; R1(glm::ldexp(x, e)) }
		// vector forms: both argument orders in one call
		if (op == "vmin") { V2 q = glm::min(V2(x, y), V2(y, x)); r.push_back(BT::b(q.x)); r.push_back(BT::b(q.y)); return true; }
		if (op == "vmax") { V2 q = glm::max(V2(x, y), V2(y, x)); r.push_back(BT::b(q.x)); r.push_back(BT::b(q.y)); return true; }
		if (op == "vmins") { V2 q = glm::min(V2(x, y), y); r.push_back(BT::b(q.x)); r.push_back(BT::b(q.y)); return true; }
		if (op == "vmaxs") { V2 q = glm::max(V2(x, y), y); r.push_back(BT::b(q.x)); r.push_back(BT::b(q.y)); return true; }
		if (op == "vfmin2") { V2 q = glm::fmin(V2(x, y), V2(y, x)); r.push_back(BT::b(q.x)); r.push_back(BT::b(q.y)); return true; }
		if (op == "vfmax2") { V2 q = glm::fmax(V2(x, y), V2(y, x)); r.push_back(BT::b(q.x)); r.push_back(BT::b(q.y)); return true; }
		if (op == "vstep") { V2 q = glm::step(V2(x, y), V2(y, x)); r.push_back(BT::b(q.x)); r.push_back(BT::b(q.y)); return true; }
	}
	if (n == 3) {
		if (op == "clamp") R1(glm::clamp(x, y, z)) if (op == "fclamp") R1(glm::fclamp(x, y, z))
		if (op == "min3") R1(glm::min(x, y, z)) if (op == "max3") R1(glm::max(x, y, z))
		if (op == "fmin3") R1(glm::fmin(x, y, z)) if (op == "fmax3") R1(glm::fmax(x, y, z))
		if (op == "mixb") R1(glm::mix(x, y, a[2] != 0))
		if (op == "mix") R1(glm::mix(x, y, z))
		if (op == "smoothstep") R1(glm::smoothstep(x, y, z))
		if (op == "vclamp") { V2 q = glm::clamp(V2(x, x), V2(y, y), V2(z, z)); V2 q2 = glm::clamp(V2(x, x), y, z); r.push_back(BT::b(q.y)); r.push_back(BT::b(q2.x)); return true; }
		if (op == "vfclamp") { V2 q = glm::fclamp(V2(x, x), V2(y, y), V2(z, z)); V2 q2 = glm::fclamp(V2(x, x), y, z); r.push_back(BT::b(q.y)); r.push_back(BT::b(q2.x)); return true; }
		if (op == "vmin3") { V2 q = glm::min(V2(x, y), V2(y, z), V2(z, x)); r.push_back(BT::b(q.x)); r.push_back(BT::b(q.y)); return true; }
		if (op == "vmax3") { V2 q = glm::max(V2(x, y), V2(y, z), V2(z, x)); r.push_back(BT::b(q.x)); r.push_back(BT::b(q.y)); return true; }
		if (op == "vfmin3") { V2 q = glm::fmin(V2(x, y), V2(y, z), V2(z, x)); r.push_back(BT::b(q.x)); r.push_back(BT::b(q.y)); return true; }
		if (op == "vfmax3") { V2 q = glm::fmax(V2(x, y), V2(y, z), V2(z, x)); r.push_back(BT::b(q.x)); r.push_back(BT::b(q.y)); return true; }
		if (op == "vmixb") { V2 q = glm::mix(V2(x, y), V2(y, x), glm::vec<2, bool, glm::defaultp>(a[2] != 0, a[2] == 0)); r.push_back(BT::b(q.x)); r.push_back(BT::b(q.y)); return true; }
	}
	if (n == 4) {
		if (op == "min4") R1(glm::min(x, y, z, w)) if (op == "max4") R1(glm::max(x, y, z, w))
		if (op == "fmin4") R1(glm::fmin(x, y, z, w)) if (op == "fmax4") R1(glm::fmax(x, y, z, w))
		if (op == "vmin4") { V2 q = glm::min(V2(x, y), V2(y, z), V2(z, w), V2(w, x)); r.push_back(BT::b(q.x)); r.push_back(BT::b(q.y)); return true; }
		if (op == "vmax4") { V2 q = glm::max(V2(x, y), V2(y, z), V2(z, w), V2(w, x)); r.push_back(BT::b(q.x)); r.push_back(BT::b(q.y)); return true; }
		if (op == "vfmin4") { V2 q = glm::fmin(V2(x, y), V2(y, z), V2(z, w), V2(w, x)); r.push_back(BT::b(q.x)); r.push_back(BT::b(q.y)); return true; }
		if (op == "vfmax4") { V2 q = glm::fmax(V2(x, y), V2(y, z), V2(z, w), V2(w, x)); r.push_back(BT::b(q.x)); r.push_back(BT::b(q.y)); return true; }
	}
	return false;
}

static bool evalAny(const std::string& op, const std::string& ty, const u64* a, int n, std::vector<u64>& r)
{
	if (ty == "f") {
		if (n == 1) { const UOp* u = findU(op.c_str()); if (u && op != "iround" && op != "uround") { r.clear(); r.push_back(u->f((u32)a[0])); return true; } }
		return evalN<float>(op, a, n, r);
	}
	return evalN<double>(op, a, n, r);
}

static void emit(const std::string& op, const char* ty, const u64* a, int n)
{
	std::vector<u64> r;
	if (!evalAny(op, ty, a, n, r)) { fprintf(stderr, "unknown op %s/%d\n", op.c_str(), n); exit(3); }
	printf("%s %s", op.c_str(), ty);
	for (int i = 0; i < n; i++) printf(" %llx", (unsigned long long)a[i]);
	printf(" ->");
	for (size_t i = 0; i < r.size(); i++) printf(" %llx", (unsigned long long)r[i]);
	printf("\n");
}

// ---------------------------------------------------------------- special-value lattices
static std::vector<u64> latticeF(bool full)
{
	static const u32 pos[] = { 0x00000000, 0x00000001, 0x00800000, 0x3EFFFFFF, 0x3F000000, 0x3F7FFFFF, 0x3F800000, 0x3FC00000,
		0x40000000, 0x40200000, 0x40600000, 0x4AFFFFFE, 0x4AFFFFFF, 0x4B000000, 0x4B000001, 0x4B800000, 0x4EFFFFFF, 0x4F000000, 0x4F7FFFFF, 0x4F800000,
		0x7F7FFFFF, 0x7F800000, 0x7FC00000, 0x7F800001, 0x7FFFFFFF };
	static const u32 small[] = { 0x00000000, 0x00000001, 0x3F000000, 0x3F800000, 0x4B800000, 0x7F800000, 0x7FC00000, 0x7FA00001 };
	std::vector<u64> v;
	if (full) for (u32 p : pos) { v.push_back(p); v.push_back(p | 0x80000000u); }
	else for (u32 p : small) { v.push_back(p); v.push_back(p | 0x80000000u); }
	return v;
}
static std::vector<u64> latticeD(bool full)
{
	static const u64 pos[] = { 0x0000000000000000ull, 0x0000000000000001ull, 0x0010000000000000ull, 0x3FDFFFFFFFFFFFFFull, 0x3FE0000000000000ull,
		0x3FEFFFFFFFFFFFFFull, 0x3FF0000000000000ull, 0x3FF8000000000000ull, 0x4000000000000000ull, 0x4004000000000000ull, 0x400C000000000000ull,
		0x4160000000000000ull /*2^23*/, 0x4170000000000000ull /*2^24*/, 0x41DFFFFFFFC00000ull /*2^31-1*/, 0x41E0000000000000ull /*2^31*/, 0x41E0000000100000ull /*2^31+.5*/,
		0x41EFFFFFFFE00000ull /*2^32-1*/, 0x41F0000000000000ull, 0x432FFFFFFFFFFFFFull /*2^52-.5*/, 0x4330000000000000ull, 0x4330000000000001ull, 0x4340000000000000ull,
		0x7FEFFFFFFFFFFFFFull, 0x7FF0000000000000ull, 0x7FF8000000000000ull, 0x7FF0000000000001ull };
	static const u64 small[] = { 0x0000000000000000ull, 0x0000000000000001ull, 0x3FE0000000000000ull, 0x3FF0000000000000ull, 0x4340000000000000ull,
		0x7FF0000000000000ull, 0x7FF8000000000000ull, 0x7FF4000000000001ull };
	std::vector<u64> v;
	if (full) for (u64 p : pos) { v.push_back(p); v.push_back(p | 0x8000000000000000ull); }
	else for (u64 p : small) { v.push_back(p); v.push_back(p | 0x8000000000000000ull); }
	return v;
}

// random value: mixture of raw bit patterns, lattice values and values near interesting exponents
static u64 rndF(const std::vector<u64>& lat)
{
	u64 r = next();
	switch (r & 7) {
	case 0: return lat[(r >> 8) % lat.size()];
	case 1: case 2: { u32 e = 118 + (u32)((r >> 8) % 42); return ((r >> 32) & 0x807FFFFFu) | (e << 23); }             // |x| in 2^-9 .. 2^32
	case 3: { u32 e = 118 + (u32)((r >> 8) % 42); u32 m = (u32)(r >> 40) & 0x7FFFFF; int k = (r >> 16) % 24; m &= ~((1u << k) - 1); return ((r >> 32) & 0x80000000u) | (e << 23) | m; } // few fraction bits: ties
	default: return (u32)(r >> 32);
	}
}
static u64 rndD(const std::vector<u64>& lat)
{
	u64 r = next(), q = next();
	switch (r & 7) {
	case 0: return lat[(r >> 8) % lat.size()];
	case 1: case 2: { u64 e = 1014 + ((r >> 8) % 72); return (q & 0x800FFFFFFFFFFFFFull) | (e << 52); }
	case 3: { u64 e = 1014 + ((r >> 8) % 72); u64 m = q & 0xFFFFFFFFFFFFFull; int k = (r >> 16) % 53; m &= ~((1ull << k) - 1); return (q & 0x8000000000000000ull) | (e << 52) | m; }
	default: return q;
	}
}

struct NOp { const char* name; int n; int kind; };   // kind 1: third argument is a bool; 2: second argument is an int exponent
static const NOp NOPS[] = {
	{"min",2,0},{"max",2,0},{"fmin2",2,0},{"fmax2",2,0},{"step",2,0},{"mod",2,0},{"fadd",2,0},{"cmp",2,0},{"ldexp",2,2},
	{"vmin",2,0},{"vmax",2,0},{"vmins",2,0},{"vmaxs",2,0},{"vfmin2",2,0},{"vfmax2",2,0},{"vstep",2,0},
	{"clamp",3,0},{"fclamp",3,0},{"min3",3,0},{"max3",3,0},{"fmin3",3,0},{"fmax3",3,0},{"mixb",3,1},{"mix",3,0},{"smoothstep",3,0},
	{"vclamp",3,0},{"vfclamp",3,0},{"vmin3",3,0},{"vmax3",3,0},{"vfmin3",3,0},{"vfmax3",3,0},{"vmixb",3,1},
	{"min4",4,0},{"max4",4,0},{"fmin4",4,0},{"fmax4",4,0},{"vmin4",4,0},{"vmax4",4,0},{"vfmin4",4,0},{"vfmax4",4,0},
};
static const char* UNARY_LINE_OPS[] = { "floor","ceil","trunc","round","roundEven","fract","abs","sign","isnan","isinf","iround","uround",
	"wrapClamp","repeat","mirrorClamp","mirrorRepeat","modf","frexp","v4" };

template <typename T> static void linesFor(bool thorough)
{
	typedef Bits<T> BT;
	const bool isF = sizeof(T) == 4;
	std::vector<u64> full = isF ? latticeF(true) : latticeD(true), small = isF ? latticeF(false) : latticeD(false);
	const int nrand = thorough ? 300000 : 8000;
	u64 a[4];
	// unary: full lattice + random (binary32 is also swept exhaustively / on the 13-bit lattice in sweep mode)
	for (const char* op : UNARY_LINE_OPS) {
		std::string o(op);
		auto dom = [&](u64 x) { if (o == "iround") return isF ? irDom((u32)x) : irDomD(x); if (o == "uround") return isF ? urDom((u32)x) : urDomD(x); return true; };
		for (u64 x : full) if (dom(x)) { a[0] = x; emit(o, BT::ty(), a, 1); }
		for (int i = 0; i < nrand; i++) { u64 x = isF ? rndF(full) : rndD(full); if (dom(x)) { a[0] = x; emit(o, BT::ty(), a, 1); } }
	}
	for (const NOp& op : NOPS) {
		const std::vector<u64>& lat = (op.n == 2) ? full : (op.n == 3 ? (thorough ? full : small) : small);
		size_t L = lat.size();
		size_t total = 1; for (int i = 0; i < op.n; i++) total *= L;
		for (size_t idx = 0; idx < total; idx++) {
			size_t t = idx;
			for (int i = 0; i < op.n; i++) { a[i] = lat[t % L]; t /= L; }
			if (op.kind == 1) a[2] = (a[2] >> 3) & 1;
			if (op.kind == 2) a[1] = (u32)(int32_t)((int)(idx % 61) - 30);
			emit(op.name, BT::ty(), a, op.n);
		}
		for (int i = 0; i < nrand; i++) {
			for (int k = 0; k < op.n; k++) a[k] = isF ? rndF(full) : rndD(full);
			if (op.n >= 2 && (next() & 3) == 0) a[1] = a[0] ^ ((next() & 1) ? (isF ? 0x80000000ull : 0x8000000000000000ull) : 0);   // equal / opposite operands
			if (op.kind == 1) a[2] = next() & 1;
			if (op.kind == 2) a[1] = (u32)(int32_t)((int)(next() % 400) - 200);
			emit(op.name, BT::ty(), a, op.n);
		}
	}
}

int main(int argc, char** argv)
{
	if (argc < 2) return 2;
	std::string mode = argv[1];
	if (mode == "lines" && argc >= 4) {
		seed(strtoull(argv[2], 0, 10)); bool thorough = !strcmp(argv[3], "thorough");
		linesFor<float>(thorough); linesFor<double>(thorough);
		return 0;
	}
	if ((mode == "sweep" && argc >= 6) || (mode == "block" && argc >= 5)) {
		const UOp* u = findU(argv[2]); if (!u) { fprintf(stderr, "unknown sweep op %s\n", argv[2]); return 3; }
		bool thorough = !strcmp(argv[3], "thorough");
		u64 b0 = strtoull(argv[4], 0, 10), b1 = mode == "sweep" ? strtoull(argv[5], 0, 10) : b0 + 1;
		u64 total = sweepCount(thorough);
		for (u64 b = b0; b < b1; b++) {
			u64 lo = b << 20, hi = lo + (1ull << 20); if (lo >= total) break; if (hi > total) hi = total;
			u64 h = 0xcbf29ce484222325ull;
			for (u64 i = lo; i < hi; i++) {
				u32 x = sweepInput(thorough, i), r = u->exact ? u->f(x) : canon(u->f(x));
				if (mode == "block") printf("S:%s f %x -> %x\n", u->name, x, r);
				h = (h ^ r) * 0x100000001b3ull;
			}
			if (mode == "sweep") printf("H %s %llu %016llx %llu\n", u->name, (unsigned long long)b, (unsigned long long)h, (unsigned long long)(hi - lo));
		}
		return 0;
	}
	if (mode == "eval" && argc >= 5) {
		u64 a[4]; int n = argc - 4; if (n > 4) n = 4;
		for (int i = 0; i < n; i++) a[i] = strtoull(argv[4 + i], 0, 16);
		emit(argv[2], argv[3], a, n);
		return 0;
	}
	if (mode == "ops") { for (int i = 0; i < NU; i++) printf("%s\n", UOPS[i].name); return 0; }
	if (mode == "consts") {
#define C(n) printf("C %s %08x %016llx\n", #n, B(glm::n<float>()), (unsigned long long)B(glm::n<double>()));
		C(epsilon) C(pi) C(cos_one_over_two) C(zero) C(one) C(two_pi) C(tau) C(root_pi) C(half_pi) C(three_over_two_pi) C(quarter_pi)
		C(one_over_pi) C(one_over_two_pi) C(two_over_pi) C(four_over_pi) C(two_over_root_pi) C(one_over_root_two) C(root_half_pi)
		C(root_two_pi) C(root_ln_four) C(e) C(euler) C(root_two) C(root_three) C(root_five) C(ln_two) C(ln_ten) C(ln_ln_two)
		C(third) C(two_thirds) C(golden_ratio)
		return 0;
	}
	return 2;
}
