// C18 correspondence harness: the real glm power-of-two / multiple / bit-field utilities (from -I<repo>) evaluated on
// inputs generated HERE; the Lean driver drv_c18 re-evaluates the hand model and the executable specification on the
// same inputs (checks/c18.py compares).
//
//   C18.bin plan <quick|thorough> <seed>     B-lines (sweep blocks, one 64-bit hash of all results of the block) and
//                                            L-lines (single evaluations), then a HARNESS summary line
//   C18.bin dump <op> <ty> <p1> <p2> <lo> <count>   the L-lines of one sweep block
//   C18.bin eval <op> <ty> <a> <b> <c> <d>   one evaluation (replay)
//
//   B <op> <ty> <p1> <p2> <lo> <count> <hash>   for i in [lo, lo+count): generic ops: a = i, b = p1, c = p2;
//                                               interleave/deinterleave/nlz/sqrt ops: a = (p1 << 16) | i (packed operands)
//   L <op> <ty> <a> <b> <c> <d> -> <r1> [<r2>]  all numbers are raw bit patterns, zero-extended, decimal
//
// Compiled with -fwrapv so that signed overflow is the wrapping the model has; shift counts are kept inside
// [0, width of the promoted type) and divisors non-zero (anything else is undefined and is not exercised).
#define GLM_ENABLE_EXPERIMENTAL
#include <glm/glm.hpp>
#include <glm/gtc/round.hpp>
#include <glm/gtc/bitfield.hpp>
#include <glm/gtc/integer.hpp>
#include <glm/gtx/integer.hpp>
#include <glm/gtx/bit.hpp>
#include <glm/ext/scalar_integer.hpp>
#include <glm/ext/vector_integer.hpp>
#include <cstdio>
#include <cstdlib>
#include <cstring>
#include <cstdint>
#include <string>
#include <vector>
#include <set>
#include <type_traits>

#if GLM_ARCH != GLM_ARCH_X86
#error "the model assumes the shift-based integer compute_sign (GLM_ARCH == GLM_ARCH_X86, func_common.inl:182-194)"
#endif
static_assert(GLM_CONFIG_SIMD == GLM_DISABLE, "the model assumes the non-SIMD build");
static_assert(!GLM_HAS_BITSCAN_WINDOWS, "the model assumes the generic compute_findMSB_vec");

typedef uint64_t u64; typedef int64_t i64; typedef uint32_t u32;

// ---- xoshiro256**
static u64 S[4];
static inline u64 rotl64(u64 x, int k) { return (x << k) | (x >> (64 - k)); }
static u64 rnd() { u64 r = rotl64(S[1] * 5, 7) * 9, t = S[1] << 17; S[2] ^= S[0]; S[3] ^= S[1]; S[1] ^= S[2]; S[0] ^= S[3]; S[2] ^= t; S[3] = rotl64(S[3], 45); return r; }
static void seed(u64 s) { for (int i = 0; i < 4; ++i) { s += 0x9e3779b97f4a7c15ull; u64 z = s; z = (z ^ (z >> 30)) * 0xbf58476d1ce4e5b9ull; z = (z ^ (z >> 27)) * 0x94d049bb133111ebull; S[i] = z ^ (z >> 31); } }

static const u64 FNV0 = 0xcbf29ce484222325ull, FNVP = 0x100000001b3ull;

enum Op {
	ISPOW2, CEILPOW2, NEXTPOW2, FLOORPOW2, PREVPOW2, ROUNDPOW2, HBV, LBV, ABOVE, BELOW, NEAREST, MASK, LOG2, FACT,
	CEILMUL, NEXTMUL, FLOORMUL, PREVMUL, ROUNDMUL, ISMUL, FINDNSB, ROTR, ROTL, FILLONE, FILLZERO,
	// vector overloads of the above (same model): component z of a vec<3,T> built from the same arguments
	V_ISPOW2, V_CEILPOW2, V_NEXTPOW2, V_FLOORPOW2, V_PREVPOW2, V_ROUNDPOW2, V_HBV, V_MASK, V_LOG2,
	V_CEILMUL, V_NEXTMUL, V_FLOORMUL, V_PREVMUL, V_ROUNDMUL, V_ISMUL, V_FINDNSB, V_ROTR, V_ROTL, V_FILLONE, V_FILLZERO,
	S_NEXTMUL, S_PREVMUL, S_ISMUL,   // (vec, scalar T) overloads
	NGENERIC,
	IL2X8 = 100, IL2X16, IL2X32, IL3X8, IL3X16, IL3X32, IL4X8, IL4X16, DEIL16, DEIL32, DEIL64,
	IL2X8S, IL2X16S, IL2X32S, IL3X8S, IL3X16S, IL3X32S, IL4X8S, IL4X16S,      // signed overloads
	IL2X8V, IL2X16V, IL2X32V, IL3X8V, IL3X16V, IL3X32V, IL4X8V, IL4X16V,      // vector overloads
	NLZ, SQRTU, SQRTS, POWU, POWS, MODU, MODS,
	CEILMULF, FLOORMULF, ROUNDMULF, NOPS
};
struct OpName { Op op; const char* name; };
static const OpName OPS[] = {
	{ISPOW2,"ispow2"},{CEILPOW2,"ceilpow2"},{NEXTPOW2,"nextpow2"},{FLOORPOW2,"floorpow2"},{PREVPOW2,"prevpow2"},{ROUNDPOW2,"roundpow2"},
	{HBV,"hbv"},{LBV,"lbv"},{ABOVE,"above"},{BELOW,"below"},{NEAREST,"nearest"},{MASK,"mask"},{LOG2,"log2"},{FACT,"fact"},
	{CEILMUL,"ceilmul"},{NEXTMUL,"nextmul"},{FLOORMUL,"floormul"},{PREVMUL,"prevmul"},{ROUNDMUL,"roundmul"},{ISMUL,"ismul"},
	{FINDNSB,"findnsb"},{ROTR,"rotr"},{ROTL,"rotl"},{FILLONE,"fillone"},{FILLZERO,"fillzero"},
	{V_ISPOW2,"vispow2"},{V_CEILPOW2,"ceilpow2@v"},{V_NEXTPOW2,"nextpow2@v"},{V_FLOORPOW2,"floorpow2@v"},{V_PREVPOW2,"prevpow2@v"},{V_ROUNDPOW2,"roundpow2@v"},
	{V_HBV,"hbv@v"},{V_MASK,"mask@v"},{V_LOG2,"log2@v"},
	{V_CEILMUL,"ceilmul@v"},{V_NEXTMUL,"nextmul@v"},{V_FLOORMUL,"floormul@v"},{V_PREVMUL,"prevmul@v"},{V_ROUNDMUL,"roundmul@v"},{V_ISMUL,"ismul@v"},
	{V_FINDNSB,"findnsb@v"},{V_ROTR,"rotr@v"},{V_ROTL,"rotl@v"},{V_FILLONE,"fillone@v"},{V_FILLZERO,"fillzero@v"},
	{S_NEXTMUL,"nextmul@s"},{S_PREVMUL,"prevmul@s"},{S_ISMUL,"ismul@s"},
	{IL2X8,"il2x8"},{IL2X16,"il2x16"},{IL2X32,"il2x32"},{IL3X8,"il3x8"},{IL3X16,"il3x16"},{IL3X32,"il3x32"},{IL4X8,"il4x8"},{IL4X16,"il4x16"},
	{DEIL16,"deil16"},{DEIL32,"deil32"},{DEIL64,"deil64"},
	{IL2X8S,"il2x8@i"},{IL2X16S,"il2x16@i"},{IL2X32S,"il2x32@i"},{IL3X8S,"il3x8@i"},{IL3X16S,"il3x16@i"},{IL3X32S,"il3x32@i"},{IL4X8S,"il4x8@i"},{IL4X16S,"il4x16@i"},
	{IL2X8V,"il2x8@v"},{IL2X16V,"il2x16@v"},{IL2X32V,"il2x32@v"},{IL3X8V,"il3x8@v"},{IL3X16V,"il3x16@v"},{IL3X32V,"il3x32@v"},{IL4X8V,"il4x8@v"},{IL4X16V,"il4x16@v"},
	{NLZ,"nlz"},{SQRTU,"sqrtu"},{SQRTS,"sqrts"},{POWU,"powu"},{POWS,"pows"},{MODU,"modu"},{MODS,"mods"},
	{CEILMULF,"ceilmulf"},{FLOORMULF,"floormulf"},{ROUNDMULF,"roundmulf"},
};
static const char* opname(int op) { for (auto& o : OPS) if (o.op == op) return o.name; return "?"; }
static int opid(const char* s) { for (auto& o : OPS) if (!strcmp(o.name, s)) return o.op; return -1; }

template<class T> static inline u64 bits(T r) { return (u64)(typename std::make_unsigned<T>::type)r; }

// ---- the real glm, generic integer type T.  a: first operand (T); b, c: T or int operands (raw bits)
template<class T> static inline u64 evT(int op, u64 a, u64 b, u64 c)
{
	typedef glm::vec<3, T, glm::defaultp> V;
	T x = (T)a, m = (T)b; int ib = (int)(u32)b, ic = (int)(u32)c;
	switch (op) {
	case ISPOW2: return glm::isPowerOfTwo(x) ? 1 : 0;
	case CEILPOW2: return bits<T>(glm::ceilPowerOfTwo(x));
	case NEXTPOW2: return bits<T>(glm::nextPowerOfTwo(x));
	case FLOORPOW2: return bits<T>(glm::floorPowerOfTwo(x));
	case PREVPOW2: return bits<T>(glm::prevPowerOfTwo(x));
	case ROUNDPOW2: return bits<T>(glm::roundPowerOfTwo(x));
	case HBV: return bits<T>(glm::highestBitValue(x));
	case LBV: return bits<T>(glm::lowestBitValue(x));
	case ABOVE: return bits<T>(glm::powerOfTwoAbove(x));
	case BELOW: return bits<T>(glm::powerOfTwoBelow(x));
	case NEAREST: return bits<T>(glm::powerOfTwoNearest(x));
	case MASK: return bits<T>(glm::mask(x));
	case LOG2: return bits<T>(glm::log2(x));
	case FACT: return bits<T>(glm::factorial(x));
	case CEILMUL: return bits<T>(glm::ceilMultiple(x, m));
	case NEXTMUL: return bits<T>(glm::nextMultiple(x, m));
	case FLOORMUL: return bits<T>(glm::floorMultiple(x, m));
	case PREVMUL: return bits<T>(glm::prevMultiple(x, m));
	case ROUNDMUL: return bits<T>(glm::roundMultiple(x, m));
	case ISMUL: return glm::isMultiple(x, m) ? 1 : 0;
	case FINDNSB: return (u64)(u32)glm::findNSB(x, ib);
	case ROTR: return bits<T>(glm::bitfieldRotateRight(x, ib));
	case ROTL: return bits<T>(glm::bitfieldRotateLeft(x, ib));
	case FILLONE: return bits<T>(glm::bitfieldFillOne(x, ib, ic));
	case FILLZERO: return bits<T>(glm::bitfieldFillZero(x, ib, ic));
	case V_ISPOW2: return glm::isPowerOfTwo(V(T(1), T(3), x)).z ? 1 : 0;
	case V_CEILPOW2: return bits<T>(glm::ceilPowerOfTwo(V(T(1), T(3), x)).z);
	case V_NEXTPOW2: return bits<T>(glm::nextPowerOfTwo(V(T(1), T(3), x)).z);
	case V_FLOORPOW2: return bits<T>(glm::floorPowerOfTwo(V(T(1), T(3), x)).z);
	case V_PREVPOW2: return bits<T>(glm::prevPowerOfTwo(V(T(1), T(3), x)).z);
	case V_ROUNDPOW2: return bits<T>(glm::roundPowerOfTwo(V(T(1), T(3), x)).z);
	case V_HBV: return bits<T>(glm::highestBitValue(V(T(1), T(3), x)).z);
	case V_MASK: return bits<T>(glm::mask(V(T(1), T(3), x)).z);
	case V_LOG2: return bits<T>(glm::log2(V(T(1), T(3), x)).z);
	case V_CEILMUL: return bits<T>(glm::ceilMultiple(V(T(1), T(3), x), V(T(1), T(2), m)).z);
	case V_NEXTMUL: return bits<T>(glm::nextMultiple(V(T(1), T(3), x), V(T(1), T(2), m)).z);
	case V_FLOORMUL: return bits<T>(glm::floorMultiple(V(T(1), T(3), x), V(T(1), T(2), m)).z);
	case V_PREVMUL: return bits<T>(glm::prevMultiple(V(T(1), T(3), x), V(T(1), T(2), m)).z);
	case V_ROUNDMUL: return bits<T>(glm::roundMultiple(V(T(1), T(3), x), V(T(1), T(2), m)).z);
	case V_ISMUL: return glm::isMultiple(V(T(1), T(3), x), V(T(1), T(2), m)).z ? 1 : 0;
	case S_NEXTMUL: return bits<T>(glm::nextMultiple(V(T(1), T(3), x), m).z);
	case S_PREVMUL: return bits<T>(glm::prevMultiple(V(T(1), T(3), x), m).z);
	case S_ISMUL: return glm::isMultiple(V(T(1), T(3), x), m).z ? 1 : 0;
	case V_FINDNSB: return (u64)(u32)glm::findNSB(V(T(1), T(3), x), glm::vec<3, int, glm::defaultp>(1, 1, ib)).z;
	case V_ROTR: return bits<T>(glm::bitfieldRotateRight(V(T(1), T(3), x), ib).z);
	case V_ROTL: return bits<T>(glm::bitfieldRotateLeft(V(T(1), T(3), x), ib).z);
	case V_FILLONE: return bits<T>(glm::bitfieldFillOne(V(T(1), T(3), x), ib, ic).z);
	case V_FILLZERO: return bits<T>(glm::bitfieldFillZero(V(T(1), T(3), x), ib, ic).z);
	}
	return 0;
}
static u64 evG(int op, int ty, u64 a, u64 b, u64 c)
{
	switch (ty) {
	case 0: return evT<glm::int8>(op, a, b, c);   case 1: return evT<glm::uint8>(op, a, b, c);
	case 2: return evT<glm::int16>(op, a, b, c);  case 3: return evT<glm::uint16>(op, a, b, c);
	case 4: return evT<glm::int32>(op, a, b, c);  case 5: return evT<glm::uint32>(op, a, b, c);
	case 6: return evT<glm::int64>(op, a, b, c);  case 7: return evT<glm::uint64>(op, a, b, c);
	}
	return 0;
}
static const char* TYN[] = { "i8", "u8", "i16", "u16", "i32", "u32", "i64", "u64", "f32", "f64", "-" };
static int tyid(const char* s) { for (int i = 0; i < 11; ++i) if (!strcmp(TYN[i], s)) return i; return -1; }
static int widthOf(int ty) { static const int W[] = { 8, 8, 16, 16, 32, 32, 64, 64 }; return W[ty]; }
static bool isSigned(int ty) { return (ty & 1) == 0; }

// ---- fixed-type functions.  Returns the number of results (r[0], r[1])
static int evF(int op, int ty, u64 a, u64 b, u64 c, u64 d, u64* r)
{
	using namespace glm;
	switch (op) {
	case IL2X8: r[0] = bitfieldInterleave((uint8)a, (uint8)b); return 1;
	case IL2X16: r[0] = bitfieldInterleave((uint16)a, (uint16)b); return 1;
	case IL2X32: r[0] = bitfieldInterleave((uint32)a, (uint32)b); return 1;
	case IL3X8: r[0] = bitfieldInterleave((uint8)a, (uint8)b, (uint8)c); return 1;
	case IL3X16: r[0] = bitfieldInterleave((uint16)a, (uint16)b, (uint16)c); return 1;
	case IL3X32: r[0] = bitfieldInterleave((uint32)a, (uint32)b, (uint32)c); return 1;
	case IL4X8: r[0] = bitfieldInterleave((uint8)a, (uint8)b, (uint8)c, (uint8)d); return 1;
	case IL4X16: r[0] = bitfieldInterleave((uint16)a, (uint16)b, (uint16)c, (uint16)d); return 1;
	case IL2X8S: r[0] = (uint16)bitfieldInterleave((int8)a, (int8)b); return 1;
	case IL2X16S: r[0] = (uint32)bitfieldInterleave((int16)a, (int16)b); return 1;
	case IL2X32S: r[0] = (uint64)bitfieldInterleave((int32)a, (int32)b); return 1;
	case IL3X8S: r[0] = (uint32)bitfieldInterleave((int8)a, (int8)b, (int8)c); return 1;
	case IL3X16S: r[0] = (uint64)bitfieldInterleave((int16)a, (int16)b, (int16)c); return 1;
	case IL3X32S: r[0] = (uint64)bitfieldInterleave((int32)a, (int32)b, (int32)c); return 1;
	case IL4X8S: r[0] = (uint32)bitfieldInterleave((int8)a, (int8)b, (int8)c, (int8)d); return 1;
	case IL4X16S: r[0] = (uint64)bitfieldInterleave((int16)a, (int16)b, (int16)c, (int16)d); return 1;
	case IL2X8V: r[0] = bitfieldInterleave(u8vec2((uint8)a, (uint8)b)); return 1;
	case IL2X16V: r[0] = bitfieldInterleave(u16vec2((uint16)a, (uint16)b)); return 1;
	case IL2X32V: r[0] = bitfieldInterleave(u32vec2((uint32)a, (uint32)b)); return 1;
	case IL3X8V: r[0] = bitfieldInterleave(u8vec3((uint8)a, (uint8)b, (uint8)c)); return 1;
	case IL3X16V: r[0] = bitfieldInterleave(u16vec3((uint16)a, (uint16)b, (uint16)c)); return 1;
	case IL3X32V: r[0] = bitfieldInterleave(u32vec3((uint32)a, (uint32)b, (uint32)c)); return 1;
	case IL4X8V: r[0] = bitfieldInterleave(u8vec4((uint8)a, (uint8)b, (uint8)c, (uint8)d)); return 1;
	case IL4X16V: r[0] = bitfieldInterleave(u16vec4((uint16)a, (uint16)b, (uint16)c, (uint16)d)); return 1;
	case DEIL16: { u8vec2 v = bitfieldDeinterleave((uint16)a); r[0] = v.x; r[1] = v.y; return 2; }
	case DEIL32: { u16vec2 v = bitfieldDeinterleave((uint32)a); r[0] = v.x; r[1] = v.y; return 2; }
	case DEIL64: { u32vec2 v = bitfieldDeinterleave((uint64)a); r[0] = v.x; r[1] = v.y; return 2; }
	case NLZ: r[0] = nlz((unsigned int)a); return 1;
	case SQRTU: r[0] = glm::sqrt((glm::uint)a); return 1;
	case SQRTS: r[0] = (u32)glm::sqrt((int)(u32)a); return 1;
	case POWU: r[0] = glm::pow((glm::uint)a, (glm::uint)b); return 1;
	case POWS: r[0] = (u32)glm::pow((int)(u32)a, (glm::uint)b); return 1;
	case MODU: r[0] = glm::mod((glm::uint)a, (glm::uint)b); return 1;
	case MODS: r[0] = (u32)glm::mod((int)(u32)a, (int)(u32)b); return 1;
	case CEILMULF: case FLOORMULF: case ROUNDMULF:
		if (ty == 8) {
			float x, m, y; u32 xa = (u32)a, mb = (u32)b; memcpy(&x, &xa, 4); memcpy(&m, &mb, 4);
			y = op == CEILMULF ? glm::ceilMultiple(x, m) : op == FLOORMULF ? glm::floorMultiple(x, m) : glm::roundMultiple(x, m);
			u32 yb; memcpy(&yb, &y, 4); r[0] = yb; return 1;
		} else {
			double x, m, y; memcpy(&x, &a, 8); memcpy(&m, &b, 8);
			y = op == CEILMULF ? glm::ceilMultiple(x, m) : op == FLOORMULF ? glm::floorMultiple(x, m) : glm::roundMultiple(x, m);
			u64 yb; memcpy(&yb, &y, 8); r[0] = yb; return 1;
		}
	}
	return 0;
}
// packed operand of the block form of a fixed-type op: a = (p1 << 16) | i
static inline void unpack(int op, u64 comb, u64& a, u64& b, u64& c, u64& d)
{
	a = b = c = d = 0;
	switch (op) {
	case IL2X8: a = comb & 0xff; b = (comb >> 8) & 0xff; break;
	case IL3X8: a = comb & 0xff; b = (comb >> 8) & 0xff; c = (comb >> 16) & 0xff; break;
	case IL4X8: a = comb & 0xff; b = (comb >> 8) & 0xff; c = (comb >> 16) & 0xff; d = (comb >> 24) & 0xff; break;
	case IL2X16: a = comb & 0xffff; b = (comb >> 16) & 0xffff; break;
	default: a = comb; break;    // deil16, deil32, nlz, sqrtu, sqrts
	}
}

static u64 n_eval = 0;
static void line(int op, int ty, u64 a, u64 b, u64 c, u64 d)
{
	++n_eval;
	if (op < NGENERIC) { printf("L %s %s %llu %llu %llu %llu -> %llu\n", opname(op), TYN[ty], (unsigned long long)a, (unsigned long long)b, (unsigned long long)c, (unsigned long long)d, (unsigned long long)evG(op, ty, a, b, c)); return; }
	u64 r[2]; int n = evF(op, ty, a, b, c, d, r);
	if (n == 1) printf("L %s %s %llu %llu %llu %llu -> %llu\n", opname(op), TYN[ty], (unsigned long long)a, (unsigned long long)b, (unsigned long long)c, (unsigned long long)d, (unsigned long long)r[0]);
	else printf("L %s %s %llu %llu %llu %llu -> %llu %llu\n", opname(op), TYN[ty], (unsigned long long)a, (unsigned long long)b, (unsigned long long)c, (unsigned long long)d, (unsigned long long)r[0], (unsigned long long)r[1]);
}
static void block(int op, int ty, u64 p1, u64 p2, u64 lo, u64 count, bool lines)
{
	u64 h = FNV0;
	if (op < NGENERIC) {
		u64 wm = widthOf(ty) == 64 ? ~0ull : ((1ull << widthOf(ty)) - 1);
		for (u64 i = lo; i < lo + count; ++i) {
			if (lines) { line(op, ty, i & wm, p1, p2, 0); continue; }
			h = (h ^ evG(op, ty, i & wm, p1, p2)) * FNVP;
		}
	} else {
		for (u64 i = lo; i < lo + count; ++i) {
			u64 a, b, c, d, r[2]; unpack(op, (p1 << 16) | i, a, b, c, d);
			if (lines) { line(op, ty, a, b, c, d); continue; }
			int n = evF(op, ty, a, b, c, d, r);
			h = (h ^ r[0]) * FNVP; if (n == 2) h = (h ^ r[1]) * FNVP;
		}
	}
	if (!lines) { n_eval += count; printf("B %s %s %llu %llu %llu %llu %llu\n", opname(op), TYN[ty], (unsigned long long)p1, (unsigned long long)p2, (unsigned long long)lo, (unsigned long long)count, (unsigned long long)h); }
}

// ---- input generation
static std::vector<u64> boundary(int w)   // raw w-bit patterns
{
	std::set<u64> s; u64 wm = w == 64 ? ~0ull : ((1ull << w) - 1);
	for (u64 v = 0; v <= 20; ++v) { s.insert(v & wm); s.insert((0 - v) & wm); }
	for (int k = 0; k < w; ++k) { u64 p = 1ull << k; s.insert(p & wm); s.insert((p - 1) & wm); s.insert((p + 1) & wm); s.insert((p + (p >> 1)) & wm); s.insert((p + (p >> 1) - 1) & wm); s.insert((p + (p >> 1) + 1) & wm); s.insert((0 - p) & wm); s.insert((0 - p - 1) & wm); s.insert((0 - p + 1) & wm); }
	s.insert(wm); s.insert(wm >> 1); s.insert((wm >> 1) + 1); s.insert(0x5555555555555555ull & wm); s.insert(0xAAAAAAAAAAAAAAAAull & wm); s.insert(0x0123456789ABCDEFull & wm);
	return std::vector<u64>(s.begin(), s.end());
}
static u64 rndw(int w)   // random w-bit pattern with a random magnitude (uniform in the bit length)
{
	u64 wm = w == 64 ? ~0ull : ((1ull << w) - 1); u64 r = rnd();
	switch (rnd() % 4) { case 0: return r & wm; case 1: { int k = 1 + (int)(rnd() % w); u64 km = k == 64 ? ~0ull : ((1ull << k) - 1); return r & km; }
	case 2: { int k = 1 + (int)(rnd() % w); u64 km = k == 64 ? ~0ull : ((1ull << k) - 1); return (0 - (r & km)) & wm; } default: { int k = (int)(rnd() % w); return ((1ull << k) + (rnd() % 5) - 2) & wm; } }
}
static std::vector<u64> multiples16(bool sgn, bool thorough)
{
	std::set<u64> s; u64 mx = sgn ? 0x7fff : 0xffff;
	for (u64 m = 1; m <= (thorough ? 128u : 16u); ++m) s.insert(m);
	for (int k = 5; k < 16; ++k) for (int d = -1; d <= 1; ++d) { if (!thorough && d != 0 && k != 5 && k != 8 && k != 11 && k < 14) continue; u64 m = (1ull << k) + d; if (m >= 1 && m <= mx) s.insert(m); }
	static const u64 X[] = { 100, 255, 256, 257, 1000, 10000 }; for (u64 m : X) s.insert(m);
	s.insert(mx); s.insert(mx - 1); s.insert(mx / 2); s.insert(mx / 2 + 1); s.insert(mx / 3);
	for (int i = 0; i < (thorough ? 96 : 6); ++i) s.insert(1 + rnd() % mx);
	return std::vector<u64>(s.begin(), s.end());
}
static std::vector<u64> his(bool thorough, int nquick)   // the high halves of the packed 32-bit operands that are swept
{
	std::vector<u64> v;
	if (thorough) { for (u64 h = 0; h < 65536; ++h) v.push_back(h); return v; }
	std::set<u64> s; static const u64 X[] = { 0, 1, 2, 3, 0xff, 0x100, 0x101, 0x7fff, 0x8000, 0x8001, 0xfffe, 0xffff, 0x5555, 0xaaaa, 0x00ff, 0xff00, 0x0f0f, 0xf0f0 };
	for (u64 h : X) s.insert(h);
	while ((int)s.size() < nquick) s.insert(rnd() & 0xffff);
	return std::vector<u64>(s.begin(), s.end());
}
static u64 f32bits(float f) { u32 b; memcpy(&b, &f, 4); return b; }
static u64 f64bits(double f) { u64 b; memcpy(&b, &f, 8); return b; }

static void plan(bool thorough, u64 sd)
{
	seed(sd);
	const int NR = thorough ? 4000 : 700;
	static const int U1[] = { ISPOW2, CEILPOW2, NEXTPOW2, HBV, LBV, LOG2 };
	static const int U1P[] = { FLOORPOW2, PREVPOW2, ROUNDPOW2, ABOVE, BELOW, NEAREST };     // through the public findMSB / highestBitValue
	static const int V1[] = { V_ISPOW2, V_CEILPOW2, V_NEXTPOW2, V_HBV, V_LOG2 };
	static const int V1P[] = { V_FLOORPOW2, V_PREVPOW2, V_ROUNDPOW2 };
	static const int B2[] = { CEILMUL, NEXTMUL, FLOORMUL, PREVMUL, ROUNDMUL, ISMUL };
	static const int V2[] = { V_CEILMUL, V_NEXTMUL, V_FLOORMUL, V_PREVMUL, V_ROUNDMUL, V_ISMUL, S_NEXTMUL, S_PREVMUL, S_ISMUL };
	for (int ty = 0; ty < 8; ++ty) {
		int w = widthOf(ty); bool sg = isSigned(ty); u64 wm = w == 64 ? ~0ull : ((1ull << w) - 1);
		u64 smax = wm >> 1, mmax = sg ? smax : wm;
		std::vector<u64> bd = boundary(w);
		if (w <= 16) {
			u64 all = 1ull << w, nonneg = sg ? (1ull << (w - 1)) : all;
			for (int op : U1) block(op, ty, 0, 0, 0, all, false);
			block(V_ISPOW2, ty, 0, 0, 0, all, false);
			for (int op : U1P) block(op, ty, 0, 0, 0, all, false);
			block(MASK, ty, 0, 0, 0, nonneg, false);
			std::vector<u64> ms;
			if (w == 8) for (u64 m = 1; m <= mmax; ++m) ms.push_back(m); else ms = multiples16(sg, thorough);
			for (int op : B2) for (u64 m : ms) block(op, ty, m, 0, 0, all, false);
			for (int n = 1; n <= w + 1; ++n) block(FINDNSB, ty, (u64)n, 0, 0, all, false);
			for (int s = 0; s <= w; ++s) { block(ROTR, ty, (u64)s, 0, 0, all, false); block(ROTL, ty, (u64)s, 0, 0, all, false); }
			for (int first = 0; first < w; ++first) for (int cnt = 0; first + cnt <= w; ++cnt) {
				bool pick = thorough || w == 8 || (first == 0 && cnt % 3 != 1) || first == w - 1 || (cnt == 1 && first % 4 == 3) || first + cnt == w || (first * 7 + cnt) % 11 == 0;
				if (!pick) continue;
				block(FILLONE, ty, (u64)first, (u64)cnt, 0, all, false); block(FILLZERO, ty, (u64)first, (u64)cnt, 0, all, false);
			}
		}
		block(FACT, ty, 0, 0, 0, 34, false);
		if (sg) for (u64 v : bd) if ((v >> (w - 1)) & 1) line(FACT, ty, v, 0, 0, 0);
		// boundary + random (all widths: also feeds the vector overloads)
		int nr = w <= 16 ? NR / 4 : NR;
		std::vector<u64> xs = bd; for (int i = 0; i < nr; ++i) xs.push_back(rndw(w));
		for (u64 x : xs) {
			bool neg = sg && ((x >> (w - 1)) & 1);
			if (w > 16) for (int op : U1) line(op, ty, x, 0, 0, 0);
			for (int op : V1) line(op, ty, x, 0, 0, 0);
			{ if (w > 16) for (int op : U1P) line(op, ty, x, 0, 0, 0); for (int op : V1P) line(op, ty, x, 0, 0, 0); }
			// mask: any count for unsigned; non-negative for signed
			if (!neg) { if (w > 16) line(MASK, ty, x, 0, 0, 0); line(V_MASK, ty, x, 0, 0, 0); line(MASK, ty, x % (2 * w + 2), 0, 0, 0); }
			// multiples: m > 0
			u64 m = rnd() % 3 == 0 ? bd[rnd() % bd.size()] : rndw(w); if (rnd() % 4 == 0) m = 1 + rnd() % 40;
			m &= mmax; if (m == 0) m = 1;
			if (w > 16) for (int op : B2) line(op, ty, x, m, 0, 0);
			for (int op : V2) line(op, ty, x, m, 0, 0);
			// findNSB: n in [1, w+1]
			u64 n = 1 + rnd() % (w + 1);
			if (w > 16) line(FINDNSB, ty, x, n, 0, 0);
			line(V_FINDNSB, ty, x, n, 0, 0);
			// rotate: 0..w for the promoted types, 1..w-1 otherwise
			u64 s = w <= 16 ? rnd() % (w + 1) : 1 + rnd() % (w - 1);
			if (w > 16) { line(ROTR, ty, x, s, 0, 0); line(ROTL, ty, x, s, 0, 0); }
			line(V_ROTR, ty, x, s, 0, 0); line(V_ROTL, ty, x, s, 0, 0);
			// fill: 0 <= first < w, 0 <= count <= w - first
			u64 first = rnd() % w, cnt = rnd() % (w - first + 1); if (rnd() % 8 == 0) cnt = w - first;
			if (w > 16) { line(FILLONE, ty, x, first, cnt, 0); line(FILLZERO, ty, x, first, cnt, 0); }
			line(V_FILLONE, ty, x, first, cnt, 0); line(V_FILLZERO, ty, x, first, cnt, 0);
		}
		if (w > 16) {   // every boundary value against every small / boundary multiple and every count
			for (u64 x : bd) for (u64 m : bd) { u64 mm = m & mmax; if (mm == 0) continue; if (rnd() % (thorough ? 2 : (mm > 40 ? 16 : 4))) continue; for (int op : B2) line(op, ty, x, mm, 0, 0); }
			for (u64 x : bd) { if (rnd() % (thorough ? 2 : 16)) continue; for (int n = 1; n <= w + 1; ++n) line(FINDNSB, ty, x, (u64)n, 0, 0); for (int s = 1; s < w; ++s) { line(ROTR, ty, x, (u64)s, 0, 0); line(ROTL, ty, x, (u64)s, 0, 0); } }
			for (int first = 0; first < w; ++first) for (int cnt = 0; first + cnt <= w; ++cnt) { if (!thorough && rnd() % 4) continue; u64 x = rnd() % 3 == 0 ? 0 : rnd() % 3 == 0 ? wm : rndw(w); line(FILLONE, ty, x, (u64)first, (u64)cnt, 0); line(FILLZERO, ty, x, (u64)first, (u64)cnt, 0); }
		}
	}
	// ---- interleave / deinterleave
	block(IL2X8, 10, 0, 0, 0, 65536, false);
	for (u64 z = 0; z < 256; ++z) block(IL3X8, 10, z, 0, 0, 65536, false);
	block(DEIL16, 10, 0, 0, 0, 65536, false);
	{ std::vector<u64> hs = his(thorough, 96); for (u64 h : hs) block(IL2X16, 10, h, 0, 0, 65536, false); }      // thorough: all 2^32 pairs
	{ std::vector<u64> hs = his(false, thorough ? 8192 : 96); for (u64 h : hs) { block(IL4X8, 10, h, 0, 0, 65536, false); block(DEIL32, 10, h, 0, 0, 65536, false); } }
	{
		static const int IL8[] = { IL2X8S, IL2X8V, IL3X8S, IL3X8V, IL4X8S, IL4X8V }, IL16[] = { IL2X16S, IL2X16V, IL3X16, IL3X16S, IL3X16V, IL4X16, IL4X16S, IL4X16V }, IL32[] = { IL2X32, IL2X32S, IL2X32V, IL3X32, IL3X32S, IL3X32V };
		std::vector<u64> b8 = boundary(8), b16 = boundary(16), b32 = boundary(32), b64 = boundary(64);
		int n = thorough ? 30000 : 4000;
		for (int i = 0; i < n; ++i) {
			auto pick = [&](std::vector<u64>& bd, int w) { return rnd() % 3 == 0 ? bd[rnd() % bd.size()] : rndw(w); };
			for (int op : IL8) line(op, 10, pick(b8, 8), pick(b8, 8), pick(b8, 8), pick(b8, 8));
			for (int op : IL16) line(op, 10, pick(b16, 16), pick(b16, 16), pick(b16, 16), pick(b16, 16));
			for (int op : IL32) line(op, 10, pick(b32, 32), pick(b32, 32), pick(b32, 32), 0);
			line(DEIL64, 10, pick(b64, 64), 0, 0, 0);
			// round trip material: deinterleave of an interleaved pair
			u64 r[2]; evF(IL2X32, 10, pick(b32, 32), pick(b32, 32), 0, 0, r); line(DEIL64, 10, r[0], 0, 0, 0);
		}
		// single bits of every operand (bit i of argument k lands at n*i + k)
		for (int k = 0; k < 4; ++k) for (int i = 0; i < 32; ++i) {
			u64 v[4] = { 0, 0, 0, 0 }; v[k] = 1ull << i;
			if (i < 8) { if (k < 2) line(IL2X8V, 10, v[0], v[1], 0, 0); if (k < 3) line(IL3X8V, 10, v[0], v[1], v[2], 0); line(IL4X8V, 10, v[0], v[1], v[2], v[3]); }
			if (i < 16) { if (k < 2) line(IL2X16V, 10, v[0], v[1], 0, 0); if (k < 3) line(IL3X16, 10, v[0], v[1], v[2], 0); line(IL4X16, 10, v[0], v[1], v[2], v[3]); }
			if (k < 2) line(IL2X32, 10, v[0], v[1], 0, 0); if (k < 3) line(IL3X32, 10, v[0], v[1], v[2], 0);
		}
	}
	// ---- gtx/integer
	{ std::vector<u64> hs = his(false, thorough ? 1024 : 64); for (u64 h : hs) block(NLZ, 10, h, 0, 0, 65536, false); }
	{ std::vector<u64> hs = his(false, thorough ? 512 : 28); for (u64 h : hs) { block(SQRTU, 10, h, 0, 0, 65536, false); block(SQRTS, 10, h, 0, 0, 65536, false); } }
	{
		std::vector<u64> b32 = boundary(32);
		for (u64 x : b32) { line(NLZ, 10, x, 0, 0, 0); line(SQRTU, 10, x, 0, 0, 0); line(SQRTS, 10, x, 0, 0, 0); for (u64 y = 0; y <= 33; ++y) { line(POWU, 10, x, y, 0, 0); line(POWS, 10, x, y, 0, 0); } }
		for (u64 x = 0; x <= 40; ++x) for (u64 y = 0; y <= 33; ++y) { line(POWU, 10, x, y, 0, 0); line(POWS, 10, x, y, 0, 0); line(POWS, 10, (0 - x) & 0xffffffffull, y, 0, 0); }
		int n = thorough ? 300000 : 10000;
		for (int i = 0; i < n; ++i) {
			u64 x = rnd() % 3 == 0 ? b32[rnd() % b32.size()] : rndw(32), y = rnd() % 3 == 0 ? b32[rnd() % b32.size()] : rndw(32);
			if (rnd() % 3 == 0) y = 1 + rnd() % 50;
			if (y == 0) y = 1;
			line(MODU, 10, x, y, 0, 0);
			if (!(x == 0x80000000ull && y == 0xffffffffull)) line(MODS, 10, x, y, 0, 0);     // INT_MIN % -1 traps
			line(POWU, 10, x, rnd() % 40, 0, 0); line(POWS, 10, x, rnd() % 40, 0, 0);
		}
	}
	// ---- float multiples: an exactly representable lattice (k/8, small) and random magnitudes; Multiple > 0, finite
	for (int ty = 8; ty <= 9; ++ty) {
		auto emit = [&](double x, double m) { u64 xb = ty == 8 ? f32bits((float)x) : f64bits(x), mb = ty == 8 ? f32bits((float)m) : f64bits(m); line(CEILMULF, ty, xb, mb, 0, 0); line(FLOORMULF, ty, xb, mb, 0, 0); line(ROUNDMULF, ty, xb, mb, 0, 0); };
		for (int xi = -40; xi <= 40; ++xi) for (int mi = 1; mi <= 12; ++mi) { emit(xi, mi); emit(xi * 0.125, mi * 0.125); emit(xi * 0.5, mi * 0.25); emit(xi * 1024.0, mi * 3.0); }
		int n = thorough ? 200000 : 10000;
		for (int i = 0; i < n; ++i) {
			double m = (double)(1 + rnd() % 1000) / (double)(1ull << (rnd() % 12)), x;
			switch (rnd() % 4) { case 0: x = m * (double)((i64)(rnd() % 2001) - 1000); break;                       // exact multiples
			case 1: x = ((double)(i64)(rnd() % 2000001) - 1000000.0) / 64.0; break;
			case 2: x = m * ((double)((i64)(rnd() % 2001) - 1000) + (double)(rnd() % 1024) / 1024.0); break;
			default: { double e = (double)(1ull << (rnd() % 40)); x = ((rnd() & 1) ? -1.0 : 1.0) * (double)(rnd() % 100000) / 997.0 * e / 1048576.0; } }
			emit(x, m);
		}
	}
	printf("HARNESS evaluations=%llu tier=%s seed=%llu\n", (unsigned long long)n_eval, thorough ? "thorough" : "quick", (unsigned long long)sd);
}

int main(int argc, char** argv)
{
	if (argc >= 4 && !strcmp(argv[1], "plan")) { plan(!strcmp(argv[2], "thorough"), strtoull(argv[3], 0, 10)); return 0; }
	if (argc >= 8 && !strcmp(argv[1], "dump")) {
		int op = opid(argv[2]), ty = tyid(argv[3]); if (op < 0 || ty < 0) return 2;
		block(op, ty, strtoull(argv[4], 0, 10), strtoull(argv[5], 0, 10), strtoull(argv[6], 0, 10), strtoull(argv[7], 0, 10), true); return 0;
	}
	if (argc >= 8 && !strcmp(argv[1], "eval")) {
		int op = opid(argv[2]), ty = tyid(argv[3]); if (op < 0 || ty < 0) return 2;
		line(op, ty, strtoull(argv[4], 0, 10), strtoull(argv[5], 0, 10), strtoull(argv[6], 0, 10), strtoull(argv[7], 0, 10)); return 0;
	}
	fprintf(stderr, "usage: plan <quick|thorough> <seed> | dump <op> <ty> <p1> <p2> <lo> <count> | eval <op> <ty> <a> <b> <c> <d>\n");
	return 2;
}
