// C14 differential harness: runs the REAL glm (include path given by the build: -I$VERIF_REPO) on inputs it
// generates itself and prints one line per evaluation
//      <op> <w> <arg-bits hex>... -> <result-bits hex>...
// (w = 32: float/int, w = 64: double/int64; an `int` argument is printed as its 32-bit pattern).
//
//   C14 lines <seed> <quick|thorough>      line protocol, lattice + pairs at ULP distance 0..64 + seeded random
//   C14 sweep <lo> <hi>                    all floats of blocks lo..hi-1 (2^20 patterns each) through the unary
//                                          functions; one line of 64-bit fold hashes per block
//   C14 block <b>                          the same evaluations of block b as lines (to locate a differing input)
//   C14 eval <op> <w> <args...>            one evaluation (replay files)
//
// NaN results are canonicalised (payload propagation of `x + y` is libm/hardware business, not glm's).
#include <glm/glm.hpp>
#include <glm/ext/scalar_ulp.hpp>
#include <glm/ext/vector_ulp.hpp>
#include <glm/gtc/ulp.hpp>
#include <glm/ext/scalar_relational.hpp>
#include <glm/ext/vector_relational.hpp>
#include <glm/ext/matrix_relational.hpp>
#include <glm/ext/quaternion_relational.hpp>
#include <glm/ext/quaternion_float.hpp>
#include <glm/ext/quaternion_double.hpp>
#include <glm/gtc/epsilon.hpp>
#include <glm/detail/type_float.hpp>
#include <cstdio>
#include <cstdlib>
#include <cstring>
#include <cstdint>
#include <cmath>
#include <string>
#include <vector>

typedef uint32_t u32;
typedef uint64_t u64;

// ---------------------------------------------------------------- bit casts, traits
template<typename T> struct Tr;
template<> struct Tr<float>
{
	typedef u32 bits; typedef int itype; enum { W = 32 };
	static float f(u64 b) { u32 u = static_cast<u32>(b); float r; memcpy(&r, &u, 4); return r; }
	static u64 b(float v) { u32 u; memcpy(&u, &v, 4); if((u & 0x7fffffffu) > 0x7f800000u) u = 0x7fc00000u; return u; }
	static u64 bi(int v) { return static_cast<u32>(v); }
	static const u64 SIGN = 0x80000000ull, MAG = 0x7fffffffull, INF = 0x7f800000ull;
	static const int MB = 23, EB = 8;
};
template<> struct Tr<double>
{
	typedef u64 bits; typedef glm::int64 itype; enum { W = 64 };
	static double f(u64 b) { double r; memcpy(&r, &b, 8); return r; }
	static u64 b(double v) { u64 u; memcpy(&u, &v, 8); if((u & 0x7fffffffffffffffull) > 0x7ff0000000000000ull) u = 0x7ff8000000000000ull; return u; }
	static u64 bi(glm::int64 v) { return static_cast<u64>(v); }
	static const u64 SIGN = 0x8000000000000000ull, MAG = 0x7fffffffffffffffull, INF = 0x7ff0000000000000ull;
	static const int MB = 52, EB = 11;
};

// ---------------------------------------------------------------- xoshiro256**
struct Rng
{
	u64 s[4];
	static u64 rotl(u64 x, int k) { return (x << k) | (x >> (64 - k)); }
	explicit Rng(u64 seed)
	{
		u64 z = seed * 0x9E3779B97F4A7C15ull + 0x1234567ull;
		for(int i = 0; i < 4; ++i) { z += 0x9E3779B97F4A7C15ull; u64 t = z; t = (t ^ (t >> 30)) * 0xBF58476D1CE4E5B9ull; t = (t ^ (t >> 27)) * 0x94D049BB133111EBull; s[i] = t ^ (t >> 31); }
	}
	u64 next()
	{
		u64 const r = rotl(s[1] * 5, 7) * 9, t = s[1] << 17;
		s[2] ^= s[0]; s[3] ^= s[1]; s[1] ^= s[2]; s[0] ^= s[3]; s[2] ^= t; s[3] = rotl(s[3], 45);
		return r;
	}
	u64 below(u64 n) { return next() % n; }
};

// ---------------------------------------------------------------- the harness's own key <-> pattern map (input generation only)
template<typename T> static long double keyOf(u64 x) { long double m = static_cast<long double>(x & Tr<T>::MAG); return (x & Tr<T>::SIGN) ? -m : m; }
template<typename T> static bool fromKey(long double k, u64& out)
{
	long double const lim = static_cast<long double>(Tr<T>::INF);
	if(k > lim || k < -lim) return false;
	out = k >= 0 ? static_cast<u64>(k) : (Tr<T>::SIGN | static_cast<u64>(-k));
	return true;
}

// ---------------------------------------------------------------- output
static void put(char const* op, int w, std::vector<u64> const& a, std::vector<u64> const& r)
{
	fputs(op, stdout); printf(" %d", w);
	for(size_t i = 0; i < a.size(); ++i) printf(" %llx", static_cast<unsigned long long>(a[i]));
	fputs(" ->", stdout);
	for(size_t i = 0; i < r.size(); ++i) printf(" %llx", static_cast<unsigned long long>(r[i]));
	fputc('\n', stdout);
}

// ---------------------------------------------------------------- one evaluation of the real glm
template<typename T>
static bool evalT(std::string const& op, std::vector<u64> const& a, std::vector<u64>& r)
{
	typedef Tr<T> R;
	typedef glm::vec<2, T, glm::defaultp> V2;
	typedef glm::vec<3, T, glm::defaultp> V3;
	typedef glm::vec<4, T, glm::defaultp> V4;
	typedef glm::mat<2, 2, T, glm::defaultp> M2;
	typedef glm::qua<T, glm::defaultp> Q;
	size_t const n = a.size();
	r.clear();
	#define NEED(k) if(n != (k)) return false
	if(op == "next")  { NEED(1); r.push_back(R::b(glm::nextFloat(R::f(a[0])))); return true; }
	if(op == "prev")  { NEED(1); r.push_back(R::b(glm::prevFloat(R::f(a[0])))); return true; }
	if(op == "gnext") { NEED(1); r.push_back(R::b(glm::next_float(R::f(a[0])))); return true; }
	if(op == "gprev") { NEED(1); r.push_back(R::b(glm::prev_float(R::f(a[0])))); return true; }
	if(op == "vnext" || op == "vprev" || op == "gvnext" || op == "gvprev")
	{
		NEED(3); V3 const v(R::f(a[0]), R::f(a[1]), R::f(a[2]));
		V3 const o = op == "vnext" ? glm::nextFloat(v) : op == "vprev" ? glm::prevFloat(v) : op == "gvnext" ? glm::next_float(v) : glm::prev_float(v);
		for(int i = 0; i < 3; ++i) r.push_back(R::b(o[i]));
		return true;
	}
	if(op == "nextN")  { NEED(2); r.push_back(R::b(glm::nextFloat(R::f(a[0]), static_cast<int>(a[1])))); return true; }
	if(op == "prevN")  { NEED(2); r.push_back(R::b(glm::prevFloat(R::f(a[0]), static_cast<int>(a[1])))); return true; }
	if(op == "gnextN") { NEED(2); r.push_back(R::b(glm::next_float(R::f(a[0]), static_cast<int>(a[1])))); return true; }
	if(op == "gprevN") { NEED(2); r.push_back(R::b(glm::prev_float(R::f(a[0]), static_cast<int>(a[1])))); return true; }
	if(op == "vnextN" || op == "vprevN" || op == "gvnextN" || op == "gvprevN")
	{	// vec2, one int for all components
		NEED(3); V2 const v(R::f(a[0]), R::f(a[1])); int const k = static_cast<int>(a[2]);
		V2 const o = op == "vnextN" ? glm::nextFloat(v, k) : op == "vprevN" ? glm::prevFloat(v, k) : op == "gvnextN" ? glm::next_float(v, k) : glm::prev_float(v, k);
		r.push_back(R::b(o[0])); r.push_back(R::b(o[1]));
		return true;
	}
	if(op == "vnextNv" || op == "vprevNv" || op == "gvnextNv" || op == "gvprevNv")
	{	// vec2, ivec2
		NEED(4); V2 const v(R::f(a[0]), R::f(a[1])); glm::ivec2 const k(static_cast<int>(a[2]), static_cast<int>(a[3]));
		V2 const o = op == "vnextNv" ? glm::nextFloat(v, k) : op == "vprevNv" ? glm::prevFloat(v, k) : op == "gvnextNv" ? glm::next_float(v, k) : glm::prev_float(v, k);
		r.push_back(R::b(o[0])); r.push_back(R::b(o[1]));
		return true;
	}
	if(op == "dist")  { NEED(2); r.push_back(R::bi(glm::floatDistance(R::f(a[0]), R::f(a[1])))); return true; }
	if(op == "gdist") { NEED(2); r.push_back(R::bi(glm::float_distance(R::f(a[0]), R::f(a[1])))); return true; }
	if(op == "vdist" || op == "gvdist")
	{
		NEED(4); V2 const x(R::f(a[0]), R::f(a[2])), y(R::f(a[1]), R::f(a[3]));
		glm::vec<2, typename R::itype, glm::defaultp> const o = op == "vdist" ? glm::floatDistance(x, y) : glm::float_distance(x, y);
		r.push_back(R::bi(o[0])); r.push_back(R::bi(o[1]));
		return true;
	}
	// the composition the property speaks about
	if(op == "distN") { NEED(2); T const x = R::f(a[0]); r.push_back(R::bi(glm::floatDistance(x, glm::nextFloat(x, static_cast<int>(a[1]))))); return true; }
	if(op == "distP") { NEED(2); T const x = R::f(a[0]); r.push_back(R::bi(glm::floatDistance(x, glm::prevFloat(x, static_cast<int>(a[1]))))); return true; }
	if(op == "ft")
	{
		NEED(1);
		// NaN patterns must reach the union unchanged: go through the integer member
		glm::detail::float_t<T> u; u.i = static_cast<typename R::itype>(a[0]);
		r.push_back(u.negative() ? 1 : 0); r.push_back(R::bi(u.mantissa())); r.push_back(R::bi(u.exponent()));
		return true;
	}
	if(op == "eqU_s")
	{
		NEED(3); T const x = R::f(a[0]), y = R::f(a[1]); int const k = static_cast<int>(a[2]);
		r.push_back(glm::equal(x, y, k) ? 1 : 0); r.push_back(glm::notEqual(x, y, k) ? 1 : 0);
		return true;
	}
	if(op == "eqU_v")
	{	// vec2 with one int: x0 y0 x1 y1 k
		NEED(5); V2 const x(R::f(a[0]), R::f(a[2])), y(R::f(a[1]), R::f(a[3])); int const k = static_cast<int>(a[4]);
		glm::bvec2 const e = glm::equal(x, y, k), d = glm::notEqual(x, y, k);
		r.push_back((e[0] ? 1 : 0) | (e[1] ? 2 : 0)); r.push_back((d[0] ? 1 : 0) | (d[1] ? 2 : 0));
		return true;
	}
	if(op == "eqU_vk")
	{	// vec2 with ivec2: x0 y0 x1 y1 k0 k1
		NEED(6); V2 const x(R::f(a[0]), R::f(a[2])), y(R::f(a[1]), R::f(a[3])); glm::ivec2 const k(static_cast<int>(a[4]), static_cast<int>(a[5]));
		glm::bvec2 const e = glm::equal(x, y, k), d = glm::notEqual(x, y, k);
		r.push_back((e[0] ? 1 : 0) | (e[1] ? 2 : 0)); r.push_back((d[0] ? 1 : 0) | (d[1] ? 2 : 0));
		return true;
	}
	if(op == "eqU_m")
	{	// mat2x2 with one int: column 0 = (x0,x1) vs (y0,y1), column 1 = (x2,x3) vs (y2,y3)
		NEED(9); M2 x, y; int const k = static_cast<int>(a[8]);
		for(int c = 0; c < 2; ++c) for(int w = 0; w < 2; ++w) { x[c][w] = R::f(a[4 * c + 2 * w]); y[c][w] = R::f(a[4 * c + 2 * w + 1]); }
		glm::bvec2 const e = glm::equal(x, y, k), d = glm::notEqual(x, y, k);
		r.push_back((e[0] ? 1 : 0) | (e[1] ? 2 : 0)); r.push_back((d[0] ? 1 : 0) | (d[1] ? 2 : 0));
		return true;
	}
	if(op == "eqU_mS")
	{	// every matrix shape with one int and with a vec<C,int> of ULPs: element (c, r) of the CxR matrices is pair (c*R + r) % 4 of (x0,y0) .. (x3,y3);
		// result bit per column, the nine shapes in the order 2x2 2x3 2x4 3x2 ... 4x4 (27 columns)
		NEED(9); int const k = static_cast<int>(a[8]); u64 e1 = 0, n1 = 0, e2 = 0, n2 = 0; int bit = 0;
#define SHAPE(C, Rw) { glm::mat<C, Rw, T, glm::defaultp> x, y; for(int c = 0; c < C; ++c) for(int w = 0; w < Rw; ++w) { int p = (c * Rw + w) % 4; x[c][w] = R::f(a[2 * p]); y[c][w] = R::f(a[2 * p + 1]); } \
		glm::vec<C, bool> const E1 = glm::equal(x, y, k), N1 = glm::notEqual(x, y, k), E2 = glm::equal(x, y, glm::vec<C, int>(k)), N2 = glm::notEqual(x, y, glm::vec<C, int>(k)); \
		for(int c = 0; c < C; ++c, ++bit) { e1 |= (u64)(E1[c] ? 1 : 0) << bit; n1 |= (u64)(N1[c] ? 1 : 0) << bit; e2 |= (u64)(E2[c] ? 1 : 0) << bit; n2 |= (u64)(N2[c] ? 1 : 0) << bit; } }
		SHAPE(2, 2) SHAPE(2, 3) SHAPE(2, 4) SHAPE(3, 2) SHAPE(3, 3) SHAPE(3, 4) SHAPE(4, 2) SHAPE(4, 3) SHAPE(4, 4)
#undef SHAPE
		r.push_back(e1); r.push_back(n1); r.push_back(e2); r.push_back(n2);
		return true;
	}
	if(op == "eqE_s" || op == "eps_s")
	{
		NEED(3); T const x = R::f(a[0]), y = R::f(a[1]), e = R::f(a[2]);
		if(op == "eqE_s") { r.push_back(glm::equal(x, y, e) ? 1 : 0); r.push_back(glm::notEqual(x, y, e) ? 1 : 0); }
		else { r.push_back(glm::epsilonEqual(x, y, e) ? 1 : 0); r.push_back(glm::epsilonNotEqual(x, y, e) ? 1 : 0); }
		return true;
	}
	if(op == "eqE_v" || op == "eps_v" || op == "eqE_vv" || op == "eps_vv")
	{	// vec2: x0 y0 x1 y1 e   |  x0 y0 x1 y1 e0 e1
		bool const vv = op == "eqE_vv" || op == "eps_vv";
		NEED(vv ? 6u : 5u); V2 const x(R::f(a[0]), R::f(a[2])), y(R::f(a[1]), R::f(a[3]));
		T const e0 = R::f(a[4]); V2 const ev(e0, vv ? R::f(a[5]) : e0);
		glm::bvec2 e, d;
		if(op == "eqE_v") { e = glm::equal(x, y, e0); d = glm::notEqual(x, y, e0); }
		else if(op == "eqE_vv") { e = glm::equal(x, y, ev); d = glm::notEqual(x, y, ev); }
		else if(op == "eps_v") { e = glm::epsilonEqual(x, y, e0); d = glm::epsilonNotEqual(x, y, e0); }
		else { e = glm::epsilonEqual(x, y, ev); d = glm::epsilonNotEqual(x, y, ev); }
		r.push_back((e[0] ? 1 : 0) | (e[1] ? 2 : 0)); r.push_back((d[0] ? 1 : 0) | (d[1] ? 2 : 0));
		return true;
	}
	if(op == "eqE_m")
	{
		NEED(9); M2 x, y; T const e0 = R::f(a[8]);
		for(int c = 0; c < 2; ++c) for(int w = 0; w < 2; ++w) { x[c][w] = R::f(a[4 * c + 2 * w]); y[c][w] = R::f(a[4 * c + 2 * w + 1]); }
		glm::bvec2 const e = glm::equal(x, y, e0), d = glm::notEqual(x, y, e0);
		r.push_back((e[0] ? 1 : 0) | (e[1] ? 2 : 0)); r.push_back((d[0] ? 1 : 0) | (d[1] ? 2 : 0));
		return true;
	}
	if(op == "eqE_q" || op == "eps_q")
	{	// quaternion components x,y,z,w: x0 y0 x1 y1 x2 y2 x3 y3 e ; result vec4 in x,y,z,w order
		NEED(9); Q x, y; T const e0 = R::f(a[8]);
		x.x = R::f(a[0]); y.x = R::f(a[1]); x.y = R::f(a[2]); y.y = R::f(a[3]); x.z = R::f(a[4]); y.z = R::f(a[5]); x.w = R::f(a[6]); y.w = R::f(a[7]);
		glm::bvec4 e, d;
		if(op == "eqE_q") { e = glm::equal(x, y, e0); d = glm::notEqual(x, y, e0); }
		else { e = glm::epsilonEqual(x, y, e0); d = glm::epsilonNotEqual(x, y, e0); }
		u64 me = 0, md = 0; for(int i = 0; i < 4; ++i) { me |= (e[i] ? 1u : 0u) << i; md |= (d[i] ? 1u : 0u) << i; }
		r.push_back(me); r.push_back(md);
		return true;
	}
	if(op == "nextafter") { NEED(2); r.push_back(R::b(std::nextafter(R::f(a[0]), R::f(a[1])))); return true; }
	if(op == "bundled")   { NEED(2); r.push_back(R::b(glm::detail::nextafter(R::f(a[0]), R::f(a[1])))); return true; }
	#undef NEED
	(void)sizeof(V4);
	return false;
}
static bool eval(std::string const& op, int w, std::vector<u64> const& a, std::vector<u64>& r)
{
	if(w == 32 && op == "bundled")
	{
		if(a.size() != 2) return false;
		r.clear(); r.push_back(Tr<float>::b(glm::detail::nextafterf(Tr<float>::f(a[0]), Tr<float>::f(a[1]))));
		return true;
	}
	return w == 32 ? evalT<float>(op, a, r) : evalT<double>(op, a, r);
}

static void run(char const* op, int w, std::vector<u64> const& a)
{
	std::vector<u64> r;
	if(!eval(op, w, a, r)) { fprintf(stderr, "bad op %s/%d (%zu args)\n", op, w, a.size()); exit(3); }
	put(op, w, a, r);
}

// ---------------------------------------------------------------- input lattices
template<typename T> static std::vector<u64> lattice(bool full)
{
	typedef Tr<T> R;
	std::vector<u64> v;
	u64 const S = R::SIGN, INF = R::INF, one = (static_cast<u64>((1u << (R::EB - 1)) - 1)) << R::MB;
	u64 const minN = 1ull << R::MB;
	u64 const base[] = { 0, 1, 2, 3, 64, 65, minN - 2, minN - 1, minN, minN + 1, minN + 2, 2 * minN - 1, 2 * minN, 2 * minN + 1,
		one - 1, one, one + 1, one + 2, one + (1ull << (R::MB - 1)), INF - 2, INF - 1, INF,
		INF + 1, INF | (1ull << (R::MB - 1)), R::MAG };
	for(size_t i = 0; i < sizeof(base) / sizeof(base[0]); ++i) { v.push_back(base[i]); v.push_back(base[i] | S); }
	if(full)
		for(u64 e = 1; e < (1ull << R::EB); ++e)
			for(int d = -1; d <= 1; ++d) { u64 const p = (e << R::MB) + static_cast<u64>(d); v.push_back(p); v.push_back(p | S); }
	return v;
}
template<typename T> static u64 randPattern(Rng& g)
{
	typedef Tr<T> R;
	switch(g.below(4))
	{
	case 0: return g.next() & (R::MAG | R::SIGN);                                                  // any pattern
	case 1: { u64 const one = (static_cast<u64>((1u << (R::EB - 1)) - 1)) << R::MB;                 // moderate magnitude
		u64 const e = one + ((g.below(41) - 20) << R::MB); return (e & ~((1ull << R::MB) - 1)) | (g.next() & ((1ull << R::MB) - 1)) | (g.below(2) ? R::SIGN : 0); }
	case 2: return (g.next() & ((1ull << (R::MB + 2)) - 1)) | (g.below(2) ? R::SIGN : 0);          // subnormals and the first binades
	default: return (R::INF - g.below(1ull << (R::MB + 1))) | (g.below(2) ? R::SIGN : 0);          // near the top
	}
}

static u64 const KS[] = { 0, 1, 2, 3, 4, 7, 16, 31, 32, 33, 63, 64 };

template<typename T> static void genLines(Rng& g, bool thorough)
{
	typedef Tr<T> R;
	int const w = R::W;
	size_t const F = thorough ? 20 : 1;
	std::vector<u64> const full = lattice<T>(true), core = lattice<T>(false);
	std::vector<u64> pool = core;
	for(size_t i = 0; i < 300 * F; ++i) pool.push_back(randPattern<T>(g));
	for(size_t i = 0; i < 100 * F; ++i) pool.push_back(full[g.below(full.size())]);
	#define PICK(v) (v)[g.below((v).size())]
	u64 const INTMAX = 0x7fffffffull, INTM1 = 0xffffffffull;

	// ---- unary
	std::vector<u64> un = full;
	for(size_t i = 0; i < 3000 * F; ++i) un.push_back(randPattern<T>(g));
	for(size_t i = 0; i < un.size(); ++i)
	{
		std::vector<u64> a(1, un[i]);
		run("next", w, a); run("prev", w, a); run("ft", w, a);
		if(i % 3 == 0) { run("gnext", w, a); run("gprev", w, a); }
	}
	for(size_t i = 0; i < 500 * F; ++i)
	{
		std::vector<u64> a; for(int j = 0; j < 3; ++j) a.push_back(PICK(pool));
		run("vnext", w, a); run("vprev", w, a); run("gvnext", w, a); run("gvprev", w, a);
	}
	// ---- n steps; distance after n steps
	u64 const NS[] = { 0, 1, 2, 3, 5, 10, 64, 100, 257, 1000 };
	for(size_t i = 0; i < pool.size(); ++i)
		for(size_t j = 0; j < sizeof(NS) / sizeof(NS[0]); ++j)
		{
			if(j >= 7 && i % 4 != 0) continue;
			std::vector<u64> a; a.push_back(pool[i]); a.push_back(NS[j]);
			run("nextN", w, a); run("prevN", w, a); run("distN", w, a); run("distP", w, a);
			if(i % 3 == 0) { run("gnextN", w, a); run("gprevN", w, a); }
		}
	for(size_t i = 0; i < 300 * F; ++i)
	{
		std::vector<u64> a; a.push_back(PICK(pool)); a.push_back(PICK(pool)); a.push_back(g.below(40));
		run("vnextN", w, a); run("vprevN", w, a); run("gvnextN", w, a); run("gvprevN", w, a);
		a.push_back(g.below(40));
		run("vnextNv", w, a); run("vprevNv", w, a); run("gvnextNv", w, a); run("gvprevNv", w, a);
	}
	// ---- pairs at ULP distance 0..64 on both sides of every pool value (zero is straddled around ±0, ±subnormals)
	std::vector<u64> px, py;
	for(size_t i = 0; i < pool.size(); ++i)
	{
		u64 const x = pool[i];
		if((x & R::MAG) > R::INF) continue;
		for(size_t j = 0; j < sizeof(KS) / sizeof(KS[0]); ++j)
			for(int s = -1; s <= 1; s += 2)
			{
				u64 y;
				if(!fromKey<T>(keyOf<T>(x) + s * static_cast<long double>(KS[j]), y)) continue;
				px.push_back(x); py.push_back(y);
				if((y & R::MAG) == 0) { px.push_back(x); py.push_back(y ^ R::SIGN); }
			}
	}
	for(size_t i = 0; i < 2000 * F; ++i) { px.push_back(PICK(pool)); py.push_back(PICK(pool)); }          // unrelated (incl. NaN, inf)
	for(size_t i = 0; i < core.size(); ++i) for(size_t j = 0; j < core.size(); ++j) if((i * 7 + j) % 3 == 0) { px.push_back(core[i]); py.push_back(core[j]); }
	for(size_t i = 0; i < px.size(); ++i)
	{
		std::vector<u64> a; a.push_back(px[i]); a.push_back(py[i]);
		run("dist", w, a);
		if(i % 3 == 0) run("gdist", w, a);
		if(i % 2 == 0) run("nextafter", w, a);
		if(i % 8 == 0) run("bundled", w, a);
		// ULP comparison with budgets around the true distance
		long double const d = fabsl(keyOf<T>(px[i]) - keyOf<T>(py[i]));
		u64 ks[6]; size_t nk = 0;
		if(d <= 2147483646.0L) { u64 const di = static_cast<u64>(d); ks[nk++] = di; ks[nk++] = di + 1; if(di > 0) ks[nk++] = di - 1; }
		ks[nk++] = KS[g.below(sizeof(KS) / sizeof(KS[0]))]; ks[nk++] = (i % 5 == 0) ? INTM1 : (i % 5 == 1) ? INTMAX : 0;
		for(size_t k = 0; k < nk; ++k) { std::vector<u64> b = a; b.push_back(ks[k]); run("eqU_s", w, b); }
	}
	for(size_t i = 0; i < 4000 * F; ++i)
	{
		size_t const p = g.below(px.size()), q = g.below(px.size());
		std::vector<u64> a; a.push_back(px[p]); a.push_back(py[p]); a.push_back(px[q]); a.push_back(py[q]);
		if(i % 4 == 0) { run("vdist", w, a); run("gvdist", w, a); }
		std::vector<u64> b = a; b.push_back(i % 11 == 0 ? INTM1 : KS[g.below(sizeof(KS) / sizeof(KS[0]))]); run("eqU_v", w, b);
		b.push_back(KS[g.below(sizeof(KS) / sizeof(KS[0]))]); run("eqU_vk", w, b);
		if(i % 2 == 0)
		{
			size_t const p2 = g.below(px.size()), q2 = g.below(px.size());
			std::vector<u64> m = a; m.push_back(px[p2]); m.push_back(py[p2]); m.push_back(px[q2]); m.push_back(py[q2]);
			m.push_back(KS[g.below(sizeof(KS) / sizeof(KS[0]))]); run("eqU_m", w, m); run("eqU_mS", w, m);
		}
	}
	// ---- epsilon comparisons: epsilon around |fl(x - y)| (exactly, one ulp either side), zero, -0, negative, inf, NaN
	std::vector<u64> ex, ey, ee;
	for(size_t i = 0; i < 2500 * F; ++i)
	{
		u64 x, y;
		switch(g.below(4))
		{
		case 0: x = R::b(static_cast<T>(static_cast<double>(g.below(4001)) / 500.0 - 4.0)); y = R::b(static_cast<T>(static_cast<double>(g.below(4001)) / 500.0 - 4.0)); break;
		case 1: { size_t const p = g.below(px.size()); x = px[p]; y = py[p]; break; }
		case 2: x = randPattern<T>(g); y = randPattern<T>(g); break;
		default: x = PICK(pool); y = PICK(pool); break;
		}
		T const dabs = std::fabs(R::f(x) - R::f(y));
		u64 const db = R::b(dabs);
		u64 es[8]; size_t ne = 0;
		es[ne++] = db;
		if((db & R::MAG) < R::INF) { es[ne++] = db + 1; if(db > 0) es[ne++] = db - 1; }
		es[ne++] = (i % 7 == 0) ? R::SIGN : (i % 7 == 1) ? (db | R::SIGN) : (i % 7 == 2) ? R::INF : (i % 7 == 3) ? (R::INF | 5) : (i % 7 == 4) ? 0 : R::b(std::numeric_limits<T>::epsilon());
		es[ne++] = randPattern<T>(g) & R::MAG;
		for(size_t k = 0; k < ne; ++k) { ex.push_back(x); ey.push_back(y); ee.push_back(es[k]); }
	}
	for(size_t i = 0; i < ex.size(); ++i)
	{
		std::vector<u64> a; a.push_back(ex[i]); a.push_back(ey[i]); a.push_back(ee[i]);
		run("eqE_s", w, a); run("eps_s", w, a);
		if(i % 3 == 0)
		{
			size_t const q = g.below(ex.size());
			std::vector<u64> v; v.push_back(ex[i]); v.push_back(ey[i]); v.push_back(ex[q]); v.push_back(ey[q]); v.push_back(ee[i]);
			run("eqE_v", w, v); run("eps_v", w, v);
			std::vector<u64> vv = v; vv.push_back(ee[q]); run("eqE_vv", w, vv); run("eps_vv", w, vv);
			size_t const q2 = g.below(ex.size()), q3 = g.below(ex.size());
			std::vector<u64> m; m.push_back(ex[i]); m.push_back(ey[i]); m.push_back(ex[q]); m.push_back(ey[q]); m.push_back(ex[q2]); m.push_back(ey[q2]); m.push_back(ex[q3]); m.push_back(ey[q3]);
			m.push_back(ee[g.below(2) ? i : q2]);
			run("eqE_m", w, m); run("eqE_q", w, m); run("eps_q", w, m);
		}
	}
	#undef PICK
}

// ---------------------------------------------------------------- exhaustive sweep over all floats (unary functions)
static inline u64 fold(u64 h, u64 v) { h ^= v; h *= 0x100000001b3ull; h ^= h >> 29; return h; }
static char const* const SWEEP_OPS[] = { "next", "prev", "gnext", "gprev", "ft", "distN1", "eqU1", "next3", "prev3" };
static int const NSWEEP = 9;

static void sweepValues(u32 x, u64 out[9])
{
	typedef Tr<float> R;
	float const f = R::f(x);
	float const nx = glm::nextFloat(f), pv = glm::prevFloat(f);
	out[0] = R::b(nx); out[1] = R::b(pv);
	out[2] = R::b(glm::next_float(f)); out[3] = R::b(glm::prev_float(f));
	glm::detail::float_t<float> u; u.i = static_cast<int>(x);
	out[4] = (u.negative() ? 1ull << 40 : 0) | (static_cast<u64>(static_cast<u32>(u.exponent())) << 24) | static_cast<u32>(u.mantissa());
	out[5] = static_cast<u32>(glm::floatDistance(f, nx));
	glm::bvec2 const ev = glm::equal(glm::vec2(f, pv), glm::vec2(nx, nx), glm::ivec2(1, 1));
	out[6] = (glm::equal(f, nx, 1) ? 1 : 0) | (glm::equal(f, nx, 0) ? 2 : 0) | (ev[0] ? 4 : 0) | (ev[1] ? 8 : 0);
	if((x & 0x7fffffffu) > 0x7f800000u) { out[5] = 0; out[6] = 0; }	// NaN: the payload of nextFloat(NaN) is hardware business
	out[7] = R::b(glm::nextFloat(f, 3)); out[8] = R::b(glm::prevFloat(f, 3));
}

int main(int argc, char** argv)
{
	if(argc >= 4 && std::string(argv[1]) == "lines")
	{
		Rng g(strtoull(argv[2], 0, 10));
		bool const thorough = std::string(argv[3]) == "thorough";
		genLines<float>(g, thorough);
		genLines<double>(g, thorough);
		return 0;
	}
	if(argc >= 4 && std::string(argv[1]) == "sweep")
	{
		u64 const lo = strtoull(argv[2], 0, 10), hi = strtoull(argv[3], 0, 10);
		for(u64 b = lo; b < hi; ++b)
		{
			u64 h[9]; for(int i = 0; i < NSWEEP; ++i) h[i] = 0xcbf29ce484222325ull;
			for(u64 k = 0; k < (1ull << 20); ++k)
			{
				u64 v[9]; sweepValues(static_cast<u32>((b << 20) | k), v);
				for(int i = 0; i < NSWEEP; ++i) h[i] = fold(h[i], v[i]);
			}
			printf("B %llu", static_cast<unsigned long long>(b));
			for(int i = 0; i < NSWEEP; ++i) printf(" %llx", static_cast<unsigned long long>(h[i]));
			fputc('\n', stdout);
		}
		return 0;
	}
	if(argc >= 3 && std::string(argv[1]) == "block")
	{
		u64 const b = strtoull(argv[2], 0, 10);
		for(u64 k = 0; k < (1ull << 20); ++k)
		{
			u64 const x = (b << 20) | k;
			std::vector<u64> a(1, x);
			run("next", 32, a); run("prev", 32, a); run("gnext", 32, a); run("gprev", 32, a); run("ft", 32, a);
			std::vector<u64> a1 = a; a1.push_back(1); run("distN", 32, a1);
			std::vector<u64> a3 = a; a3.push_back(3); run("nextN", 32, a3); run("prevN", 32, a3);
			u64 const nx = Tr<float>::b(glm::nextFloat(Tr<float>::f(x)));
			if((x & 0x7fffffffu) <= 0x7f800000u)
			{
				std::vector<u64> e; e.push_back(x); e.push_back(nx); e.push_back(1); run("eqU_s", 32, e);
				e[2] = 0; run("eqU_s", 32, e);
				std::vector<u64> v; v.push_back(x); v.push_back(nx); v.push_back(Tr<float>::b(glm::prevFloat(Tr<float>::f(x)))); v.push_back(nx); v.push_back(1); run("eqU_v", 32, v);
			}
		}
		return 0;
	}
	if(argc >= 4 && std::string(argv[1]) == "eval")
	{
		std::vector<u64> a, r;
		for(int i = 4; i < argc; ++i) a.push_back(strtoull(argv[i], 0, 16));
		if(!eval(argv[2], atoi(argv[3]), a, r)) { fprintf(stderr, "bad op\n"); return 3; }
		put(argv[2], atoi(argv[3]), a, r);
		return 0;
	}
	(void)SWEEP_OPS;
	fprintf(stderr, "usage: C14 lines <seed> <quick|thorough> | sweep <lo> <hi> | block <b> | eval <op> <w> <hex args...>\n");
	return 2;
}
