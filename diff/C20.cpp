// C20 sanitizer replay of the bit-level / integer / packing functions on IN-DOMAIN inputs only.
//
// Built by check.py with -fsanitize=address,undefined,float-cast-overflow -fno-sanitize-recover=all -fno-sanitize=shift-base
// (the property lists shift *counts*; shifting a negative value left is defined since C++20 and by every
// supported compiler).  Every group states the documented domain it draws its arguments from; the current
// call is kept in CUR and printed by the SIGABRT handler (abort_on_error=1), so an abort names the failing input.
//
//   C20 run <seed> <count>      all groups, <count> evaluations each (plus the fixed boundary values)
//   C20 known                   the recorded in-domain UB classes, one per process call:  C20 known <k>
//   C20 groups                  list
#define GLM_ENABLE_EXPERIMENTAL
#define GLM_FORCE_UNRESTRICTED_GENTYPE
#include <glm/glm.hpp>
#include <glm/gtc/packing.hpp>
#include <glm/gtc/bitfield.hpp>
#include <glm/gtc/round.hpp>
#include <glm/gtc/integer.hpp>
#include <glm/gtc/ulp.hpp>
#include <glm/gtc/type_precision.hpp>
#include <glm/ext/scalar_integer.hpp>
#include <glm/ext/vector_integer.hpp>
#include <glm/ext/scalar_common.hpp>
#include <glm/ext/scalar_ulp.hpp>
#include <glm/gtx/integer.hpp>
#include <glm/gtx/bit.hpp>
#include <glm/ext/matrix_relational.hpp>
#include <glm/ext/vector_relational.hpp>
#include <glm/ext/quaternion_relational.hpp>
#include <glm/gtc/quaternion.hpp>
#include <glm/gtc/matrix_access.hpp>
#include <cstdio>
#include <cstring>
#include <cstdint>
#include <cmath>
#include <string>
#include <limits>
#include <csignal>
#include <unistd.h>

static char CUR[600];
static void on_abort(int) { write(2, "ECHO ", 5); write(2, CUR, strlen(CUR)); write(2, "\n", 1); _exit(134); }   // run with *SAN_OPTIONS=abort_on_error=1
static unsigned long long EVALS = 0;
static volatile unsigned long long SINK = 0;
template<class T> static void use(T const& v) { unsigned char b[sizeof(T)]; memcpy(b, &v, sizeof b); unsigned long long s = 0; for (unsigned char c : b) s = s * 131 + c; SINK += s; EVALS++; }

struct Rng {
	uint64_t s[2];
	explicit Rng(uint64_t seed) { s[0] = seed * 0x9E3779B97F4A7C15ull + 1; s[1] = (seed ^ 0xD1B54A32D192ED03ull) * 0xBF58476D1CE4E5B9ull + 7; for (int i = 0; i < 8; i++) next(); }
	uint64_t next() { uint64_t a = s[0], b = s[1]; s[0] = b; a ^= a << 23; s[1] = a ^ b ^ (a >> 17) ^ (b >> 26); return s[1] + b; }
	uint64_t below(uint64_t n) { return next() % n; }
	int range(int lo, int hi) { return lo + (int)below((uint64_t)(hi - lo + 1)); }
};

// ---- float generators -------------------------------------------------------------------------------------
static float f_bits(uint32_t b) { float f; memcpy(&f, &b, 4); return f; }
static double d_bits(uint64_t b) { double f; memcpy(&f, &b, 8); return f; }
static const float F_SPECIAL[] = { 0.f, -0.f, 1.f, -1.f, 0.5f, -0.5f, 2.f, -2.f, 1e-45f, -1e-45f, 1.17549435e-38f, 3.4028235e38f, -3.4028235e38f,
	65504.f, 65520.f, 65536.f, -65504.f, 6.1e-5f, 5.9e-8f, 2147483648.f, 4294967296.f, -2147483648.f, 2147483520.f, 4294967040.f, 0.99999994f, 1.0000001f,
	255.f, 255.5f, 256.f, 127.5f, 32767.5f, 65535.5f, 1e10f, -1e10f, 1e20f, 0.1f, 0.9f, 0.25f, 0.75f, 1.5f, 2.5f, -1.5f, -2.5f, 8388608.f, 8388607.5f, 16777216.f };
static const int NFS = sizeof(F_SPECIAL) / sizeof(float);
// any finite float
static float f_finite(Rng& r) {
	uint64_t k = r.below(8);
	if (k == 0) return F_SPECIAL[r.below(NFS)];
	if (k < 4) { for (;;) { float f = f_bits((uint32_t)r.next()); if (std::isfinite(f)) return f; } }
	if (k < 6) return (float)((double)(int64_t)(r.next() % 4001) - 2000.0) / 1000.0f;       // [-2, 2]
	return (float)((double)(int64_t)(r.next() % 200001) - 100000.0) / 16.0f;
}
static float f_nonneg(Rng& r) { return std::fabs(f_finite(r)); }
static float f_in(Rng& r, double lo, double hi) { return (float)(lo + (hi - lo) * ((double)(r.next() >> 11) / 9007199254740992.0)); }
static double d_finite(Rng& r) {
	uint64_t k = r.below(6);
	if (k == 0) return (double)F_SPECIAL[r.below(NFS)];
	if (k < 3) { for (;;) { double f = d_bits(r.next()); if (std::isfinite(f)) return f; } }
	return ((double)(int64_t)(r.next() % 2000001) - 1000000.0) / 64.0;
}
template<int L> static glm::vec<L, float> v_finite(Rng& r) { glm::vec<L, float> v; for (int i = 0; i < L; i++) v[i] = f_finite(r); return v; }
template<int L> static glm::vec<L, float> v_nonneg(Rng& r) { glm::vec<L, float> v; for (int i = 0; i < L; i++) v[i] = f_nonneg(r); return v; }
template<int L> static std::string vs(glm::vec<L, float> const& v) { std::string s; char b[40]; for (int i = 0; i < L; i++) { snprintf(b, sizeof b, " %a", (double)v[i]); s += b; } return s; }

// ---- integer generators -----------------------------------------------------------------------------------
// any value of T (bit patterns incl. min/max)
template<class T> static T i_any(Rng& r) {
	uint64_t k = r.below(8);
	typedef std::numeric_limits<T> L;
	if (k == 0) { T sp[] = { T(0), T(1), T(-1), L::min(), L::max(), T(L::max() - 1), T(L::min() + 1), T(2), T(L::max() / 2), T(L::max() / 2 + 1) }; return sp[r.below(10)]; }
	if (k < 4) return (T)r.next();
	if (k < 6) return (T)(r.next() >> r.below(sizeof(T) * 8 + 56 > 63 ? 63 : sizeof(T) * 8 + 56));
	return (T)(int64_t)((int64_t)r.below(2001) - 1000);
}
// moderate magnitudes: |x| <= 2^(w-3), so that sums/multiples of two of them are representable
template<class T> static T i_mod(Rng& r) {
	int w = (int)sizeof(T) * 8; int sh = r.range(0, w - 4);
	uint64_t m = (r.next() & ((1ull << sh) | ((1ull << sh) - 1)));
	bool neg = std::numeric_limits<T>::is_signed && (r.next() & 1);
	return neg ? (T)(-(int64_t)m) : (T)m;
}
template<class T> static T i_pos(Rng& r) { T v = i_mod<T>(r); if (v < T(0)) v = (T)(-v); return v == T(0) ? T(1) : v; }
#define CALL(fmt, ...) snprintf(CUR, sizeof CUR, fmt, __VA_ARGS__)
typedef long long ll; typedef unsigned long long ull;

// ---- groups -----------------------------------------------------------------------------------------------
// pack*: the documented formula clamps, so every finite float is in the domain (unpack*: every bit pattern)
static void g_pack_norm(Rng& r, long n) {
	for (long i = 0; i < n; i++) {
		glm::vec4 v = v_finite<4>(r); glm::vec3 v3(v); glm::vec2 v2(v);
		CALL("packUnorm/Snorm fixed formats%s", vs<4>(v).c_str());
		use(glm::packUnorm1x8(v.x)); use(glm::packUnorm2x8(v2)); use(glm::packSnorm1x8(v.x)); use(glm::packSnorm2x8(v2));
		use(glm::packUnorm1x16(v.x)); use(glm::packUnorm4x16(v)); use(glm::packSnorm1x16(v.x)); use(glm::packSnorm4x16(v));
		use(glm::packUnorm2x16(v2)); use(glm::packSnorm2x16(v2)); use(glm::packUnorm4x8(v)); use(glm::packSnorm4x8(v));
		use(glm::packSnorm3x10_1x2(v)); use(glm::packUnorm3x10_1x2(v));
		use(glm::packUnorm2x4(v2)); use(glm::packUnorm4x4(v)); use(glm::packUnorm1x5_1x6_1x5(v3)); use(glm::packUnorm3x5_1x1(v)); use(glm::packUnorm2x3_1x2(v3));
		CALL("packUnorm<u8|u16>/packSnorm<i8|i16> vec4%s", vs<4>(v).c_str());
		use(glm::packUnorm<glm::uint8>(v)); use(glm::packUnorm<glm::uint16>(v)); use(glm::packSnorm<glm::int8>(v)); use(glm::packSnorm<glm::int16>(v));
		use(glm::packUnorm<glm::uint8>(v3)); use(glm::packSnorm<glm::int16>(v2));
		// 32-bit targets: v >= 1 is the recorded finding (static_cast<float>(max) is 2^31 / 2^32); replayed by `known`
		glm::vec4 w = glm::min(v, glm::vec4(0.99999994f));
		CALL("packUnorm<u32>/packSnorm<i32> vec4 (v < 1)%s", vs<4>(w).c_str());
		use(glm::packUnorm<glm::uint32>(w)); use(glm::packSnorm<glm::int32>(w));
	}
}
static void g_unpack(Rng& r, long n) {
	for (long i = 0; i < n; i++) {
		uint64_t p = r.next();
		CALL("unpack* bits %llx", (ull)p);
		use(glm::unpackUnorm1x8((glm::uint8)p)); use(glm::unpackUnorm2x8((glm::uint16)p)); use(glm::unpackSnorm1x8((glm::uint8)p)); use(glm::unpackSnorm2x8((glm::uint16)p));
		use(glm::unpackUnorm1x16((glm::uint16)p)); use(glm::unpackUnorm4x16(p)); use(glm::unpackSnorm1x16((glm::uint16)p)); use(glm::unpackSnorm4x16(p));
		use(glm::unpackUnorm2x16((glm::uint)p)); use(glm::unpackSnorm2x16((glm::uint)p)); use(glm::unpackUnorm4x8((glm::uint)p)); use(glm::unpackSnorm4x8((glm::uint)p));
		use(glm::unpackHalf1x16((glm::uint16)p)); use(glm::unpackHalf4x16(p)); use(glm::unpackHalf2x16((glm::uint)p));
		use(glm::unpackI3x10_1x2((glm::uint32)p)); use(glm::unpackU3x10_1x2((glm::uint32)p)); use(glm::unpackSnorm3x10_1x2((glm::uint32)p)); use(glm::unpackUnorm3x10_1x2((glm::uint32)p));
		use(glm::unpackF2x11_1x10((glm::uint32)p)); use(glm::unpackF3x9_E1x5((glm::uint32)p));
		use(glm::unpackUnorm2x4((glm::uint8)p)); use(glm::unpackUnorm4x4((glm::uint16)p)); use(glm::unpackUnorm1x5_1x6_1x5((glm::uint16)p)); use(glm::unpackUnorm3x5_1x1((glm::uint16)p)); use(glm::unpackUnorm2x3_1x2((glm::uint8)p));
		use(glm::unpackInt2x8((glm::int16)p)); use(glm::unpackUint2x8((glm::uint16)p)); use(glm::unpackInt4x8((glm::int32)p)); use(glm::unpackUint4x8((glm::uint32)p));
		use(glm::unpackInt2x16((int)p)); use(glm::unpackInt4x16((glm::int64)p)); use(glm::unpackUint2x16((glm::uint)p)); use(glm::unpackUint4x16(p));
		use(glm::unpackInt2x32((glm::int64)p)); use(glm::unpackUint2x32(p)); use(glm::unpackDouble2x32(d_finite(r)));
		use(glm::unpackUnorm<float>(glm::u8vec4((glm::uint8)p, (glm::uint8)(p >> 8), (glm::uint8)(p >> 16), (glm::uint8)(p >> 24))));
		use(glm::unpackSnorm<float>(glm::i16vec4((glm::int16)p, (glm::int16)(p >> 16), (glm::int16)(p >> 32), (glm::int16)(p >> 48))));
		use(glm::unpackHalf(glm::u16vec4((glm::uint16)p, (glm::uint16)(p >> 16), (glm::uint16)(p >> 32), (glm::uint16)(p >> 48))));
		glm::ivec4 iv((int)(p & 1023) - 512, (int)((p >> 10) & 1023) - 512, (int)((p >> 20) & 1023) - 512, (int)((p >> 30) & 3) - 2);
		CALL("packI3x10_1x2 %d %d %d %d", iv.x, iv.y, iv.z, iv.w);
		use(glm::packI3x10_1x2(iv)); use(glm::packU3x10_1x2(glm::uvec4(iv + glm::ivec4(512, 512, 512, 2))));
		use(glm::packInt2x8(glm::i8vec2((glm::int8)p, (glm::int8)(p >> 8)))); use(glm::packUint4x8(glm::u8vec4((glm::uint8)p, 1, 2, (glm::uint8)(p >> 8))));
		use(glm::packInt2x16(glm::i16vec2((glm::int16)p, (glm::int16)(p >> 16)))); use(glm::packInt4x16(glm::i16vec4((glm::int16)p, -1, 7, (glm::int16)(p >> 16))));
		use(glm::packInt2x32(glm::i32vec2((glm::int32)p, (glm::int32)(p >> 32)))); use(glm::packUint2x32(glm::u32vec2((glm::uint32)p, (glm::uint32)(p >> 32))));
		use(glm::packDouble2x32(glm::uvec2((glm::uint)p, (glm::uint)(p >> 32))));
	}
}
// packHalf: every finite float (overflow saturates/inf by the documented conversion); F11/F10 and shared exponent:
// non-negative finite values; RGBM: components in [0, 6] (the format's range)
static void g_pack_float(Rng& r, long n) {
	for (long i = 0; i < n; i++) {
		glm::vec4 v = v_finite<4>(r);
		CALL("packHalf%s", vs<4>(v).c_str());
		use(glm::packHalf1x16(v.x)); use(glm::packHalf4x16(v)); use(glm::packHalf2x16(glm::vec2(v))); use(glm::packHalf(v));
		glm::vec3 p = v_nonneg<3>(r);
		CALL("packF2x11_1x10 / packF3x9_E1x5%s", vs<3>(p).c_str());
		use(glm::packF2x11_1x10(p)); use(glm::packF3x9_E1x5(p));
		glm::vec3 c(f_in(r, 0, 6), f_in(r, 0, 6), f_in(r, 0.001, 6));
		CALL("packRGBM%s", vs<3>(c).c_str());
		glm::vec4 m = glm::packRGBM(c); use(m); use(glm::unpackRGBM(m));
	}
}
// func_common: abs (any value but the minimum of a signed type), sign (any), float<->int bit casts (any),
// roundEven/round/trunc/floor/ceil/fract (any finite), iround/uround (|x| within the target's range), frexp/ldexp,
// lowp inversesqrt (positive finite)
template<class T> static void common_int(Rng& r, char const* ty) {
	T x = i_any<T>(r); if (x == std::numeric_limits<T>::min()) x = T(x + 1);
	CALL("abs/sign<%s> %lld", ty, (ll)x);
	use(glm::abs(x)); use(glm::sign(x)); use(glm::abs(glm::vec<3, T>(x, T(-x), T(1)))); use(glm::sign(glm::vec<2, T>(x, T(0))));
	T y = i_any<T>(r);
	CALL("sign/min/max/clamp<%s> %lld %lld", ty, (ll)x, (ll)y);
	use(glm::sign(y)); use(glm::min(x, y)); use(glm::max(x, y)); use(glm::clamp(x, glm::min(x, y), glm::max(x, y))); use(glm::isPowerOfTwo(x));
}
static void g_common(Rng& r, long n) {
	for (long i = 0; i < n; i++) {
		common_int<glm::int8>(r, "i8"); common_int<glm::int16>(r, "i16"); common_int<glm::int32>(r, "i32"); common_int<glm::int64>(r, "i64");
		float x = f_finite(r); double d = d_finite(r);
		CALL("rounding functions %a %a", (double)x, d);
		use(glm::roundEven(x)); use(glm::round(x)); use(glm::trunc(x)); use(glm::floor(x)); use(glm::ceil(x)); use(glm::fract(x));
		use(glm::roundEven(d)); use(glm::round(d)); use(glm::trunc(d)); use(glm::fract(d));
		use(glm::roundEven(glm::vec4(x, -x, x * 0.5f, 0.5f))); use(glm::floatBitsToInt(x)); use(glm::floatBitsToUint(x)); use(glm::intBitsToFloat((int)r.next())); use(glm::uintBitsToFloat((glm::uint)r.next()));
		use(glm::isnan(x)); use(glm::isinf(x)); use(glm::sign(x)); use(glm::abs(x)); use(glm::mod(x, 3.0f)); use(glm::step(x, 0.5f)); use(glm::smoothstep(0.f, 1.f, x));
		float q = f_in(r, 0.0, 2147483000.0); float u = f_in(r, 0.0, 4294967000.0);   // documented: x >= 0 float u = f_in(r, 0.0, 4294967000.0);
		CALL("iround %a uround %a", (double)q, (double)u);
		use(glm::iround(q)); use(glm::uround(u)); use(glm::iround((double)q)); use(glm::uround((double)u));
		int e = 0; float m = glm::frexp(x, e);
		CALL("frexp/ldexp %a %d", (double)x, e);
		use(m); use(glm::ldexp(m, e)); use(glm::ldexp(x, r.range(-40, 40)));
		float p = f_nonneg(r); if (!(p > 0.f)) p = 1.f;
		CALL("inversesqrt lowp/highp %a", (double)p);
		use(glm::inversesqrt(glm::vec<4, float, glm::lowp>(p))); use(glm::inversesqrt(p)); use(glm::sqrt(glm::vec<2, float, glm::lowp>(p)));
		use(glm::nextFloat(x)); use(glm::prevFloat(x)); use(glm::nextFloat(d)); use(glm::prevFloat(d));
		float y = f_finite(r);
		CALL("floatDistance %a %a", (double)x, (double)y);
		use(glm::floatDistance(x, y)); use(glm::floatDistance(d, d_finite(r))); use(glm::nextFloat(x, r.range(0, 50))); use(glm::prevFloat(x, r.range(0, 50)));
		use(glm::fmin(x, y)); use(glm::fmax(x, y)); use(glm::fclamp(x, glm::min(y, 1.f), glm::max(y, 1.f)));
	}
}
// func_integer: value arguments any; (offset, bits) with 0 <= offset, 0 <= bits, offset + bits <= width (GLSL: otherwise undefined)
template<class T> static void integer_fn(Rng& r, char const* ty) {
	int w = (int)sizeof(T) * 8;
	T x = i_any<T>(r), y = i_any<T>(r);
	CALL("bitCount/findLSB/findMSB/bitfieldReverse<%s> %lld", ty, (ll)x);
	use(glm::bitCount(x)); use(glm::findLSB(x)); use(glm::findMSB(x)); use(glm::bitfieldReverse(x));
	use(glm::bitCount(glm::vec<3, T>(x, y, T(0)))); use(glm::findMSB(glm::vec<2, T>(x, y))); use(glm::findLSB(glm::vec<2, T>(x, y))); use(glm::bitfieldReverse(glm::vec<4, T>(x, y, T(1), T(-1))));
	int off = r.range(0, w), bits = r.range(0, w - off);
	CALL("bitfieldExtract/Insert<%s> %lld %lld offset=%d bits=%d", ty, (ll)x, (ll)y, off, bits);
	use(glm::bitfieldExtract(x, off, bits)); use(glm::bitfieldInsert(x, y, off, bits));
	use(glm::bitfieldExtract(glm::vec<2, T>(x, y), off, bits)); use(glm::bitfieldInsert(glm::vec<2, T>(x, y), glm::vec<2, T>(y, x), off, bits));
}
static void g_integer(Rng& r, long n) {
	for (long i = 0; i < n; i++) {
		integer_fn<glm::int8>(r, "i8"); integer_fn<glm::uint8>(r, "u8"); integer_fn<glm::int16>(r, "i16"); integer_fn<glm::uint16>(r, "u16");
		integer_fn<glm::int32>(r, "i32"); integer_fn<glm::uint32>(r, "u32"); integer_fn<glm::int64>(r, "i64"); integer_fn<glm::uint64>(r, "u64");
		glm::uint a = (glm::uint)r.next(), b = (glm::uint)r.next(), c = 0, lo = 0, hi = 0; int ia = (int)r.next(), ib = (int)r.next(), ilo = 0, ihi = 0;
		CALL("uaddCarry/usubBorrow/umulExtended %u %u imulExtended %d %d", a, b, ia, ib);
		use(glm::uaddCarry(a, b, c)); use(c); use(glm::usubBorrow(a, b, c)); use(c);
		glm::umulExtended(a, b, hi, lo); use(hi); use(lo); glm::imulExtended(ia, ib, ihi, ilo); use(ihi); use(ilo);
		glm::uvec3 va(a, b, a ^ b), vb(b, a, 1u), vc(0), vh(0), vl(0);
		use(glm::uaddCarry(va, vb, vc)); use(glm::usubBorrow(va, vb, vc)); glm::umulExtended(va, vb, vh, vl); use(vh); use(vl);
	}
}
// gtc/bitfield: mask(bits) for 0 <= bits <= width; rotate by 0 <= shift < width (value any); fill with first + count <= width;
// interleave any
template<class T> static void bitfield_fn(Rng& r, char const* ty, bool rot0) {
	int w = (int)sizeof(T) * 8;
	T x = i_any<T>(r);
	int b = r.range(0, w);
	CALL("mask<%s> %d", ty, b);
	use(glm::mask(T(b))); use(glm::mask(glm::vec<2, T>(T(b), T(0))));
	int sh = r.range(rot0 ? 0 : 1, w - 1);
	CALL("bitfieldRotateLeft/Right<%s> %lld shift=%d", ty, (ll)x, sh);
	use(glm::bitfieldRotateLeft(x, sh)); use(glm::bitfieldRotateRight(x, sh));
	use(glm::bitfieldRotateLeft(glm::vec<2, T>(x, T(1)), sh)); use(glm::bitfieldRotateRight(glm::vec<2, T>(x, T(1)), sh));
	int first = r.range(0, w - 1), cnt = r.range(0, w - first);
	CALL("bitfieldFillOne/Zero<%s> %lld first=%d count=%d", ty, (ll)x, first, cnt);
	use(glm::bitfieldFillOne(x, first, cnt)); use(glm::bitfieldFillZero(x, first, cnt));
	use(glm::bitfieldFillOne(glm::vec<2, T>(x, T(0)), first, cnt)); use(glm::bitfieldFillZero(glm::vec<2, T>(x, T(-1)), first, cnt));
}
static void g_bitfield(Rng& r, long n) {
	for (long i = 0; i < n; i++) {
		bitfield_fn<glm::uint8>(r, "u8", true); bitfield_fn<glm::uint16>(r, "u16", true); bitfield_fn<glm::uint32>(r, "u32", true); bitfield_fn<glm::uint64>(r, "u64", true);
		bitfield_fn<glm::int8>(r, "i8", true); bitfield_fn<glm::int16>(r, "i16", true); bitfield_fn<glm::int32>(r, "i32", true); bitfield_fn<glm::int64>(r, "i64", true);
		uint64_t p = r.next();
		CALL("bitfieldInterleave/Deinterleave %llx", (ull)p);
		use(glm::bitfieldInterleave((glm::uint8)p, (glm::uint8)(p >> 8))); use(glm::bitfieldInterleave((glm::int8)p, (glm::int8)(p >> 8)));
		use(glm::bitfieldInterleave((glm::uint16)p, (glm::uint16)(p >> 16))); use(glm::bitfieldInterleave((glm::int16)p, (glm::int16)(p >> 16)));
		use(glm::bitfieldInterleave((glm::uint32)p, (glm::uint32)(p >> 32))); use(glm::bitfieldInterleave((glm::int32)p, (glm::int32)(p >> 32)));
		use(glm::bitfieldInterleave((glm::uint8)p, (glm::uint8)(p >> 8), (glm::uint8)(p >> 16))); use(glm::bitfieldInterleave((glm::uint16)p, (glm::uint16)(p >> 16), (glm::uint16)(p >> 32)));
		use(glm::bitfieldInterleave((glm::uint32)p, (glm::uint32)(p >> 21), (glm::uint32)(p >> 42)));
		use(glm::bitfieldInterleave((glm::uint8)p, (glm::uint8)(p >> 8), (glm::uint8)(p >> 16), (glm::uint8)(p >> 24))); use(glm::bitfieldInterleave((glm::uint16)p, (glm::uint16)(p >> 16), (glm::uint16)(p >> 32), (glm::uint16)(p >> 48)));
		use(glm::bitfieldInterleave(glm::u8vec2((glm::uint8)p, (glm::uint8)(p >> 8)))); use(glm::bitfieldInterleave(glm::u16vec2((glm::uint16)p, (glm::uint16)(p >> 16)))); use(glm::bitfieldInterleave(glm::u32vec2((glm::uint32)p, (glm::uint32)(p >> 32))));
		use(glm::bitfieldDeinterleave((glm::uint16)p)); use(glm::bitfieldDeinterleave((glm::uint32)p)); use(glm::bitfieldDeinterleave(p));
	}
}
// gtc/round + ext/scalar_integer: power-of-two family for 0 < v <= 2^(w-3); multiples for |source| <= 2^(w-3), 0 < multiple <= 2^(w-3);
// findNSB(value any, 0 <= n <= width)
template<class T> static void round_fn(Rng& r, char const* ty) {
	int w = (int)sizeof(T) * 8;
	T v = i_pos<T>(r), s = i_mod<T>(r), m = i_pos<T>(r);
	CALL("isPowerOfTwo/ceil/floor/roundPowerOfTwo/nextPowerOfTwo/prevPowerOfTwo<%s> %lld", ty, (ll)v);
	use(glm::isPowerOfTwo(v)); use(glm::ceilPowerOfTwo(v)); use(glm::floorPowerOfTwo(v)); use(glm::roundPowerOfTwo(v)); use(glm::nextPowerOfTwo(v)); use(glm::prevPowerOfTwo(v));
	use(glm::ceilPowerOfTwo(glm::vec<2, T>(v, T(1)))); use(glm::floorPowerOfTwo(glm::vec<2, T>(v, T(1)))); use(glm::roundPowerOfTwo(glm::vec<2, T>(v, T(3))));
	CALL("isMultiple/ceil/floor/roundMultiple/next/prevMultiple<%s> %lld %lld", ty, (ll)s, (ll)m);
	use(glm::isMultiple(s, m)); use(glm::ceilMultiple(s, m)); use(glm::floorMultiple(s, m)); use(glm::roundMultiple(s, m)); use(glm::nextMultiple(s, m)); use(glm::prevMultiple(s, m));
	use(glm::ceilMultiple(glm::vec<2, T>(s, T(5)), glm::vec<2, T>(m, T(3)))); use(glm::floorMultiple(glm::vec<2, T>(s, T(5)), glm::vec<2, T>(m, T(3)))); use(glm::roundMultiple(glm::vec<2, T>(s, T(5)), glm::vec<2, T>(m, T(3))));
	// sources at the ends of the type: in the domain whenever the multiple asked for is itself representable
	{
		typedef __int128 W; W lo = (W)std::numeric_limits<T>::min(), hi = (W)std::numeric_limits<T>::max();
		W se = (r.next() & 1) ? lo + (W)r.range(0, 40) : hi - (W)r.range(0, 40); W me = (W)r.range(1, 33); if (me > hi) me = hi;
		W fl = se - (((se % me) + me) % me), ce = fl == se ? se : fl + me;
		T S = (T)se, M = (T)me;
		if (fl >= lo) { CALL("floorMultiple/prevMultiple<%s> %lld %lld (end of range)", ty, (ll)S, (ll)M); use(glm::floorMultiple(S, M)); use(glm::prevMultiple(S, M)); use(glm::floorMultiple(glm::vec<2, T>(S, T(5)), glm::vec<2, T>(M, T(3)))); }
		if (ce <= hi) { CALL("ceilMultiple/nextMultiple<%s> %lld %lld (end of range)", ty, (ll)S, (ll)M); use(glm::ceilMultiple(S, M)); use(glm::nextMultiple(S, M)); use(glm::ceilMultiple(glm::vec<2, T>(S, T(5)), glm::vec<2, T>(M, T(3)))); }
		CALL("isMultiple<%s> %lld %lld (end of range)", ty, (ll)S, (ll)M); use(glm::isMultiple(S, M));
	}
	// multiples larger than a quarter of the type's range, any source: in the domain whenever the multiple asked for is representable
	{
		typedef __int128 W; W lo = (W)std::numeric_limits<T>::min(), hi = (W)std::numeric_limits<T>::max();
		W mb = hi - (W)(r.next() % (uint64_t)(hi / 4 * 3 + 1)); if (mb < 1) mb = 1;              // (hi/4, hi]
		W sb = std::numeric_limits<T>::is_signed ? (W)(T)r.next() : (W)(T)r.next(); if ((r.next() & 3) == 0) sb = mb - (W)r.range(0, 3); if (sb < lo) sb = lo; if (sb > hi) sb = hi;
		W fl = sb - (((sb % mb) + mb) % mb), ce = fl == sb ? sb : fl + mb, df = sb - fl, rd = df < mb - df ? fl : fl + mb;
		T S = (T)sb, M = (T)mb;
		if (fl >= lo) { CALL("floorMultiple<%s> %lld %lld (large multiple)", ty, (ll)S, (ll)M); use(glm::floorMultiple(S, M)); }
		if (ce <= hi) { CALL("ceilMultiple<%s> %lld %lld (large multiple)", ty, (ll)S, (ll)M); use(glm::ceilMultiple(S, M)); }
		if (fl >= lo && rd <= hi) { CALL("roundMultiple<%s> %lld %lld (large multiple)", ty, (ll)S, (ll)M); use(glm::roundMultiple(S, M)); use(glm::roundMultiple(glm::vec<2, T>(S, T(5)), glm::vec<2, T>(M, T(3)))); }
	}
	T x = i_any<T>(r); int nth = r.range(0, w);
	CALL("findNSB<%s> %lld %d", ty, (ll)x, nth);
	use(glm::findNSB(x, nth)); use(glm::findNSB(glm::vec<2, T>(x, T(6)), glm::vec<2, int>(nth, 1)));
}
static void g_round(Rng& r, long n) {
	for (long i = 0; i < n; i++) {
		round_fn<glm::int8>(r, "i8"); round_fn<glm::uint8>(r, "u8"); round_fn<glm::int16>(r, "i16"); round_fn<glm::uint16>(r, "u16");
		round_fn<glm::int32>(r, "i32"); round_fn<glm::uint32>(r, "u32"); round_fn<glm::int64>(r, "i64"); round_fn<glm::uint64>(r, "u64");
		float s = f_in(r, -1e6, 1e6), m = f_in(r, 0.01, 1e4);
		CALL("ceil/floor/roundMultiple<float> %a %a", (double)s, (double)m);
		use(glm::ceilMultiple(s, m)); use(glm::floorMultiple(s, m)); use(glm::roundMultiple(s, m));
	}
}
// gtc/integer + gtx/integer + gtx/bit: log2 (x > 0), integer sqrt (x >= 0), pow (result representable), factorial (0..12),
// mod (y != 0), highestBitValue/lowestBitValue (any), powerOfTwoAbove/Below/Nearest (0 < x <= 2^(w-3))
static void g_gtx(Rng& r, long n) {
	for (long i = 0; i < n; i++) {
		int p = i_pos<int>(r); glm::uint up = (glm::uint)i_pos<int>(r);
		CALL("log2/sqrt/mod %d %u", p, up);
		use(glm::log2(p)); use(glm::log2(glm::ivec3(p, 1, 7))); use(glm::sqrt(p)); use(glm::sqrt(up)); use(glm::mod(p, 7)); use(glm::mod(up, 5u));
		int b = r.range(-6, 6), e = r.range(0, 10);
		CALL("pow(int) %d ^ %d", b, e);
		use(glm::pow(b, (glm::uint)e)); use(glm::pow((glm::uint)(b < 0 ? -b : b), (glm::uint)e));
		int f = r.range(0, 12);
		CALL("factorial %d", f);
		use(glm::factorial(f)); use(glm::factorial(glm::ivec2(f, 3)));
		int x = i_any<int>(r); glm::int64 x64 = i_any<glm::int64>(r); glm::uint ux = (glm::uint)r.next();
		CALL("highestBitValue/lowestBitValue %d %lld %u", x, (ll)x64, ux);
		use(glm::highestBitValue(ux)); use(glm::lowestBitValue(ux)); use(glm::lowestBitValue((glm::uint64)x64)); use(glm::highestBitValue(x < 0 ? 1 : x)); use(glm::lowestBitValue(x));
		CALL("powerOfTwoAbove/Below/Nearest %d", p);
		use(glm::powerOfTwoAbove(p)); use(glm::powerOfTwoBelow(p)); use(glm::powerOfTwoNearest(p)); use(glm::powerOfTwoAbove(up)); use(glm::powerOfTwoNearest(up));
	}
}

// relational functions and element access of every vector length / matrix shape / quaternion: any finite values,
// epsilon >= 0, ULPs >= 0 (every index the functions compute themselves must be inside the object)
template<int C, int R, class T> static void rel_mat(Rng& r, char const* ty) {
	glm::mat<C, R, T> a, b;
	for (int c = 0; c < C; ++c) for (int q = 0; q < R; ++q) { a[c][q] = (T)f_finite(r); b[c][q] = (r.next() & 3) ? a[c][q] : (T)f_finite(r); }
	CALL("equal/notEqual(mat%dx%d<%s>) all overloads; row/column access", C, R, ty);
	use(glm::equal(a, b)); use(glm::notEqual(a, b)); use(glm::equal(a, b, (T)1e-6)); use(glm::notEqual(a, b, (T)1e-6));
	use(glm::equal(a, b, glm::vec<C, T>((T)1e-6))); use(glm::notEqual(a, b, glm::vec<C, T>((T)1e-6)));
	use(glm::equal(a, b, 2)); use(glm::notEqual(a, b, 2)); use(glm::equal(a, b, glm::vec<C, int>(3))); use(glm::notEqual(a, b, glm::vec<C, int>(3)));
	use(a == b); use(a != b);
	for (int c = 0; c < C; ++c) use(glm::column(a, c)); for (int q = 0; q < R; ++q) use(glm::row(a, q));
	use(glm::transpose(a)); use(glm::matrixCompMult(a, b)); use(glm::outerProduct(glm::column(a, 0), glm::row(b, 0)));
}
template<int L, class T> static void rel_vec(Rng& r, char const* ty) {
	glm::vec<L, T> a, b; for (int i = 0; i < L; ++i) { a[i] = (T)f_finite(r); b[i] = (r.next() & 1) ? a[i] : (T)f_finite(r); }
	CALL("relational functions vec%d<%s>", L, ty);
	use(glm::equal(a, b)); use(glm::notEqual(a, b)); use(glm::equal(a, b, (T)1e-6)); use(glm::notEqual(a, b, (T)1e-6));
	use(glm::equal(a, b, glm::vec<L, T>((T)1e-6))); use(glm::notEqual(a, b, glm::vec<L, T>((T)1e-6)));
	use(glm::equal(a, b, 2)); use(glm::notEqual(a, b, 2)); use(glm::equal(a, b, glm::vec<L, int>(3))); use(glm::notEqual(a, b, glm::vec<L, int>(3)));
	use(glm::lessThan(a, b)); use(glm::lessThanEqual(a, b)); use(glm::greaterThan(a, b)); use(glm::greaterThanEqual(a, b));
	use(glm::any(glm::lessThan(a, b))); use(glm::all(glm::lessThan(a, b))); use(glm::not_(glm::lessThan(a, b))); use(a == b);
}
static void g_relational(Rng& r, long n) {
	for (long i = 0; i < n; i += 8) {
		rel_mat<2, 2, float>(r, "float"); rel_mat<2, 3, float>(r, "float"); rel_mat<2, 4, float>(r, "float"); rel_mat<3, 2, float>(r, "float"); rel_mat<3, 3, float>(r, "float");
		rel_mat<3, 4, float>(r, "float"); rel_mat<4, 2, float>(r, "float"); rel_mat<4, 3, float>(r, "float"); rel_mat<4, 4, float>(r, "float");
		rel_mat<2, 3, double>(r, "double"); rel_mat<3, 4, double>(r, "double"); rel_mat<4, 2, double>(r, "double"); rel_mat<3, 3, double>(r, "double");
		rel_vec<1, float>(r, "float"); rel_vec<2, float>(r, "float"); rel_vec<3, float>(r, "float"); rel_vec<4, float>(r, "float"); rel_vec<3, double>(r, "double");
		glm::quat q(f_in(r, -1, 1), f_in(r, -1, 1), f_in(r, -1, 1), f_in(r, -1, 1)), p = (r.next() & 1) ? q : glm::quat(1, 0, 0, 0);
		CALL("relational functions quat %a %a %a %a", (double)q.w, (double)q.x, (double)q.y, (double)q.z);
		use(glm::equal(q, p)); use(glm::notEqual(q, p)); use(glm::equal(q, p, 1e-6f)); use(glm::notEqual(q, p, 1e-6f)); use(q == p);
		use(glm::lessThan(q, p)); use(glm::greaterThanEqual(q, p));
	}
}

struct Group { char const* name; void (*fn)(Rng&, long); char const* domain; };
static Group GROUPS[] = {
	{ "pack_norm", g_pack_norm, "packUnorm*/packSnorm*: every finite float (the documented formula clamps); <uint32>/<int32>: v < 1 (v >= 1 is the recorded finding)" },
	{ "unpack", g_unpack, "unpack*: every bit pattern; integer packs: every value; packI/U3x10_1x2: components in the fields' ranges" },
	{ "pack_float", g_pack_float, "packHalf*: every finite float; packF2x11_1x10/packF3x9_E1x5: non-negative finite; packRGBM: [0,6]" },
	{ "common", g_common, "abs: any but the signed minimum; sign/min/max/clamp: any; rounding: any finite; iround/uround: 0 <= x inside the target range; inversesqrt: positive" },
	{ "integer", g_integer, "value arguments: any; 0 <= offset, 0 <= bits, offset + bits <= width" },
	{ "bitfield", g_bitfield, "mask: 0..width; rotate: value any, 0 <= shift < width; fill: first + count <= width" },
	{ "round", g_round, "0 < v <= 2^(w-3); |source| <= 2^(w-3), 0 < multiple <= 2^(w-3), and sources within 40 of either end of the type with multiples 1..33 whenever the floor (ceil) multiple is representable, and multiples above a quarter of the range with any source whenever the multiple asked for is representable; findNSB: any value, 0 <= n <= width" },
	{ "relational", g_relational, "equal/notEqual (plain, epsilon, ULP; scalar and per-column/per-component tolerances), ordering relations, row/column access, transpose: every vector length, all nine matrix shapes, quaternions; any finite values" },
	{ "gtx", g_gtx, "log2: x > 0; sqrt: x >= 0; pow: |b| <= 6, e <= 10; factorial: 0..12; powerOfTwo*: 0 < x <= 2^(w-3)" },
};
static const int NG = sizeof(GROUPS) / sizeof(Group);

// recorded in-domain classes that do execute UB on the pinned tree (known_findings.json, property C20)
static int known(int k) {
	switch (k) {
	case 0: CALL("%s", "packUnorm<uint32>(vec4(1.0f))"); use(glm::packUnorm<glm::uint32>(glm::vec4(1.0f))); return 0;
	case 1: CALL("%s", "packSnorm<int32>(vec4(1.0f))"); use(glm::packSnorm<glm::int32>(glm::vec4(1.0f))); return 0;
	default: return 3;
	}
}

int main(int argc, char** argv) {
	signal(SIGABRT, on_abort);
	std::string mode = argc > 1 ? argv[1] : "";
	if (mode == "groups") { for (int g = 0; g < NG; g++) printf("%s\t%s\n", GROUPS[g].name, GROUPS[g].domain); return 0; }
	if (mode == "known" && argc >= 3) { int rc = known(atoi(argv[2])); printf("KNOWN %s executed without sanitizer report\n", argv[2]); return rc; }
	if (mode == "run" && argc >= 4) {
		uint64_t seed = strtoull(argv[2], 0, 10); long n = atol(argv[3]);
		for (int g = 0; g < NG; g++) {
			if (argc >= 5 && std::string(argv[4]) != GROUPS[g].name) continue;
			Rng r(seed * 1000 + (uint64_t)g);
			unsigned long long e0 = EVALS;
			GROUPS[g].fn(r, n);
			printf("GROUP %s evaluations=%llu\n", GROUPS[g].name, EVALS - e0);
		}
		printf("DONE evaluations=%llu sink=%llx\n", EVALS, (unsigned long long)SINK);
		return 0;
	}
	fprintf(stderr, "usage: C20 run <seed> <count> [group] | known <k> | groups\n");
	return 2;
}
