// C03 two-build differential harness: the SAME source is compiled
//   pure:  g++ -std=c++17 -O1 -ffp-contract=off -DGLM_FORCE_PURE        -I$REPO -I$VERIF diff/C03.cpp
//   simd:  g++ -std=c++17 -O1 -ffp-contract=off -DGLM_FORCE_INTRINSICS <-msse2 | -msse3 | -mssse3 | -msse4.1 | -msse4.2 | -mavx |
//                                               -mavx2 | -mavx2 -mfma -DGLM_FORCE_FMA>  -I$REPO -I$VERIF diff/C03.cpp
// and run as   C03 <seed> <count>   printing, for every operation of the table (trace/fake_intrin/c03_ops.hpp, shared
// with the tracer TU trace/units/C03.cpp) and every seeded input,
//      <op> in-bits… -> out-bits…            (decimal bit patterns: 32-bit, 64-bit for the double operations `d_…`;
//                                             NaN results canonicalised to the default quiet NaN)
// The pure build uses packed_highp types, the simd build aligned_highp (…_mediump / …_lowp for the `<op>_mediump`,
// `<op>_lowp` lines) and additionally prints `kern_<fn>` lines for the kernels of glm/simd/*.h.  Inputs depend only on
// (seed, op name, index), so the two outputs can be diffed line by line; the first line is a `# build=…` comment.
// `C03 <seed> <count> <op-prefix>` restricts the output to operations whose name starts with the prefix.
#ifndef NDEBUG
#define NDEBUG          // glm::lerp asserts 0 <= a <= 1; the inputs here are arbitrary
#endif
#include <cstdio>
#include <cstdlib>
#include <cstring>
#include <cstdint>
#include <cmath>
#include <string>
#include <vector>
#include <functional>
#include <type_traits>
#define GLM_FORCE_UNRESTRICTED_GENTYPE
#define GLM_ENABLE_EXPERIMENTAL
#include <glm/vec2.hpp>
#include <glm/vec3.hpp>
#include <glm/vec4.hpp>
#include <glm/mat3x3.hpp>
#include <glm/mat4x4.hpp>
#include <glm/common.hpp>
#include <glm/exponential.hpp>
#include <glm/geometric.hpp>
#include <glm/matrix.hpp>
#include <glm/gtc/quaternion.hpp>
#include <glm/integer.hpp>

#if GLM_ARCH & GLM_ARCH_SSE2_BIT
#  define C03_SIMD 1
#  if defined(__SSE4_1__)
#    define C03_INT_MINMAX 1        // aligned ivec4/uvec4 min/max/clamp use SSE4.1 instructions without a guard: below that level they do not compile
#  endif
#else
#  define C03_SIMD 0
#  define C03_INT_MINMAX 1
#endif
#include "trace/fake_intrin/c03_ops.hpp"

struct Rng {
  uint64_t s[4];
  explicit Rng(uint64_t seed) { uint64_t z = seed + 0x9E3779B97F4A7C15ull; for (int i = 0; i < 4; ++i) { z += 0x9E3779B97F4A7C15ull; uint64_t x = z; x = (x ^ (x >> 30)) * 0xBF58476D1CE4E5B9ull; x = (x ^ (x >> 27)) * 0x94D049BB133111EBull; s[i] = x ^ (x >> 31); } }
  static uint64_t rotl(uint64_t x, int k) { return (x << k) | (x >> (64 - k)); }
  uint64_t next() { uint64_t r = rotl(s[1] * 5, 7) * 9, t = s[1] << 17; s[2] ^= s[0]; s[3] ^= s[1]; s[1] ^= s[2]; s[0] ^= s[3]; s[2] ^= t; s[3] = rotl(s[3], 45); return r; }
  double unit() { return (next() >> 11) * (1.0 / 9007199254740992.0); }
};
static uint64_t hash_name(std::string const& s) { uint64_t h = 1469598103934665603ull; for (unsigned char c : s) { h ^= c; h *= 1099511628211ull; } return h; }

// input classes: 0 small integers, 1 halves (ties of round), 2 uniform [-4,4], 3 wide magnitudes, 4 special values, 5 {-1,0,1}
static float gen_float(Rng& r, int cls) {
  switch (cls) {
    case 0: return (float)((int)(r.next() % 17) - 8);
    case 1: return (float)((int)(r.next() % 33) - 16) * 0.5f;
    case 2: return (float)(r.unit() * 8.0 - 4.0);
    case 5: return (float)((int)(r.next() % 3) - 1);                       // -1, 0, 1: axis vectors, exact ties of comparisons (k == 0 in refract, dot == 0)
    case 3: { double m = r.unit() * 2 - 1; int e = (int)(r.next() % 61) - 30; return (float)std::ldexp(m, e); }
    default: {
      static const float sp[] = {0.0f, -0.0f, 1.0f, -1.0f, 0.5f, -0.5f, 2.0f, 1.5f, -2.5f, 1e-30f, -1e-30f, 1e30f, -1e30f, 8388607.5f, 8388608.0f, -8388609.0f, 16777216.0f,
        2147483648.0f, 3.4028234e38f, -3.4028234e38f, 1.17549435e-38f, 1e-45f, INFINITY, -INFINITY, NAN};
      return sp[r.next() % (sizeof sp / sizeof sp[0])];
    }
  }
}
static uint32_t gen_int(Rng& r, int cls) {
  static const uint32_t sp[] = {0u, 1u, 2u, 0x7fu, 0x80u, 0xffu, 0x100u, 0x7fffu, 0x8000u, 0xffffu, 0x10000u, 0x7fffffffu, 0x80000000u, 0x80000001u, 0xfffffffeu, 0xffffffffu, 0x55555555u, 0xaaaaaaaau};
  switch (cls) { case 0: case 1: return (uint32_t)((int)(r.next() % 33) - 16); case 2: case 3: return (uint32_t)r.next(); default: return sp[r.next() % (sizeof sp / sizeof sp[0])]; }
}
static uint32_t fbits(float f) { uint32_t b; std::memcpy(&b, &f, 4); if ((b & 0x7fffffffu) > 0x7f800000u) b = 0x7fc00000u; return b; }

struct LineReg {
  using F = float; using D = double; using I = int; using U = unsigned;
  template<glm::qualifier Q> using QT = c03::QT<Q>;
  uint64_t seed; int count; const char* prefix;
  bool want(std::string const& op) const { return !prefix || op.compare(0, strlen(prefix), prefix) == 0; }

  static void put(float v, bool canon) { uint32_t b; std::memcpy(&b, &v, 4); if (canon && (b & 0x7fffffffu) > 0x7f800000u) b = 0x7fc00000u; printf(" %u", b); }
  static void put(double v, bool canon) { uint64_t b; std::memcpy(&b, &v, 8); if (canon && (b & 0x7fffffffffffffffull) > 0x7ff0000000000000ull) b = 0x7ff8000000000000ull; printf(" %llu", (unsigned long long)b); }
  template<class S, class Fn> void run_f(std::string const& op, int nin, int nout, Fn f) {
    if (!want(op)) return;
    Rng r(seed ^ hash_name(op)); std::vector<S> in(nin), out(nout);
    for (int k = 0; k < count; ++k) {
      int cls = k % 12 < 3 ? 0 : k % 12 < 5 ? 1 : k % 12 < 8 ? 2 : k % 12 == 8 ? 3 : k % 12 == 9 ? 4 : 5;
      for (int i = 0; i < nin; ++i) in[i] = (S)gen_float(r, cls);
      if (cls == 4 || k % 7 == 3) for (int i = 0; i < nin; ++i) if (r.next() % 3) in[i] = (S)gen_float(r, 2);      // specials diluted; mixed classes
      if (sizeof(S) == 8 && cls == 2) for (int i = 0; i < nin; ++i) in[i] = (S)(r.unit() * 8.0 - 4.0);            // full double mantissas
      for (int j = 0; j < nout; ++j) out[j] = S(0);
      f(in.data(), out.data());
      printf("%s", op.c_str()); for (int i = 0; i < nin; ++i) put(in[i], false);
      printf(" ->"); for (int j = 0; j < nout; ++j) put(out[j], true); printf("\n");
    }
  }
  template<class T, class Fn> void run_i(std::string const& op, int nin, int nout, Fn f) {
    if (!want(op)) return;
    Rng r(seed ^ hash_name(op)); std::vector<T> in(nin), out(nout);
    for (int k = 0; k < count; ++k) {
      int cls = k % 5;
      for (int i = 0; i < nin; ++i) in[i] = (T)gen_int(r, cls);
      if (k % 6 == 5) for (int i = 0; i + nin / 2 < nin && i < 4; ++i) if (r.next() & 1) in[i + nin / 2] = in[i];   // equal components (==, !=, min/max ties)
      // shift counts must be < 32 (anything else is undefined behaviour in C++, on both paths)
      if (op.find("sh") != std::string::npos) for (int i = 4; i < nin; ++i) in[i] = (T)((uint32_t)in[i] & 31u);
      for (int j = 0; j < nout; ++j) out[j] = 0;
      f(in.data(), out.data());
      printf("%s", op.c_str()); for (int i = 0; i < nin; ++i) printf(" %u", (uint32_t)in[i]);
      printf(" ->"); for (int j = 0; j < nout; ++j) printf(" %u", (uint32_t)out[j]); printf("\n");
    }
  }
#if C03_SIMD
#  define C03_HP glm::aligned_highp
#  define C03_MP glm::aligned_mediump
#  define C03_LP glm::aligned_lowp
#else
#  define C03_HP glm::packed_highp
#  define C03_MP glm::packed_mediump
#  define C03_LP glm::packed_lowp
#endif
  template<class S, class Fn> void fam(std::string const& op, int nin, int nout, Fn f) { run_f<S>(op, nin, nout, [f](S const* x, S* o) { f(x, o, QT<C03_HP>()); }); }
  template<class S, class Fn> void fam_q(std::string const& op, int nin, int nout, Fn f) {
    fam<S>(op, nin, nout, f);
    run_f<S>(op + "_mediump", nin, nout, [f](S const* x, S* o) { f(x, o, QT<C03_MP>()); });
    run_f<S>(op + "_lowp", nin, nout, [f](S const* x, S* o) { f(x, o, QT<C03_LP>()); });
  }
  template<class S, class QQ, class Fn> void simd_only(std::string const& op, int nin, int nout, QQ qq, Fn f) {
#if C03_SIMD
    run_f<S>(op, nin, nout, [f, qq](S const* x, S* o) { f(x, o, qq); });
#endif
  }
  template<class Fn> void kern(std::string const& fn, int nin, int nout, Fn f) { run_f<float>("kern_" + fn, nin, nout, f); }
  template<class Fn> void ifam(std::string const& op, int nin, int nout, Fn f) { run_i<int>(op, nin, nout, [f](int const* x, int* o) { f(x, o, QT<C03_HP>()); }); }
  template<class Fn> void ufam(std::string const& op, int nin, int nout, Fn f) { run_i<unsigned>(op, nin, nout, [f](unsigned const* x, unsigned* o) { f(x, o, QT<C03_HP>()); }); }
  template<class Fn> void ikern(std::string const& fn, int nin, int nout, Fn f) { run_i<int>("kern_" + fn, nin, nout, f); }
  template<class Fn> void ukern(std::string const& fn, int nin, int nout, Fn f) { run_i<unsigned>("kern_" + fn, nin, nout, f); }

  template<glm::qualifier Q> static glm::vec<4, int, Q> ldi(int const* x) { return glm::vec<4, int, Q>(x[0], x[1], x[2], x[3]); }
  template<glm::qualifier Q> static glm::vec<4, unsigned, Q> ldu(unsigned const* x) { return glm::vec<4, unsigned, Q>(x[0], x[1], x[2], x[3]); }
  template<int L, class S, class T, glm::qualifier Q> static void sti(S* o, glm::vec<L, T, Q> const& v) { for (int i = 0; i < L; ++i) o[i] = (S)v[i]; }
  template<glm::qualifier Q> static int iarg(int x) { return x; }
  template<glm::qualifier Q> static unsigned iarg(unsigned x) { return x; }
  // constructors taking C++ integers: first the line at the literal arguments the tracer uses, then seeded arguments
  // (small, around 2^24 where int -> float starts to round, full range)
  template<class S, class A, class Fn> void run_lit(std::string const& op, int nargs, int nout, Fn f) {
    if (!want(op)) return;
    Rng r(seed ^ hash_name(op)); A a[4]; std::vector<S> out(nout);
    for (int k = 0; k <= count; ++k) {
      for (int i = 0; i < nargs; ++i) {
        if (k == 0) { int v = c03::C03_LIT[i]; a[i] = std::is_unsigned<A>::value && v < 0 ? (A)(-v) : (A)v; }
        else switch (k % 4) { case 0: a[i] = (A)((int)(r.next() % 41) - 20); break; case 1: a[i] = (A)((int)(16777216 + (int)(r.next() % 65) - 32) * ((r.next() & 1) ? 1 : -1)); break; default: a[i] = (A)(uint32_t)r.next(); }
      }
      for (int j = 0; j < nout; ++j) out[j] = S(0);
      f(a, out.data());
      printf("%s", op.c_str()); for (int i = 0; i < nargs; ++i) printf(" %u", (uint32_t)a[i]);
      printf(" ->"); for (int j = 0; j < nout; ++j) put(out[j], true); printf("\n");
    }
  }
  template<class S, class A, class Fn> void lit_fam(std::string const& op, int nargs, int nout, Fn f) { run_lit<S, A>(op, nargs, nout, [f](A const* a, S* o) { f(a, o, QT<C03_HP>()); }); }
  template<class S, class A, class Fn> void lit_fam_q(std::string const& op, int nargs, int nout, Fn f) {
    lit_fam<S, A>(op, nargs, nout, f);
    run_lit<S, A>(op + "_mediump", nargs, nout, [f](A const* a, S* o) { f(a, o, QT<C03_MP>()); });
    run_lit<S, A>(op + "_lowp", nargs, nout, [f](A const* a, S* o) { f(a, o, QT<C03_LP>()); });
  }
#if C03_SIMD
  template<class S> static __m128i ldki(S const* x) { return _mm_loadu_si128((__m128i const*)x); }
  template<class S> static void stki(S* o, __m128i v) { _mm_storeu_si128((__m128i*)o, v); }
#endif
};

int main(int argc, char** argv) {
  if (argc < 3) { fprintf(stderr, "usage: %s <seed> <count> [op-prefix]\n", argv[0]); return 2; }
  LineReg r; r.seed = strtoull(argv[1], 0, 10); r.count = atoi(argv[2]); r.prefix = argc > 3 ? argv[3] : 0;
  int isa = -1;
#if C03_SIMD
  isa = (GLM_ARCH & GLM_ARCH_AVX2_BIT) ? 6 : (GLM_ARCH & GLM_ARCH_AVX_BIT) ? 5 : (GLM_ARCH & GLM_ARCH_SSE42_BIT) ? 4 : (GLM_ARCH & GLM_ARCH_SSE41_BIT) ? 3 : (GLM_ARCH & GLM_ARCH_SSSE3_BIT) ? 2 : (GLM_ARCH & GLM_ARCH_SSE3_BIT) ? 1 : 0;
#  ifdef GLM_FORCE_FMA
  if (isa == 6) isa = 7;
#  endif
#endif
#ifdef GLM_FORCE_QUAT_DATA_WXYZ
  const char* qd = "wxyz";
#else
  const char* qd = "xyzw";
#endif
  printf("# build=%s isa=%d glm_arch=0x%x quat_data=%s seed=%llu count=%d\n", C03_SIMD ? "simd" : "pure", isa, (unsigned)GLM_ARCH, qd, (unsigned long long)r.seed, r.count);
  c03::all_ops(r);
  return 0;
}
