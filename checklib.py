"""Shared machinery of /verif/check.py (see DESIGN.md §4).

Everything is rebuilt from /repo's current working tree: the tracer units are
recompiled when any file under /repo/glm (or the unit source) changed, the
generated Lean data is rewritten, `lake build` re-checks the property theorems
against it, and the native driver compares model and real glm on fresh inputs.
"""
import os, sys, re, json, time, hashlib, subprocess, fcntl, shutil, glob
from concurrent.futures import ThreadPoolExecutor

VERIF = os.path.dirname(os.path.abspath(__file__))
REPO = os.environ.get('VERIF_REPO', '/repo')
LEAN = os.path.join(VERIF, 'lean')
CACHE = os.path.join(VERIF, '.cache')
EVID = os.path.join(VERIF, 'evidence')
REPLAYS = os.path.join(VERIF, 'replays')
DRIVER = os.path.join(LEAN, '.lake', 'build', 'bin', 'driver')
NCPU = os.cpu_count() or 8
CXXFLAGS = ['-std=c++17', '-O0', '-ffp-contract=off', '-w', '-I' + REPO]
ALLOWED_AXIOMS = {'propext', 'Classical.choice', 'Quot.sound'}

for d in (CACHE, EVID, REPLAYS):
    os.makedirs(d, exist_ok=True)


def log(*a):
    print('[check]', *a, flush=True)


def sh(cmd, timeout=None, cwd=None, env=None, input=None):
    """run, return (rc, stdout+stderr); rc 124 on timeout"""
    try:
        p = subprocess.run(cmd, cwd=cwd, env=env, input=input, stdout=subprocess.PIPE, stderr=subprocess.STDOUT,
                           timeout=timeout, text=True)
        return p.returncode, p.stdout
    except subprocess.TimeoutExpired as e:
        out = e.stdout.decode() if isinstance(e.stdout, bytes) else (e.stdout or '')
        return 124, out + '\n[timeout]'


def sha_files(paths, extra=''):
    h = hashlib.sha256(extra.encode())
    for p in sorted(paths):
        h.update(p.encode())
        try:
            with open(p, 'rb') as f:
                h.update(f.read())
        except OSError:
            h.update(b'<missing>')
    return h.hexdigest()


_glm_hash = None


def glm_tree_hash():
    global _glm_hash
    if _glm_hash is None:
        files = [p for p in glob.glob(os.path.join(REPO, 'glm', '**', '*'), recursive=True) if os.path.isfile(p)]
        _glm_hash = sha_files(files)
    return _glm_hash


class LakeLock:
    """serialise lake invocations (several checks may run at once)"""
    def __enter__(self):
        self.f = open(os.path.join(CACHE, 'lake.lock'), 'w')
        fcntl.flock(self.f, fcntl.LOCK_EX)
        return self

    def __exit__(self, *a):
        fcntl.flock(self.f, fcntl.LOCK_UN)
        self.f.close()


# ------------------------------------------------------------------ T1: tracer units
def unit_parts(src):
    m = re.search(r'//\s*NPARTS\s+(\d+)', open(src).read())
    return int(m.group(1)) if m else 1


def unit_configs(src):
    """`// CONFIGS n`: the TU is compiled n times with -DCFG=k (configuration macros chosen inside the TU)"""
    m = re.search(r'//\s*CONFIGS\s+(\d+)', open(src).read())
    return int(m.group(1)) if m else 1


def unit_flags(src):
    m = re.search(r'//\s*FLAGS\s+(.*)', open(src).read())
    return m.group(1).split() if m else []


def build_units(name, extra_flags=(), tag='', only_cfgs=None):
    """compile trace/units/<name>.cpp against /repo (all parts in parallel, content-addressed cache).
    returns (list of binaries, error text or None)"""
    src = os.path.join(VERIF, 'trace', 'units', name + '.cpp')
    deps = [src, os.path.join(VERIF, 'trace', 'sym.hpp'), os.path.join(VERIF, 'trace', 'units', 'common.hpp')]
    deps += glob.glob(os.path.join(VERIF, 'trace', 'units', '*.hpp')) + glob.glob(os.path.join(VERIF, 'trace', '*.hpp'))
    if name == 'C03': deps += glob.glob(os.path.join(VERIF, 'trace', 'fake_intrin', '*'))
    key = sha_files(set(deps), glm_tree_hash() + ' '.join(CXXFLAGS) + ' '.join(extra_flags))[:16]
    n = unit_parts(src)
    ncfg = unit_configs(src)
    bins, jobs = [], []
    for c in (range(ncfg) if only_cfgs is None else [c for c in range(ncfg) if c in only_cfgs]):
      for k in range(n):
        out = os.path.join(CACHE, '%s%s_p%d_c%d_%s.bin' % (name, tag, k, c, key))
        bins.append(out)
        if not os.path.exists(out):
            flags = list(CXXFLAGS) + unit_flags(src) + list(extra_flags) + (['-DPART=%d' % k] if n > 1 else []) + (['-DCFG=%d' % c] if ncfg > 1 else [])
            jobs.append((['g++'] + flags + ['-o', out + '.tmp', src], out))
    # drop stale binaries of this unit
    for old in glob.glob(os.path.join(CACHE, '%s%s_p*_*.bin' % (name, tag))):
        if old not in bins and (only_cfgs is None or key not in old):
            try: os.remove(old)
            except OSError: pass
    errs = []

    def run(job):
        rc, out = sh(job[0], timeout=1500)
        if rc == 0:
            os.replace(job[1] + '.tmp', job[1])
        else:
            errs.append(out[-4000:])
    if jobs:
        log('compiling %d unit part(s) of %s against %s' % (len(jobs), name, REPO))
        with ThreadPoolExecutor(max_workers=NCPU) as ex:
            list(ex.map(run, jobs))
    return bins, ('\n'.join(errs) if errs else None)


def run_bins(bins, args, outpath, timeout=900):
    with open(outpath, 'w') as f:
        for b in bins:
            try:
                p = subprocess.run([b] + args, stdout=f, stderr=subprocess.PIPE, timeout=timeout, text=True)
            except subprocess.TimeoutExpired:
                return 'timeout running %s %s' % (b, args)
            if p.returncode != 0:
                return 'exit %d from %s %s: %s' % (p.returncode, os.path.basename(b), args, p.stderr[-2000:])
    return None


def eval_unit(bins, unit, ty, bits):
    """replay one input on the real glm through the unit binary; returns list of output bit patterns"""
    for b in bins:
        rc, out = sh([b, 'eval', unit, ty] + [str(x) for x in bits], timeout=60)
        if rc == 0:
            return [int(x) for x in out.split()]
    return None


def gen_lean(units_path, mod):
    dst = os.path.join(LEAN, 'GlmVerif', 'Gen')
    rc, out = sh([sys.executable, os.path.join(VERIF, 'trace', 'gen_lean.py'), units_path, mod, dst])
    return None if rc == 0 else out


# ------------------------------------------------------------------ T2: layout table (C16)
N_LAYOUT_CONFIGS = 15


def layout_rows():
    """run the layout probe against REPO for every configuration and regenerate Gen/C16rows.lean.
    returns (rows_path, error or None, n_rows)"""
    rows = os.path.join(CACHE, 'C16.rows')
    rc, out = sh([sys.executable, os.path.join(VERIF, 'extract', 'layout_probe.py'), REPO, rows, os.path.join(CACHE, 'layout'), glm_tree_hash()], timeout=1800)
    err = None if rc == 0 else ('layout probe failed: ' + out[-800:])
    items, fails = [], 0
    if os.path.exists(rows):
        for l in open(rows):
            p = l.split()
            if p and p[0] == 'ROW':
                i = p.index('|'); n = p[1:i]; offs = p[i + 1:]
                if len(n) != 16: continue
                cfg, kind, c, r, ts, ta, isf, al, q, so, ao, vp, cvp, ln, lt, aux = n
                items.append('  ⟨%s, %s, %s, %s, %s, %s, %s, %s, %s, %s, %s, %s, %s, %s, %s, %s, [%s]⟩' % (
                    cfg, kind, c, r, ts, ta, 'true' if isf == '1' else 'false', 'true' if al == '1' else 'false', q, so, ao, vp, cvp, ln, lt, aux, ', '.join(offs)))
            elif p and p[0] == 'FAIL': fails += 1
    # one generated module per configuration, so that lake checks the table in parallel
    bycfg = {}
    for it in items:
        c = int(it.strip()[1:].split(',')[0]); bycfg.setdefault(c, []).append(it)
    gdir = os.path.join(LEAN, 'GlmVerif', 'Gen', 'C16'); os.makedirs(gdir, exist_ok=True)
    def put(dst, text):
        try:
            if open(dst).read() == text: return
        except FileNotFoundError: pass
        open(dst, 'w').write(text)
    for c in range(N_LAYOUT_CONFIGS):
        text = '\n'.join(['-- GENERATED from the layout probe output (extract/layout_probe.py run against /repo) — do not edit',
                          'import GlmVerif.Core.Layout', 'set_option maxRecDepth 100000', 'namespace Glm.Gen.C16', 'open Glm.Layout',
                          'def rows_%d : List Row := [' % c, ',\n'.join(bycfg.get(c, [])), ']', 'end Glm.Gen.C16']) + '\n'
        put(os.path.join(gdir, 'rows_%d.lean' % c), text)
    text = '\n'.join(['-- GENERATED — do not edit'] + ['import GlmVerif.Gen.C16.rows_%d' % c for c in range(N_LAYOUT_CONFIGS)] +
                      ['namespace Glm.Gen.C16', 'open Glm.Layout',
                       'def rows : List Row := ' + ' ++ '.join('rows_%d' % c for c in range(N_LAYOUT_CONFIGS)),
                       'def probeFailures : Nat := %d' % fails, 'end Glm.Gen.C16']) + '\n'
    put(os.path.join(LEAN, 'GlmVerif', 'Gen', 'C16rows.lean'), text)
    return rows, err, len(items)


# ------------------------------------------------------------------ Lean side
def lake_build(targets, timeout=3000):
    with LakeLock():
        t0 = time.time()
        rc, out = sh(['lake', 'build'] + targets, cwd=LEAN, timeout=timeout)
        return rc, out, time.time() - t0


def failing_decls(build_out, module_file):
    """map `error: <file>:<line>:<col>` of a lake build to the enclosing theorem names"""
    src = open(module_file).read().split('\n')
    decl_at = []
    cur = None
    for ln in src:
        m = re.match(r'\s*(?:private\s+|protected\s+)?(?:theorem|lemma|def|example|instance)\s+([A-Za-z0-9_.\']+)?', ln)
        if m: cur = m.group(1) or 'example'
        decl_at.append(cur)
    bad = []
    base = os.path.basename(module_file)
    for m in re.finditer(r'error: (\S+?):(\d+):(\d+):', build_out):
        if os.path.basename(m.group(1)) != base: continue
        ln = int(m.group(2)) - 1
        d = decl_at[ln] if ln < len(decl_at) else None
        if d and d not in bad: bad.append(d)
    return bad


def theorems_in(module_file):
    names = []
    ns = None
    for ln in open(module_file):
        m = re.match(r'namespace\s+(\S+)', ln)
        if m and ns is None: ns = m.group(1)
        m = re.match(r'\s*theorem\s+([A-Za-z0-9_.\']+)', ln)
        if m: names.append(m.group(1))
    return ns, names


def audit(prop, modules):
    """#print axioms for every theorem of the property's Props modules + source grep.
    returns (ok, per-theorem axioms dict, problems list)"""
    problems = []
    lines = []
    allthm = []
    for mod in modules:
        f = os.path.join(LEAN, mod.replace('.', '/') + '.lean')
        ns, names = theorems_in(f)
        lines.append('import ' + mod)
        for n in names:
            allthm.append((ns + '.' + n) if ns else n)
    body = '\n'.join(lines) + '\n' + '\n'.join('#print axioms %s' % t for t in allthm) + '\n'
    af = os.path.join(CACHE, 'Audit_%s.lean' % prop)
    open(af, 'w').write(body)
    with LakeLock():
        rc, out = sh(['lake', 'env', 'lean', af], cwd=LEAN, timeout=1200)
    axioms = {}
    for m in re.finditer(r"'([^']+)' (does not depend on any axioms|depends on axioms: \[([^\]]*)\])", out):
        ax = [a.strip() for a in (m.group(3) or '').replace('\n', ' ').split(',') if a.strip()]
        axioms[m.group(1)] = ax
    for t in allthm:
        if t not in axioms:
            problems.append('no axiom report for %s' % t)
        else:
            for a in axioms[t]:
                if a in ALLOWED_AXIOMS: continue
                if re.search(r'\._native\.bv_decide\.ax_', a) and t in BV_DECIDE_WHITELIST: continue
                problems.append('theorem %s uses axiom %s' % (t, a))
    # source hygiene: no sorry/admit/native_decide/axiom/unsafe in the library (comments stripped)
    pat = re.compile(r'\b(sorry|admit|native_decide|implemented_by)\b|^\s*axiom\s|\bunsafe\s|maxHeartbeats\s+0\b')
    for f in glob.glob(os.path.join(LEAN, 'GlmVerif', '**', '*.lean'), recursive=True):
        txt = open(f).read()
        txt = re.sub(r'/-.*?-/', '', txt, flags=re.S)
        for i, ln in enumerate(txt.split('\n')):
            ln = re.sub(r'--.*$', '', ln)
            if pat.search(ln):
                problems.append('forbidden token in %s: %s' % (os.path.relpath(f, LEAN), ln.strip()[:80]))
    return (not problems), axioms, problems


BV_DECIDE_WHITELIST = set()


def ensure_driver():
    with LakeLock():
        rc, out = sh(['lake', 'build', 'driver'], cwd=LEAN, timeout=1800)
    return rc == 0, out


# ------------------------------------------------------------------ findings / evidence / verdict
def known_findings(prop):
    try:
        kf = json.load(open(os.path.join(VERIF, 'known_findings.json')))
    except FileNotFoundError:
        return []
    return [k for k in kf.get('findings', []) if k['property'] == prop]


def write_replay(prop, payload):
    h = hashlib.sha256(json.dumps(payload, sort_keys=True).encode()).hexdigest()[:12]
    path = os.path.join(REPLAYS, '%s-%s.json' % (prop, h))
    json.dump(payload, open(path, 'w'), indent=1)
    return os.path.relpath(path, VERIF)


def write_evidence(prop, tier, seed, coverage, assumptions, wall, violations):
    ev = {'property_id': prop, 'tier': tier, 'seed': seed, 'level': 'proof', 'coverage': coverage,
          'assumptions': assumptions, 'wall_s': round(wall, 2), 'violations': violations}
    json.dump(ev, open(os.path.join(EVID, prop + '.json'), 'w'), indent=1)


TRUSTED_BASE = [
    'Lean 4.33 kernel (decide +kernel evaluates the table checks in the kernel; no native_decide)',
    'axioms: propext, Classical.choice, Quot.sound only (audited with #print axioms on every run)',
    'tracer: g++ instantiates glm templates at the symbolic scalar exactly as at float/double (validated bit-for-bit on every run by the correspondence)',
    'trace/gen_lean.py (syntax translation of the trace to Lean data) and the variable-layout convention of trace/units/common.hpp',
    'IEEE-754 binary32/64 hardware arithmetic, -ffp-contract=off, glibc libm for the correspondence',
]
