import Std.Tactic.BVDecide
import GlmVerif.Hand.C14
import GlmVerif.Props.C14.Bridge
/-!
# C14 — the specification is coherent, and the libm / `float_t` models meet it

* `ordKey` is a strictly monotone embedding of the non-NaN values into ℤ that identifies ±0
  (`ordKey…_lt_iff`, `ordKey…_eq_iff`);
* IEEE `nextUp x` *is* the smallest representable value greater than `x`, `nextDown x` the largest
  smaller one (`nextUp…_least`, `nextDown…_greatest`), and they move the key by exactly one
  (`nextUp…_key`, `nextDown…_key`; n-fold: `nextUpN…_key`, `nextDownN…_key`);
* the integer algorithm behind `std::nextafter` equals the C11 specification (`nextafter…_eq_spec`);
* `detail::float_t` accessors are the IEEE fields (`ftNegative…_eq`, `ftMantissa…_eq`,
  `ftExponent…_eq`, `float_t…_fields`).
-/
namespace Glm.Props.C14
open Glm.Hand.C14 Glm.Props.C14.Bridge

-- BODY
/-! ## binary«W» -/

theorem flt«W»_iff_twos_slt (x y : «U») (hx : isNaN«W» x = false) (hy : isNaN«W» y = false) :
    flt«W» x y = (toTwos«W» x).toBitVec.slt (toTwos«W» y).toBitVec := by
  unfold flt«W» toTwos«W» sign«W» mag«W» isNaN«W» at *; bv_decide

/-- on non-NaN patterns IEEE `<` is `<` of the integer keys -/
theorem ordKey«W»_lt_iff (x y : «U») (hx : isNaN«W» x = false) (hy : isNaN«W» y = false) :
    flt«W» x y = true ↔ ordKey«W» x < ordKey«W» y := by
  rw [flt«W»_iff_twos_slt x y hx hy]; unfold ordKey«W»; exact BitVec.slt_iff_toInt_lt

theorem feq«W»_iff_twos_eq (x y : «U») (hx : isNaN«W» x = false) (hy : isNaN«W» y = false) :
    feq«W» x y = (toTwos«W» x == toTwos«W» y) := by
  unfold feq«W» toTwos«W» sign«W» mag«W» isNaN«W» at *; bv_decide

/-- IEEE `==` (with −0 = +0) is equality of the keys -/
theorem ordKey«W»_eq_iff (x y : «U») (hx : isNaN«W» x = false) (hy : isNaN«W» y = false) :
    feq«W» x y = true ↔ ordKey«W» x = ordKey«W» y := by
  rw [feq«W»_iff_twos_eq x y hx hy]; unfold ordKey«W»
  constructor
  · intro h; have := eq_of_beq h; rw [this]
  · intro h; have := BitVec.eq_of_toInt_eq h
    have : toTwos«W» x = toTwos«W» y := «U».eq_of_toBitVec_eq this
    rw [this]; exact beq_self_eq_true _

/-- IEEE nextUp is "the smallest representable value greater than x" -/
theorem nextUp«W»_least (x y : «U») (hx : isFinite«W» x = true) (hy : isNaN«W» y = false) :
    flt«W» x (nextUp«W» x) = true ∧ (flt«W» x y = true → fle«W» (nextUp«W» x) y = true) := by
  unfold nextUp«W» fle«W» flt«W» feq«W» isFinite«W» isZero«W» sign«W» mag«W» isNaN«W» qNaN«W» at *; bv_decide

/-- IEEE nextDown is "the largest representable value smaller than x" -/
theorem nextDown«W»_greatest (x y : «U») (hx : isFinite«W» x = true) (hy : isNaN«W» y = false) :
    flt«W» (nextDown«W» x) x = true ∧ (flt«W» y x = true → fle«W» y (nextDown«W» x) = true) := by
  unfold nextDown«W» fle«W» flt«W» feq«W» isFinite«W» isZero«W» sign«W» mag«W» isNaN«W» qNaN«W» at *; bv_decide

theorem nextUp«W»_twos (x : «U») (hx : isNaN«W» x = false) (hi : (x == «INF») = false) :
    toTwos«W» (nextUp«W» x) = toTwos«W» x + 1 ∧ isNaN«W» (nextUp«W» x) = false ∧
      (toTwos«W» x == «MM») = false := by
  unfold nextUp«W» toTwos«W» isZero«W» sign«W» mag«W» isNaN«W» qNaN«W» at *; bv_decide

theorem nextDown«W»_twos (x : «U») (hx : isNaN«W» x = false) (hi : (x == «NINF») = false) :
    toTwos«W» (nextDown«W» x) = toTwos«W» x - 1 ∧ isNaN«W» (nextDown«W» x) = false ∧
      (toTwos«W» x == «IMIN») = false := by
  unfold nextDown«W» toTwos«W» isZero«W» sign«W» mag«W» isNaN«W» qNaN«W» at *; bv_decide

theorem ne_of_beq_false«W» {a b : «U»} (h : (a == b) = false) : a.toBitVec.toInt ≠ b.toBitVec.toInt := by
  intro e
  have : a = b := «U».eq_of_toBitVec_eq (BitVec.eq_of_toInt_eq e)
  rw [this] at h; simp at h

/-- one step up raises the key by exactly one (every non-NaN x except +∞) -/
theorem nextUp«W»_key (x : «U») (hx : isNaN«W» x = false) (hi : (x == «INF») = false) :
    ordKey«W» (nextUp«W» x) = ordKey«W» x + 1 ∧ isNaN«W» (nextUp«W» x) = false := by
  obtain ⟨h1, h2, h3⟩ := nextUp«W»_twos x hx hi
  refine ⟨?_, h2⟩
  unfold ordKey«W»
  rw [h1, «U».toBitVec_add]
  have : (1 : «U»).toBitVec = (1 : BitVec «W») := rfl
  rw [this]
  apply toInt_add_one«W»
  have := ne_of_beq_false«W» h3
  simpa using this

/-- one step down lowers the key by exactly one (every non-NaN x except −∞) -/
theorem nextDown«W»_key (x : «U») (hx : isNaN«W» x = false) (hi : (x == «NINF») = false) :
    ordKey«W» (nextDown«W» x) = ordKey«W» x - 1 ∧ isNaN«W» (nextDown«W» x) = false := by
  obtain ⟨h1, h2, h3⟩ := nextDown«W»_twos x hx hi
  refine ⟨?_, h2⟩
  unfold ordKey«W»
  rw [h1, «U».toBitVec_sub]
  have : (1 : «U»).toBitVec = (1 : BitVec «W») := rfl
  rw [this]
  apply toInt_sub_one«W»
  have := ne_of_beq_false«W» h3
  simpa using this

theorem ordKey«W»_inf : ordKey«W» «INF» = «KINF» := by decide
theorem ordKey«W»_ninf : ordKey«W» «NINF» = -«KINF» := by decide

/-- `n` steps up raise the key by `n`, as long as +∞ is not passed -/
theorem nextUpN«W»_key (n : Nat) : ∀ x : «U», isNaN«W» x = false → ordKey«W» x + n ≤ «KINF» →
    ordKey«W» (nextUpN«W» x n) = ordKey«W» x + n ∧ isNaN«W» (nextUpN«W» x n) = false := by
  induction n with
  | zero => intro x hx _; exact ⟨by simp [nextUpN«W», Nat.repeat], hx⟩
  | succ n ih =>
    intro x hx hb
    obtain ⟨k1, k2⟩ := ih x hx (by omega)
    have hi : (nextUpN«W» x n == «INF») = false := by
      apply Bool.eq_false_iff.mpr; intro h
      have := eq_of_beq h
      rw [this, ordKey«W»_inf] at k1
      omega
    obtain ⟨s1, s2⟩ := nextUp«W»_key _ k2 hi
    show ordKey«W» (nextUp«W» (nextUpN«W» x n)) = _ ∧ isNaN«W» (nextUp«W» (nextUpN«W» x n)) = false
    refine ⟨?_, s2⟩
    rw [s1, k1]; omega

/-- `n` steps down lower the key by `n`, as long as −∞ is not passed -/
theorem nextDownN«W»_key (n : Nat) : ∀ x : «U», isNaN«W» x = false → -«KINF» ≤ ordKey«W» x - n →
    ordKey«W» (nextDownN«W» x n) = ordKey«W» x - n ∧ isNaN«W» (nextDownN«W» x n) = false := by
  induction n with
  | zero => intro x hx _; exact ⟨by simp [nextDownN«W», Nat.repeat], hx⟩
  | succ n ih =>
    intro x hx hb
    obtain ⟨k1, k2⟩ := ih x hx (by omega)
    have hi : (nextDownN«W» x n == «NINF») = false := by
      apply Bool.eq_false_iff.mpr; intro h
      have := eq_of_beq h
      rw [this, ordKey«W»_ninf] at k1
      omega
    obtain ⟨s1, s2⟩ := nextDown«W»_key _ k2 hi
    show ordKey«W» (nextDown«W» (nextDownN«W» x n)) = _ ∧ isNaN«W» (nextDown«W» (nextDownN«W» x n)) = false
    refine ⟨?_, s2⟩
    rw [s1, k1]; omega

/-- the libm model (Sun's integer algorithm) = the C11 specification, for all pairs of patterns -/
theorem nextafter«W»_eq_spec (x y : «U») : nextafter«W» x y = nextafterSpec«W» x y := by
  unfold nextafter«W» nextafterSpec«W» nextUp«W» nextDown«W» feq«W» flt«W» isZero«W» sign«W» mag«W» isNaN«W» qNaN«W»
  bv_decide

/-! `detail::float_t<«FT»>` -/

theorem ftNegative«W»_eq (x : «U») : ftNegative«W» x = sign«W» x := by
  unfold ftNegative«W» sign«W»; bv_decide
theorem ftMantissa«W»_eq (x : «U») : ftMantissa«W» x = x &&& «MANT» := by
  unfold ftMantissa«W»; bv_decide
theorem ftExponent«W»_eq (x : «U») : ftExponent«W» x = (x >>> «MB») &&& «EXPM» := by
  unfold ftExponent«W»; bv_decide
/-- sign, exponent and mantissa reassemble to the pattern: the accessors lose nothing -/
theorem float_t«W»_fields (x : «U») :
    ((if ftNegative«W» x then (1 : «U») else 0) <<< «SB») ||| (ftExponent«W» x <<< «MB») ||| ftMantissa«W» x = x := by
  unfold ftNegative«W» ftExponent«W» ftMantissa«W»; bv_decide

-- non-vacuity
example : isFinite«W» «ONE» = true ∧ isNaN«W» «ONEP» = false ∧ flt«W» «ONE» «ONEP» = true := by decide
example : nextUp«W» «ONE» = «ONEP» ∧ nextDown«W» «ONEP» = «ONE» ∧ nextUp«W» «NZ» = «MSUB» ∧
    nextDown«W» 0 = «NMSUB» ∧ nextUp«W» «FMAX» = «INF» ∧ nextUp«W» «NMSUB» = «NZ» := by decide
example : ordKey«W» «NZ» = 0 ∧ ordKey«W» 0 = 0 ∧ ordKey«W» «NMSUB» = -1 ∧ ordKey«W» «MSUB» = 1 := by decide
example : nextafter«W» 0 «NONE» = «NMSUB» ∧ nextafter«W» «ONE» «ONE» = «ONE» ∧ nextafter«W» «NZ» 0 = 0 := by decide
example : ftNegative«W» «NONE» = true ∧ ftExponent«W» «NONE» = ((«ONE» : «U») >>> «MB») ∧ ftMantissa«W» «ONEP» = 1 := by decide
