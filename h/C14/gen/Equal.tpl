import Std.Tactic.BVDecide
import GlmVerif.Hand.C14
import GlmVerif.Props.C14.Bridge
import GlmVerif.Props.C14.Spec
/-!
# C14 — `equal` / `notEqual` with a number of ULPs

* vector overload (model of the tree with `h/C14/fix_vec_equal_ulps_across_zero.diff`), per component,
  for **all** patterns and all `MaxULPs` (negative ones too):
  `equal(x, y, k) ↔ |ordKey x − ordKey y| ≤ k` (`equalUlpsVec…_eq_spec`), `notEqual` its negation;
* matrix overload: a column is equal iff every component is (`equalUlpsCol…_eq_spec`), unequal iff
  some component is (`notEqualUlpsCol…_eq_spec`);
* scalar overload — **known finding, the defect is encoded by glm's own test**
  (`test/ext/ext_scalar_relational.cpp:78` expects `equal(-0.0f, 0.0f, 2) == false`):
  it meets the specification when the sign bits agree (`equalUlps…_partial`), returns `false`
  whenever they differ (`equalUlps…_diff_sign`), which refutes the full statement at
  `(+0, −0, k = 0)` and at `(min subnormal, −min subnormal, k = 2)` (`equalUlps…_refuted`), and
  makes it differ from the vector overload (`equalUlps…_scalar_vs_vector_refuted`);
* the vector code before the patch returned `true` for `x` and `−x` (`preFixEqualUlpsVec…_refuted`).
-/
namespace Glm.Props.C14
open Glm.Hand.C14 Glm.Props.C14.Bridge

-- BODY
/-! ## binary«W» -/

theorem equalUlpsVec«W»_bv «XYK» :
    glmEqualUlpsVec«W» x y k =
      («AD» (toTwos«W» x).toBitVec (toTwos«W» y).toBitVec).sle (k.toBitVec.signExtend «E») := by
  unfold glmEqualUlpsVec«W» absI«W» ftNegative«W» «AD» toTwos«W» sign«W» mag«W»; bv_decide

/-- C14: `equal(x, y, MaxULPs)` is true exactly when x and y are at most MaxULPs representable values
apart, +0 and −0 being the same value -/
theorem equalUlpsVec«W»_eq_spec «XYK» :
    glmEqualUlpsVec«W» x y k = equalUlpsSpec«W» x y k.toBitVec.toInt := by
  rw [equalUlpsVec«W»_bv]; unfold equalUlpsSpec«W» ulpDist«W» ordKey«W»
  rw [Bool.eq_iff_iff, BitVec.sle_iff_toInt_le, «AD»_toInt, «SXK»]; simp

theorem notEqualUlpsVec«W»_eq_spec «XYK» :
    glmNotEqualUlpsVec«W» x y k = !equalUlpsSpec«W» x y k.toBitVec.toInt := by
  unfold glmNotEqualUlpsVec«W»; rw [equalUlpsVec«W»_eq_spec]

/-- matrix overload, one column: `all(equal(a[i], b[i], MaxULPs))` -/
theorem equalUlpsCol«W»_eq_spec (col : List («U» × «U»)) (k : UInt32) :
    glmEqualUlpsCol«W» col k = col.all fun p => equalUlpsSpec«W» p.1 p.2 k.toBitVec.toInt := by
  unfold glmEqualUlpsCol«W»; congr 1; funext p; exact equalUlpsVec«W»_eq_spec p.1 p.2 k
/-- `any(notEqual(a[i], b[i], MaxULPs))` -/
theorem notEqualUlpsCol«W»_eq_spec (col : List («U» × «U»)) (k : UInt32) :
    glmNotEqualUlpsCol«W» col k = col.any fun p => !equalUlpsSpec«W» p.1 p.2 k.toBitVec.toInt := by
  unfold glmNotEqualUlpsCol«W»; congr 1; funext p; exact notEqualUlpsVec«W»_eq_spec p.1 p.2 k
/-- the two matrix forms are complementary -/
theorem notEqualUlpsCol«W»_eq_not (col : List («U» × «U»)) (k : UInt32) :
    glmNotEqualUlpsCol«W» col k = !glmEqualUlpsCol«W» col k := by
  unfold glmNotEqualUlpsCol«W» glmEqualUlpsCol«W» glmNotEqualUlpsVec«W»
  induction col with
  | nil => rfl
  | cons p t ih => simp only [List.any_cons, List.all_cons, ih, Bool.not_and]

/-! scalar overload (known finding `equal_ulps_scalar: sign(x) != sign(y)`) -/

theorem equalUlps«W»_same_sign «XYK» (h : sign«W» x = sign«W» y) :
    glmEqualUlps«W» x y k = glmEqualUlpsVec«W» x y k := by
  unfold glmEqualUlps«W» glmEqualUlpsVec«W» ftNegative«W» sign«W» at *; bv_decide
/-- what does hold: equal sign bits ⇒ the scalar overload meets the specification -/
theorem equalUlps«W»_partial «XYK» (h : sign«W» x = sign«W» y) :
    glmEqualUlps«W» x y k = equalUlpsSpec«W» x y k.toBitVec.toInt := by
  rw [equalUlps«W»_same_sign x y k h, equalUlpsVec«W»_eq_spec]
/-- different sign bits ⇒ `false`, whatever the distance -/
theorem equalUlps«W»_diff_sign «XYK» (h : (sign«W» x == sign«W» y) = false) :
    glmEqualUlps«W» x y k = false := by
  unfold glmEqualUlps«W» ftNegative«W» sign«W» at *; bv_decide
/-- the full statement is refuted: `equal(+0, -0, 0) = false` although they are the same value … -/
theorem equalUlps«W»_refuted :
    ¬ ∀ «XYK», isNaN«W» x = false → isNaN«W» y = false →
        glmEqualUlps«W» x y k = equalUlpsSpec«W» x y k.toBitVec.toInt := by
  intro h; have := h 0 «NZ» 0 (by decide) (by decide)
  rw [← equalUlpsVec«W»_eq_spec] at this; revert this; decide
/-- … and `equal(min subnormal, -min subnormal, 2) = false` although they are 2 ULPs apart -/
theorem equalUlps«W»_refuted_straddle :
    glmEqualUlps«W» «MSUB» «NMSUB» 2 = false ∧ glmEqualUlpsVec«W» «MSUB» «NMSUB» 2 = true ∧
    glmEqualUlps«W» 0 «NZ» 0 = false ∧ glmEqualUlpsVec«W» 0 «NZ» 0 = true := by decide
/-- "identically for the scalar, vector and matrix overloads" is refuted for the scalar one -/
theorem equalUlps«W»_scalar_vs_vector_refuted :
    ¬ ∀ «XYK», glmEqualUlps«W» x y k = glmEqualUlpsVec«W» x y k := by
  intro h; have := h 0 «NZ» 0; revert this; decide

/-! the vector code before `fix_vec_equal_ulps_across_zero.diff` -/

theorem preFixEqualUlpsVec«W»_partial «XYK» (h : sign«W» x = sign«W» y) :
    preFixEqualUlpsVec«W» x y k = glmEqualUlpsVec«W» x y k := by
  unfold preFixEqualUlpsVec«W» glmEqualUlpsVec«W» ftNegative«W» sign«W» at *; bv_decide
/-- `equal(vec(1), vec(-1), 0)` was `true` -/
theorem preFixEqualUlpsVec«W»_refuted :
    ¬ ∀ «XYK», preFixEqualUlpsVec«W» x y k = equalUlpsSpec«W» x y k.toBitVec.toInt := by
  intro h; have := h «ONE» «NONE» 0
  rw [← equalUlpsVec«W»_eq_spec] at this; revert this; decide

-- non-vacuity
example : glmEqualUlpsVec«W» «ONE» «ONEP» 1 = true ∧ glmEqualUlpsVec«W» «ONE» «ONEP» 0 = false ∧
    glmEqualUlpsVec«W» «ONE» «ONE» 0xFFFFFFFF = false ∧ glmEqualUlpsVec«W» «NMSUB» «MSUB» 1 = false := by decide
example : sign«W» «NONE» = sign«W» «NZ» ∧ glmEqualUlps«W» «NMSUB» «NZ» 1 = true := by decide
example : glmEqualUlpsCol«W» [(«ONE», «ONEP»), («NZ», 0)] 1 = true ∧
    glmNotEqualUlpsCol«W» [(«ONE», «ONEP»), («NZ», 0)] 0 = true := by decide
