import Std.Tactic.BVDecide
import GlmVerif.Hand.C14
/-!
# C14 — comparisons with an epsilon

`d` is `fl(x − y)`, the hardware subtraction; what glm does with it is modelled at the bit level.

* `equal(x, y, ε)` (scalar, vector, matrix column, quaternion — the latter in the tree with
  `h/C14/fix_quat_equal_epsilon.diff`) is literally the IEEE comparison `|fl(x − y)| ≤ ε`
  (`leAbs…_eq_spec`, `equalEps…_eq_spec`): glm's `abs` (`d >= 0 ? d : -d`, which leaves −0 and
  flips the sign of a NaN) is indistinguishable from clearing the sign bit under `<=`;
  `notEqual(x, y, ε)` is `|fl(x − y)| > ε` (`gtAbs…_eq_spec`), the negation of `equal` unless a NaN
  is involved, when both are false (`gtAbs…_eq_not_le`);
* `gtc/epsilon` — **known finding** `epsilonEqual: |fl(x-y)| == epsilon`: `epsilonEqual` is the strict
  `|fl(x − y)| < ε` (as its documentation says), so it differs from the C14 statement exactly when
  `|fl(x − y)| = ε` (`ltAbs…_partial`, `ltAbs…_refuted`; e.g. `epsilonEqual(1, 1.5, 0.5) = false`,
  and `epsilonEqual(x, x, 0) = false`: `ltAbs…_zero`); likewise `epsilonNotEqual` is `>=`.
-/
namespace Glm.Props.C14
open Glm.Hand.C14

-- BODY
/-! ## binary«W» -/

/-- C14: the epsilon form of `equal` is literally `|fl(x − y)| <= ε` -/
theorem leAbs«W»_eq_spec (d e : «U») : glmLeAbs«W» d e = leAbsSpec«W» d e := by
  unfold glmLeAbs«W» leAbsSpec«W» glmAbsF«W» fle«W» flt«W» feq«W» sign«W» mag«W» isNaN«W»; bv_decide
/-- … and of `notEqual` literally `|fl(x − y)| > ε` -/
theorem gtAbs«W»_eq_spec (d e : «U») : glmGtAbs«W» d e = gtAbsSpec«W» d e := by
  unfold glmGtAbs«W» gtAbsSpec«W» glmAbsF«W» fle«W» flt«W» feq«W» sign«W» mag«W» isNaN«W»; bv_decide
theorem equalEps«W»_eq_spec (x y e : «U») : glmEqualEps«W» x y e = leAbsSpec«W» (subBits«W» x y) e := by
  unfold glmEqualEps«W»; exact leAbs«W»_eq_spec _ _
theorem notEqualEps«W»_eq_spec (x y e : «U») : glmNotEqualEps«W» x y e = gtAbsSpec«W» (subBits«W» x y) e := by
  unfold glmNotEqualEps«W»; exact gtAbs«W»_eq_spec _ _
/-- without NaN, `notEqual` is the negation of `equal` -/
theorem gtAbs«W»_eq_not_le (d e : «U») (hd : isNaN«W» d = false) (he : isNaN«W» e = false) :
    glmGtAbs«W» d e = !glmLeAbs«W» d e := by
  unfold glmGtAbs«W» glmLeAbs«W» glmAbsF«W» fle«W» flt«W» feq«W» sign«W» mag«W» isNaN«W» at *; bv_decide
/-- with a NaN both are false -/
theorem leAbs_gtAbs«W»_nan (d e : «U») (h : (isNaN«W» d || isNaN«W» e) = true) :
    glmLeAbs«W» d e = false ∧ glmGtAbs«W» d e = false := by
  unfold glmGtAbs«W» glmLeAbs«W» glmAbsF«W» fle«W» flt«W» feq«W» sign«W» mag«W» isNaN«W» at *; bv_decide

/-! `gtc/epsilon` (known finding `epsilonEqual: |fl(x-y)| == epsilon`) -/

/-- what does hold: `epsilonEqual` agrees with `|d| <= ε` unless `|d| == ε` -/
theorem ltAbs«W»_partial (d e : «U») (h : feq«W» (mag«W» d) e = false) : glmLtAbs«W» d e = leAbsSpec«W» d e := by
  unfold glmLtAbs«W» leAbsSpec«W» glmAbsF«W» fle«W» flt«W» feq«W» sign«W» mag«W» isNaN«W» at *; bv_decide
theorem geAbs«W»_partial (d e : «U») (h : feq«W» (mag«W» d) e = false) : glmGeAbs«W» d e = gtAbsSpec«W» d e := by
  unfold glmGeAbs«W» gtAbsSpec«W» glmAbsF«W» fle«W» flt«W» feq«W» sign«W» mag«W» isNaN«W» at *; bv_decide
/-- and it is the opposite when `|d| == ε` -/
theorem ltAbs«W»_at_eq (d e : «U») (h : feq«W» (mag«W» d) e = true) :
    glmLtAbs«W» d e = false ∧ leAbsSpec«W» d e = true ∧ glmGeAbs«W» d e = true ∧ gtAbsSpec«W» d e = false := by
  unfold glmLtAbs«W» glmGeAbs«W» leAbsSpec«W» gtAbsSpec«W» glmAbsF«W» fle«W» flt«W» feq«W» sign«W» mag«W» isNaN«W» at *
  bv_decide
/-- the full statement is refuted: d = fl(1 − 1.5) = −0.5, ε = 0.5 -/
theorem ltAbs«W»_refuted : ¬ ∀ d e : «U», glmLtAbs«W» d e = leAbsSpec«W» d e := by
  intro h; have := h «NHALF» «HALF»; revert this; decide
theorem geAbs«W»_refuted : ¬ ∀ d e : «U», glmGeAbs«W» d e = gtAbsSpec«W» d e := by
  intro h; have := h «NHALF» «HALF»; revert this; decide
/-- `epsilonEqual(x, x, 0)` is false -/
theorem ltAbs«W»_zero (d : «U») : glmLtAbs«W» d 0 = false := by
  unfold glmLtAbs«W» glmAbsF«W» fle«W» flt«W» feq«W» sign«W» mag«W» isNaN«W»; bv_decide

-- non-vacuity
example : glmLeAbs«W» «NHALF» «HALF» = true ∧ glmLeAbs«W» «NONE» «HALF» = false ∧ glmGtAbs«W» «NONE» «HALF» = true ∧
    isNaN«W» «NHALF» = false ∧ feq«W» (mag«W» «NHALF») «HALF» = true ∧ feq«W» (mag«W» «NONE») «HALF» = false := by decide
