import Std.Tactic.BVDecide
import GlmVerif.Hand.C14
import GlmVerif.Props.C14.Bridge
import GlmVerif.Props.C14.Spec
import GlmVerif.Props.C14.Step
/-!
# C14 — `floatDistance`

(model of the tree with `h/C14/fix_float_distance_across_zero.diff`)

* `floatDistance x y = min |ordKey x − ordKey y| INT_MAX` for **all** pairs of patterns
  (`floatDistance…_eq_spec`), it is symmetric, and no signed operation in it overflows
  (`floatDistance…_no_overflow`);
* C14: `floatDistance(x, nextFloat(x, n)) = n` for every non-NaN x — negative, zero, subnormal,
  across zero — as long as +∞ is not passed (`floatDistance…_nextN`), same for `prevFloat`;
* the code before the patch (`abs(a.i - b.i)` on sign-magnitude patterns) agreed when the signs are
  equal and was wrong across zero: `floatDistance(-0.0, min subnormal) = INT_MAX`,
  `floatDistance(min subnormal, -min subnormal) = INT_MIN`.
-/
namespace Glm.Props.C14
open Glm.Hand.C14 Glm.Props.C14.Bridge

-- BODY
/-! ## binary«W» -/

theorem floatDistance«W»_bv (x y : «U») :
    (glmFloatDistance«W» x y).toBitVec.signExtend «E» =
      (if («AD» (toTwos«W» x).toBitVec (toTwos«W» y).toBitVec).sle «MM»#«E»
       then «AD» (toTwos«W» x).toBitVec (toTwos«W» y).toBitVec else «MM»#«E») := by
  unfold glmFloatDistance«W» absI«W» ftNegative«W» «AD» toTwos«W» sign«W» mag«W»; bv_decide

/-- the returned `int` is the number of representable values between x and y, saturated -/
theorem floatDistance«W»_eq_spec (x y : «U») :
    (glmFloatDistance«W» x y).toBitVec.toInt = distSpec«W» x y := by
  have h := congrArg BitVec.toInt (floatDistance«W»_bv x y)
  rw [«SX»] at h
  rw [h]; unfold distSpec«W» ulpDist«W» ordKey«W»
  have c : («MM»#«E»).toInt = «IMAX» := by decide
  by_cases hs : («AD» (toTwos«W» x).toBitVec (toTwos«W» y).toBitVec).sle «MM»#«E» = true
  · rw [if_pos hs]; rw [BitVec.sle_iff_toInt_le, c, «AD»_toInt] at hs
    rw [«AD»_toInt]; omega
  · rw [if_neg hs]; rw [BitVec.sle_iff_toInt_le, c, «AD»_toInt] at hs
    rw [c]; omega

theorem floatDistance«W»_symm (x y : «U») : glmFloatDistance«W» x y = glmFloatDistance«W» y x := by
  unfold glmFloatDistance«W» absI«W» ftNegative«W»; bv_decide

/-- no signed subtraction/negation/addition inside `floatDistance` overflows (no undefined behaviour) -/
theorem floatDistance«W»_no_overflow (x y : «U») : floatDistanceOverflows«W» x y = false := by
  unfold floatDistanceOverflows«W» ftNegative«W»; bv_decide

/-- C14: `floatDistance(x, nextFloat(x, n)) = n` -/
theorem floatDistance«W»_nextN (x : «U») (n : Nat) (hx : isNaN«W» x = false)
    (hb : ordKey«W» x + n ≤ «KINF») (hn : (n : Int) ≤ «IMAX») :
    (glmFloatDistance«W» x (glmNextFloatN«W» x n)).toBitVec.toInt = n := by
  rw [floatDistance«W»_eq_spec]; unfold distSpec«W» ulpDist«W»
  rw [(nextFloatN«W»_key x n hx hb).1]; omega
/-- … and `floatDistance(x, prevFloat(x, n)) = n` -/
theorem floatDistance«W»_prevN (x : «U») (n : Nat) (hx : isNaN«W» x = false)
    (hb : -«KINF» ≤ ordKey«W» x - n) (hn : (n : Int) ≤ «IMAX») :
    (glmFloatDistance«W» x (glmPrevFloatN«W» x n)).toBitVec.toInt = n := by
  rw [floatDistance«W»_eq_spec]; unfold distSpec«W» ulpDist«W»
  rw [(prevFloatN«W»_key x n hx hb).1]; omega

/-! the code before `fix_float_distance_across_zero.diff` -/

theorem preFixFloatDistance«W»_partial (x y : «U») (h : sign«W» x = sign«W» y) :
    preFixFloatDistance«W» x y = glmFloatDistance«W» x y := by
  unfold preFixFloatDistance«W» glmFloatDistance«W» ftNegative«W» sign«W» at *; bv_decide
theorem preFixFloatDistance«W»_refuted :
    ¬ ∀ x y : «U», (preFixFloatDistance«W» x y).toBitVec.toInt = distSpec«W» x y := by
  intro h; have := h «NZ» «MSUB»
  rw [← floatDistance«W»_eq_spec] at this; revert this; decide
/-- witnesses: `floatDistance(-0, minsub) = INT_MAX` (spec 1), `floatDistance(minsub, -minsub) = INT_MIN` (spec 2) -/
theorem preFixFloatDistance«W»_witness :
    preFixFloatDistance«W» «NZ» «MSUB» = «MM» ∧ glmFloatDistance«W» «NZ» «MSUB» = 1 ∧
    preFixFloatDistance«W» «MSUB» «NMSUB» = «IMIN» ∧ glmFloatDistance«W» «MSUB» «NMSUB» = 2 := by decide

-- non-vacuity
example : glmFloatDistance«W» «NONE» «ONE» = 2 * «ONE» ∧ glmFloatDistance«W» «NFMAX» «FMAX» = «MM» ∧
    glmFloatDistance«W» «NZ» 0 = 0 := by decide
