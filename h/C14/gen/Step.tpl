import Std.Tactic.BVDecide
import GlmVerif.Hand.C14
import GlmVerif.Props.C14.Bridge
import GlmVerif.Props.C14.Spec
/-!
# C14 — `nextFloat` / `prevFloat` / their n-step loops

(model of the tree with `h/C14/fix_ulp_step_targets.diff`)

* `nextFloat x = nextUp x`, `prevFloat x = nextDown x` for **every** bit pattern
  (`nextFloat…_eq_nextUp`, `prevFloat…_eq_nextDown`); hence for every finite `x` — negative, zero
  and subnormal included — `nextFloat x` is the smallest representable value greater than `x`
  (`nextFloat…_least`) and `prevFloat x` the largest smaller one (`prevFloat…_greatest`), the key
  moves by exactly one (`nextFloat…_key`, `prevFloat…_key`);
* the n-step overloads are n single steps (`nextFloatN…_succ`, `nextFloatN…_eq_repeat`,
  `nextFloatN…_eq_nextUpN`, `nextFloatN…_key` and the `prev` twins);
* the code before the patch (`preFix…`): `prevFloat` was wrong for *every* finite `x <= FLT_MIN` and
  right above it, `nextFloat` was wrong exactly at `FLT_MAX`.
-/
namespace Glm.Props.C14
open Glm.Hand.C14 Glm.Props.C14.Bridge

-- BODY
/-! ## binary«W» -/

theorem nextFloat«W»_eq_nextUp (x : «U») : glmNextFloat«W» x = nextUp«W» x := by
  unfold glmNextFloat«W» nextafter«W» nextUp«W» isZero«W» sign«W» isNaN«W» qNaN«W»; bv_decide
theorem prevFloat«W»_eq_nextDown (x : «U») : glmPrevFloat«W» x = nextDown«W» x := by
  unfold glmPrevFloat«W» nextafter«W» nextDown«W» isZero«W» sign«W» isNaN«W» qNaN«W»; bv_decide

/-- C14, first clause: for every finite x, `nextFloat(x)` is the smallest representable value greater than x -/
theorem nextFloat«W»_least (x y : «U») (hx : isFinite«W» x = true) (hy : isNaN«W» y = false) :
    flt«W» x (glmNextFloat«W» x) = true ∧ (flt«W» x y = true → fle«W» (glmNextFloat«W» x) y = true) := by
  rw [nextFloat«W»_eq_nextUp]; exact nextUp«W»_least x y hx hy
/-- … and `prevFloat(x)` the largest one smaller -/
theorem prevFloat«W»_greatest (x y : «U») (hx : isFinite«W» x = true) (hy : isNaN«W» y = false) :
    flt«W» (glmPrevFloat«W» x) x = true ∧ (flt«W» y x = true → fle«W» y (glmPrevFloat«W» x) = true) := by
  rw [prevFloat«W»_eq_nextDown]; exact nextDown«W»_greatest x y hx hy

theorem nextFloat«W»_key (x : «U») (hx : isNaN«W» x = false) (hi : (x == «INF») = false) :
    ordKey«W» (glmNextFloat«W» x) = ordKey«W» x + 1 := by
  rw [nextFloat«W»_eq_nextUp]; exact (nextUp«W»_key x hx hi).1
theorem prevFloat«W»_key (x : «U») (hx : isNaN«W» x = false) (hi : (x == «NINF») = false) :
    ordKey«W» (glmPrevFloat«W» x) = ordKey«W» x - 1 := by
  rw [prevFloat«W»_eq_nextDown]; exact (nextDown«W»_key x hx hi).1

/-- stepping up then down returns to x (as a value: −0 comes back as +0) -/
theorem prev_next«W» (x : «U») (hx : isFinite«W» x = true) :
    feq«W» (glmPrevFloat«W» (glmNextFloat«W» x)) x = true := by
  unfold glmPrevFloat«W» glmNextFloat«W» nextafter«W» feq«W» isFinite«W» mag«W» isNaN«W» qNaN«W» at *; bv_decide
theorem next_prev«W» (x : «U») (hx : isFinite«W» x = true) :
    feq«W» (glmNextFloat«W» (glmPrevFloat«W» x)) x = true := by
  unfold glmPrevFloat«W» glmNextFloat«W» nextafter«W» feq«W» isFinite«W» mag«W» isNaN«W» qNaN«W» at *; bv_decide

/-- the loop of `nextFloat(x, ULPs)`: one more iteration is one more single step -/
theorem nextFloatN«W»_succ (x : «U») (n : Nat) :
    glmNextFloatN«W» x (n + 1) = glmNextFloat«W» (glmNextFloatN«W» x n) := by
  induction n generalizing x with
  | zero => rfl
  | succ n ih =>
    show glmNextFloatN«W» (glmNextFloat«W» x) (n + 1) = _
    rw [ih]; rfl
theorem prevFloatN«W»_succ (x : «U») (n : Nat) :
    glmPrevFloatN«W» x (n + 1) = glmPrevFloat«W» (glmPrevFloatN«W» x n) := by
  induction n generalizing x with
  | zero => rfl
  | succ n ih =>
    show glmPrevFloatN«W» (glmPrevFloat«W» x) (n + 1) = _
    rw [ih]; rfl

/-- C14: the n-step overload equals n single steps -/
theorem nextFloatN«W»_eq_repeat (x : «U») (n : Nat) :
    glmNextFloatN«W» x n = Nat.repeat glmNextFloat«W» n x := by
  induction n with
  | zero => rfl
  | succ n ih => rw [nextFloatN«W»_succ, ih]; rfl
theorem prevFloatN«W»_eq_repeat (x : «U») (n : Nat) :
    glmPrevFloatN«W» x n = Nat.repeat glmPrevFloat«W» n x := by
  induction n with
  | zero => rfl
  | succ n ih => rw [prevFloatN«W»_succ, ih]; rfl

theorem nextFloatN«W»_eq_nextUpN (x : «U») (n : Nat) : glmNextFloatN«W» x n = nextUpN«W» x n := by
  rw [nextFloatN«W»_eq_repeat]; unfold nextUpN«W»
  have : glmNextFloat«W» = nextUp«W» := funext nextFloat«W»_eq_nextUp
  rw [this]
theorem prevFloatN«W»_eq_nextDownN (x : «U») (n : Nat) : glmPrevFloatN«W» x n = nextDownN«W» x n := by
  rw [prevFloatN«W»_eq_repeat]; unfold nextDownN«W»
  have : glmPrevFloat«W» = nextDown«W» := funext prevFloat«W»_eq_nextDown
  rw [this]

/-- n steps up move the key by n (no NaN, +∞ not passed) -/
theorem nextFloatN«W»_key (x : «U») (n : Nat) (hx : isNaN«W» x = false) (hb : ordKey«W» x + n ≤ «KINF») :
    ordKey«W» (glmNextFloatN«W» x n) = ordKey«W» x + n ∧ isNaN«W» (glmNextFloatN«W» x n) = false := by
  rw [nextFloatN«W»_eq_nextUpN]; exact nextUpN«W»_key n x hx hb
theorem prevFloatN«W»_key (x : «U») (n : Nat) (hx : isNaN«W» x = false) (hb : -«KINF» ≤ ordKey«W» x - n) :
    ordKey«W» (glmPrevFloatN«W» x n) = ordKey«W» x - n ∧ isNaN«W» (glmPrevFloatN«W» x n) = false := by
  rw [prevFloatN«W»_eq_nextDownN]; exact nextDownN«W»_key n x hx hb

/-! the code before `fix_ulp_step_targets.diff` (direction arguments `max()` and `min()`) -/

/-- `prevFloat` was right strictly above the smallest positive normal number … -/
theorem preFixPrevFloat«W»_partial (x : «U») (hx : isFinite«W» x = true) (h : flt«W» «FMIN» x = true) :
    preFixPrevFloat«W» x = nextDown«W» x := by
  unfold preFixPrevFloat«W» nextafter«W» nextDown«W» flt«W» isFinite«W» isZero«W» sign«W» mag«W» isNaN«W» qNaN«W» at *
  bv_decide
/-- … and wrong for every finite x at or below it (all negative numbers, zeros, subnormals) -/
theorem preFixPrevFloat«W»_wrong (x : «U») (hx : isFinite«W» x = true) (h : fle«W» x «FMIN» = true) :
    (preFixPrevFloat«W» x == nextDown«W» x) = false := by
  unfold preFixPrevFloat«W» nextafter«W» nextDown«W» fle«W» flt«W» feq«W» isFinite«W» isZero«W» sign«W» mag«W» isNaN«W» qNaN«W» at *
  bv_decide
/-- witnesses: prevFloat(-1) = -1 + ulp, prevFloat(0) = +min subnormal -/
theorem preFixPrevFloat«W»_refuted : ¬ ∀ x : «U», isFinite«W» x = true → preFixPrevFloat«W» x = nextDown«W» x := by
  intro h; have := h «NONE» (by decide); revert this; decide
theorem preFixPrevFloat«W»_zero : preFixPrevFloat«W» 0 = «MSUB» ∧ nextDown«W» 0 = «NMSUB» := by decide
theorem preFixNextFloat«W»_partial (x : «U») (hx : isFinite«W» x = true) (h : (x == «FMAX») = false) :
    preFixNextFloat«W» x = nextUp«W» x := by
  unfold preFixNextFloat«W» nextafter«W» nextUp«W» isFinite«W» isZero«W» sign«W» isNaN«W» qNaN«W» at *; bv_decide
/-- nextFloat(max) = max instead of +∞ -/
theorem preFixNextFloat«W»_refuted : ¬ ∀ x : «U», isFinite«W» x = true → preFixNextFloat«W» x = nextUp«W» x := by
  intro h; have := h «FMAX» (by decide); revert this; decide

-- non-vacuity
example : glmNextFloat«W» «NZ» = «MSUB» ∧ glmPrevFloat«W» 0 = «NMSUB» ∧ glmPrevFloat«W» «NONE» = «NONE» + 1 ∧
    glmNextFloat«W» «FMAX» = «INF» ∧ glmPrevFloat«W» «NFMAX» = «NINF» := by decide
example : glmNextFloatN«W» «NMSUB» 3 = 2 ∧ glmPrevFloatN«W» «MSUB» 3 = «NMSUB» + 1 := by decide
example : isNaN«W» «NMSUB» = false ∧ ordKey«W» «NMSUB» + (3 : Nat) ≤ «KINF» := by decide
