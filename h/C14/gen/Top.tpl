import GlmVerif.Props.C14.Bridge
import GlmVerif.Props.C14.Spec
import GlmVerif.Props.C14.Step
import GlmVerif.Props.C14.Dist
import GlmVerif.Props.C14.Equal
import GlmVerif.Props.C14.Eps
/-!
# C14 — ULP stepping and epsilon/ULP comparisons are exact on every float and double

Model: `GlmVerif/Hand/C14.lean` (glm with the four patches `h/C14/fix_*.diff`).  The clauses of the
property are collected below from the per-topic modules `Props/C14/*.lean`:

| clause | theorem(s) |
|---|---|
| nextFloat(x) smallest value greater than finite x, prevFloat(x) largest smaller | `nextFloat…_least`, `prevFloat…_greatest` (+ `nextUp…_least`: the IEEE spec itself has that property) |
| n-step overloads = n single steps | `nextFloatN…_eq_repeat`, `prevFloatN…_eq_repeat`, `…_key` |
| floatDistance(x, nextFloat(x, n)) = n | `floatDistance…_nextN`, `floatDistance…_prevN`, `floatDistance…_eq_spec` |
| equal(x, y, ULPs) ⇔ at most ULPs values apart, ±0 equal; vector, matrix | `equalUlpsVec…_eq_spec`, `equalUlpsCol…_eq_spec` |
| … scalar overload | **refuted** (`equalUlps…_refuted`, test-encoded), `equalUlps…_partial` |
| equal/notEqual(x, y, ε) ⇔ \|fl(x−y)\| ≤ ε (resp. >) | `leAbs…_eq_spec`, `gtAbs…_eq_spec` |
| … epsilonEqual/epsilonNotEqual | **refuted** at \|fl(x−y)\| = ε (`ltAbs…_refuted`), `ltAbs…_partial` |

`c14_binary32` / `c14_binary64` restate the positive clauses as one proposition each.
-/
namespace Glm.Props.C14
open Glm.Hand.C14

-- BODY
/-- C14 at binary«W», everything that holds of the (patched) code -/
theorem c14_binary«W» :
    -- nextFloat / prevFloat: least greater / greatest smaller value, for every finite x
    (∀ x y : «U», isFinite«W» x = true → isNaN«W» y = false →
      (flt«W» x (glmNextFloat«W» x) = true ∧ (flt«W» x y = true → fle«W» (glmNextFloat«W» x) y = true)) ∧
      (flt«W» (glmPrevFloat«W» x) x = true ∧ (flt«W» y x = true → fle«W» y (glmPrevFloat«W» x) = true))) ∧
    -- n-step = n single steps
    (∀ (x : «U») (n : Nat), glmNextFloatN«W» x n = Nat.repeat glmNextFloat«W» n x ∧
      glmPrevFloatN«W» x n = Nat.repeat glmPrevFloat«W» n x) ∧
    -- floatDistance(x, nextFloat(x, n)) = n
    (∀ (x : «U») (n : Nat), isNaN«W» x = false → ordKey«W» x + n ≤ «KINF» → (n : Int) ≤ «IMAX» →
      (glmFloatDistance«W» x (glmNextFloatN«W» x n)).toBitVec.toInt = n) ∧
    -- equal(x, y, ULPs), vector and matrix overloads, every pattern and every ULPs
    (∀ «XYK», glmEqualUlpsVec«W» x y k = decide ((ulpDist«W» x y : Int) ≤ k.toBitVec.toInt)) ∧
    -- scalar overload: when the sign bits agree
    (∀ «XYK», sign«W» x = sign«W» y →
      glmEqualUlps«W» x y k = decide ((ulpDist«W» x y : Int) ≤ k.toBitVec.toInt)) ∧
    -- epsilon forms of equal / notEqual
    (∀ x y e : «U», glmEqualEps«W» x y e = fle«W» (subBits«W» x y &&& «MM») e ∧
      glmNotEqualEps«W» x y e = flt«W» e (subBits«W» x y &&& «MM»)) :=
  ⟨fun x y hx hy => ⟨nextFloat«W»_least x y hx hy, prevFloat«W»_greatest x y hx hy⟩,
   fun x n => ⟨nextFloatN«W»_eq_repeat x n, prevFloatN«W»_eq_repeat x n⟩,
   fun x n hx hb hn => floatDistance«W»_nextN x n hx hb hn,
   fun x y k => equalUlpsVec«W»_eq_spec x y k,
   fun x y k h => equalUlps«W»_partial x y k h,
   fun x y e => ⟨equalEps«W»_eq_spec x y e, notEqualEps«W»_eq_spec x y e⟩⟩
