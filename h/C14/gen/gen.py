#!/usr/bin/env python3
# one-off helper used while writing Props/C14/*.lean: instantiates the width-generic text at 32 and 64 bits
import sys, re
P32 = dict(W='32', U='UInt32', SM='0x80000000', MM='0x7FFFFFFF', INF='0x7F800000', NINF='0xFF800000',
           FMAX='0x7F7FFFFF', NFMAX='0xFF7FFFFF', FMIN='0x00800000', ONE='0x3F800000', NONE='0xBF800000', KINF='2139095040', IMAX='2147483647', IMIN='0x80000000',
           E='64', AD='absDiff64', SX='sext64_toInt', SXK='sext64_toInt', MSUB='0x00000001', NMSUB='0x80000001', NZ='0x80000000',
           MANT='0x007FFFFF', EXPM='0xFF', MB='23', HALF='0x3F000000', NHALF='0xBF000000', ONEP='0x3F800001', FT='float', SB='31', XYK='(x y k : UInt32)', TWO='0x00000002', SUBF='Float32')
P64 = dict(W='64', U='UInt64', SM='0x8000000000000000', MM='0x7FFFFFFFFFFFFFFF', INF='0x7FF0000000000000', NINF='0xFFF0000000000000',
           FMAX='0x7FEFFFFFFFFFFFFF', NFMAX='0xFFEFFFFFFFFFFFFF', FMIN='0x0010000000000000', ONE='0x3FF0000000000000', NONE='0xBFF0000000000000', KINF='9218868437227405312', IMAX='9223372036854775807', IMIN='0x8000000000000000',
           E='128', AD='absDiff128', SX='sext128_toInt', SXK='sext128_toInt32', MSUB='0x0000000000000001', NMSUB='0x8000000000000001', NZ='0x8000000000000000',
           MANT='0x000FFFFFFFFFFFFF', EXPM='0x7FF', MB='52', HALF='0x3FE0000000000000', NHALF='0xBFE0000000000000', ONEP='0x3FF0000000000001', FT='double', SB='63', XYK='(x y : UInt64) (k : UInt32)', TWO='0x0000000000000002', SUBF='Float')
def inst(t, P):
    return re.sub(r'«(\w+)»', lambda m: P[m.group(1)], t)
src = open(sys.argv[1]).read()
head, body = src.split('-- BODY\n')
out = head + inst(body, P32) + '\n' + inst(body, P64) + '\nend Glm.Props.C14\n'
open(sys.argv[2], 'w').write(out)
