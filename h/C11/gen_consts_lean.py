#!/usr/bin/env python3
"""One-off generator of lean/GlmVerif/Props/C11/Consts.lean (the file is static afterwards; kept for
reproducibility).  Enclosures are computed with mpmath at 80 digits and *proved* in Lean."""
import sys
from fractions import Fraction as F
from mpmath import mp, mpf, sqrt, pi, e, log, floor, ceil
mp.dps = 80

PLO = F(314159265358979323846, 10**20)
PHI = F(314159265358979323847, 10**20)

def dec(q, digits, up):
    """decimal with `digits` fractional digits, rounded down/up"""
    s = 10**digits
    n = q * s
    n = (n.numerator + n.denominator - 1)//n.denominator if up else n.numerator//n.denominator
    return F(n, s)

def fq(x):  # mpf -> Fraction (exact)
    m, ex = x.man, x.exp
    v = F(m) * (F(2)**ex)
    return -v if x._mpf_[0] else v

def rat(q):
    return '(%d : ℚ) / %d' % (q.numerator, q.denominator)
def real(q):
    if q.denominator == 1: return '(%d : ℝ)' % q.numerator
    return '(%d : ℝ) / %d' % (q.numerator, q.denominator)

out = []
def emit(name, quantity, lo, hi, proof, f64=True, f32=True, doc=''):
    out.append('/-- %s -/' % (doc or ('enclosure of ' + quantity)))
    out.append('theorem %s_encl : ((%s : ℚ) : ℝ) ≤ %s ∧ %s ≤ ((%s : ℚ) : ℝ) := by' % (name, rat(lo), quantity, quantity, rat(hi)))
    out.append(proof)
    if f64:
        out.append('theorem %s_f64 : CorrectlyRounded64 Gen.C11.lit_%s (%s) :=' % (name, name, quantity))
        out.append('  correctlyRounded64_of_chk (lo := %s) (hi := %s) (by decide +kernel) %s_encl.1 %s_encl.2' % (rat(lo), rat(hi), name, name))
    if f32:
        out.append('theorem %s_f32 : CorrectlyRounded32 Gen.C11.lit_%s (%s) :=' % (name, name, quantity))
        out.append('  correctlyRounded32_of_chk (lo := %s) (hi := %s) (by decide +kernel) %s_encl.1 %s_encl.2' % (rat(lo), rat(hi), name, name))
    out.append('')

D = 22
# ---- rational multiples of pi
for name, c, q in [('pi', F(1), 'Real.pi'), ('two_pi', F(2), '2 * Real.pi'), ('half_pi', F(1, 2), 'Real.pi / 2'),
                   ('three_over_two_pi', F(3, 2), '3 * Real.pi / 2'), ('quarter_pi', F(1, 4), 'Real.pi / 4')]:
    emit(name, q, c*PLO, c*PHI, '  constructor <;> (push_cast; linarith [pi_lo, pi_hi])')
# ---- c / pi
for name, c, q in [('one_over_pi', F(1), '1 / Real.pi'), ('one_over_two_pi', F(1, 2), '1 / (2 * Real.pi)'),
                   ('two_over_pi', F(2), '2 / Real.pi'), ('four_over_pi', F(4), '4 / Real.pi')]:
    lo, hi = dec(c/PHI, D, False), dec(c/PLO, D, True)
    emit(name, q, lo, hi,
         '  have h := div_encl (c := %s) (by norm_num) (by norm_num) pi_lo.le pi_hi.le\n' % real(c) +
         '  have hq : %s = (%s) / Real.pi := by field_simp\n  rw [hq]\n' % (q, real(c)) +
         '  constructor\n  · refine le_trans ?_ h.1; push_cast; norm_num\n  · refine le_trans h.2 ?_; push_cast; norm_num')
# ---- sqrt(c*pi)
for name, c, q in [('root_pi', F(1), 'Real.sqrt Real.pi'), ('root_half_pi', F(1, 2), 'Real.sqrt (Real.pi / 2)'), ('root_two_pi', F(2), 'Real.sqrt (2 * Real.pi)')]:
    lo = dec(fq(sqrt(mpf((c*PLO).numerator)/(c*PLO).denominator)), 19, False) - F(1, 10**19)
    hi = dec(fq(sqrt(mpf((c*PHI).numerator)/(c*PHI).denominator)), 19, True) + F(1, 10**19)
    emit(name, q, lo, hi,
         '  have hq : %s = Real.sqrt ((%s) * Real.pi) := by congr 1 <;> ring\n  rw [hq]\n' % (q, real(c)) +
         '  have h := sqrt_encl (y := (%s) * Real.pi) (lo := %s) (hi := %s) (by norm_num)\n' % (real(c), real(lo), real(hi)) +
         '    (by have := pi_lo; norm_num at this ⊢; linarith) (by have := pi_hi; norm_num at this ⊢; linarith)\n' +
         '  constructor\n  · refine le_trans ?_ h.1; push_cast; norm_num\n  · refine le_trans h.2 ?_; push_cast; norm_num')
# ---- 2/sqrt(pi)
slo = dec(fq(sqrt(mpf(PLO.numerator)/PLO.denominator)), 19, False) - F(1, 10**19)
shi = dec(fq(sqrt(mpf(PHI.numerator)/PHI.denominator)), 19, True) + F(1, 10**19)
lo, hi = dec(2/shi, D, False), dec(2/slo, D, True)
emit('two_over_root_pi', '2 / Real.sqrt Real.pi', lo, hi,
     '  have hs := sqrt_encl (y := Real.pi) (lo := %s) (hi := %s) (by norm_num)\n' % (real(slo), real(shi)) +
     '    (by have := pi_lo; norm_num at this ⊢; linarith) (by have := pi_hi; norm_num at this ⊢; linarith)\n' +
     '  have h := div_encl (c := 2) (by norm_num) (by norm_num) hs.1 hs.2\n' +
     '  constructor\n  · refine le_trans ?_ h.1; push_cast; norm_num\n  · refine le_trans h.2 ?_; push_cast; norm_num')
# ---- sqrt n
for name, n in [('root_two', 2), ('root_three', 3), ('root_five', 5)]:
    s = fq(sqrt(mpf(n)))
    lo, hi = dec(s, 25, False), dec(s, 25, True)
    emit(name, 'Real.sqrt %d' % n, lo, hi,
         '  have h := sqrt_encl (y := %d) (lo := %s) (hi := %s) (by norm_num) (by norm_num) (by norm_num)\n' % (n, real(lo), real(hi)) +
         '  constructor\n  · refine le_trans ?_ h.1; push_cast; norm_num\n  · refine le_trans h.2 ?_; push_cast; norm_num')
# ---- 1/sqrt 2
s = fq(sqrt(mpf(2))); slo, shi = dec(s, 25, False), dec(s, 25, True)
lo, hi = dec(1/shi, 25, False), dec(1/slo, 25, True)
emit('one_over_root_two', '1 / Real.sqrt 2', lo, hi,
     '  have hs := sqrt_encl (y := 2) (lo := %s) (hi := %s) (by norm_num) (by norm_num) (by norm_num)\n' % (real(slo), real(shi)) +
     '  have h := div_encl (c := 1) (by norm_num) (by norm_num) hs.1 hs.2\n' +
     '  constructor\n  · refine le_trans ?_ h.1; push_cast; norm_num\n  · refine le_trans h.2 ?_; push_cast; norm_num')
# ---- golden ratio
s = fq(sqrt(mpf(5))); slo, shi = dec(s, 25, False), dec(s, 25, True)
emit('golden_ratio', '(1 + Real.sqrt 5) / 2', (1+slo)/2, (1+shi)/2,
     '  have hs := sqrt_encl (y := 5) (lo := %s) (hi := %s) (by norm_num) (by norm_num) (by norm_num)\n' % (real(slo), real(shi)) +
     '  constructor <;> (push_cast; linarith [hs.1, hs.2])')
# ---- rationals
for name, q in [('third', F(1, 3)), ('two_thirds', F(2, 3))]:
    emit(name, real(q), q, q, '  constructor <;> (push_cast; norm_num)')
# ---- e (20 digits)
ec = F(363916618873, 133877442384)
emit('e', 'Real.exp 1', dec(ec - F(1, 10**20), 24, False), dec(ec + F(1, 10**20), 24, True),
     '  have h := abs_le.mp Real.exp_one_near_20\n  constructor <;> (push_cast; norm_num at h ⊢; linarith [h.1, h.2])')
# ---- ln 2 (10 digits): float only
lc = F(287209, 414355)
emit('ln_two', 'Real.log 2', dec(lc - F(1, 10**10), 14, False), dec(lc + F(1, 10**10), 14, True),
     '  have h := abs_le.mp Real.log_two_near_10\n  constructor <;> (push_cast; norm_num at h ⊢; linarith [h.1, h.2])', f64=False)
# ---- ln 10 = ln 2 + ln 5: float only
l5 = F(160943791243, 100000000000)
emit('ln_ten', 'Real.log 10', dec(lc + l5 - F(2, 10**10), 14, False), dec(lc + l5 + F(2, 10**10), 14, True),
     '  have h2 := abs_le.mp Real.log_two_near_10\n  have h5 := abs_le.mp Real.log_five_near_10\n' +
     '  have h10 : Real.log 10 = Real.log 2 + Real.log 5 := by rw [← Real.log_mul (by norm_num) (by norm_num)]; norm_num\n' +
     '  rw [h10]\n  constructor <;> (push_cast; norm_num at h2 h5 ⊢; linarith [h2.1, h2.2, h5.1, h5.2])', f64=False)
# ---- sqrt(ln 4) = sqrt(2 ln 2): float only
l4lo, l4hi = 2*(lc - F(1, 10**10)), 2*(lc + F(1, 10**10))
lo = dec(fq(sqrt(mpf(l4lo.numerator)/l4lo.denominator)), 12, False) - F(1, 10**12)
hi = dec(fq(sqrt(mpf(l4hi.numerator)/l4hi.denominator)), 12, True) + F(1, 10**12)
emit('root_ln_four', 'Real.sqrt (Real.log 4)', lo, hi,
     '  have h2 := abs_le.mp Real.log_two_near_10\n  rw [Real.log_four_eq]\n' +
     '  have h := sqrt_encl (y := 2 * Real.log 2) (lo := %s) (hi := %s) (by norm_num)\n' % (real(lo), real(hi)) +
     '    (by norm_num at h2 ⊢; linarith [h2.1]) (by norm_num at h2 ⊢; linarith [h2.2])\n' +
     '  constructor\n  · refine le_trans ?_ h.1; push_cast; norm_num\n  · refine le_trans h.2 ?_; push_cast; norm_num', f64=False)

print('\n'.join(out))
