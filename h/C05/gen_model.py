#!/usr/bin/env python3
"""One-off text template that wrote the per-width blocks of lean/GlmVerif/Hand/C05.lean (the eight element
types differ only in literal widths, masks and the integral-promotion casts).  The .lean file is the reviewed
artefact; re-run `python3 gen_model.py > ../../lean/GlmVerif/Hand/C05.lean` only to regenerate it wholesale."""
import sys

HEADER = r'''/-
  C05 — GLSL integer / bit-field functions: hand model (H) and executable specification.
  Core Lean only.  Source: glm/detail/func_integer.inl of the tree WITH the four fix patches of /verif/h/C05
  applied (fix_bitfieldExtract, fix_bitfieldInsert, fix_bitfieldReverse, fix_findMSB_signed); line numbers
  below refer to that file.  `usubBorrow` is modelled as it is (its defect is encoded by glm's own test).

  Build modelled: GCC, x86-64, no GLM_FORCE_INTRINSICS  ⇒  GLM_HAS_BITSCAN_WINDOWS = 0 (setup.hpp:371-377) and
  GLM_CONFIG_SIMD = GLM_DISABLE, i.e. the generic `compute_findLSB` (l.66-76) and `compute_findMSB_vec`
  (l.122-136) are the active branches and func_integer_simd.inl is not included.  diff/C05.cpp static_asserts both.

  House style (bv_decide): literal machine types, no tuples (one definition per output), Bool conditions.
  Integral promotion: for 8/16-bit T every C++ operator is evaluated at `int` and converted back to T by the
  `vec` constructor.  Truncation commutes with `& | ^ ~ + -` and with shifts by a constant smaller than the
  width (on the zero- or sign-extended operand), so the fixed-shift ladders use the native narrow operators; the
  *variable* shifts of bitfieldExtract/Insert are written out with the promotion (`toUInt32`/`toInt32` … `toUInt8`).
  Lean's `<<<`/`>>>` on UIntN/IntN reduce the count modulo N exactly like the x86 shift instructions; inside the
  documented domain no count reaches the width (theorems `*_shift_in_range` in Props/C05).
-/
namespace GlmVerif.C05

/-! ## Executable specification (from the GLSL text quoted in glm/integer.hpp)

A value of a w-bit type is given by its raw bits, zero-extended into a `UInt64`; "bit i" is bit number i with the
lowest-order bit being bit 0 (integer.hpp:11-13).  Recursion is on the number of bits still to visit. -/
namespace Spec

/-- bit number `i` of `x` -/
def bit (x i : UInt64) : Bool := ((x >>> i) &&& 1) == 1

/-- "the number of bits set to 1" among bits [i, i+n) -/
def countFrom (x i : UInt64) : Nat → Int32
  | 0 => 0
  | n+1 => (if bit x i then 1 else 0) + countFrom x (i+1) n
def bitCount (w : Nat) (x : UInt64) : Int32 := countFrom x 0 w

/-- "the bit number of the least significant bit set to 1 … if value is zero, -1": first set bit in [i, i+n) -/
def lowestFrom (x i : UInt64) : Nat → Int32
  | 0 => -1
  | n+1 => if bit x i then i.toUInt32.toInt32 else lowestFrom x (i+1) n
def findLSB (w : Nat) (x : UInt64) : Int32 := lowestFrom x 0 w

/-- highest set bit below bit number `i`, visiting n bits downwards; -1 if none -/
def highestBelow (x i : UInt64) : Nat → Int32
  | 0 => -1
  | n+1 => if bit x (i-1) then (i-1).toUInt32.toInt32 else highestBelow x (i-1) n
/-- "For positive integers, the bit number of the most significant bit set to 1.  For negative integers, the bit
    number of the most significant bit set to 0.  For a value of zero or negative one, -1." -/
def findMSB (signed : Bool) (w : Nat) (x : UInt64) : Int32 :=
  if signed && bit x (w.toUInt64 - 1) then highestBelow (~~~x) w.toUInt64 w else highestBelow x w.toUInt64 w

/-- "The bit numbered n of the result will be taken from bit (bits - 1) - n of value" -/
def reverseFrom (w x i : UInt64) : Nat → UInt64
  | 0 => 0
  | n+1 => (if bit x (w - 1 - i) then (1 : UInt64) <<< i else 0) ||| reverseFrom w x (i+1) n
def reverse (w : Nat) (x : UInt64) : UInt64 := reverseFrom w.toUInt64 x 0 w

/-- bit i of bitfieldExtract: "Extracts bits [offset, offset + bits - 1] from value, returning them in the least
    significant bits of the result.  For unsigned data types, the most significant bits of the result will be set to
    zero.  For signed data types, the most significant bits will be set to the value of bit offset + bits - 1.  If
    bits is zero, the result will be zero." -/
def extractBit (signed : Bool) (x off bits i : UInt64) : Bool :=
  if i < bits then bit x (off + i) else (signed && !(bits == 0) && bit x (off + bits - 1))
def extractFrom (signed : Bool) (x off bits i : UInt64) : Nat → UInt64
  | 0 => 0
  | n+1 => (if extractBit signed x off bits i then (1 : UInt64) <<< i else 0) ||| extractFrom signed x off bits (i+1) n
def extract (signed : Bool) (w : Nat) (x off bits : UInt64) : UInt64 := extractFrom signed x off bits 0 w

/-- bit i of bitfieldInsert: "bits [offset, offset + bits - 1] taken from bits [0, bits - 1] of insert, and all other
    bits taken directly from the corresponding bits of base" -/
def insertBit (base ins off bits i : UInt64) : Bool :=
  if off ≤ i && i < off + bits then bit ins (i - off) else bit base i
def insertFrom (base ins off bits i : UInt64) : Nat → UInt64
  | 0 => 0
  | n+1 => (if insertBit base ins off bits i then (1 : UInt64) <<< i else 0) ||| insertFrom base ins off bits (i+1) n
def insert (w : Nat) (base ins off bits : UInt64) : UInt64 := insertFrom base ins off bits 0 w

/-- documented domain of (offset, bits): "undefined if offset or bits is negative, or if the sum of offset and
    bits is greater than the number of bits used to store the operand" (the two `≤ w` conjuncts only keep the
    32-bit sum from wrapping) -/
def inDomain (w offset bits : Int32) : Bool :=
  0 ≤ offset && 0 ≤ bits && offset ≤ w && bits ≤ w && offset + bits ≤ w

/-- uaddCarry: "the sum modulo pow(2,32)"; "carry is set to 0 if the sum was less than pow(2,32), or to 1 otherwise" -/
def uaddSum (x y : Nat) : Nat := (x + y) % 2^32
def uaddCarry (x y : Nat) : Nat := (x + y) / 2^32
/-- usubBorrow: "the difference if non-negative, or pow(2,32) plus the difference otherwise"; "borrow is set to 0
    if x >= y, or to 1 otherwise" -/
def usubDiff (x y : Nat) : Nat := if y ≤ x then x - y else 2^32 + x - y
def usubBorrow (x y : Nat) : Nat := if y ≤ x then 0 else 1
/-- umulExtended / imulExtended: the 64-bit product; "the 32 least-significant bits are returned in lsb, the 32
    most-significant bits in msb" (floor division: two's complement) -/
def umulMsb (x y : Nat) : Nat := (x * y) / 2^32
def umulLsb (x y : Nat) : Nat := (x * y) % 2^32
def imulMsb (x y : Int) : Int := (x * y) / 2^32
def imulLsb (x y : Int) : Int := (x * y) % 2^32

end Spec
'''

M = {1: 0x5555555555555555, 2: 0x3333333333333333, 4: 0x0F0F0F0F0F0F0F0F, 8: 0x00FF00FF00FF00FF,
     16: 0x0000FFFF0000FFFF, 32: 0x00000000FFFFFFFF}

def hexw(v, w):
    return '0x%0*X' % (w // 4, v & ((1 << w) - 1))

def block(w):
    U, I = 'UInt%d' % w, 'Int%d' % w
    steps = [s for s in (1, 2, 4, 8, 16, 32) if w >= 2 * s]
    o = []
    a = o.append
    a('/-! ## %d-bit element types (T = int%d_t / uint%d_t, U = make_unsigned<T>::type = uint%d_t) -/\n' % (w, w, w, w))
    # ---- bitCount
    a('/-- compute_bitfieldBitCountStep<L,U,Q,Aligned,true>::call (l.57-64): `(v & Mask) + ((v >> Shift) & Mask)` -/')
    a('def bcStep%d (v mask shift : %s) : %s := (v &&& mask) + ((v >>> shift) &&& mask)\n' % (w, U, U))
    a('/-- bitCount(vec<L,%s,Q>) (l.337-359); steps with `sizeof(T)*8 >= 2·Shift` only -/' % ('uint%d_t' % w))
    a('def bitCount_U%d (v : %s) : Int32 :=' % (w, U))
    a('  let x := v                                       -- vec<L, make_unsigned<T>::type, Q> x(v)')
    for s in steps:
        a('  let x := bcStep%d x %s %d' % (w, hexw(M[s], w), s))
    a('  %s                                -- vec<L, int, Q>(x)\n' % ('x.toInt32' if w == 32 else 'x.toUInt32.toInt32'))
    a('/-- the signed instance: the only difference is the conversion `vec<L,U,Q> x(v)` -/')
    a('def bitCount_I%d (v : %s) : Int32 := bitCount_U%d v.to%s\n' % (w, I, w, U))
    return '\n'.join(o)

def block2(w):
    """functions that call bitCount at another width (findLSB of narrow types promotes to int) — emitted after all bitCounts"""
    U, I = 'UInt%d' % w, 'Int%d' % w
    steps = [s for s in (1, 2, 4, 8, 16, 32) if w >= 2 * s]
    o = []
    a = o.append
    a('/-! ### %d-bit: findLSB, findMSB, bitfieldReverse, bitfieldExtract, bitfieldInsert -/\n' % w)
    # ---- findLSB
    a('/-- compute_findLSB<genIUType,%d>::call (l.66-76), generic branch: `if(Value == 0) return -1;' % w)
    if w < 32:
        a('    return glm::bitCount(~Value & (Value - static_cast<genIUType>(1)));` — the operand is promoted, so this is bitCount<int> -/')
        a('def findLSB_U%d (value : %s) : Int32 :=' % (w, U))
        a('  if value == 0 then -1 else')
        a('  let p : Int32 := value.toUInt32.toInt32            -- integral promotion (zero extension)')
        a('  bitCount_I32 (~~~p &&& (p - 1))')
        a('def findLSB_I%d (value : %s) : Int32 :=' % (w, I))
        a('  if value == 0 then -1 else')
        a('  let p : Int32 := value.toInt32                     -- integral promotion (sign extension)')
        a('  bitCount_I32 (~~~p &&& (p - 1))\n')
    else:
        a('    return glm::bitCount(~Value & (Value - static_cast<genIUType>(1)));` (signed: wraps at the minimum value, which is')
        a('    undefined behaviour in C++ — property C20 — and what GCC emits) -/')
        a('def findLSB_U%d (value : %s) : Int32 :=' % (w, U))
        a('  if value == 0 then -1 else bitCount_U%d (~~~value &&& (value - 1))' % w)
        a('def findLSB_I%d (value : %s) : Int32 :=' % (w, I))
        a('  if value == 0 then -1 else bitCount_I%d (~~~value &&& (value - 1))\n' % w)
    # ---- findMSB
    a('/-- compute_findMSB_step_vec<L,T,Q,true>::call (l.104-111): `x | (x >> Shift)` (arithmetic `>>` for signed T) -/')
    a('def msbStepU%d (x shift : %s) : %s := x ||| (x >>> shift)' % (w, U, U))
    a('def msbStepI%d (x shift : %s) : %s := x ||| (x >>> shift)\n' % (w, I, I))
    for (S, T) in (('U', U), ('I', I)):
        a('/-- compute_findMSB_vec<L,T,Q,%d>::call (l.122-136) -/' % w)
        a('def findMSBvec_%s%d (v : %s) : Int32 :=' % (S, w, T))
        a('  let x := v')
        for s in steps:
            a('  let x := msbStep%s%d x %d' % (S, w, s))
        a('  (%d : Int32) - bitCount_%s%d (~~~x)        -- vec<L,int,Q>(sizeof(T)*8 - 1) - glm::bitCount(~x)\n' % (w - 1, S, w))
    a('/-- findMSB(vec<L,T,Q>) (l.387-400, with fix_findMSB_signed): signed T first maps v to `v ^ (v >> (w-1))` -/')
    a('def findMSB_U%d (v : %s) : Int32 := findMSBvec_U%d v' % (w, U, w))
    a('def findMSB_I%d (v : %s) : Int32 := findMSBvec_I%d (v ^^^ (v >>> %d))\n' % (w, I, w, w - 1))
    # ---- reverse
    a('/-- compute_bitfieldReverseStep<L,U,Q,Aligned,true>::call (l.39-46): `(v & Mask) << Shift | (v & static_cast<T>(~Mask)) >> Shift` -/')
    a('def revStep%d (v mask shift : %s) : %s := ((v &&& mask) <<< shift) ||| ((v &&& ~~~mask) >>> shift)\n' % (w, U, U))
    a('/-- bitfieldReverse(vec<L,T,Q>) (l.307-322, with fix_bitfieldReverse: the ladder runs on U) -/')
    a('def bitfieldReverse_U%d (v : %s) : %s :=' % (w, U, U))
    a('  let x := v')
    for s in steps:
        a('  let x := revStep%d x %s %d' % (w, hexw(M[s], w), s))
    a('  x')
    a('def bitfieldReverse_I%d (v : %s) : %s := (bitfieldReverse_U%d v.to%s).to%s\n' % (w, I, I, w, U, I))
    # ---- extract
    a('/-- bitfieldExtract(vec<L,T,Q>, int Offset, int Bits) (l.253-267, fix_bitfieldExtract):')
    a('    `if(Bits <= 0) return 0; Top = vec<L,U,Q>(Value) << static_cast<U>(Width - Offset - Bits);')
    a('     return vec<L,T,Q>(Top) >> static_cast<T>(Width - Bits);` -/')
    if w < 32:
        a('def bitfieldExtract_U%d (value : %s) (offset bits : Int32) : %s :=' % (w, U, U))
        a('  if bits ≤ 0 then 0 else')
        a('  let cl : %s := (%d - offset - bits).to%s.to%s                       -- static_cast<U>(int)' % (U, w, I, U))
        a('  let top : %s := (value.toUInt32 <<< cl.toUInt32).to%s             -- U(int(x) << int(cl))' % (U, U))
        a('  let cr : %s := (%d - bits).to%s.to%s                               -- static_cast<T>(int), T = U' % (U, w, I, U))
        a('  (top.toUInt32 >>> cr.toUInt32).to%s' % U)
        a('def bitfieldExtract_I%d (value : %s) (offset bits : Int32) : %s :=' % (w, I, I))
        a('  if bits ≤ 0 then 0 else')
        a('  let cl : %s := (%d - offset - bits).to%s.to%s' % (U, w, I, U))
        a('  let top : %s := (value.to%s.toUInt32 <<< cl.toUInt32).to%s' % (U, U, U))
        a('  let cr : %s := (%d - bits).to%s' % (I, w, I))
        a('  (top.to%s.toInt32 >>> cr.toInt32).to%s                           -- T(int(x) >> int(cr)): arithmetic\n' % (I, I))
    elif w == 32:
        a('def bitfieldExtract_U32 (value : UInt32) (offset bits : Int32) : UInt32 :=')
        a('  if bits ≤ 0 then 0 else')
        a('  let top : UInt32 := value <<< (32 - offset - bits).toUInt32')
        a('  top >>> (32 - bits).toUInt32')
        a('def bitfieldExtract_I32 (value : Int32) (offset bits : Int32) : Int32 :=')
        a('  if bits ≤ 0 then 0 else')
        a('  let top : UInt32 := value.toUInt32 <<< (32 - offset - bits).toUInt32')
        a('  top.toInt32 >>> (32 - bits)                                        -- arithmetic\n')
    else:
        a('def bitfieldExtract_U64 (value : UInt64) (offset bits : Int32) : UInt64 :=')
        a('  if bits ≤ 0 then 0 else')
        a('  let top : UInt64 := value <<< (64 - offset - bits).toInt64.toUInt64')
        a('  top >>> (64 - bits).toInt64.toUInt64')
        a('def bitfieldExtract_I64 (value : Int64) (offset bits : Int32) : Int64 :=')
        a('  if bits ≤ 0 then 0 else')
        a('  let top : UInt64 := value.toUInt64 <<< (64 - offset - bits).toInt64.toUInt64')
        a('  top.toInt64 >>> (64 - bits).toInt64                                -- arithmetic\n')
    # ---- insert
    a('/-- detail::mask<U> (l.24-28): `Bits >= sizeof(T)*8 ? ~T(0) : (T(1) << Bits) - T(1)` -/')
    if w < 32:
        a('def mask_U%d (bits : %s) : %s :=' % (w, U, U))
        a('  if bits ≥ %d then ~~~(0 : %s) else (((1 : UInt32) <<< bits.toUInt32) - 1).to%s' % (w, U, U))
    else:
        a('def mask_U%d (bits : %s) : %s :=' % (w, U, U))
        a('  if bits ≥ %d then ~~~(0 : %s) else ((1 : %s) <<< bits) - 1' % (w, U, U))
    a('/-- bitfieldInsert(vec<L,T,Q>, vec<L,T,Q>, int Offset, int Bits) (l.278-293, fix_bitfieldInsert):')
    a('    `if(Bits <= 0) return Base; U Mask = static_cast<U>(mask(static_cast<U>(Bits)) << Offset);')
    a('     return vec<L,T,Q>((vec<L,U,Q>(Base) & static_cast<U>(~Mask)) | ((vec<L,U,Q>(Insert) << static_cast<U>(Offset)) & Mask));` -/')
    if w < 32:
        a('def bitfieldInsert_U%d (base ins : %s) (offset bits : Int32) : %s :=' % (w, U, U))
        a('  if bits ≤ 0 then base else')
        a('  let mask : %s := ((mask_U%d bits.to%s.to%s).toUInt32 <<< offset.toUInt32).to%s' % (U, w, I, U, U))
        a('  (base &&& ~~~mask) ||| ((ins.toUInt32 <<< offset.to%s.to%s.toUInt32).to%s &&& mask)' % (I, U, U))
    elif w == 32:
        a('def bitfieldInsert_U32 (base ins : UInt32) (offset bits : Int32) : UInt32 :=')
        a('  if bits ≤ 0 then base else')
        a('  let mask : UInt32 := mask_U32 bits.toUInt32 <<< offset.toUInt32')
        a('  (base &&& ~~~mask) ||| ((ins <<< offset.toUInt32) &&& mask)')
    else:
        a('def bitfieldInsert_U64 (base ins : UInt64) (offset bits : Int32) : UInt64 :=')
        a('  if bits ≤ 0 then base else')
        a('  let mask : UInt64 := mask_U64 bits.toInt64.toUInt64 <<< offset.toInt64.toUInt64')
        a('  (base &&& ~~~mask) ||| ((ins <<< offset.toInt64.toUInt64) &&& mask)')
    a('def bitfieldInsert_I%d (base ins : %s) (offset bits : Int32) : %s :=' % (w, I, I))
    a('  (bitfieldInsert_U%d base.to%s ins.to%s offset bits).to%s            -- vec<L,U,Q>(Base), vec<L,U,Q>(Insert), vec<L,T,Q>(…)\n' % (w, U, U, I))
    return '\n'.join(o)

CARRY = r'''
/-! ## uaddCarry / usubBorrow / umulExtended / imulExtended (uint / int only) — one definition per output -/

/-- uaddCarry(uint,uint,uint&) (l.177-184) -/
def uaddCarry_res (x y : UInt32) : UInt32 :=
  let value64 : UInt64 := x.toUInt64 + y.toUInt64
  let max32 : UInt64 := ((1 : UInt64) <<< 32) - 1
  (value64 % (max32 + 1)).toUInt32
def uaddCarry_carry (x y : UInt32) : UInt32 :=
  let value64 : UInt64 := x.toUInt64 + y.toUInt64
  let max32 : UInt64 := ((1 : UInt64) <<< 32) - 1
  if value64 > max32 then 1 else 0

/-- one component of uaddCarry(vec<L,uint,Q>…) (l.186-193): `Carry = mix(vec(0), vec(1), greaterThan(Value64, Max32))`,
    mix with a bool vector selects the second operand where true -/
def uaddCarryV_res (x y : UInt32) : UInt32 :=
  let value64 : UInt64 := x.toUInt64 + y.toUInt64
  let max32 : UInt64 := ((1 : UInt64) <<< 32) - 1
  (value64 % (max32 + 1)).toUInt32
def uaddCarryV_carry (x y : UInt32) : UInt32 :=
  let value64 : UInt64 := x.toUInt64 + y.toUInt64
  let max32 : UInt64 := ((1 : UInt64) <<< 32) - 1
  let gt : Bool := value64 > max32
  if gt then 1 else 0

/-- usubBorrow(uint,uint,uint&) (l.195-203), AS IT IS (known finding: the result is y - x, see Props/C05) -/
def usubBorrow_borrow (x y : UInt32) : UInt32 := if x ≥ y then 0 else 1
def usubBorrow_res (x y : UInt32) : UInt32 :=
  if y ≥ x then y - x
  else ((((1 : Int64) <<< 32) + (y.toUInt64.toInt64 - x.toUInt64.toInt64))).toUInt64.toUInt32

/-- one component of usubBorrow(vec…) (l.205-212): `Borrow = mix(1, 0, x >= y)`, `mix(XgeY, YgeX, y >= x)` -/
def usubBorrowV_borrow (x y : UInt32) : UInt32 :=
  let ge : Bool := x ≥ y
  if ge then 0 else 1
def usubBorrowV_res (x y : UInt32) : UInt32 :=
  let ygex : UInt32 := y - x
  let xgey : UInt32 := ((((1 : Int64) <<< 32) + (y.toUInt64.toInt64 - x.toUInt64.toInt64))).toUInt64.toUInt32
  let sel : Bool := y ≥ x
  if sel then ygex else xgey

/-- umulExtended(uint,uint,uint&,uint&) (l.214-220) and its vector form (l.222-228: identical per component) -/
def umulExtended_msb (x y : UInt32) : UInt32 :=
  let value64 : UInt64 := x.toUInt64 * y.toUInt64
  (value64 >>> 32).toUInt32
def umulExtended_lsb (x y : UInt32) : UInt32 :=
  let value64 : UInt64 := x.toUInt64 * y.toUInt64
  value64.toUInt32
def umulExtendedV_msb (x y : UInt32) : UInt32 :=
  let value64 : UInt64 := x.toUInt64 * y.toUInt64
  (value64 >>> 32).toUInt32
def umulExtendedV_lsb (x y : UInt32) : UInt32 :=
  let value64 : UInt64 := x.toUInt64 * y.toUInt64
  value64.toUInt32

/-- imulExtended(int,int,int&,int&) (l.230-236) -/
def imulExtended_msb (x y : Int32) : Int32 :=
  let value64 : Int64 := x.toInt64 * y.toInt64
  (value64 >>> 32).toInt32
def imulExtended_lsb (x y : Int32) : Int32 :=
  let value64 : Int64 := x.toInt64 * y.toInt64
  value64.toInt32
/-- one component of imulExtended(vec…) (l.238-244): `lsb = vec<L,int,Q>(Value64 & 0xFFFFFFFF)`,
    `msb = vec<L,int,Q>((Value64 >> 32) & 0xFFFFFFFF)` -/
def imulExtendedV_msb (x y : Int32) : Int32 :=
  let value64 : Int64 := x.toInt64 * y.toInt64
  ((value64 >>> 32) &&& 0xFFFFFFFF).toInt32
def imulExtendedV_lsb (x y : Int32) : Int32 :=
  let value64 : Int64 := x.toInt64 * y.toInt64
  (value64 &&& 0xFFFFFFFF).toInt32
'''

out = [HEADER, '/-! # Model -/\n']
for w in (8, 16, 32, 64):
    out.append(block(w))
for w in (8, 16, 32, 64):
    out.append(block2(w))
out.append(CARRY)
out.append('end GlmVerif.C05\n')
sys.stdout.write('\n'.join(out))
