#!/usr/bin/env python3
"""One-off text template for the per-type theorem blocks of lean/GlmVerif/Props/C05/{Count,Field,Dec8}.lean
(eight element types, same statement shape).  Usage: gen_props.py <outdir>"""
import sys, os
out = sys.argv[1]
W = (8, 16, 32, 64)
HEAD = '''/-
  C05 — %s
  Generated once from h/C05/gen_props.py (same statement for each of the eight element types); reviewed artefact.
  Every theorem: model (Hand/C05.lean, mirrors glm/detail/func_integer.inl) = executable specification (Spec.*,
  written from the GLSL text), for ALL inputs of the type.  `bv_decide` theorems are whitelisted in checks/c05.py.
-/
import Std.Tactic.BVDecide
import GlmVerif.Hand.C05
namespace GlmVerif.C05
open Spec
set_option linter.unusedSimpArgs false

'''
WL = '''theorem %s_w8 : Nat.toUInt64 8 = 8 := rfl
theorem %s_w16 : Nat.toUInt64 16 = 16 := rfl
theorem %s_w32 : Nat.toUInt64 32 = 32 := rfl
theorem %s_w64 : Nat.toUInt64 64 = 64 := rfl

'''
def raw(S, w, v):   # raw bits of v : T as UInt64
    if S == 'U': return '%s.toUInt64' % v if w < 64 else v
    return ('%s.toUInt%d.toUInt64' % (v, w)) if w < 64 else '%s.toUInt64' % v
def ty(S, w): return ('UInt%d' if S == 'U' else 'Int%d') % w

# ---------------------------------------------------------------- Count.lean
o = [HEAD % 'bitCount, findLSB, findMSB: model = specification', WL % (('cnt',) * 4)]
ws = 'cnt_w8, cnt_w16, cnt_w32, cnt_w64'
for w in W:
    for S in 'UI':
        T = ty(S, w); r = raw(S, w, 'v'); sg = 'true' if S == 'I' else 'false'
        o.append('/-- bitCount<%s>: the SWAR ladder returns the number of set bits -/' % T)
        o.append('theorem bitCount_%s%d_ok (v : %s) : bitCount_%s%d v = Spec.bitCount %d %s := by' % (S, w, T, S, w, w, r))
        o.append('  simp only [bitCount_I%d, bitCount_U%d, bcStep%d, Spec.bitCount, countFrom, bit]' % (w, w, w))
        o.append('  bv_decide\n')
        bcw = 32 if w < 32 else w
        o.append('/-- findLSB<%s>: position of the lowest set bit, -1 for 0 -/' % T)
        o.append('theorem findLSB_%s%d_ok (v : %s) : findLSB_%s%d v = Spec.findLSB %d %s := by' % (S, w, T, S, w, w, r))
        o.append('  simp only [findLSB_%s%d, bitCount_I%d, bitCount_U%d, bcStep%d, Spec.findLSB, lowestFrom, bit]' % (S, w, bcw, bcw, bcw))
        o.append('  bv_decide\n')
        o.append('/-- findMSB<%s>: %s -/' % (T, 'highest set bit of a non-negative value, highest clear bit of a negative one, -1 for 0 and -1' if S == 'I' else 'position of the highest set bit, -1 for 0'))
        o.append('theorem findMSB_%s%d_ok (v : %s) : findMSB_%s%d v = Spec.findMSB %s %d %s := by' % (S, w, T, S, w, sg, w, r))
        o.append('  simp only [findMSB_%s%d, findMSBvec_%s%d, msbStep%s%d, bitCount_I%d, bitCount_U%d, bcStep%d, Spec.findMSB, highestBelow, bit, %s,' % (S, w, S, w, S, w, w, w, w, ws))
        o.append('    Bool.true_and, Bool.false_and]')
        o.append('  bv_decide\n')
o.append('end GlmVerif.C05\n')
open(os.path.join(out, 'Count.lean'), 'w').write('\n'.join(o))

# ---------------------------------------------------------------- Field.lean
o = [HEAD % 'bitfieldReverse, bitfieldExtract, bitfieldInsert: model = specification on the documented domain', WL % (('fld',) * 4)]
ws = 'fld_w8, fld_w16, fld_w32, fld_w64'
for w in W:
    for S in 'UI':
        T = ty(S, w); sg = 'true' if S == 'I' else 'false'
        ob = 'o.toUInt32.toUInt64 b.toUInt32.toUInt64'
        o.append('/-- bitfieldReverse<%s>: bit n of the result is bit %d-n of the argument -/' % (T, w - 1))
        o.append('theorem bitfieldReverse_%s%d_ok (v : %s) : %s = Spec.reverse %d %s := by' % (S, w, T, raw(S, w, '(bitfieldReverse_%s%d v)' % (S, w)), w, raw(S, w, 'v')))
        o.append('  simp only [bitfieldReverse_I%d, bitfieldReverse_U%d, revStep%d, Spec.reverse, reverseFrom, bit, %s]' % (w, w, w, ws))
        o.append('  bv_decide\n')
        o.append('/-- bitfieldExtract<%s>: for 0 ≤ offset, 0 ≤ bits, offset+bits ≤ %d the result is the field, %s -/' % (T, w, 'sign-extended (0 for bits = 0)' if S == 'I' else 'zero-extended'))
        o.append('theorem bitfieldExtract_%s%d_ok (v : %s) (o b : Int32) (h : inDomain %d o b = true) :' % (S, w, T, w))
        o.append('    %s = Spec.extract %s %d %s %s := by' % (raw(S, w, '(bitfieldExtract_%s%d v o b)' % (S, w)), sg, w, raw(S, w, 'v'), ob))
        o.append('  simp only [inDomain] at h')
        o.append('  simp only [bitfieldExtract_%s%d, Spec.extract, extractFrom, extractBit, bit, Bool.true_and, Bool.false_and]' % (S, w))
        o.append('  bv_decide\n')
        o.append('/-- bitfieldInsert<%s>: on the same domain, bits [offset, offset+bits) come from insert, the others from base -/' % T)
        o.append('theorem bitfieldInsert_%s%d_ok (x y : %s) (o b : Int32) (h : inDomain %d o b = true) :' % (S, w, T, w))
        o.append('    %s = Spec.insert %d %s %s %s := by' % (raw(S, w, '(bitfieldInsert_%s%d x y o b)' % (S, w)), w, raw(S, w, 'x'), raw(S, w, 'y'), ob))
        o.append('  simp only [inDomain] at h')
        o.append('  simp only [bitfieldInsert_I%d, bitfieldInsert_U%d, mask_U%d, Spec.insert, insertFrom, insertBit, bit]' % (w, w, w))
        o.append('  bv_decide\n')
    # shift counts stay below the width on the domain (no undefined shift is executed)
    U = 'UInt%d' % w; I = 'Int%d' % w
    if w < 32:
        cl = '(%d - o - b).to%s.to%s' % (w, I, U); cr = '(%d - b).to%s.to%s' % (w, I, U); co = 'o.to%s.to%s' % (I, U)
    elif w == 32:
        cl = '(32 - o - b).toUInt32'; cr = '(32 - b).toUInt32'; co = 'o.toUInt32'
    else:
        cl = '(64 - o - b).toInt64.toUInt64'; cr = '(64 - b).toInt64.toUInt64'; co = 'o.toInt64.toUInt64'
    o.append('/-- on the domain, with bits > 0 (bits = 0 returns early), every shift count of bitfieldExtract/Insert<%d-bit> is below %d:' % (w, w))
    o.append('    no shift by the full width (undefined behaviour in C++) is executed -/')
    o.append('theorem field%d_shift_in_range (o b : Int32) (h : inDomain %d o b = true) (hb : (b ≤ 0) = false) :' % (w, w))
    o.append('    (%s < %d ∧ %s < %d ∧ %s < %d) := by' % (cl, w, cr, w, co, w))
    o.append('  simp only [inDomain] at h')
    o.append('  bv_decide\n')
o.append('end GlmVerif.C05\n')
open(os.path.join(out, 'Field.lean'), 'w').write('\n'.join(o))

# ---------------------------------------------------------------- Dec8.lean
H8 = '''/-
  C05 — the 8-bit instances once more by kernel evaluation (`decide +kernel`: no SAT certificate, no extra axiom):
  all 256 values of int8_t / uint8_t, and for bitfieldExtract all 45 (offset, bits) pairs of the domain.
-/
import GlmVerif.Hand.C05
namespace GlmVerif.C05
open Spec

'''
for S in 'UI':
    o = [H8]
    T = ty(S, 8); sg = 'true' if S == 'I' else 'false'
    v = '(%s.ofBitVec v)' % T; r = '(UInt8.ofBitVec v).toUInt64'
    o.append('theorem bitCount_%s8_dec : ∀ v : BitVec 8, bitCount_%s8 %s = Spec.bitCount 8 %s := by decide +kernel' % (S, S, v, r))
    o.append('theorem findLSB_%s8_dec : ∀ v : BitVec 8, findLSB_%s8 %s = Spec.findLSB 8 %s := by decide +kernel' % (S, S, v, r))
    o.append('theorem findMSB_%s8_dec : ∀ v : BitVec 8, findMSB_%s8 %s = Spec.findMSB %s 8 %s := by decide +kernel' % (S, S, v, sg, r))
    o.append('theorem bitfieldReverse_%s8_dec : ∀ v : BitVec 8, %s = Spec.reverse 8 %s := by decide +kernel' % (S, raw(S, 8, '(bitfieldReverse_%s8 %s)' % (S, v)), r))
    o.append('theorem bitfieldExtract_%s8_dec : ∀ v : BitVec 8, ∀ o b : Fin 9, o.val + b.val ≤ 8 →' % S)
    o.append('    %s = Spec.extract %s 8 %s (UInt64.ofNat o.val) (UInt64.ofNat b.val) := by decide +kernel\n' % (raw(S, 8, '(bitfieldExtract_%s8 %s (Int32.ofNat o.val) (Int32.ofNat b.val))' % (S, v)), sg, r))
    o.append('end GlmVerif.C05\n')
    open(os.path.join(out, 'Dec8%s.lean' % S), 'w').write('\n'.join(o))
