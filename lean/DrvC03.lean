import GlmVerif.Spec.C03Ops
import GlmVerif.Core.Exec
/-!
Native driver of property C03 (Mathlib-free).

  drv_c03 scan <merged.units>
      evaluates the very checks the kernel evaluates (`Spec.C03.pairOK`) for every operation of the table and every
      distinct SIMD variant present in the file, so that a failing `chunk_k_ok` can be pinned on operations:
        PAIR <op> <key> <mode> OK | FAIL <first failing output> | SKIP | MISSING
        SUMMARY ops=… pairs=… ok=… fail=… skip=… missing=…
-/
open Glm Glm.Spec.C03

def unitKey (n : String) : Option (String × Nat) :=
  match (n.splitOn "_").reverse with
  | k :: rest => match k.toNat? with
    | some kk => some ("_".intercalate rest.reverse, kk)
    | none => none
  | [] => none

def modeName : Mode → String
  | .ident => "ident" | .field => "field" | .sqrtsq => "sqrtsq"

def firstBad (m : Mode) (p s : Glm.Unit) : Nat :=
  ((List.range p.outs.length).find? fun j => !(if p.ty == .r then outOKR m p s j else (m == .ident && outOKI p s j))).getD 0

def main (args : List String) : IO UInt32 := do
  match args with
  | ["scan", path] =>
    let text ← IO.FS.readFile path
    match parseUnits text with
    | .error e => IO.eprintln s!"parse error: {e}"; return 2
    | .ok us =>
      let mut nOk := 0; let mut nFail := 0; let mut nSkip := 0; let mut nMiss := 0; let mut nPairs := 0
      for (op, m) in ops do
        let mine := us.toList.filterMap fun u => match unitKey u.name with
          | some (o, k) => if o == op then some (k, u) else none
          | none => none
        match mine.find? (·.1 == 0) with
        | none => IO.println s!"PAIR {op} 0 {modeName m} MISSING"; nMiss := nMiss + 1
        | some (_, p) =>
          let vars := mine.filter (·.1 != 0)
          if vars.isEmpty then
            IO.println s!"PAIR {op} - {modeName m} MISSING"; nMiss := nMiss + 1
          for (k, s) in vars do
            nPairs := nPairs + 1
            if skipped.contains (op, k) then
              IO.println s!"PAIR {op} {k} {modeName m} SKIP"; nSkip := nSkip + 1
            else if pairOK m p s then
              IO.println s!"PAIR {op} {k} {modeName m} OK"; nOk := nOk + 1
            else
              IO.println s!"PAIR {op} {k} {modeName m} FAIL {firstBad m p s}"; nFail := nFail + 1
      IO.println s!"SUMMARY ops={ops.length} pairs={nPairs} ok={nOk} fail={nFail} skip={nSkip} missing={nMiss}"
      return 0
  | _ => IO.eprintln "usage: drv_c03 scan <merged.units>"; return 2
