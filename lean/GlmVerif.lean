-- root of the library: everything `lake build` (and MANIFEST.setup_cmd) checks
import GlmVerif.Props.C01
import GlmVerif.Props.C02
import GlmVerif.Props.C04
import GlmVerif.Props.C05
import GlmVerif.Props.C06
import GlmVerif.Props.C07
import GlmVerif.Props.C08
import GlmVerif.Props.C09
import GlmVerif.Props.C10
import GlmVerif.Props.C11
import GlmVerif.Props.C12
import GlmVerif.Props.C13
import GlmVerif.Props.C14
import GlmVerif.Props.C16
import GlmVerif.Props.C17
import GlmVerif.Props.C19
