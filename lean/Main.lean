import GlmVerif.Core.Exec
import GlmVerif.Spec.All
import GlmVerif.Core.Layout
import Std.Data.HashMap
/-!
Native driver (Mathlib-free).

  driver corr <file.units> <file.run>
      translation validation of the tracer: evaluate every generated tree with the SAME
      `E.eval` the theorems are about, at Float32/Float, on the inputs the C++ harness fed
      to the real glm, and compare bit patterns with what glm returned.
  driver spec <prop> <file.units> <seed>
      run the property's family table checks natively; for every unit/component that no
      longer meets its spec, search a concrete input on which the generated model and the
      specification differ (printed as `CEX …`, replayed on the real glm by check.py).
-/
open Glm

def bitsEq32 (a b : Float32) : Bool := a.toBits == b.toBits || (a.isNaN && b.isNaN)
def bitsEq64 (a b : Float) : Bool := a.toBits == b.toBits || (a.isNaN && b.isNaN)

structure CorrStats where
  lines : Nat := 0
  comps : Nat := 0
  mismatches : Nat := 0
  skipped : Nat := 0
  nontrivial : Nat := 0
  specChecked : Nat := 0
  specMismatch : Nat := 0
  msgs : Array String := #[]

def mkEnv {α} [Inhabited α] (xs : Array α) : Nat → α := fun i => xs.getD i default

def isSmallInt (x : Float) : Bool := x == x.floor && x.abs ≤ 64.0

/-- spec lookup by unit name: family name + keys -/
def specOf (fams : List Family) (name : String) : Option (Family × List Nat) :=
  fams.findSome? fun f => f.keys.findSome? fun ks => if f.unitName ks == name then some (f, ks) else none

def corr (prop unitsPath runPath : String) : IO UInt32 := do
  let text ← IO.FS.readFile unitsPath
  let units ← match parseUnits text with
    | .ok u => pure u
    | .error e => IO.eprintln s!"parse error: {e}"; return 2
  let mut tbl : Std.HashMap String Glm.Unit := {}
  for u in units do tbl := tbl.insert u.name u
  let fams := Spec.familiesOf prop
  let mut specTbl : Std.HashMap String (Family × List Nat) := {}
  for f in fams do for ks in f.keys do specTbl := specTbl.insert (f.unitName ks) (f, ks)
  let mut unsup : Std.HashMap String Bool := {}
  for u in units do unsup := unsup.insert u.name (u.outs.any Tree.execUnsupported)
  let mut st : CorrStats := {}
  let h ← IO.FS.Handle.mk runPath .read
  let mut perUnit : Std.HashMap String Nat := {}
  repeat
    let line ← h.getLine
    if line.isEmpty then break
    match words line with
    | "R" :: name :: ty :: rest =>
      let ins := (rest.takeWhile (· ≠ "->")).toArray.map (·.toNat?.getD 0)
      let outs := (rest.dropWhile (· ≠ "->")).drop 1 |>.toArray.map (·.toNat?.getD 0)
      st := { st with lines := st.lines + 1 }
      match tbl[name]? with
      | none => st := { st with skipped := st.skipped + 1 }
      | some u =>
        if unsup.getD name false || u.outs.isEmpty then
          st := { st with skipped := st.skipped + 1 }
        else
          perUnit := perUnit.insert name (perUnit.getD name 0 + 1)
          -- std::fmin/std::fmax may return either zero for (+0, −0) (C99 7.12.12); the symbolic overload picks one of them
          let zeroLoose := ["fmin", "fmax", "fclamp"].any fun p => (name.splitOn p).length > 1
          if ty == "i32" || ty == "u32" then
            -- integer units: exact comparison of machine integers
            let mut j := 0
            let mut nontriv := false
            for t in u.outs do
              let g := (outs.getD j 0).toUInt32
              let m : UInt32 := if ty == "i32" then (t.eval i32Ops (mkEnv (ins.map fun b => b.toUInt32.toInt32))).toUInt32
                                else t.eval u32Ops (mkEnv (ins.map fun b => b.toUInt32))
              st := { st with comps := st.comps + 1 }
              if m != g then
                st := { st with mismatches := st.mismatches + 1 }
                if st.msgs.size < 20 then
                  st := { st with msgs := st.msgs.push s!"MISMATCH {name} {ty} comp {j} in {ins} model {m} glm {g}" }
              if !(ins.any (· == (outs.getD j 0))) && (outs.getD j 0) != 0 then nontriv := true
              j := j + 1
            if nontriv then st := { st with nontrivial := st.nontrivial + 1 }
          else if ty == "f32" then
            let env := mkEnv (ins.map fun b => Float32.ofBits b.toUInt32)
            let mut j := 0
            let mut nontriv := false
            for t in u.outs do
              let m := t.eval f32Ops env
              let g := Float32.ofBits (outs.getD j 0).toUInt32
              st := { st with comps := st.comps + 1 }
              if !(bitsEq32 m g || (zeroLoose && m == 0 && g == 0)) then
                st := { st with mismatches := st.mismatches + 1 }
                if st.msgs.size < 20 then
                  st := { st with msgs := st.msgs.push s!"MISMATCH {name} f32 comp {j} in {ins} model {m.toBits} glm {g.toBits}" }
              if !(ins.any (· == (outs.getD j 0))) && (outs.getD j 0) != 0 then nontriv := true
              j := j + 1
            if nontriv then st := { st with nontrivial := st.nontrivial + 1 }
          else
            let xs := ins.map fun b => Float.ofBits b.toUInt64
            let env := mkEnv xs
            let mut j := 0
            let mut nontriv := false
            -- direct code-vs-spec comparison on small-integer inputs (exact in double)
            let sp := if xs.all isSmallInt then specTbl[name]? else none
            for t in u.outs do
              let m := t.eval f64Ops env
              let g := Float.ofBits (outs.getD j 0).toUInt64
              st := { st with comps := st.comps + 1 }
              if !(bitsEq64 m g || (zeroLoose && m == 0 && g == 0)) then
                st := { st with mismatches := st.mismatches + 1 }
                if st.msgs.size < 20 then
                  st := { st with msgs := st.msgs.push s!"MISMATCH {name} f64 comp {j} in {ins} model {m.toBits} glm {g.toBits}" }
              match sp with
              | some (f, ks) =>
                -- only where double arithmetic is exact: integer inputs, spec a polynomial without calls
                if (f.kind == .poly || f.kind == .syn) && !f.treeMode && (f.spec ks j).isPoly then
                  let s := (f.spec ks j).eval f64Ops env
                  let g := if f.isPlain then g else (f.post ks (fun i => .lit (Float.ofBits (outs.getD i 0).toUInt64).toInt64.toInt 1) j).eval f64Ops env
                  st := { st with specChecked := st.specChecked + 1 }
                  if !(s == g) then
                    st := { st with specMismatch := st.specMismatch + 1 }
                    if st.msgs.size < 20 then
                      st := { st with msgs := st.msgs.push s!"SPECMISMATCH {name} f64 comp {j} in {ins} spec {s.toBits} glm {g.toBits}" }
              | none => pure ()
              if !(ins.any (· == (outs.getD j 0))) && (outs.getD j 0) != 0 then nontriv := true
              j := j + 1
            if nontriv then st := { st with nontrivial := st.nontrivial + 1 }
    | _ => pure ()
  for m in st.msgs do IO.println m
  IO.println s!"CORR lines={st.lines} comps={st.comps} mismatches={st.mismatches} skipped={st.skipped} nontrivial={st.nontrivial} units={perUnit.size} speccmp={st.specChecked} specmismatch={st.specMismatch}"
  return (if st.mismatches == 0 && st.specMismatch == 0 then 0 else 1)

/-- splitmix-style generator for the search -/
def nextRand (s : UInt64) : UInt64 × UInt64 :=
  let s := s + 0x9E3779B97F4A7C15
  let z := (s ^^^ (s >>> 30)) * 0xBF58476D1CE4E5B9
  let z := (z ^^^ (z >>> 27)) * 0x94D049BB133111EB
  (s, z ^^^ (z >>> 31))

/-- candidate inputs: one-hot vectors, all-ones, counting, then seeded small integers (non-zero for `frac`) -/
def candidates (n : Nat) (nonzero : Bool) (seed : UInt64) (count : Nat) : Array (Array Float) := Id.run do
  let mut out : Array (Array Float) := #[]
  let base : Float := if nonzero then 1.0 else 0.0
  for i in [0:n] do
    out := out.push ((Array.range n).map fun k => if k == i then 2.0 else base)
  out := out.push ((Array.range n).map fun k => (k + 1).toFloat)
  if !nonzero then
    -- special values: signed zeros, NaN, infinities in every position against ordinary neighbours
    let sp : Array Float := #[0.0, -0.0, 0.0 / 0.0, 1.0 / 0.0, -1.0 / 0.0, 1.0, -1.0]
    for a in sp do
      for b in sp do
        out := out.push ((Array.range n).map fun k => if k % 2 == 0 then a else b)
  out := out.push ((Array.range n).map fun k => ((k * 7 + 3) % 11 + 1).toFloat)
  let mut s := seed
  for _ in [0:count] do
    let mut xs : Array Float := #[]
    for _ in [0:n] do
      let (s', r) := nextRand s
      s := s'
      let vI : Int := (r % 15).toNat - 7
      let vF := Float.ofInt vI
      xs := xs.push (if nonzero && vF == 0.0 then 3.0 else vF)
    out := out.push xs
  -- seeded values of other magnitudes: unit-interval fractions, a range that covers angles in degrees, mixed
  for round in [0:count] do
    let mut xs : Array Float := #[]
    for k in [0:n] do
      let (s', r) := nextRand s
      s := s'
      let u := (r % 1000003).toNat.toFloat / 1000003.0
      let mode := (round + (if round % 3 == 2 then k else 0)) % 3
      let vF := if mode == 0 then u else if mode == 1 then (u - 0.25) * 480.0 else (u - 0.5) * 8.0
      xs := xs.push (if nonzero && vF == 0.0 then 0.5 else vF)
    out := out.push xs
  return out

/-- "different result": different bit patterns, NaNs identified (so +0 vs -0 counts, as C01 demands) -/
def differs (m s : Float) : Bool := m.toBits != s.toBits && !(m.isNaN && s.isNaN)

def spec (prop unitsPath : String) (seed : UInt64) : IO UInt32 := do
  let text ← IO.FS.readFile unitsPath
  let units ← match parseUnits text with
    | .ok u => pure u
    | .error e => IO.eprintln s!"parse error: {e}"; return 2
  let mut tbl : Std.HashMap String Glm.Unit := {}
  for u in units do tbl := tbl.insert u.name u
  let look : String → List Nat → Glm.Unit := fun un ks =>
    let name := ks.foldl (fun s k => s ++ "_" ++ toString k) un
    tbl.getD name default
  let mut bad := 0
  let mut cex := 0
  let mut total := 0
  for f in Spec.familiesOf prop ++ Spec.refutedOf prop do
    for ks in f.keys do
      total := total + 1
      if !(f.okAt look ks) then
        bad := bad + 1
        let u := look f.unit ks
        let name := f.unitName ks
        let o := u.outE
        IO.println s!"FAIL {f.name} {name} kind={repr f.kind} outs={u.outs.length} expected={f.nRaw ks} decisionFree={u.leafOuts.isSome}"
        -- search a concrete input where model and spec differ
        let mut found := false
        for xs in candidates u.nIn (f.kind == .frac || f.kind == .fracMod) seed 2000 do
          if found then break
          let env := mkEnv xs
          for j in [0:f.nOut ks] do
            if found then break
            if !f.treeMode && !f.guard && f.compOK ks o j then continue
            let isInt := u.ty != .r
            let evI (t : Tree) : Float :=
              if u.ty == .u32 then (t.eval u32Ops (fun i => (Float.toUInt32 (xs.getD i 0.0 + 4294967296.0)))).toFloat
              else Float.ofInt (t.eval i32Ops (fun i => (xs.getD i 0.0).toInt32)).toInt
            let mT : Tree := if f.treeMode then u.out j else if u.leafOuts.isSome then .leaf (f.post ks o j) else u.out j
            let sT : Tree := if f.treeMode then f.specT ks j else .leaf (f.spec ks j)
            let m := if isInt then evI mT else mT.eval f64Ops env
            let s := if isInt then evI sT else sT.eval f64Ops env
            if isInt then
              if !(m == s) then
                found := true
                cex := cex + 1
                let toU (x : Float) : Nat := ((x.toInt64).toInt32).toUInt32.toNat
                IO.println s!"CEX {name} comp {j} in {xs.map toU} model {toU m} spec {toU s} fam {f.name} plain {f.isPlain || f.treeMode} int"
              continue
            let isFrac := f.kind == .frac || f.kind == .fracMod
            if (if f.treeMode || f.kind == .syn then differs m s else !(m == s) && !(m.isNaN && s.isNaN)) && !(isFrac && (m.isNaN || m.isInf || s.isNaN || s.isInf)) then
              found := true
              cex := cex + 1
              IO.println s!"CEX {name} comp {j} in {xs.map (·.toBits)} model {m.toBits} spec {s.toBits} fam {f.name} plain {f.isPlain || f.treeMode}"
        if !found then IO.println s!"NOCEX {name}"
  -- C01: vector overload vs renamed scalar overload
  if prop == "C01" then
    for f in Spec.C01.relFamilies do
      for m in f.masks do
        for L in f.lens do
          total := total + 1
          if !(f.okAt look m L) then
            bad := bad + 1
            let u := look f.vUnit [m, L]
            let s := (look f.sUnit []).out 0
            let name := s!"v_{f.fn}_{m}_{L}"
            IO.println s!"FAIL rel_{f.fn} {name} kind=vector-vs-scalar outs={u.outs.length} expected={L}"
            let mut found := false
            for xs in candidates u.nIn false seed 2000 do
              if found then break
              let env := mkEnv xs
              for i in [0:L] do
                if found then break
                let mv := (u.out i).eval f64Ops env
                let sv := (s.rename (Spec.C01.sigma m L i)).eval f64Ops env
                if differs mv sv then
                  found := true
                  cex := cex + 1
                  IO.println s!"CEX {name} comp {i} in {xs.map (·.toBits)} model {mv.toBits} spec {sv.toBits}"
            if !found then IO.println s!"NOCEX {name}"
  IO.println s!"SPEC prop={prop} units={total} failing={bad} cex={cex}"
  return (if bad == 0 then 0 else 1)

/-- replay helper: apply a family's `post` to the outputs the real glm returned (as extra variables
    1000+i) and compare with the specification:  driver postval <prop> <unit> <comp> <in bits…> -- <out bits…> -/
def postval (prop unit : String) (comp : Nat) (ins outs : Array Float) : IO UInt32 := do
  for f in Spec.familiesOf prop ++ Spec.refutedOf prop do
    for ks in f.keys do
      if f.unitName ks == unit && comp < f.nOut ks && !f.treeMode then
        let env : Nat → Float := fun i => if i ≥ 1000 then outs.getD (i - 1000) 0.0 else ins.getD i 0.0
        let g := (f.post ks (fun i => .var (1000 + i)) comp).eval f64Ops env
        let s := (f.spec ks comp).eval f64Ops env
        IO.println s!"POSTVAL {f.name} glm {g.toBits} spec {s.toBits}"
  return 0

/-- C16: evaluate the layout contract natively on the probe output and list the offending rows -/
def layout (rowsPath : String) : IO UInt32 := do
  let text ← IO.FS.readFile rowsPath
  let mut n := 0
  let mut bad := 0
  for line in text.splitOn "\n" do
    if line.startsWith "ROW" then
      match Glm.Layout.parseRow line with
      | some r =>
        n := n + 1
        if !r.ok then
          bad := bad + 1
          if bad ≤ 20 then IO.println s!"BADROW {line.drop 4}"
      | none => bad := bad + 1; IO.println s!"BADROW unparsable {line}"
    else if line.startsWith "FAIL" then
      bad := bad + 1; IO.println s!"BADROW probe {line}"
  IO.println s!"LAYOUT rows={n} bad={bad}"
  return (if bad == 0 then 0 else 1)

/-- C15: two traces (default configuration vs another) must be the same model: every unit, every output
    tree, compared structurally (derived `BEq`, after parsing — node numbering in the files is irrelevant) -/
def cfgeq (aPath bPath : String) : IO UInt32 := do
  let ua ← match parseUnits (← IO.FS.readFile aPath) with
    | .ok u => pure u
    | .error e => IO.eprintln s!"parse error: {e}"; return 2
  let ub ← match parseUnits (← IO.FS.readFile bPath) with
    | .ok u => pure u
    | .error e => IO.eprintln s!"parse error: {e}"; return 2
  let mut tb : Std.HashMap String Glm.Unit := {}
  for u in ub do tb := tb.insert u.name u
  let mut same := 0
  let mut diff := 0
  let mut missing := 0
  for u in ua do
    match tb[u.name]? with
    | none => missing := missing + 1; IO.println s!"CFGMISSING {u.name}"
    | some w =>
      if u.outs == w.outs && u.nIn == w.nIn && !u.outs.isEmpty then same := same + 1
      else
        diff := diff + 1
        let comps := (List.range (max u.outs.length w.outs.length)).filter fun j => u.out j != w.out j
        IO.println s!"CFGDIFF {u.name} comps {comps}"
  IO.println s!"CFGEQ units={ua.size} same={same} diff={diff} missing={missing}"
  return (if diff == 0 && missing == 0 then 0 else 1)

def main (args : List String) : IO UInt32 := do
  match args with
  | ["cfgeq", a, b] => cfgeq a b
  | ["layout", p] => layout p
  | "postval" :: prop :: unit :: comp :: rest =>
    let ins := (rest.takeWhile (· ≠ "--")).toArray.map fun t => Float.ofBits (t.toNat?.getD 0).toUInt64
    let outs := ((rest.dropWhile (· ≠ "--")).drop 1).toArray.map fun t => Float.ofBits (t.toNat?.getD 0).toUInt64
    postval prop unit (comp.toNat?.getD 0) ins outs
  | ["corr", prop, u, r] => corr prop u r
  | ["spec", prop, u, seed] => spec prop u (seed.toNat?.getD 0).toUInt64
  | _ => IO.eprintln "usage: driver corr <prop> <units> <run> | spec <prop> <units> <seed>"; return 2
