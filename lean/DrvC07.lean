import GlmVerif.Hand.C07
import Std.Data.HashSet
/-!
Native driver of property C07 (see checks/README.md, checks/c07.py).

  drv_c07 lines <file>          evaluate model and executable spec on every harness line
                                `op arg-bits… -> glm-result-bits…`; prints MISMATCH (model ≠ glm) and
                                SPECFAIL (glm's result violates the specification) lines and a CORR summary
  drv_c07 lattice               `LB k hash` for the 256 blocks of the rounding lattice (model side)
  drv_c07 sweep <first> <n>     `SB k hash` for blocks k = first … first+n-1 of 2^20 consecutive floats
  drv_c07 eval p1|u1 <bits>     one model evaluation (replay)
-/
open Glm.Hand.C07

def fnvStep (h : UInt64) (r : UInt64) : UInt64 := (h ^^^ r) * 0x100000001b3
def fnvInit : UInt64 := 0xcbf29ce484222325

/-- the 5 low-13-bit patterns of the rounding lattice -/
def latLow : Array UInt32 := #[0, 0x0FFF, 0x1000, 0x1001, 0x1FFF]

/-- hash of block k (2^20 consecutive patterns) and the number of non-trivial evaluations in it
(result bits neither zero nor numerically the input bits) -/
def sweepBlock (k : UInt32) : UInt64 × Nat := Id.run do
  let base : UInt32 := k <<< 20
  let mut h := fnvInit
  let mut nt := 0
  for i in [0:1048576] do
    let f := base + i.toUInt32
    let r := toFloat16 f
    h := fnvStep h r.toUInt64
    if r != 0 && r.toUInt32 != f then nt := nt + 1
  return (h, nt)

/-- lattice block k (0..255): prefixes k·2^11 … (k+1)·2^11−1, each with the 5 low patterns -/
def latBlock (k : UInt32) : UInt64 × Nat := Id.run do
  let mut h := fnvInit
  let mut nt := 0
  for p in [0:2048] do
    let pre : UInt32 := ((k <<< 11) + p.toUInt32) <<< 13
    for l in latLow do
      let f := pre ||| l
      let r := toFloat16 f
      h := fnvStep h r.toUInt64
      if r != 0 && r.toUInt32 != f then nt := nt + 1
  return (h, nt)

def parseNums (ws : List String) : Option (List Nat) := ws.mapM String.toNat?

structure Stat where
  lines : Nat := 0
  mism : Nat := 0
  specfail : Nat := 0
  nontrivial : Nat := 0
  ntP1off : Nat := 0
  ntOther : Nat := 0
  bad : Nat := 0
  nan : Nat := 0
  inf : Nat := 0
  zeroRes : Nat := 0
  subRes : Nat := 0
  tie : Nat := 0
  ovf : Nat := 0
  inexact : Nat := 0

def isTie (f : UInt32) : Bool :=
  -- exact tie between two halves: decided from the specification (both neighbours admissible)
  f32IsFinite f && (let r := toFloat16 f; (r &&& 0x7fff) != 0 && specF16 f r && specF16 f (r - 1) && f32Mag f < ovfThreshold)

/-- evaluate one line; returns (model results, spec verdict on glm's results, nontrivial) -/
def evalLine (op : String) (a r : Array Nat) : Option (Array Nat × Bool × Bool) :=
  let u32 (i : Nat) : UInt32 := (a[i]!).toUInt32
  let u16 (i : Nat) : UInt16 := (a[i]!).toUInt16
  let r16 (i : Nat) : UInt16 := (r[i]!).toUInt16
  let r32 (i : Nat) : UInt32 := (r[i]!).toUInt32
  match op with
  | "p1" => if a.size == 1 && r.size == 1 then
      some (#[(packHalf1x16 (u32 0)).toNat], specF16 (u32 0) (r16 0), r[0]! != 0 && r[0]! != a[0]!) else none
  | "u1" => if a.size == 1 && r.size == 1 then
      some (#[(unpackHalf1x16 (u16 0)).toNat], specF32 (u16 0) (r32 0), r[0]! != 0 && r[0]! != a[0]!) else none
  | "rt" => if a.size == 1 && r.size == 1 then
      some (#[(packHalf1x16 (unpackHalf1x16 (u16 0))).toNat], r[0]! == a[0]!, false) else none
  | "p2" => if a.size == 2 && r.size == 1 then
      let v := r32 0
      some (#[(packHalf2x16 (u32 0) (u32 1)).toNat],
            specF16 (u32 0) v.toUInt16 && specF16 (u32 1) (v >>> 16).toUInt16, r[0]! != 0) else none
  | "u2" => if a.size == 1 && r.size == 2 then
      let v := u32 0
      some (#[(unpackHalf2x16_x v).toNat, (unpackHalf2x16_y v).toNat],
            specF32 v.toUInt16 (r32 0) && specF32 (v >>> 16).toUInt16 (r32 1), r[0]! != 0 || r[1]! != 0) else none
  | "p4" => if a.size == 4 && r.size == 1 then
      let v := (r[0]!).toUInt64
      some (#[(packHalf4x16 (u32 0) (u32 1) (u32 2) (u32 3)).toNat],
            specF16 (u32 0) v.toUInt16 && specF16 (u32 1) (v >>> 16).toUInt16 &&
            specF16 (u32 2) (v >>> 32).toUInt16 && specF16 (u32 3) (v >>> 48).toUInt16, r[0]! != 0) else none
  | "u4" => if a.size == 1 && r.size == 4 then
      let v := (a[0]!).toUInt64
      some (#[(unpackHalf4x16_k 0 v).toNat, (unpackHalf4x16_k 1 v).toNat, (unpackHalf4x16_k 2 v).toNat, (unpackHalf4x16_k 3 v).toNat],
            specF32 v.toUInt16 (r32 0) && specF32 (v >>> 16).toUInt16 (r32 1) &&
            specF32 (v >>> 32).toUInt16 (r32 2) && specF32 (v >>> 48).toUInt16 (r32 3), r.any (· != 0)) else none
  | "pv" => if a.size == r.size && a.size ≥ 1 && a.size ≤ 4 then
      let m := packHalfV (a.map Nat.toUInt32)
      some (m.map UInt16.toNat, (List.range a.size).all (fun i => specF16 (u32 i) (r16 i)), r.any (· != 0)) else none
  | "uv" => if a.size == r.size && a.size ≥ 1 && a.size ≤ 4 then
      let m := unpackHalfV (a.map Nat.toUInt16)
      some (m.map UInt32.toNat, (List.range a.size).all (fun i => specF32 (u16 i) (r32 i)), r.any (· != 0)) else none
  | _ => none

def runLines (path : String) : IO UInt32 := do
  let h ← IO.FS.Handle.mk path IO.FS.Mode.read
  let mut st : Stat := {}
  let mut seen : Std.HashSet String := {}
  repeat
    let ln ← h.getLine
    if ln.isEmpty then break
    let ln := (ln.trimAsciiEnd).toString
    if ln.isEmpty then continue
    let ws := ln.splitOn " " |>.filter (· != "")
    match ws with
    | op :: rest =>
      let (as, rs) := rest.span (· != "->")
      match parseNums as, parseNums (rs.drop 1) with
      | some a, some r =>
        match evalLine op a.toArray r.toArray with
        | some (m, ok, nt) =>
          st := { st with lines := st.lines + 1 }
          if m != r.toArray then
            st := { st with mism := st.mism + 1 }
            if st.mism ≤ 20 then IO.println s!"MISMATCH {ln} model {" ".intercalate (m.toList.map toString)}"
          if !ok then
            st := { st with specfail := st.specfail + 1 }
            if st.specfail ≤ 20 then IO.println s!"SPECFAIL {ln}"
          let onLattice := op == "p1" && latLow.contains ((a[0]!).toUInt32 &&& 0x1fff)
          if nt && op == "p1" && !onLattice then st := { st with ntP1off := st.ntP1off + 1 - (if seen.contains (op ++ " " ++ " ".intercalate as) then 1 else 0) }
          if nt && op != "p1" then st := { st with ntOther := st.ntOther + 1 - (if seen.contains (op ++ " " ++ " ".intercalate as) then 1 else 0) }
          if nt then
            let key := op ++ " " ++ " ".intercalate as
            if !seen.contains key then
              seen := seen.insert key
              st := { st with nontrivial := st.nontrivial + 1 }
          if op == "p1" then
            let f := (a[0]!).toUInt32
            let rr := (r[0]!).toUInt16
            if f32IsNaN f then st := { st with nan := st.nan + 1 }
            else if f32IsInf f then st := { st with inf := st.inf + 1 }
            else
              if (rr &&& 0x7fff) == 0 then st := { st with zeroRes := st.zeroRes + 1 }
              else if (rr &&& 0x7c00) == 0 then st := { st with subRes := st.subRes + 1 }
              else if (rr &&& 0x7fff) == 0x7c00 then st := { st with ovf := st.ovf + 1 }
              if (f &&& 0x1fff) != 0 then st := { st with inexact := st.inexact + 1 }
              if isTie f then st := { st with tie := st.tie + 1 }
        | none => st := { st with bad := st.bad + 1 }
      | _, _ => st := { st with bad := st.bad + 1 }
    | [] => pure ()
  IO.println s!"CORR lines={st.lines} mismatches={st.mism} specfail={st.specfail} nontrivial={st.nontrivial} nontrivial_p1_off_lattice={st.ntP1off} nontrivial_not_p1={st.ntOther} bad={st.bad}"
  IO.println s!"CLASS p1_nan={st.nan} p1_inf={st.inf} p1_zero_result={st.zeroRes} p1_subnormal_result={st.subRes} p1_overflow_to_inf={st.ovf} p1_low_bits_nonzero={st.inexact} p1_exact_tie={st.tie}"
  return 0

def main (args : List String) : IO UInt32 := do
  match args with
  | ["lines", path] => runLines path
  | ["lattice"] =>
    for k in [0:256] do
      let (h, nt) := latBlock k.toUInt32
      IO.println s!"LB {k} {h} {nt}"
    return 0
  | ["sweep", first, n] =>
    match first.toNat?, n.toNat? with
    | some f, some n =>
      for k in [f:f+n] do
        let (h, nt) := sweepBlock k.toUInt32
        IO.println s!"SB {k} {h} {nt}"
      return 0
    | _, _ => IO.eprintln "bad args"; return 2
  | ["eval", "p1", x] =>
    match x.toNat? with
    | some v => IO.println s!"{toFloat16 v.toUInt32} spec_accepts_model={specF16 v.toUInt32 (toFloat16 v.toUInt32)}"; return 0
    | none => return 2
  | ["eval", "u1", x] =>
    match x.toNat? with
    | some v => IO.println s!"{toFloat32 v.toUInt16}"; return 0
    | none => return 2
  | ["spec", "p1", x, r] =>
    match x.toNat?, r.toNat? with
    | some v, some r => IO.println s!"{specF16 v.toUInt32 r.toUInt16}"; return 0
    | _, _ => return 2
  | _ => IO.eprintln "usage: drv_c07 lines <file> | lattice | sweep <first> <n> | eval p1|u1 <bits> | spec p1 <f> <r>"; return 2
