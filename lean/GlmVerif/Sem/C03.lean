import GlmVerif.Sem.TreeEqv
import GlmVerif.Spec.C03
/-!
Soundness of the C03 comparison (`Spec/C03.lean`): what a passed `outOKR` / `outOKI` entry means.

* `LinLike o`   — `α` is a commutative ring **and** a linear order (no compatibility assumed: covers ℤ/2^32 with the
  signed or unsigned order as well as ordered fields); `+ - * neg` and integer literals are the ring's, comparisons
  decide the order, small literals are ordered as integers, `& | ^` are commutative.
* real-typed units: `RealSimdLike o` = ordered field + `abs a = |a|` as a decision + `fma a b c = a*b + c`.
* integer units: `IntSimdLike o` = `LinLike` + the three bit facts the pre-pass uses.
-/
namespace Glm
open Glm.Spec.C03

section lin
variable {α : Type} [CommRing α] [LinearOrder α]

/-- `LinLike` + commutativity of the bitwise operations (used by `identEq`) -/
structure LinCommLike (o : Ops α) : Prop extends LinLike o where
  band_comm : ∀ a b, o.band a b = o.band b a
  bor_comm : ∀ a b, o.bor a b = o.bor b a
  bxor_comm : ∀ a b, o.bxor a b = o.bxor b a

variable {o : Ops α}

/-- the same expression up to the order of the operands of commutative operations has the same value -/
theorem identEq_sound (ho : LinCommLike o) (env : Nat → α) (a b : E) (h : identEq a b = true) :
    a.eval o env = b.eval o env := by
  have hr := ho.toLinLike.toRingLike
  induction a generalizing b with
  | add a1 a2 ih1 ih2 =>
    cases b <;> try (simp only [identEq, beq_iff_eq] at h; rw [h])
    rename_i b1 b2
    simp only [identEq, Bool.or_eq_true, Bool.and_eq_true] at h
    simp only [E.eval, hr.add]
    rcases h with h | h
    · rw [ih1 _ h.1, ih2 _ h.2]
    · rw [ih1 _ h.1, ih2 _ h.2, add_comm]
  | mul a1 a2 ih1 ih2 =>
    cases b <;> try (simp only [identEq, beq_iff_eq] at h; rw [h])
    rename_i b1 b2
    simp only [identEq, Bool.or_eq_true, Bool.and_eq_true] at h
    simp only [E.eval, hr.mul]
    rcases h with h | h
    · rw [ih1 _ h.1, ih2 _ h.2]
    · rw [ih1 _ h.1, ih2 _ h.2, mul_comm]
  | band a1 a2 ih1 ih2 =>
    cases b <;> try (simp only [identEq, beq_iff_eq] at h; rw [h])
    rename_i b1 b2
    simp only [identEq, Bool.or_eq_true, Bool.and_eq_true] at h
    simp only [E.eval]
    rcases h with h | h
    · rw [ih1 _ h.1, ih2 _ h.2]
    · rw [ih1 _ h.1, ih2 _ h.2, ho.band_comm]
  | bor a1 a2 ih1 ih2 =>
    cases b <;> try (simp only [identEq, beq_iff_eq] at h; rw [h])
    rename_i b1 b2
    simp only [identEq, Bool.or_eq_true, Bool.and_eq_true] at h
    simp only [E.eval]
    rcases h with h | h
    · rw [ih1 _ h.1, ih2 _ h.2]
    · rw [ih1 _ h.1, ih2 _ h.2, ho.bor_comm]
  | bxor a1 a2 ih1 ih2 =>
    cases b <;> try (simp only [identEq, beq_iff_eq] at h; rw [h])
    rename_i b1 b2
    simp only [identEq, Bool.or_eq_true, Bool.and_eq_true] at h
    simp only [E.eval]
    rcases h with h | h
    · rw [ih1 _ h.1, ih2 _ h.2]
    · rw [ih1 _ h.1, ih2 _ h.2, ho.bxor_comm]
  | sub a1 a2 ih1 ih2 | div a1 a2 ih1 ih2 | shl a1 a2 ih1 ih2 | shr a1 a2 ih1 ih2 | imod a1 a2 ih1 ih2 =>
    cases b <;> try (simp only [identEq, beq_iff_eq] at h; rw [h])
    rename_i b1 b2
    simp only [identEq, Bool.and_eq_true] at h
    simp only [E.eval, ih1 _ h.1, ih2 _ h.2]
  | neg a ih | bnot a ih =>
    cases b <;> try (simp only [identEq, beq_iff_eq] at h; rw [h])
    rename_i b1
    simp only [identEq] at h
    simp only [E.eval, ih _ h]
  | call1 f a ih =>
    cases b <;> try (simp only [identEq, beq_iff_eq] at h; rw [h])
    rename_i g b1
    simp only [identEq, Bool.and_eq_true, beq_iff_eq] at h
    simp only [E.eval, h.1, ih _ h.2]
  | cast t a ih =>
    cases b <;> try (simp only [identEq, beq_iff_eq] at h; rw [h])
    rename_i u b1
    simp only [identEq, Bool.and_eq_true, beq_iff_eq] at h
    simp only [E.eval, h.1, ih _ h.2]
  | call2 f a1 a2 ih1 ih2 =>
    cases b <;> try (simp only [identEq, beq_iff_eq] at h; rw [h])
    rename_i g b1 b2
    simp only [identEq, Bool.and_eq_true, beq_iff_eq] at h
    simp only [E.eval, h.1.1, ih1 _ h.1.2, ih2 _ h.2]
  | call3 f a1 a2 a3 ih1 ih2 ih3 =>
    cases b <;> try (simp only [identEq, beq_iff_eq] at h; rw [h])
    rename_i g b1 b2 b3
    simp only [identEq, Bool.and_eq_true, beq_iff_eq] at h
    simp only [E.eval, h.1.1.1, ih1 _ h.1.1.2, ih2 _ h.1.2, ih3 _ h.2]
  | var i | lit n d | konst k =>
    simp only [identEq, beq_iff_eq] at h; rw [h]

theorem leafIdent_sound (ho : LinCommLike o) (env : Nat → α) {path : Path}
    (hp : PathHolds o env path) {a b : E} (h : leafIdent path a b = true) : a.eval o env = b.eval o env := by
  simp only [leafIdent, Bool.or_eq_true, List.any_eq_true] at h
  rcases h with h | ⟨σ, hσ, h⟩
  · exact identEq_sound ho env a b h
  · have he := eqCandsLin_sound ho.toLinLike env (normPath_sound' ho.toLinLike env hp) hσ
    rcases h with h | h
    · have h1 : ∀ p ∈ [σ], p.1.eval o env = p.2.eval o env := by
        intro p hp'; simp only [List.mem_singleton] at hp'; subst hp'; exact he
      rw [← E.rewrite_sound o env h1 a, ← E.rewrite_sound o env h1 b]; exact identEq_sound ho env _ _ h
    · have h1 : ∀ p ∈ [(σ.2, σ.1)], p.1.eval o env = p.2.eval o env := by
        intro p hp'; simp only [List.mem_singleton] at hp'; subst hp'; exact he.symm
      rw [← E.rewrite_sound o env h1 a, ← E.rewrite_sound o env h1 b]; exact identEq_sound ho env _ _ h

/-! ### the pre-passes -/

theorem expandAbs_sound (env : Nat → α) (absArg : E → Option E)
    (habs : ∀ e t, absArg e = some t →
      e.eval o env = if o.le (o.lit 0 1) (t.eval o env) then t.eval o env else o.neg (t.eval o env))
    (t : Tree) : (expandAbs absArg t).eval o env = t.eval o env := by
  induction t with
  | leaf e =>
    simp only [expandAbs]
    split
    · rename_i t ht
      simp only [Tree.eval, C.eval, E.eval]
      rw [habs e t ht]
      rfl
    · rfl
  | branch c t f iht ihf => simp only [expandAbs, Tree.eval, iht, ihf]

/-- integer units: `LinLike` + the bit facts the pre-pass uses -/
structure IntSimdLike (o : Ops α) : Prop extends LinCommLike o where
  band_self : ∀ a, o.band a a = a
  bxor_eq_zero : ∀ a b, o.eq (o.bxor a b) (o.lit 0 1) = o.eq a b
  abs_trick : ∀ a, o.sub (o.bxor a (o.shr a (o.lit 31 1))) (o.shr a (o.lit 31 1)) =
    if o.le (o.lit 0 1) a then a else o.neg a

theorem normC_sound (ho : IntSimdLike o) (env : Nat → α) (c : C) : (normC c).eval o env = c.eval o env := by
  induction c with
  | eq a b =>
    unfold normC
    split
    · rename_i t t' z heq
      simp only [C.eq.injEq] at heq
      obtain ⟨rfl, rfl⟩ := heq
      split
      · rename_i h
        simp only [beq_iff_eq] at h; subst h
        simp only [C.eval, E.eval, ho.band_self]
      · rfl
    · rename_i x y heq
      simp only [C.eq.injEq] at heq
      obtain ⟨rfl, rfl⟩ := heq
      simp only [C.eval, E.eval, ho.bxor_eq_zero]
    all_goals first | rfl | (rename_i heq; cases heq)
  | not c ih => simp only [normC, C.eval, ih]
  | and a b iha ihb => simp only [normC, C.eval, iha, ihb]
  | or a b iha ihb => simp only [normC, C.eval, iha, ihb]
  | lt a b | le a b | isnan a | isinf a => rfl

theorem normConds_sound (ho : IntSimdLike o) (env : Nat → α) (t : Tree) : (normConds t).eval o env = t.eval o env := by
  induction t with
  | leaf e => rfl
  | branch c t f iht ihf => simp only [normConds, Tree.eval, normC_sound ho env, iht, ihf]

theorem absArgI_sound (ho : IntSimdLike o) (env : Nat → α) (e t : E) (h : absArgI e = some t) :
    e.eval o env = if o.le (o.lit 0 1) (t.eval o env) then t.eval o env else o.neg (t.eval o env) := by
  unfold absArgI at h
  split at h
  · rename_i t0 t1 t2
    split at h
    · rename_i hc
      simp only [Option.some.injEq] at h; subst h
      simp only [Bool.and_eq_true, beq_iff_eq] at hc
      obtain ⟨rfl, rfl⟩ := hc
      simp only [E.eval]; exact ho.abs_trick _
    · cases h
  · cases h

/-- **C03, integer units**: a passed entry means the generic and the SIMD code return the same value, for every
    input, in every semantics of the expression language that is a commutative ring with a linear order (ℤ/2^32 with
    the signed or the unsigned order) and satisfies the three bit facts -/
theorem outOKI_sound (ho : IntSimdLike o) (p s : Unit) (j : Nat) (h : outOKI p s j = true) (env : Nat → α) :
    (p.out j).eval o env = (s.out j).eval o env := by
  unfold outOKI at h
  obtain ⟨path, hp, hl⟩ := treeEqv_sound (impliedLin_sound ho.toLinCommLike.toLinLike env) _ _ h (by intro cb hcb; cases hcb)
  have e1 : (prepI (p.out j)).eval o env = (p.out j).eval o env := by
    unfold prepI; rw [normConds_sound ho env, expandAbs_sound env absArgI (absArgI_sound ho env)]
  have e2 : (prepI (s.out j)).eval o env = (s.out j).eval o env := by
    unfold prepI; rw [normConds_sound ho env, expandAbs_sound env absArgI (absArgI_sound ho env)]
  rw [← e1, ← e2, Tree.eval_eq_select o env (prepI (p.out j)), Tree.eval_eq_select o env (prepI (s.out j))]
  exact leafIdent_sound ho.toLinCommLike env hp hl

end lin

/-! ### real-typed units -/
section real
variable {K : Type} [Field K] [LinearOrder K] [IsStrictOrderedRing K] {o : Ops K}

/-- real-typed units: ordered field, `abs` is the absolute value, `fma a b c = a*b + c` -/
structure RealSimdLike (o : Ops K) : Prop extends OrderedEqLike o where
  abs : ∀ a, o.call1 .abs a = if o.le (o.lit 0 1) a then a else o.neg a
  fma : ∀ a b c, o.call3 .fma a b c = o.add (o.mul a b) c
  band_comm : ∀ a b, o.band a b = o.band b a
  bor_comm : ∀ a b, o.bor a b = o.bor b a
  bxor_comm : ∀ a b, o.bxor a b = o.bxor b a

theorem RealSimdLike.linLike (ho : RealSimdLike o) : LinCommLike o :=
  { toLinLike := ho.toOrderedEqLike.linLike,
    band_comm := ho.band_comm, bor_comm := ho.bor_comm, bxor_comm := ho.bxor_comm }

theorem absArgR_sound (ho : RealSimdLike o) (env : Nat → K) (e t : E) (h : absArgR e = some t) :
    e.eval o env = if o.le (o.lit 0 1) (t.eval o env) then t.eval o env else o.neg (t.eval o env) := by
  unfold absArgR at h
  split at h
  · simp only [Option.some.injEq] at h; subst h
    simp only [E.eval]; exact ho.abs _
  · cases h

theorem prepR_sound (ho : RealSimdLike o) (env : Nat → K) (m : Mode) (t : Tree) :
    (prepR m t).eval o env = t.eval o env := by
  cases m <;> simp only [prepR, expandAbs_sound env absArgR (absArgR_sound ho env)]
  all_goals exact (Tree.eval_expandFma o ho.fma env t)

/-- the selected leaves of both (pre-processed) trees evaluate no division by zero -/
def DivOK (o : Ops K) (env : Nat → K) (m : Mode) (p s : Unit) (j : Nat) : Prop :=
  ((prepR m (p.out j)).select o env).divOK o env ∧ ((prepR m (s.out j)).select o env).divOK o env

/-- every square root `r = sqrt t` that occurs in the selected leaves satisfies `r * r = t` (its argument is ≥ 0) -/
def SqrtOK (o : Ops K) (env : Nat → K) (m : Mode) (p s : Unit) (j : Nat) : Prop :=
  ∀ h ∈ sqrtHyps ((prepR m (p.out j)).select o env) ((prepR m (s.out j)).select o env), h.1.eval o env = h.2.eval o env

theorem leafField_sound (ho : RealSimdLike o) (env : Nat → K) {path : Path} (hp : PathHolds o env path) {a b : E}
    (h : leafField path a b = true) (ha : a.divOK o env) (hb : b.divOK o env) : a.eval o env = b.eval o env := by
  simp only [leafField, Bool.or_eq_true] at h
  rcases h with (h | h) | h
  · exact leafIdent_sound ho.linLike env hp h
  · exact polyEq_sound' ho.toRingLike h env
  · exact fracEq_sound ho.toFieldLike h env ha hb

/-- **C03, real-typed units**: a passed entry means the generic and the SIMD code return the same value for every
    input, in every ordered-field semantics; for the multi-term classes under the side condition that neither
    evaluation divides by zero (and, for `sqrtsq`, that the square roots taken are those of non-negative numbers) -/
theorem outOKR_sound (ho : RealSimdLike o) (m : Mode) (p s : Unit) (j : Nat) (h : outOKR m p s j = true)
    (env : Nat → K) (hd : m ≠ .ident → DivOK o env m p s j) (hs : m = .sqrtsq → SqrtOK o env m p s j)
    (hz : m = .sqrtsq → o.call1 .sqrt (o.lit 0 1) = o.lit 0 1) :
    (p.out j).eval o env = (s.out j).eval o env := by
  unfold outOKR at h
  obtain ⟨path, hp, hl⟩ := treeEqv_sound (impliedLin_sound ho.linLike.toLinLike env) _ _ h (by intro cb hcb; cases hcb)
  rw [← prepR_sound ho env m (p.out j), ← prepR_sound ho env m (s.out j),
    Tree.eval_eq_select o env (prepR m (p.out j)), Tree.eval_eq_select o env (prepR m (s.out j))]
  cases m with
  | ident => exact leafIdent_sound ho.linLike env hp hl
  | field => exact leafField_sound ho env hp hl (hd (by simp)).1 (hd (by simp)).2
  | sqrtsq =>
    simp only [leafOf, leafSqrt, Bool.or_eq_true, List.any_eq_true] at hl
    have hdd := hd (by simp)
    have hz0 : ∀ q ∈ [sqrtZero], q.1.eval o env = q.2.eval o env := by
      intro q hq; simp only [List.mem_singleton] at hq; subst hq
      simp only [sqrtZero, E.eval]; exact hz rfl
    rcases hl with (hl | hl | hl) | ⟨σ, hσ, hl⟩
    · exact leafField_sound ho env hp hl hdd.1 hdd.2
    · exact fracEqMod_sound ho.toFieldLike hl env (hs rfl) hdd.1 hdd.2
    · exact fracEqMod_sound ho.toFieldLike hl env (hs rfl) hdd.1 hdd.2
    · have he := eqCandsLin_sound ho.linLike.toLinLike env (normPath_sound' ho.linLike.toLinLike env hp) hσ
      rcases hl with hl | hl
      · have h1 : ∀ q ∈ [σ], q.1.eval o env = q.2.eval o env := by
          intro q hq; simp only [List.mem_singleton] at hq; subst hq; exact he
        have := identEq_sound ho.linLike env _ _ hl
        rw [E.rewrite_sound o env hz0, E.rewrite_sound o env hz0, E.rewrite_sound o env h1, E.rewrite_sound o env h1] at this
        exact this
      · have h1 : ∀ q ∈ [(σ.2, σ.1)], q.1.eval o env = q.2.eval o env := by
          intro q hq; simp only [List.mem_singleton] at hq; subst hq; exact he.symm
        have := identEq_sound ho.linLike env _ _ hl
        rw [E.rewrite_sound o env hz0, E.rewrite_sound o env hz0, E.rewrite_sound o env h1, E.rewrite_sound o env h1] at this
        exact this

end real
end Glm
