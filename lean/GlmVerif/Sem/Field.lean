import GlmVerif.Sem.PolyTable
import Mathlib.Algebra.Field.Basic
import Mathlib.Algebra.CharZero.Defs
import Mathlib.Tactic.FieldSimp

/-!
Semantics of the rational fragment in an arbitrary field of characteristic zero,
and soundness of the numerator/denominator reflection (`fracEq`).
The only side condition of a `fracEq`-proved identity is that every divisor the
*code* evaluates is non-zero (`E.divOK`): this is what makes "division by zero
never happens on this path" a proof obligation rather than an artefact of `x/0 = 0`.
-/
namespace Glm
variable {K : Type} [Field K]

def fieldOps (K : Type) [Field K] : Ops K where
  lit n d := (n : K) / (d : K)
  konst _ := 0
  add := (· + ·)
  sub := (· - ·)
  mul := (· * ·)
  div := (· / ·)
  neg := (- ·)
  call1 _ _ := 0
  call2 _ _ _ := 0
  call3 _ _ _ _ := 0
  band _ _ := 0
  bor _ _ := 0
  bxor _ _ := 0
  bnot _ := 0
  shl _ _ := 0
  shr _ _ := 0
  imod _ _ := 0
  cast _ a := a
  lt _ _ := false
  le _ _ := false
  eq _ _ := false
  isnan _ := false
  isinf _ := false

@[simp] theorem fieldOps_lit (n : Int) (d : Nat) : (fieldOps K).lit n d = (n : K) / (d : K) := rfl
@[simp] theorem fieldOps_add (a b : K) : (fieldOps K).add a b = a + b := rfl
@[simp] theorem fieldOps_sub (a b : K) : (fieldOps K).sub a b = a - b := rfl
@[simp] theorem fieldOps_mul (a b : K) : (fieldOps K).mul a b = a * b := rfl
@[simp] theorem fieldOps_div (a b : K) : (fieldOps K).div a b = a / b := rfl
@[simp] theorem fieldOps_neg (a : K) : (fieldOps K).neg a = -a := rfl

/-- value of output component `j` in the field semantics -/
def Unit.fval (u : Unit) (env : Nat → K) (j : Nat) : K := (u.out j).eval (fieldOps K) env

theorem E.eval_field_eq_ring (e : E) (h : e.isPoly = true) (env : Nat → K) :
    e.eval (fieldOps K) env = e.eval (ringOps K) env := by
  induction e with
  | var i => rfl
  | lit n d => simp [E.isPoly] at h; simp [E.eval, h]
  | add a b iha ihb => simp [E.isPoly] at h; simp [E.eval, iha h.1, ihb h.2]
  | sub a b iha ihb => simp [E.isPoly] at h; simp [E.eval, iha h.1, ihb h.2]
  | mul a b iha ihb => simp [E.isPoly] at h; simp [E.eval, iha h.1, ihb h.2]
  | neg a iha => simp [E.isPoly] at h; simp [E.eval, iha h]
  | _ => simp [E.isPoly] at h

/-- all divisors evaluated by `e` are non-zero -/
def E.divOK (e : E) (env : Nat → K) : Prop := ∀ d ∈ e.divisors, d.eval (fieldOps K) env ≠ 0

theorem mulE_isPoly {a b : E} (ha : a.isPoly = true) (hb : b.isPoly = true) : (mulE a b).isPoly = true := by
  unfold mulE; split; · exact ha
  split; · exact hb
  simp [E.isPoly, ha, hb]

theorem mulE_eval (a b : E) (env : Nat → K) :
    (mulE a b).eval (fieldOps K) env = a.eval (fieldOps K) env * b.eval (fieldOps K) env := by
  unfold mulE; split
  · rename_i h; rw [eq_of_beq h]; simp [E.eval]
  split
  · rename_i h; rw [eq_of_beq h]; simp [E.eval]
  rfl

theorem E.frac_isPoly (e : E) : e.frac.1.isPoly = true ∧ e.frac.2.isPoly = true := by
  induction e with
  | add a b iha ihb => exact ⟨by simp [E.frac, E.isPoly, mulE_isPoly, iha.1, iha.2, ihb.1, ihb.2], mulE_isPoly iha.2 ihb.2⟩
  | sub a b iha ihb => exact ⟨by simp [E.frac, E.isPoly, mulE_isPoly, iha.1, iha.2, ihb.1, ihb.2], mulE_isPoly iha.2 ihb.2⟩
  | mul a b iha ihb => exact ⟨mulE_isPoly iha.1 ihb.1, mulE_isPoly iha.2 ihb.2⟩
  | div a b iha ihb => exact ⟨mulE_isPoly iha.1 ihb.2, mulE_isPoly iha.2 ihb.1⟩
  | neg a iha => exact ⟨by simp [E.frac, E.isPoly, iha.1], iha.2⟩
  | _ => simp [E.frac, E.isPoly]

variable [CharZero K]

/-- numerator/denominator form is correct wherever the code's own divisions are defined -/
theorem E.frac_sound (e : E) (hr : e.isRat = true) (env : Nat → K) (hd : e.divOK env) :
    e.frac.2.eval (fieldOps K) env ≠ 0 ∧
    e.eval (fieldOps K) env = e.frac.1.eval (fieldOps K) env / e.frac.2.eval (fieldOps K) env := by
  induction e with
  | var i => simp [E.frac, E.eval]
  | lit n d =>
    simp [E.isRat] at hr
    simp [E.frac, E.eval, hr]
  | add a b iha ihb =>
    simp only [E.isRat, Bool.and_eq_true] at hr
    have ⟨ha0, ha⟩ := iha hr.1 (fun d hd' => hd d (by simp [E.divisors, hd']))
    have ⟨hb0, hb⟩ := ihb hr.2 (fun d hd' => hd d (by simp [E.divisors, hd']))
    refine ⟨by simp [E.frac, mulE_eval, ha0, hb0], ?_⟩
    simp only [E.frac, E.eval, fieldOps_add, mulE_eval]; rw [ha, hb]; field_simp
  | sub a b iha ihb =>
    simp only [E.isRat, Bool.and_eq_true] at hr
    have ⟨ha0, ha⟩ := iha hr.1 (fun d hd' => hd d (by simp [E.divisors, hd']))
    have ⟨hb0, hb⟩ := ihb hr.2 (fun d hd' => hd d (by simp [E.divisors, hd']))
    refine ⟨by simp [E.frac, mulE_eval, ha0, hb0], ?_⟩
    simp only [E.frac, E.eval, fieldOps_sub, mulE_eval]; rw [ha, hb]; field_simp
  | mul a b iha ihb =>
    simp only [E.isRat, Bool.and_eq_true] at hr
    have ⟨ha0, ha⟩ := iha hr.1 (fun d hd' => hd d (by simp [E.divisors, hd']))
    have ⟨hb0, hb⟩ := ihb hr.2 (fun d hd' => hd d (by simp [E.divisors, hd']))
    refine ⟨by simp [E.frac, mulE_eval, ha0, hb0], ?_⟩
    simp only [E.frac, E.eval, fieldOps_mul, mulE_eval]; rw [ha, hb]; field_simp
  | div a b iha ihb =>
    simp only [E.isRat, Bool.and_eq_true] at hr
    have ⟨ha0, ha⟩ := iha hr.1 (fun d hd' => hd d (by simp [E.divisors, hd']))
    have ⟨hb0, hb⟩ := ihb hr.2 (fun d hd' => hd d (by simp [E.divisors, hd']))
    have hbne : b.eval (fieldOps K) env ≠ 0 := hd b (by simp [E.divisors])
    have hn : b.frac.1.eval (fieldOps K) env ≠ 0 := by
      intro h0; apply hbne; rw [hb, h0, zero_div]
    refine ⟨by simp [E.frac, mulE_eval, ha0, hn], ?_⟩
    simp only [E.frac, E.eval, fieldOps_div, mulE_eval]; rw [ha, hb]; field_simp
  | neg a iha =>
    simp only [E.isRat] at hr
    have ⟨ha0, ha⟩ := iha hr (fun d hd' => hd d (by simp [E.divisors, hd']))
    refine ⟨by simpa [E.frac] using ha0, ?_⟩
    simp only [E.frac, E.eval, fieldOps_neg]; rw [ha]; ring
  | _ => simp [E.isRat] at hr

theorem fracEq_sound {a b : E} (h : fracEq a b = true) (env : Nat → K)
    (ha : a.divOK env) (hb : b.divOK env) :
    a.eval (fieldOps K) env = b.eval (fieldOps K) env := by
  simp only [fracEq, Bool.and_eq_true] at h
  obtain ⟨⟨hra, hrb⟩, hp⟩ := h
  have ⟨ha0, hae⟩ := E.frac_sound a hra env ha
  have ⟨hb0, hbe⟩ := E.frac_sound b hrb env hb
  have hx := polyEq_sound (R := K) hp env
  simp only [E.eval, ringOps_mul] at hx
  rw [← E.eval_field_eq_ring _ a.frac_isPoly.1, ← E.eval_field_eq_ring _ a.frac_isPoly.2,
      ← E.eval_field_eq_ring _ b.frac_isPoly.1, ← E.eval_field_eq_ring _ b.frac_isPoly.2] at hx
  rw [hae, hbe, div_eq_div_iff ha0 hb0]; exact hx

/-- if the allowed divisors are non-zero (and themselves well defined), so is `d` -/
theorem divisorAllowed_ne {allowed : List E} {d : E} (h : divisorAllowed allowed d = true)
    (env : Nat → K) (hd : d.divOK env)
    (hall : ∀ a ∈ allowed, a.divOK env ∧ a.eval (fieldOps K) env ≠ 0) :
    d.eval (fieldOps K) env ≠ 0 := by
  simp only [divisorAllowed, List.any_eq_true] at h
  obtain ⟨a, ha, hfa⟩ := h
  rw [fracEq_sound hfa env hd (hall a ha).1]; exact (hall a ha).2

/-- a term all of whose divisors are (rational-function equal to) allowed ones is well defined
    as soon as the allowed divisors are non-zero -/
theorem E.divOK_of_allowed {allowed : List E} (e : E)
    (h : e.divisors.all (divisorAllowed allowed) = true) (env : Nat → K)
    (hall : ∀ a ∈ allowed, a.divOK env ∧ a.eval (fieldOps K) env ≠ 0) : e.divOK env := by
  induction e with
  | add a b iha ihb | sub a b iha ihb | mul a b iha ihb =>
    simp only [E.divisors, List.all_append, Bool.and_eq_true] at h
    intro d hd; simp only [E.divisors, List.mem_append] at hd
    rcases hd with hd | hd
    · exact iha h.1 d hd
    · exact ihb h.2 d hd
  | div a b iha ihb =>
    simp only [E.divisors, List.all_cons, List.all_append, Bool.and_eq_true] at h
    have hb := ihb h.2.2
    intro d hd; simp only [E.divisors, List.mem_cons, List.mem_append] at hd
    rcases hd with rfl | hd | hd
    · exact divisorAllowed_ne h.1 env hb hall
    · exact iha h.2.1 d hd
    · exact hb d hd
  | neg a iha =>
    simp only [E.divisors] at h
    intro d hd; simp only [E.divisors] at hd; exact iha h d hd
  | _ => intro d hd; simp [E.divisors] at hd

theorem Unit.fracAgrees_sound {u : Unit} {n : Nat} {spec : Nat → E} {allowed : List E}
    (h : u.fracAgrees n spec allowed = true) (j : Nat) (hj : j < n) (env : Nat → K)
    (hall : ∀ a ∈ allowed, a.divOK env ∧ a.eval (fieldOps K) env ≠ 0) :
    u.fval env j = (spec j).eval (fieldOps K) env ∧ (u.out j).leaves.all (fun e => e.divisors.all (divisorAllowed allowed)) = true := by
  simp only [Unit.fracAgrees, Bool.and_eq_true, List.all_eq_true, List.mem_range] at h
  have := h.2 j hj
  unfold Unit.fval
  split at this
  · rename_i e he
    simp only [Bool.and_eq_true] at this
    rw [he]
    refine ⟨fracEq_sound this.1.1 env (E.divOK_of_allowed e this.1.2 env hall)
      (E.divOK_of_allowed _ this.2 env hall), ?_⟩
    simp [Tree.leaves, this.1.2]
  · simp at this

end Glm
