import GlmVerif.Sem.PolyReflect
import Mathlib.Algebra.Field.Basic
import Mathlib.Algebra.CharZero.Defs
import Mathlib.Tactic.FieldSimp

/-!
Semantics of the rational fragment in a field of characteristic zero, and soundness
of the numerator/denominator reflection (`fracEq`) for every semantics whose
`+ - * / neg` and literals are the field's (`FieldLike`): `fieldOps K`, and the real
semantics with `sqrt`, `sin`, … of `Sem/Real.lean`.
The only side condition of a `fracEq`-proved identity is that every divisor the
*code* evaluates is non-zero (`E.divOK`): this is what makes "division by zero
never happens on this path" a proof obligation rather than an artefact of `x/0 = 0`.
-/
namespace Glm
variable {K : Type} [Field K]

def fieldOps (K : Type) [Field K] : Ops K where
  lit n d := (n : K) / (d : K)
  konst _ := 0
  add := (· + ·)
  sub := (· - ·)
  mul := (· * ·)
  div := (· / ·)
  neg := (- ·)
  call1 _ _ := 0
  call2 _ _ _ := 0
  call3 _ _ _ _ := 0
  band _ _ := 0
  bor _ _ := 0
  bxor _ _ := 0
  bnot _ := 0
  shl _ _ := 0
  shr _ _ := 0
  imod _ _ := 0
  cast _ a := a
  lt _ _ := false
  le _ _ := false
  eq _ _ := false
  isnan _ := false
  isinf _ := false

structure FieldLike (o : Ops K) : Prop extends RingLike o where
  div : ∀ a b, o.div a b = a / b
  litq : ∀ (n : Int) (d : Nat), o.lit n d = (n : K) / (d : K)

theorem fieldOps_fieldLike : FieldLike (fieldOps K) :=
  { add := fun _ _ => rfl, sub := fun _ _ => rfl, mul := fun _ _ => rfl, neg := fun _ => rfl,
    lit := fun n => by simp [fieldOps], div := fun _ _ => rfl, litq := fun _ _ => rfl }

@[simp] theorem fieldOps_lit (n : Int) (d : Nat) : (fieldOps K).lit n d = (n : K) / (d : K) := rfl
@[simp] theorem fieldOps_add (a b : K) : (fieldOps K).add a b = a + b := rfl
@[simp] theorem fieldOps_sub (a b : K) : (fieldOps K).sub a b = a - b := rfl
@[simp] theorem fieldOps_mul (a b : K) : (fieldOps K).mul a b = a * b := rfl
@[simp] theorem fieldOps_div (a b : K) : (fieldOps K).div a b = a / b := rfl
@[simp] theorem fieldOps_neg (a : K) : (fieldOps K).neg a = -a := rfl

/-- value of output component `j` in the field semantics -/
def Unit.fval (u : Unit) (env : Nat → K) (j : Nat) : K := (u.out j).eval (fieldOps K) env

/-- all divisors evaluated by `e` are non-zero -/
def E.divOK (o : Ops K) (e : E) (env : Nat → K) : Prop := ∀ d ∈ e.divisors, d.eval o env ≠ 0

theorem mulE_eval {o : Ops K} (ho : FieldLike o) (a b : E) (env : Nat → K) :
    (mulE a b).eval o env = a.eval o env * b.eval o env := by
  unfold mulE; split
  · rename_i h; rw [eq_of_beq h]; simp [E.eval, ho.lit]
  split
  · rename_i h; rw [eq_of_beq h]; simp [E.eval, ho.lit]
  simp [E.eval, ho.mul]

variable [CharZero K]

/-- numerator/denominator form is correct wherever the code's own divisions are defined -/
theorem E.frac_sound {o : Ops K} (ho : FieldLike o) (e : E) (hr : e.litsOK = true) (env : Nat → K)
    (hd : e.divOK o env) :
    e.frac.2.eval o env ≠ 0 ∧ e.eval o env = e.frac.1.eval o env / e.frac.2.eval o env := by
  induction e with
  | lit n d =>
    simp [E.litsOK] at hr
    simp [E.frac, E.eval, ho.litq, hr]
  | add a b iha ihb =>
    simp only [E.litsOK, Bool.and_eq_true] at hr
    have ⟨ha0, ha⟩ := iha hr.1 (fun d hd' => hd d (by simp [E.divisors, hd']))
    have ⟨hb0, hb⟩ := ihb hr.2 (fun d hd' => hd d (by simp [E.divisors, hd']))
    by_cases hc : (a.frac.2 == b.frac.2) = true
    · have hab : a.frac.2 = b.frac.2 := eq_of_beq hc
      simp only [E.frac, hc, if_true]
      refine ⟨ha0, ?_⟩
      simp only [E.eval, ho.add]; rw [ha, hb, ← hab]; field_simp
    simp only [E.frac, hc, Bool.false_eq_true, if_false]
    refine ⟨by simp [mulE_eval ho, ha0, hb0], ?_⟩
    simp only [E.eval, ho.add, mulE_eval ho]; rw [ha, hb]; field_simp
  | sub a b iha ihb =>
    simp only [E.litsOK, Bool.and_eq_true] at hr
    have ⟨ha0, ha⟩ := iha hr.1 (fun d hd' => hd d (by simp [E.divisors, hd']))
    have ⟨hb0, hb⟩ := ihb hr.2 (fun d hd' => hd d (by simp [E.divisors, hd']))
    by_cases hc : (a.frac.2 == b.frac.2) = true
    · have hab : a.frac.2 = b.frac.2 := eq_of_beq hc
      simp only [E.frac, hc, if_true]
      refine ⟨ha0, ?_⟩
      simp only [E.eval, ho.sub]; rw [ha, hb, ← hab]; field_simp
    simp only [E.frac, hc, Bool.false_eq_true, if_false]
    refine ⟨by simp [mulE_eval ho, ha0, hb0], ?_⟩
    simp only [E.eval, ho.sub, mulE_eval ho]; rw [ha, hb]; field_simp
  | mul a b iha ihb =>
    simp only [E.litsOK, Bool.and_eq_true] at hr
    have ⟨ha0, ha⟩ := iha hr.1 (fun d hd' => hd d (by simp [E.divisors, hd']))
    have ⟨hb0, hb⟩ := ihb hr.2 (fun d hd' => hd d (by simp [E.divisors, hd']))
    refine ⟨by simp [E.frac, mulE_eval ho, ha0, hb0], ?_⟩
    simp only [E.frac, E.eval, ho.mul, mulE_eval ho]; rw [ha, hb]; field_simp
  | div a b iha ihb =>
    simp only [E.litsOK, Bool.and_eq_true] at hr
    have ⟨ha0, ha⟩ := iha hr.1 (fun d hd' => hd d (by simp [E.divisors, hd']))
    have ⟨hb0, hb⟩ := ihb hr.2 (fun d hd' => hd d (by simp [E.divisors, hd']))
    have hbne : b.eval o env ≠ 0 := hd b (by simp [E.divisors])
    have hn : b.frac.1.eval o env ≠ 0 := by
      intro h0; apply hbne; rw [hb, h0, zero_div]
    refine ⟨by simp [E.frac, mulE_eval ho, ha0, hn], ?_⟩
    simp only [E.frac, E.eval, ho.div, mulE_eval ho]; rw [ha, hb]; field_simp
  | neg a iha =>
    simp only [E.litsOK] at hr
    have ⟨ha0, ha⟩ := iha hr (fun d hd' => hd d (by simp [E.divisors, hd']))
    refine ⟨by simpa [E.frac] using ha0, ?_⟩
    simp only [E.frac, E.eval, ho.neg]; rw [ha]; ring
  | _ => simp [E.frac, E.eval, ho.lit]

theorem fracEq_sound {o : Ops K} (ho : FieldLike o) {a b : E} (h : fracEq a b = true) (env : Nat → K)
    (ha : a.divOK o env) (hb : b.divOK o env) :
    a.eval o env = b.eval o env := by
  simp only [fracEq, Bool.and_eq_true] at h
  obtain ⟨⟨hra, hrb⟩, hp⟩ := h
  have ⟨ha0, hae⟩ := E.frac_sound ho a hra env ha
  have ⟨hb0, hbe⟩ := E.frac_sound ho b hrb env hb
  have hx := polyEq_sound' ho.toRingLike hp env
  simp only [E.eval, ho.mul] at hx
  rw [hae, hbe, div_eq_div_iff ha0 hb0]; exact hx

theorem fracEqMod_sound {o : Ops K} (ho : FieldLike o) {hyps : List (E × E)} {cert : List E} {a b : E}
    (h : fracEqMod hyps cert a b = true) (env : Nat → K)
    (hh : ∀ p ∈ hyps, p.1.eval o env = p.2.eval o env)
    (ha : a.divOK o env) (hb : b.divOK o env) :
    a.eval o env = b.eval o env := by
  simp only [fracEqMod, Bool.and_eq_true] at h
  obtain ⟨⟨hra, hrb⟩, hp⟩ := h
  have ⟨ha0, hae⟩ := E.frac_sound ho a hra env ha
  have ⟨hb0, hbe⟩ := E.frac_sound ho b hrb env hb
  have hx := polyEqMod_sound ho.toRingLike hp env hh
  simp only [E.eval, ho.mul] at hx
  rw [hae, hbe, div_eq_div_iff ha0 hb0]; exact hx

/-- if the allowed divisors are non-zero (and themselves well defined), so is `d` -/
theorem divisorAllowed_ne {o : Ops K} (ho : FieldLike o) {allowed : List E} {d : E}
    (h : divisorAllowed allowed d = true)
    (env : Nat → K) (hd : d.divOK o env)
    (hall : ∀ a ∈ allowed, a.divOK o env ∧ a.eval o env ≠ 0) :
    d.eval o env ≠ 0 := by
  simp only [divisorAllowed, List.any_eq_true] at h
  obtain ⟨a, ha, hfa⟩ := h
  rw [fracEq_sound ho hfa env hd (hall a ha).1]; exact (hall a ha).2

/-- a term all of whose divisors are (rational-function equal to) allowed ones is well defined
    as soon as the allowed divisors are non-zero -/
theorem E.divOK_of_allowed {o : Ops K} (ho : FieldLike o) {allowed : List E} (e : E)
    (h : e.divisors.all (divisorAllowed allowed) = true) (env : Nat → K)
    (hall : ∀ a ∈ allowed, a.divOK o env ∧ a.eval o env ≠ 0) : e.divOK o env := by
  induction e with
  | add a b iha ihb | sub a b iha ihb | mul a b iha ihb =>
    simp only [E.divisors, List.all_append, Bool.and_eq_true] at h
    intro d hd; simp only [E.divisors, List.mem_append] at hd
    rcases hd with hd | hd
    · exact iha h.1 d hd
    · exact ihb h.2 d hd
  | div a b iha ihb =>
    simp only [E.divisors, List.all_cons, List.all_append, Bool.and_eq_true] at h
    have hb := ihb h.2.2
    intro d hd; simp only [E.divisors, List.mem_cons, List.mem_append] at hd
    rcases hd with rfl | hd | hd
    · exact divisorAllowed_ne ho h.1 env hb hall
    · exact iha h.2.1 d hd
    · exact hb d hd
  | neg a iha =>
    simp only [E.divisors] at h
    intro d hd; simp only [E.divisors] at hd; exact iha h d hd
  | _ => intro d hd; simp [E.divisors] at hd

end Glm
