import GlmVerif.Sem.PolyReflect

/-! Building blocks for textbook specifications written as expressions, and the
    bridge from a reflective table check to a statement about every ring. -/
namespace Glm
variable {R : Type} [CommRing R]

theorem sumE_eval (l : List E) (env : Nat → R) :
    (sumE l).eval (ringOps R) env = (l.map (fun e => e.eval (ringOps R) env)).sum :=
  sumE_eval' ringOps_ringLike l env

theorem Unit.polyAgrees_sound {u : Unit} {n : Nat} {spec : Nat → E}
    (h : u.polyAgrees n spec = true) (j : Nat) (hj : j < n) (env : Nat → R) :
    u.rval env j = (spec j).eval (ringOps R) env := by
  simp only [Unit.polyAgrees, Bool.and_eq_true, List.all_eq_true, List.mem_range] at h
  have := h.2 j hj
  unfold Unit.rval
  split at this
  · rename_i e he
    rw [he]; exact polyEq_sound this env
  · simp at this

end Glm
