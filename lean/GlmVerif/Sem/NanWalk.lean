import GlmVerif.Sem.TreeEqv
import GlmVerif.Core.NanWalk
/-! Soundness of `impliedNan` in every semantics where comparisons with a NaN operand are false (IEEE 754 §5.11). -/
namespace Glm
variable {α : Type}

/-- the only assumption on the semantics: a NaN operand makes `<`, `≤`, `==` false -/
structure NanLike (o : Ops α) : Prop where
  lt_l : ∀ x y, o.isnan x = true → o.lt x y = false
  lt_r : ∀ x y, o.isnan y = true → o.lt x y = false
  le_l : ∀ x y, o.isnan x = true → o.le x y = false
  le_r : ∀ x y, o.isnan y = true → o.le x y = false
  eq_l : ∀ x y, o.isnan x = true → o.eq x y = false
  eq_r : ∀ x y, o.isnan y = true → o.eq x y = false

theorem lookupC_sound {o : Ops α} {env : Nat → α} {path : Path} (hp : PathHolds o env path) {c : C} {b : Bool}
    (h : lookupC path c = some b) : c.eval o env = b := by
  unfold lookupC at h
  split at h
  · rename_i cb hf
    have hm := List.mem_of_find?_eq_some hf
    have hc := List.find?_some hf
    simp only [beq_iff_eq] at hc
    have := hp cb hm
    rw [hc] at this
    cases h; exact this
  · cases h

theorem nanOn_sound {o : Ops α} {env : Nat → α} {path : Path} (hp : PathHolds o env path) {x : E}
    (h : nanOn path x = true) : o.isnan (x.eval o env) = true := by
  unfold nanOn at h
  rw [List.any_eq_true] at h
  obtain ⟨cb, hm, hc⟩ := h
  rw [Bool.and_eq_true, beq_iff_eq] at hc
  have := hp cb hm
  rw [hc.2, hc.1] at this
  exact this

theorem impliedNan_sound {o : Ops α} (hn : NanLike o) (env : Nat → α) : ImpSound o env impliedNan := by
  intro path c b hp h
  unfold impliedNan at h
  split at h
  · rename_i b' hl
    cases h; exact lookupC_sound hp hl
  · split at h
    all_goals first
      | (split at h
         · rename_i hx
           cases h
           rw [Bool.or_eq_true] at hx
           simp only [C.eval]
           rcases hx with hx | hx
           · first | exact hn.lt_l _ _ (nanOn_sound hp hx) | exact hn.le_l _ _ (nanOn_sound hp hx) | exact hn.eq_l _ _ (nanOn_sound hp hx)
           · first | exact hn.lt_r _ _ (nanOn_sound hp hx) | exact hn.le_r _ _ (nanOn_sound hp hx) | exact hn.eq_r _ _ (nanOn_sound hp hx)
         · cases h)
      | cases h

end Glm
