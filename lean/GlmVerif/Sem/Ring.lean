import GlmVerif.Core.Expr
import Mathlib.Algebra.Ring.Defs
import Mathlib.Algebra.BigOperators.Fin
import Mathlib.Tactic.Ring
import Mathlib.Tactic.FinCases

/-!
Semantics of the division-free fragment in an arbitrary commutative ring:
ℤ, ℤ/2^w (= C++ unsigned and wrap-around two's-complement arithmetic), ℚ, ℝ.
Everything outside the fragment evaluates to junk (`0`); theorems that use
`ringOps` therefore carry the side condition `Tree.isPolyLeaf`, which is
decided on the generated data.
-/
namespace Glm
variable {R : Type} [CommRing R]

def ringOps (R : Type) [CommRing R] : Ops R where
  lit n _ := (n : R)
  konst _ := 0
  add := (· + ·)
  sub := (· - ·)
  mul := (· * ·)
  div _ _ := 0
  neg := (- ·)
  call1 _ _ := 0
  call2 _ _ _ := 0
  call3 _ _ _ _ := 0
  band _ _ := 0
  bor _ _ := 0
  bxor _ _ := 0
  bnot _ := 0
  shl _ _ := 0
  shr _ _ := 0
  imod _ _ := 0
  cast _ a := a
  lt _ _ := false
  le _ _ := false
  eq _ _ := false
  isnan _ := false
  isinf _ := false

/-- a tree that is a single leaf in the polynomial fragment (no decisions, no division, no calls) -/
def Tree.isPolyLeaf : Tree → Bool
  | .leaf e => e.isPoly
  | _ => false

def Unit.isPoly (u : Unit) : Bool := u.outs.all Tree.isPolyLeaf

@[simp] theorem ringOps_lit (n : Int) (d : Nat) : (ringOps R).lit n d = (n : R) := rfl
@[simp] theorem ringOps_add (a b : R) : (ringOps R).add a b = a + b := rfl
@[simp] theorem ringOps_sub (a b : R) : (ringOps R).sub a b = a - b := rfl
@[simp] theorem ringOps_mul (a b : R) : (ringOps R).mul a b = a * b := rfl
@[simp] theorem ringOps_neg (a : R) : (ringOps R).neg a = -a := rfl

/-- value of output component `j` of a unit in the ring semantics -/
def Unit.rval (u : Unit) (env : Nat → R) (j : Nat) : R := (u.out j).eval (ringOps R) env

end Glm
