import GlmVerif.Sem.Ring
import GlmVerif.Core.Poly
import Mathlib.Algebra.Ring.GrindInstances
import Lean.Data.RArray

/-!
Proof by reflection for polynomial identities between traced expressions.

`polyEq a b` normalises both expressions with the commutative-ring normaliser
that ships with Lean core (`Lean.Grind.CommRing.Expr.toPoly`, whose soundness
theorem `Expr.eq_of_toPoly_eq` is proved there) and compares the normal forms.
`polyEq_sound` turns a kernel-evaluated `polyEq a b = true` into
`∀ R [CommRing R] env, a.eval = b.eval`.  Nothing is trusted beyond the kernel.
-/
namespace Glm
open Lean.Grind.CommRing (Expr)
variable {R : Type} [CommRing R]

theorem E.toG_denote (e : E) (n : Nat) (h0 : 0 < n) (env : Nat → R) (hp : e.isPoly = true)
    (hv : e.maxVar < n) :
    e.toG.denote (Lean.RArray.ofFn (fun i : Fin n => env i) h0) = e.eval (ringOps R) env := by
  induction e with
  | var i =>
    simp only [E.maxVar] at hv
    have := Lean.RArray.get_ofFn (fun i : Fin n => env i) h0 ⟨i, hv⟩
    simpa [E.toG, Expr.denote, E.eval, Lean.Grind.CommRing.Var.denote] using this
  | lit k d => simp [E.toG, Expr.denote, E.eval, ringOps]
  | add a b iha ihb =>
    simp only [E.isPoly, Bool.and_eq_true] at hp
    simp only [E.maxVar] at hv
    simp only [E.toG, Expr.denote, E.eval, ringOps_add]
    rw [← iha hp.1 (by omega), ← ihb hp.2 (by omega)]; rfl
  | sub a b iha ihb =>
    simp only [E.isPoly, Bool.and_eq_true] at hp
    simp only [E.maxVar] at hv
    simp only [E.toG, Expr.denote, E.eval, ringOps_sub]
    rw [← iha hp.1 (by omega), ← ihb hp.2 (by omega)]; rfl
  | mul a b iha ihb =>
    simp only [E.isPoly, Bool.and_eq_true] at hp
    simp only [E.maxVar] at hv
    simp only [E.toG, Expr.denote, E.eval, ringOps_mul]
    rw [← iha hp.1 (by omega), ← ihb hp.2 (by omega)]; rfl
  | neg a iha =>
    simp only [E.isPoly] at hp
    simp only [E.maxVar] at hv
    simp only [E.toG, Expr.denote, E.eval, ringOps_neg]
    rw [← iha hp hv]; rfl
  | _ => simp [E.isPoly] at hp

theorem polyEq_sound {a b : E} (h : polyEq a b = true) (env : Nat → R) :
    a.eval (ringOps R) env = b.eval (ringOps R) env := by
  simp only [polyEq, Bool.and_eq_true] at h
  obtain ⟨⟨ha, hb⟩, hab⟩ := h
  let n := max a.maxVar b.maxVar + 1
  have h0 : 0 < n := by omega
  rw [← E.toG_denote a n h0 env ha (by omega), ← E.toG_denote b n h0 env hb (by omega)]
  exact Expr.eq_of_toPoly_eq _ _ _ hab

end Glm
