import GlmVerif.Sem.Ring
import GlmVerif.Core.Poly
import Mathlib.Algebra.Ring.GrindInstances
import Lean.Data.RArray

/-!
Soundness of the reflective polynomial comparison `polyEq` (`Core/Poly.lean`).

`polyEq_sound`: if the kernel evaluates `polyEq a b` to `true`, then `a` and `b`
evaluate to the same value in **every** semantics `o : Ops R` over a commutative
ring whose `+ - * neg` and integer literals are the ring's (`RingLike`), for
every environment.  Everything else — variables, `sqrt`, `cos`, quotients, type
constants — is an atom, interpreted by `o` itself.  Nothing is trusted beyond
the kernel: the normaliser's correctness theorem `Expr.eq_of_toPoly_eq` is
proved in Lean core.
-/
namespace Glm
open Lean.Grind.CommRing (Expr)
variable {R : Type} [CommRing R]

/-- the operations of `o` on the polynomial constructors are those of the ring `R` -/
structure RingLike (o : Ops R) : Prop where
  add : ∀ a b, o.add a b = a + b
  sub : ∀ a b, o.sub a b = a - b
  mul : ∀ a b, o.mul a b = a * b
  neg : ∀ a, o.neg a = -a
  lit : ∀ n : Int, o.lit n 1 = (n : R)

theorem ringOps_ringLike : RingLike (ringOps R) := ⟨fun _ _ => rfl, fun _ _ => rfl, fun _ _ => rfl, fun _ => rfl, fun _ => rfl⟩

/-- the context interpreting atom number `i` by the value of the `i`-th atom -/
noncomputable def atomCtx (o : Ops R) (env : Nat → R) (A : List E) : Lean.RArray R :=
  Lean.RArray.ofFn (n := A.length + 1) (fun i => (A.getD i default).eval o env) (Nat.succ_pos _)

theorem atomCtx_get_lt (o : Ops R) (env : Nat → R) (A : List E) (i : Nat) (hlt : i < A.length) :
    (atomCtx o env A).get i = (A[i]).eval o env := by
  have := Lean.RArray.get_ofFn (n := A.length + 1) (fun i => (A.getD i default).eval o env)
    (Nat.succ_pos _) ⟨i, by omega⟩
  simp only [atomCtx]
  rw [this]
  simp [List.getD_eq_getElem?_getD, List.getElem?_eq_getElem hlt]

section W
variable (eqv : E → E → Bool)

/-- `t` is represented in `l`: some element of `l` is `eqv` to it -/
def Repr' (l : List E) (t : E) : Prop := ∃ a ∈ l, eqv a t = true

variable {eqv}

theorem repr_insertNew (hrefl : ∀ x, eqv x x = true) {l : List E} {x y : E} (h : Repr' eqv l x ∨ x = y) :
    Repr' eqv (insertNewW eqv l y) x := by
  unfold insertNewW
  split
  · rename_i hany
    rcases h with h | rfl
    · exact h
    · simpa [Repr'] using hany
  · rcases h with ⟨a, ha, hax⟩ | rfl
    · exact ⟨a, by simp [ha], hax⟩
    · exact ⟨x, by simp, hrefl x⟩

theorem repr_foldl_insertNew (hrefl : ∀ x, eqv x x = true) {xs acc : List E} {x : E}
    (h : Repr' eqv acc x ∨ x ∈ xs) : Repr' eqv (xs.foldl (insertNewW eqv) acc) x := by
  induction xs generalizing acc with
  | nil => simpa using h
  | cons y ys ih =>
    rw [List.foldl_cons]
    apply ih
    rcases h with h | h
    · exact Or.inl (repr_insertNew hrefl (Or.inl h))
    · rcases List.mem_cons.1 h with rfl | h
      · exact Or.inl (repr_insertNew hrefl (Or.inr rfl))
      · exact Or.inr h

theorem repr_atomTable (hrefl : ∀ x, eqv x x = true) {es : List E} {e t : E} (he : e ∈ es) (ht : t ∈ e.atoms) :
    Repr' eqv (atomTableW eqv es) t := by
  apply repr_foldl_insertNew hrefl
  exact Or.inr (List.mem_flatMap.2 ⟨e, he, ht⟩)

variable {o : Ops R} (env : Nat → R) (hsound : ∀ x y, eqv x y = true → x.eval o env = y.eval o env)
include hsound

theorem atomCtx_get (A : List E) (t : E) (ht : Repr' eqv A t) :
    (atomCtx o env A).get (atomIdxW eqv A t) = t.eval o env := by
  obtain ⟨a, ha, hat⟩ := ht
  have hex : ∃ x ∈ A, (eqv · t) x = true := ⟨a, ha, hat⟩
  have hlt : atomIdxW eqv A t < A.length := List.findIdx_lt_length_of_exists hex
  rw [atomCtx_get_lt o env A _ hlt]
  exact hsound _ _ (List.findIdx_getElem (p := (eqv · t)) (w := hlt))

theorem E.toGAW_denote (ho : RingLike o) (A : List E) (e : E)
    (hA : ∀ t ∈ e.atoms, Repr' eqv A t) :
    (e.toGAW eqv A).denote (atomCtx o env A) = e.eval o env := by
  induction e with
  | add a b iha ihb =>
    simp only [E.atoms, List.mem_append] at hA
    simp only [E.toGAW, Expr.denote, E.eval, ho.add]
    rw [← iha (fun t h => hA t (Or.inl h)), ← ihb (fun t h => hA t (Or.inr h))]; rfl
  | sub a b iha ihb =>
    simp only [E.atoms, List.mem_append] at hA
    simp only [E.toGAW, Expr.denote, E.eval, ho.sub]
    rw [← iha (fun t h => hA t (Or.inl h)), ← ihb (fun t h => hA t (Or.inr h))]; rfl
  | mul a b iha ihb =>
    simp only [E.atoms, List.mem_append] at hA
    simp only [E.toGAW, Expr.denote, E.eval, ho.mul]
    rw [← iha (fun t h => hA t (Or.inl h)), ← ihb (fun t h => hA t (Or.inr h))]; rfl
  | neg a iha =>
    simp only [E.atoms] at hA
    simp only [E.toGAW, Expr.denote, E.eval, ho.neg]
    rw [← iha hA]; rfl
  | lit n d =>
    by_cases hd : d = 1
    · subst hd; simp [E.toGAW, Expr.denote, E.eval, ho.lit]
    · have hd' : (d == 1) = false := by simpa using hd
      simp only [E.toGAW, hd', Bool.false_eq_true, if_false]
      exact atomCtx_get env hsound A _ (hA _ (by simp [E.atoms, hd']))
  | _ => exact atomCtx_get env hsound A _ (hA _ (by simp [E.atoms]))

theorem polyEqW_sound (ho : RingLike o) (hrefl : ∀ x, eqv x x = true) {a b : E}
    (h : polyEqW eqv a b = true) : a.eval o env = b.eval o env := by
  simp only [polyEqW] at h
  have ha : ∀ t ∈ a.atoms, Repr' eqv (atomTableW eqv [a, b]) t :=
    fun t ht => repr_atomTable hrefl (e := a) (by simp) ht
  have hb : ∀ t ∈ b.atoms, Repr' eqv (atomTableW eqv [a, b]) t :=
    fun t ht => repr_atomTable hrefl (e := b) (by simp) ht
  rw [← E.toGAW_denote env hsound ho _ a ha, ← E.toGAW_denote env hsound ho _ b hb]
  exact Expr.eq_of_toPoly_eq _ _ _ h

end W

theorem atomEqW_refl (peq : E → E → Bool) (x : E) : atomEqW peq x x = true := by simp [atomEqW]

theorem atomEqW_sound {o : Ops R} (env : Nat → R) {peq : E → E → Bool}
    (hp : ∀ a b, peq a b = true → a.eval o env = b.eval o env) {x y : E}
    (h : atomEqW peq x y = true) : x.eval o env = y.eval o env := by
  unfold atomEqW at h
  rw [Bool.or_eq_true] at h
  rcases h with h | h
  · rw [eq_of_beq h]
  · split at h
    · rename_i f a g b
      simp only [Bool.and_eq_true] at h
      simp only [E.eval, eq_of_beq h.1, hp _ _ h.2]
    · rename_i f a1 a2 g b1 b2
      simp only [Bool.and_eq_true] at h
      simp only [E.eval, eq_of_beq h.1.1, hp _ _ h.1.2, hp _ _ h.2]
    all_goals first
      | (rename_i a1 a2 b1 b2
         simp only [Bool.and_eq_true] at h
         simp only [E.eval, hp _ _ h.1, hp _ _ h.2])
      | (rename_i a b
         simp only [E.eval, hp _ _ h])
      | simp at h

theorem polyEqN_sound {o : Ops R} (ho : RingLike o) (env : Nat → R) (n : Nat) :
    ∀ a b, polyEqN n a b = true → a.eval o env = b.eval o env := by
  induction n with
  | zero => intro a b h; simp only [polyEqN] at h; rw [eq_of_beq h]
  | succ n ih =>
    intro a b h
    simp only [polyEqN] at h
    exact polyEqW_sound env (fun x y hxy => atomEqW_sound env ih hxy) ho (atomEqW_refl _) h

theorem polyEq_sound' {o : Ops R} (ho : RingLike o) {a b : E} (h : polyEq a b = true) (env : Nat → R) :
    a.eval o env = b.eval o env := polyEqN_sound ho env 4 a b h

theorem rw1_sound {α : Type} (o : Ops α) (env : Nat → α) {σ : List (E × E)}
    (hσ : ∀ p ∈ σ, p.1.eval o env = p.2.eval o env) (e : E) : (rw1 σ e).eval o env = e.eval o env := by
  unfold rw1
  split
  · rename_i p hp
    have hmem := List.mem_of_find?_eq_some hp
    have hk := List.find?_some hp
    rw [← hσ p hmem, eq_of_beq hk]
  · rfl

theorem E.rewrite_sound {α : Type} (o : Ops α) (env : Nat → α) {σ : List (E × E)}
    (hσ : ∀ p ∈ σ, p.1.eval o env = p.2.eval o env) (e : E) : (e.rewrite σ).eval o env = e.eval o env := by
  induction e with
  | add a b iha ihb | sub a b iha ihb | mul a b iha ihb | div a b iha ihb =>
    simp only [E.rewrite, rw1_sound o env hσ, E.eval, iha, ihb]
  | neg a iha => simp only [E.rewrite, rw1_sound o env hσ, E.eval, iha]
  | call1 f a iha => simp only [E.rewrite, rw1_sound o env hσ, E.eval, iha]
  | call2 f a b iha ihb => simp only [E.rewrite, rw1_sound o env hσ, E.eval, iha, ihb]
  | call3 f a b c iha ihb ihc => simp only [E.rewrite, rw1_sound o env hσ, E.eval, iha, ihb, ihc]
  | _ => simp only [E.rewrite, rw1_sound o env hσ]

/-- the ring-semantics instance used by the division-free families -/
theorem polyEq_sound {a b : E} (h : polyEq a b = true) (env : Nat → R) :
    a.eval (ringOps R) env = b.eval (ringOps R) env := polyEq_sound' ringOps_ringLike h env

theorem sumE_eval' {o : Ops R} (ho : RingLike o) (l : List E) (env : Nat → R) :
    (sumE l).eval o env = (l.map (fun e => e.eval o env)).sum := by
  induction l with
  | nil => simp [sumE, E.eval, ho.lit]
  | cons a as ih =>
    cases as with
    | nil => simp [sumE]
    | cons b bs => simp only [sumE, E.eval, ho.add, ih, List.map_cons, List.sum_cons]

theorem sumE_eval (l : List E) (env : Nat → R) :
    (sumE l).eval (ringOps R) env = (l.map (fun e => e.eval (ringOps R) env)).sum :=
  sumE_eval' ringOps_ringLike l env

/-- identities modulo hypotheses: `a - b = Σ cᵢ (lᵢ - rᵢ)` and every `lᵢ = rᵢ` holds under `env` -/
theorem polyEqMod_sound {o : Ops R} (ho : RingLike o) {hyps : List (E × E)} {cert : List E} {a b : E}
    (h : polyEqMod hyps cert a b = true) (env : Nat → R)
    (hh : ∀ p ∈ hyps, p.1.eval o env = p.2.eval o env) :
    a.eval o env = b.eval o env := by
  simp only [polyEqMod, Bool.and_eq_true] at h
  have := polyEq_sound' ho h.2 env
  rw [sumE_eval' ho] at this
  simp only [E.eval, ho.sub] at this
  have hz : (List.map (fun e => e.eval o env)
      (List.map (fun x => E.mul x.2 (E.sub x.1.1 x.1.2)) (hyps.zip cert))).sum = 0 := by
    apply List.sum_eq_zero
    intro x hx
    simp only [List.mem_map] at hx
    obtain ⟨e, ⟨p, hp, rfl⟩, rfl⟩ := hx
    have := hh p.1 (List.of_mem_zip hp).1
    simp [E.eval, ho.mul, ho.sub, this]
  rw [hz] at this
  exact sub_eq_zero.1 this

end Glm
