import GlmVerif.Sem.Field
import GlmVerif.Spec.Basic

/-!
From a kernel-checked family table (`Family.ok look = true`) to the statement the
property makes: for every unit of the family, every checked component and every
environment, (the family's expression over) the generated model of the glm code
evaluates to the textbook specification — in every ring-like semantics (`poly`),
in every semantics at all (`syn`), in every field-like semantics given
non-vanishing divisors (`frac`), and modulo stated hypotheses (`polyMod`, `fracMod`).
-/
namespace Glm

theorem leafList_getD {ts : List Tree} {l : List E} (h : leafList ts = some l) (i : Nat) :
    ts.getD i (.leaf (.lit 0 1)) = .leaf (l.getD i (.lit 0 1)) := by
  induction ts generalizing l i with
  | nil => simp [leafList] at h; subst h; simp
  | cons t ts ih =>
    cases t with
    | leaf e =>
      simp only [leafList, Option.map_eq_some_iff] at h
      obtain ⟨l', hl', rfl⟩ := h
      cases i with
      | zero => simp
      | succ i => simpa using ih hl' i
    | branch c a b => simp [leafList] at h

theorem Unit.out_of_leafOuts {u : Unit} {l : List E} (h : u.leafOuts = some l) (i : Nat) :
    u.out i = .leaf (l.getD i (.lit 0 1)) := leafList_getD h i

/-- what a passed table entry gives: the unit is decision-free and each checked component passes -/
theorem Family.okAt_elim {f : Family} {look : String → List Nat → Unit} (h : f.ok look = true)
    {ks : List Nat} (hks : ks ∈ f.keys) :
    ∃ l, (look f.unit ks).leafOuts = some l ∧
      (∀ i, (look f.unit ks).out i = .leaf (l.getD i (.lit 0 1))) ∧
      ∀ j < f.nOut ks, f.compOK ks (fun i => l.getD i (.lit 0 1)) j = true := by
  simp only [Family.ok, List.all_eq_true] at h
  have := h ks hks
  unfold Family.okAt at this
  split at this
  · simp at this
  · rename_i l hl
    simp only [Bool.and_eq_true, List.all_eq_true, List.mem_range] at this
    exact ⟨l, hl, Unit.out_of_leafOuts hl, this.2⟩

theorem Family.outE_eq {f : Family} {look : String → List Nat → Unit} (h : f.ok look = true)
    {ks : List Nat} (hks : ks ∈ f.keys) :
    (∀ i, (look f.unit ks).out i = .leaf ((look f.unit ks).outE i)) ∧
    ∀ j < f.nOut ks, f.compOK ks (look f.unit ks).outE j = true := by
  obtain ⟨l, _, h2, h3⟩ := Family.okAt_elim h hks
  have : (look f.unit ks).outE = fun i => l.getD i (.lit 0 1) := by
    funext i; simp [Unit.outE, h2 i]
  rw [this]; exact ⟨h2, h3⟩

variable {f : Family} {look : String → List Nat → Unit}

theorem Family.poly_sound {R : Type} [CommRing R] {o : Ops R} (ho : RingLike o)
    (h : f.ok look = true) (hk : f.kind = .poly)
    {ks : List Nat} (hks : ks ∈ f.keys) {j : Nat} (hj : j < f.nOut ks) (env : Nat → R) :
    (f.post ks (look f.unit ks).outE j).eval o env = (f.spec ks j).eval o env := by
  have := (Family.outE_eq h hks).2 j hj
  simp only [Family.compOK, hk] at this
  exact polyEq_sound' ho this env

theorem Family.syn_sound {α : Type} (o : Ops α)
    (h : f.ok look = true) (hk : f.kind = .syn)
    {ks : List Nat} (hks : ks ∈ f.keys) {j : Nat} (hj : j < f.nOut ks) (env : Nat → α) :
    (f.post ks (look f.unit ks).outE j).eval o env = (f.spec ks j).eval o env := by
  have := (Family.outE_eq h hks).2 j hj
  simp only [Family.compOK, hk] at this
  rw [eq_of_beq this]

theorem Family.frac_sound {K : Type} [Field K] [CharZero K] {o : Ops K} (ho : FieldLike o)
    (h : f.ok look = true) (hk : f.kind = .frac)
    {ks : List Nat} (hks : ks ∈ f.keys) {j : Nat} (hj : j < f.nOut ks) (env : Nat → K)
    (hall : ∀ a ∈ f.allowed ks, a.divOK o env ∧ a.eval o env ≠ 0) :
    (f.post ks (look f.unit ks).outE j).divOK o env ∧
    (f.post ks (look f.unit ks).outE j).eval o env = (f.spec ks j).eval o env := by
  have := (Family.outE_eq h hks).2 j hj
  simp only [Family.compOK, hk, Bool.and_eq_true] at this
  have hd := E.divOK_of_allowed ho _ this.1.2 env hall
  exact ⟨hd, fracEq_sound ho this.1.1 env hd (E.divOK_of_allowed ho _ this.2 env hall)⟩

theorem Family.polyMod_sound {R : Type} [CommRing R] {o : Ops R} (ho : RingLike o)
    (h : f.ok look = true) (hk : f.kind = .polyMod)
    {ks : List Nat} (hks : ks ∈ f.keys) {j : Nat} (hj : j < f.nOut ks) (env : Nat → R)
    (hh : ∀ p ∈ f.hyps ks, p.1.eval o env = p.2.eval o env) :
    (f.post ks (look f.unit ks).outE j).eval o env = (f.spec ks j).eval o env := by
  have := (Family.outE_eq h hks).2 j hj
  simp only [Family.compOK, hk] at this
  exact polyEqMod_sound ho this env hh

theorem Family.fracMod_sound {K : Type} [Field K] [CharZero K] {o : Ops K} (ho : FieldLike o)
    (h : f.ok look = true) (hk : f.kind = .fracMod)
    {ks : List Nat} (hks : ks ∈ f.keys) {j : Nat} (hj : j < f.nOut ks) (env : Nat → K)
    (hh : ∀ p ∈ f.hyps ks, p.1.eval o env = p.2.eval o env)
    (hall : ∀ a ∈ f.allowed ks, a.divOK o env ∧ a.eval o env ≠ 0) :
    (f.post ks (look f.unit ks).outE j).divOK o env ∧
    (f.post ks (look f.unit ks).outE j).eval o env = (f.spec ks j).eval o env := by
  have := (Family.outE_eq h hks).2 j hj
  simp only [Family.compOK, hk, Bool.and_eq_true] at this
  have hd := E.divOK_of_allowed ho _ this.1.2 env hall
  exact ⟨hd, fracEqMod_sound ho this.1.1 env hh hd (E.divOK_of_allowed ho _ this.2 env hall)⟩

/-- for families that compare the outputs themselves (`post` = identity) -/
theorem Family.out_eval {α : Type} (o : Ops α) (h : f.ok look = true)
    {ks : List Nat} (hks : ks ∈ f.keys) (i : Nat) (env : Nat → α) :
    ((look f.unit ks).out i).eval o env = ((look f.unit ks).outE i).eval o env := by
  rw [(Family.outE_eq h hks).1 i]; rfl

end Glm
