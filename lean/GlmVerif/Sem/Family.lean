import GlmVerif.Sem.TreeEqv
import GlmVerif.Spec.Basic

/-!
From a kernel-checked family table (`Family.ok look = true`) to the statement the
property makes: for every unit of the family, every checked component and every
environment, (the family's expression over) the generated model of the glm code
evaluates to the textbook specification — in every ring-like semantics (`poly`),
in every semantics at all (`syn`), in every field-like semantics given
non-vanishing divisors (`frac`), and modulo stated hypotheses (`polyMod`, `fracMod`).
-/
namespace Glm

theorem leafList_getD {ts : List Tree} {l : List E} (h : leafList ts = some l) (i : Nat) :
    ts.getD i (.leaf (.lit 0 1)) = .leaf (l.getD i (.lit 0 1)) := by
  induction ts generalizing l i with
  | nil => simp [leafList] at h; subst h; simp
  | cons t ts ih =>
    cases t with
    | leaf e =>
      simp only [leafList, Option.map_eq_some_iff] at h
      obtain ⟨l', hl', rfl⟩ := h
      cases i with
      | zero => simp
      | succ i => simpa using ih hl' i
    | branch c a b => simp [leafList] at h

theorem Unit.out_of_leafOuts {u : Unit} {l : List E} (h : u.leafOuts = some l) (i : Nat) :
    u.out i = .leaf (l.getD i (.lit 0 1)) := leafList_getD h i

/-- what a passed table entry gives: the unit is decision-free and each checked component passes -/
theorem Family.okAt_elim {f : Family} {look : String → List Nat → Unit} (h : f.ok look = true)
    (htm : f.treeMode = false) {ks : List Nat} (hks : ks ∈ f.keys) :
    ∃ l, (look f.unit ks).leafOuts = some l ∧
      (∀ i, (look f.unit ks).out i = .leaf (l.getD i (.lit 0 1))) ∧
      ∀ j < f.nOut ks, f.compOK ks (fun i => l.getD i (.lit 0 1)) j = true := by
  simp only [Family.ok, List.all_eq_true] at h
  have := h ks hks
  unfold Family.okAt at this
  rw [Bool.and_eq_true] at this
  replace this := this.2
  rw [if_neg (by simpa using htm)] at this
  split at this
  · simp at this
  · rename_i l hl
    simp only [Bool.and_eq_true, List.all_eq_true, List.mem_range] at this
    exact ⟨l, hl, Unit.out_of_leafOuts hl, this.2⟩

theorem Family.outE_eq {f : Family} {look : String → List Nat → Unit} (h : f.ok look = true)
    (htm : f.treeMode = false) {ks : List Nat} (hks : ks ∈ f.keys) :
    (∀ i, (look f.unit ks).out i = .leaf ((look f.unit ks).outE i)) ∧
    ∀ j < f.nOut ks, f.compOK ks (look f.unit ks).outE j = true := by
  obtain ⟨l, _, h2, h3⟩ := Family.okAt_elim h htm hks
  have : (look f.unit ks).outE = fun i => l.getD i (.lit 0 1) := by
    funext i; simp [Unit.outE, h2 i]
  rw [this]; exact ⟨h2, h3⟩

variable {f : Family} {look : String → List Nat → Unit}

theorem Family.poly_sound {R : Type} [CommRing R] {o : Ops R} (ho : RingLike o)
    (h : f.ok look = true) (htm : f.treeMode = false) (hk : f.kind = .poly)
    {ks : List Nat} (hks : ks ∈ f.keys) {j : Nat} (hj : j < f.nOut ks) (env : Nat → R) :
    (f.post ks (look f.unit ks).outE j).eval o env = (f.spec ks j).eval o env := by
  have := (Family.outE_eq h htm hks).2 j hj
  simp only [Family.compOK, Family.leafOK, hk, Bool.or_eq_true] at this
  rcases this with h1 | h1
  · rw [eq_of_beq h1]
  · exact polyEq_sound' ho h1 env

theorem Family.syn_sound {α : Type} (o : Ops α)
    (h : f.ok look = true) (htm : f.treeMode = false) (hk : f.kind = .syn)
    {ks : List Nat} (hks : ks ∈ f.keys) {j : Nat} (hj : j < f.nOut ks) (env : Nat → α) :
    (f.post ks (look f.unit ks).outE j).eval o env = (f.spec ks j).eval o env := by
  have := (Family.outE_eq h htm hks).2 j hj
  simp only [Family.compOK, Family.leafOK, hk] at this
  rw [eq_of_beq this]

theorem Family.frac_sound {K : Type} [Field K] [CharZero K] {o : Ops K} (ho : FieldLike o)
    (h : f.ok look = true) (htm : f.treeMode = false) (hk : f.kind = .frac) (hdf : f.divFree = false)
    {ks : List Nat} (hks : ks ∈ f.keys) {j : Nat} (hj : j < f.nOut ks) (env : Nat → K)
    (hall : ∀ a ∈ f.allowed ks, a.divOK o env ∧ a.eval o env ≠ 0) :
    (f.post ks (look f.unit ks).outE j).divOK o env ∧
    (f.post ks (look f.unit ks).outE j).eval o env = (f.spec ks j).eval o env := by
  have := (Family.outE_eq h htm hks).2 j hj
  simp only [Family.compOK, Family.leafOK, hk, hdf, Bool.false_or, Bool.and_eq_true, Bool.or_eq_true] at this
  have hd := E.divOK_of_allowed ho _ this.2.1 env hall
  refine ⟨hd, ?_⟩
  rcases this.1 with h1 | h1
  · rw [eq_of_beq h1]
  · exact fracEq_sound ho h1 env hd (E.divOK_of_allowed ho _ this.2.2 env hall)

/-- `frac` family with `divFree`: the identity holds whenever neither side divides by zero -/
theorem Family.frac_divfree_sound {K : Type} [Field K] [CharZero K] {o : Ops K} (ho : FieldLike o)
    (h : f.ok look = true) (htm : f.treeMode = false) (hk : f.kind = .frac)
    {ks : List Nat} (hks : ks ∈ f.keys) {j : Nat} (hj : j < f.nOut ks) (env : Nat → K)
    (hd1 : (f.post ks (look f.unit ks).outE j).divOK o env) (hd2 : (f.spec ks j).divOK o env) :
    (f.post ks (look f.unit ks).outE j).eval o env = (f.spec ks j).eval o env := by
  have := (Family.outE_eq h htm hks).2 j hj
  simp only [Family.compOK, Family.leafOK, hk, Bool.and_eq_true, Bool.or_eq_true] at this
  rcases this.1 with h1 | h1
  · rw [eq_of_beq h1]
  · exact fracEq_sound ho h1 env hd1 hd2

theorem Family.polyMod_sound {R : Type} [CommRing R] {o : Ops R} (ho : RingLike o)
    (h : f.ok look = true) (htm : f.treeMode = false) (hk : f.kind = .polyMod)
    {ks : List Nat} (hks : ks ∈ f.keys) {j : Nat} (hj : j < f.nOut ks) (env : Nat → R)
    (hh : ∀ p ∈ f.hyps ks, p.1.eval o env = p.2.eval o env)
    (hrw : ∀ p ∈ f.rw ks, p.1.eval o env = p.2.eval o env) :
    (f.post ks (look f.unit ks).outE j).eval o env = (f.spec ks j).eval o env := by
  have := (Family.outE_eq h htm hks).2 j hj
  simp only [Family.compOK, Family.leafOK, hk] at this
  rw [← E.rewrite_sound o env hrw]
  exact polyEqMod_sound ho this env hh

theorem Family.fracMod_sound {K : Type} [Field K] [CharZero K] {o : Ops K} (ho : FieldLike o)
    (h : f.ok look = true) (htm : f.treeMode = false) (hk : f.kind = .fracMod)
    {ks : List Nat} (hks : ks ∈ f.keys) {j : Nat} (hj : j < f.nOut ks) (env : Nat → K)
    (hh : ∀ p ∈ f.hyps ks, p.1.eval o env = p.2.eval o env)
    (hall : ∀ a ∈ f.allowed ks, a.divOK o env ∧ a.eval o env ≠ 0) :
    (f.post ks (look f.unit ks).outE j).divOK o env ∧
    (f.post ks (look f.unit ks).outE j).eval o env = (f.spec ks j).eval o env := by
  have := (Family.outE_eq h htm hks).2 j hj
  simp only [Family.compOK, Family.leafOK, hk, Bool.and_eq_true] at this
  have hd := E.divOK_of_allowed ho _ this.1.2 env hall
  exact ⟨hd, fracEqMod_sound ho this.1.1 env hh hd (E.divOK_of_allowed ho _ this.2 env hall)⟩

/-- for families that compare the outputs themselves (`post` = identity) -/
theorem Family.out_eval {α : Type} (o : Ops α) (h : f.ok look = true) (htm : f.treeMode = false)
    {ks : List Nat} (hks : ks ∈ f.keys) (i : Nat) (env : Nat → α) :
    ((look f.unit ks).out i).eval o env = ((look f.unit ks).outE i).eval o env := by
  rw [(Family.outE_eq h htm hks).1 i]; rfl

/-! ### tree mode: units that branch -/

theorem condOK_sound {R : Type} [CommRing R] {o : Ops R} (ho : RingLike o) {c c' : C}
    (h : condOK c c' = true) (env : Nat → R) : c.eval o env = c'.eval o env := by
  induction c generalizing c' with
  | lt a b =>
    cases c' with
    | lt a' b' =>
      simp only [condOK, Bool.and_eq_true] at h
      simp only [C.eval, polyEq_sound' ho h.1 env, polyEq_sound' ho h.2 env]
    | _ => simp [condOK] at h
  | le a b =>
    cases c' with
    | le a' b' =>
      simp only [condOK, Bool.and_eq_true] at h
      simp only [C.eval, polyEq_sound' ho h.1 env, polyEq_sound' ho h.2 env]
    | _ => simp [condOK] at h
  | eq a b =>
    cases c' with
    | eq a' b' =>
      simp only [condOK, Bool.and_eq_true] at h
      simp only [C.eval, polyEq_sound' ho h.1 env, polyEq_sound' ho h.2 env]
    | _ => simp [condOK] at h
  | isnan a =>
    cases c' with
    | isnan a' => simp only [condOK] at h; rw [eq_of_beq h]
    | _ => simp [condOK] at h
  | isinf a =>
    cases c' with
    | isinf a' => simp only [condOK] at h; rw [eq_of_beq h]
    | _ => simp [condOK] at h
  | not c ih =>
    cases c' with
    | not c' => simp only [condOK] at h; simp only [C.eval, ih h]
    | _ => simp [condOK] at h
  | and a b iha ihb =>
    cases c' with
    | and a' b' => simp only [condOK, Bool.and_eq_true] at h; simp only [C.eval, iha h.1, ihb h.2]
    | _ => simp [condOK] at h
  | or a b iha ihb =>
    cases c' with
    | or a' b' => simp only [condOK, Bool.and_eq_true] at h; simp only [C.eval, iha h.1, ihb h.2]
    | _ => simp [condOK] at h

/-- same decisions, same leaves (in the sense of `leafOK`, assumed sound under `env`) ⇒ same value -/
theorem treeOK_sound {R : Type} [CommRing R] {o : Ops R} (ho : RingLike o) {leafOK : E → E → Bool}
    (env : Nat → R) (hleaf : ∀ a b, leafOK a b = true → a.eval o env = b.eval o env)
    {t s : Tree} (h : treeOK leafOK t s = true) : t.eval o env = s.eval o env := by
  induction t generalizing s with
  | leaf a =>
    cases s with
    | leaf b => simp only [treeOK] at h; exact hleaf _ _ h
    | _ => simp [treeOK] at h
  | branch c t f iht ihf =>
    cases s with
    | branch c' t' f' =>
      simp only [treeOK, Bool.and_eq_true] at h
      simp only [Tree.eval, condOK_sound ho h.1.1 env, iht h.1.2, ihf h.2]
    | _ => simp [treeOK] at h

theorem Family.tree_elim (h : f.ok look = true) (htm : f.treeMode = true) (hw : f.treeWalk = false)
    {ks : List Nat} (hks : ks ∈ f.keys) {j : Nat} (hj : j < f.nOut ks) :
    treeOK (f.leafOK ks j) ((look f.unit ks).out j) (f.specT ks j) = true := by
  simp only [Family.ok, List.all_eq_true] at h
  have := h ks hks
  unfold Family.okAt at this
  rw [Bool.and_eq_true] at this
  replace this := this.2
  rw [if_pos htm] at this
  simp only [Bool.and_eq_true, List.all_eq_true, List.mem_range] at this
  have hj' := this.2 j hj
  rw [if_neg (by simp [hw])] at hj'
  exact hj'

theorem Family.walk_elim (h : f.ok look = true) (htm : f.treeMode = true) (hw : f.treeWalk = true)
    {ks : List Nat} (hks : ks ∈ f.keys) {j : Nat} (hj : j < f.nOut ks) :
    treeEqv impliedAll (fun _ a b => f.leafOK ks j a b) [] ((look f.unit ks).out j) (f.specT ks j) = true := by
  simp only [Family.ok, List.all_eq_true] at h
  have := h ks hks
  unfold Family.okAt at this
  rw [Bool.and_eq_true] at this
  replace this := this.2
  rw [if_pos htm] at this
  simp only [Bool.and_eq_true, List.all_eq_true, List.mem_range] at this
  have hj' := this.2 j hj
  rw [if_pos hw] at hj'
  exact hj'

/-- **walk mode**: the traced tree and a specification tree of another shape agree for every input, in every
    ordered-field semantics (`poly` leaves) -/
theorem Family.walk_poly_sound {K : Type} [Field K] [LinearOrder K] [IsStrictOrderedRing K] {o : Ops K}
    (ho : OrderedEqLike o) (h : f.ok look = true) (htm : f.treeMode = true) (hw : f.treeWalk = true) (hk : f.kind = .poly)
    {ks : List Nat} (hks : ks ∈ f.keys) {j : Nat} (hj : j < f.nOut ks) (env : Nat → K) :
    ((look f.unit ks).out j).eval o env = (f.specT ks j).eval o env := by
  obtain ⟨path, _, hl⟩ := treeEqv_sound (impliedAll_sound ho env) _ _ (Family.walk_elim h htm hw hks hj)
    (by intro cb hcb; cases hcb)
  rw [Tree.eval_eq_select o env ((look f.unit ks).out j), Tree.eval_eq_select o env (f.specT ks j)]
  simp only [Family.leafOK, hk, Bool.or_eq_true] at hl
  rcases hl with h1 | h1
  · rw [eq_of_beq h1]
  · exact polyEq_sound' ho.toRingLike h1 env

theorem Family.tree_poly_sound {R : Type} [CommRing R] {o : Ops R} (ho : RingLike o)
    (h : f.ok look = true) (htm : f.treeMode = true) (hw : f.treeWalk = false) (hk : f.kind = .poly)
    {ks : List Nat} (hks : ks ∈ f.keys) {j : Nat} (hj : j < f.nOut ks) (env : Nat → R) :
    ((look f.unit ks).out j).eval o env = (f.specT ks j).eval o env := by
  refine treeOK_sound ho env ?_ (Family.tree_elim h htm hw hks hj)
  intro a b hab
  simp only [Family.leafOK, hk, Bool.or_eq_true] at hab
  rcases hab with h1 | h1
  · rw [eq_of_beq h1]
  · exact polyEq_sound' ho h1 env

theorem Family.tree_syn_sound {R : Type} [CommRing R] {o : Ops R} (ho : RingLike o)
    (h : f.ok look = true) (htm : f.treeMode = true) (hw : f.treeWalk = false) (hk : f.kind = .syn)
    {ks : List Nat} (hks : ks ∈ f.keys) {j : Nat} (hj : j < f.nOut ks) (env : Nat → R) :
    ((look f.unit ks).out j).eval o env = (f.specT ks j).eval o env := by
  refine treeOK_sound ho env ?_ (Family.tree_elim h htm hw hks hj)
  intro a b hab
  simp only [Family.leafOK, hk] at hab
  rw [eq_of_beq hab]

theorem Family.tree_polyMod_sound {R : Type} [CommRing R] {o : Ops R} (ho : RingLike o)
    (h : f.ok look = true) (htm : f.treeMode = true) (hw : f.treeWalk = false) (hk : f.kind = .polyMod)
    {ks : List Nat} (hks : ks ∈ f.keys) {j : Nat} (hj : j < f.nOut ks) (env : Nat → R)
    (hh : ∀ p ∈ f.hyps ks, p.1.eval o env = p.2.eval o env)
    (hrw : ∀ p ∈ f.rw ks, p.1.eval o env = p.2.eval o env) :
    ((look f.unit ks).out j).eval o env = (f.specT ks j).eval o env := by
  refine treeOK_sound ho env ?_ (Family.tree_elim h htm hw hks hj)
  intro a b hab
  simp only [Family.leafOK, hk] at hab
  rw [← E.rewrite_sound o env hrw]
  exact polyEqMod_sound ho hab env hh

theorem Family.tree_frac_sound {K : Type} [Field K] [CharZero K] {o : Ops K} (ho : FieldLike o)
    (h : f.ok look = true) (htm : f.treeMode = true) (hw : f.treeWalk = false) (hk : f.kind = .frac)
    {ks : List Nat} (hks : ks ∈ f.keys) {j : Nat} (hj : j < f.nOut ks) (env : Nat → K)
    (hall : ∀ a ∈ f.allowed ks, a.divOK o env ∧ a.eval o env ≠ 0) (hdf : f.divFree = false) :
    ((look f.unit ks).out j).eval o env = (f.specT ks j).eval o env := by
  refine treeOK_sound ho.toRingLike env ?_ (Family.tree_elim h htm hw hks hj)
  intro a b hab
  simp only [Family.leafOK, hk, hdf, Bool.false_or, Bool.and_eq_true, Bool.or_eq_true] at hab
  rcases hab.1 with h1 | h1
  · rw [eq_of_beq h1]
  · exact fracEq_sound ho h1 env (E.divOK_of_allowed ho _ hab.2.1 env hall)
      (E.divOK_of_allowed ho _ hab.2.2 env hall)

theorem Family.tree_fracMod_sound {K : Type} [Field K] [CharZero K] {o : Ops K} (ho : FieldLike o)
    (h : f.ok look = true) (htm : f.treeMode = true) (hw : f.treeWalk = false) (hk : f.kind = .fracMod)
    {ks : List Nat} (hks : ks ∈ f.keys) {j : Nat} (hj : j < f.nOut ks) (env : Nat → K)
    (hh : ∀ p ∈ f.hyps ks, p.1.eval o env = p.2.eval o env)
    (hall : ∀ a ∈ f.allowed ks, a.divOK o env ∧ a.eval o env ≠ 0) :
    ((look f.unit ks).out j).eval o env = (f.specT ks j).eval o env := by
  refine treeOK_sound ho.toRingLike env ?_ (Family.tree_elim h htm hw hks hj)
  intro a b hab
  simp only [Family.leafOK, hk, Bool.and_eq_true] at hab
  exact fracEqMod_sound ho hab.1.1 env hh (E.divOK_of_allowed ho _ hab.1.2 env hall)
    (E.divOK_of_allowed ho _ hab.2 env hall)

/-- **definedness** of a guarded family: in every ordered-field semantics, for every environment, the
    leaf the code selects evaluates `sqrt`/`acos`/`asin`/`log` only inside their domains -/
theorem Family.guard_sound {K : Type} [Field K] [LinearOrder K] [IsStrictOrderedRing K] {o : Ops K}
    (ho : OrderedLike o) (h : f.ok look = true) (hg : f.guard = true)
    {ks : List Nat} (hks : ks ∈ f.keys) {j : Nat} (hj : j < f.nRaw ks) (env : Nat → K) :
    (((look f.unit ks).out j).select o env).Defined o env := by
  simp only [Family.ok, List.all_eq_true] at h
  have := h ks hks
  unfold Family.okAt at this
  rw [Bool.and_eq_true] at this
  have hg' := this.1
  simp only [hg, Bool.not_true, Bool.false_or, List.all_eq_true, List.mem_range] at hg'
  exact Tree.guarded_sound ho env _ (path := []) (by intro cb hcb; simp at hcb) (hg' j hj)

/-- **walk mode, rational leaves**: the traced tree and a specification tree of another shape select, for every input, leaves that are equal as
    rational functions; so the two trees evaluate alike in every ordered field whenever neither selected leaf divides by zero -/
theorem Family.walk_frac_sound {K : Type} [Field K] [LinearOrder K] [IsStrictOrderedRing K] {o : Ops K}
    (ho : OrderedEqLike o) (h : f.ok look = true) (htm : f.treeMode = true) (hw : f.treeWalk = true) (hk : f.kind = .frac)
    {ks : List Nat} (hks : ks ∈ f.keys) {j : Nat} (hj : j < f.nOut ks) (env : Nat → K)
    (hd1 : (((look f.unit ks).out j).select o env).divOK o env) (hd2 : ((f.specT ks j).select o env).divOK o env) :
    ((look f.unit ks).out j).eval o env = (f.specT ks j).eval o env := by
  obtain ⟨path, _, hl⟩ := treeEqv_sound (impliedAll_sound ho env) _ _ (Family.walk_elim h htm hw hks hj)
    (by intro cb hcb; cases hcb)
  rw [Tree.eval_eq_select o env ((look f.unit ks).out j), Tree.eval_eq_select o env (f.specT ks j)]
  simp only [Family.leafOK, hk, Bool.and_eq_true, Bool.or_eq_true] at hl
  rcases hl.1 with h1 | h1
  · rw [eq_of_beq h1]
  · exact fracEq_sound ho.toOrderedLike.toFieldLike h1 env hd1 hd2

end Glm
