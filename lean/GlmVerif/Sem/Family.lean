import GlmVerif.Sem.Field
import GlmVerif.Spec.Basic

/-!
From a kernel-checked family table (`Family.ok look = true`) to the statement the
property makes: for every unit of the family, every output component and every
environment, the generated model of the glm code evaluates to the textbook
specification — in every ring-like semantics (`poly`), in every semantics at all
(`syn`), in every field-like semantics given non-vanishing divisors (`frac`).
-/
namespace Glm

theorem Unit.polyAgrees_sound' {R : Type} [CommRing R] {o : Ops R} (ho : RingLike o)
    {u : Unit} {n : Nat} {spec : Nat → E}
    (h : u.polyAgrees n spec = true) (j : Nat) (hj : j < n) (env : Nat → R) :
    (u.out j).eval o env = (spec j).eval o env := by
  simp only [Unit.polyAgrees, Bool.and_eq_true, List.all_eq_true, List.mem_range] at h
  have := h.2 j hj
  split at this
  · rename_i e he
    rw [he]; exact polyEq_sound' ho this env
  · simp at this

theorem Unit.synAgrees_sound {α : Type} (o : Ops α) {u : Unit} {n : Nat} {spec : Nat → E}
    (h : u.synAgrees n spec = true) (j : Nat) (hj : j < n) (env : Nat → α) :
    (u.out j).eval o env = (spec j).eval o env := by
  simp only [Unit.synAgrees, Bool.and_eq_true, List.all_eq_true, List.mem_range] at h
  have := eq_of_beq (h.2 j hj)
  rw [this]; rfl

theorem Family.poly_sound {R : Type} [CommRing R] {o : Ops R} (ho : RingLike o) {f : Family}
    {look : String → List Nat → Unit} (h : f.ok look = true) (hk : f.kind = .poly)
    {ks : List Nat} (hks : ks ∈ f.keys) {j : Nat} (hj : j < f.nOut ks) (env : Nat → R) :
    ((look f.name ks).out j).eval o env = (f.spec ks j).eval o env := by
  simp only [Family.ok, List.all_eq_true] at h
  have := h ks hks
  simp only [Family.okAt, hk] at this
  exact Unit.polyAgrees_sound' ho this j hj env

theorem Family.syn_sound {α : Type} (o : Ops α) {f : Family}
    {look : String → List Nat → Unit} (h : f.ok look = true) (hk : f.kind = .syn)
    {ks : List Nat} (hks : ks ∈ f.keys) {j : Nat} (hj : j < f.nOut ks) (env : Nat → α) :
    ((look f.name ks).out j).eval o env = (f.spec ks j).eval o env := by
  simp only [Family.ok, List.all_eq_true] at h
  have := h ks hks
  simp only [Family.okAt, hk] at this
  exact Unit.synAgrees_sound o this j hj env

theorem Family.frac_sound {K : Type} [Field K] [CharZero K] {o : Ops K} (ho : FieldLike o) {f : Family}
    {look : String → List Nat → Unit} (h : f.ok look = true) (hk : f.kind = .frac)
    {ks : List Nat} (hks : ks ∈ f.keys) {j : Nat} (hj : j < f.nOut ks) (env : Nat → K)
    (hall : ∀ a ∈ f.allowed ks, a.divOK o env ∧ a.eval o env ≠ 0) :
    ((look f.name ks).out j).eval o env = (f.spec ks j).eval o env := by
  simp only [Family.ok, List.all_eq_true] at h
  have := h ks hks
  simp only [Family.okAt, hk] at this
  exact Unit.fracAgrees_sound ho this j hj env hall

end Glm
