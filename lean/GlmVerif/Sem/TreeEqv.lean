import GlmVerif.Sem.Guard
import GlmVerif.Core.TreeEqv
/-!
Soundness of `treeEqv`: two decision trees of different shape select, in every environment, a pair of
leaves that passed the leaf comparison under a path of decisions that holds in that environment.
-/
namespace Glm

section generic
variable {α : Type}

/-- the decisions recorded on the path are the ones the environment takes -/
def PathHolds (o : Ops α) (env : Nat → α) (path : Path) : Prop := ∀ cb ∈ path, cb.1.eval o env = cb.2

theorem PathHolds.cons {o : Ops α} {env : Nat → α} {path : Path} (hp : PathHolds o env path) {c : C} {b : Bool}
    (hc : c.eval o env = b) : PathHolds o env ((c, b) :: path) := by
  intro cb hcb; rcases List.mem_cons.1 hcb with rfl | hcb
  · exact hc
  · exact hp cb hcb

/-- what the leaf comparison must guarantee -/
def ImpSound (o : Ops α) (env : Nat → α) (imp : Path → C → Option Bool) : Prop :=
  ∀ path c b, PathHolds o env path → imp path c = some b → c.eval o env = b

theorem leafVsTree_sound {o : Ops α} {env : Nat → α} {imp : Path → C → Option Bool}
    {leafOK : Path → E → E → Bool} (himp : ImpSound o env imp) (a : E) (s : Tree) {path : Path}
    (h : leafVsTree imp leafOK a path s = true) (hp : PathHolds o env path) :
    ∃ path', PathHolds o env path' ∧ leafOK path' a (s.select o env) = true := by
  induction s generalizing path with
  | leaf b => exact ⟨path, hp, h⟩
  | branch c t f iht ihf =>
    simp only [leafVsTree] at h
    simp only [Tree.select]
    split at h
    · rename_i hi
      rw [if_pos (himp path c true hp hi)]; exact iht h hp
    · rename_i hi
      have := himp path c false hp hi
      rw [if_neg (by simp [this])]; exact ihf h hp
    · rw [Bool.and_eq_true] at h
      by_cases hc : c.eval o env = true
      · rw [if_pos hc]; exact iht h.1 (hp.cons hc)
      · rw [if_neg hc]; exact ihf h.2 (hp.cons (by simpa using hc))

/-- **soundness of the two-tree walk** -/
theorem treeEqv_sound {o : Ops α} {env : Nat → α} {imp : Path → C → Option Bool}
    {leafOK : Path → E → E → Bool} (himp : ImpSound o env imp) (t s : Tree) {path : Path}
    (h : treeEqv imp leafOK path t s = true) (hp : PathHolds o env path) :
    ∃ path', PathHolds o env path' ∧ leafOK path' (t.select o env) (s.select o env) = true := by
  induction t generalizing path with
  | leaf a => exact leafVsTree_sound himp a s h hp
  | branch c t f iht ihf =>
    simp only [treeEqv] at h
    simp only [Tree.select]
    split at h
    · rename_i hi
      rw [if_pos (himp path c true hp hi)]; exact iht h hp
    · rename_i hi
      have := himp path c false hp hi
      rw [if_neg (by simp [this])]; exact ihf h hp
    · rw [Bool.and_eq_true] at h
      by_cases hc : c.eval o env = true
      · rw [if_pos hc]; exact iht h.1 (hp.cons hc)
      · rw [if_neg hc]; exact ihf h.2 (hp.cons (by simpa using hc))

end generic

/-! ### conditions with `polyEq` operands evaluate alike -/
section ring
variable {R : Type} [CommRing R]

theorem condOK_sound_w {o : Ops R} (ho : RingLike o) (env : Nat → R) {c c' : C} (h : condOK c c' = true) :
    c.eval o env = c'.eval o env := by
  induction c generalizing c' with
  | lt a b =>
    cases c' with
    | lt a' b' =>
      simp only [condOK, Bool.and_eq_true] at h
      simp only [C.eval, polyEq_sound' ho h.1 env, polyEq_sound' ho h.2 env]
    | _ => simp [condOK] at h
  | le a b =>
    cases c' with
    | le a' b' =>
      simp only [condOK, Bool.and_eq_true] at h
      simp only [C.eval, polyEq_sound' ho h.1 env, polyEq_sound' ho h.2 env]
    | _ => simp [condOK] at h
  | eq a b =>
    cases c' with
    | eq a' b' =>
      simp only [condOK, Bool.and_eq_true] at h
      simp only [C.eval, polyEq_sound' ho h.1 env, polyEq_sound' ho h.2 env]
    | _ => simp [condOK] at h
  | isnan a =>
    cases c' with
    | isnan a' => simp only [condOK, beq_iff_eq] at h; subst h; rfl
    | _ => simp [condOK] at h
  | isinf a =>
    cases c' with
    | isinf a' => simp only [condOK, beq_iff_eq] at h; subst h; rfl
    | _ => simp [condOK] at h
  | not c ih =>
    cases c' with
    | not c2 => simp only [condOK] at h; simp only [C.eval, ih h]
    | _ => simp [condOK] at h
  | and a b iha ihb =>
    cases c' with
    | and a' b' => simp only [condOK, Bool.and_eq_true] at h; simp only [C.eval, iha h.1, ihb h.2]
    | _ => simp [condOK] at h
  | or a b iha ihb =>
    cases c' with
    | or a' b' => simp only [condOK, Bool.and_eq_true] at h; simp only [C.eval, iha h.1, ihb h.2]
    | _ => simp [condOK] at h

end ring

/-! ### the ordered semantics -/
section ordered
variable {K : Type} [Field K] [LinearOrder K] [IsStrictOrderedRing K]

/-- ordered semantics whose `==` is equality -/
structure OrderedEqLike (o : Ops K) : Prop extends OrderedLike o where
  eq : ∀ a b, o.eq a b = decide (a = b)

theorem pathHolds_of {o : Ops K} {env : Nat → K} {path : Path} (h : PathHolds o env path) : pathHolds o env path := h

theorem normCB_sound {o : Ops K} (ho : OrderedEqLike o) (env : Nat → K) (n : Nat) (c : C) (b : Bool)
    (h : c.eval o env = b) : PathHolds o env (normCB n c b) := by
  induction n generalizing c b with
  | zero => intro cb hcb; simp only [normCB, List.mem_singleton] at hcb; subst hcb; exact h
  | succ n ih =>
    cases c with
    | not c => simp only [normCB]; exact ih c (!b) (by simp only [C.eval] at h; rw [← h]; simp)
    | and x y =>
      cases b with
      | true =>
        simp only [normCB]; simp only [C.eval, Bool.and_eq_true] at h
        intro cb hcb; rcases List.mem_append.1 hcb with hcb | hcb
        · exact ih x true h.1 cb hcb
        · exact ih y true h.2 cb hcb
      | false => intro cb hcb; simp only [normCB, List.mem_singleton] at hcb; subst hcb; exact h
    | or x y =>
      cases b with
      | false =>
        simp only [normCB]; simp only [C.eval, Bool.or_eq_false_iff] at h
        intro cb hcb; rcases List.mem_append.1 hcb with hcb | hcb
        · exact ih x false h.1 cb hcb
        · exact ih y false h.2 cb hcb
      | true => intro cb hcb; simp only [normCB, List.mem_singleton] at hcb; subst hcb; exact h
    | eq x y =>
      cases b with
      | true =>
        simp only [normCB]
        have he : x.eval o env = y.eval o env := by simpa [C.eval, ho.eq] using h
        intro cb hcb
        simp only [List.mem_cons, List.not_mem_nil, or_false] at hcb
        rcases hcb with rfl | rfl | rfl
        · exact h
        · simp [C.eval, ho.le, he]
        · simp [C.eval, ho.le, he]
      | false => intro cb hcb; simp only [normCB, List.mem_singleton] at hcb; subst hcb; exact h
    | lt x y | le x y | isnan x | isinf x =>
      intro cb hcb; simp only [normCB, List.mem_singleton] at hcb; subst hcb; exact h

theorem normPath_sound {o : Ops K} (ho : OrderedEqLike o) (env : Nat → K) {path : Path}
    (hp : PathHolds o env path) : PathHolds o env (normPath path) := by
  intro cb hcb
  simp only [normPath, List.mem_flatMap] at hcb
  obtain ⟨cb0, hmem, hin⟩ := hcb
  exact normCB_sound ho env 8 cb0.1 cb0.2 (hp cb0 hmem) cb hin

theorem ordLE_sound {o : Ops K} (ho : OrderedEqLike o) (env : Nat → K) {np : Path} (hp : PathHolds o env np) {a b : E}
    (h : ordLE np a b = true) : a.eval o env ≤ b.eval o env := by
  have hO := ho.toOrderedLike
  simp only [ordLE, Bool.or_eq_true] at h
  rcases h with h | h
  · exact pathLE_sound hO env h hp
  · have := slackNonneg_sound hO env h
    simp only [E.eval, hO.sub] at this; linarith

theorem ordLT_sound {o : Ops K} (ho : OrderedEqLike o) (env : Nat → K) {np : Path} (hp : PathHolds o env np) {a b : E}
    (h : ordLT np a b = true) : a.eval o env < b.eval o env := by
  have hO := ho.toOrderedLike
  simp only [ordLT, Bool.or_eq_true] at h
  rcases h with h | h
  · exact pathLT_sound hO env h hp
  · simp only [trivLT, List.any_eq_true, Bool.and_eq_true] at h
    obtain ⟨l, _, hl, hq⟩ := h
    have he := polyEq_sound' hO.toRingLike hq env
    cases l with
    | lit n dd =>
      simp only [isPosLit, Bool.and_eq_true, decide_eq_true_eq, bne_iff_ne, ne_eq] at hl
      have hpos : (0 : K) < (E.lit n dd).eval o env := by
        simp only [E.eval, hO.litq]
        exact div_pos (by exact_mod_cast hl.1) (by exact_mod_cast Nat.pos_of_ne_zero hl.2)
      simp only [E.eval, hO.sub] at he
      have : (0 : K) < b.eval o env - a.eval o env := by rw [he]; simpa [E.eval] using hpos
      linarith
    | _ => simp [isPosLit] at hl

theorem impliedAtom_sound {o : Ops K} (ho : OrderedEqLike o) (env : Nat → K) {np : Path}
    (hp : PathHolds o env np) {c : C} {b : Bool} (h : impliedAtom np c = some b) : c.eval o env = b := by
  have hO := ho.toOrderedLike
  cases c with
  | lt x y =>
    simp only [impliedAtom] at h
    split at h
    · rename_i h1; cases h; simpa [C.eval, hO.lt] using ordLT_sound ho env hp h1
    · split at h
      · rename_i h1; cases h; simpa [C.eval, hO.lt] using ordLE_sound ho env hp h1
      · cases h
  | le x y =>
    simp only [impliedAtom] at h
    split at h
    · rename_i h1; cases h; simpa [C.eval, hO.le] using ordLE_sound ho env hp h1
    · split at h
      · rename_i h1; cases h; simpa [C.eval, hO.le] using ordLT_sound ho env hp h1
      · cases h
  | eq x y =>
    simp only [impliedAtom] at h
    split at h
    · rename_i h1; cases h
      rw [Bool.or_eq_true] at h1
      simp only [C.eval, ho.eq, decide_eq_false_iff_not]
      rcases h1 with h1 | h1
      · exact ne_of_lt (ordLT_sound ho env hp h1)
      · exact ne_of_gt (ordLT_sound ho env hp h1)
    · split at h
      · rename_i h1; cases h
        rw [Bool.and_eq_true] at h1
        simp only [C.eval, ho.eq, decide_eq_true_eq]
        exact le_antisymm (ordLE_sound ho env hp h1.1) (ordLE_sound ho env hp h1.2)
      · cases h
  | _ => simp [impliedAtom] at h

/-- the implication oracle is sound in every ordered semantics (with or without the order rules) -/
theorem implied_sound {o : Ops K} (ho : OrderedEqLike o) (env : Nat → K) (ordered : Bool) :
    ImpSound o env (implied ordered) := by
  intro path c
  have hr := ho.toRingLike
  have atom : ∀ c : C, ∀ b, PathHolds o env path →
      (match path.find? (fun cb => condOK c cb.1) with
        | some cb => some cb.2
        | none => if ordered then impliedAtom (normPath path) c else none) = some b → c.eval o env = b := by
    intro c b hp h
    split at h
    · rename_i cb hf
      cases h
      have hm := List.mem_of_find?_eq_some hf
      have hc := List.find?_some hf
      rw [condOK_sound_w hr env hc]; exact hp cb hm
    · split at h
      · exact impliedAtom_sound ho env (normPath_sound ho env hp) h
      · cases h
  induction c with
  | not c ih =>
    intro b hp h
    simp only [implied, Option.map_eq_some_iff] at h
    obtain ⟨b', hb', rfl⟩ := h
    simp only [C.eval, ih b' hp hb']
  | and x y ihx ihy =>
    intro b hp h
    simp only [implied] at h
    split at h
    · rename_i hx; cases h; simp [C.eval, ihx false hp hx]
    · rename_i hy _; cases h; simp [C.eval, ihy false hp hy]
    · rename_i hx hy; cases h; simp [C.eval, ihx true hp hx, ihy true hp hy]
    · cases h
  | or x y ihx ihy =>
    intro b hp h
    simp only [implied] at h
    split at h
    · rename_i hx; cases h; simp [C.eval, ihx true hp hx]
    · rename_i hy _; cases h; simp [C.eval, ihy true hp hy]
    · rename_i hx hy; cases h; simp [C.eval, ihx false hp hx, ihy false hp hy]
    · cases h
  | lt a b' | le a b' | eq a b' | isnan a | isinf a =>
    intro b hp h
    simp only [implied] at h
    exact atom _ b hp h

theorem eqCands_sound {o : Ops K} (ho : OrderedEqLike o) (env : Nat → K) {np : Path}
    (hp : PathHolds o env np) {σ : E × E} (h : σ ∈ eqCands np) : σ.1.eval o env = σ.2.eval o env := by
  have hO := ho.toOrderedLike
  simp only [eqCands, List.mem_filterMap] at h
  obtain ⟨cb, _, hcb⟩ := h
  split at hcb
  all_goals first
    | (split at hcb
       · rename_i h1
         simp only [Option.some.injEq] at hcb; subst hcb
         rw [Bool.and_eq_true] at h1
         exact le_antisymm (pathLE_sound hO env h1.1 hp) (pathLE_sound hO env h1.2 hp)
       · cases hcb)
    | cases hcb

/-- leaves that pass `leafEqvOrd` under a path that holds have the same value -/
theorem leafEqvOrd_sound {o : Ops K} (ho : OrderedEqLike o) (env : Nat → K) {path : Path}
    (hp : PathHolds o env path) {a b : E} (h : leafEqvOrd path a b = true) : a.eval o env = b.eval o env := by
  have hr := ho.toRingLike
  simp only [leafEqvOrd, Bool.or_eq_true, beq_iff_eq, List.any_eq_true] at h
  rcases h with (h | h) | ⟨σ, hσ, h⟩
  · rw [h]
  · exact polyEq_sound' hr h env
  · have he := eqCands_sound ho env (normPath_sound ho env hp) hσ
    rcases h with h | h
    · have h1 : ∀ p ∈ [σ], p.1.eval o env = p.2.eval o env := by
        intro p hp'; simp only [List.mem_singleton] at hp'; subst hp'; exact he
      rw [← E.rewrite_sound o env h1 a, ← E.rewrite_sound o env h1 b]; exact polyEq_sound' hr h env
    · have h1 : ∀ p ∈ [(σ.2, σ.1)], p.1.eval o env = p.2.eval o env := by
        intro p hp'; simp only [List.mem_singleton] at hp'; subst hp'; exact he.symm
      rw [← E.rewrite_sound o env h1 a, ← E.rewrite_sound o env h1 b]; exact polyEq_sound' hr h env

/-- **C03, selection/comparison class**: trees that pass the ordered walk have the same value in every
    ordered-field semantics -/
theorem treeEqv_ord_sound {o : Ops K} (ho : OrderedEqLike o) (env : Nat → K) {t s : Tree}
    (h : treeEqv (implied true) leafEqvOrd [] t s = true) : t.eval o env = s.eval o env := by
  obtain ⟨p, hp, hl⟩ := treeEqv_sound (implied_sound ho env true) t s h (by intro cb hcb; cases hcb)
  rw [Tree.eval_eq_select o env t, Tree.eval_eq_select o env s]; exact leafEqvOrd_sound ho env hp hl

/-- **C03, rational class**: same decisions, and the selected leaves are equal as rational functions;
    equal values whenever neither evaluation divides by zero -/
theorem treeEqv_frac_sound {o : Ops K} (ho : OrderedEqLike o) (env : Nat → K) {t s : Tree}
    (h : treeEqv (implied true) leafEqvFrac [] t s = true)
    (hd1 : (t.select o env).divOK o env) (hd2 : (s.select o env).divOK o env) : t.eval o env = s.eval o env := by
  obtain ⟨p, _, hl⟩ := treeEqv_sound (implied_sound ho env true) t s h (by intro cb hcb; cases hcb)
  rw [Tree.eval_eq_select o env t, Tree.eval_eq_select o env s]
  simp only [leafEqvFrac, Bool.or_eq_true, beq_iff_eq] at hl
  rcases hl with hl | hl
  · rw [hl]
  · exact fracEq_sound ho.toFieldLike hl env hd1 hd2

end ordered
/-! ### pure order reasoning: sound in every commutative ring with a linear order (no compatibility assumed) -/
section lin
variable {α : Type} [CommRing α] [LinearOrder α]

structure LinLike (o : Ops α) : Prop extends RingLike o where
  lt : ∀ a b, o.lt a b = decide (a < b)
  le : ∀ a b, o.le a b = decide (a ≤ b)
  eq : ∀ a b, o.eq a b = decide (a = b)
  lit_mono : ∀ n m : Int, -1073741824 ≤ n → n < m → m ≤ 1073741824 → o.lit n 1 < o.lit m 1

variable {o : Ops α}

theorem nodeEq_sound (ho : LinLike o) (env : Nat → α) {a b : E} (h : nodeEq a b = true) :
    a.eval o env = b.eval o env := by
  simp only [nodeEq, Bool.or_eq_true, beq_iff_eq] at h
  rcases h with h | h
  · rw [h]
  · exact polyEq_sound' ho.toRingLike h env

theorem smallLit_eq {e : E} {n : Int} (h : smallLit e = some n) :
    e = .lit n 1 ∧ -1073741824 ≤ n ∧ n ≤ 1073741824 := by
  unfold smallLit at h
  split at h
  · rename_i m
    split at h
    · rename_i hc
      simp only [Option.some.injEq] at h; subst h
      simp only [Bool.and_eq_true, decide_eq_true_eq] at hc
      exact ⟨rfl, hc.1, hc.2⟩
    · cases h
  · cases h

theorem litLT_sound (ho : LinLike o) (env : Nat → α) {x y : E} (h : litLT x y = true) :
    x.eval o env < y.eval o env := by
  unfold litLT at h
  split at h
  · rename_i n m hn hm
    obtain ⟨rfl, h1, _⟩ := smallLit_eq hn
    obtain ⟨rfl, _, h2⟩ := smallLit_eq hm
    simp only [decide_eq_true_eq] at h
    exact ho.lit_mono n m h1 h h2
  · cases h

theorem litLE_sound (ho : LinLike o) (env : Nat → α) {x y : E} (h : litLE x y = true) :
    x.eval o env ≤ y.eval o env := by
  unfold litLE at h
  split at h
  · rename_i n m hn hm
    obtain ⟨rfl, h1, _⟩ := smallLit_eq hn
    obtain ⟨rfl, _, h2⟩ := smallLit_eq hm
    simp only [decide_eq_true_eq] at h
    rcases lt_or_eq_of_le h with h | h
    · exact le_of_lt (ho.lit_mono n m h1 h h2)
    · subst h; exact le_refl _
  · cases h

/-- every edge of the path's order graph holds -/
def EdgesHold (o : Ops α) (env : Nat → α) (es : List (E × E × Bool)) : Prop :=
  ∀ e ∈ es, e.1.eval o env ≤ e.2.1.eval o env ∧ (e.2.2 = true → e.1.eval o env < e.2.1.eval o env)

theorem pathEdges_sound (ho : LinLike o) (env : Nat → α) {np : Path} (hp : PathHolds o env np) :
    EdgesHold o env (edgesOf np) := by
  intro e he
  simp only [edgesOf, pathEdges, List.mem_filterMap] at he
  obtain ⟨cb, hmem, hcb⟩ := he
  have hc := hp cb hmem
  split at hcb
  · rename_i a b
    simp only [Option.some.injEq] at hcb; subst hcb
    simp only [C.eval, ho.lt, decide_eq_true_eq] at hc
    exact ⟨le_of_lt hc, fun _ => hc⟩
  · rename_i a b
    simp only [Option.some.injEq] at hcb; subst hcb
    simp only [C.eval, ho.lt, decide_eq_false_iff_not, not_lt] at hc
    exact ⟨hc, fun h => by simp at h⟩
  · rename_i a b
    simp only [Option.some.injEq] at hcb; subst hcb
    simp only [C.eval, ho.le, decide_eq_true_eq] at hc
    exact ⟨hc, fun h => by simp at h⟩
  · rename_i a b
    simp only [Option.some.injEq] at hcb; subst hcb
    simp only [C.eval, ho.le, decide_eq_false_iff_not, not_le] at hc
    exact ⟨le_of_lt hc, fun _ => hc⟩
  · cases hcb

theorem reachLE_sound (ho : LinLike o) (env : Nat → α) {es : List (E × E × Bool)} (hes : EdgesHold o env es)
    (n : Nat) (x y : E) (h : reachLE es n x y = true) : x.eval o env ≤ y.eval o env := by
  induction n generalizing x with
  | zero =>
    simp only [reachLE, Bool.or_eq_true] at h
    rcases h with h | h
    · exact le_of_eq (nodeEq_sound ho env h)
    · exact litLE_sound ho env h
  | succ n ih =>
    simp only [reachLE, Bool.or_eq_true, List.any_eq_true, Bool.and_eq_true] at h
    rcases h with (h | h) | ⟨e, he, h1, h2⟩
    · exact le_of_eq (nodeEq_sound ho env h)
    · exact litLE_sound ho env h
    · rw [← nodeEq_sound ho env h1]
      exact le_trans (hes e he).1 (ih _ h2)

theorem reachLT_sound (ho : LinLike o) (env : Nat → α) {es : List (E × E × Bool)} (hes : EdgesHold o env es)
    (n : Nat) (x y : E) (h : reachLT es n x y = true) : x.eval o env < y.eval o env := by
  induction n generalizing x with
  | zero => exact litLT_sound ho env (by simpa [reachLT] using h)
  | succ n ih =>
    simp only [reachLT, Bool.or_eq_true, List.any_eq_true, Bool.and_eq_true] at h
    rcases h with h | ⟨e, he, h1, h2⟩
    · exact litLT_sound ho env h
    · rw [← nodeEq_sound ho env h1]
      rcases h2 with ⟨hs, h2⟩ | h2
      · exact lt_of_lt_of_le ((hes e he).2 hs) (reachLE_sound ho env hes n _ _ h2)
      · exact lt_of_le_of_lt (hes e he).1 (ih _ h2)

theorem normCB_sound' (ho : LinLike o) (env : Nat → α) (n : Nat) (c : C) (b : Bool)
    (h : c.eval o env = b) : PathHolds o env (normCB n c b) := by
  induction n generalizing c b with
  | zero => intro cb hcb; simp only [normCB, List.mem_singleton] at hcb; subst hcb; exact h
  | succ n ih =>
    cases c with
    | not c => simp only [normCB]; exact ih c (!b) (by simp only [C.eval] at h; rw [← h]; simp)
    | and x y =>
      cases b with
      | true =>
        simp only [normCB]; simp only [C.eval, Bool.and_eq_true] at h
        intro cb hcb; rcases List.mem_append.1 hcb with hcb | hcb
        · exact ih x true h.1 cb hcb
        · exact ih y true h.2 cb hcb
      | false => intro cb hcb; simp only [normCB, List.mem_singleton] at hcb; subst hcb; exact h
    | or x y =>
      cases b with
      | false =>
        simp only [normCB]; simp only [C.eval, Bool.or_eq_false_iff] at h
        intro cb hcb; rcases List.mem_append.1 hcb with hcb | hcb
        · exact ih x false h.1 cb hcb
        · exact ih y false h.2 cb hcb
      | true => intro cb hcb; simp only [normCB, List.mem_singleton] at hcb; subst hcb; exact h
    | eq x y =>
      cases b with
      | true =>
        simp only [normCB]
        have he : x.eval o env = y.eval o env := by simpa [C.eval, ho.eq] using h
        intro cb hcb
        simp only [List.mem_cons, List.not_mem_nil, or_false] at hcb
        rcases hcb with rfl | rfl | rfl
        · exact h
        · simp [C.eval, ho.le, he]
        · simp [C.eval, ho.le, he]
      | false => intro cb hcb; simp only [normCB, List.mem_singleton] at hcb; subst hcb; exact h
    | lt x y | le x y | isnan x | isinf x =>
      intro cb hcb; simp only [normCB, List.mem_singleton] at hcb; subst hcb; exact h

theorem normPath_sound' (ho : LinLike o) (env : Nat → α) {path : Path}
    (hp : PathHolds o env path) : PathHolds o env (normPath path) := by
  intro cb hcb
  simp only [normPath, List.mem_flatMap] at hcb
  obtain ⟨cb0, hmem, hin⟩ := hcb
  exact normCB_sound' ho env 8 cb0.1 cb0.2 (hp cb0 hmem) cb hin

theorem impliedAtomLin_sound (ho : LinLike o) (env : Nat → α) {np : Path}
    (hp : PathHolds o env np) {c : C} {b : Bool} (h : impliedAtomLin np c = some b) : c.eval o env = b := by
  have hes := pathEdges_sound ho env hp
  cases c with
  | lt x y =>
    simp only [impliedAtomLin] at h
    split at h
    · rename_i h1; cases h; simpa [C.eval, ho.lt] using reachLT_sound ho env hes _ _ _ h1
    · split at h
      · rename_i h1; cases h; simpa [C.eval, ho.lt] using reachLE_sound ho env hes _ _ _ h1
      · cases h
  | le x y =>
    simp only [impliedAtomLin] at h
    split at h
    · rename_i h1; cases h; simpa [C.eval, ho.le] using reachLE_sound ho env hes _ _ _ h1
    · split at h
      · rename_i h1; cases h; simpa [C.eval, ho.le] using reachLT_sound ho env hes _ _ _ h1
      · cases h
  | eq x y =>
    simp only [impliedAtomLin] at h
    split at h
    · rename_i h1; cases h
      rw [Bool.or_eq_true] at h1
      simp only [C.eval, ho.eq, decide_eq_false_iff_not]
      rcases h1 with h1 | h1
      · exact ne_of_lt (reachLT_sound ho env hes _ _ _ h1)
      · exact ne_of_gt (reachLT_sound ho env hes _ _ _ h1)
    · split at h
      · rename_i h1; cases h
        rw [Bool.and_eq_true] at h1
        simp only [C.eval, ho.eq, decide_eq_true_eq]
        exact le_antisymm (reachLE_sound ho env hes _ _ _ h1.1) (reachLE_sound ho env hes _ _ _ h1.2)
      · cases h
  | _ => simp [impliedAtomLin] at h

theorem impliedLin_sound (ho : LinLike o) (env : Nat → α) : ImpSound o env impliedLin := by
  intro path c
  have hr := ho.toRingLike
  have atom : ∀ c : C, ∀ b, PathHolds o env path →
      (match path.find? (fun cb => condOK c cb.1) with
        | some cb => some cb.2
        | none => impliedAtomLin (normPath path) c) = some b → c.eval o env = b := by
    intro c b hp h
    split at h
    · rename_i cb hf
      cases h
      have hm := List.mem_of_find?_eq_some hf
      have hc := List.find?_some hf
      rw [condOK_sound_w hr env hc]; exact hp cb hm
    · exact impliedAtomLin_sound ho env (normPath_sound' ho env hp) h
  induction c with
  | not c ih =>
    intro b hp h
    simp only [impliedLin, Option.map_eq_some_iff] at h
    obtain ⟨b', hb', rfl⟩ := h
    simp only [C.eval, ih b' hp hb']
  | and x y ihx ihy =>
    intro b hp h
    simp only [impliedLin] at h
    split at h
    · rename_i hx; cases h; simp [C.eval, ihx false hp hx]
    · rename_i hy _; cases h; simp [C.eval, ihy false hp hy]
    · rename_i hx hy; cases h; simp [C.eval, ihx true hp hx, ihy true hp hy]
    · cases h
  | or x y ihx ihy =>
    intro b hp h
    simp only [impliedLin] at h
    split at h
    · rename_i hx; cases h; simp [C.eval, ihx true hp hx]
    · rename_i hy _; cases h; simp [C.eval, ihy true hp hy]
    · rename_i hx hy; cases h; simp [C.eval, ihx false hp hx, ihy false hp hy]
    · cases h
  | lt a b' | le a b' | eq a b' | isnan a | isinf a =>
    intro b hp h
    simp only [impliedLin] at h
    exact atom _ b hp h

theorem eqCandsLin_sound (ho : LinLike o) (env : Nat → α) {np : Path}
    (hp : PathHolds o env np) {σ : E × E} (h : σ ∈ eqCandsLin np) : σ.1.eval o env = σ.2.eval o env := by
  have hes := pathEdges_sound ho env hp
  simp only [eqCandsLin, List.mem_filterMap] at h
  obtain ⟨cb, _, hcb⟩ := h
  split at hcb
  all_goals first
    | (split at hcb
       · rename_i h1
         simp only [Option.some.injEq] at hcb; subst hcb
         rw [Bool.and_eq_true] at h1
         exact le_antisymm (reachLE_sound ho env hes _ _ _ h1.1) (reachLE_sound ho env hes _ _ _ h1.2)
       · cases hcb)
    | cases hcb


end lin

section orderedLin
variable {K : Type} [Field K] [LinearOrder K] [IsStrictOrderedRing K] {o : Ops K}

theorem OrderedEqLike.linLike (ho : OrderedEqLike o) : LinLike o :=
  { toRingLike := ho.toRingLike, lt := ho.lt, le := ho.le, eq := ho.eq,
    lit_mono := fun n m _ h _ => by
      rw [ho.toRingLike.lit, ho.toRingLike.lit]; exact_mod_cast h }

/-- both oracles together: the arithmetic one (single fact + non-negative slack) and the transitive order one -/
theorem impliedAll_sound (ho : OrderedEqLike o) (env : Nat → K) : ImpSound o env impliedAll := by
  intro path c b hp h
  unfold impliedAll at h
  split at h
  · rename_i b' hb'
    cases h
    exact implied_sound ho env true path c _ hp hb'
  · exact impliedLin_sound ho.linLike env path c b hp h

end orderedLin

end Glm
