import GlmVerif.Sem.Field
import GlmVerif.Core.Guard
import Mathlib.Algebra.Order.Field.Basic
import Mathlib.Tactic.Linarith

/-!
Soundness of the definedness check `Tree.guarded` in every ordered-field semantics.
-/
namespace Glm
variable {K : Type} [Field K] [LinearOrder K] [IsStrictOrderedRing K]

/-- comparisons of `o` decide the order of `K` -/
structure OrderedLike (o : Ops K) : Prop extends FieldLike o where
  lt : ∀ a b, o.lt a b = decide (a < b)
  le : ∀ a b, o.le a b = decide (a ≤ b)
  eps_nonneg : 0 ≤ o.konst .eps

/-- the semantic counterpart of `E.guarded`: every partial call evaluated inside `e` is in range -/
def E.Defined (o : Ops K) (env : Nat → K) : E → Prop
  | .call1 .sqrt a => a.Defined o env ∧ 0 ≤ a.eval o env
  | .call1 .acos a => a.Defined o env ∧ -1 ≤ a.eval o env ∧ a.eval o env ≤ 1
  | .call1 .asin a => a.Defined o env ∧ -1 ≤ a.eval o env ∧ a.eval o env ≤ 1
  | .call1 .log a => a.Defined o env ∧ 0 < a.eval o env
  | .call1 .log2 a => a.Defined o env ∧ 0 < a.eval o env
  | .call1 _ a => a.Defined o env
  | .neg a | .bnot a | .cast _ a => a.Defined o env
  | .add a b | .sub a b | .mul a b | .div a b | .call2 _ a b
  | .band a b | .bor a b | .bxor a b | .shl a b | .shr a b | .imod a b => a.Defined o env ∧ b.Defined o env
  | .call3 _ a b c => a.Defined o env ∧ b.Defined o env ∧ c.Defined o env
  | .var _ | .lit _ _ | .konst _ => True

def pathHolds (o : Ops K) (env : Nat → K) (path : Path) : Prop := ∀ cb ∈ path, cb.1.eval o env = cb.2

theorem E.nonnegSyn_sound {o : Ops K} (ho : FieldLike o) (env : Nat → K) (e : E) (h : e.nonnegSyn = true) :
    0 ≤ e.eval o env := by
  induction e with
  | lit n d =>
    simp only [E.nonnegSyn, Bool.and_eq_true, decide_eq_true_eq, beq_iff_eq] at h
    obtain ⟨h1, rfl⟩ := h
    simp only [E.eval, ho.lit]; exact_mod_cast h1
  | mul a b iha ihb =>
    simp only [E.nonnegSyn, Bool.or_eq_true, Bool.and_eq_true] at h
    simp only [E.eval, ho.mul]
    rcases h with h | h
    · rw [eq_of_beq h]; exact mul_self_nonneg _
    · exact mul_nonneg (iha h.1) (ihb h.2)
  | add a b iha ihb =>
    simp only [E.nonnegSyn, Bool.and_eq_true] at h
    simp only [E.eval, ho.add]; exact add_nonneg (iha h.1) (ihb h.2)
  | _ => simp [E.nonnegSyn] at h

theorem factsOf_sound {o : Ops K} (ho : OrderedLike o) (env : Nat → K) {path : Path}
    (hp : pathHolds o env path) {d : E} {strict : Bool} (h : (d, strict) ∈ factsOf path) :
    0 ≤ d.eval o env ∧ (strict = true → 0 < d.eval o env) := by
  simp only [factsOf, List.mem_filterMap] at h
  obtain ⟨cb, hmem, hcb⟩ := h
  have hc := hp cb hmem
  split at hcb
  · rename_i p q
    simp only [Option.some.injEq, Prod.mk.injEq] at hcb; obtain ⟨rfl, rfl⟩ := hcb
    simp only [C.eval, ho.lt, decide_eq_true_eq] at hc
    simp only [E.eval, ho.sub]; exact ⟨by linarith, fun _ => by linarith⟩
  · rename_i q p
    simp only [Option.some.injEq, Prod.mk.injEq] at hcb; obtain ⟨rfl, rfl⟩ := hcb
    simp only [C.eval, ho.le, decide_eq_false_iff_not, not_le] at hc
    simp only [E.eval, ho.sub]; exact ⟨by linarith, fun _ => by linarith⟩
  · rename_i p q
    simp only [Option.some.injEq, Prod.mk.injEq] at hcb; obtain ⟨rfl, rfl⟩ := hcb
    simp only [C.eval, ho.le, decide_eq_true_eq] at hc
    simp only [E.eval, ho.sub]; exact ⟨by linarith, fun h => by simp at h⟩
  · rename_i q p
    simp only [Option.some.injEq, Prod.mk.injEq] at hcb; obtain ⟨rfl, rfl⟩ := hcb
    simp only [C.eval, ho.lt, decide_eq_false_iff_not, not_lt] at hc
    simp only [E.eval, ho.sub]; exact ⟨by linarith, fun h => by simp at h⟩
  · simp at hcb

theorem slackNonneg_sound {o : Ops K} (ho : OrderedLike o) (env : Nat → K) {d : E}
    (h : slackNonneg d = true) : 0 ≤ d.eval o env := by
  have hr := ho.toRingLike
  simp only [slackNonneg, Bool.or_eq_true, List.any_eq_true, Bool.and_eq_true] at h
  rcases h with ((((h | h) | h) | h) | h) | ⟨l, _, hl, h⟩
  · rw [polyEq_sound' hr h env]; simp [E.eval, ho.lit]
  · rw [polyEq_sound' hr h env]; simp [E.eval, ho.lit]
  · rw [polyEq_sound' hr h env]; simp [E.eval, ho.lit]
  · rw [polyEq_sound' hr h env]; simpa [E.eval] using ho.eps_nonneg
  · rw [polyEq_sound' hr h env]; simp only [E.eval, ho.add, ho.lit]
    have := ho.eps_nonneg; push_cast; linarith
  · rw [polyEq_sound' hr h env]
    cases l with
    | lit n dd =>
      simp only [isNonnegLit, decide_eq_true_eq] at hl
      simp only [E.eval, ho.litq]
      exact div_nonneg (by exact_mod_cast hl) (by positivity)
    | _ => simp [isNonnegLit] at hl

theorem pathLE_sound {o : Ops K} (ho : OrderedLike o) (env : Nat → K) {path : Path} {x y : E}
    (h : pathLE path x y = true) (hp : pathHolds o env path) : x.eval o env ≤ y.eval o env := by
  unfold pathLE at h
  rw [Bool.or_eq_true] at h
  rcases h with h | h
  · split at h
    · rename_i n m
      simp only [decide_eq_true_eq] at h
      simp only [E.eval, ho.lit]; exact_mod_cast h
    · simp at h
  · rw [List.any_eq_true] at h
    obtain ⟨⟨d, strict⟩, hmem, hs⟩ := h
    have hd := (factsOf_sound ho env hp hmem).1
    have hsl := slackNonneg_sound ho env hs
    simp only [E.eval, ho.sub] at hsl
    linarith

theorem pathLT_sound {o : Ops K} (ho : OrderedLike o) (env : Nat → K) {path : Path} {x y : E}
    (h : pathLT path x y = true) (hp : pathHolds o env path) : x.eval o env < y.eval o env := by
  unfold pathLT at h
  rw [List.any_eq_true] at h
  obtain ⟨⟨d, strict⟩, hmem, hs⟩ := h
  simp only [Bool.and_eq_true] at hs
  have hd := (factsOf_sound ho env hp hmem).2 hs.1
  have hsl := slackNonneg_sound ho env hs.2
  simp only [E.eval, ho.sub] at hsl
  linarith

theorem nonnegOK_sound {o : Ops K} (ho : OrderedLike o) (env : Nat → K) {path : Path} {a : E}
    (h : nonnegOK path a = true) (hp : pathHolds o env path) : 0 ≤ a.eval o env := by
  unfold nonnegOK at h
  rw [Bool.or_eq_true] at h
  rcases h with h | h
  · exact E.nonnegSyn_sound ho.toFieldLike env a h
  · have := pathLE_sound ho env h hp
    simpa [E.eval, ho.lit] using this

theorem unitOK_sound {o : Ops K} (ho : OrderedLike o) (env : Nat → K) {path : Path} {a : E}
    (h : unitOK path a = true) (hp : pathHolds o env path) : -1 ≤ a.eval o env ∧ a.eval o env ≤ 1 := by
  unfold unitOK at h
  rw [Bool.and_eq_true] at h
  have h1 := pathLE_sound ho env h.1 hp
  have h2 := pathLE_sound ho env h.2 hp
  simp only [E.eval, ho.lit] at h1 h2
  exact ⟨by simpa using h1, by simpa using h2⟩

theorem posOK_sound {o : Ops K} (ho : OrderedLike o) (env : Nat → K) {path : Path} {a : E}
    (h : posOK path a = true) (hp : pathHolds o env path) : 0 < a.eval o env := by
  have := pathLT_sound ho env h hp
  simpa [E.eval, ho.lit] using this

theorem E.guarded_sound {o : Ops K} (ho : OrderedLike o) (env : Nat → K) {path : Path}
    (hp : pathHolds o env path) (e : E) (h : e.guarded path = true) : e.Defined o env := by
  induction e with
  | call1 f a ih =>
    cases f <;> simp only [E.guarded, Bool.and_eq_true] at h <;> simp only [E.Defined]
    all_goals first
      | exact ih h
      | exact ⟨ih h.1, nonnegOK_sound ho env h.2 hp⟩
      | exact ⟨ih h.1, unitOK_sound ho env h.2 hp⟩
      | exact ⟨ih h.1, posOK_sound ho env h.2 hp⟩
  | call3 f a b c iha ihb ihc =>
    simp only [E.guarded, Bool.and_eq_true] at h
    exact ⟨iha h.1.1, ihb h.1.2, ihc h.2⟩
  | neg a ih | bnot a ih | cast t a ih => exact ih (by simpa [E.guarded] using h)
  | var | lit | konst => trivial
  | call2 f a b iha ihb =>
    simp only [E.guarded, Bool.and_eq_true] at h
    exact ⟨iha h.1, ihb h.2⟩
  | add a b iha ihb | sub a b iha ihb | mul a b iha ihb | div a b iha ihb | band a b iha ihb
  | bor a b iha ihb | bxor a b iha ihb | shl a b iha ihb | shr a b iha ihb | imod a b iha ihb =>
    simp only [E.guarded, Bool.and_eq_true] at h
    exact ⟨iha h.1, ihb h.2⟩

/-- **definedness**: for every environment, the leaf selected by the decisions evaluates no
    `sqrt`/`acos`/`asin`/`log` outside its domain -/
theorem Tree.guarded_sound {o : Ops K} (ho : OrderedLike o) (env : Nat → K) (t : Tree) {path : Path}
    (hp : pathHolds o env path) (h : t.guarded path = true) : (t.select o env).Defined o env := by
  induction t generalizing path with
  | leaf e => exact E.guarded_sound ho env hp e h
  | branch c t f iht ihf =>
    simp only [Tree.guarded, Bool.and_eq_true] at h
    simp only [Tree.select]
    by_cases hc : c.eval o env = true
    · rw [if_pos hc]
      exact iht (path := (c, true) :: path) (by
        intro cb hcb; rcases List.mem_cons.1 hcb with rfl | hcb
        · exact hc
        · exact hp cb hcb) h.1.2
    · rw [if_neg hc]
      exact ihf (path := (c, false) :: path) (by
        intro cb hcb; rcases List.mem_cons.1 hcb with rfl | hcb
        · simpa using hc
        · exact hp cb hcb) h.2

end Glm
