-- GENERATED — do not edit
import GlmVerif.Gen.C16.rows_0
import GlmVerif.Gen.C16.rows_1
import GlmVerif.Gen.C16.rows_2
import GlmVerif.Gen.C16.rows_3
import GlmVerif.Gen.C16.rows_4
import GlmVerif.Gen.C16.rows_5
import GlmVerif.Gen.C16.rows_6
import GlmVerif.Gen.C16.rows_7
import GlmVerif.Gen.C16.rows_8
import GlmVerif.Gen.C16.rows_9
import GlmVerif.Gen.C16.rows_10
import GlmVerif.Gen.C16.rows_11
import GlmVerif.Gen.C16.rows_12
import GlmVerif.Gen.C16.rows_13
import GlmVerif.Gen.C16.rows_14
namespace Glm.Gen.C16
open Glm.Layout
def rows : List Row := rows_0 ++ rows_1 ++ rows_2 ++ rows_3 ++ rows_4 ++ rows_5 ++ rows_6 ++ rows_7 ++ rows_8 ++ rows_9 ++ rows_10 ++ rows_11 ++ rows_12 ++ rows_13 ++ rows_14
def probeFailures : Nat := 0
end Glm.Gen.C16
