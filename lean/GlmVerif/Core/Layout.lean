/-!
C16 — storage layout: the documented contract, as a decidable predicate on one measured row.
A row is what the layout probe (`extract/layout_probe.py`, compiled against /repo for each configuration)
printed for one instantiation: sizes, alignment, the byte offset of every element, `value_ptr`, `length()`.
-/
namespace Glm.Layout

structure Row where
  cfg : Nat
  kind : Nat          -- 0 vec (c = L, r = 1), 1 mat (c columns, r rows), 2 qua
  c : Nat
  r : Nat
  tsize : Nat
  talign : Nat
  isFloat : Bool
  aligned : Bool
  qual : Nat          -- 0 highp, 1 mediump, 2 lowp
  sizeof : Nat
  alignof : Nat
  vptr : Nat          -- byte offset of value_ptr(obj) from the object
  cvptr : Nat         -- the same through the overload taking a const object
  len : Nat           -- obj.length()
  lenType : Nat       -- sizeof(length_type)
  aux : Nat           -- mat: sizeof(col_type); qua: 1 iff GLM_FORCE_QUAT_DATA_WXYZ
  offs : List Nat
  deriving DecidableEq, Repr, Inhabited

/-- configuration 7 is `GLM_FORCE_SIZE_T_LENGTH` -/
def lenTypeOf (cfg : Nat) : Nat := if cfg = 7 then 8 else 4

/-- documented size = alignment of an aligned float vector: vec1 4, vec2 8, vec3/vec4 16 -/
def alignedFloatVec (L : Nat) : Nat := if L = 1 then 4 else if L = 2 then 8 else 16

/-- an aligned vector of `L` components occupies `L` rounded up to a power of two elements (vec3 is padded to vec4): float 4/8/16/16 bytes,
    double 8/16/32/32, and likewise for the integer types -/
def alignedSlots (L : Nat) : Nat := if L = 1 then 1 else if L = 2 then 2 else 4

def Row.ok (x : Row) : Bool :=
  x.vptr == 0 && x.cvptr == 0 && x.lenType == lenTypeOf x.cfg &&
  match x.kind with
  | 0 =>  -- vector
    x.len == x.c && x.offs == (List.range x.c).map (· * x.tsize) &&
    (if x.aligned then
        x.sizeof == alignedSlots x.c * x.tsize && x.alignof ≥ x.talign && x.sizeof % x.alignof == 0 &&
        (!(x.isFloat && x.tsize == 4) || (x.sizeof == alignedFloatVec x.c && x.alignof == alignedFloatVec x.c))
     else x.sizeof == x.c * x.tsize && x.alignof == x.talign)
  | 1 =>  -- matrix: c columns of r rows, column-major
    x.len == x.c &&
    (if x.aligned then
        x.offs == (List.range x.c).flatMap (fun c => (List.range x.r).map fun r => c * x.aux + r * x.tsize) &&
        x.sizeof == x.c * x.aux && x.aux == alignedSlots x.r * x.tsize &&
        (!(x.isFloat && x.tsize == 4) || x.aux == alignedFloatVec x.r)
     else
        x.offs == (List.range (x.c * x.r)).map (· * x.tsize) && x.sizeof == x.c * x.r * x.tsize && x.alignof == x.talign)
  | _ =>  -- quaternion: offsets listed for x, y, z, w
    x.len == 4 && x.sizeof == 4 * x.tsize &&
    (if x.aux == 1 then x.offs == [x.tsize, 2 * x.tsize, 3 * x.tsize, 0]
     else x.offs == [0, x.tsize, 2 * x.tsize, 3 * x.tsize])

/-- parse one `ROW …` line of the probe output -/
def parseRow (line : String) : Option Row :=
  let ws := (line.splitOn " ").filter (· ≠ "")
  match ws with
  | "ROW" :: rest =>
    let nums := (rest.takeWhile (· ≠ "|")).map (·.toNat?.getD 0)
    let offs := ((rest.dropWhile (· ≠ "|")).drop 1).map (·.toNat?.getD 0)
    match nums with
    | [cfg, kind, c, r, ts, ta, isf, al, q, so, ao, vp, cvp, len, lt, aux] =>
      some { cfg, kind, c, r, tsize := ts, talign := ta, isFloat := isf == 1, aligned := al == 1, qual := q,
             sizeof := so, alignof := ao, vptr := vp, cvptr := cvp, len, lenType := lt, aux, offs }
    | _ => none
  | _ => none

end Glm.Layout
