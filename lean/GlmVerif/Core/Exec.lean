import GlmVerif.Core.Expr
/-!
Executable semantics at the machine types (`Float32`, `Float`) and the reader for
the tracer's text format.  Used by the native driver: the *same* `E.eval` that
the theorems talk about is run here on concrete inputs and compared bit for bit
with what the real glm returned.
-/
namespace Glm

def truncF (x : Float) : Float := if x < 0 then x.ceil else x.floor
def truncF32 (x : Float32) : Float32 := if x < 0 then x.ceil else x.floor

def litF (n : Int) (d : Nat) : Float := Float.ofInt n / Float.ofNat d

def f64Ops : Ops Float where
  lit n d := litF n d
  konst
    | .eps => Float.ofBits 0x3CB0000000000000
    | .fmin => Float.ofBits 0x0010000000000000
    | .fmax => Float.ofBits 0x7FEFFFFFFFFFFFFF
    | .inf => Float.ofBits 0x7FF0000000000000
  add := (· + ·)
  sub := (· - ·)
  mul := (· * ·)
  div := (· / ·)
  neg := (- ·)
  call1
    | .sqrt => Float.sqrt | .sin => Float.sin | .cos => Float.cos | .tan => Float.tan
    | .asin => Float.asin | .acos => Float.acos | .atan => Float.atan
    | .sinh => Float.sinh | .cosh => Float.cosh | .tanh => Float.tanh
    | .asinh => Float.asinh | .acosh => Float.acosh | .atanh => Float.atanh
    | .exp => Float.exp | .log => Float.log | .exp2 => Float.exp2 | .log2 => Float.log2
    | .floor => Float.floor | .ceil => Float.ceil | .trunc => truncF | .round => Float.round
    | .abs => Float.abs
  call2
    | .atan2 => Float.atan2 | .pow => Float.pow | .fmod => fun _ _ => 0.0/0.0
  call3 _ a b c := a * b + c     -- fma: only used by the counterexample search (units with fma are skipped by the bit-exact correspondence)
  band _ _ := 0
  bor _ _ := 0
  bxor _ _ := 0
  bnot _ := 0
  shl _ _ := 0
  shr _ _ := 0
  imod _ _ := 0
  cast _ a := a
  lt a b := a < b
  le a b := a ≤ b
  eq a b := a == b
  isnan := Float.isNaN
  isinf := Float.isInf

def f32Ops : Ops Float32 where
  lit n d := (litF n d).toFloat32
  konst
    | .eps => Float32.ofBits 0x34000000
    | .fmin => Float32.ofBits 0x00800000
    | .fmax => Float32.ofBits 0x7F7FFFFF
    | .inf => Float32.ofBits 0x7F800000
  add := (· + ·)
  sub := (· - ·)
  mul := (· * ·)
  div := (· / ·)
  neg := (- ·)
  call1
    | .sqrt => Float32.sqrt | .sin => Float32.sin | .cos => Float32.cos | .tan => Float32.tan
    | .asin => Float32.asin | .acos => Float32.acos | .atan => Float32.atan
    | .sinh => Float32.sinh | .cosh => Float32.cosh | .tanh => Float32.tanh
    | .asinh => Float32.asinh | .acosh => Float32.acosh | .atanh => Float32.atanh
    | .exp => Float32.exp | .log => Float32.log | .exp2 => Float32.exp2 | .log2 => Float32.log2
    | .floor => Float32.floor | .ceil => Float32.ceil | .trunc => truncF32 | .round => Float32.round
    | .abs => Float32.abs
  call2
    | .atan2 => Float32.atan2 | .pow => Float32.pow | .fmod => fun _ _ => 0.0/0.0
  call3 _ _ _ _ := 0.0/0.0
  band _ _ := 0
  bor _ _ := 0
  bxor _ _ := 0
  bnot _ := 0
  shl _ _ := 0
  shr _ _ := 0
  imod _ _ := 0
  cast _ a := a
  lt a b := a < b
  le a b := a ≤ b
  eq a b := a == b
  isnan := Float32.isNaN
  isinf := Float32.isInf

/-! machine integers: C++ `int` / `unsigned` (two's complement, wrap-around; `/` and `%` truncate) -/
def i32Ops : Ops Int32 where
  lit n _ := Int32.ofInt n
  konst _ := 0
  add := (· + ·)
  sub := (· - ·)
  mul := (· * ·)
  div a b := if b == 0 then 0 else a / b
  neg := (- ·)
  call1 _ a := a
  call2 _ a _ := a
  call3 _ a _ _ := a
  band := (· &&& ·)
  bor := (· ||| ·)
  bxor := (· ^^^ ·)
  bnot := (~~~ ·)
  shl a b := a <<< b
  shr a b := a >>> b
  imod a b := if b == 0 then 0 else a % b
  cast _ a := a
  lt a b := a < b
  le a b := a ≤ b
  eq a b := a == b
  isnan _ := false
  isinf _ := false

def u32Ops : Ops UInt32 where
  lit n _ := UInt32.ofInt n
  konst _ := 0
  add := (· + ·)
  sub := (· - ·)
  mul := (· * ·)
  div a b := if b == 0 then 0 else a / b
  neg := (- ·)
  call1 _ a := a
  call2 _ a _ := a
  call3 _ a _ _ := a
  band := (· &&& ·)
  bor := (· ||| ·)
  bxor := (· ^^^ ·)
  bnot := (~~~ ·)
  shl a b := a <<< b
  shr a b := a >>> b
  imod a b := if b == 0 then 0 else a % b
  cast _ a := a
  lt a b := a < b
  le a b := a ≤ b
  eq a b := a == b
  isnan _ := false
  isinf _ := false

/-- operations the executable float semantics does not implement (unit is then skipped, and counted) -/
def E.execUnsupported : E → Bool
  | .call2 .fmod _ _ | .call3 _ _ _ _ => true
  | .band .. | .bor .. | .bxor .. | .bnot .. | .shl .. | .shr .. | .imod .. => true
  | .add a b | .sub a b | .mul a b | .div a b | .call2 _ a b => a.execUnsupported || b.execUnsupported
  | .neg a | .call1 _ a | .cast _ a => a.execUnsupported
  | _ => false
def C.execUnsupported : C → Bool
  | .lt a b | .le a b | .eq a b => a.execUnsupported || b.execUnsupported
  | .isnan a | .isinf a => a.execUnsupported
  | .not c => c.execUnsupported
  | .and a b | .or a b => a.execUnsupported || b.execUnsupported
def Tree.execUnsupported : Tree → Bool
  | .leaf e => e.execUnsupported
  | .branch c t f => c.execUnsupported || t.execUnsupported || f.execUnsupported

/-! ### reader for the tracer's `.units` text -/

def parseFn1 : String → Option Fn1
  | "sqrt" => some .sqrt | "sin" => some .sin | "cos" => some .cos | "tan" => some .tan
  | "asin" => some .asin | "acos" => some .acos | "atan" => some .atan
  | "sinh" => some .sinh | "cosh" => some .cosh | "tanh" => some .tanh
  | "asinh" => some .asinh | "acosh" => some .acosh | "atanh" => some .atanh
  | "exp" => some .exp | "log" => some .log | "exp2" => some .exp2 | "log2" => some .log2
  | "floor" => some .floor | "ceil" => some .ceil | "trunc" => some .trunc | "round" => some .round
  | "abs" => some .abs | _ => none
def parseFn2 : String → Option Fn2
  | "atan2" => some .atan2 | "pow" => some .pow | "fmod" => some .fmod | _ => none
def parseKonst : String → Option Konst
  | "eps" => some .eps | "fmin" => some .fmin | "fmax" => some .fmax | "inf" => some .inf | _ => none
def parseTy : String → Option Ty
  | "r" => some .r | "i8" => some .i8 | "i16" => some .i16 | "i32" => some .i32 | "i64" => some .i64
  | "u8" => some .u8 | "u16" => some .u16 | "u32" => some .u32 | "u64" => some .u64 | _ => none

structure PState where
  es : Array (Option E) := #[]
  cs : Array (Option C) := #[]

def PState.setE (s : PState) (i : Nat) (e : E) : PState :=
  let es := if s.es.size ≤ i then s.es ++ Array.replicate (i + 1 - s.es.size) none else s.es
  { s with es := es.set! i (some e) }
def PState.setC (s : PState) (i : Nat) (c : C) : PState :=
  let cs := if s.cs.size ≤ i then s.cs ++ Array.replicate (i + 1 - s.cs.size) none else s.cs
  { s with cs := cs.set! i (some c) }
def PState.e (s : PState) (tok : String) : Except String E :=
  match tok.toNat? with
  | some i => match s.es.getD i none with
    | some e => pure e
    | none => throw s!"undefined node {i}"
  | none => throw s!"bad node id {tok}"
def PState.c (s : PState) (tok : String) : Except String C :=
  match tok.toNat? with
  | some i => match s.cs.getD i none with
    | some c => pure c
    | none => throw s!"undefined cond {i}"
  | none => throw s!"bad cond id {tok}"

def litOfME (m : Int) (e : Int) : E :=
  if e ≥ 0 then .lit (m * (2 : Int) ^ e.toNat) 1 else .lit m (2 ^ (-e).toNat)

def parseNode (s : PState) (p : List String) : Except String E :=
  match p with
  | ["var", i] => match i.toNat? with | some i => pure (.var i) | none => throw "var"
  | ["lit", m, e] => match m.toInt?, e.toInt? with
    | some m, some e => pure (litOfME m e)
    | _, _ => throw "lit"
  | ["liti", n] => match n.toInt? with | some n => pure (.lit n 1) | none => throw "liti"
  | ["konst", k] => match parseKonst k with | some k => pure (.konst k) | none => throw "konst"
  | ["add", a, b] => return .add (← s.e a) (← s.e b)
  | ["sub", a, b] => return .sub (← s.e a) (← s.e b)
  | ["mul", a, b] => return .mul (← s.e a) (← s.e b)
  | ["div", a, b] => return .div (← s.e a) (← s.e b)
  | ["neg", a] => return .neg (← s.e a)
  | ["call1", f, a] => match parseFn1 f with | some f => return .call1 f (← s.e a) | none => throw s!"fn1 {f}"
  | ["call2", f, a, b] => match parseFn2 f with | some f => return .call2 f (← s.e a) (← s.e b) | none => throw s!"fn2 {f}"
  | ["call3", "fma", a, b, c] => return .call3 .fma (← s.e a) (← s.e b) (← s.e c)
  | ["band", a, b] => return .band (← s.e a) (← s.e b)
  | ["bor", a, b] => return .bor (← s.e a) (← s.e b)
  | ["bxor", a, b] => return .bxor (← s.e a) (← s.e b)
  | ["bnot", a] => return .bnot (← s.e a)
  | ["shl", a, b] => return .shl (← s.e a) (← s.e b)
  | ["shr", a, b] => return .shr (← s.e a) (← s.e b)
  | ["imod", a, b] => return .imod (← s.e a) (← s.e b)
  | ["cast", t, a] => match parseTy t with | some t => return .cast t (← s.e a) | none => throw "cast"
  | _ => throw s!"bad node {p}"

def parseCond (s : PState) (p : List String) : Except String C :=
  match p with
  | ["lt", a, b] => return .lt (← s.e a) (← s.e b)
  | ["le", a, b] => return .le (← s.e a) (← s.e b)
  | ["eq", a, b] => return .eq (← s.e a) (← s.e b)
  | ["isnan", a] => return .isnan (← s.e a)
  | ["isinf", a] => return .isinf (← s.e a)
  | ["not", a] => return .not (← s.c a)
  | ["and", a, b] => return .and (← s.c a) (← s.c b)
  | ["or", a, b] => return .or (← s.c a) (← s.c b)
  | _ => throw s!"bad cond {p}"

partial def parseTree (s : PState) : List String → Except String (Tree × List String)
  | "L" :: i :: rest => return (.leaf (← s.e i), rest)
  | "B" :: c :: rest => do
    let c ← s.c c
    let (t, rest) ← parseTree s rest
    let (f, rest) ← parseTree s rest
    return (.branch c t f, rest)
  | l => throw s!"bad tree {l.take 3}"

def words (line : String) : List String :=
  (line.trimAscii.toString.splitOn " ").filter (· ≠ "")

/-- parse a whole `.units` file; units whose trace failed (`X` line) are returned with no outputs -/
def parseUnits (text : String) : Except String (Array Unit) := do
  let mut units : Array Unit := #[]
  let mut st : PState := {}
  let mut cur : Option Unit := none
  let mut trees : Array Tree := #[]
  for line in text.splitOn "\n" do
    match words line with
    | "U" :: name :: ty :: nin :: _ =>
      st := {}
      trees := #[]
      cur := some { name := name, ty := (parseTy ty).getD .r, nIn := nin.toNat?.getD 0, outs := [] }
    | "N" :: i :: rest =>
      let e ← parseNode st rest
      st := st.setE (i.toNat?.getD 0) e
    | "C" :: i :: rest =>
      let c ← parseCond st rest
      st := st.setC (i.toNat?.getD 0) c
    | "T" :: _ :: rest =>
      let (t, _) ← parseTree st rest
      trees := trees.push t
    | "X" :: _ => pure ()
    | ["E"] =>
      match cur with
      | some u => units := units.push { u with outs := trees.toList }
      | none => pure ()
      cur := none
    | _ => pure ()
  return units

end Glm
