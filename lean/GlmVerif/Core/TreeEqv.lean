import GlmVerif.Core.Guard
/-!
Semantic comparison of two decision trees of **different shape** (Mathlib-free, runs natively too).

`treeOK` (Core/Poly) wants the same shape.  The SIMD code of glm decides the same questions in another
order and number (`_mm_movemask_ps` of a 4-lane compare: 16 paths; the short-circuit `&&` of the generic
code: 5 paths), so C03 compares trees by walking **both** at once: the decisions taken so far are a
`Path`; a decision whose outcome the path already implies is not split again; at every pair of leaves
that can be reached together the two expressions must agree (`leafOK`, which may use the path).
Soundness (`Sem/TreeEqv.lean`): for every environment the two selected leaves pass `leafOK` under a path
that holds in that environment.
-/
namespace Glm

/-- decisions rewritten to atomic comparisons: `not` flips, a true `and` / false `or` splits,
    a true `eq a b` also records `a ≤ b` and `b ≤ a` -/
def normCB : Nat → C → Bool → Path
  | 0, c, b => [(c, b)]
  | n + 1, .not c, b => normCB n c (!b)
  | n + 1, .and x y, true => normCB n x true ++ normCB n y true
  | n + 1, .or x y, false => normCB n x false ++ normCB n y false
  | _ + 1, .eq x y, true => [(.eq x y, true), (.le x y, true), (.le y x, true)]
  | _ + 1, c, b => [(c, b)]

def normPath (path : Path) : Path := path.flatMap fun cb => normCB 8 cb.1 cb.2

/-- `a ≤ b` / `a < b` without any path fact: `b − a` is, as a polynomial, a non-negative (positive) constant
    (`r − r`, `eps − (x − x)`, a literal) -/
def isPosLit : E → Bool
  | .lit n d => decide (0 < n) && d != 0
  | _ => false
def trivLE (a b : E) : Bool := slackNonneg (.sub b a)
def trivLT (a b : E) : Bool := (E.sub b a).lits.any fun l => isPosLit l && polyEq (.sub b a) l
def ordLE (np : Path) (a b : E) : Bool := pathLE np a b || trivLE a b
def ordLT (np : Path) (a b : E) : Bool := pathLT np a b || trivLT a b

/-- outcome of `c` implied by a path of atomic comparisons, in an ordered semantics -/
def impliedAtom (np : Path) : C → Option Bool
  | .lt a b => if ordLT np a b then some true else if ordLE np b a then some false else none
  | .le a b => if ordLE np a b then some true else if ordLT np b a then some false else none
  | .eq a b => if ordLT np a b || ordLT np b a then some false
               else if ordLE np a b && ordLE np b a then some true else none
  | _ => none

/-- outcome of `c` implied by the decisions on `path`: the same decision (operands up to `polyEq`) was
    taken before, or — when `ordered` — the comparisons taken before imply it in a linear order -/
def implied (ordered : Bool) (path : Path) : C → Option Bool
  | .not c => (implied ordered path c).map (!·)
  | .and x y =>
    match implied ordered path x, implied ordered path y with
    | some false, _ => some false
    | _, some false => some false
    | some true, some true => some true
    | _, _ => none
  | .or x y =>
    match implied ordered path x, implied ordered path y with
    | some true, _ => some true
    | _, some true => some true
    | some false, some false => some false
    | _, _ => none
  | c =>
    match path.find? (fun cb => condOK c cb.1) with
    | some cb => some cb.2
    | none => if ordered then impliedAtom (normPath path) c else none

/-- one leaf against a tree -/
def leafVsTree (imp : Path → C → Option Bool) (leafOK : Path → E → E → Bool) (a : E) : Path → Tree → Bool
  | path, .leaf b => leafOK path a b
  | path, .branch c t f =>
    match imp path c with
    | some true => leafVsTree imp leafOK a path t
    | some false => leafVsTree imp leafOK a path f
    | none => leafVsTree imp leafOK a ((c, true) :: path) t && leafVsTree imp leafOK a ((c, false) :: path) f

/-- both trees walked together; every jointly reachable pair of leaves must pass `leafOK` -/
def treeEqv (imp : Path → C → Option Bool) (leafOK : Path → E → E → Bool) : Path → Tree → Tree → Bool
  | path, .leaf a, s => leafVsTree imp leafOK a path s
  | path, .branch c t f, s =>
    match imp path c with
    | some true => treeEqv imp leafOK path t s
    | some false => treeEqv imp leafOK path f s
    | none => treeEqv imp leafOK ((c, true) :: path) t s && treeEqv imp leafOK ((c, false) :: path) f s

/-- pairs of operands that the (normalised) path forces to be equal in a linear order -/
def eqCands (np : Path) : List (E × E) :=
  np.filterMap fun cb =>
    match cb.1 with
    | .lt x y | .le x y | .eq x y => if pathLE np x y && pathLE np y x then some (x, y) else none
    | _ => none

/-- leaves agree as polynomials over atoms, possibly after replacing `x` by `y` (or `y` by `x`) for a
    pair the path forces to be equal: `min`'s `¬(y < x)`, `¬(x < y)` leaves `x` and `y` -/
def leafEqvOrd (path : Path) (a b : E) : Bool :=
  a == b || polyEq a b ||
  (eqCands (normPath path)).any fun σ =>
    polyEq (a.rewrite [σ]) (b.rewrite [σ]) || polyEq (a.rewrite [(σ.2, σ.1)]) (b.rewrite [(σ.2, σ.1)])

def leafEqvPoly (_ : Path) (a b : E) : Bool := a == b || polyEq a b
def leafEqvSyn (_ : Path) (a b : E) : Bool := a == b
def leafEqvFrac (_ : Path) (a b : E) : Bool := a == b || fracEq a b

end Glm

namespace Glm
/-! ### pure order reasoning (no arithmetic): valid in every linear order

The decisions on a path are edges `a ≤ b` / `a < b` between expressions; `reachLE`/`reachLT` follow them
transitively (bounded depth).  Used by C03 for selection code (`min`, `max`, `clamp` on floats and integers),
where the two implementations ask the same order questions about the same operands in another sequence. -/

/-- `(a, b, strict)`: the path says `a < b` (strict) or `a ≤ b` -/
def pathEdges (np : Path) : List (E × E × Bool) :=
  np.filterMap fun cb =>
    match cb with
    | (.lt a b, true) => some (a, b, true)
    | (.lt a b, false) => some (b, a, false)
    | (.le a b, true) => some (a, b, false)
    | (.le a b, false) => some (b, a, true)
    | _ => none

/-- small integer literals (the order of literals is only used within ±2^30, where every semantics agrees) -/
def smallLit : E → Option Int
  | .lit n 1 => if -1073741824 ≤ n && n ≤ 1073741824 then some n else none
  | _ => none

def litLE (x y : E) : Bool :=
  match smallLit x, smallLit y with
  | some n, some m => n ≤ m
  | _, _ => false
def litLT (x y : E) : Bool :=
  match smallLit x, smallLit y with
  | some n, some m => n < m
  | _, _ => false

def edgesOf (np : Path) : List (E × E × Bool) := pathEdges np

/-- the same node of the order graph: literally, or as polynomials over the atoms -/
def nodeEq (a b : E) : Bool := a == b || polyEq a b

def reachLE (es : List (E × E × Bool)) : Nat → E → E → Bool
  | 0, x, y => nodeEq x y || litLE x y
  | n + 1, x, y => nodeEq x y || litLE x y || es.any fun e => nodeEq e.1 x && reachLE es n e.2.1 y

def reachLT (es : List (E × E × Bool)) : Nat → E → E → Bool
  | 0, x, y => litLT x y
  | n + 1, x, y => litLT x y || es.any fun e => nodeEq e.1 x && ((e.2.2 && reachLE es n e.2.1 y) || reachLT es n e.2.1 y)

def linDepth : Nat := 4

def impliedAtomLin (np : Path) : C → Option Bool :=
  let es := edgesOf np
  fun
  | .lt a b => if reachLT es linDepth a b then some true else if reachLE es linDepth b a then some false else none
  | .le a b => if reachLE es linDepth a b then some true else if reachLT es linDepth b a then some false else none
  | .eq a b => if reachLT es linDepth a b || reachLT es linDepth b a then some false
               else if reachLE es linDepth a b && reachLE es linDepth b a then some true else none
  | _ => none

/-- outcome of `c` implied by the path in a linear order: the same decision (operands up to `polyEq`) was taken before, or the
    order edges of the path imply it -/
def impliedLin (path : Path) : C → Option Bool
  | .not c => (impliedLin path c).map (!·)
  | .and x y =>
    match impliedLin path x, impliedLin path y with
    | some false, _ => some false
    | _, some false => some false
    | some true, some true => some true
    | _, _ => none
  | .or x y =>
    match impliedLin path x, impliedLin path y with
    | some true, _ => some true
    | _, some true => some true
    | some false, some false => some false
    | _, _ => none
  | c =>
    match path.find? (fun cb => condOK c cb.1) with
    | some cb => some cb.2
    | none => impliedAtomLin (normPath path) c

/-- pairs of operands of the path's comparisons that the order edges force to be equal -/
def eqCandsLin (np : Path) : List (E × E) :=
  let es := edgesOf np
  np.filterMap fun cb =>
    match cb.1 with
    | .lt x y | .le x y | .eq x y => if reachLE es linDepth x y && reachLE es linDepth y x then some (x, y) else none
    | _ => none

/-- the arithmetic oracle first (one fact + slack), then the transitive order oracle -/
def impliedAll (path : Path) (c : C) : Option Bool :=
  match implied true path c with
  | some b => some b
  | none => impliedLin path c

end Glm
