import GlmVerif.Core.TreeEqv
/-!
Implication oracle for the two-tree walk over **IEEE-style semantics with NaN** (no order reasoning, so it is sound in every
semantics, the machine floats included, in which a comparison with a NaN operand is false):
* a condition already decided on the path keeps its value;
* once `isnan x` holds on the path, `x < y`, `y < x`, `x ≤ y`, `y ≤ x`, `x == y`, `y == x` are false.
Used for the NaN-aware selections (`fmin`, `fmax`, `fclamp` of C01), whose scalar and vector overloads test for NaN in different orders.
-/
namespace Glm

def lookupC (path : Path) (c : C) : Option Bool :=
  match path.find? (fun cb => cb.1 == c) with
  | some cb => some cb.2
  | none => none

def nanOn (path : Path) (x : E) : Bool := path.any fun cb => cb.2 && cb.1 == C.isnan x

def impliedNan (path : Path) (c : C) : Option Bool :=
  match lookupC path c with
  | some b => some b
  | none =>
    match c with
    | .lt x y | .le x y | .eq x y => if nanOn path x || nanOn path y then some false else none
    | _ => none

end Glm
