import GlmVerif.Core.Poly
/-!
Definedness obligations.  In real arithmetic `sqrt (-1) * 0 = 0`, but the IEEE evaluation
of the same expression is NaN.  `Tree.guarded` checks, decision path by decision path, that
every argument of a partial function (`sqrt`: `0 ≤ a`; `acos`/`asin`: `-1 ≤ a ≤ 1`; `log`:
`0 < a`) that the code evaluates on that path is in the function's domain **as a consequence of
the comparisons already taken on the path** (or syntactically, e.g. a sum of squares).
Soundness (`Sem/Guard.lean`): in every ordered-field semantics the evaluated arguments are in
range, so no invalid operation is hidden behind a multiplication by zero.
-/
namespace Glm

abbrev Path := List (C × Bool)

/-- syntactically non-negative: sums and products of squares and of non-negative integer literals -/
def E.nonnegSyn : E → Bool
  | .lit n d => decide (0 ≤ n) && d == 1
  | .mul a b => a == b || (a.nonnegSyn && b.nonnegSyn)
  | .add a b => a.nonnegSyn && b.nonnegSyn
  | _ => false

/-- what the decisions on a path say: `(d, strict)` means `0 < d` (strict) or `0 ≤ d` -/
def factsOf (path : Path) : List (E × Bool) :=
  path.filterMap fun cb =>
    match cb with
    | (.lt p q, true) => some (.sub q p, true)
    | (.le q p, false) => some (.sub q p, true)
    | (.le p q, true) => some (.sub q p, false)
    | (.lt q p, false) => some (.sub q p, false)
    | _ => none

/-- the literal sub-terms of an expression (through `+ - * neg`) -/
def E.lits : E → List E
  | .lit n d => [.lit n d]
  | .add a b | .sub a b | .mul a b => a.lits ++ b.lits
  | .neg a => a.lits
  | _ => []
def isNonnegLit : E → Bool
  | .lit n _ => decide (0 ≤ n)
  | _ => false

/-- syntactically non-negative slack: `0`, `1`, `2`, the machine epsilon, `1 + eps`, or any non-negative literal that occurs in it -/
def slackNonneg (d : E) : Bool :=
  polyEq d (.lit 0 1) || polyEq d (.lit 1 1) || polyEq d (.lit 2 1) || polyEq d (.konst .eps)
    || polyEq d (.add (.lit 1 1) (.konst .eps)) || d.lits.any fun l => isNonnegLit l && polyEq d l

/-- the decisions on `path` (or literal comparison) imply `x ≤ y`: some recorded fact `0 ≤ d` satisfies
    `(y - x) - d = slack ≥ 0` as polynomials -/
def pathLE (path : Path) (x y : E) : Bool :=
  (match x, y with
   | .lit n 1, .lit m 1 => decide (n ≤ m)
   | _, _ => false) ||
  (factsOf path).any fun f => slackNonneg (.sub (.sub y x) f.1)

/-- the decisions on `path` imply `x < y` -/
def pathLT (path : Path) (x y : E) : Bool :=
  (factsOf path).any fun f => f.2 && slackNonneg (.sub (.sub y x) f.1)

def nonnegOK (path : Path) (a : E) : Bool := a.nonnegSyn || pathLE path (.lit 0 1) a
def unitOK (path : Path) (a : E) : Bool := pathLE path (.lit (-1) 1) a && pathLE path a (.lit 1 1)
def posOK (path : Path) (a : E) : Bool := pathLT path (.lit 0 1) a

/-- every partial-function call inside `e` has its argument in range, given the path -/
def E.guarded (path : Path) : E → Bool
  | .call1 .sqrt a => a.guarded path && nonnegOK path a
  | .call1 .acos a => a.guarded path && unitOK path a
  | .call1 .asin a => a.guarded path && unitOK path a
  | .call1 .log a => a.guarded path && posOK path a
  | .call1 .log2 a => a.guarded path && posOK path a
  | .call1 _ a => a.guarded path
  | .neg a | .bnot a | .cast _ a => a.guarded path
  | .add a b | .sub a b | .mul a b | .div a b | .call2 _ a b
  | .band a b | .bor a b | .bxor a b | .shl a b | .shr a b | .imod a b => a.guarded path && b.guarded path
  | .call3 _ a b c => a.guarded path && b.guarded path && c.guarded path
  | .var _ | .lit _ _ | .konst _ => true

def C.guarded (path : Path) : C → Bool
  | .lt a b | .le a b | .eq a b => a.guarded path && b.guarded path
  | .isnan a | .isinf a => a.guarded path
  | .not c => c.guarded path
  | .and a b | .or a b => a.guarded path && b.guarded path

/-- along every decision path: the operands of each comparison and the selected leaf are defined -/
def Tree.guarded (path : Path) : Tree → Bool
  | .leaf e => e.guarded path
  | .branch c t f => c.guarded path && t.guarded ((c, true) :: path) && f.guarded ((c, false) :: path)

end Glm
