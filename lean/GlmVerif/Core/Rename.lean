import GlmVerif.Core.Poly
/-! Renaming of input variables: the vector overload's component `i` is compared with the scalar
overload's tree in which variable `k` (the `k`-th argument) is replaced by that argument's `i`-th
component (or the argument itself when it is a broadcast scalar). -/
namespace Glm

def E.rename (σ : Nat → Nat) : E → E
  | .var i => .var (σ i)
  | .lit n d => .lit n d
  | .konst k => .konst k
  | .add a b => .add (a.rename σ) (b.rename σ)
  | .sub a b => .sub (a.rename σ) (b.rename σ)
  | .mul a b => .mul (a.rename σ) (b.rename σ)
  | .div a b => .div (a.rename σ) (b.rename σ)
  | .neg a => .neg (a.rename σ)
  | .call1 f a => .call1 f (a.rename σ)
  | .call2 f a b => .call2 f (a.rename σ) (b.rename σ)
  | .call3 f a b c => .call3 f (a.rename σ) (b.rename σ) (c.rename σ)
  | .band a b => .band (a.rename σ) (b.rename σ)
  | .bor a b => .bor (a.rename σ) (b.rename σ)
  | .bxor a b => .bxor (a.rename σ) (b.rename σ)
  | .bnot a => .bnot (a.rename σ)
  | .shl a b => .shl (a.rename σ) (b.rename σ)
  | .shr a b => .shr (a.rename σ) (b.rename σ)
  | .imod a b => .imod (a.rename σ) (b.rename σ)
  | .cast t a => .cast t (a.rename σ)

def C.rename (σ : Nat → Nat) : C → C
  | .lt a b => .lt (a.rename σ) (b.rename σ)
  | .le a b => .le (a.rename σ) (b.rename σ)
  | .eq a b => .eq (a.rename σ) (b.rename σ)
  | .isnan a => .isnan (a.rename σ)
  | .isinf a => .isinf (a.rename σ)
  | .not c => .not (c.rename σ)
  | .and a b => .and (a.rename σ) (b.rename σ)
  | .or a b => .or (a.rename σ) (b.rename σ)

def Tree.rename (σ : Nat → Nat) : Tree → Tree
  | .leaf e => .leaf (e.rename σ)
  | .branch c t f => .branch (c.rename σ) (t.rename σ) (f.rename σ)

theorem E.eval_rename {α : Type} (o : Ops α) (env : Nat → α) (σ : Nat → Nat) (e : E) :
    (e.rename σ).eval o env = e.eval o (fun k => env (σ k)) := by
  induction e <;> simp_all [E.rename, E.eval]

theorem C.eval_rename {α : Type} (o : Ops α) (env : Nat → α) (σ : Nat → Nat) (c : C) :
    (c.rename σ).eval o env = c.eval o (fun k => env (σ k)) := by
  induction c <;> simp_all [C.rename, C.eval, E.eval_rename]

theorem Tree.eval_rename {α : Type} (o : Ops α) (env : Nat → α) (σ : Nat → Nat) (t : Tree) :
    (t.rename σ).eval o env = t.eval o (fun k => env (σ k)) := by
  induction t <;> simp_all [Tree.rename, Tree.eval, E.eval_rename, C.eval_rename]

/-! `fma(a,b,c)` read as the documented formula `a*b + c` (the "composite formula" class of C01:
vector and scalar overloads agree in exact arithmetic, each within the rounding of that formula) -/
def E.expandFma : E → E
  | .call3 .fma a b c => .add (.mul a.expandFma b.expandFma) c.expandFma
  | .add a b => .add a.expandFma b.expandFma
  | .sub a b => .sub a.expandFma b.expandFma
  | .mul a b => .mul a.expandFma b.expandFma
  | .div a b => .div a.expandFma b.expandFma
  | .neg a => .neg a.expandFma
  | .call1 f a => .call1 f a.expandFma
  | .call2 f a b => .call2 f a.expandFma b.expandFma
  | e => e

def Tree.expandFma : Tree → Tree
  | .leaf e => .leaf e.expandFma
  | .branch c t f => .branch c t.expandFma f.expandFma

theorem E.eval_expandFma {α : Type} (o : Ops α) (hf : ∀ a b c, o.call3 .fma a b c = o.add (o.mul a b) c)
    (env : Nat → α) (e : E) : e.expandFma.eval o env = e.eval o env := by
  induction e with
  | call3 f a b c iha ihb ihc => cases f; simp only [E.expandFma, E.eval, iha, ihb, ihc, hf]
  | add a b iha ihb | sub a b iha ihb | mul a b iha ihb | div a b iha ihb => simp only [E.expandFma, E.eval, iha, ihb]
  | neg a iha => simp only [E.expandFma, E.eval, iha]
  | call1 f a iha => simp only [E.expandFma, E.eval, iha]
  | call2 f a b iha ihb => simp only [E.expandFma, E.eval, iha, ihb]
  | _ => rfl

theorem Tree.eval_expandFma {α : Type} (o : Ops α) (hf : ∀ a b c, o.call3 .fma a b c = o.add (o.mul a b) c)
    (env : Nat → α) (t : Tree) : t.expandFma.eval o env = t.eval o env := by
  induction t with
  | leaf e => exact E.eval_expandFma o hf env e
  | branch c t f iht ihf => simp only [Tree.expandFma, Tree.eval, iht, ihf]

end Glm
