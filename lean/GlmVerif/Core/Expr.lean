/-
  The model language.  One `Unit` = one traced glm call: for every output
  component a decision `Tree` whose leaves are expressions `E` over the input
  variables.  Terms of these types under `GlmVerif/Gen/` are *generated* from
  /repo on every run by the tracer (`/verif/trace`); nothing here imports
  Mathlib so that the same definitions are compiled into the native driver.
-/
namespace Glm

/-- scalar types a traced value can have -/
inductive Ty | r | i8 | i16 | i32 | i64 | u8 | u16 | u32 | u64
  deriving DecidableEq, Repr, Inhabited

def Ty.bits : Ty → Nat
  | .r => 0 | .i8 | .u8 => 8 | .i16 | .u16 => 16 | .i32 | .u32 => 32 | .i64 | .u64 => 64
def Ty.signed : Ty → Bool
  | .i8 | .i16 | .i32 | .i64 => true | _ => false

inductive Fn1
  | sqrt | sin | cos | tan | asin | acos | atan | sinh | cosh | tanh | asinh | acosh | atanh
  | exp | log | exp2 | log2 | floor | ceil | trunc | round | abs
  deriving DecidableEq, Repr, Inhabited
inductive Fn2 | atan2 | pow | fmod
  deriving DecidableEq, Repr, Inhabited
inductive Fn3 | fma
  deriving DecidableEq, Repr, Inhabited
/-- type-dependent constants (`std::numeric_limits<T>`) kept symbolic -/
inductive Konst | eps | fmin | fmax | inf
  deriving DecidableEq, Repr, Inhabited

inductive E
  | var (i : Nat)
  | lit (n : Int) (d : Nat)            -- the exact value n/d of a C++ literal (d a power of two)
  | konst (k : Konst)
  | add (a b : E) | sub (a b : E) | mul (a b : E) | div (a b : E) | neg (a : E)
  | call1 (f : Fn1) (a : E) | call2 (f : Fn2) (a b : E) | call3 (f : Fn3) (a b c : E)
  | band (a b : E) | bor (a b : E) | bxor (a b : E) | bnot (a : E)
  | shl (a b : E) | shr (a b : E) | imod (a b : E)
  | cast (t : Ty) (a : E)
  deriving DecidableEq, Repr, Inhabited

inductive C
  | lt (a b : E) | le (a b : E) | eq (a b : E)
  | isnan (a : E) | isinf (a : E)
  | not (c : C) | and (a b : C) | or (a b : C)
  deriving DecidableEq, Repr, Inhabited

inductive Tree
  | leaf (e : E)
  | branch (c : C) (t f : Tree)
  deriving DecidableEq, Repr, Inhabited

structure Unit where
  name : String
  ty   : Ty
  nIn  : Nat
  outs : List Tree
  deriving DecidableEq, Repr, Inhabited

def Unit.out (u : Unit) (j : Nat) : Tree := u.outs.getD j (.leaf (.lit 0 1))

/-- one semantics = one record of operations -/
structure Ops (α : Type) where
  lit   : Int → Nat → α
  konst : Konst → α
  add : α → α → α
  sub : α → α → α
  mul : α → α → α
  div : α → α → α
  neg : α → α
  call1 : Fn1 → α → α
  call2 : Fn2 → α → α → α
  call3 : Fn3 → α → α → α → α
  band : α → α → α
  bor  : α → α → α
  bxor : α → α → α
  bnot : α → α
  shl : α → α → α
  shr : α → α → α
  imod : α → α → α
  cast : Ty → α → α
  lt : α → α → Bool
  le : α → α → Bool
  eq : α → α → Bool
  isnan : α → Bool
  isinf : α → Bool

variable {α : Type}

def E.eval (o : Ops α) (env : Nat → α) : E → α
  | .var i => env i
  | .lit n d => o.lit n d
  | .konst k => o.konst k
  | .add a b => o.add (a.eval o env) (b.eval o env)
  | .sub a b => o.sub (a.eval o env) (b.eval o env)
  | .mul a b => o.mul (a.eval o env) (b.eval o env)
  | .div a b => o.div (a.eval o env) (b.eval o env)
  | .neg a => o.neg (a.eval o env)
  | .call1 f a => o.call1 f (a.eval o env)
  | .call2 f a b => o.call2 f (a.eval o env) (b.eval o env)
  | .call3 f a b c => o.call3 f (a.eval o env) (b.eval o env) (c.eval o env)
  | .band a b => o.band (a.eval o env) (b.eval o env)
  | .bor a b => o.bor (a.eval o env) (b.eval o env)
  | .bxor a b => o.bxor (a.eval o env) (b.eval o env)
  | .bnot a => o.bnot (a.eval o env)
  | .shl a b => o.shl (a.eval o env) (b.eval o env)
  | .shr a b => o.shr (a.eval o env) (b.eval o env)
  | .imod a b => o.imod (a.eval o env) (b.eval o env)
  | .cast t a => o.cast t (a.eval o env)

def C.eval (o : Ops α) (env : Nat → α) : C → Bool
  | .lt a b => o.lt (a.eval o env) (b.eval o env)
  | .le a b => o.le (a.eval o env) (b.eval o env)
  | .eq a b => o.eq (a.eval o env) (b.eval o env)
  | .isnan a => o.isnan (a.eval o env)
  | .isinf a => o.isinf (a.eval o env)
  | .not c => !(c.eval o env)
  | .and a b => a.eval o env && b.eval o env
  | .or a b => a.eval o env || b.eval o env

def Tree.eval (o : Ops α) (env : Nat → α) : Tree → α
  | .leaf e => e.eval o env
  | .branch c t f => if c.eval o env then t.eval o env else f.eval o env

/-- the leaf expression selected by the decisions, for theorems about the formula itself -/
def Tree.select (o : Ops α) (env : Nat → α) : Tree → E
  | .leaf e => e
  | .branch c t f => if c.eval o env then t.select o env else f.select o env

theorem Tree.eval_eq_select (o : Ops α) (env : Nat → α) (t : Tree) :
    t.eval o env = (t.select o env).eval o env := by
  induction t with
  | leaf e => rfl
  | branch c t f iht ihf => simp only [Tree.eval, Tree.select]; split <;> assumption

/-- all leaves of a tree -/
def Tree.leaves : Tree → List E
  | .leaf e => [e]
  | .branch _ t f => t.leaves ++ f.leaves

def Tree.isLeaf : Tree → Bool
  | .leaf _ => true
  | _ => false

/-- syntactic classes used as side conditions of the generic theorems -/
def E.isPoly : E → Bool
  | .var _ => true
  | .lit _ d => d == 1
  | .add a b | .sub a b | .mul a b => a.isPoly && b.isPoly
  | .neg a => a.isPoly
  | _ => false

end Glm
